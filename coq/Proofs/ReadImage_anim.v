(* Glue of read_frame, part 11 -- ANIMATIONS DECODED FROM THE FILE BYTES (C06 / C07 link).
   For every well-formed animated container (Spec.Container.wf; ANMF chunks with any unknown / metadata chunks before, between
   and after them) whose frame payloads decode (VP8L: Spec.VP8L under the two C01 format conditions; VP8 and ALPH+VP8: under the
   hypotheses on the frame decoder [vp8]) and whose frames lie inside the canvas:
     play_from_file      n successive read_frame calls of Model.ReadImage on the decoder WebPDecoder::new returns for the file's
                         bytes = Model.Anim.play on the file "with frames given decoded" whose frames are the specification's pixels
                         of the payloads; that file is a valid_file of Proofs/Anim_play.v;
     read_frame_from_file_spec   hence (C06 read_frame_spec) the k-th call returns the k-th duration and the rendering of the
                         specification's canvas after k frames -- now for frames decoded FROM THE FILE BYTES.
   Ingredients: the loop that steps over chunks between frames (find_anmf, fix df17279), the per-frame theorems of
   Proofs/ReadImage_frame.v, the decoder record of `new` on an animated container (Proofs/Container_extended.v), and
   Proofs/Anim_play.v (state_after / read_frame_core_after). *)
From Coq Require Import ZArith List Bool Lia Arith.
From WebP Require Import Lib.Res Lib.ZBits Spec.Container Spec.YUV.
From WebP Require Import Proofs.Container_bytes Proofs.Container_simple Proofs.Container_scan Proofs.Container_extended
  Proofs.ReadImage_base Proofs.ReadImage_lossy Proofs.ReadImage_frame.
From WebP Require Proofs.C01_top Proofs.ReadImage_vp8l Model.Anim Proofs.Anim_play Proofs.Alpha_unfilter.
From WebP Require Import Model.ReadImage.
Import ListNotations.
Open Scope Z_scope.

Ltac Zify.zify_post_hook ::= Z.div_mod_to_equations.

(* ---------------------------------------------------------------------------------------------- *)
(* A. the loop that locates the next ANMF chunk                                                     *)
(* ---------------------------------------------------------------------------------------------- *)
Lemma find_anmf_hit d pos nfs fuel A rA :
  M.read_chunk_header d pos = Ok ((M.KANMF, A, rA), pos + 8) -> 32 <= A ->
  find_anmf (S fuel) d pos nfs = (Ok (A, pos + 8), nfs).
Proof.
  intros H HA. cbn [find_anmf]. rewrite H. cbn [with_nfs].
  destruct (32 <=? A) eqn:E; [reflexivity | apply Z.leb_gt in E; lia].
Qed.

Lemma find_anmf_skip d pos nfs fuel c rest :
  at_pos d pos (chunk_bytes c ++ rest) -> chunk_ok c = true -> chunk_frame c = None -> len d <= 4294967294 -> 0 <= nfs <= pos ->
  find_anmf (S fuel) d pos nfs = find_anmf fuel d (pos + len (chunk_bytes c)) (nfs + len (chunk_bytes c)).
Proof.
  intros Hat Hok Hfr Hd Hn.
  pose proof (chunk_cc_len c Hok) as Hcc. rewrite (len_chunk_bytes c Hok).
  unfold chunk_bytes in Hat.
  destruct (ser_chunk_header d pos _ _ rest Hat Hcc) as (Hh & Hpay & Hrest).
  destruct (at_pos_bound _ _ _ Hat) as [Hp0 Hb]. rewrite len_app, (len_ser_chunk4 _ _ Hcc) in Hb.
  pose proof (len_nonneg (chunk_payload c)) as Hpl0. pose proof (len_nonneg rest) as Hrest0.
  pose proof (rounded_bounds _ Hpl0) as Hrb.
  set (pl := len (chunk_payload c)) in *.
  assert (Hhdr : M.read_chunk_header d pos = Ok ((ckind c, pl, rounded pl), pos + 8)).
  { apply read_chunk_header_at; [exact Hh | exact Hcc | lia]. }
  cbn [find_anmf]. rewrite Hhdr. cbn [with_nfs]. rewrite (ckind_spec c Hok).
  destruct c; try discriminate Hfr; cbn [ckind_expected];
    rewrite seek_relative_ok by (unfold M.u64_max; lia); cbn [with_nfs];
    rewrite add_u64_ok by (unfold M.u64_max; lia); cbn [bind]; rewrite add_u64_ok by (unfold M.u64_max; lia); cbn [with_nfs];
    f_equal; lia.
Qed.

Lemma frames_of_nil_cons c cs : frames_of (c :: cs) = [] -> chunk_frame c = None /\ frames_of cs = [].
Proof. rewrite frames_of_cons. destruct (chunk_frame c); [discriminate | auto]. Qed.

Lemma find_anmf_gap d P rest : len d <= 4294967294 -> 32 <= len P ->
  forall skipped fuel pos nfs,
  at_pos d pos (concat (map chunk_bytes skipped) ++ ser_chunk cc_ANMF P ++ rest) ->
  forallb chunk_ok skipped = true -> frames_of skipped = [] -> (length skipped < fuel)%nat -> 0 <= nfs <= pos ->
  find_anmf fuel d pos nfs
  = (Ok (len P, pos + len (concat (map chunk_bytes skipped)) + 8), nfs + len (concat (map chunk_bytes skipped))).
Proof.
  intros Hd HP. induction skipped as [|c sk IH]; intros fuel pos nfs Hat Hok Hfr Hf Hn.
  - cbn [map concat app] in *. rewrite len_nil, !Z.add_0_r.
    destruct fuel as [|fuel]; [cbn [length] in Hf; lia|].
    destruct (ser_chunk_header d pos _ _ rest Hat eq_refl) as (Hh & _ & _).
    destruct (at_pos_bound _ _ _ Hat) as [_ Hb]. rewrite len_app, (len_ser_chunk4 cc_ANMF P eq_refl) in Hb.
    pose proof (len_nonneg rest). pose proof (rounded_bounds (len P) ltac:(lia)).
    apply (find_anmf_hit d pos nfs fuel (len P) (rounded (len P))); [|exact HP].
    rewrite (read_chunk_header_at d pos cc_ANMF (len P) Hh eq_refl) by lia. reflexivity.
  - rewrite forallb_cons, andb_true_iff in Hok. destruct Hok as [Hc Hsk].
    destruct (frames_of_nil_cons c sk Hfr) as [Hfc Hfs].
    destruct fuel as [|fuel]; [cbn [length] in Hf; lia|].
    cbn [map concat] in Hat. rewrite <- app_assoc in Hat.
    rewrite (find_anmf_skip d pos nfs fuel c _ Hat Hc Hfc Hd Hn).
    pose proof (len_nonneg (chunk_bytes c)) as Hc0.
    apply at_pos_app_r in Hat.
    rewrite (IH fuel _ _ Hat Hsk Hfs) by (cbn [length] in Hf; lia).
    cbn [map concat]. rewrite len_app. f_equal; [f_equal; f_equal|]; lia.
Qed.

(* ---------------------------------------------------------------------------------------------- *)
(* B. a frame payload and what it decodes to (independent of where the file holds it)              *)
(* ---------------------------------------------------------------------------------------------- *)
Lemma alpha_plane_length w h payload al : 0 <= w * h -> SS.alpha_plane w h payload = Some al -> length al = Z.to_nat (w * h).
Proof.
  intros Hn Epl. unfold SS.alpha_plane in Epl. destruct payload as [|hb data]; [discriminate|].
  destruct (negb (Spec.Alpha.header_ok hb)); [discriminate|].
  match type of Epl with match ?strm with _ => _ end = _ => destruct strm as [st|]; [|discriminate] end.
  destruct (Nat.eqb (length st) (Z.to_nat (w * h))) eqn:El; [|discriminate]. apply Nat.eqb_eq in El.
  injection Epl as <-. unfold Spec.Alpha.unfilter. rewrite Alpha_unfilter.unfilter_from_length. cbn [length]. lia.
Qed.

Section Anim.
Variable vp8 : list Z -> res (Z * Z * list Z * list Z * list Z).

(* frame [f] of the container lies inside the W x H canvas and its payload decodes to the frame [m] Model.Anim is given *)
Definition frame_decodes (W H : Z) (f : frame) (m : Anim.mframe) : Prop :=
  let fw := f_w1 f + 1 in let fh := f_h1 f + 1 in
  fw <= 16384 /\ fh <= 16384 /\ 2 * f_x f + fw <= W /\ 2 * f_y f + fh <= H /\ 32 <= len (frame_payload f) /\
  match f_image f with
  | FLossless l =>
      exists pixels, V.decode_rgba (vp8l_bytes l) = Some (fw, fh, pixels) /\ C01_top.codes_in_format (vp8l_bytes l) /\
        (forall s0, V.read_header (V.Stream [] (vp8l_bytes l)) = Some (fw, fh, s0) -> C01_top.in_format fw fh s0) /\
        m = mframe_of f true pixels
  | FLossy None v =>
      exists yp up vp, vp8 (vp8_bytes v) = Ok (fw, fh, yp, up, vp) /\ planes_ok fw fh yp up vp /\
        m = mframe_of f false (rgb_plane (Z.to_nat fw) (Z.to_nat fh) yp up vp)
  | FLossy (Some a) v =>
      exists yp up vp al, vp8 (vp8_bytes v) = Ok (fw, fh, yp, up, vp) /\ planes_ok fw fh yp up vp /\
        SS.alpha_plane fw fh (alph_bytes a) = Some al /\ alph_in_format fw fh (alph_bytes a) /\
        m = mframe_of f true (SS.weave (rgb_plane (Z.to_nat fw) (Z.to_nat fh) yp up vp) al)
  end.

Lemma frame_decodes_at dec pos f m :
  at_pos (M.d_data dec) pos (ser_chunk cc_ANMF (frame_payload f)) -> frame_ok f = true -> len (M.d_data dec) <= 4294967294 ->
  frame_decodes (M.d_width dec) (M.d_height dec) f m ->
  frame_at dec pos f /\ frame_body vp8 dec (len (frame_payload f)) (pos + 8) = Ok (m, len (frame_payload f)).
Proof.
  intros Hat Hok Hd (Hfw & Hfh & Hx & Hy & H32 & Hm). cbv zeta in *.
  assert (Hfa : frame_at dec pos f).
  { unfold frame_at. destruct (at_pos_bound _ _ _ Hat) as [Hp0 Hb]. rewrite (len_ser_chunk4 cc_ANMF (frame_payload f) eq_refl) in Hb.
    pose proof (rounded_bounds (len (frame_payload f)) (len_nonneg _)). repeat split; try assumption; lia. }
  split; [exact Hfa|].
  destruct (f_image f) as [[a|] v | l] eqn:Himg.
  - destruct Hm as (yp & up & vp & al & Hv & Hpl & Hal & Hfmt & ->).
    apply (frame_body_alph_vp8 vp8 dec pos f a v yp up vp al); assumption.
  - destruct Hm as (yp & up & vp & Hv & Hpl & ->).
    apply (frame_body_vp8 vp8 dec pos f v yp up vp); assumption.
  - destruct Hm as (pixels & Hdec & Hc & Hf & ->).
    apply (frame_body_vp8l vp8 dec pos f l pixels); assumption.
Qed.

Lemma frame_decodes_valid W H f m : frame_ok f = true -> frame_decodes W H f m -> Anim_play.valid_mframe W H m.
Proof.
  intros Hok (Hfw & Hfh & Hx & Hy & H32 & Hm). cbv zeta in *.
  pose proof Hok as Hok'. unfold frame_ok in Hok'. split_andb.
  assert (G : forall (ha : bool) data, len data = (f_w1 f + 1) * (f_h1 f + 1) * (if ha then 4 else 3) ->
              Anim_play.valid_mframe W H (mframe_of f ha data)).
  { intros ha data Hl. unfold Anim_play.valid_mframe, mframe_of.
    cbn [Anim.mf_xh Anim.mf_yh Anim.mf_wm1 Anim.mf_hm1 Anim.mf_has_alpha Anim.mf_data]. unfold len in Hl. repeat split; lia. }
  assert (Hrgb : forall yp up vp, planes_ok (f_w1 f + 1) (f_h1 f + 1) yp up vp ->
                 length (rgb_plane (Z.to_nat (f_w1 f + 1)) (Z.to_nat (f_h1 f + 1)) yp up vp)
                 = (3 * Z.to_nat ((f_w1 f + 1) * (f_h1 f + 1)))%nat).
  { intros yp up vp (Rw & Rh & Ly & _).
    destruct (rgba_plane_weave (Z.to_nat (f_w1 f + 1)) yp up vp [] (Z.to_nat (f_h1 f + 1)) Ly) as (_ & _ & _ & Lr).
    rewrite Lr, Z2Nat.inj_mul by lia. reflexivity. }
  destruct (f_image f) as [[a|] v | l] eqn:Himg.
  - destruct Hm as (yp & up & vp & al & Hv & Hpl & Hal & Hfmt & ->). apply G.
    assert (Hnn : 0 <= (f_w1 f + 1) * (f_h1 f + 1)) by nia.
    pose proof (alpha_plane_length (f_w1 f + 1) (f_h1 f + 1) (alph_bytes a) al Hnn Hal) as Lal.
    unfold len. rewrite weave_length by (rewrite (Hrgb yp up vp Hpl); lia). nia.
  - destruct Hm as (yp & up & vp & Hv & Hpl & ->). apply G. unfold len. rewrite (Hrgb yp up vp Hpl). nia.
  - destruct Hm as (pixels & Hdec & Hc & Hf & ->). apply G.
    match goal with Hi : image_ok (FLossless l) = true |- _ => cbn [image_ok] in Hi; pose proof (all_bytes_vp8l l Hi) as Hb end.
    apply all_bytes_Forall in Hb.
    destruct (ReadImage_vp8l.decode_frame_spec_length (vp8l_bytes l) [] (f_w1 f + 1) (f_h1 f + 1)
                (zeros ((f_w1 f + 1) * (f_h1 f + 1) * 4)) pixels Hb) as [_ L]; try assumption; [rewrite zeros_length by nia; lia|].
    unfold len. rewrite L. unfold zeros. rewrite repeat_length. nia.
Qed.

End Anim.

(* ---------------------------------------------------------------------------------------------- *)
(* C. what `new` leaves in the decoder record for an animated container                             *)
(* ---------------------------------------------------------------------------------------------- *)
Lemma first_anmf_split : forall cs p s e, forallb chunk_ok cs = true -> first_range M.KANMF p cs = Some (s, e) ->
  exists pre f post, cs = pre ++ CANMF f :: post /\ frames_of pre = [] /\ s = p + len (concat (map chunk_bytes pre)) + 8.
Proof.
  induction cs as [|c cs IH]; intros p s e Hok H; cbn [first_range] in H; [discriminate|].
  rewrite forallb_cons, andb_true_iff in Hok. destruct Hok as [Hc Hcs].
  rewrite (ckind_spec c Hc) in H.
  destruct c as [q|q|q|bg lp|f|a|v|l|u]; cbn [ckind_expected M.is_unknown negb andb M.kind_eqb] in H;
    try (destruct (IH _ _ _ Hcs H) as (pre & f & post & -> & Hf & ->);
         eexists (_ :: pre), f, post; split; [reflexivity|]; split; [rewrite frames_of_cons; exact Hf|];
         cbn [map concat]; rewrite len_app; lia).
  injection H as <- _. exists [], f, cs. split; [reflexivity|]. split; [reflexivity|]. cbn [map concat]. rewrite len_nil. lia.
Qed.

Lemma Ok_inj' {A} (a b : A) : Ok a = Ok b -> a = b.
Proof. intros H. inversion H. reflexivity. Qed.

Ltac inv_bind H :=
  match type of H with
  | bind ?r _ = Ok _ => let E := fresh "E" in destruct r eqn:E; cbn [bind] in H; [| discriminate H ..]
  end;
  repeat match goal with x : (_ * _)%type |- _ => destruct x end; cbv beta iota zeta in H.

Lemma after_scan_start d info ST dec s e :
  after_scan d info ST = Ok dec -> M.e_animation info = true -> M.lookup M.KANMF (M.s_chunks ST) = Some (s, e) ->
  M.d_next_frame_start dec = s - 8 /\ 8 <= s.
Proof.
  intros H Ha Hlk. unfold after_scan in H. rewrite Ha, Hlk in H.
  match type of H with (if ?b then _ else _) = _ => destruct b; [discriminate H|] end.
  inv_bind H.
  match type of E with match ?r with _ => _ end = _ => destruct r as [[chunk|]|er|pk|]; try discriminate E end.
  2: { destruct er; discriminate E. }
  do 3 inv_bind E. cbn [of_option bind fst] in E. inv_bind E.
  apply Ok_inj' in E. inversion E; subst.
  inv_bind H. apply Ok_inj' in H. subst dec. unfold M.mk_decoder. cbn [M.d_next_frame_start].
  match goal with E' : M.sub_u64 s 8 = Ok _ |- _ => unfold M.sub_u64 in E'; destruct (8 <=? s) eqn:E8; [|discriminate E'];
    apply Ok_inj' in E'; apply Z.leb_le in E8 end.
  split; [congruence | exact E8].
Qed.

Definition anim_bg (c : container) : list Z :=
  match c with
  | Extended _ cs => match find is_anim cs with Some (CANIM bg _) => bg | _ => [0; 0; 0; 0] end
  | _ => [0; 0; 0; 0]
  end.

(* the decoder record of an animated file, as far as read_frame looks at it; [rest]: the chunks from the first ANMF chunk on *)
Definition anim_view (c : container) (dec : M.decoder) : Prop :=
  M.d_data dec = serialize c /\ M.is_animated dec = true
  /\ M.d_width dec = fst (dims c) /\ M.d_height dec = snd (dims c) /\ M.d_has_alpha dec = alpha c
  /\ M.d_num_frames dec = len (frames c) /\ background_stored dec = anim_bg c /\ length (anim_bg c) = 4%nat
  /\ 1 <= fst (dims c) <= 16777216 /\ 1 <= snd (dims c) <= 16777216 /\ len (serialize c) <= 4294967294
  /\ 0 <= M.d_next_frame_start dec
  /\ exists rest, at_pos (serialize c) (M.d_next_frame_start dec) (concat (map chunk_bytes rest))
                  /\ forallb chunk_ok rest = true /\ frames_of rest = frames c.

Lemma swap02_involutive bg : length bg = 4%nat -> M.swap02 (M.swap02 bg) = bg.
Proof. destruct bg as [|a [|b [|c [|d [|e bg]]]]]; cbn [length]; intros H; try lia. reflexivity. Qed.

Theorem new_anim_view c : wf c = true -> anim c = true -> exists dec, M.new (serialize c) = Ok dec /\ anim_view c dec.
Proof.
  destruct c as [v trail | l trail | x cs]; intros Hwf Ha; try discriminate Ha. cbn [anim] in Ha.
  rewrite wf_extended_eq in Hwf. rewrite !andb_true_iff in Hwf.
  destruct Hwf as (Hfs & (((((Hx & Hcs) & Hicc) & Hexif) & Hxmp) & Hwc)).
  apply Z.leb_le in Hfs. apply eqb_prop in Hicc, Hexif, Hxmp.
  destruct (new_extended_prefix x cs Hfs Hx Hcs) as (Hnew & Hat & Hd & Hbytes).
  set (d := serialize (Extended x cs)) in *. set (ST := scan_spec 30 cs st0).
  unfold wf_chunks in Hwc. rewrite Ha in Hwc.
  rewrite !andb_true_iff, !negb_true_iff in Hwc. destruct Hwc as ((((Hanim & Hanmf) & Hvp8) & _) & _).
  destruct (after_scan_anim d x cs Ha Hcs Hat Hicc Hexif Hxmp Hanim Hanmf Hvp8 Hd Hbytes)
    as (bg & lp & chunks' & nfs & Hfa & Has & Hkeep).
  fold ST in Has.
  (* the first ANMF chunk *)
  destruct (first_range_some M.KANMF is_anmf cs 30 d Hcs Hat kp_anmf Hanmf) as (sf & cf & Hrf & _ & _ & _ & _ & _).
  assert (Hlk : M.lookup M.KANMF (M.s_chunks ST) = Some (sf, sf + len (chunk_payload cf))).
  { unfold ST. rewrite (lookup_after_scan cs 30 st0 M.KANMF st0_empty). exact Hrf. }
  destruct (after_scan_start d _ ST _ sf _ Has ltac:(cbn [info_of M.e_animation]; exact Ha) Hlk) as [Hstart Hs8].
  destruct (first_anmf_split cs 30 sf _ Hcs Hrf) as (pre & f & post & Ecs & Hpre & Esf).
  (* the ANIM chunk *)
  assert (Hbg4 : length bg = 4%nat).
  { destruct (find_some _ _ Hfa) as [Hin _]. rewrite forallb_forall in Hcs. specialize (Hcs _ Hin).
    cbn [chunk_ok] in Hcs. rewrite !andb_true_iff in Hcs. destruct Hcs as ((H4 & _) & _). apply Nat.eqb_eq in H4. exact H4. }
  eexists. split; [rewrite Hnew; exact Has|].
  unfold vp8x_ok in Hx. split_andb.
  unfold anim_view, M.mk_decoder, M.is_animated, background_stored.
  cbn [M.d_data M.d_kind M.d_width M.d_height M.d_has_alpha M.d_num_frames M.d_next_frame_start dims alpha fst snd info_of
       M.e_animation M.e_background_color anim_bg].
  rewrite Hfa.
  split; [reflexivity|]. split; [exact Ha|]. split; [reflexivity|]. split; [reflexivity|]. split; [reflexivity|].
  split; [unfold ST; rewrite scan_spec_num_frames; cbn [st0 M.s_num_frames]; reflexivity|].
  split; [apply swap02_involutive; exact Hbg4|]. split; [exact Hbg4|].
  split; [lia|]. split; [lia|]. split; [exact Hd|].
  unfold M.mk_decoder in Hstart. cbn [M.d_next_frame_start] in Hstart. rewrite Hstart.
  pose proof (len_nonneg (concat (map chunk_bytes pre))) as Hp0.
  split; [lia|].
  exists (CANMF f :: post). rewrite Ecs in Hat, Hcs.
  rewrite map_app, concat_app in Hat. apply at_pos_app_r in Hat.
  rewrite forallb_app, andb_true_iff in Hcs.
  split; [replace (sf - 8) with (30 + len (concat (map chunk_bytes pre))) by lia; exact Hat|].
  split; [apply Hcs|].
  change (frames (Extended x cs)) with (frames_of cs). rewrite Ecs.
  unfold frames_of at 2. rewrite flat_map_app. fold (frames_of pre). fold (frames_of (CANMF f :: post)). rewrite Hpre. reflexivity.
Qed.

(* ---------------------------------------------------------------------------------------------- *)
(* D. one read_frame call on the file                                                               *)
(* ---------------------------------------------------------------------------------------------- *)
Lemma rounded_even n : 0 <= n -> n mod 2 = 0 -> rounded n = n.
Proof. intros _ H. unfold rounded. lia. Qed.
Lemma rounded_mod2 n : (8 + rounded n) mod 2 = 0.
Proof. unfold rounded. lia. Qed.

Lemma unknowns_even us : forallb unknown_ok us = true -> len (concat (map unknown_bytes us)) mod 2 = 0.
Proof.
  induction us as [|u us IH]; intros H; [reflexivity|].
  rewrite forallb_cons, andb_true_iff in H. destruct H as [Hu Hus]. rewrite unknown_ok_eq, andb_true_iff in Hu. destruct Hu as [Hu _].
  cbn [map concat]. rewrite len_app. unfold unknown_bytes at 1. rewrite len_ser_chunk4 by (apply is_unknown_cc_len; exact Hu).
  pose proof (rounded_mod2 (len (u_payload u))). specialize (IH Hus). lia.
Qed.

Lemma frame_payload_even f : frame_ok f = true -> rounded (len (frame_payload f)) = len (frame_payload f).
Proof.
  intros Hok. apply rounded_even; [apply len_nonneg|].
  unfold frame_ok in Hok. rewrite !andb_true_iff in Hok. destruct Hok as (_ & Hunk).
  rewrite len_frame_payload. unfold frame_tail. rewrite len_app.
  pose proof (unknowns_even _ Hunk) as Hu.
  pose proof (rounded_mod2 (len (snd (first_subchunk (f_image f))))) as H1.
  assert (H2 : len (after_first_subchunk (f_image f)) mod 2 = 0).
  { destruct (f_image f) as [[a|] v | l]; cbn [after_first_subchunk]; try reflexivity.
    rewrite len_ser_chunk4 by reflexivity. apply rounded_mod2. }
  lia.
Qed.

Lemma frames_of_split : forall rest f tl, frames_of rest = f :: tl ->
  exists skipped rest', rest = skipped ++ CANMF f :: rest' /\ frames_of skipped = [] /\ frames_of rest' = tl.
Proof.
  induction rest as [|c rest IH]; intros f tl H; [discriminate|].
  rewrite frames_of_cons in H. destruct c as [q|q|q|bg lp|f0|a|v|l|u]; cbn [chunk_frame] in H;
    try (destruct (IH f tl H) as (sk & r' & -> & Hs & Hr); eexists (_ :: sk), r'; split; [reflexivity|];
         split; [rewrite frames_of_cons; exact Hs | exact Hr]).
  injection H as <- <-. exists [], rest. repeat split; reflexivity.
Qed.

Lemma Forall2_skipn_head {A B} (R : A -> B -> Prop) : forall k l1 l2 a tl,
  Forall2 R l1 l2 -> skipn k l1 = a :: tl -> exists b, nth_error l2 k = Some b /\ R a b.
Proof.
  induction k as [|k IH]; intros l1 l2 a tl H E.
  - cbn [skipn] in E. subst l1. inversion H; subst. eexists. split; [reflexivity | assumption].
  - destruct l1 as [|x l1]; [discriminate|]. cbn [skipn] in E. inversion H; subst. cbn [nth_error]. eapply IH; eassumption.
Qed.

Lemma Forall2_len {A B} (R : A -> B -> Prop) l1 l2 : Forall2 R l1 l2 -> length l1 = length l2.
Proof. induction 1; cbn [length]; congruence. Qed.

Section Play.
Variable vp8 : list Z -> res (Z * Z * list Z * list Z * list Z).

Lemma decode_frame_payload_located dec pos skipped P rest :
  len (M.d_data dec) <= 4294967294 -> 32 <= len P ->
  at_pos (M.d_data dec) pos (concat (map chunk_bytes skipped) ++ ser_chunk cc_ANMF P ++ rest) ->
  forallb chunk_ok skipped = true -> frames_of skipped = [] -> 0 <= pos ->
  decode_frame_payload vp8 dec pos
  = (frame_body vp8 dec (len P) (pos + len (concat (map chunk_bytes skipped)) + 8), pos + len (concat (map chunk_bytes skipped))).
Proof.
  intros Hd HP Hat Hok Hfr Hpos. unfold decode_frame_payload.
  rewrite (find_anmf_gap (M.d_data dec) P rest Hd HP skipped (S (length (M.d_data dec))) pos pos Hat Hok Hfr); [reflexivity | | lia].
  pose proof (length_chunks_le skipped Hok) as Hle. destruct (at_pos_bound _ _ _ Hat) as [_ Hb].
  rewrite len_app in Hb. pose proof (len_nonneg (ser_chunk cc_ANMF P ++ rest)). unfold len in *. lia.
Qed.

(* the file "with frames given decoded" that Model.Anim and Proofs/Anim_*.v speak about *)
Definition anim_file (c : container) (ms : list Anim.mframe) : Anim.mfile :=
  {| Anim.m_w := fst (dims c); Anim.m_h := snd (dims c); Anim.m_alpha := alpha c; Anim.m_bg_stored := anim_bg c;
     Anim.m_frames := ms |}.

Lemma mfile_of_view c dec ms : anim_view c dec -> mfile_of dec ms = anim_file c ms.
Proof. intros (_ & _ & Hw & Hh & Ha & _ & Hbg & _). unfold mfile_of, anim_file. rewrite Hw, Hh, Ha, Hbg. reflexivity. Qed.

(* the state of Model.ReadImage's decoder after k frames of the file *)
Definition inv (dec : M.decoder) (F : Anim.mfile) (fs : list frame) (ms : list Anim.mframe) (st : fstate) (k : nat) : Prop :=
  fs_anim st = Anim_play.state_after F k /\ fs_seen st = firstn k ms /\ 0 <= fs_start st /\
  exists rest, at_pos (M.d_data dec) (fs_start st) (concat (map chunk_bytes rest))
               /\ forallb chunk_ok rest = true /\ frames_of rest = skipn k fs.

Lemma read_frame_step c dec ms :
  anim_view c dec -> Forall2 (frame_decodes vp8 (fst (dims c)) (snd (dims c))) (frames c) ms ->
  Anim_play.valid_file (anim_file c ms) ->
  forall st k buf, inv dec (anim_file c ms) (frames c) ms st k -> (k < length ms)%nat ->
  len buf = Anim.output_buffer_size (anim_file c ms) ->
  exists st', read_frame vp8 dec st buf
              = (fst (Anim_play.delivered (anim_file c ms) k), st', snd (Anim_play.delivered (anim_file c ms) k))
              /\ inv dec (anim_file c ms) (frames c) ms st' (S k).
Proof.
  intros Hview HF2 Hvalid st k buf (Hanim & Hseen & Hs0 & rest & Hat & Hok & Hfr) Hk Hl.
  set (F := anim_file c ms) in *. set (fs := frames c) in *.
  pose proof (mfile_of_view c dec ms Hview) as HmF. fold F in HmF.
  destruct Hview as (Hdata & Hani & Hw & Hh & Hal & Hnf & Hbg & Hbg4 & Rw & Rh & Hlen & Hnfs0 & _).
  pose proof (Forall2_len _ _ _ HF2) as Hlenfs. fold fs in Hlenfs.
  destruct (skipn k fs) as [|f tl] eqn:Esk.
  { exfalso. pose proof (skipn_length k fs) as Hsl. rewrite Esk in Hsl. cbn [length] in Hsl. lia. }
  destruct (Forall2_skipn_head _ k fs ms f tl HF2 Esk) as (m & Hm & Hdecodes).
  destruct (frames_of_split rest f tl Hfr) as (skipped & rest' & -> & Hsk & Hrest').
  rewrite map_app, concat_app in Hat. cbn [map concat] in Hat.
  change (chunk_bytes (CANMF f)) with (ser_chunk cc_ANMF (frame_payload f)) in Hat.
  rewrite forallb_app, andb_true_iff in Hok. destruct Hok as [Hoksk Hok2].
  rewrite forallb_cons, andb_true_iff in Hok2. destruct Hok2 as [Hokf Hokr]. cbn [chunk_ok] in Hokf.
  set (gap := len (concat (map chunk_bytes skipped))) in *. pose proof (len_nonneg (concat (map chunk_bytes skipped))) as Hgap0. fold gap in Hgap0.
  set (A := len (frame_payload f)) in *.
  pose proof (at_pos_app_r _ _ _ _ Hat) as Hatf. fold gap in Hatf.
  pose proof (at_pos_app_l _ _ _ _ Hatf) as Hatc.
  rewrite <- Hdata in Hlen.
  rewrite <- Hw, <- Hh in Hdecodes.
  destruct (frame_decodes_at vp8 dec (fs_start st + gap) f m Hatc Hokf Hlen Hdecodes) as (Hfa & Hbody). fold A in Hbody.
  destruct Hdecodes as (_ & _ & _ & _ & H32 & _).
  pose proof (decode_frame_payload_located dec (fs_start st) skipped (frame_payload f) _ Hlen H32 Hat Hoksk Hsk Hs0) as Hloc.
  fold gap A in Hloc.
  (* the cursors of Model.Anim's state *)
  assert (HkF : (k < length (Anim.m_frames F))%nat) by (unfold F, anim_file; cbn [Anim.m_frames]; exact Hk).
  destruct (Anim_play.state_after_spec F Hvalid k ltac:(lia)) as (Hnx & Hnxs & _).
  assert (Hobs : M.output_buffer_size dec = Some (Anim.output_buffer_size F)).
  { rewrite output_buffer_size_ok by lia. unfold Anim.output_buffer_size, F, anim_file. cbn [Anim.m_w Anim.m_h Anim.m_alpha].
    rewrite Hw, Hh, Hal. reflexivity. }
  assert (Ext : Anim.read_frame_core (mfile_of dec (firstn k ms ++ [m])) (Anim_play.state_after F k) (Anim.output_buffer_size F)
                = Anim.read_frame_core F (Anim_play.state_after F k) (Anim.output_buffer_size F)).
  { assert (HnumF : Anim.num_frames F = Z.of_nat (length ms)) by reflexivity.
    assert (HfrF : Anim.m_frames F = ms) by reflexivity.
    apply anim_core_ext; try (rewrite <- HmF; reflexivity).
    - rewrite HnumF. change (Anim.num_frames (mfile_of dec (firstn k ms ++ [m]))) with (Z.of_nat (length (firstn k ms ++ [m]))).
      rewrite Hnx, app_length, firstn_length. cbn [length].
      destruct (Z.of_nat k =? Z.of_nat (Init.Nat.min k (length ms) + 1)) eqn:E1; [apply Z.eqb_eq in E1; lia|].
      destruct (Z.of_nat k =? Z.of_nat (length ms)) eqn:E2; [apply Z.eqb_eq in E2; lia | reflexivity].
    - rewrite HfrF. change (Anim.m_frames (mfile_of dec (firstn k ms ++ [m]))) with (firstn k ms ++ [m]).
      rewrite Hnxs, Nat2Z.id, Hm.
      rewrite nth_error_app2 by (rewrite firstn_length; lia). rewrite firstn_length.
      replace (k - Init.Nat.min k (length ms))%nat with O by lia. reflexivity. }
  pose proof (frame_payload_even f Hokf) as Heven. fold A in Heven.
  destruct (at_pos_bound _ _ _ Hatf) as [_ Hbnd]. rewrite len_app, (len_ser_chunk4 cc_ANMF (frame_payload f) eq_refl) in Hbnd.
  fold A in Hbnd. rewrite Heven in Hbnd. pose proof (len_nonneg (concat (map chunk_bytes rest'))) as Hr0.
  eexists. split.
  - unfold read_frame, read_frame_core. rewrite Hani, Hobs, len_M, Hl, Z.eqb_refl. cbn [negb].
    rewrite Hanim, Hnx, Hnf. fold fs. unfold len at 1. rewrite Hlenfs.
    destruct (Z.of_nat k =? Z.of_nat (length ms)) eqn:E2; [apply Z.eqb_eq in E2; lia|].
    rewrite Hloc, Hbody. cbn [bind]. rewrite Hseen, Ext.
    rewrite (Anim_play.read_frame_core_after F k Hvalid HkF). cbn [bind].
    rewrite add_u64_ok by (unfold M.u64_max; lia). cbn [bind]. rewrite add_u64_ok by (unfold M.u64_max; lia). cbn [bind].
    unfold Anim_play.delivered. cbn [fst snd]. reflexivity.
  - unfold inv. cbn [fs_anim fs_seen fs_start].
    split; [reflexivity|]. split; [symmetry; apply (Anim_play.firstn_S_nth ms k m Hm)|]. split; [lia|].
    exists rest'. split; [| split; [exact Hokr|]].
    + apply at_pos_app_r in Hatf. rewrite (len_ser_chunk4 cc_ANMF (frame_payload f) eq_refl) in Hatf. fold A in Hatf. rewrite Heven in Hatf.
      replace (fs_start st + gap + (A + 8)) with (fs_start st + gap + (8 + A)) by lia. exact Hatf.
    + rewrite Hrest'. replace (S k) with (1 + k)%nat by lia. rewrite <- C13_yuv.skipn_skipn. rewrite Esk. reflexivity.
Qed.
End Play.

(* ---------------------------------------------------------------------------------------------- *)
(* E. all frames: Model.ReadImage.play on the file bytes = Model.Anim.play on the decoded file      *)
(* ---------------------------------------------------------------------------------------------- *)
Lemma wf_frames_ok c : wf c = true -> Forall (fun f => frame_ok f = true) (frames c).
Proof.
  destruct c as [v trail | l trail | x cs]; intros Hwf; try constructor.
  rewrite wf_extended_eq in Hwf. rewrite !andb_true_iff in Hwf. destruct Hwf as (_ & (((((_ & Hcs) & _) & _) & _) & _)).
  apply Forall_forall. intros f Hin. unfold frames in Hin. apply in_flat_map in Hin. destruct Hin as (k & Hk & Hf).
  rewrite forallb_forall in Hcs. specialize (Hcs k Hk). destruct k; cbn [In] in Hf; try contradiction.
  destruct Hf as [<- | []]. exact Hcs.
Qed.

Lemma wf_anim_has_frame c : wf c = true -> anim c = true -> frames c <> [].
Proof.
  destruct c as [v trail | l trail | x cs]; intros Hwf Ha; try discriminate Ha. cbn [anim] in Ha.
  rewrite wf_extended_eq in Hwf. rewrite !andb_true_iff in Hwf. destruct Hwf as (_ & (_ & Hwc)).
  unfold wf_chunks in Hwc. rewrite Ha in Hwc. rewrite !andb_true_iff in Hwc. destruct Hwc as ((((_ & Hanmf) & _) & _) & _).
  apply existsb_exists in Hanmf. destruct Hanmf as (k & Hk & Hp). destruct k; try discriminate Hp.
  intros E. assert (Hin : In f (frames (Extended x cs))) by (unfold frames; apply in_flat_map; eexists; split; [exact Hk | left; reflexivity]).
  rewrite E in Hin. exact Hin.
Qed.

Lemma last_cons {A} : forall (l : list A) x d, last (x :: l) d = last l x.
Proof. induction l as [|y l IH]; intros x d; [reflexivity|]. change (last (x :: y :: l) d) with (last (y :: l) d). rewrite !IH. reflexivity. Qed.

Section Top.
Variable vp8 : list Z -> res (Z * Z * list Z * list Z * list Z).

Lemma valid_anim_file c ms :
  wf c = true -> anim c = true -> Forall2 (frame_decodes vp8 (fst (dims c)) (snd (dims c))) (frames c) ms ->
  fst (dims c) * snd (dims c) * 4 < 18446744073709551616 -> forall dec, anim_view c dec -> Anim_play.valid_file (anim_file c ms).
Proof.
  intros Hwf Ha HF2 Hcanvas dec (_ & _ & _ & _ & _ & _ & _ & Hbg4 & Rw & Rh & _).
  unfold Anim_play.valid_file, anim_file. cbn [Anim.m_w Anim.m_h Anim.m_bg_stored Anim.m_frames].
  split; [lia|]. split; [lia|]. split; [exact Hcanvas|]. split; [exact Hbg4|]. split.
  - intros E. subst ms. inversion HF2 as [E2|]. apply (wf_anim_has_frame c Hwf Ha). symmetry. exact E2.
  - pose proof (wf_frames_ok c Hwf) as Hoks. revert Hoks. induction HF2 as [|f m fs ms' Hfm _ IH]; intros Hoks; constructor.
    + inversion Hoks; subst. apply (frame_decodes_valid vp8 _ _ f m); assumption.
    + inversion Hoks; subst. apply IH. assumption.
Qed.

Lemma play_from_file_aux c dec ms :
  anim_view c dec -> Forall2 (frame_decodes vp8 (fst (dims c)) (snd (dims c))) (frames c) ms ->
  Anim_play.valid_file (anim_file c ms) ->
  forall n k st buf, inv dec (anim_file c ms) (frames c) ms st k -> (k + n <= length ms)%nat ->
  len buf = Anim.output_buffer_size (anim_file c ms) ->
  play_from vp8 dec n st buf = map (Anim_play.delivered (anim_file c ms)) (seq k n).
Proof.
  intros Hview HF2 Hvalid. induction n as [|n IH]; intros k st buf Hinv Hk Hl; [reflexivity|].
  cbn [play_from seq map].
  destruct (read_frame_step vp8 c dec ms Hview HF2 Hvalid st k buf Hinv ltac:(lia) Hl) as (st' & -> & Hinv').
  f_equal.
  apply (IH (S k) st' _ Hinv'); [lia|].
  unfold Anim_play.delivered. cbn [snd]. apply (Anim_play.delivered_length (anim_file c ms) k Hvalid).
Qed.

(* after the last frame: NoMoreFrames, state and buffer untouched *)
Lemma read_frame_exhausted_file c dec ms st buf :
  anim_view c dec -> Forall2 (frame_decodes vp8 (fst (dims c)) (snd (dims c))) (frames c) ms ->
  Anim_play.valid_file (anim_file c ms) -> inv dec (anim_file c ms) (frames c) ms st (length ms) ->
  len buf = Anim.output_buffer_size (anim_file c ms) ->
  read_frame vp8 dec st buf = (Err ENoMoreFrames, st, buf).
Proof.
  intros Hview HF2 Hvalid (Hanim & _) Hl.
  destruct Hview as (Hdata & Hani & Hw & Hh & Hal & Hnf & Hbg & Hbg4 & Rw & Rh & Hlen & _).
  assert (Hobs : M.output_buffer_size dec = Some (Anim.output_buffer_size (anim_file c ms))).
  { rewrite output_buffer_size_ok by lia. unfold Anim.output_buffer_size, anim_file. cbn [Anim.m_w Anim.m_h Anim.m_alpha].
    rewrite Hw, Hh, Hal. reflexivity. }
  destruct (Anim_play.state_after_spec (anim_file c ms) Hvalid (length ms) ltac:(cbn [anim_file Anim.m_frames]; lia)) as (Hnx & _).
  unfold read_frame, read_frame_core. rewrite Hani, Hobs, len_M, Hl, Z.eqb_refl. cbn [negb].
  rewrite Hanim, Hnx, Hnf. unfold len. rewrite (Forall2_len _ _ _ HF2), Z.eqb_refl. reflexivity.
Qed.

(* THE COMPOSITION.  [ms]: the frames of the file decoded per the specifications (frame_decodes) *)
Theorem play_from_file c ms :
  wf c = true -> anim c = true -> Forall2 (frame_decodes vp8 (fst (dims c)) (snd (dims c))) (frames c) ms ->
  fst (dims c) * snd (dims c) * 4 < 18446744073709551616 ->
  Anim_play.valid_file (anim_file c ms) /\
  exists dec, M.new (serialize c) = Ok dec /\
    forall buf, len buf = buffer_size c ->
      play vp8 dec (length ms) buf = Anim.play (anim_file c ms) buf
      /\ play vp8 dec (S (length ms)) buf
         = Anim.play (anim_file c ms) buf ++ [(Err ENoMoreFrames, last (map snd (Anim.play (anim_file c ms) buf)) buf)].
Proof.
  intros Hwf Ha HF2 Hcanvas. destruct (new_anim_view c Hwf Ha) as (dec & Hnew & Hview).
  pose proof (valid_anim_file c ms Hwf Ha HF2 Hcanvas dec Hview) as Hvalid.
  split; [exact Hvalid|]. exists dec. split; [exact Hnew|]. intros buf Hl.
  assert (Hl' : len buf = Anim.output_buffer_size (anim_file c ms)) by exact Hl.
  assert (Hinv0 : inv dec (anim_file c ms) (frames c) ms (initial_fstate dec) 0).
  { destruct Hview as (Hdata & _ & _ & _ & _ & _ & _ & _ & _ & _ & _ & Hnfs0 & rest & Hat & Hok & Hfr).
    unfold inv, initial_fstate, fresh_fstate. cbn [fs_anim fs_seen fs_start Anim_play.state_after firstn skipn].
    split; [reflexivity|]. split; [reflexivity|]. split; [exact Hnfs0|]. exists rest. rewrite Hdata. auto. }
  assert (Hanimplay : Anim.play (anim_file c ms) buf = map (Anim_play.delivered (anim_file c ms)) (seq 0 (length ms))).
  { unfold Anim.play. change Anim.fresh_state with (Anim_play.state_after (anim_file c ms) 0).
    apply (Anim_play.play_from_spec (anim_file c ms) Hvalid); [cbn [anim_file Anim.m_frames]; lia | exact Hl']. }
  assert (Hplay : play vp8 dec (length ms) buf = map (Anim_play.delivered (anim_file c ms)) (seq 0 (length ms))).
  { unfold play. apply (play_from_file_aux c dec ms Hview HF2 Hvalid (length ms) 0 _ buf Hinv0); [lia | exact Hl']. }
  split; [rewrite Hplay, Hanimplay; reflexivity|].
  (* one more call *)
  rewrite Hanimplay. unfold play.
  assert (G : forall n k st b, inv dec (anim_file c ms) (frames c) ms st k -> (k + n = length ms)%nat ->
              len b = Anim.output_buffer_size (anim_file c ms) ->
              play_from vp8 dec (S n) st b
              = map (Anim_play.delivered (anim_file c ms)) (seq k n)
                ++ [(Err ENoMoreFrames, last (map snd (map (Anim_play.delivered (anim_file c ms)) (seq k n))) b)]).
  { induction n as [|n IH]; intros k st b Hinv Hk Hb.
    - cbn [seq map app last]. cbn [play_from]. replace k with (length ms) in Hinv by lia.
      rewrite (read_frame_exhausted_file c dec ms st b Hview HF2 Hvalid Hinv Hb). reflexivity.
    - change (play_from vp8 dec (S (S n)) st b)
        with (let '(r, st', buf') := read_frame vp8 dec st b in (r, buf') :: play_from vp8 dec (S n) st' buf').
      destruct (read_frame_step vp8 c dec ms Hview HF2 Hvalid st k b Hinv ltac:(lia) Hb) as (st' & -> & Hinv').
      assert (Hb' : len (snd (Anim_play.delivered (anim_file c ms) k)) = Anim.output_buffer_size (anim_file c ms))
        by (apply (Anim_play.delivered_length (anim_file c ms) k Hvalid)).
      cbv beta iota.
      rewrite (IH (S k) st' (snd (Anim_play.delivered (anim_file c ms) k)) Hinv' ltac:(lia) Hb').
      cbn [seq map app]. rewrite <- surjective_pairing. rewrite last_cons. reflexivity. }
  apply (G (length ms) 0%nat _ buf Hinv0 ltac:(lia) Hl').
Qed.

(* C06 read_frame_spec for frames decoded FROM THE FILE BYTES (ready for Properties/C06.v, module G).
   For every well-formed animated container whose frames lie inside a canvas of fewer than 2^30 pixels and whose payloads decode
   ([ms]), the k-th of successive read_frame calls on WebPDecoder::new (file bytes) returns the k-th frame's duration and leaves in
   the caller's buffer the rendering (RGBA / RGB by the file's alpha flag) of the canvas the container specification defines after
   k frames (Spec.Anim.frames_upto: background as B,G,R,A, disposal of the previous rectangle, overwrite or blend), the pixels of
   every frame being Spec.VP8L's / Spec.YUV + Spec.Alpha's of its payload; one more call returns NoMoreFrames. *)
Theorem read_frame_from_file_spec c ms :
  wf c = true -> anim c = true -> Forall2 (frame_decodes vp8 (fst (dims c)) (snd (dims c))) (frames c) ms ->
  fst (dims c) * snd (dims c) * 4 < 18446744073709551616 ->
  exists dec, M.new (serialize c) = Ok dec /\ M.num_frames dec = Z.of_nat (length ms) /\ (forall buf, len buf = buffer_size c ->
      (forall k, (k < length ms)%nat ->
         nth_error (play vp8 dec (S (length ms)) buf) k =
         Some (Ok (Spec.Anim.duration (Anim_play.anim_of (anim_file c ms)) k),
               Spec.Anim.render (alpha c) (fst (dims c)) (snd (dims c))
                 (Spec.Anim.frames_upto AlphaBlend.do_alpha_blending (Anim_play.anim_of (anim_file c ms)) k)))
      /\ exists b, nth_error (play vp8 dec (S (length ms)) buf) (length ms) = Some (Err ENoMoreFrames, b)).
Proof.
  intros Hwf Ha HF2 Hcanvas. destruct (play_from_file c ms Hwf Ha HF2 Hcanvas) as (Hvalid & dec & Hnew & Hplay).
  exists dec. split; [exact Hnew|]. split.
  { destruct (new_anim_view c Hwf Ha) as (dec' & Hnew' & Hview). rewrite Hnew in Hnew'. apply Ok_inj' in Hnew'. subst dec'.
    destruct Hview as (_ & _ & _ & _ & _ & Hnf & _). unfold M.num_frames. rewrite Hnf. unfold len. rewrite (Forall2_len _ _ _ HF2). reflexivity. }
  intros buf Hl. destruct (Hplay buf Hl) as [_ Hp]. rewrite Hp.
  assert (Hlen : length (Anim.play (anim_file c ms) buf) = length ms).
  { unfold Anim.play. change Anim.fresh_state with (Anim_play.state_after (anim_file c ms) 0).
    rewrite (Anim_play.play_from_spec (anim_file c ms) Hvalid) by (try exact Hl; cbn [anim_file Anim.m_frames]; lia).
    rewrite map_length, seq_length. reflexivity. }
  split.
  - intros k Hk. rewrite nth_error_app1 by (rewrite Hlen; exact Hk).
    exact (Anim_play.read_frame_spec_lemma (anim_file c ms) buf k Hvalid Hl Hk).
  - eexists. rewrite nth_error_app2 by (rewrite Hlen; lia). rewrite Hlen, Nat.sub_diag. reflexivity.
Qed.
End Top.
