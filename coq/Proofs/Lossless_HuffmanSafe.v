(* C03 for prefix-table construction: HuffmanTree::build_implicit (Model/Huffman.v, with the repairs F3/F16)
   never panics on any vector of code lengths 0..15 with at most 65535 entries -- in particular the
   `debug_assert_eq!(table_value >> 16, 0)`, the u16/u32 additions, every table / tree index and the
   `unwrap`s are safe.  The key facts: the histogram is the exact count of every length; canonical first codes
   satisfy  first[l2] >= 2^(l2-l1) * (first[l1] + count[l1]);  after the Kraft check every code fits its
   length; a slot of the primary table that holds a short code can therefore not be the slot of a longer
   code (no code is a prefix of another), which is what the assertion demands. *)
From Coq Require Import ZArith NArith List Bool Lia FMapPositive.
From WebP Require Import Lib.Res Lib.Arr Lib.ZBits Gen.Tables Model.LosslessLib Model.BitReader Model.Huffman.
Import ListNotations.
Open Scope Z_scope.

Ltac Zify.zify_post_hook ::= Z.div_mod_to_equations.

(* ------------------------------------------------------------------------------------------------ *)
(* small lists indexed by Z                                                                           *)
(* ------------------------------------------------------------------------------------------------ *)
Definition zn (l : list Z) (i : Z) : Z := nth (Z.to_nat i) l 0.

Lemma zlist_get_ok l i : 0 <= i < Z.of_nat (length l) -> zlist_get l i = Ok (zn l i).
Proof.
  intros H. unfold zlist_get, zn. replace (i <? 0) with false by (symmetry; apply Z.ltb_ge; lia).
  destruct (nth_error l (Z.to_nat i)) eqn:E.
  - cbn [of_option]. f_equal. symmetry. apply nth_error_nth. exact E.
  - apply nth_error_None in E. lia.
Qed.

Lemma list_set_ok : forall l i v, (i < length l)%nat ->
  exists l', list_set l i v = Some l' /\ length l' = length l /\
             forall j, nth j l' 0 = if Nat.eqb j i then v else nth j l 0.
Proof.
  induction l as [|x tl IH]; intros i v Hi; [cbn in Hi; lia|].
  destruct i as [|i].
  - exists (v :: tl). cbn [list_set]. split; [reflexivity|]. split; [reflexivity|].
    intros [|j]; reflexivity.
  - cbn [length] in Hi. destruct (IH i v ltac:(lia)) as (tl' & E & Hlen & Hnth).
    exists (x :: tl'). cbn [list_set]. rewrite E. split; [reflexivity|]. split; [cbn [length]; lia|].
    intros [|j]; [reflexivity|]. cbn [nth Nat.eqb]. apply Hnth.
Qed.

Lemma zlist_set_ok l i v : 0 <= i < Z.of_nat (length l) ->
  exists l', zlist_set l i v = Ok l' /\ length l' = length l /\
             forall j, 0 <= j -> zn l' j = if j =? i then v else zn l j.
Proof.
  intros H. destruct (list_set_ok l (Z.to_nat i) v ltac:(lia)) as (l' & E & Hlen & Hnth).
  exists l'. unfold zlist_set. replace (i <? 0) with false by (symmetry; apply Z.ltb_ge; lia).
  rewrite E. split; [reflexivity|]. split; [assumption|].
  intros j Hj. unfold zn. rewrite Hnth.
  destruct (Z.eqb_spec j i) as [->|Hne]; [rewrite Nat.eqb_refl; reflexivity|].
  replace (Nat.eqb (Z.to_nat j) (Z.to_nat i)) with false; [reflexivity|].
  symmetry. apply Nat.eqb_neq. lia.
Qed.

Fixpoint lsum (l : list Z) : Z := match l with [] => 0 | x :: tl => x + lsum tl end.

Lemma list_set_sum : forall l i v l', list_set l i v = Some l' -> lsum l' = lsum l - nth i l 0 + v.
Proof.
  induction l as [|x tl IH]; intros i v l' E; [destruct i; discriminate|].
  destruct i as [|i]; cbn [list_set] in E.
  - injection E as <-. cbn [lsum nth]. lia.
  - destruct (list_set tl i v) as [tl'|] eqn:E1; [|discriminate]. injection E as <-.
    cbn [lsum nth]. rewrite (IH i v tl' E1). lia.
Qed.

Lemma zn_range_default l i : Z.of_nat (length l) <= i -> zn l i = 0.
Proof. intros H. unfold zn. apply nth_overflow. lia. Qed.

(* ------------------------------------------------------------------------------------------------ *)
(* pass 1: the histogram                                                                              *)
(* ------------------------------------------------------------------------------------------------ *)
Fixpoint cnt (l : Z) (ls : list Z) : Z :=
  match ls with [] => 0 | x :: tl => (if x =? l then 1 else 0) + cnt l tl end.
Fixpoint nz (ls : list Z) : Z :=
  match ls with [] => 0 | x :: tl => (if x =? 0 then 0 else 1) + nz tl end.

Lemma cnt_nonneg l ls : 0 <= cnt l ls.
Proof. induction ls as [|x tl IH]; cbn [cnt]; [lia|]. destruct (x =? l); lia. Qed.
Lemma nz_nonneg ls : 0 <= nz ls.
Proof. induction ls as [|x tl IH]; cbn [nz]; [lia|]. destruct (x =? 0); lia. Qed.
Lemma nz_le_length ls : nz ls <= Z.of_nat (length ls).
Proof. induction ls as [|x tl IH]; cbn [nz length]; [lia|]. destruct (x =? 0); lia. Qed.

Definition lens_ok (ls : list Z) : Prop := Forall (fun l => 0 <= l <= 15) ls.

Lemma count_lengths_spec : forall ls hist num,
  lens_ok ls -> length hist = 16%nat ->
  (forall i, 0 <= i -> 0 <= zn hist i /\ zn hist i + Z.of_nat (length ls) <= 65535) ->
  0 <= num -> num + Z.of_nat (length ls) <= 65535 ->
  exists hist' num', count_lengths ls hist num = Ok (hist', num') /\ length hist' = 16%nat /\
    (forall i, 0 <= i -> zn hist' i = zn hist i + (if i =? 0 then 0 else cnt i ls)) /\
    num' = num + nz ls /\ lsum hist' = lsum hist + nz ls.
Proof.
  induction ls as [|l tl IH]; intros hist num Hok Hlen Hh Hnum Hnum2.
  - exists hist, num. cbn [count_lengths cnt nz]. split; [reflexivity|]. split; [assumption|].
    split; [intros i Hi; destruct (i =? 0); lia|]. lia.
  - inversion Hok as [|? ? Hl Htl]; subst. cbn [count_lengths]. cbn [length] in *.
    destruct (Z.eqb_spec l 0) as [->|Hl0].
    + destruct (IH hist num Htl Hlen) as (hist' & num' & E & Hlen' & Hz & Hn & Hs); try lia.
      { intros i Hi. specialize (Hh i Hi). lia. }
      exists hist', num'. split; [assumption|]. split; [assumption|]. cbn [cnt nz]. split.
      * intros i Hi. rewrite (Hz i Hi). destruct (Z.eqb_spec i 0) as [->|Hi0]; [reflexivity|].
        replace (0 =? i) with false by (symmetry; apply Z.eqb_neq; lia). lia.
      * cbn [Z.eqb]. lia.
    + rewrite zlist_get_ok by lia. cbn [bind].
      pose proof (Hh l ltac:(lia)) as [Hh0 Hh1].
      replace (65535 <=? zn hist l) with false by (symmetry; apply Z.leb_gt; lia).
      destruct (zlist_set_ok hist l (zn hist l + 1) ltac:(lia)) as (h1 & E1 & Hlen1 & Hz1).
      rewrite E1. cbn [bind].
      replace (2147483647 <=? num) with false by (symmetry; apply Z.leb_gt; lia).
      destruct (IH h1 (num + 1) Htl ltac:(lia)) as (hist' & num' & E & Hlen' & Hz & Hn & Hs); try lia.
      { intros i Hi. rewrite (Hz1 i Hi). specialize (Hh i Hi). destruct (i =? l); lia. }
      exists hist', num'. split; [assumption|]. split; [assumption|]. cbn [cnt nz]. split; [|split].
      * intros i Hi. rewrite (Hz i Hi), (Hz1 i Hi).
        destruct (Z.eqb_spec i l) as [->|Hil].
        -- replace (l =? 0) with false by (symmetry; apply Z.eqb_neq; lia). rewrite Z.eqb_refl. lia.
        -- replace (l =? i) with false by (symmetry; apply Z.eqb_neq; lia). destruct (i =? 0); lia.
      * replace (l =? 0) with false by (symmetry; apply Z.eqb_neq; lia). lia.
      * replace (l =? 0) with false by (symmetry; apply Z.eqb_neq; lia).
        unfold zlist_set in E1. replace (l <? 0) with false in E1 by (symmetry; apply Z.ltb_ge; lia).
        destruct (list_set hist (Z.to_nat l) (zn hist l + 1)) as [hh|] eqn:E2; [|discriminate].
        cbn [of_option] in E1. injection E1 as <-. rewrite Hs. rewrite (list_set_sum _ _ _ _ E2). unfold zn. lia.
Qed.

Lemma repeat0_zn n i : zn (repeat 0 n) i = 0.
Proof. unfold zn. generalize (Z.to_nat i). induction n as [|n IH]; intros [|k]; cbn [repeat nth]; auto. Qed.
Lemma repeat0_lsum n : lsum (repeat 0 n) = 0.
Proof. induction n; cbn [repeat lsum]; lia. Qed.

Lemma position_nonzero_some : forall ls k, 1 <= nz ls -> exists i, position_nonzero ls k = Some i.
Proof.
  induction ls as [|x tl IH]; intros k H; cbn [nz] in H; [lia|]. cbn [position_nonzero].
  destruct (x =? 0); [apply IH; lia | eauto].
Qed.

(* rposition: the last non-zero entry *)
Lemma rposition_spec : forall hist i last,
  match rposition_nonzero hist i last with
  | Some m => (last = Some m /\ forall k, (k < length hist)%nat -> nth k hist 0 = 0) \/
              (exists k, (k < length hist)%nat /\ m = i + Z.of_nat k /\ nth k hist 0 <> 0 /\
                         forall k', (k < k' < length hist)%nat -> nth k' hist 0 = 0)
  | None => last = None /\ forall k, (k < length hist)%nat -> nth k hist 0 = 0
  end.
Proof.
  induction hist as [|h tl IH]; intros i last; cbn [rposition_nonzero].
  - destruct last; [left|]; split; auto; intros k Hk; cbn in Hk; lia.
  - specialize (IH (i + 1) (if h =? 0 then last else Some i)).
    destruct (rposition_nonzero tl (i + 1) (if h =? 0 then last else Some i)) as [m|].
    + destruct IH as [[Hl Hz]|(k & Hk & Hm & Hnz & Hz)].
      * destruct (Z.eqb_spec h 0) as [->|Hh].
        -- left. split; [assumption|]. intros [|k] Hk; [reflexivity|]. cbn [nth]. apply Hz. cbn [length] in Hk. lia.
        -- right. exists 0%nat. injection Hl as <-. cbn [length nth]. repeat split; try lia.
           intros [|k'] Hk'; [lia|]. cbn [nth]. apply Hz. lia.
      * right. exists (S k). cbn [length nth]. repeat split; try lia; auto.
        intros [|k'] Hk'; [lia|]. cbn [nth]. apply Hz. lia.
    + destruct IH as [Hl Hz]. destruct (Z.eqb_spec h 0) as [->|Hh]; [|discriminate].
      split; [assumption|]. intros [|k] Hk; [reflexivity|]. cbn [nth]. apply Hz. cbn [length] in Hk. lia.
Qed.

Lemma lsum_zero l : (forall k, (k < length l)%nat -> nth k l 0 = 0) -> lsum l = 0.
Proof.
  induction l as [|x tl IH]; intros H; [reflexivity|]. cbn [lsum].
  rewrite (H 0%nat ltac:(cbn; lia)) at 1. cbn [nth]. rewrite IH; [lia|]. intros k Hk. apply (H (S k)). cbn [length]. lia.
Qed.

Lemma rposition_max hist : length hist = 16%nat -> lsum hist <> 0 ->
  exists m, rposition_nonzero hist 0 None = Some m /\ 0 <= m <= 15 /\ zn hist m <> 0 /\
            forall i, m < i -> zn hist i = 0.
Proof.
  intros Hlen Hs. pose proof (rposition_spec hist 0 None) as H.
  destruct (rposition_nonzero hist 0 None) as [m|].
  - destruct H as [[Hl _]|(k & Hk & Hm & Hnz & Hz)]; [discriminate|].
    exists m. split; [reflexivity|]. split; [lia|]. unfold zn. split.
    + replace (Z.to_nat m) with k by lia. assumption.
    + intros i Hi. destruct (Z_lt_ge_dec i 16).
      * apply Hz. lia.
      * apply nth_overflow. lia.
  - destruct H as [_ Hz]. exfalso. apply Hs. apply lsum_zero. assumption.
Qed.

(* ------------------------------------------------------------------------------------------------ *)
(* pass 2: first codes                                                                                *)
(* ------------------------------------------------------------------------------------------------ *)
(* curr_code after the lengths 1..l have been processed *)
Fixpoint curr_of (hist : list Z) (l : nat) : Z :=
  match l with O => 0 | S l' => 2 * (curr_of hist l' + zn hist (Z.of_nat l)) end.

Definition hist_ok (hist : list Z) : Prop := forall i, 0 <= i -> 0 <= zn hist i <= 65535.

Lemma curr_of_bound hist l : hist_ok hist -> 0 <= curr_of hist l <= 131070 * (2 ^ Z.of_nat l - 1).
Proof.
  intros Hh. induction l as [|l IH]; [cbn; lia|].
  cbn [curr_of]. pose proof (Hh (Z.of_nat (S l)) ltac:(lia)).
  replace (2 ^ Z.of_nat (S l)) with (2 * 2 ^ Z.of_nat l) by (rewrite Nat2Z.inj_succ, Z.pow_succ_r; lia). lia.
Qed.

Lemma pow2_le_15 l : (l <= 15)%nat -> 1 <= 2 ^ Z.of_nat l <= 32768.
Proof.
  intros H. split; [apply (Z.pow_le_mono_r 2 0); lia|].
  change 32768 with (2 ^ 15). apply Z.pow_le_mono_r; lia.
Qed.

Lemma pow2_le_14 l : (l <= 14)%nat -> 1 <= 2 ^ Z.of_nat l <= 16384.
Proof.
  intros H. split; [apply (Z.pow_le_mono_r 2 0); lia|].
  change 16384 with (2 ^ 14). apply Z.pow_le_mono_r; lia.
Qed.

(* curr_of grows at least geometrically *)
Lemma curr_of_mono hist : hist_ok hist -> forall k l, 2 ^ Z.of_nat k * curr_of hist l <= curr_of hist (l + k).
Proof.
  intros Hh. induction k as [|k IH]; intros l.
  - rewrite Nat.add_0_r. change (2 ^ Z.of_nat 0) with 1. lia.
  - replace (l + S k)%nat with (S (l + k)) by lia. cbn [curr_of].
    pose proof (Hh (Z.of_nat (S (l + k))) ltac:(lia)). specialize (IH l).
    replace (2 ^ Z.of_nat (S k)) with (2 * 2 ^ Z.of_nat k) by (rewrite Nat2Z.inj_succ, Z.pow_succ_r; lia). lia.
Qed.

Lemma assign_codes_spec hist : hist_ok hist -> length hist = 16%nat ->
  forall n c nc, (1 <= c)%nat -> (c + n <= 16)%nat -> length nc = 16%nat ->
  exists nc', assign_codes n (Z.of_nat c) hist nc (curr_of hist (c - 1)) = Ok (nc', curr_of hist (c + n - 1)) /\
              length nc' = 16%nat /\
              forall l, 0 <= l -> zn nc' l = if (Z.of_nat c <=? l) && (l <? Z.of_nat (c + n))
                                              then (curr_of hist (Z.to_nat l - 1)) mod 2 ^ 16 else zn nc l.
Proof.
  intros Hh Hlen. induction n as [|n IH]; intros c nc Hc Hcn Hnc.
  - exists nc. cbn [assign_codes]. replace (c + 0 - 1)%nat with (c - 1)%nat by lia. split; [reflexivity|].
    split; [assumption|]. intros l Hl.
    replace ((Z.of_nat c <=? l) && (l <? Z.of_nat (c + 0))) with false; [reflexivity|].
    symmetry. apply andb_false_iff. destruct (Z_lt_ge_dec l (Z.of_nat c)); [left; apply Z.leb_gt | right; apply Z.ltb_ge]; lia.
  - cbn [assign_codes].
    destruct (zlist_set_ok nc (Z.of_nat c) ((curr_of hist (c - 1)) mod 2 ^ 16) ltac:(lia)) as (nc1 & E1 & Hlen1 & Hz1).
    rewrite E1. cbn [bind]. rewrite zlist_get_ok by lia. cbn [bind].
    pose proof (curr_of_bound hist (c - 1) Hh) as Hb. pose proof (Hh (Z.of_nat c) ltac:(lia)) as Hhc.
    pose proof (pow2_le_14 (c - 1) ltac:(lia)) as Hp.
    replace (2 ^ 32 <=? curr_of hist (c - 1) + zn hist (Z.of_nat c)) with false.
    2:{ symmetry. apply Z.leb_gt. change (2 ^ 32) with 4294967296. lia. }
    assert (Hnext : ((curr_of hist (c - 1) + zn hist (Z.of_nat c)) * 2) mod 2 ^ 32 = curr_of hist (S c - 1)).
    { replace (S c - 1)%nat with (S (c - 1)) by lia. cbn [curr_of]. replace (Z.of_nat (S (c - 1))) with (Z.of_nat c) by lia.
      rewrite Z.mod_small by (change (2 ^ 32) with 4294967296; lia). lia. }
    rewrite Hnext. replace (Z.of_nat c + 1) with (Z.of_nat (S c)) by lia.
    destruct (IH (S c) nc1 ltac:(lia) ltac:(lia) ltac:(lia)) as (nc' & E & Hlen' & Hz).
    exists nc'. replace (c + S n - 1)%nat with (S c + n - 1)%nat by lia. split; [exact E|]. split; [assumption|].
    intros l Hl. rewrite (Hz l Hl), (Hz1 l Hl).
    destruct (Z.eqb_spec l (Z.of_nat c)) as [->|Hne].
    + replace ((Z.of_nat (S c) <=? Z.of_nat c) && (Z.of_nat c <? Z.of_nat (S c + n))) with false
        by (symmetry; apply andb_false_iff; left; apply Z.leb_gt; lia).
      replace ((Z.of_nat c <=? Z.of_nat c) && (Z.of_nat c <? Z.of_nat (c + S n))) with true
        by (symmetry; apply andb_true_iff; split; [apply Z.leb_le | apply Z.ltb_lt]; lia).
      rewrite Nat2Z.id. reflexivity.
    + replace (Z.of_nat (c + S n)) with (Z.of_nat (S c + n)) by lia.
      destruct (Z_lt_ge_dec l (Z.of_nat c)).
      * replace (Z.of_nat (S c) <=? l) with false by (symmetry; apply Z.leb_gt; lia).
        replace (Z.of_nat c <=? l) with false by (symmetry; apply Z.leb_gt; lia). reflexivity.
      * replace (Z.of_nat (S c) <=? l) with true by (symmetry; apply Z.leb_le; lia).
        replace (Z.of_nat c <=? l) with true by (symmetry; apply Z.leb_le; lia). reflexivity.
Qed.

(* the Kraft check: no level is over-subscribed *)
Lemma kraft_levels hist m : hist_ok hist -> curr_of hist m = 2 ^ (Z.of_nat m + 1) ->
  forall l, (l <= m)%nat -> curr_of hist l <= 2 ^ (Z.of_nat l + 1).
Proof.
  intros Hh Hk l Hl. pose proof (curr_of_mono hist Hh (m - l) l) as H.
  replace (l + (m - l))%nat with m in H by lia. rewrite Hk in H.
  replace (Z.of_nat m + 1) with (Z.of_nat (m - l) + (Z.of_nat l + 1)) in H by lia.
  rewrite Z.pow_add_r in H by lia.
  assert (0 < 2 ^ Z.of_nat (m - l)) by (apply Z.pow_pos_nonneg; lia).
  apply Z.mul_le_mono_pos_l in H; assumption.
Qed.

(* ------------------------------------------------------------------------------------------------ *)
(* sums of a slice of the histogram                                                                   *)
(* ------------------------------------------------------------------------------------------------ *)
Lemma lsum_nonneg l : (forall k, 0 <= nth k l 0) -> 0 <= lsum l.
Proof.
  induction l as [|x tl IH]; intros H; cbn [lsum]; [lia|].
  pose proof (H 0%nat) as H0. cbn [nth] in H0. assert (0 <= lsum tl) by (apply IH; intros k; apply (H (S k))). lia.
Qed.
Lemma lsum_skipn_le k : forall l, (forall j, 0 <= nth j l 0) -> 0 <= lsum (skipn k l) <= lsum l.
Proof.
  induction k as [|k IH]; intros l H; cbn [skipn].
  - pose proof (lsum_nonneg l H). lia.
  - destruct l as [|x tl]; [cbn; lia|]. cbn [lsum]. pose proof (H 0%nat) as H0. cbn [nth] in H0.
    specialize (IH tl ltac:(intros j; apply (H (S j)))). lia.
Qed.
Lemma lsum_firstn_le k : forall l, (forall j, 0 <= nth j l 0) -> 0 <= lsum (firstn k l) <= lsum l.
Proof.
  induction k as [|k IH]; intros l H; cbn [firstn].
  - pose proof (lsum_nonneg l H). cbn [lsum]. lia.
  - destruct l as [|x tl]; [cbn; lia|]. cbn [lsum]. pose proof (H 0%nat) as H0. cbn [nth] in H0.
    specialize (IH tl ltac:(intros j; apply (H (S j)))). lia.
Qed.
Lemma nth_skipn_nonneg k : forall (l : list Z), (forall j, 0 <= nth j l 0) -> forall j, 0 <= nth j (skipn k l) 0.
Proof.
  induction k as [|k IH]; intros l H j; cbn [skipn]; [apply H|].
  destruct l as [|x tl]; [destruct j; cbn; lia|]. apply IH. intros j'. apply (H (S j')).
Qed.

Lemma nth_firstn_nonneg k : forall (l : list Z), (forall j, 0 <= nth j l 0) -> forall j, 0 <= nth j (firstn k l) 0.
Proof.
  induction k as [|k IH]; intros l H j; cbn [firstn]; [destruct j; cbn; lia|].
  destruct l as [|x tl]; [destruct j; cbn; lia|]. destruct j as [|j]; cbn [nth]; [apply (H 0%nat)|].
  apply IH. intros j'. apply (H (S j')).
Qed.

Lemma sum_u16_ok : forall l acc, (forall j, 0 <= nth j l 0) -> 0 <= acc -> acc + lsum l <= 65535 ->
  sum_u16 l acc = Ok (acc + lsum l).
Proof.
  induction l as [|x tl IH]; intros acc H Ha Hs; cbn [sum_u16 lsum] in *; [f_equal; lia|].
  pose proof (H 0%nat) as H0. cbn [nth] in H0.
  assert (0 <= lsum tl) by (apply lsum_nonneg; intros k; apply (H (S k))).
  replace (65535 <? acc + x) with false by (symmetry; apply Z.ltb_ge; lia).
  rewrite IH; [f_equal; lia | intros k; apply (H (S k)) | lia | lia].
Qed.

Lemma sum_range_u16_ok hist a b : length hist = 16%nat -> (forall j, 0 <= nth j hist 0) -> lsum hist <= 65535 ->
  0 <= a -> a <= b + 1 -> b <= 15 -> exists v, sum_range_u16 hist a b = Ok v.
Proof.
  intros Hlen Hnn Hs Ha Hab Hb. unfold sum_range_u16.
  replace (b + 1 <? a) with false by (symmetry; apply Z.ltb_ge; lia).
  replace (Z.of_nat (length hist) <? b + 1) with false by (symmetry; apply Z.ltb_ge; lia).
  eexists. apply sum_u16_ok.
  - apply nth_firstn_nonneg. apply nth_skipn_nonneg. assumption.
  - lia.
  - pose proof (lsum_skipn_le (Z.to_nat a) hist Hnn).
    pose proof (lsum_firstn_le (Z.to_nat (b + 1 - a)) (skipn (Z.to_nat a) hist) (nth_skipn_nonneg _ _ Hnn)). lia.
Qed.

(* ------------------------------------------------------------------------------------------------ *)
(* bit reversal                                                                                       *)
(* ------------------------------------------------------------------------------------------------ *)
Lemma mod2_b2z x : x mod 2 = Z.b2z (Z.odd x).
Proof. rewrite Zmod_odd. destruct (Z.odd x); reflexivity. Qed.

Lemma rev_aux_bits : forall n x acc i, 0 <= x -> 0 <= acc -> 0 <= i ->
  Z.testbit (rev_bits_aux n x acc) i =
  if i <? Z.of_nat n then Z.testbit x (Z.of_nat n - 1 - i) else Z.testbit acc (i - Z.of_nat n).
Proof.
  induction n as [|n IH]; intros x acc i Hx Hacc Hi.
  - cbn [rev_bits_aux]. replace (i <? Z.of_nat 0) with false by (symmetry; apply Z.ltb_ge; lia).
    f_equal. lia.
  - cbn [rev_bits_aux]. rewrite IH by lia. rewrite mod2_b2z.
    destruct (Z_lt_ge_dec i (Z.of_nat n)) as [Hlt|Hge].
    + replace (i <? Z.of_nat n) with true by (symmetry; apply Z.ltb_lt; lia).
      replace (i <? Z.of_nat (S n)) with true by (symmetry; apply Z.ltb_lt; lia).
      replace (x / 2) with (Z.shiftr x 1) by (rewrite Z.shiftr_div_pow2 by lia; reflexivity).
      rewrite Z.shiftr_spec by lia. f_equal. lia.
    + replace (i <? Z.of_nat n) with false by (symmetry; apply Z.ltb_ge; lia).
      destruct (Z.eq_dec i (Z.of_nat n)) as [->|Hne].
      * replace (Z.of_nat n <? Z.of_nat (S n)) with true by (symmetry; apply Z.ltb_lt; lia).
        replace (Z.of_nat n - Z.of_nat n) with 0 by lia. rewrite Z.testbit_0_r.
        replace (Z.of_nat (S n) - 1 - Z.of_nat n) with 0 by lia. symmetry. apply Z.bit0_odd.
      * replace (i <? Z.of_nat (S n)) with false by (symmetry; apply Z.ltb_ge; lia).
        replace (i - Z.of_nat n) with (Z.succ (i - Z.of_nat (S n))) by lia.
        rewrite Z.testbit_succ_r by lia. reflexivity.
Qed.

Definition revl (l c : Z) : Z := Z.shiftr (reverse_bits16 c) (16 - l).

Lemma rev_aux_nonneg : forall n x acc, 0 <= x -> 0 <= acc -> 0 <= rev_bits_aux n x acc.
Proof. induction n as [|n IH]; intros x acc Hx Ha; cbn [rev_bits_aux]; [assumption|]. apply IH; lia. Qed.

Lemma revl_nonneg l c : 0 <= c -> 0 <= revl l c.
Proof. intros Hc. unfold revl. apply Z.shiftr_nonneg. unfold reverse_bits16. apply rev_aux_nonneg; lia. Qed.

Lemma revl_bits l c i : 0 <= c -> 1 <= l <= 16 -> 0 <= i ->
  Z.testbit (revl l c) i = if i <? l then Z.testbit c (l - 1 - i) else false.
Proof.
  intros Hc Hl Hi. unfold revl, reverse_bits16. rewrite Z.shiftr_spec by lia.
  rewrite rev_aux_bits by lia. change (Z.of_nat 16) with 16.
  destruct (Z_lt_ge_dec i l).
  - replace (i + (16 - l) <? 16) with true by (symmetry; apply Z.ltb_lt; lia).
    replace (i <? l) with true by (symmetry; apply Z.ltb_lt; lia). f_equal. lia.
  - replace (i + (16 - l) <? 16) with false by (symmetry; apply Z.ltb_ge; lia).
    replace (i <? l) with false by (symmetry; apply Z.ltb_ge; lia). apply Z.bits_0.
Qed.

Lemma bits_above_lt x l : 0 <= x -> 0 <= l -> (forall i, l <= i -> Z.testbit x i = false) -> x < 2 ^ l.
Proof.
  intros Hx Hl H. assert (E : x = x mod 2 ^ l).
  { apply Z.bits_inj'. intros i Hi. destruct (Z_lt_ge_dec i l).
    - rewrite Z.mod_pow2_bits_low by lia. reflexivity.
    - rewrite Z.mod_pow2_bits_high by lia. apply H. lia. }
  rewrite E. apply Z.mod_pos_bound. apply Z.pow_pos_nonneg; lia.
Qed.

Lemma lt_pow2_bits_above x l : 0 <= x < 2 ^ l -> 0 <= l -> forall i, l <= i -> Z.testbit x i = false.
Proof.
  intros Hx Hl i Hi. rewrite <- (Z.mod_small x (2 ^ l)) by lia. apply Z.mod_pow2_bits_high. lia.
Qed.

Lemma revl_lt l c : 0 <= c -> 1 <= l <= 16 -> revl l c < 2 ^ l.
Proof.
  intros Hc Hl. apply bits_above_lt; [apply revl_nonneg; assumption | lia|].
  intros i Hi. rewrite revl_bits by lia. replace (i <? l) with false by (symmetry; apply Z.ltb_ge; lia). reflexivity.
Qed.

Lemma revl_inj l c1 c2 : 1 <= l <= 16 -> 0 <= c1 < 2 ^ l -> 0 <= c2 < 2 ^ l -> revl l c1 = revl l c2 -> c1 = c2.
Proof.
  intros Hl H1 H2 E. apply Z.bits_inj'. intros i Hi.
  destruct (Z_lt_ge_dec i l) as [Hlt|Hge].
  - assert (Hb : Z.testbit (revl l c1) (l - 1 - i) = Z.testbit (revl l c2) (l - 1 - i)) by (rewrite E; reflexivity).
    rewrite !revl_bits in Hb by lia. replace (l - 1 - i <? l) with true in Hb by (symmetry; apply Z.ltb_lt; lia).
    replace (l - 1 - (l - 1 - i)) with i in Hb by lia. exact Hb.
  - rewrite (lt_pow2_bits_above c1 l) by lia. rewrite (lt_pow2_bits_above c2 l) by lia. reflexivity.
Qed.

(* the low l1 bits of a reversed l2-bit code are the reversed l1-bit prefix of the code *)
Lemma revl_prefix l1 l2 c : 0 <= c -> 1 <= l1 <= l2 -> l2 <= 16 ->
  (revl l2 c) mod 2 ^ l1 = revl l1 (Z.shiftr c (l2 - l1)).
Proof.
  intros Hc Hl1 Hl2. apply Z.bits_inj'. intros i Hi.
  assert (0 <= Z.shiftr c (l2 - l1)) by (apply Z.shiftr_nonneg; assumption).
  rewrite (revl_bits l1) by lia.
  destruct (Z_lt_ge_dec i l1).
  - rewrite Z.mod_pow2_bits_low by lia. rewrite revl_bits by lia.
    replace (i <? l2) with true by (symmetry; apply Z.ltb_lt; lia).
    replace (i <? l1) with true by (symmetry; apply Z.ltb_lt; lia).
    rewrite Z.shiftr_spec by lia. f_equal. lia.
  - rewrite Z.mod_pow2_bits_high by lia. replace (i <? l1) with false by (symmetry; apply Z.ltb_ge; lia). reflexivity.
Qed.

Lemma mod_pow2_mod_pow2 x a b : 0 <= a <= b -> (x mod 2 ^ b) mod 2 ^ a = x mod 2 ^ a.
Proof.
  intros H. apply Z.bits_inj'. intros i Hi. destruct (Z_lt_ge_dec i a).
  - rewrite !Z.mod_pow2_bits_low by lia. reflexivity.
  - rewrite !(Z.mod_pow2_bits_high _ a) by lia. reflexivity.
Qed.

(* ------------------------------------------------------------------------------------------------ *)
(* arrays and vectors                                                                                 *)
(* ------------------------------------------------------------------------------------------------ *)
Definition az (a : arr) (i : Z) : Z := araw a (Z.to_N i).

Lemma zget_ok a i : 0 <= i < zlen a -> zget a i = Ok (az a i).
Proof.
  intros H. unfold zget, zlen in *. replace (i <? 0) with false by (symmetry; apply Z.ltb_ge; lia).
  unfold aget. replace (Z.to_N i <? alen a)%N with true by (symmetry; apply N.ltb_lt; lia). reflexivity.
Qed.

Lemma zset_ok a i v : 0 <= i < zlen a ->
  exists a', zset a i v = Ok a' /\ zlen a' = zlen a /\ forall j, 0 <= j -> az a' j = if j =? i then v else az a j.
Proof.
  intros H. unfold zset, zlen in *. replace (i <? 0) with false by (symmetry; apply Z.ltb_ge; lia).
  unfold aset. replace (Z.to_N i <? alen a)%N with true by (symmetry; apply N.ltb_lt; lia).
  eexists. split; [reflexivity|]. split; [reflexivity|]. intros j Hj. unfold az, araw. cbn [adata].
  destruct (Z.eqb_spec j i) as [->|Hne].
  - rewrite PM.gss. reflexivity.
  - rewrite PM.gso; [reflexivity|]. intros E. apply akey_inj in E. lia.
Qed.

Lemma zmake_len n : 0 <= n -> zlen (zmake n) = n.
Proof. intros H. unfold zlen, zmake, amake. cbn [alen]. lia. Qed.
Lemma zmake_az n j : az (zmake n) j = 0.
Proof. unfold az, zmake, amake, araw. cbn [adata]. rewrite PM.gempty. reflexivity. Qed.

Definition vz {A} (v : vec A) (i : Z) : A := vraw v (Z.to_N i).

Lemma vget_ok {A} (v : vec A) i : 0 <= i < vzlen v -> vget v i = Ok (vz v i).
Proof.
  intros H. unfold vget, vzlen in *. replace (i <? 0) with false by (symmetry; apply Z.ltb_ge; lia).
  replace (Z.to_N i <? vlen v)%N with true by (symmetry; apply N.ltb_lt; lia). reflexivity.
Qed.

Lemma vset_ok {A} (v : vec A) i x : 0 <= i < vzlen v ->
  exists v', vset v i x = Ok v' /\ vzlen v' = vzlen v /\ forall j, 0 <= j -> vz v' j = if j =? i then x else vz v j.
Proof.
  intros H. unfold vset, vzlen in *. replace (i <? 0) with false by (symmetry; apply Z.ltb_ge; lia).
  replace (Z.to_N i <? vlen v)%N with true by (symmetry; apply N.ltb_lt; lia).
  eexists. split; [reflexivity|]. split; [reflexivity|]. intros j Hj. unfold vz, vraw. cbn [vdata vdef].
  destruct (Z.eqb_spec j i) as [->|Hne].
  - rewrite PM.gss. reflexivity.
  - rewrite PM.gso; [reflexivity|]. intros E. apply akey_inj in E. lia.
Qed.

Lemma vpush_len {A} (v : vec A) x : vzlen (vpush v x) = vzlen v + 1.
Proof. unfold vzlen, vpush. cbn [vlen]. lia. Qed.
Lemma vpush_vz {A} (v : vec A) x j : 0 <= j -> vz (vpush v x) j = if j =? vzlen v then x else vz v j.
Proof.
  intros Hj. unfold vz, vpush, vraw, vzlen. cbn [vdata vdef].
  destruct (Z.eqb_spec j (Z.of_N (vlen v))) as [E|Hne].
  - replace (Z.to_N j) with (vlen v) by lia. rewrite PM.gss. reflexivity.
  - rewrite PM.gso; [reflexivity|]. intros E. apply akey_inj in E. lia.
Qed.

(* ------------------------------------------------------------------------------------------------ *)
(* pass 3: the population loop                                                                        *)
(* ------------------------------------------------------------------------------------------------ *)
Definition first (hist : list Z) (l : Z) : Z := curr_of hist (Z.to_nat l - 1).
Definition lim (hist : list Z) (l : Z) : Z := first hist l + zn hist l.

Lemma curr_of_lim hist l : 1 <= l -> curr_of hist (Z.to_nat l) = 2 * lim hist l.
Proof.
  intros Hl. unfold lim, first. replace (Z.to_nat l) with (S (Z.to_nat l - 1)) at 1 by lia.
  cbn [curr_of]. replace (Z.of_nat (S (Z.to_nat l - 1))) with l by lia. reflexivity.
Qed.

(* static facts about the code, fixed before the loop starts *)
Record code_ctx (hist : list Z) (mx tb : Z) : Prop := {
  cx_hist : hist_ok hist;
  cx_mx : 1 <= mx <= 15;
  cx_tb : tb = Z.min mx 10;
  cx_kraft : forall l, 1 <= l <= mx -> lim hist l <= 2 ^ l;
  cx_prefix : forall l1 l2, 1 <= l1 -> l1 < l2 -> l2 <= mx -> 2 ^ (l2 - l1) * lim hist l1 <= first hist l2 }.

Definition nc_inv (hist : list Z) (mx : Z) (nc : list Z) (ls : list Z) : Prop :=
  length nc = 16%nat /\
  forall l, 1 <= l <= mx -> first hist l <= zn nc l /\ zn nc l + cnt l ls = lim hist l.

Definition table_inv (hist : list Z) (tb : Z) (nc : list Z) (nodes : vec node) (table : arr) : Prop :=
  zlen table = 2 ^ tb /\
  forall j, 0 <= j < 2 ^ tb ->
    (Z.shiftr (az table j) 16 <> 0 ->
       exists l1 c1, 1 <= l1 <= tb /\ first hist l1 <= c1 < zn nc l1 /\ j mod 2 ^ l1 = revl l1 c1) /\
    (Z.shiftr (az table j) 16 = 0 -> 0 <= az table j <= vzlen nodes).

Definition wf_nodes (nodes : vec node) : Prop :=
  forall i o, 0 <= i < vzlen nodes -> vz nodes i = Branch o -> 1 <= o /\ i + o + 1 < vzlen nodes.

(* which slots the replication loop starting at j writes *)
Definition hit (j step ts x : Z) : bool := (j <=? x) && (x <? ts) && ((x - j) mod step =? 0).

Lemma replicate_ok : forall n table j step entry ts, zlen table = ts -> 0 <= j -> 0 < step ->
  ts <= j + Z.of_nat n * step ->
  exists t', replicate n table j step entry ts = Ok t' /\ zlen t' = ts /\
    forall x, 0 <= x -> az t' x = if hit j step ts x then entry else az table x.
Proof.
  induction n as [|n IH]; intros table j step entry ts Hlen Hj Hstep Hfuel; cbn [replicate].
  - exists table. split; [reflexivity|]. split; [assumption|]. intros x Hx. unfold hit.
    replace ((j <=? x) && (x <? ts)) with false; [reflexivity|].
    symmetry. apply andb_false_iff. destruct (Z_le_gt_dec j x); [right; apply Z.ltb_ge | left; apply Z.leb_gt]; lia.
  - destruct (j <? ts) eqn:E.
    + apply Z.ltb_lt in E. destruct (zset_ok table j entry ltac:(lia)) as (t1 & E1 & Hlen1 & Hz1).
      rewrite E1. cbn [bind].
      destruct (IH t1 (j + step) step entry ts ltac:(lia) ltac:(lia) Hstep ltac:(lia)) as (t' & E' & Hlen' & Hz').
      exists t'. split; [assumption|]. split; [assumption|]. intros x Hx.
      rewrite (Hz' x Hx), (Hz1 x Hx). unfold hit.
      destruct (Z.eqb_spec x j) as [->|Hne].
      * replace (j + step <=? j) with false by (symmetry; apply Z.leb_gt; lia). cbn [andb].
        replace (j <=? j) with true by (symmetry; apply Z.leb_le; lia).
        replace (j <? ts) with true by (symmetry; apply Z.ltb_lt; lia).
        replace (j - j) with 0 by lia. rewrite Z.mod_0_l by lia. reflexivity.
      * destruct (Z_lt_ge_dec x ts) as [Hxt|Hxt].
        2:{ replace (x <? ts) with false by (symmetry; apply Z.ltb_ge; lia). rewrite !andb_false_r. reflexivity. }
        replace (x <? ts) with true by (symmetry; apply Z.ltb_lt; lia). rewrite !andb_true_r.
        replace (x - (j + step)) with (x - j + (-1) * step) by lia. rewrite Z_mod_plus_full.
        destruct (Z_lt_ge_dec x j) as [Hlt|Hge].
        { replace (j + step <=? x) with false by (symmetry; apply Z.leb_gt; lia).
          replace (j <=? x) with false by (symmetry; apply Z.leb_gt; lia). reflexivity. }
        replace (j <=? x) with true by (symmetry; apply Z.leb_le; lia). cbn [andb].
        destruct (Z_lt_ge_dec x (j + step)) as [Hlt2|Hge2].
        { replace (j + step <=? x) with false by (symmetry; apply Z.leb_gt; lia). cbn [andb].
          rewrite (Z.mod_small (x - j)) by lia. replace (x - j =? 0) with false by (symmetry; apply Z.eqb_neq; lia). reflexivity. }
        replace (j + step <=? x) with true by (symmetry; apply Z.leb_le; lia). reflexivity.
    + apply Z.ltb_ge in E. exists table. split; [reflexivity|]. split; [assumption|]. intros x Hx. unfold hit.
      replace ((j <=? x) && (x <? ts)) with false; [reflexivity|].
      symmetry. apply andb_false_iff. destruct (Z_le_gt_dec j x); [right; apply Z.ltb_ge | left; apply Z.leb_gt]; lia.
Qed.

(* for a start below the step, the slots hit are those congruent to the start *)
Lemma hit_mod j p ts x : 0 <= j < p -> 0 <= x < ts -> hit j p ts x = (x mod p =? j).
Proof.
  intros Hj Hx. unfold hit. replace (x <? ts) with true by (symmetry; apply Z.ltb_lt; lia). rewrite andb_true_r.
  destruct (Z.eqb_spec (x mod p) j) as [E|E].
  - assert (Hxj : x - j = (x / p) * p) by (rewrite <- E; pose proof (Z.div_mod x p ltac:(lia)); lia).
    assert (0 <= x / p) by (apply Z.div_pos; lia).
    replace (j <=? x) with true by (symmetry; apply Z.leb_le; nia).
    rewrite Hxj, Z_mod_mult. reflexivity.
  - destruct (Z_le_gt_dec j x) as [Hle|Hgt].
    + replace (j <=? x) with true by (symmetry; apply Z.leb_le; lia). cbn [andb].
      destruct (Z.eqb_spec ((x - j) mod p) 0) as [E0|E0]; [|reflexivity]. exfalso. apply E.
      replace x with ((x - j) + j) by lia. rewrite Z.add_mod by lia. rewrite E0. cbn [Z.add].
      rewrite Z.mod_mod by lia. apply Z.mod_small. lia.
    + replace (j <=? x) with false by (symmetry; apply Z.leb_gt; lia). reflexivity.
Qed.

Lemma land1 x : Z.land x 1 = x mod 2.
Proof. exact (Z.land_ones x 1 ltac:(lia)). Qed.

(* following the bits `depth-1 .. 0` of a code through the secondary tree, as the construction loop does *)
Fixpoint path (nodes : vec node) (idx code : Z) (n : nat) : option Z :=
  match n with
  | O => Some idx
  | S d => match vz nodes idx with
           | Branch o => path nodes (idx + o + Z.land (Z.shiftr code (Z.of_nat d)) 1) code d
           | _ => None
           end
  end.

(* the tree only grows: new nodes are appended and only Empty nodes are ever overwritten *)
Definition ext (n n' : vec node) : Prop :=
  vzlen n <= vzlen n' /\ forall i, 0 <= i < vzlen n -> vz n i <> Empty -> vz n' i = vz n i.

Lemma ext_refl n : ext n n.
Proof. split; [lia|]. intros; reflexivity. Qed.

Lemma ext_trans a b c : ext a b -> ext b c -> ext a c.
Proof.
  intros [L1 E1] [L2 E2]. split; [lia|]. intros i Hi Hne.
  rewrite E2; [apply E1; assumption | lia | rewrite E1 by assumption; assumption].
Qed.

Lemma path_valid nodes code : wf_nodes nodes -> forall n idx leaf, 0 <= idx < vzlen nodes ->
  path nodes idx code n = Some leaf -> 0 <= leaf < vzlen nodes.
Proof.
  intros Hwf. induction n as [|n IH]; intros idx leaf Hidx Hp; cbn [path] in Hp.
  - injection Hp as <-. assumption.
  - destruct (vz nodes idx) as [o| |] eqn:End; try discriminate.
    destruct (Hwf idx o Hidx End) as [Ho Hio].
    assert (Hb : 0 <= Z.land (Z.shiftr code (Z.of_nat n)) 1 <= 1) by (rewrite land1; lia).
    eapply IH; [|exact Hp]. lia.
Qed.

Lemma path_ext n n' code : wf_nodes n -> ext n n' -> forall d idx leaf, 0 <= idx < vzlen n ->
  path n idx code d = Some leaf -> path n' idx code d = Some leaf.
Proof.
  intros Hwf [Hl He]. induction d as [|d IH]; intros idx leaf Hidx Hp; cbn [path] in *; [assumption|].
  destruct (vz n idx) as [o| |] eqn:End; try discriminate.
  rewrite (He idx Hidx) by (rewrite End; discriminate). rewrite End.
  destruct (Hwf idx o Hidx End) as [Ho Hio].
  assert (Hb : 0 <= Z.land (Z.shiftr code (Z.of_nat d)) 1 <= 1) by (rewrite land1; lia).
  apply IH; [lia | assumption].
Qed.

Lemma descend_ok : forall n nodes idx code, wf_nodes nodes -> 0 <= idx < vzlen nodes ->
  descend n nodes idx code = Err EHuffmanError \/
  exists nodes' idx', descend n nodes idx code = Ok (nodes', idx') /\ wf_nodes nodes' /\
                      0 <= idx' < vzlen nodes' /\ vzlen nodes <= vzlen nodes' <= vzlen nodes + 2 * Z.of_nat n /\
                      ext nodes nodes' /\ path nodes' idx code n = Some idx'.
Proof.
  induction n as [|n IH]; intros nodes idx code Hwf Hidx; cbn [descend].
  - right. exists nodes, idx. split; [reflexivity|]. split; [assumption|]. split; [lia|]. split; [lia|].
    split; [apply ext_refl | reflexivity].
  - rewrite vget_ok by assumption. cbn [bind].
    set (bit := Z.land (Z.shiftr code (Z.of_nat n)) 1).
    assert (Hbit : 0 <= bit <= 1).
    { unfold bit. rewrite land1. lia. }
    destruct (vz nodes idx) as [o| |] eqn:End.
    + (* Branch *)
      cbn [bind]. destruct (Hwf idx o Hidx End) as [Ho Hio].
      destruct (IH nodes (idx + o + bit) code Hwf ltac:(lia)) as [E|(nodes' & idx' & E & Hwf' & Hidx' & Hlen' & Hext & Hpath)].
      * left. exact E.
      * right. exists nodes', idx'. split; [exact E|]. split; [assumption|]. split; [assumption|]. split; [lia|].
        split; [assumption|]. cbn [path]. destruct Hext as [_ He]. rewrite (He idx Hidx) by (rewrite End; discriminate).
        rewrite End. exact Hpath.
    + left. reflexivity.
    + (* Empty *)
      unfold usub. replace (vzlen nodes <? idx) with false by (symmetry; apply Z.ltb_ge; lia). cbn [bind].
      destruct (vset_ok nodes idx (Branch (vzlen nodes - idx)) Hidx) as (n1 & E1 & Hlen1 & Hz1).
      rewrite E1. cbn [bind].
      set (n3 := vpush (vpush n1 Empty) Empty).
      assert (Hlen3 : vzlen n3 = vzlen nodes + 2) by (unfold n3; rewrite !vpush_len; lia).
      assert (Hz3 : forall i, 0 <= i < vzlen nodes -> vz n3 i = if i =? idx then Branch (vzlen nodes - idx) else vz nodes i).
      { intros i Hi. unfold n3. rewrite vpush_vz by lia. rewrite vpush_len.
        destruct (Z.eqb_spec i (vzlen n1 + 1)); [lia|]. rewrite vpush_vz by lia.
        destruct (Z.eqb_spec i (vzlen n1)); [lia|]. apply Hz1. lia. }
      assert (Hwf3 : wf_nodes n3).
      { intros i o Hi Hnd. unfold n3 in Hnd. rewrite vpush_vz in Hnd by lia. rewrite vpush_len in Hnd.
        destruct (Z.eqb_spec i (vzlen n1 + 1)); [discriminate|].
        rewrite vpush_vz in Hnd by lia. destruct (Z.eqb_spec i (vzlen n1)); [discriminate|].
        rewrite Hz1 in Hnd by lia. destruct (Z.eqb_spec i idx) as [->|Hne].
        - injection Hnd as <-. lia.
        - destruct (Hwf i o ltac:(lia) Hnd). lia. }
      assert (Hext3 : ext nodes n3).
      { split; [lia|]. intros i Hi Hne. rewrite Hz3 by assumption. destruct (Z.eqb_spec i idx) as [->|]; [congruence | reflexivity]. }
      destruct (IH n3 (idx + (vzlen nodes - idx) + bit) code Hwf3 ltac:(lia)) as [E|(nodes' & idx' & E & Hwf' & Hidx' & Hlen' & Hext & Hpath)].
      * left. exact E.
      * right. exists nodes', idx'. split; [exact E|]. split; [assumption|]. split; [assumption|]. split; [lia|].
        split; [apply (ext_trans _ _ _ Hext3 Hext)|]. cbn [path]. destruct Hext as [_ He].
        rewrite (He idx ltac:(lia)) by (rewrite Hz3 by lia; rewrite Z.eqb_refl; discriminate).
        rewrite Hz3 by lia. rewrite Z.eqb_refl. exact Hpath.
Qed.

Lemma shiftr_entry l sym : 1 <= l -> 0 <= sym -> Z.shiftr (Z.lor (Z.shiftl l 16) sym) 16 <> 0.
Proof.
  intros Hl Hs. rewrite Z.shiftr_lor. rewrite Z.shiftr_shiftl_l by lia. change (16 - 16) with 0. rewrite Z.shiftl_0_r.
  intros E. apply Z.lor_eq_0_iff in E. lia.
Qed.

Lemma cnt_cons_same l tl : cnt l (l :: tl) = 1 + cnt l tl.
Proof. cbn [cnt]. rewrite Z.eqb_refl. reflexivity. Qed.
Lemma cnt_cons_other l l' tl : l <> l' -> cnt l' (l :: tl) = cnt l' tl.
Proof. intros H. cbn [cnt]. replace (l =? l') with false by (symmetry; apply Z.eqb_neq; assumption). lia. Qed.

Definition entry_of (l symbol : Z) : Z := Z.lor (Z.shiftl l 16) (symbol mod 2 ^ 32).

(* what placing the code (l, c) of `symbol` does to the table and the tree *)
Definition effect (tb l c symbol : Z) (nodes nodes' : vec node) (table table' : arr) : Prop :=
  (l <= tb -> nodes' = nodes /\
     forall j, 0 <= j < 2 ^ tb -> az table' j = if j mod 2 ^ l =? revl l c then entry_of l symbol else az table j) /\
  (tb < l -> ext nodes nodes' /\
     (forall j, 0 <= j < 2 ^ tb -> j <> (revl l c) mod 2 ^ tb -> az table' j = az table j) /\
     (az table ((revl l c) mod 2 ^ tb) <> 0 -> az table' ((revl l c) mod 2 ^ tb) = az table ((revl l c) mod 2 ^ tb)) /\
     Z.shiftr (az table' ((revl l c) mod 2 ^ tb)) 16 = 0 /\ az table' ((revl l c) mod 2 ^ tb) <> 0 /\
     exists leaf, path nodes' (az table' ((revl l c) mod 2 ^ tb) - 1) c (Z.to_nat (l - tb)) = Some leaf /\
                  vz nodes' leaf = Leaf (symbol mod 2 ^ 16)).

(* one symbol: never a panic; the invariants carry over *)
Lemma place_symbol_ok hist mx tb symbol l tl nc nodes table :
  code_ctx hist mx tb -> 1 <= l <= mx -> 0 <= symbol ->
  nc_inv hist mx nc (l :: tl) -> table_inv hist tb nc nodes table -> wf_nodes nodes ->
  vzlen nodes + 11 * Z.of_nat (length (l :: tl)) <= 65535 ->
  place_symbol symbol l (nc, nodes, table) tb (Z.shiftl 1 tb) ((Z.shiftl 1 tb) mod 2 ^ 16 - 1) = Err EHuffmanError \/
  exists nc' nodes' table',
    place_symbol symbol l (nc, nodes, table) tb (Z.shiftl 1 tb) ((Z.shiftl 1 tb) mod 2 ^ 16 - 1) = Ok (nc', nodes', table') /\
    nc_inv hist mx nc' tl /\ table_inv hist tb nc' nodes' table' /\ wf_nodes nodes' /\
    vzlen nodes' + 11 * Z.of_nat (length tl) <= 65535 /\
    effect tb l (zn nc l) symbol nodes nodes' table table'.
Proof.
  intros Hcx Hl Hsym (Hnclen & Hnc) (Htlen & Htab) Hwf Hpot.
  destruct Hcx as [Hhist Hmx Htb Hkraft Hprefix].
  assert (Htb' : 1 <= tb <= 10 /\ tb <= mx) by lia.
  assert (Hts : Z.shiftl 1 tb = 2 ^ tb) by (rewrite Z.shiftl_1_l; reflexivity).
  assert (Hpow_tb : 2 <= 2 ^ tb <= 1024).
  { split; [change 2 with (2 ^ 1) at 1; apply Z.pow_le_mono_r; lia | change 1024 with (2 ^ 10); apply Z.pow_le_mono_r; lia]. }
  rewrite Hts. rewrite (Z.mod_small (2 ^ tb)) by (change (2 ^ 16) with 65536; lia).
  unfold place_symbol.
  destruct (Hnc l Hl) as [Hfirst Hcount]. rewrite cnt_cons_same in Hcount.
  pose proof (cnt_nonneg l tl) as Hcnt. pose proof (Hkraft l Hl) as Hk.
  assert (Hpow_l : 2 <= 2 ^ l <= 32768).
  { split; [change 2 with (2 ^ 1) at 1; apply Z.pow_le_mono_r; lia | change 32768 with (2 ^ 15); apply Z.pow_le_mono_r; lia]. }
  assert (Hfirst0 : 0 <= first hist l) by (unfold first; apply curr_of_bound; assumption).
  remember (zn nc l) as c eqn:Ec.
  assert (Hc : 0 <= c < 2 ^ l) by lia.
  rewrite zlist_get_ok by lia. rewrite <- Ec. cbn [bind].
  replace (65535 <? c + 1) with false by (symmetry; apply Z.ltb_ge; lia).
  destruct (zlist_set_ok nc l (c + 1) ltac:(lia)) as (nc' & Enc & Hnclen' & Hncz).
  rewrite Enc. cbn [bind].
  unfold usub. replace (16 <? l) with false by (symmetry; apply Z.ltb_ge; lia). cbn [bind].
  fold (revl l c).
  (* the new next_codes *)
  assert (Hnc' : nc_inv hist mx nc' tl).
  { split; [lia|]. intros l' Hl'. rewrite (Hncz l' ltac:(lia)). destruct (Hnc l' Hl') as [Hf Hc'].
    destruct (Z.eqb_spec l' l) as [->|Hne].
    - rewrite cnt_cons_same in Hc'. rewrite <- Ec in Hf, Hc'. lia.
    - rewrite cnt_cons_other in Hc' by lia. lia. }
  assert (Hmono : forall l1, 1 <= l1 <= mx -> zn nc l1 <= zn nc' l1).
  { intros l1 Hl1. rewrite (Hncz l1 ltac:(lia)). destruct (Z.eqb_spec l1 l) as [->|]; [rewrite <- Ec|]; lia. }
  assert (Hvl : 0 <= vzlen nodes) by (unfold vzlen; lia).
  assert (Hpot' : vzlen nodes + 11 * Z.of_nat (length tl) + 11 <= 65535) by (cbn [length] in Hpot; clear - Hpot; lia).
  destruct (l <=? tb) eqn:Eshort.
  - (* primary table entries *)
    apply Z.leb_le in Eshort. right.
    pose proof (revl_nonneg l c (proj1 Hc)) as Hj0.
    pose proof (revl_lt l c (proj1 Hc) ltac:(clear - Hl Hmx; lia)) as Hj1.
    assert (Hstep : 0 < Z.shiftl 1 l) by (rewrite Z.shiftl_1_l; clear - Hpow_l; lia).
    assert (Hfuel : 2 ^ tb <= revl l c + Z.of_nat (Z.to_nat (2 ^ tb)) * Z.shiftl 1 l).
    { rewrite Z2Nat.id by (clear - Hpow_tb; lia). clear - Hj0 Hstep Hpow_tb. nia. }
    destruct (replicate_ok (Z.to_nat (2 ^ tb)) table (revl l c) (Z.shiftl 1 l)
                (Z.lor (Z.shiftl l 16) (symbol mod 2 ^ 32)) (2 ^ tb) Htlen Hj0 Hstep Hfuel) as (t' & Er & Hlen' & Hz').
    assert (Hz'' : forall j, 0 <= j < 2 ^ tb -> az t' j = if j mod 2 ^ l =? revl l c then entry_of l symbol else az table j).
    { intros j Hj. rewrite (Hz' j (proj1 Hj)). rewrite Z.shiftl_1_l. rewrite hit_mod; [reflexivity | split; assumption | exact Hj]. }
    rewrite Er. cbn [bind]. exists nc', nodes, t'. split; [reflexivity|]. split; [assumption|]. split; [|split; [assumption|split]].
    + split; [assumption|]. intros j Hj. rewrite (Hz'' j Hj).
      destruct (Z.eqb_spec (j mod 2 ^ l) (revl l c)) as [Ehit|Ehit].
      * assert (Hne : Z.shiftr (entry_of l symbol) 16 <> 0).
        { apply shiftr_entry; [apply Hl|]. apply Z.mod_pos_bound. reflexivity. }
        split; [|intros E; contradiction]. intros _. exists l, c. split; [clear - Hl Eshort; lia|]. split.
        -- rewrite (Hncz l ltac:(clear - Hl; lia)), Z.eqb_refl. clear - Hfirst. lia.
        -- exact Ehit.
      * destruct (Htab j Hj) as [T2 T3]. split; [|assumption].
        intros Hne. destruct (T2 Hne) as (l1 & c1 & Hl1 & Hc1 & Hjm). exists l1, c1.
        split; [assumption|]. split; [|assumption].
        pose proof (Hmono l1 ltac:(clear - Hl1 Htb'; lia)) as Hm1. clear - Hc1 Hm1. lia.
    + clear - Hpot'. lia.
    + split; [intros _; split; [reflexivity | exact Hz'']|]. intros Hlt. clear - Hlt Eshort. lia.
  - (* a code longer than the primary table *)
    apply Z.leb_gt in Eshort.
    assert (Htb10 : tb = 10) by (clear - Htb Hl Eshort; lia).
    remember (Z.land (revl l c) (2 ^ tb - 1)) as idx eqn:Eidx.
    assert (Hidx_eq : idx = (revl l c) mod 2 ^ tb).
    { rewrite Eidx. replace (2 ^ tb - 1) with (Z.ones tb) by (unfold Z.ones; rewrite Z.shiftl_1_l; lia).
      apply Z.land_ones. clear - Htb'. lia. }
    assert (Hidx : 0 <= idx < 2 ^ tb) by (rewrite Hidx_eq; apply Z.mod_pos_bound; clear - Hpow_tb; lia).
    rewrite zget_ok by (rewrite Htlen; exact Hidx). cbn [bind].
    destruct (Htab idx Hidx) as [T2 T3].
    destruct (Z.eqb_spec (Z.shiftr (az table idx) 16) 0) as [Ezero|Enz].
    2:{ (* the debug assertion cannot fail: no short code is a prefix of this one *)
      exfalso. destruct (T2 Enz) as (l1 & c1 & Hl1 & Hc1 & Hjm).
      assert (Hl1mx : 1 <= l1 <= mx) by (clear - Hl1 Htb'; lia).
      destruct (Hnc l1 Hl1mx) as [Hf1 Hcnt1]. pose proof (cnt_nonneg l1 (l :: tl)) as Hcnt1'.
      pose proof (Hkraft l1 Hl1mx) as Hk1.
      assert (Hfirst1 : 0 <= first hist l1) by (unfold first; apply curr_of_bound; assumption).
      rewrite Hidx_eq in Hjm. rewrite mod_pow2_mod_pow2 in Hjm by (clear - Hl1; lia).
      rewrite (revl_prefix l1 l c) in Hjm; [| clear - Hc; lia | clear - Hl1 Eshort; lia | clear - Hl Hmx; lia].
      assert (Hll : 0 <= l - l1 /\ 0 <= l1 /\ 1 <= l1 <= 16) by (clear - Hl1 Eshort Htb'; lia).
      assert (Hpp : 0 < 2 ^ (l - l1)) by (apply Z.pow_pos_nonneg; lia).
      assert (Hsplit : 2 ^ l = 2 ^ (l - l1) * 2 ^ l1).
      { rewrite <- Z.pow_add_r by lia. f_equal. lia. }
      assert (Hpre : 0 <= Z.shiftr c (l - l1) < 2 ^ l1).
      { rewrite Z.shiftr_div_pow2 by lia. split.
        - apply Z.div_pos; [clear - Hc; lia | assumption].
        - apply Z.div_lt_upper_bound; [assumption|]. rewrite <- Hsplit. clear - Hc; lia. }
      assert (Hc1r : 0 <= c1 < 2 ^ l1) by (clear - Hc1 Hfirst1 Hcnt1 Hcnt1' Hk1; lia).
      apply revl_inj in Hjm; [| clear - Hll; lia | assumption | assumption].
      assert (Hl1l : 1 <= l1 /\ l1 < l /\ l <= mx) by (clear - Hl1 Eshort Hl; lia).
      pose proof (Hprefix l1 l ltac:(apply Hl1l) ltac:(apply Hl1l) ltac:(apply Hl1l)) as Hp.
      assert (Hge : lim hist l1 <= Z.shiftr c (l - l1)).
      { rewrite Z.shiftr_div_pow2 by lia. apply Z.div_le_lower_bound; [assumption|]. clear - Hp Hfirst. lia. }
      clear - Hge Hjm Hc1 Hcnt1 Hcnt1'. lia. }
    cbn [negb]. specialize (T3 Ezero).
    (* the root of the secondary tree *)
    assert (Hroot : exists nodes1 table1 node_index,
       (if az table idx =? 0
        then bind (zset table idx (vzlen nodes + 1)) (fun t' => Ok (vpush nodes Empty, t', vzlen nodes))
        else Ok (nodes, table, az table idx - 1)) = Ok (nodes1, table1, node_index) /\
       wf_nodes nodes1 /\ 0 <= node_index < vzlen nodes1 /\ vzlen nodes <= vzlen nodes1 <= vzlen nodes + 1 /\
       table_inv hist tb nc' nodes1 table1 /\
       ext nodes nodes1 /\ node_index = az table1 idx - 1 /\ Z.shiftr (az table1 idx) 16 = 0 /\ az table1 idx <> 0 /\
       (forall j, 0 <= j < 2 ^ tb -> j <> idx -> az table1 j = az table j) /\
       (az table idx <> 0 -> az table1 idx = az table idx)).
    { destruct (Z.eqb_spec (az table idx) 0) as [Ev|Ev].
      - destruct (zset_ok table idx (vzlen nodes + 1) ltac:(rewrite Htlen; exact Hidx)) as (t1 & Et & Hlen1 & Hz1).
        rewrite Et. cbn [bind]. exists (vpush nodes Empty), t1, (vzlen nodes).
        split; [reflexivity|]. rewrite vpush_len.
        split.
        { intros i o Hi Hnd. rewrite vpush_len in Hi. rewrite vpush_vz in Hnd by (clear - Hi; lia).
          destruct (Z.eqb_spec i (vzlen nodes)); [discriminate|]. rewrite vpush_len.
          destruct (Hwf i o ltac:(clear - Hi n; lia) Hnd) as [Ho Hio]. clear - Ho Hio. lia. }
        assert (Hsmall : Z.shiftr (vzlen nodes + 1) 16 = 0).
        { rewrite Z.shiftr_div_pow2 by lia. apply Z.div_small. change (2 ^ 16) with 65536. clear - Hvl Hpot'. lia. }
        split; [clear - Hvl; lia|]. split; [clear - Hvl; lia|]. split; [split; [rewrite Hlen1; exact Htlen|]|].
        2:{ split.
            { split; [rewrite vpush_len; clear; lia|]. intros i Hi _. rewrite vpush_vz by (clear - Hi; lia).
              destruct (Z.eqb_spec i (vzlen nodes)); [clear - Hi e; lia | reflexivity]. }
            rewrite (Hz1 idx (proj1 Hidx)), Z.eqb_refl. split; [clear; lia|]. split; [exact Hsmall|]. split; [clear - Hvl; lia|].
            split; [|intros Hc'; contradiction].
            intros j Hj Hne. rewrite (Hz1 j (proj1 Hj)). replace (j =? idx) with false by (symmetry; apply Z.eqb_neq; exact Hne). reflexivity. }
        intros j Hj. rewrite (Hz1 j (proj1 Hj)). destruct (Z.eqb_spec j idx) as [->|Hne].
        + split; [intros Hc'; contradiction|]. intros _. rewrite vpush_len. clear - Hvl. lia.
        + destruct (Htab j Hj) as [T2' T3']. split.
          * intros Hc'. destruct (T2' Hc') as (l1 & c1 & Hl1 & Hc1 & Hjm). exists l1, c1.
            split; [assumption|]. split; [|assumption].
            pose proof (Hmono l1 ltac:(clear - Hl1 Htb'; lia)) as Hm1. clear - Hc1 Hm1. lia.
          * intros Hc'. specialize (T3' Hc'). rewrite vpush_len. clear - T3'. lia.
      - exists nodes, table, (az table idx - 1). split; [reflexivity|]. split; [assumption|].
        split; [clear - T3 Ev; lia|]. split; [clear; lia|]. split; [split; [assumption|]|].
        2:{ split; [apply ext_refl|]. split; [reflexivity|]. split; [exact Ezero|]. split; [exact Ev|]. split; intros; reflexivity. }
        intros j Hj. destruct (Htab j Hj) as [T2' T3']. split; [|assumption].
        intros Hc'. destruct (T2' Hc') as (l1 & c1 & Hl1 & Hc1 & Hjm). exists l1, c1.
        split; [assumption|]. split; [|assumption].
        pose proof (Hmono l1 ltac:(clear - Hl1 Htb'; lia)) as Hm1. clear - Hc1 Hm1. lia. }
    destruct Hroot as (nodes1 & table1 & node_index & Eroot & Hwf1 & Hni & Hlen1 & Htab1 & Hext1 & Hnidx & Hsh1 & Hnz1 & Hoth1 & Hkeep1).
    match goal with |- context [bind ?X _] => replace X with (Ok (nodes1, table1, node_index) : res (vec node * arr * Z)) end.
    cbn [bind].
    assert (Hdepth : Z.of_nat (Z.to_nat (l - tb)) <= 5) by (clear - Hl Hmx Htb10; lia).
    destruct (descend_ok (Z.to_nat (l - tb)) nodes1 node_index c Hwf1 Hni) as [E|(nodes2 & idx2 & E & Hwf2 & Hidx2 & Hlen2 & Hext2 & Hpath2)].
    + left. rewrite E. reflexivity.
    + rewrite E. cbn [bind]. rewrite vget_ok by assumption. cbn [bind].
      destruct (vz nodes2 idx2) eqn:End; [left; reflexivity | left; reflexivity|].
      right. destruct (vset_ok nodes2 idx2 (Leaf (symbol mod 2 ^ 16)) Hidx2) as (nodes3 & E3 & Hlen3 & Hz3).
      rewrite E3. cbn [bind]. exists nc', nodes3, table1. split; [reflexivity|]. split; [assumption|].
      assert (Hext3 : ext nodes2 nodes3).
      { split; [rewrite Hlen3; clear; lia|]. intros i Hi Hne. rewrite Hz3 by (clear - Hi; lia).
        destruct (Z.eqb_spec i idx2) as [->|]; [congruence | reflexivity]. }
      split; [|split; [|split]].
      * destruct Htab1 as [Hl1' Ht1]. split; [assumption|]. intros j Hj. destruct (Ht1 j Hj) as [A B].
        split; [assumption|]. intros Hc'. specialize (B Hc'). rewrite Hlen3. clear - B Hlen2. lia.
      * intros i o Hi Hnd. rewrite Hlen3 in *. rewrite Hz3 in Hnd by (clear - Hi; lia).
        destruct (Z.eqb_spec i idx2); [discriminate|]. apply (Hwf2 i o Hi Hnd).
      * rewrite Hlen3. clear - Hpot' Hlen1 Hlen2 Hdepth. lia.
      * split; [intros Hle; clear - Hle Eshort; lia|]. intros _. rewrite <- Hidx_eq.
        split; [apply (ext_trans _ _ _ Hext1 (ext_trans _ _ _ Hext2 Hext3))|].
        split; [exact Hoth1|]. split; [exact Hkeep1|]. split; [exact Hsh1|]. split; [exact Hnz1|].
        exists idx2. rewrite <- Hnidx. split.
        -- apply (path_ext nodes2 nodes3 c Hwf2 Hext3); [clear - Hni Hlen2; lia | exact Hpath2].
        -- rewrite Hz3 by (clear - Hidx2; lia). rewrite Z.eqb_refl. reflexivity.
Qed.

(* ---------- what the finished table contains ---------- *)
Lemma shiftr_lt c la lb : 0 <= c < 2 ^ lb -> 0 <= la <= lb -> 0 <= Z.shiftr c (lb - la) < 2 ^ la.
Proof.
  intros Hc Hl. rewrite Z.shiftr_div_pow2 by lia.
  assert (Hpp : 0 < 2 ^ (lb - la)) by (apply Z.pow_pos_nonneg; lia).
  assert (Hsplit : 2 ^ lb = 2 ^ (lb - la) * 2 ^ la) by (rewrite <- Z.pow_add_r by lia; f_equal; lia).
  split; [apply Z.div_pos; lia|]. apply Z.div_lt_upper_bound; [assumption|]. rewrite <- Hsplit. lia.
Qed.

(* two codes that own a common slot are prefix related *)
Lemma slots_clash la lb ca cb j : 1 <= la <= lb -> lb <= 16 -> 0 <= ca < 2 ^ la -> 0 <= cb < 2 ^ lb ->
  j mod 2 ^ la = revl la ca -> j mod 2 ^ lb = revl lb cb -> Z.shiftr cb (lb - la) = ca.
Proof.
  intros Hl Hlb Hca Hcb Ha Hb.
  assert (E : (revl lb cb) mod 2 ^ la = revl la ca) by (rewrite <- Hb, mod_pow2_mod_pow2 by lia; exact Ha).
  rewrite revl_prefix in E by lia. apply revl_inj in E; [assumption | lia | apply shiftr_lt; lia | assumption].
Qed.

(* canonical codes: the l1-bit prefix of a longer code lies beyond all codes of length l1 *)
Lemma no_prefix hist mx tb l1 l2 c2 : code_ctx hist mx tb -> 1 <= l1 -> l1 < l2 -> l2 <= mx -> first hist l2 <= c2 ->
  lim hist l1 <= Z.shiftr c2 (l2 - l1).
Proof.
  intros Hcx H1 H12 H2 Hc2. pose proof (cx_prefix _ _ _ Hcx l1 l2 H1 H12 H2) as Hp.
  rewrite Z.shiftr_div_pow2 by lia. apply Z.div_le_lower_bound; [apply Z.pow_pos_nonneg; lia | lia].
Qed.

Definition code_of (hist pre : list Z) (sym : nat) : Z :=
  first hist (nth sym pre 0) + cnt (nth sym pre 0) (firstn sym pre).

(* every symbol placed so far decodes: short codes own all slots that extend them; long codes have a root pointer in
   the slot of their first tb bits and a path of branches to their leaf *)
Definition good (hist : list Z) (tb : Z) (pre : list Z) (nodes : vec node) (table : arr) : Prop :=
  forall sym, (sym < length pre)%nat -> nth sym pre 0 <> 0 ->
    (nth sym pre 0 <= tb -> forall j, 0 <= j < 2 ^ tb -> j mod 2 ^ (nth sym pre 0) = revl (nth sym pre 0) (code_of hist pre sym) ->
        az table j = entry_of (nth sym pre 0) (Z.of_nat sym)) /\
    (tb < nth sym pre 0 ->
        Z.shiftr (az table ((revl (nth sym pre 0) (code_of hist pre sym)) mod 2 ^ tb)) 16 = 0 /\
        az table ((revl (nth sym pre 0) (code_of hist pre sym)) mod 2 ^ tb) <> 0 /\
        exists leaf, path nodes (az table ((revl (nth sym pre 0) (code_of hist pre sym)) mod 2 ^ tb) - 1)
                          (code_of hist pre sym) (Z.to_nat (nth sym pre 0 - tb)) = Some leaf /\
                     vz nodes leaf = Leaf (Z.of_nat sym mod 2 ^ 16)).

Definition nc_pre (hist : list Z) (mx : Z) (nc pre : list Z) : Prop :=
  forall l, 1 <= l <= mx -> zn nc l = first hist l + cnt l pre.

Lemma cnt_app l a b : cnt l (a ++ b) = cnt l a + cnt l b.
Proof. induction a as [|x a IH]; cbn [app cnt]; [lia|]. rewrite IH. lia. Qed.

Lemma cnt_firstn_lt l : forall pre sym, (sym < length pre)%nat -> nth sym pre 0 = l -> cnt l (firstn sym pre) < cnt l pre.
Proof.
  induction pre as [|x pre IH]; intros sym Hs Hn; [cbn in Hs; lia|].
  destruct sym as [|sym]; cbn [firstn cnt nth] in *.
  - subst x. rewrite Z.eqb_refl. pose proof (cnt_nonneg l pre). lia.
  - specialize (IH sym ltac:(cbn [length] in Hs; lia) Hn). lia.
Qed.

Lemma entry_of_nonzero l sym : 1 <= l -> entry_of l sym <> 0 /\ Z.shiftr (entry_of l sym) 16 <> 0.
Proof.
  intros Hl. assert (H : Z.shiftr (entry_of l sym) 16 <> 0) by (apply shiftr_entry; [assumption | apply Z.mod_pos_bound; reflexivity]).
  split; [|assumption]. intros E. rewrite E in H. apply H. reflexivity.
Qed.

Lemma good_snoc_zero hist tb pre nodes table : good hist tb pre nodes table -> good hist tb (pre ++ [0]) nodes table.
Proof.
  intros Hg sym Hs Hnz. rewrite app_length in Hs. cbn [length] in Hs.
  destruct (Nat.eq_dec sym (length pre)) as [->|Hne].
  - rewrite nth_middle in Hnz. congruence.
  - assert (Hs' : (sym < length pre)%nat) by lia.
    unfold code_of in *. rewrite app_nth1 in * by assumption. rewrite firstn_app.
    replace (sym - length pre)%nat with 0%nat by lia. cbn [firstn]. rewrite app_nil_r. apply Hg; assumption.
Qed.

(* hides a hypothesis from lia's preprocessing *)
Definition box (P : Prop) : Prop := P.
Ltac hide H := let T := type of H in change (box T) in H.
Ltac unhide H := unfold box in H.

Lemma good_snoc hist mx tb pre l nc nodes nodes' table table' :
  code_ctx hist mx tb -> 1 <= l <= mx -> Forall (fun l => l = 0 \/ 1 <= l <= mx) pre ->
  nc_pre hist mx nc pre -> zn nc l < lim hist l -> (forall l0, 1 <= l0 <= mx -> zn nc l0 <= lim hist l0) ->
  table_inv hist tb nc nodes table -> wf_nodes nodes -> good hist tb pre nodes table ->
  effect tb l (zn nc l) (Z.of_nat (length pre)) nodes nodes' table table' ->
  good hist tb (pre ++ [l]) nodes' table'.
Proof.
  intros Hcx Hl Hpre Hncp Hclim Hlimall (Htlen & Htab) Hwf Hg (Hshort & Hlong) sym Hs Hnz.
  hide Htab; hide Hg; hide Hshort; hide Hlong; hide Hwf.
  pose proof Hcx as [Hhist Hmx Htb Hkraft Hprefix].
  rewrite app_length in Hs. cbn [length] in Hs.
  assert (Htb' : 1 <= tb <= 10 /\ tb <= mx) by (clear - Hmx Htb; lia).
  assert (Hc : first hist l <= zn nc l) by (rewrite (Hncp l Hl); pose proof (cnt_nonneg l pre) as Hcn; clear - Hcn; lia).
  assert (Hfirst0 : forall x, 0 <= first hist x) by (intros x; unfold first; apply curr_of_bound; assumption).
  assert (Hcr : 0 <= zn nc l < 2 ^ l) by (pose proof (Hkraft l Hl) as Hk1; pose proof (Hfirst0 l) as Hk2; clear - Hk1 Hk2 Hc Hclim; lia).
  destruct (Nat.eq_dec sym (length pre)) as [->|Hne].
  - (* the symbol just placed *)
    unfold code_of. rewrite nth_middle. rewrite firstn_app. replace (length pre - length pre)%nat with 0%nat by (clear; lia).
    cbn [firstn]. rewrite app_nil_r, firstn_all. rewrite <- (Hncp l Hl).
    split.
    + intros Hle j Hj Hjm. unhide Hshort. destruct (Hshort Hle) as [_ Ht]. rewrite (Ht j Hj), Hjm, Z.eqb_refl. reflexivity.
    + intros Hlt. unhide Hlong. destruct (Hlong Hlt) as (_ & _ & _ & A & B & C). auto.
  - (* an earlier symbol *)
    assert (Hs' : (sym < length pre)%nat) by (clear - Hs Hne; lia).
    unfold code_of in *. rewrite app_nth1 in * by assumption. rewrite firstn_app.
    replace (sym - length pre)%nat with 0%nat by (clear - Hs'; lia). cbn [firstn]. rewrite app_nil_r.
    fold (code_of hist pre sym).
    unhide Hg. destruct (Hg sym Hs' Hnz) as [G1 G2]. fold (code_of hist pre sym) in G1, G2. clear Hg.
    remember (nth sym pre 0) as l0 eqn:El0. remember (code_of hist pre sym) as c0 eqn:Ec0.
    remember (zn nc l) as c eqn:Ec. hide G1; hide G2.
    assert (Hl0 : 1 <= l0 <= mx).
    { pose proof (proj1 (Forall_forall _ _) Hpre l0 ltac:(rewrite El0; apply nth_In; assumption)) as H. cbn beta in H.
      clear - H Hnz. lia. }
    assert (Hc0 : first hist l0 <= c0 < zn nc l0).
    { rewrite Ec0. unfold code_of. rewrite <- El0. rewrite (Hncp l0 Hl0).
      pose proof (cnt_firstn_lt l0 pre sym Hs' (eq_sym El0)) as H1. pose proof (cnt_nonneg l0 (firstn sym pre)) as H2.
      clear - H1 H2. lia. }
    assert (Hc0r : 0 <= c0 < 2 ^ l0).
    { pose proof (Hlimall l0 Hl0) as H1. pose proof (Hkraft l0 Hl0) as H2. pose proof (Hfirst0 l0) as H3. clear - H1 H2 H3 Hc0. lia. }
    assert (Hlims0 : zn nc l0 <= lim hist l0) by (apply Hlimall; exact Hl0).
    assert (NC1 : l0 <= l -> Z.shiftr c (l - l0) <> c0).
    { intros Hle. destruct (Z.eq_dec l0 l) as [E|E].
      - rewrite E in *. replace (l - l) with 0 by (clear; lia). rewrite Z.shiftr_0_r. rewrite <- Ec in Hc0. clear - Hc0. lia.
      - pose proof (no_prefix hist mx tb l0 l c Hcx ltac:(clear - Hl0; lia) ltac:(clear - Hle E; lia) ltac:(clear - Hl; lia) Hc) as H.
        clear - H Hc0 Hlims0. lia. }
    assert (NC2 : l < l0 -> Z.shiftr c0 (l0 - l) <> c).
    { intros Hlt. pose proof (no_prefix hist mx tb l l0 c0 Hcx ltac:(clear - Hl; lia) Hlt ltac:(clear - Hl0; lia) ltac:(clear - Hc0; lia)) as H.
      clear - H Hclim. lia. }
    assert (Hl16 : 1 <= l <= 15 /\ 1 <= l0 <= 15) by (clear - Hl Hl0 Hmx; lia).
    assert (Hnoclash : forall j, j mod 2 ^ l0 = revl l0 c0 -> j mod 2 ^ l = revl l c -> False).
    { intros j H0 H1. destruct (Z_le_gt_dec l0 l) as [Hle|Hgt].
      - apply (NC1 Hle). apply (slots_clash l0 l c0 c j); auto; clear - Hl16 Hle; lia.
      - apply (NC2 ltac:(clear - Hgt; lia)). apply (slots_clash l l0 c c0 j); auto; clear - Hl16 Hgt; lia. }
    assert (Hpow_tb : 0 < 2 ^ tb) by (apply Z.pow_pos_nonneg; clear - Htb'; lia).
    split.
    + (* short earlier code: all its slots still hold its entry *)
      intros Hle0 j Hj Hjm. unhide G1. specialize (G1 Hle0 j Hj Hjm).
      destruct (Z_le_gt_dec l tb) as [Hle|Hgt].
      * unhide Hshort. destruct (Hshort Hle) as [_ Ht]. rewrite (Ht j Hj).
        destruct (Z.eqb_spec (j mod 2 ^ l) (revl l c)) as [E|E]; [exfalso; apply (Hnoclash j Hjm E) | exact G1].
      * unhide Hlong. destruct (Hlong ltac:(clear - Hgt; lia)) as (_ & Hoth & Hkeep & _).
        destruct (Z.eq_dec j (revl l c mod 2 ^ tb)) as [->|Hnej].
        -- rewrite Hkeep; [exact G1|]. rewrite G1. apply entry_of_nonzero. clear - Hl0. lia.
        -- rewrite Hoth by assumption. exact G1.
    + (* long earlier code: root pointer and path are still there *)
      intros Hlt0. unhide G2. destruct (G2 Hlt0) as (Gs & Gn & leaf & Gp & Gl). clear G2.
      remember (revl l0 c0 mod 2 ^ tb) as idx0 eqn:Eidx0.
      assert (Hidx0 : 0 <= idx0 < 2 ^ tb) by (rewrite Eidx0; apply Z.mod_pos_bound; assumption).
      destruct (Z_le_gt_dec l tb) as [Hle|Hgt].
      * unhide Hshort. destruct (Hshort Hle) as [-> Ht]. clear Hshort. rewrite (Ht idx0 Hidx0). hide Ht.
        destruct (Z.eqb_spec (idx0 mod 2 ^ l) (revl l c)) as [E|E].
        { exfalso. rewrite Eidx0 in E. rewrite mod_pow2_mod_pow2 in E by (clear - Hle Hl; lia).
          rewrite revl_prefix in E; [| clear - Hc0r; lia | clear - Hl Hle Hlt0; lia | clear - Hl16; lia].
          apply revl_inj in E; [| clear - Hl16; lia | apply shiftr_lt; [exact Hc0r | clear - Hl Hle Hlt0; lia] | exact Hcr].
          apply (NC2 ltac:(clear - Hle Hlt0; lia)). exact E. }
        split; [exact Gs|]. split; [exact Gn|]. exists leaf. auto.
      * unhide Hlong. destruct (Hlong ltac:(clear - Hgt; lia)) as (Hext & Hoth & Hkeep & _). clear Hlong. unhide Htab. unhide Hwf.
        assert (Hsame : az table' idx0 = az table idx0).
        { destruct (Z.eq_dec idx0 (revl l c mod 2 ^ tb)) as [E|E]; [rewrite E in *; apply Hkeep; exact Gn | apply Hoth; assumption]. }
        rewrite Hsame. split; [exact Gs|]. split; [exact Gn|]. exists leaf.
        destruct (Htab idx0 Hidx0) as [_ T3]. specialize (T3 Gs).
        assert (Hroot : 0 <= az table idx0 - 1 < vzlen nodes) by (clear - T3 Gn; lia).
        split; [apply (path_ext nodes nodes' c0 Hwf Hext _ _ _ Hroot Gp)|].
        pose proof (path_valid nodes c0 Hwf _ _ _ Hroot Gp) as Hleaf.
        destruct Hext as [_ He]. rewrite (He leaf Hleaf) by (rewrite Gl; discriminate). exact Gl.
Qed.

Lemma populate_ok hist mx tb : code_ctx hist mx tb -> forall ls pre nc nodes table,
  Forall (fun l => l = 0 \/ 1 <= l <= mx) ls -> Forall (fun l => l = 0 \/ 1 <= l <= mx) pre ->
  nc_inv hist mx nc ls -> nc_pre hist mx nc pre -> table_inv hist tb nc nodes table -> wf_nodes nodes ->
  good hist tb pre nodes table ->
  vzlen nodes + 11 * Z.of_nat (length ls) <= 65535 ->
  populate ls (Z.of_nat (length pre)) (nc, nodes, table) tb (Z.shiftl 1 tb) ((Z.shiftl 1 tb) mod 2 ^ 16 - 1) = Err EHuffmanError \/
  exists nc' nodes' table',
    populate ls (Z.of_nat (length pre)) (nc, nodes, table) tb (Z.shiftl 1 tb) ((Z.shiftl 1 tb) mod 2 ^ 16 - 1) = Ok (nc', nodes', table') /\
    table_inv hist tb nc' nodes' table' /\ wf_nodes nodes' /\ good hist tb (pre ++ ls) nodes' table'.
Proof.
  intros Hcx. induction ls as [|l tl IH]; intros pre nc nodes table Hls Hpre Hnc Hncp Htab Hwf Hg Hpot; cbn [populate].
  - right. exists nc, nodes, table. rewrite app_nil_r. auto.
  - inversion Hls as [|? ? Hl Htl]; subst.
    assert (Hsucc : Z.of_nat (length pre) + 1 = Z.of_nat (length (pre ++ [l]))) by (rewrite app_length; cbn [length]; lia).
    replace (pre ++ l :: tl) with ((pre ++ [l]) ++ tl) by (rewrite <- app_assoc; reflexivity).
    rewrite Hsucc.
    assert (Hpre' : Forall (fun l => l = 0 \/ 1 <= l <= mx) (pre ++ [l])) by (apply Forall_app; split; [assumption | constructor; [assumption | constructor]]).
    destruct Hl as [->|Hl].
    + cbn [Z.eqb]. apply IH; auto.
      * destruct Hnc as [Hlen Hnc]. split; [assumption|]. intros l' Hl'. destruct (Hnc l' Hl') as [A B].
        rewrite cnt_cons_other in B by lia. auto.
      * intros l' Hl'. rewrite cnt_app. cbn [cnt]. replace (0 =? l') with false by (symmetry; apply Z.eqb_neq; lia).
        rewrite (Hncp l' Hl'). lia.
      * apply good_snoc_zero. assumption.
      * cbn [length] in Hpot. lia.
    + replace (l =? 0) with false by (symmetry; apply Z.eqb_neq; lia).
      destruct (place_symbol_ok hist mx tb (Z.of_nat (length pre)) l tl nc nodes table Hcx Hl ltac:(lia) Hnc Htab Hwf Hpot)
        as [E|(nc' & nodes' & table' & E & Hnc' & Htab' & Hwf' & Hpot' & Heff)].
      * left. rewrite E. reflexivity.
      * rewrite E. cbn [bind].
        assert (Hlims : forall l0, 1 <= l0 <= mx -> zn nc l0 <= lim hist l0).
        { intros l0 Hl0. destruct Hnc as [_ Hn]. destruct (Hn l0 Hl0) as [_ B]. pose proof (cnt_nonneg l0 (l :: tl)). lia. }
        assert (Hclim : zn nc l < lim hist l).
        { destruct Hnc as [_ Hn]. destruct (Hn l Hl) as [_ B]. rewrite cnt_cons_same in B. pose proof (cnt_nonneg l tl). lia. }
        apply IH; auto.
        -- (* next_codes after the increment *)
           intros l' Hl'. rewrite cnt_app. cbn [cnt].
           destruct Hnc as [_ Hn]. destruct Hnc' as [_ Hn']. destruct (Hn l' Hl') as [_ B]. destruct (Hn' l' Hl') as [_ B'].
           rewrite (Hncp l' Hl') in B.
           destruct (Z.eqb_spec l l') as [->|Hne].
           ++ rewrite cnt_cons_same in B. lia.
           ++ rewrite cnt_cons_other in B by assumption. lia.
        -- apply (good_snoc hist mx tb pre l nc nodes nodes' table table'); auto.
Qed.

Lemma cnt_le_length l ls : cnt l ls <= Z.of_nat (length ls).
Proof. induction ls as [|x tl IH]; cbn [cnt length]; [lia|]. destruct (x =? l); lia. Qed.

Lemma cnt_in l ls : In l ls -> 1 <= cnt l ls.
Proof.
  induction ls as [|x tl IH]; intros H; [destruct H|]. cbn [cnt]. pose proof (cnt_nonneg l tl).
  destruct H as [->|H]; [rewrite Z.eqb_refl; lia|]. specialize (IH H). destruct (x =? l); lia.
Qed.

(* what a successfully built table is *)
Inductive built (lens : list Z) : tree -> Prop :=
  | built_single sym : nz lens = 1 -> position_nonzero lens 0 = Some sym -> built lens (Single (sym mod 2 ^ 16))
  | built_tree hist mx tb nc nodes table :
      2 <= nz lens -> code_ctx hist mx tb ->
      (forall i, 0 <= i -> zn hist i = if i =? 0 then 0 else cnt i lens) ->
      (forall i, mx < i -> zn hist i = 0) ->
      curr_of hist (Z.to_nat mx) = 2 ^ (mx + 1) ->
      Forall (fun l => l = 0 \/ 1 <= l <= mx) lens ->
      table_inv hist tb nc nodes table -> wf_nodes nodes -> good hist tb lens nodes table ->
      built lens (Tree nodes table (2 ^ tb - 1)).

(* HuffmanTree::build_implicit returns a table with the contents described by `built`, or HuffmanError, nothing else *)
Theorem build_implicit_spec lens : lens_ok lens -> Z.of_nat (length lens) <= 5957 ->
  build_implicit lens = Err EHuffmanError \/ exists t, build_implicit lens = Ok t /\ built lens t.
Proof.
  intros Hok Hlen. unfold build_implicit.
  destruct (count_lengths_spec lens (repeat 0 16) 0 Hok ltac:(reflexivity)) as (hist & num & Ec & Hhlen & Hz & Hnum & Hsum); try lia.
  { intros i Hi. rewrite repeat0_zn. lia. }
  rewrite Ec. cbn [bind]. rewrite repeat0_lsum in Hsum.
  assert (Hzn : forall i, 0 <= i -> zn hist i = if i =? 0 then 0 else cnt i lens).
  { intros i Hi. rewrite (Hz i Hi), repeat0_zn. lia. }
  pose proof (nz_nonneg lens) as Hnz0. pose proof (nz_le_length lens) as Hnz1.
  destruct (Z.eqb_spec num 0); [left; reflexivity|].
  destruct (Z.eqb_spec num 1) as [E1|E1].
  { destruct (position_nonzero_some lens 0 ltac:(lia)) as (i & Ei). rewrite Ei. cbn [of_option bind]. right.
    eexists. split; [reflexivity|]. apply built_single; [lia | exact Ei]. }
  assert (Hhist : hist_ok hist).
  { intros i Hi. rewrite (Hzn i Hi). destruct (i =? 0); [lia|]. pose proof (cnt_nonneg i lens). pose proof (cnt_le_length i lens). lia. }
  destruct (rposition_max hist Hhlen ltac:(lia)) as (mx & Emx & Hmx & Hmxnz & Hmxlast).
  rewrite Emx. cbn [of_option bind].
  assert (Hmx1 : 1 <= mx).
  { destruct (Z.eq_dec mx 0) as [->|]; [|lia]. rewrite (Hzn 0 ltac:(lia)) in Hmxnz. cbn in Hmxnz. lia. }
  destruct (assign_codes_spec hist Hhist Hhlen (Z.to_nat mx) 1 (repeat 0 16) ltac:(lia) ltac:(lia) ltac:(reflexivity))
    as (nc & Ea & Hnclen & Hncz).
  change (curr_of hist (1 - 1)) with 0 in Ea. change (Z.of_nat 1) with 1 in Ea. rewrite Ea. cbn [bind].
  replace (1 + Z.to_nat mx - 1)%nat with (Z.to_nat mx) by lia.
  assert (Hsh : Z.shiftl 2 mx mod 2 ^ 32 = 2 ^ (mx + 1)).
  { rewrite Z.shiftl_mul_pow2 by lia. rewrite Z.pow_add_r by lia. change (2 ^ 1) with 2.
    assert (2 ^ mx <= 2 ^ 15) by (apply Z.pow_le_mono_r; lia). assert (0 < 2 ^ mx) by (apply Z.pow_pos_nonneg; lia).
    change (2 ^ 15) with 32768 in *. rewrite Z.mod_small by (change (2 ^ 32) with 4294967296; lia). lia. }
  rewrite Hsh.
  destruct (Z.eqb_spec (curr_of hist (Z.to_nat mx)) (2 ^ (mx + 1))) as [Ek|Ek]; [|left; reflexivity].
  cbn [negb].
  set (tb := Z.min mx MAX_TABLE_BITS).
  assert (Htb : tb = Z.min mx 10) by reflexivity.
  (* the static facts *)
  assert (Hcx : code_ctx hist mx tb).
  { constructor; auto; try lia.
    - intros l Hl. pose proof (kraft_levels hist (Z.to_nat mx) Hhist ltac:(rewrite Ek; f_equal; lia) (Z.to_nat l) ltac:(lia)) as Hk.
      rewrite curr_of_lim in Hk by lia. replace (Z.of_nat (Z.to_nat l) + 1) with (l + 1) in Hk by lia.
      rewrite Z.pow_add_r in Hk by lia. change (2 ^ 1) with 2 in Hk. lia.
    - intros l1 l2 H1 H12 H2. unfold first.
      pose proof (curr_of_mono hist Hhist (Z.to_nat (l2 - 1 - l1)) (Z.to_nat l1)) as Hm.
      replace (Z.to_nat l1 + Z.to_nat (l2 - 1 - l1))%nat with (Z.to_nat l2 - 1)%nat in Hm by (clear - H1 H12; lia).
      rewrite curr_of_lim in Hm by lia. rewrite Z2Nat.id in Hm by lia.
      replace (l2 - l1) with (l2 - 1 - l1 + 1) by lia. rewrite Z.pow_add_r by lia. change (2 ^ 1) with 2. lia. }
  assert (Hnn : forall j, 0 <= nth j hist 0).
  { intros j. pose proof (Hhist (Z.of_nat j) ltac:(lia)) as H. unfold zn in H. rewrite Nat2Z.id in H. lia. }
  destruct (sum_range_u16_ok hist (tb + 1) mx Hhlen Hnn ltac:(lia) ltac:(lia) ltac:(lia) ltac:(lia)) as (ts & Es).
  rewrite Es. cbn [bind].
  assert (Hls : Forall (fun l => l = 0 \/ 1 <= l <= mx) lens).
  { apply Forall_forall. intros l Hin. pose proof (proj1 (Forall_forall _ _) Hok l Hin) as Hr. cbn beta in Hr.
    destruct (Z.eq_dec l 0); [left; assumption|right]. split; [lia|].
    destruct (Z_le_gt_dec l mx); [assumption|]. exfalso.
    pose proof (Hmxlast l ltac:(lia)) as H0. rewrite (Hzn l ltac:(lia)) in H0.
    replace (l =? 0) with false in H0 by (symmetry; apply Z.eqb_neq; lia).
    pose proof (cnt_in l lens Hin). lia. }
  assert (Hnc0 : nc_inv hist mx nc lens).
  { split; [assumption|]. intros l Hl. rewrite (Hncz l ltac:(lia)). change (Z.of_nat 1) with 1.
    replace ((1 <=? l) && (l <? Z.of_nat (1 + Z.to_nat mx))) with true
      by (symmetry; apply andb_true_iff; split; [apply Z.leb_le | apply Z.ltb_lt]; lia).
    pose proof (cx_kraft _ _ _ Hcx l Hl) as Hkl. pose proof (curr_of_bound hist (Z.to_nat l - 1) Hhist) as Hfb.
    pose proof (Hhist l ltac:(lia)) as Hhl.
    assert (Hp15 : 2 ^ l <= 2 ^ 15) by (apply Z.pow_le_mono_r; lia). change (2 ^ 15) with 32768 in Hp15.
    unfold lim, first in *. rewrite Z.mod_small by (change (2 ^ 16) with 65536; lia).
    rewrite (Hzn l ltac:(lia)) in *. replace (l =? 0) with false in * by (symmetry; apply Z.eqb_neq; lia). lia. }
  assert (Hts : Z.shiftl 1 tb = 2 ^ tb) by (rewrite Z.shiftl_1_l; reflexivity).
  assert (Htab0 : table_inv hist tb nc (vmake 0 Empty) (zmake (Z.shiftl 1 tb))).
  { split.
    - rewrite Hts. apply zmake_len. apply Z.pow_nonneg. lia.
    - intros j Hj. rewrite zmake_az. split; [intros H; exfalso; apply H; reflexivity|]. intros _. unfold vzlen, vmake. cbn [vlen]. lia. }
  assert (Hwf0 : wf_nodes (vmake 0 (A:=node) Empty)).
  { intros i o Hi. unfold vzlen, vmake in Hi. cbn [vlen] in Hi. lia. }
  fold tb.
  assert (Hncp0 : nc_pre hist mx nc []).
  { intros l Hl. destruct Hnc0 as [_ Hn]. destruct (Hn l Hl) as [A B]. cbn [cnt].
    rewrite (Hncz l ltac:(lia)) in *. change (Z.of_nat 1) with 1 in *.
    replace ((1 <=? l) && (l <? Z.of_nat (1 + Z.to_nat mx))) with true in *
      by (symmetry; apply andb_true_iff; split; [apply Z.leb_le | apply Z.ltb_lt]; lia).
    unfold lim in B. rewrite (Hzn l ltac:(lia)) in B. replace (l =? 0) with false in B by (symmetry; apply Z.eqb_neq; lia). lia. }
  assert (Hg0 : good hist tb [] (vmake 0 (A:=node) Empty) (zmake (Z.shiftl 1 tb))).
  { intros sym Hs. cbn in Hs. lia. }
  destruct (populate_ok hist mx tb Hcx lens [] nc (vmake 0 Empty) (zmake (Z.shiftl 1 tb)) Hls ltac:(constructor) Hnc0 Hncp0 Htab0 Hwf0 Hg0)
    as [E|(nc' & nodes' & table' & E & Htab' & Hwf' & Hg')].
  { unfold vzlen, vmake. cbn [vlen]. lia. }
  - left. change (Z.of_nat (length (@nil Z))) with 0 in E. rewrite E. reflexivity.
  - change (Z.of_nat (length (@nil Z))) with 0 in E. rewrite E. cbn [bind]. right.
    eexists. split; [reflexivity|]. rewrite Hts.
    assert (Hp : 2 <= 2 ^ tb <= 1024).
    { split; [change 2 with (2 ^ 1) at 1; apply Z.pow_le_mono_r; lia | change 1024 with (2 ^ 10); apply Z.pow_le_mono_r; lia]. }
    rewrite (Z.mod_small (2 ^ tb)) by (change (2 ^ 16) with 65536; lia).
    apply (built_tree lens hist mx tb nc' nodes' table'); auto; lia.
Qed.

Corollary build_implicit_total lens : lens_ok lens -> Z.of_nat (length lens) <= 5957 ->
  build_implicit lens = Err EHuffmanError \/ exists t, build_implicit lens = Ok t.
Proof. intros H1 H2. destruct (build_implicit_spec lens H1 H2) as [E|(t & E & _)]; eauto. Qed.

(* C03: no panic, and (there being no fuel) no fuel exhaustion *)
Corollary build_implicit_no_panic lens : lens_ok lens -> Z.of_nat (length lens) <= 5957 ->
  forall p, build_implicit lens <> Panic p.
Proof. intros H1 H2 p. destruct (build_implicit_total lens H1 H2) as [E|(t & E)]; rewrite E; discriminate. Qed.

(* the alphabets the decoder builds tables for: 19 code-length codes (lengths < 8) and up to 280 + 2^11 symbols *)
Example build_implicit_examples :
  is_ok (build_implicit [2; 1; 3; 3]) = true /\
  build_implicit [1; 1; 1] = Err EHuffmanError /\
  build_implicit [1; 1; 1; 1; 1; 1; 1; 2; 3; 4; 5; 6; 7; 8; 9; 10; 11; 12; 13; 14; 14] = Err EHuffmanError /\
  is_ok (build_implicit (repeat 11 2048)) = true.
Proof. vm_compute. repeat split. Qed.
