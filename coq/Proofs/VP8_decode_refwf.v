(* VP8 whole-frame decoding, part 3: what the REFERENCE parser (Spec.VP8.parse_modes / parse_tokens) returns is well
   formed, for every header with legal probability tables -- the facts VP8_recon_example.wf_frame_b checks by
   computation, here as theorems:
     * every row of modes has mb_w entries, segment ids are in 0..3;
     * every residual record has 16 / 4 / 4 coefficient blocks of 16 coefficients, each coefficient within 2^29
       (in fact within 4162 * 440 for AC / DC and within 2 * 4162 * 440 + 1 for a Y DC coming out of the inverse WHT),
       so no inverse-DCT output is within 255 of i32::MAX (res_ok: the debug-build overflow of add_residue).
   The coefficient bounds come from VP8_parse_residual (G_coeff_bound / G_rows_inv, for any bit reader) through
   spec_get_coeffs / spec_blocks_rows, and from VP8_frame_loop.segment_quant_bounds (every dequantisation factor of
   every header is in 4..440). *)
From Coq Require Import ZArith Lia List Bool.
From WebP Require Import Lib.Res Gen.Kernels Gen.Tables Lib.ZBits Spec.BoolDec Spec.VP8Tables Spec.VP8 Model.ArithDec Model.Vp8Parse
  Model.Vp8Predict
  Proofs.VP8_arraykernels_aux Proofs.VP8_parse_base Proofs.VP8_parse_coeffs Proofs.VP8_parse_mbheader Proofs.VP8_parse_residual
  Proofs.VP8_predict_sub Proofs.VP8_frame_loop.
Import ListNotations.
Open Scope Z_scope.

(* ---------- modes ---------- *)
Definition seg_ok (m : mbmode) : Prop := 0 <= m_seg m <= 3.

Lemma parse_mode_row_facts h n : forall tops left s,
  let ms := fst (fst (parse_mode_row h n tops left s [] [])) in length ms = n /\ Forall seg_ok ms.
Proof.
  induction n as [|n IH]; intros tops left s; cbv zeta; [cbn [parse_mode_row rev_append fst length]; split; [reflexivity | constructor]|].
  rewrite parse_mode_row_S. destruct (split_at 4 tops) as [top4 rest].
  pose proof (parse_mb_mode_facts h top4 left s) as MF. cbv zeta in MF.
  destruct (parse_mb_mode h top4 left s) as [[[m t'] l'] s1]. cbn [fst] in MF.
  specialize (IH rest l' s1). cbv zeta in IH.
  destruct (parse_mode_row h n rest l' s1 [] []) as [[ms nt] s']. cbn [fst length] in *.
  destruct IH as [L F]. split; [lia|]. constructor; [exact (proj1 MF) | exact F].
Qed.

Definition mrow_ok (h : header) (ms : list mbmode) : Prop := length ms = Z.to_nat (mb_w h) /\ Forall seg_ok ms.

Lemma parse_mode_rows_facts h k : forall tops s, Forall (mrow_ok h) (fst (parse_mode_rows h k tops s [])).
Proof.
  induction k as [|k IH]; intros tops s; [constructor|].
  rewrite parse_mode_rows_S.
  pose proof (parse_mode_row_facts h (Z.to_nat (mb_w h)) tops [0; 0; 0; 0] s) as RF. cbv zeta in RF.
  destruct (parse_mode_row h (Z.to_nat (mb_w h)) tops [0; 0; 0; 0] s [] []) as [[row tops'] s1]. cbn [fst] in RF.
  specialize (IH tops' s1). destruct (parse_mode_rows h k tops' s1 []) as [rr s']. cbn [fst] in *.
  constructor; [exact RF | exact IH].
Qed.

Theorem parse_modes_facts h s : Forall (mrow_ok h) (fst (parse_modes h s)).
Proof. apply parse_mode_rows_facts. Qed.

(* ---------- coefficient blocks ---------- *)
Lemma bounded_widen B B' bs : B <= B' -> bounded_blocks B bs -> bounded_blocks B' bs.
Proof.
  intros HB F. unfold bounded_blocks in *. eapply Forall_impl; [|exact F]. cbv beta. intros b [L Fb]. split; [exact L|].
  eapply Forall_impl; [|exact Fb]. intros x Hx. unfold within in *. lia.
Qed.

Lemma Forall2_map_eq {A B C} (R : A -> B -> Prop) (f : A -> C) (g : B -> C) l1 l2 :
  (forall a b, R a b -> g b = f a) -> Forall2 R l1 l2 -> map g l2 = map f l1.
Proof. intros HR. induction 1 as [|a b l1 l2 Hab _ IH]; [reflexivity|]. cbn [map]. rewrite IH, (HR a b Hab). reflexivity. Qed.

(* the blocks of one plane: count and bounds *)
Lemma blocks_rows_bounded probs nodes dc ac first tops lefts s ok :
  plane_ok probs -> plane_nodes probs nodes -> first = 0 \/ first = 1 -> cx_ok tops -> cx_ok lefts ->
  let bl := fst (fst (fst (fst (blocks_rows probs dc ac first tops lefts s [] [] ok)))) in
  length bl = (length lefts * length tops)%nat /\ bounded_blocks (Z.max (coef_bound dc ac) 0) (map fst bl).
Proof.
  intros Hprobs Hnodes Hfirst Ht Hl. cbv zeta.
  pose proof (spec_blocks_rows probs nodes Hprobs Hnodes dc ac first Hfirst lefts tops s [] [] ok Ht Hl) as ES.
  pose proof (G_rows_inv probs nodes Hprobs Hnodes dc ac first Hfirst bdbit (Z.max (coef_bound dc ac) 0) lefts tops s Ht Hl ltac:(lia) ltac:(lia)) as Inv.
  cbv zeta in Inv.
  destruct (blocks_rows probs dc ac first tops lefts s [] [] ok) as [[[[bl tops'] lefts'] ok'] s1].
  destruct (interpG bdbit (G_rows nodes dc ac first tops lefts (repeat (repeat zero16 (length tops)) (length lefts))) s) as [r s2].
  cbn [fst snd rev_append app] in *. destruct ES as (_ & _ & _ & bs & -> & Frel).
  destruct Inv as (I1 & _ & _ & _ & _ & I6 & _).
  split; [rewrite <- (Forall2_len _ _ _ Frel); exact I1|].
  rewrite (Forall2_map_eq _ snd fst _ _ (fun a b Hab => proj1 Hab) Frel). exact I6.
Qed.

Lemma set_dcs_bounded B : forall bl ws, bounded_blocks B (map fst bl) -> Forall (within B) ws -> bounded_blocks B (map fst (set_dcs bl ws)).
Proof.
  induction bl as [|[b nz] bl IH]; intros ws Hb Hw; [destruct ws; exact Hb|].
  destruct ws as [|d ws]; [exact Hb|]. cbn [set_dcs map fst] in *.
  inversion Hb as [|? ? [Lb Fb] Hbl]; subst. inversion Hw as [|? ? Hd Hws]; subst.
  constructor; [|apply IH; assumption].
  destruct b as [|x r]; [discriminate Lb|]. split; [exact Lb|]. inversion Fb; subst. constructor; assumption.
Qed.

(* the inverse DCT of a bounded block stays far away from i32::MAX *)
Lemma idct_res_ok b : length b = 16%nat -> Forall (within dct_bound) b -> res_ok (fst (Spec.VP8.idct b)).
Proof.
  intros L F. do 16 (destruct b as [|? b]; [discriminate|]). destruct b; [|discriminate].
  repeat match goal with H : Forall _ (_ :: _) |- _ => inversion H; clear H; subst end.
  rewrite spec_idct_full. unfold idct_full.
  repeat match goal with |- context [s_col ?a ?b ?c ?d] =>
    let W := fresh "W" in destruct (g_col_spec a b c d ltac:(assumption) ltac:(assumption) ltac:(assumption) ltac:(assumption)) as [_ W];
    destruct (s_col a b c d) as [[[? ?] ?] ?]; destruct W as (? & ? & ? & ?) end.
  unfold rows_of, s_row, res_ok, mul1, mul2. cbv zeta. rewrite !shiftr16, !shiftr3. unfold within, i32max, i32_max in *.
  Ltac Zify.zify_post_hook ::= Z.div_mod_to_equations.
  repeat constructor; lia.
Qed.

(* ---------- one macroblock ---------- *)
Definition res_wf (r : mbres) : Prop :=
  length (r_y r) = 16%nat /\ length (r_u r) = 4%nat /\ length (r_v r) = 4%nat /\
  bounded_blocks dct_bound (r_y r ++ r_u r ++ r_v r).

Lemma mbres0_wf : res_wf mbres0.
Proof.
  unfold res_wf. repeat (split; [reflexivity|]).
  change (r_y mbres0 ++ r_u mbres0 ++ r_v mbres0) with (repeat zero16 24).
  unfold bounded_blocks. apply Forall_forall. intros b Hb. apply repeat_spec in Hb. subst b. split; [reflexivity|].
  repeat constructor; unfold within, dct_bound; lia.
Qed.

Lemma parse_residuals_wf h m top left s (v : Vp8) :
  tables_ok (h_probas h) -> token_nodes_of (h_probas h) = Ok (v_token_probs v) -> nz_ok top -> nz_ok left ->
  res_wf (fst (fst (fst (parse_residuals h m top left s)))).
Proof.
  intros Htab Htp (T1 & T2 & T3 & T4 & T5 & T6 & T7) (L1 & L2 & L3 & L4 & L5 & L6 & L7).
  unfold parse_residuals. destruct (h_use_skip h && m_skip m); [exact mbres0_wf|]. cbv zeta.
  pose proof (segment_quant_bounds h (m_seg m)) as QB. cbv zeta in QB. destruct QB as (Q1 & Q2 & Q3 & Q4 & Q5 & Q6).
  set (q := segment_quant h (m_seg m)) in *.
  destruct (coef_bound_small (q_y1dc q) (q_y1ac q) ltac:(lia) ltac:(lia)) as [_ By].
  destruct (coef_bound_small (q_uvdc q) (q_uvac q) ltac:(lia) ltac:(lia)) as [_ Bu].
  assert (B2 : 0 <= coef_bound (q_y2dc q) (q_y2ac q) /\ 2 * coef_bound (q_y2dc q) (q_y2ac q) + 1 <= dct_bound) by (unfold coef_bound, dct_bound; lia).
  destruct (plane_facts (h_probas h) v Htab Htp 0 ltac:(lia)) as [HP0 HN0].
  destruct (plane_facts (h_probas h) v Htab Htp 1 ltac:(lia)) as [HP1 HN1].
  destruct (plane_facts (h_probas h) v Htab Htp 2 ltac:(lia)) as [HP2 HN2].
  destruct (plane_facts (h_probas h) v Htab Htp 3 ltac:(lia)) as [HP3 HN3].
  (* Y2 *)
  set (Y2 := if m_i4 m then _ else _).
  assert (HY2 : match fst (fst (fst Y2)) with Some w => Forall (within dct_bound) w | None => True end).
  { unfold Y2. destruct (m_i4 m); [exact I|].
    pose proof (spec_get_coeffs (nth (Z.to_nat 1) (h_probas h) []) _ HP1 HN1 (q_y2dc q) (q_y2ac q) 0 (or_introl eq_refl) (c_dc top + c_dc left) s ltac:(lia)) as EC.
    pose proof (G_coeff_bound bdbit _ _ (q_y2dc q) (q_y2ac q) HP1 HN1 (Z.to_nat (16 - 0)) 0 (c_dc top + c_dc left) false false zero16 s
                  ltac:(reflexivity) ltac:(lia) ltac:(lia) ltac:(reflexivity)
                  ltac:(repeat constructor; unfold within; lia)) as GB. cbv zeta in GB.
    unfold G_blk in EC.
    change (nthZ (h_probas h) 1 []) with (nth (Z.to_nat 1) (h_probas h) []).
    destruct (get_coeffs (nth (Z.to_nat 1) (h_probas h) []) (c_dc top + c_dc left) (q_y2dc q) (q_y2ac q) 0 s) as [[[b nz] ok1] s1].
    match type of GB with context [interpG bdbit ?g s] => destruct (interpG bdbit g s) as [hb s2] end.
    cbn [fst snd] in GB. destruct EC as (_ & Eb & _). subst b. destruct GB as [Lb Fb].
    destruct (iwht_bound _ (snd hb) (proj1 B2) Lb Fb) as [Fw _]. rewrite (iwht_spec _ Lb) in Fw.
    destruct (iwht (snd hb)) as [w ok2]. cbn [fst] in *.
    eapply Forall_impl; [|exact Fw]. intros x Hx. unfold within in *. lia. }
  destruct Y2 as [[[dcs dc_ctx] ok0] s0]. cbn [fst] in HY2.
  (* Y *)
  assert (HYB : let bl := fst (fst (fst (fst (blocks_rows (nthZ (h_probas h) (if m_i4 m then 3 else 0) []) (q_y1dc q) (q_y1ac q) (if m_i4 m then 0 else 1)
                                               (c_y top) (c_y left) s0 [] [] ok0)))) in
                length bl = 16%nat /\ bounded_blocks dct_bound (map fst bl)).
  { cbv zeta. destruct (m_i4 m).
    - destruct (blocks_rows_bounded _ _ (q_y1dc q) (q_y1ac q) 0 (c_y top) (c_y left) s0 ok0 HP3 HN3 (or_introl eq_refl) T4 L4) as [A B].
      change (nthZ (h_probas h) 3 []) with (nth (Z.to_nat 3) (h_probas h) []). split; [rewrite A, T1, L1; reflexivity|].
      eapply bounded_widen; [|exact B]. unfold dct_bound in *. lia.
    - destruct (blocks_rows_bounded _ _ (q_y1dc q) (q_y1ac q) 1 (c_y top) (c_y left) s0 ok0 HP0 HN0 (or_intror eq_refl) T4 L4) as [A B].
      change (nthZ (h_probas h) 0 []) with (nth (Z.to_nat 0) (h_probas h) []). split; [rewrite A, T1, L1; reflexivity|].
      eapply bounded_widen; [|exact B]. unfold dct_bound in *. lia. }
  cbv zeta in HYB.
  destruct (blocks_rows (nthZ (h_probas h) (if m_i4 m then 3 else 0) []) (q_y1dc q) (q_y1ac q) (if m_i4 m then 0 else 1) (c_y top) (c_y left) s0 [] [] ok0)
    as [[[[yb ty] ly] ok1] s1]. cbn [fst] in HYB. destruct HYB as [LY BY].
  (* U, V *)
  destruct (blocks_rows_bounded _ _ (q_uvdc q) (q_uvac q) 0 (c_u top) (c_u left) s1 ok1 HP2 HN2 (or_introl eq_refl) T5 L5) as [LU BU].
  change (nth (Z.to_nat 2) (h_probas h) []) with (nthZ (h_probas h) 2 []) in LU, BU.
  destruct (blocks_rows (nthZ (h_probas h) 2 []) (q_uvdc q) (q_uvac q) 0 (c_u top) (c_u left) s1 [] [] ok1) as [[[[ub tu] lu] ok2] s2]. cbn [fst] in LU, BU.
  destruct (blocks_rows_bounded _ _ (q_uvdc q) (q_uvac q) 0 (c_v top) (c_v left) s2 ok2 HP2 HN2 (or_introl eq_refl) T6 L6) as [LV BV].
  change (nth (Z.to_nat 2) (h_probas h) []) with (nthZ (h_probas h) 2 []) in LV, BV.
  destruct (blocks_rows (nthZ (h_probas h) 2 []) (q_uvdc q) (q_uvac q) 0 (c_v top) (c_v left) s2 [] [] ok2) as [[[[vb tv] lv] ok3] s3]. cbn [fst] in LV, BV.
  cbn [fst]. unfold res_wf. cbn [r_y r_u r_v]. rewrite !map_length.
  assert (LY' : length (match dcs with Some w => set_dcs yb w | None => yb end) = 16%nat) by (destruct dcs; [rewrite set_dcs_length|]; exact LY).
  split; [exact LY'|]. split; [rewrite LU, T2, L2; reflexivity|]. split; [rewrite LV, T3, L3; reflexivity|].
  unfold bounded_blocks. apply Forall_app. split; [|apply Forall_app; split].
  - destruct dcs as [w|]; [apply set_dcs_bounded; assumption | exact BY].
  - eapply bounded_widen; [|exact BU]. unfold dct_bound in *. lia.
  - eapply bounded_widen; [|exact BV]. unfold dct_bound in *. lia.
Qed.

(* ---------- rows ---------- *)
Lemma parse_token_row_wf h (v : Vp8) modes : tables_ok (h_probas h) -> token_nodes_of (h_probas h) = Ok (v_token_probs v) ->
  forall tops left s, Forall nz_ok tops -> nz_ok left ->
  let r := parse_token_row h modes tops left s [] [] in Forall res_wf (fst (fst r)) /\ Forall nz_ok (snd (fst r)).
Proof.
  intros Htab Htp. induction modes as [|m mtl IH]; intros tops left s Ht Hl; cbv zeta; [cbn; split; constructor|].
  destruct tops as [|t ttl]; [cbn; split; constructor|].
  rewrite parse_token_row_cons. inversion Ht as [|? ? Ht0 Httl]; subst.
  pose proof (parse_residuals_wf h m t left s v Htab Htp Ht0 Hl) as W.
  pose proof (parse_residuals_ctx h m t left s Ht0 Hl) as C. cbv zeta in C.
  destruct (parse_residuals h m t left s) as [[[r t'] l'] s1]. cbn [fst snd] in W, C. destruct C as [Ct Cl].
  specialize (IH ttl l' s1 Httl Cl). cbv zeta in IH.
  destruct (parse_token_row h mtl ttl l' s1 [] []) as [[rs nt] s']. cbn [fst snd] in *. destruct IH as [A B].
  split; constructor; assumption.
Qed.

Lemma parse_token_rows_wf h (v : Vp8) rows : tables_ok (h_probas h) -> token_nodes_of (h_probas h) = Ok (v_token_probs v) ->
  forall r tops parts, Forall nz_ok tops -> Forall (Forall res_wf) (fst (parse_token_rows h rows r tops parts [])).
Proof.
  intros Htab Htp. induction rows as [|row tl IH]; intros r tops parts Ht; [constructor|].
  destruct (nth_error parts (Z.to_nat (Z.land r (h_num_parts h - 1)))) as [s|] eqn:E.
  - rewrite (parse_token_rows_cons h row tl r tops parts s E).
    pose proof (parse_token_row_wf h v row Htab Htp tops ctx0 s Ht) as W. cbv zeta in W.
    assert (N0 : nz_ok ctx0) by (unfold nz_ok, ctx0; cbn; repeat split; try lia; repeat constructor; lia).
    specialize (W N0).
    destruct (parse_token_row h row tops ctx0 s [] []) as [[res tops'] s']. cbn [fst snd] in W. destruct W as [W1 W2].
    specialize (IH (r + 1) tops' (Spec.VP8.upd parts (Z.to_nat (Z.land r (h_num_parts h - 1))) s') W2).
    destruct (parse_token_rows h tl (r + 1) tops' _ []) as [rr ps]. cbn [fst] in *. constructor; assumption.
  - cbn [parse_token_rows]. rewrite E. cbn [rev_append fst]. constructor.
Qed.

Theorem parse_tokens_facts h (v : Vp8) modes parts : tables_ok (h_probas h) -> token_nodes_of (h_probas h) = Ok (v_token_probs v) ->
  Forall (Forall res_wf) (fst (parse_tokens h modes parts)).
Proof.
  intros Htab Htp. unfold parse_tokens. apply (parse_token_rows_wf h v modes Htab Htp).
  assert (G : forall n acc, Forall nz_ok acc -> Forall nz_ok (tabulate_aux (fun _ => ctx0) n acc)).
  { induction n as [|n IHn]; intros acc Ha; cbn [tabulate_aux]; [exact Ha|]. apply IHn. constructor; [|exact Ha].
    unfold nz_ok, ctx0; cbn; repeat split; try lia; repeat constructor; lia. }
  apply G. constructor.
Qed.
