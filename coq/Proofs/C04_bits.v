(* C04 layer L1: bit-level glue between the encoder's BitWriter and the specification's ReadBits.
   * `sbits s`     : the bits a Spec.VP8L stream still holds, in reading order;
   * `parses f bs a`: the reader `f`, started on any stream that begins with the bits `bs`, returns `a` and leaves
                      exactly the rest;
   * `emits m bs a` : the BitWriter computation `m` succeeds with result `a` and appends exactly the bits `bs`;
   * `bits_of n v`  : the n low bits of v, least significant first (what write_bits v n appends, what ReadBits(n) reads).
   Main results: `read_bits_parses`, `write_bits_emits`, `emits_bind`, `emits_run` (bytes of a finished writer, read as a
   stream, are the emitted bits followed by zero padding). *)
From Coq Require Import ZArith List Bool Lia.
From WebP Require Import Lib.Res Lib.ZBits Gen.Kernels Model.EncoderHeap Model.Encoder
  Proofs.Huffman_lists Proofs.Encoder_bitwriter.
From WebP Require Spec.VP8L.   (* not imported: its `let*` notation clashes with Lib.Res's *)
Module V := WebP.Spec.VP8L.
Import ListNotations.
Open Scope Z_scope.

(* ------------------------------------------------------------------------------------------------ *)
(** * bits of a number *)
Fixpoint bits_of (n : nat) (v : Z) : list bool :=
  match n with O => [] | S k => Z.odd v :: bits_of k (v / 2) end.

Fixpoint bits_val (bs : list bool) : Z :=
  match bs with [] => 0 | b :: t => Z.b2z b + 2 * bits_val t end.

Lemma bits_of_length n v : length (bits_of n v) = n.
Proof. revert v. induction n as [|n IH]; intros v; cbn [bits_of length]; [reflexivity | rewrite IH; reflexivity]. Qed.

Lemma odd_b2z v : v = Z.b2z (Z.odd v) + 2 * (v / 2).
Proof. rewrite <- Z.div2_div. rewrite Z.add_comm. apply Z.div2_odd. Qed.

Lemma bits_val_bits_of n : forall v, bits_val (bits_of n v) = v mod 2 ^ Z.of_nat n.
Proof.
  induction n as [|n IH]; intros v; cbn [bits_of bits_val].
  - change (2 ^ Z.of_nat 0) with 1. rewrite Z.mod_1_r. reflexivity.
  - rewrite IH. rewrite Nat2Z.inj_succ, Z.pow_succ_r by lia.
    pose proof (pow2_pos (Z.of_nat n) ltac:(lia)) as Hp.
    rewrite (Z.rem_mul_r v 2 (2 ^ Z.of_nat n)) by lia.
    pose proof (odd_b2z v) as Ho. destruct (Z.odd v); cbn [Z.b2z] in *; lia.
Qed.

Lemma bits_val_range bs : 0 <= bits_val bs < 2 ^ zlen bs.
Proof.
  induction bs as [|b t IH]; cbn [bits_val].
  - change (zlen (@nil bool)) with 0. change (2 ^ 0) with 1. lia.
  - rewrite zlen_cons. pose proof (zlen_nonneg t). rewrite Z.pow_add_r by lia. change (2 ^ 1) with 2.
    destruct b; cbn [Z.b2z]; lia.
Qed.

Lemma bits_val_app a b : bits_val (a ++ b) = bits_val a + 2 ^ zlen a * bits_val b.
Proof.
  induction a as [|x t IH]; cbn [app bits_val].
  - change (zlen (@nil bool)) with 0. change (2 ^ 0) with 1. lia.
  - rewrite IH, zlen_cons. pose proof (zlen_nonneg t). rewrite Z.pow_add_r by lia. change (2 ^ 1) with 2. lia.
Qed.

Lemma bits_of_app a b v : bits_of (a + b) v = bits_of a v ++ bits_of b (v / 2 ^ Z.of_nat a).
Proof.
  revert v. induction a as [|a IH]; intros v.
  - cbn [Nat.add bits_of app]. change (2 ^ Z.of_nat 0) with 1. rewrite Z.div_1_r. reflexivity.
  - cbn [Nat.add bits_of app]. rewrite IH. f_equal. f_equal.
    rewrite Nat2Z.inj_succ, Z.pow_succ_r by lia. rewrite Z.div_div by (try apply pow2_pos; lia). reflexivity.
Qed.

Lemma bits_of_zero n : bits_of n 0 = repeat false n.
Proof. induction n as [|n IH]; cbn [bits_of repeat]; [reflexivity|]. change (0 / 2) with 0. rewrite IH. reflexivity. Qed.

(* reading back a bit list through its value *)
Lemma bits_of_bits_val bs pad : bits_of (length bs + pad) (bits_val bs) = bs ++ repeat false pad.
Proof.
  induction bs as [|b t IH]; cbn [length Nat.add bits_of bits_val app].
  - apply bits_of_zero.
  - replace (Z.odd (Z.b2z b + 2 * bits_val t)) with b.
    + replace ((Z.b2z b + 2 * bits_val t) / 2) with (bits_val t); [rewrite IH; reflexivity|].
      destruct b; cbn [Z.b2z]; lia.
    + rewrite Z.odd_add_mul_2. destruct b; reflexivity.
Qed.

Lemma bits_of_mod n v : bits_of n (v mod 2 ^ Z.of_nat n) = bits_of n v.
Proof.
  rewrite <- (bits_val_bits_of n v).
  pose proof (bits_of_bits_val (bits_of n v) 0) as H. rewrite bits_of_length, Nat.add_0_r in H.
  cbn [repeat] in H. rewrite app_nil_r in H. exact H.
Qed.

(* concatenation of two fields = one field holding both (the literal of write_loop is written this way) *)
Lemma bits_of_concat a b x y : 0 <= x < 2 ^ Z.of_nat a ->
  bits_of (a + b) (x + y * 2 ^ Z.of_nat a) = bits_of a x ++ bits_of b y.
Proof.
  intros Hx. rewrite bits_of_app. pose proof (pow2_pos (Z.of_nat a) ltac:(lia)) as Hp. f_equal.
  - rewrite <- (bits_of_mod a (x + _)). rewrite Z.mod_add by lia. rewrite Z.mod_small by lia. reflexivity.
  - f_equal. rewrite Z.div_add by lia. rewrite Z.div_small by lia. reflexivity.
Qed.

(* ------------------------------------------------------------------------------------------------ *)
(** * the decoder stream as a bit list *)
Definition sbits (s : V.stream) : list bool :=
  match s with V.Stream p bs => p ++ flat_map V.byte_bits bs end.

Lemma read_bit_some s b l : sbits s = b :: l -> exists s', V.read_bit s = Some (b, s') /\ sbits s' = l.
Proof.
  destruct s as [p bs]. unfold sbits, V.read_bit, V.refill. destruct p as [|b' p'].
  - destruct bs as [|y bs']; cbn [flat_map app]; [discriminate|].
    unfold V.byte_bits at 1. cbn [map app]. intros H. inversion H; subst.
    eexists. split; [reflexivity|]. reflexivity.
  - cbn [app]. intros H. inversion H; subst. eexists. split; [reflexivity | reflexivity].
Qed.

Definition parses {A} (f : V.stream -> option (A * V.stream)) (bs : list bool) (a : A) : Prop :=
  forall s rest, sbits s = bs ++ rest -> exists s', f s = Some (a, s') /\ sbits s' = rest.

Lemma parses_nil {A} (a : A) : parses (fun s => Some (a, s)) [] a.
Proof. intros s rest H. exists s. split; [reflexivity | exact H]. Qed.

Lemma read_bits_parses_mod n : forall v, parses (V.read_bits n) (bits_of n v) (v mod 2 ^ Z.of_nat n).
Proof.
  induction n as [|n IH]; intros v s rest Hs.
  - cbn [V.read_bits]. change (2 ^ Z.of_nat 0) with 1. rewrite Z.mod_1_r. exists s. split; [reflexivity | exact Hs].
  - cbn [bits_of app] in Hs. cbn [V.read_bits].
    destruct (read_bit_some s _ _ Hs) as [s1 [E1 H1]]. rewrite E1.
    destruct (IH (v / 2) s1 rest H1) as [s2 [E2 H2]]. rewrite E2.
    exists s2. split; [|exact H2]. f_equal. f_equal.
    rewrite Nat2Z.inj_succ, Z.pow_succ_r by lia.
    pose proof (pow2_pos (Z.of_nat n) ltac:(lia)) as Hp.
    rewrite (Z.rem_mul_r v 2 (2 ^ Z.of_nat n)) by lia.
    pose proof (odd_b2z v) as Ho. destruct (Z.odd v); cbn [Z.b2z] in *; lia.
Qed.

(* L1, reader side: ReadBits(n) returns the field that was written *)
Lemma read_bits_parses n v : 0 <= v < 2 ^ Z.of_nat n -> parses (V.read_bits n) (bits_of n v) v.
Proof. intros H. pose proof (read_bits_parses_mod n v) as P. rewrite Z.mod_small in P by lia. exact P. Qed.

(* the bytes of a little-endian number, read as a stream *)
Lemma bits_of_testbit n : forall v, bits_of n v = map (fun i => Z.testbit v (Z.of_nat i)) (seq 0 n).
Proof.
  induction n as [|n IH]; intros v; cbn [bits_of seq map]; [reflexivity|].
  f_equal.
  rewrite IH, <- seq_shift, map_map. apply map_ext. intros i.
  rewrite Z.div2_bits by lia. f_equal. lia.
Qed.

Lemma byte_bits_bits_of x : V.byte_bits (x mod 256) = bits_of 8 x.
Proof.
  change 256 with (2 ^ Z.of_nat 8). rewrite <- (bits_of_mod 8 x).
  rewrite bits_of_testbit. reflexivity.
Qed.

Lemma sbits_le_bytes k : forall x, sbits (V.Stream [] (le_bytes k x)) = bits_of (8 * k) x.
Proof.
  induction k as [|k IH]; intros x.
  - reflexivity.
  - replace (8 * S k)%nat with (8 + 8 * k)%nat by lia. rewrite bits_of_app.
    cbn [le_bytes]. unfold sbits. cbn [app flat_map]. rewrite byte_bits_bits_of. f_equal.
    specialize (IH (x / 256)). unfold sbits in IH. cbn [app] in IH. exact IH.
Qed.

(* ------------------------------------------------------------------------------------------------ *)
(** * the encoder's BitWriter as a producer of bits *)
Definition emits {A} (m : M bitwriter A) (bs : list bool) (a : A) : Prop :=
  forall w acc tot, binv w acc tot -> 0 <= tot ->
    exists w', m w = (w', Ok a) /\ binv w' (acc + bits_val bs * 2 ^ tot) (tot + zlen bs).

Lemma emits_ret {A} (a : A) : emits (ret a) [] a.
Proof.
  intros w acc tot I Ht. exists w. split; [reflexivity|]. cbn [bits_val]. change (zlen (@nil bool)) with 0.
  rewrite Z.mul_0_l, !Z.add_0_r. exact I.
Qed.

Lemma emits_lift_ok {A} (a : A) : emits (lift (Ok a)) [] a.
Proof. exact (emits_ret a). Qed.

Lemma emits_bind {A B} (m : M bitwriter A) (f : A -> M bitwriter B) b1 b2 a c :
  emits m b1 a -> emits (f a) b2 c -> emits (mbind m f) (b1 ++ b2) c.
Proof.
  intros H1 H2 w acc tot I Ht.
  destruct (H1 w acc tot I Ht) as [w1 [E1 I1]].
  pose proof (zlen_nonneg b1) as Hl1.
  destruct (H2 w1 _ _ I1 ltac:(lia)) as [w2 [E2 I2]].
  exists w2. unfold mbind. rewrite E1. split; [exact E2|].
  rewrite bits_val_app, zlen_app.
  replace (acc + (bits_val b1 + 2 ^ zlen b1 * bits_val b2) * 2 ^ tot)
    with (acc + bits_val b1 * 2 ^ tot + bits_val b2 * 2 ^ (tot + zlen b1)) by (rewrite Z.pow_add_r by lia; ring).
  replace (tot + (zlen b1 + zlen b2)) with (tot + zlen b1 + zlen b2) by lia. exact I2.
Qed.

Lemma emits_seq {A} (m : M bitwriter unit) (m2 : M bitwriter A) b1 b2 c :
  emits m b1 tt -> emits m2 b2 c -> emits (mbind m (fun _ => m2)) (b1 ++ b2) c.
Proof. intros H1 H2. apply (emits_bind m (fun _ => m2) b1 b2 tt c H1 H2). Qed.

(* L1, writer side: write_bits appends the n low bits *)
Lemma write_bits_emits v n : 0 <= n <= 64 -> 0 <= v < 2 ^ n -> emits (write_bits v n) (bits_of (Z.to_nat n) v) tt.
Proof.
  intros Hn Hv w acc tot I Ht.
  destruct (write_bits_ok w acc tot v n I) as [w' [E I']]; [split; cbn [fst snd]; assumption|].
  exists w'. split; [exact E|].
  rewrite bits_val_bits_of, Z2Nat.id by lia. rewrite Z.mod_small by lia.
  unfold zlen. rewrite bits_of_length, Z2Nat.id by lia. exact I'.
Qed.

(* nat-indexed variant *)
Lemma write_bits_emits_nat v (n : nat) : (n <= 64)%nat -> 0 <= v < 2 ^ Z.of_nat n ->
  emits (write_bits v (Z.of_nat n)) (bits_of n v) tt.
Proof. intros Hn Hv. pose proof (write_bits_emits v (Z.of_nat n) ltac:(lia) Hv) as H. rewrite Nat2Z.id in H. exact H. Qed.

Lemma binv_init : binv (new_bitwriter (new_sink (-1))) 0 0.
Proof. constructor; cbn; try lia; constructor. Qed.

(* whole run: the bytes handed to the sink, read as a Spec stream, are the emitted bits and then zero padding *)
Theorem emits_run (m : M bitwriter unit) bs : emits m bs tt ->
  exists w' pad, (mbind m (fun _ => flush)) (new_bitwriter (new_sink (-1))) = (w', Ok tt)
    /\ sbits (V.Stream [] (sink_bytes (bw_sink w'))) = bs ++ repeat false pad.
Proof.
  intros H. destruct (H _ 0 0 binv_init ltac:(lia)) as [w1 [E1 I1]].
  destruct (flush_ok w1 _ _ I1) as [w2 [E2 Hb]].
  pose proof (zlen_nonneg bs) as Hl.
  set (k := Z.to_nat ((0 + zlen bs + 7) / 8)) in *.
  exists w2, (8 * k - length bs)%nat. unfold mbind. rewrite E1. split; [exact E2|].
  rewrite Hb, sbits_le_bytes. change (2 ^ 0) with 1. rewrite Z.mul_1_r, Z.add_0_l.
  rewrite <- bits_of_bits_val. f_equal. unfold zlen in *. unfold k. lia.
Qed.

(* ------------------------------------------------------------------------------------------------ *)
(** * tactics for chaining readers *)
(* the goal is  exists s', (let* (x, s) := f s0 in ...) = Some (a, s') /\ sbits s' = rest  with  Hs : sbits s0 = bs ++ ... *)
Ltac pstep P Hs :=
  let s1 := fresh "s" in let E := fresh "E" in let H := fresh "H" in
  destruct (P _ _ Hs) as [s1 [E H]]; rewrite E; clear E; clear Hs; rename H into Hs.

Lemma mbind_lift_ok {S A B} (a : A) (f : A -> M S B) : mbind (lift (Ok a)) f = f a.
Proof. reflexivity. Qed.

Lemma emits_lift_bind {A B} (r : res A) a (f : A -> M bitwriter B) bs b :
  r = Ok a -> emits (f a) bs b -> emits (mbind (lift r) f) bs b.
Proof. intros -> H. exact H. Qed.

(* non-vacuity / statement tests *)
Example read_bits_instance :
  V.read_bits 14 (V.Stream [] [205; 129; 255]) = Some (461, V.Stream [false; true] [255]).
Proof. vm_compute. reflexivity. Qed.

Example emits_run_instance :
  sbits (V.Stream [] (sink_bytes (bw_sink (fst ((mbind (write_bits 5 3) (fun _ => flush)) (new_bitwriter (new_sink (-1))))))))
  = bits_of 3 5 ++ repeat false 5.
Proof. vm_compute. reflexivity. Qed.
