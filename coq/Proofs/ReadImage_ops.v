(* Glue, part 12 -- CALL SEQUENCES ON THE FILE BYTES (C07 link).
   run_ops_from_file: under the hypotheses of play_from_file (well-formed animated container, chunks of any kind before / between /
   after the ANMF chunks, every frame payload decodes: Forall2 (frame_decodes vp8 ..)), for EVERY sequence of read_frame /
   reset_animation / read_image / buffer-refill calls and every buffer of the right size, the trace of the byte-level interpreter
   (Model.ReadImageOps.run_ops on the decoder WebPDecoder::new returns for the file's bytes) equals the trace of Model.Anim.run_ops
   on the file "with frames given decoded" anim_file c ms -- a valid_file, so history_independent and its corollaries
   (Properties/C07.v) hold for the decoder working on the file.  Ingredients: read_frame_step / read_frame_exhausted_file
   (Proofs/ReadImage_anim.v), the ANMF entry of the chunk table after `new`, Proofs/Anim_play.v, Proofs/Anim_history.v. *)
From Coq Require Import ZArith List Bool Lia Arith.
From WebP Require Import Lib.Res Lib.ZBits Spec.Container.
From WebP Require Import Proofs.Container_bytes Proofs.Container_simple Proofs.Container_scan Proofs.Container_extended
  Proofs.ReadImage_base Proofs.ReadImage_lossy Proofs.ReadImage_frame Proofs.ReadImage_anim.
From WebP Require Model.Anim Proofs.Anim_play Proofs.Anim_history Spec.Anim.
From WebP Require Import Model.ReadImage Model.ReadImageOps.
Import ListNotations.
Open Scope Z_scope.

(* ---------------------------------------------------------------------------------------------- *)
(* the ANMF entry of the chunk table (what reset_animation and read_image rewind to)               *)
(* ---------------------------------------------------------------------------------------------- *)
Lemma new_anim_chunk c : wf c = true -> anim c = true ->
  exists dec e, M.new (serialize c) = Ok dec /\ M.lookup M.KANMF (M.d_chunks dec) = Some (M.d_next_frame_start dec + 8, e).
Proof.
  destruct c as [v trail | l trail | x cs]; intros Hwf Ha; try discriminate Ha. cbn [anim] in Ha.
  rewrite wf_extended_eq in Hwf. rewrite !andb_true_iff in Hwf.
  destruct Hwf as (Hfs & (((((Hx & Hcs) & Hicc) & Hexif) & Hxmp) & Hwc)).
  apply Z.leb_le in Hfs. apply eqb_prop in Hicc, Hexif, Hxmp.
  destruct (new_extended_prefix x cs Hfs Hx Hcs) as (Hnew & Hat & Hd & Hbytes).
  set (d := serialize (Extended x cs)) in *. set (ST := scan_spec 30 cs st0).
  unfold wf_chunks in Hwc. rewrite Ha in Hwc.
  rewrite !andb_true_iff, !negb_true_iff in Hwc. destruct Hwc as ((((Hanim & Hanmf) & Hvp8) & _) & _).
  destruct (after_scan_anim d x cs Ha Hcs Hat Hicc Hexif Hxmp Hanim Hanmf Hvp8 Hd Hbytes)
    as (bg & lp & chunks' & nfs & Hfa & Has & Hkeep).
  fold ST in Has.
  destruct (first_range_some M.KANMF is_anmf cs 30 d Hcs Hat kp_anmf Hanmf) as (sf & cf & Hrf & _ & _ & _ & _ & _).
  assert (Hlk : M.lookup M.KANMF (M.s_chunks ST) = Some (sf, sf + len (chunk_payload cf))).
  { unfold ST. rewrite (lookup_after_scan cs 30 st0 M.KANMF st0_empty). exact Hrf. }
  destruct (after_scan_start d _ ST _ sf _ Has ltac:(cbn [info_of M.e_animation]; exact Ha) Hlk) as [Hstart Hs8].
  eexists. exists (sf + len (chunk_payload cf)). split; [rewrite Hnew; exact Has|].
  unfold M.mk_decoder in *. cbn [M.d_chunks M.d_next_frame_start] in *.
  rewrite (Hkeep M.KANMF eq_refl) by discriminate. fold ST. rewrite Hlk, Hstart. do 2 f_equal. lia.
Qed.

Section Ops.
Variable vp8 : list Z -> res (Z * Z * list Z * list Z * list Z).

(* the hypotheses on the decoder that the induction uses *)
Definition anim_dec (c : container) (dec : M.decoder) : Prop :=
  anim_view c dec /\ exists e, M.lookup M.KANMF (M.d_chunks dec) = Some (M.d_next_frame_start dec + 8, e).

Lemma inv_initial c dec ms : anim_view c dec -> inv dec (anim_file c ms) (frames c) ms (initial_fstate dec) 0.
Proof.
  intros (Hdata & _ & _ & _ & _ & _ & _ & _ & _ & _ & _ & Hnfs0 & rest & Hat & Hok & Hfr).
  unfold inv, initial_fstate, fresh_fstate. cbn [fs_anim fs_seen fs_start Anim_play.state_after firstn skipn].
  split; [reflexivity|]. split; [reflexivity|]. split; [exact Hnfs0|]. exists rest. rewrite Hdata. auto.
Qed.

Lemma reset_animation_view c dec : anim_dec c dec -> reset_animation dec = Ok (initial_fstate dec).
Proof.
  intros ((_ & Hani & _ & _ & _ & _ & _ & _ & _ & _ & _ & Hnfs0 & _) & e & Hlk).
  unfold reset_animation. rewrite Hani, Hlk. cbn [negb of_option bind fst].
  rewrite sub_u64_ok by lia. cbn [bind]. replace (M.d_next_frame_start dec + 8 - 8) with (M.d_next_frame_start dec) by lia. reflexivity.
Qed.

Lemma obs_view c dec ms : anim_view c dec -> M.output_buffer_size dec = Some (Anim.output_buffer_size (anim_file c ms)).
Proof.
  intros (_ & _ & Hw & Hh & Hal & _ & _ & _ & Rw & Rh & _).
  rewrite output_buffer_size_ok by lia. unfold Anim.output_buffer_size, anim_file. cbn [Anim.m_w Anim.m_h Anim.m_alpha].
  rewrite Hw, Hh, Hal. reflexivity.
Qed.

(* read_image on the animated file: the first frame of a fresh playback, whatever the playback position *)
Lemma read_image_view c dec ms buf :
  anim_dec c dec -> Forall2 (frame_decodes vp8 (fst (dims c)) (snd (dims c))) (frames c) ms ->
  Anim_play.valid_file (anim_file c ms) -> len buf = Anim.output_buffer_size (anim_file c ms) ->
  read_image vp8 dec buf = (Ok tt, Some (snd (Anim_play.delivered (anim_file c ms) 0))).
Proof.
  intros (Hview & e & Hlk) HF2 Hvalid Hl.
  assert (Hn : (0 < length ms)%nat).
  { destruct Hvalid as (_ & _ & _ & _ & Hne & _). cbn [anim_file Anim.m_frames] in Hne. destruct ms; [contradiction | cbn; lia]. }
  unfold read_image. rewrite (obs_view c dec ms Hview), len_M, Hl, Z.eqb_refl. cbn [negb].
  pose proof Hview as (_ & Hani & _ & _ & _ & _ & _ & _ & _ & _ & _ & Hnfs0 & _). rewrite Hani.
  unfold read_image_animated. rewrite Hlk. cbn [of_option bindb fst]. rewrite sub_u64_ok by lia. cbn [bindb].
  replace (M.d_next_frame_start dec + 8 - 8) with (M.d_next_frame_start dec) by lia.
  change (fresh_fstate (M.d_next_frame_start dec)) with (initial_fstate dec).
  destruct (read_frame_step vp8 c dec ms Hview HF2 Hvalid (initial_fstate dec) 0 buf (inv_initial c dec ms Hview) Hn Hl) as (st' & -> & _).
  unfold Anim_play.delivered. cbn [fst snd]. reflexivity.
Qed.

Definition conv (rb : Anim.mres * list Z) : ores * list Z := (of_mres (fst rb), snd rb).

Lemma run_ops_from_file_aux c dec ms :
  anim_dec c dec -> Forall2 (frame_decodes vp8 (fst (dims c)) (snd (dims c))) (frames c) ms ->
  Anim_play.valid_file (anim_file c ms) ->
  forall ops k st buf, inv dec (anim_file c ms) (frames c) ms st k -> (k <= length ms)%nat ->
  len buf = Anim.output_buffer_size (anim_file c ms) ->
  run_ops vp8 dec ops st buf = map conv (Anim.run_ops (anim_file c ms) ops (Anim_play.state_after (anim_file c ms) k) buf).
Proof.
  intros Hdec HF2 Hvalid. pose proof Hdec as (Hview & _).
  set (F := anim_file c ms) in *.
  assert (HlenF : length (Anim.m_frames F) = length ms) by reflexivity.
  assert (Hn : (0 < length ms)%nat).
  { destruct Hvalid as (_ & _ & _ & _ & Hne & _). change (Anim.m_frames F) with ms in Hne. destruct ms; [contradiction | cbn; lia]. }
  induction ops as [|o tl IH]; intros k st buf Hinv Hk Hl; [reflexivity|].
  destruct o; cbn [run_ops Anim.run_ops].
  - (* read_frame *)
    destruct (Nat.eq_dec k (length ms)) as [->|Hlt].
    + rewrite (read_frame_exhausted_file vp8 c dec ms st buf Hview HF2 Hvalid Hinv Hl).
      rewrite <- HlenF. rewrite (Anim_history.read_frame_exhausted F buf Hvalid Hl). rewrite HlenF.
      cbn [map]. unfold conv at 1. cbn [fst snd of_mres]. f_equal. apply IH; assumption.
    + destruct (read_frame_step vp8 c dec ms Hview HF2 Hvalid st k buf Hinv ltac:(lia) Hl) as (st' & -> & Hinv').
      rewrite (Anim_play.read_frame_after F k buf Hvalid ltac:(rewrite HlenF; lia) Hl).
      unfold Anim_play.delivered. cbn [fst snd map]. unfold conv at 1. cbn [fst snd of_mres]. f_equal.
      apply IH; [exact Hinv' | lia | apply (Anim_play.delivered_length F k Hvalid)].
  - (* reset_animation *)
    rewrite (reset_animation_view c dec Hdec). cbn [map]. unfold conv at 1. cbn [fst snd of_mres]. f_equal.
    unfold Anim.reset_animation. change Anim.fresh_state with (Anim_play.state_after F 0).
    apply IH; [apply inv_initial; exact Hview | lia | exact Hl].
  - (* read_image *)
    rewrite (read_image_view c dec ms buf Hdec HF2 Hvalid Hl).
    unfold Anim.read_image. pose proof Hl as Hl2. unfold len in Hl2. rewrite Hl2, Z.eqb_refl. cbn [negb].
    change Anim.fresh_state with (Anim_play.state_after F 0).
    rewrite (Anim_play.read_frame_after F 0 buf Hvalid ltac:(rewrite HlenF; lia) Hl).
    unfold Anim_play.delivered. cbn [fst snd map]. unfold conv at 1. cbn [fst snd of_mres]. f_equal.
    apply IH; [exact Hinv | exact Hk | apply (Anim_play.delivered_length F 0 Hvalid)].
  - (* the caller fills its buffer *)
    cbn [map]. unfold conv at 1. cbn [fst snd of_mres]. f_equal.
    apply IH; [exact Hinv | exact Hk |]. unfold len. rewrite map_length. exact Hl.
Qed.

(* THE COMPOSITION for call sequences *)
Theorem run_ops_from_file c ms :
  wf c = true -> anim c = true -> Forall2 (frame_decodes vp8 (fst (dims c)) (snd (dims c))) (frames c) ms ->
  fst (dims c) * snd (dims c) * 4 < 18446744073709551616 ->
  Anim_play.valid_file (anim_file c ms) /\
  exists dec, M.new (serialize c) = Ok dec /\
    forall ops buf, len buf = buffer_size c ->
      run_ops vp8 dec ops (initial_fstate dec) buf = map conv (Anim.run_ops (anim_file c ms) ops Anim.fresh_state buf).
Proof.
  intros Hwf Ha HF2 Hcanvas.
  destruct (new_anim_view c Hwf Ha) as (dec & Hnew & Hview).
  destruct (new_anim_chunk c Hwf Ha) as (dec' & e & Hnew' & Hlk). rewrite Hnew in Hnew'. apply Ok_inj' in Hnew'. subst dec'.
  pose proof (valid_anim_file vp8 c ms Hwf Ha HF2 Hcanvas dec Hview) as Hvalid.
  split; [exact Hvalid|]. exists dec. split; [exact Hnew|]. intros ops buf Hl.
  change Anim.fresh_state with (Anim_play.state_after (anim_file c ms) 0).
  apply (run_ops_from_file_aux c dec ms (conj Hview (ex_intro _ e Hlk)) HF2 Hvalid ops 0 _ buf (inv_initial c dec ms Hview)); [lia | exact Hl].
Qed.

(* C07 history_independent for the decoder working on the file: the trace is the trace of the playback cursor over what a fresh
   decoder shows (Spec.Anim.cursor_run over Anim_history.kshown) *)
Theorem history_independent_from_file c ms :
  wf c = true -> anim c = true -> Forall2 (frame_decodes vp8 (fst (dims c)) (snd (dims c))) (frames c) ms ->
  fst (dims c) * snd (dims c) * 4 < 18446744073709551616 ->
  exists dec, M.new (serialize c) = Ok dec /\
    forall ops buf, len buf = buffer_size c ->
      run_ops vp8 dec ops (initial_fstate dec) buf
      = map conv (Anim_history.trace_of
                    (Spec.Anim.cursor_run (Anim_history.kshown (anim_file c ms)) (map Anim_history.op_of ops) 0 buf)).
Proof.
  intros Hwf Ha HF2 Hcanvas. destruct (run_ops_from_file c ms Hwf Ha HF2 Hcanvas) as (Hvalid & dec & Hnew & Hrun).
  exists dec. split; [exact Hnew|]. intros ops buf Hl. rewrite (Hrun ops buf Hl).
  rewrite (Anim_history.history_independent_lemma (anim_file c ms) ops buf Hvalid Hl). reflexivity.
Qed.

(* the three clauses of C07 for the decoder working on the file; [position] = the playback position of Proofs/Anim_history.v
   (a function of the op sequence and the number of frames only) *)
Lemma nth_error_conv l i : nth_error (map conv l) i = option_map conv (nth_error l i).
Proof. revert i. induction l as [|x l IH]; intros [|i]; cbn [map nth_error option_map]; auto. Qed.

Theorem clauses_from_file c ms :
  wf c = true -> anim c = true -> Forall2 (frame_decodes vp8 (fst (dims c)) (snd (dims c))) (frames c) ms ->
  fst (dims c) * snd (dims c) * 4 < 18446744073709551616 ->
  exists dec, M.new (serialize c) = Ok dec /\
    forall ops buf i, len buf = buffer_size c ->
      let F := anim_file c ms in
      let tr := run_ops vp8 dec ops (initial_fstate dec) buf in
      (* 1: a read_frame issued when j frames have been consumed since the last reset delivers the (j+1)-th frame of a fresh playback *)
      (forall j, nth_error ops i = Some Anim.MFrame -> Anim_history.position F (firstn i ops) = j -> (j < length ms)%nat ->
         nth_error tr i = option_map (fun rb => (RoFrame (fst rb), snd rb)) (nth_error (play vp8 dec (length ms) buf) j))
      (* 2: read_image returns the first frame and does not move the playback position *)
      /\ (nth_error ops i = Some Anim.MImage ->
          nth_error tr i = Some (RoImage (Ok tt) true,
                                 Spec.Anim.render (alpha c) (fst (dims c)) (snd (dims c))
                                   (Spec.Anim.frames_upto AlphaBlend.do_alpha_blending (Anim_play.anim_of F) 0))
          /\ Anim_history.position F (firstn (S i) ops) = Anim_history.position F (firstn i ops))
      (* 3: once all frames are consumed read_frame returns NoMoreFrames and the buffer is the one the caller passed *)
      /\ (nth_error ops i = Some Anim.MFrame -> Anim_history.position F (firstn i ops) = length ms ->
          exists b, nth_error tr i = Some (RoFrame (Err ENoMoreFrames), b)
                    /\ b = Anim_history.buffer_before (Anim.run_ops F ops Anim.fresh_state buf) i buf).
Proof.
  intros Hwf Ha HF2 Hcanvas.
  destruct (run_ops_from_file c ms Hwf Ha HF2 Hcanvas) as (Hvalid & dec & Hnew & Hrun).
  destruct (play_from_file vp8 c ms Hwf Ha HF2 Hcanvas) as (_ & dec' & Hnew' & Hplay). rewrite Hnew in Hnew'. apply Ok_inj' in Hnew'. subst dec'.
  exists dec. split; [exact Hnew|]. intros ops buf i Hl. cbv zeta. rewrite (Hrun ops buf Hl), nth_error_conv.
  split; [| split].
  - intros j Ho Hp Hj.
    rewrite (Anim_history.frames_after_reset_lemma (anim_file c ms) ops buf i j Hvalid Hl Ho Hp Hj).
    destruct (Hplay buf Hl) as [-> _].
    generalize (Anim.play (anim_file c ms) buf). intros l. revert j Hj Hp. clear. intros j _ _. revert j.
    induction l as [|x l IH]; intros [|j]; cbn [map nth_error option_map]; auto.
  - intros Ho. destruct (Anim_history.read_image_first_frame_lemma (anim_file c ms) ops buf i Hvalid Hl Ho) as [-> Hp].
    split; [reflexivity | exact Hp].
  - intros Ho Hp. rewrite (Anim_history.exhausted_lemma (anim_file c ms) ops buf i Hvalid Hl Ho Hp). eexists. split; reflexivity.
Qed.
End Ops.
