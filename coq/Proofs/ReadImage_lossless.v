(* Glue of read_image, part 4 -- LOSSLESS stills (C01 link + C11 buffer clauses).
   read_image_lossless: for every well-formed still file (simple lossless, or VP8X with a 'VP8L' chunk; any chunk order, metadata,
   unknown chunks) whose VP8L stream the specification decodes to the file's dimensions, under the two format conditions of
   property C01, read_image returns Ok and leaves in the caller's buffer exactly Spec.VP8L's pixels -- R,G,B,A per pixel when the
   file has alpha, the same pixels with the alpha byte dropped otherwise -- whatever the buffer held before. *)
From Coq Require Import ZArith List Bool Lia.
From WebP Require Import Lib.Res Lib.ZBits Spec.Container Model.Still.
From WebP Require Import Proofs.Container_bytes Proofs.Still_glue Proofs.ReadImage_base Proofs.ReadImage_container.
From WebP Require Proofs.C01_top Proofs.ReadImage_vp8l.
From WebP Require Import Model.ReadImage.
Import ListNotations.
Open Scope Z_scope.

Lemma output_size_view c dec : still_view c dec -> M.output_buffer_size dec = Some (buffer_size c).
Proof.
  intros (_ & _ & Hw & Hh & Ha & _ & _ & _ & H1 & H2 & H3).
  unfold M.output_buffer_size, M.has_alpha, buffer_size. rewrite Hw, Hh, Ha.
  unfold M.usize_max, M.u64_max.
  destruct (18446744073709551615 <? fst (dims c) * snd (dims c)) eqn:E1; [apply Z.ltb_lt in E1; lia|].
  destruct (18446744073709551615 <? fst (dims c) * snd (dims c) * (if alpha c then 4 else 3)) eqn:E2;
    [apply Z.ltb_lt in E2; destruct (alpha c); lia | reflexivity].
Qed.

Section Lossless.
Variable vp8 : list Z -> res (Z * Z * list Z * list Z * list Z).

(* the dispatch of read_image on a still file whose buffer has the right length *)
Lemma read_image_still c dec buf : still_view c dec -> len buf = buffer_size c ->
  read_image vp8 dec buf =
  match M.lookup M.KVP8L (M.d_chunks dec) with
  | Some range => read_image_vp8l dec range buf
  | None => read_image_vp8 vp8 dec buf
  end.
Proof.
  intros Hv Hl. unfold read_image. rewrite (output_size_view c dec Hv). rewrite len_M, Hl, Z.eqb_refl. cbn [negb].
  destruct Hv as (_ & -> & _). reflexivity.
Qed.

(* C11 wrong_length: any other buffer length is rejected before anything is read or written *)
Theorem wrong_length_view c dec buf : still_view c dec -> len buf <> buffer_size c ->
  read_image vp8 dec buf = (Err EImageTooLarge, Some buf).
Proof.
  intros Hv Hl. unfold read_image. rewrite (output_size_view c dec Hv). rewrite len_M.
  destruct (len buf =? buffer_size c) eqn:E; [apply Z.eqb_eq in E; contradiction | reflexivity].
Qed.

Theorem read_image_lossless_view c dec payload W h pixels buf :
  still_view c dec -> image_vp8l c = Some payload -> dims c = (W, h) ->
  V.decode_rgba payload = Some (W, h, pixels) -> C01_top.codes_in_format payload ->
  (forall s0, V.read_header (V.Stream [] payload) = Some (W, h, s0) -> C01_top.in_format W h s0) ->
  len buf = buffer_size c ->
  read_image vp8 dec buf = (Ok tt, Some (if alpha c then pixels else drop_alpha pixels)).
Proof.
  intros Hv Hp Hd Hdec Hcodes Hfmt Hl. rewrite (read_image_still c dec buf Hv Hl).
  destruct Hv as (Hdata & Hanim & Hw & Hh & Ha & _ & Hvl & _ & H1 & H2 & H3).
  rewrite Hp in Hvl. destruct Hvl as (s & -> & Hat & Hbytes). rewrite Hd in *. cbn [fst snd] in *.
  apply all_bytes_Forall in Hbytes.
  unfold read_image_vp8l. rewrite (range_reader_at _ _ _ Hat). cbn [bindb]. rewrite Ha, Hw, Hh.
  unfold buffer_size in Hl. rewrite Hd in Hl. cbn [fst snd] in Hl.
  destruct (alpha c).
  - rewrite (C01_top.decode_frame_matches_spec payload [] W h buf pixels Hbytes) by (try assumption; unfold len in Hl; lia).
    reflexivity.
  - rewrite usz_ok by (unfold M.usize_max, M.u64_max; lia). cbn [bindb].
    destruct (ReadImage_vp8l.decode_frame_spec_length payload [] W h (zeros (W * h * 4)) pixels Hbytes) as [E L];
      try assumption; [rewrite zeros_length by lia; lia|].
    rewrite E. cbn [bindb]. do 2 f_equal.
    apply (drop_alpha_into_spec pixels buf (Z.to_nat (W * h))).
    + rewrite L. unfold zeros. rewrite repeat_length. lia.
    + unfold len in Hl. lia.
Qed.

(* ... stated on files *)
Theorem read_image_lossless c payload W h pixels :
  wf c = true -> anim c = false -> image_vp8l c = Some payload -> dims c = (W, h) ->
  V.decode_rgba payload = Some (W, h, pixels) -> C01_top.codes_in_format payload ->
  (forall s0, V.read_header (V.Stream [] payload) = Some (W, h, s0) -> C01_top.in_format W h s0) ->
  exists dec, M.new (serialize c) = Ok dec /\
    (forall buf, len buf = buffer_size c ->
       read_image vp8 dec buf = (Ok tt, Some (if alpha c then pixels else drop_alpha pixels))) /\
    (forall buf, len buf <> buffer_size c -> read_image vp8 dec buf = (Err EImageTooLarge, Some buf)).
Proof.
  intros Hwf Ha Hp Hd Hdec Hcodes Hfmt. destruct (new_still_view c Hwf Ha) as (dec & Hnew & Hv).
  exists dec. split; [exact Hnew|]. split.
  - intros buf Hl. apply (read_image_lossless_view c dec payload W h pixels buf); assumption.
  - intros buf Hl. apply (wrong_length_view c dec buf Hv Hl).
Qed.
End Lossless.
