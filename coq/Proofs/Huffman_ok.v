(* C14, part B2: the theorems about Model.Encoder.build_huffman_tree for every histogram, every length limit and
   every tie-break (heap: exact model, whose order is irrelevant to the proof; sort: any permutation). *)
From Coq Require Import ZArith List Bool Lia Arith Permutation.
From WebP Require Import Lib.Res Gen.Kernels Model.EncoderHeap Model.Encoder Spec.PrefixCode
  Proofs.Huffman_lists Proofs.Huffman_canon Proofs.Huffman_heap Proofs.Huffman_tree Proofs.Huffman_limit
  Proofs.Huffman_checker.
Import ListNotations.
Open Scope Z_scope.

(* ---- Kraft facts about a full binary tree, with depths clamped to L ---- *)
Lemma tree_kraft L : 1 <= L -> forall t d, 1 <= d ->
  2 ^ (L - Z.min d L) <= dsum (gK L) t d
  /\ 0 <= dsum (gC L) t d
  /\ dsum (gK L) t d - 2 ^ (L - Z.min d L) + (if 0 <? dsum (gC L) t d then 1 else 0) <= dsum (gC L) t d
  /\ (L <= d -> dsum (gK L) t d = Z.of_nat (length (leaves t)) /\ dsum (gC L) t d = Z.of_nat (length (leaves t))).
Proof.
  intros HL. induction t as [i | l IHl r IHr]; intros d Hd.
  - cbn [dsum leaves length]. unfold gK, gC. replace (0 <? d) with true by (symmetry; apply Z.ltb_lt; lia).
    destruct (L <=? d) eqn:E; [apply Z.leb_le in E | apply Z.leb_gt in E].
    + replace (Z.min d L) with L by lia. rewrite Z.sub_diag. change (2 ^ 0) with 1. cbn. lia.
    + cbn. lia.
  - cbn [dsum leaves]. rewrite app_length, Nat2Z.inj_add.
    destruct (IHl (d + 1) ltac:(lia)) as [Al [Bl [Cl Dl]]]. destruct (IHr (d + 1) ltac:(lia)) as [Ar [Br [Cr Dr]]].
    destruct (nodes_leaves l) as [_ Nl]. destruct (nodes_leaves r) as [_ Nr].
    destruct (Z.lt_ge_cases d L) as [Hlt | Hge].
    + replace (Z.min d L) with d by lia. replace (Z.min (d + 1) L) with (d + 1) in * by lia.
      replace (L - d) with (L - (d + 1) + 1) by lia. rewrite pow2_succ by lia.
      split; [lia|]. split; [lia|]. split; [|intros; lia].
      destruct (0 <? dsum (gC L) l (d + 1)) eqn:E1; destruct (0 <? dsum (gC L) r (d + 1)) eqn:E2;
        destruct (0 <? dsum (gC L) l (d + 1) + dsum (gC L) r (d + 1)) eqn:E3; lia.
    + replace (Z.min d L) with L by lia. replace (Z.min (d + 1) L) with L in * by lia.
      destruct (Dl ltac:(lia)) as [Kl Cl']. destruct (Dr ltac:(lia)) as [Kr Cr'].
      rewrite Kl, Kr, Cl', Cr'. rewrite Z.sub_diag. change (2 ^ 0) with 1.
      split; [lia|]. split; [lia|]. split; [|intros; lia].
      destruct (0 <? Z.of_nat (length (leaves l)) + Z.of_nat (length (leaves r))); lia.
Qed.

Lemma root_kraft L l r : 1 <= L ->
  2 ^ L <= dsum (gK L) (Node l r) 0
  /\ dsum (gK L) (Node l r) 0 - 2 ^ L + (if 0 <? dsum (gC L) (Node l r) 0 then 1 else 0) <= dsum (gC L) (Node l r) 0.
Proof.
  intros HL. cbn [dsum]. change (0 + 1) with 1.
  destruct (tree_kraft L HL l 1 ltac:(lia)) as [Al [Bl [Cl _]]]. destruct (tree_kraft L HL r 1 ltac:(lia)) as [Ar [Br [Cr _]]].
  replace (Z.min 1 L) with 1 in * by lia.
  replace (2 ^ L) with (2 * 2 ^ (L - 1)) by (rewrite <- pow2_succ by lia; f_equal; lia).
  split; [lia|].
  destruct (0 <? dsum (gC L) l 1) eqn:E1; destruct (0 <? dsum (gC L) r 1) eqn:E2;
    destruct (0 <? dsum (gC L) l 1 + dsum (gC L) r 1) eqn:E3; lia.
Qed.

(* ---- leaves of the tree = used symbols ---- *)
Lemma count_eq_In x l : In x l <-> 0 < count_eq x l.
Proof.
  induction l as [|y tl IH]; cbn [In count_eq]; [lia|]. pose proof (count_eq_nonneg x tl) as Hc0.
  destruct (y =? x) eqn:E; [apply Z.eqb_eq in E | apply Z.eqb_neq in E].
  - split; [lia | intros _; left; exact E].
  - rewrite Z.add_0_l. rewrite <- IH. split; [intros [H | H]; [contradiction | exact H] | intros H; right; exact H].
Qed.

Lemma count_le1_NoDup l : (forall x, count_eq x l <= 1) -> NoDup l.
Proof.
  induction l as [|y tl IH]; intros H; constructor.
  - intros Hin. apply count_eq_In in Hin. specialize (H y). cbn [count_eq] in H. rewrite Z.eqb_refl in H. lia.
  - apply IH. intros x. specialize (H x). cbn [count_eq] in H. destruct (y =? x); lia.
Qed.

Lemma usedb_range freqs i : usedb freqs i <> 0 -> 0 <= i < zlen freqs /\ 0 < nth (Z.to_nat i) freqs 0.
Proof.
  unfold usedb. destruct (0 <=? i) eqn:A; cbn [andb]; [|congruence]. destruct (i <? zlen freqs) eqn:B; cbn [andb]; [|congruence].
  destruct (0 <? nth (Z.to_nat i) freqs 0) eqn:C; [|congruence]. intros _. apply Z.leb_le in A. apply Z.ltb_lt in B, C. lia.
Qed.

Lemma usedb_one freqs i : 0 <= i < zlen freqs -> 0 < nth (Z.to_nat i) freqs 0 -> usedb freqs i = 1.
Proof.
  intros H1 H2. unfold usedb. replace (0 <=? i) with true by (symmetry; apply Z.leb_le; lia).
  replace (i <? zlen freqs) with true by (symmetry; apply Z.ltb_lt; lia).
  replace (0 <? nth (Z.to_nat i) freqs 0) with true by (symmetry; apply Z.ltb_lt; lia). reflexivity.
Qed.

Lemma usedb_le1 freqs i : 0 <= usedb freqs i <= 1.
Proof. unfold usedb. destruct (_ && _ && _); lia. Qed.

Lemma leaves_facts freqs l : (forall i, count_eq i l = usedb freqs i) ->
  NoDup l /\ Forall (fun i => 0 <= i < zlen freqs) l
  /\ (forall i, In i l <-> (0 <= i < zlen freqs /\ 0 < nth (Z.to_nat i) freqs 0))
  /\ (length l <= length freqs)%nat.
Proof.
  intros H.
  assert (Hnd : NoDup l) by (apply count_le1_NoDup; intros x; rewrite H; apply usedb_le1).
  assert (Hin : forall i, In i l <-> (0 <= i < zlen freqs /\ 0 < nth (Z.to_nat i) freqs 0)).
  { intros i. rewrite count_eq_In, H. split.
    - intros Hp. apply usedb_range. lia.
    - intros [H1 H2]. rewrite usedb_one by assumption. lia. }
  assert (Hr : Forall (fun i => 0 <= i < zlen freqs) l) by (apply Forall_forall; intros i Hi; apply Hin in Hi; tauto).
  split; [exact Hnd|]. split; [exact Hr|]. split; [exact Hin|].
  rewrite <- (seq_length (length freqs) 0), <- (map_length Z.of_nat).
  apply NoDup_incl_length; [exact Hnd|]. intros i Hi. rewrite Forall_forall in Hr. specialize (Hr i Hi). cbv beta in Hr.
  apply in_map_iff. exists (Z.to_nat i). split; [lia|]. apply in_seq. unfold zlen in Hr. lia.
Qed.

Lemma filter_pos_le1 : forall freqs,
  (forall i j, (i < length freqs)%nat -> (j < length freqs)%nat -> 0 < nth i freqs 0 -> 0 < nth j freqs 0 -> i = j) ->
  (length (filter (fun f => Z.ltb 0 f) freqs) <= 1)%nat.
Proof.
  induction freqs as [|x tl IH]; intros H; cbn [filter length]; [lia|].
  destruct (0 <? x) eqn:E.
  - apply Z.ltb_lt in E. cbn [length].
    assert (Hz : filter (fun f => 0 <? f) tl = []).
    { destruct (filter (fun f => 0 <? f) tl) as [|y yl] eqn:Ef; [reflexivity|]. exfalso.
      assert (Hy : In y (filter (fun f => 0 <? f) tl)) by (rewrite Ef; left; reflexivity).
      apply filter_In in Hy. destruct Hy as [Hy Hp]. apply Z.ltb_lt in Hp.
      destruct (In_nth _ _ 0 Hy) as [k [Hk Ek]].
      specialize (H 0%nat (S k) ltac:(cbn [length]; lia) ltac:(cbn [length]; lia)). cbn [nth] in H. rewrite Ek in H.
      specialize (H E Hp). discriminate. }
    rewrite Hz. cbn [length]. lia.
  - apply IH. intros i j Hi Hj Hpi Hpj.
    specialize (H (S i) (S j) ltac:(cbn [length]; lia) ltac:(cbn [length]; lia)). cbn [nth] in H. specialize (H Hpi Hpj). lia.
Qed.

(* ---- the tree phase ---- *)
Definition huff_tree (freqs : list Z) : res tree :=
  let n := zlen freqs in
  bind (heap_from_vec (heap_items freqs)) (fun h0 =>
  bind (huff_loop (S (length freqs)) n h0 []) (fun hi =>
  bind (heap_pop (fst hi)) (fun o =>
  match o with
  | None => Panic PUnwrap
  | Some ((_, root), _) => Ok (tree_of n (snd hi) root)
  end))).

Theorem tree_phase : forall freqs,
  zlen freqs <= 32768 -> Forall (fun f => 0 <= f) freqs -> zsum freqs <= u32_max -> 2 <= used freqs ->
  exists l r, huff_tree freqs = Ok (Node l r)
    /\ tree_lengths freqs = Ok (assign (Node l r) 0 (zeros (length freqs)))
    /\ (forall i, count_eq i (leaves (Node l r)) = usedb freqs i).
Proof.
  intros freqs Hn Hnn Hs Hu. pose proof (zlen_nonneg freqs) as Hn0.
  destruct (heap_from_vec_ok (heap_items freqs)) as [h0 [E0 M0]].
  pose proof (initial_inv freqs h0 Hn Hnn Hs M0) as I0.
  assert (Hl0 : zlen h0 = used freqs) by (pose proof (inv_len _ _ _ I0) as L; change (zlen (@nil (Z * Z))) with 0 in L; lia).
  assert (Hused : used freqs <= zlen freqs).
  { unfold used, zlen. pose proof (filter_len_le (fun f => 0 <? f) freqs). lia. }
  destruct (huff_loop_ok freqs Hn (S (length freqs)) h0 [] I0) as [F [root [ins [El I]]]]; [lia | unfold zlen in *; lia|].
  unfold huff_tree, tree_lengths. rewrite E0. cbn [bind]. rewrite El. cbn [bind fst snd].
  change (heap_pop [(F, root)]) with (@Ok (option (item * list item)) (Some ((F, root), []))). cbn [bind].
  set (n := zlen freqs) in *. set (t := tree_of n ins root).
  pose proof (inv_leaf _ _ _ I) as Hleaf. cbn [map zsum] in Hleaf. fold n in Hleaf.
  assert (Hcount : forall i, count_eq i (leaves t) = usedb freqs i).
  { intros i. specialize (Hleaf i). rewrite lcnt_pair in Hleaf. fold t in Hleaf. lia. }
  destruct (leaves_facts freqs (leaves t) Hcount) as [Hnd [Hr [Hin Hlen]]].
  pose proof (inv_ids _ _ _ I) as Hids. apply Forall_cons_iff in Hids. destruct Hids as [Hroot _].
  unfold valid_idb in Hroot. cbn [snd] in Hroot. apply andb_true_iff in Hroot. destruct Hroot as [Hr0 Hr1].
  apply Z.leb_le in Hr0. apply Z.ltb_lt in Hr1. fold n in Hr1.
  (* the tree is not a single leaf *)
  destruct t as [k | l r] eqn:Et.
  { exfalso. assert (Hle : (length (filter (fun f => Z.ltb 0 f) freqs) <= 1)%nat).
    { apply filter_pos_le1. intros i j Hi Hj Hpi Hpj.
      assert (Hi' : In (Z.of_nat i) [k]) by (apply Hin; rewrite Nat2Z.id; unfold n, zlen; split; [lia | exact Hpi]).
      assert (Hj' : In (Z.of_nat j) [k]) by (apply Hin; rewrite Nat2Z.id; unfold n, zlen; split; [lia | exact Hpj]).
      destruct Hi' as [Hi' | []]. destruct Hj' as [Hj' | []]. lia. }
    unfold used, zlen in Hu. lia. }
  exists l, r. split; [reflexivity|]. split; [|exact Hcount].
  pose proof (nodes_leaves (Node l r)) as [Hnodes Hl1]. pose proof (height_lt_leaves (Node l r)) as Hh.
  replace (S (2 * length freqs)) with (nodes (Node l r) + (S (2 * length freqs) - nodes (Node l r)))%nat by lia.
  rewrite (walk_tree n ins Hn0 (inv_wf _ _ _ I) (Node l r) root Et ltac:(lia) 0 [] (zeros (length freqs))).
  - destruct (S (2 * length freqs) - nodes (Node l r))%nat as [|f] eqn:Ef; [lia|]. reflexivity.
  - unfold zlen. rewrite zeros_length. reflexivity.
  - lia.
  - unfold i32_max. unfold n, zlen in *. lia.
Qed.

(* ---- what the walk leaves in lengths[] ---- *)
Lemma lsum_zeros g n : g 0 = 0 -> lsum g (zeros n) = 0.
Proof. intros Hg. unfold lsum, zeros. induction n as [|n IH]; cbn [repeat map zsum]; [reflexivity | rewrite Hg, IH; reflexivity]. Qed.

Lemma kraft_lsum L lens : kraft lens L = lsum (kterm L) lens.
Proof. unfold lsum. induction lens as [|x tl IH]; cbn [kraft map zsum]; [reflexivity | rewrite IH; reflexivity]. Qed.

Lemma Forall2_nth {A B} (R : A -> B -> Prop) da db : forall la lb, length la = length lb ->
  (forall i, (i < length la)%nat -> R (nth i la da) (nth i lb db)) -> Forall2 R la lb.
Proof.
  induction la as [|a ta IH]; intros [|b tb] Hl H; cbn [length] in Hl; try lia; constructor.
  - exact (H 0%nat ltac:(cbn [length]; lia)).
  - apply IH; [lia|]. intros i Hi. exact (H (S i) ltac:(cbn [length]; lia)).
Qed.

Lemma gK_succ_kterm L lens : 0 <= L -> Forall (fun x => 0 <= x) lens -> Forall (fun x => x <= L) lens ->
  lsum (gK (L + 1)) lens = 2 * lsum (kterm L) lens.
Proof.
  intros HL Hnn Hall. unfold lsum. induction lens as [|x tl IH]; cbn [map zsum]; [reflexivity|].
  apply Forall_cons_iff in Hnn. destruct Hnn as [Hx0 Hnn]. apply Forall_cons_iff in Hall. destruct Hall as [Hx Hall].
  rewrite (IH Hnn Hall). unfold gK, kterm. destruct (0 <? x); [|lia].
  replace (Z.min x (L + 1)) with x by lia. replace (L + 1 - x) with (L - x + 1) by lia. rewrite pow2_succ by lia. lia.
Qed.

Lemma gC_succ_zero L lens : Forall (fun x => x <= L) lens -> lsum (gC (L + 1)) lens = 0.
Proof.
  intros Hall. unfold lsum. induction Hall as [|x tl Hx _ IH]; cbn [map zsum]; [reflexivity|].
  rewrite IH. unfold gC. replace (L + 1 <=? x) with false by (symmetry; apply Z.leb_gt; lia). reflexivity.
Qed.

Lemma tree_lengths_facts : forall freqs l r L, 1 <= L ->
  (forall i, count_eq i (leaves (Node l r)) = usedb freqs i) -> height (Node l r) <= 255 ->
  let lens0 := assign (Node l r) 0 (zeros (length freqs)) in
  length lens0 = length freqs
  /\ Forall (fun x => 0 <= x) lens0
  /\ Forall2 (fun f x => (0 <? f) = (0 <? x)) freqs lens0
  /\ (Forall (fun x => x <= L) lens0 -> kraft lens0 L = 2 ^ L)
  /\ 2 ^ L <= lsum (gK L) lens0
  /\ lsum (gK L) lens0 - 2 ^ L + (if 0 <? lsum (gC L) lens0 then 1 else 0) <= lsum (gC L) lens0.
Proof.
  intros freqs l r L HL Hcount Hh lens0. set (t := Node l r) in *.
  destruct (leaves_facts freqs (leaves t) Hcount) as [Hnd [Hr [Hin Hlen]]].
  assert (Hr' : Forall (fun i => 0 <= i < zlen (zeros (length freqs))) (leaves t)).
  { unfold zlen. rewrite zeros_length. exact Hr. }
  assert (Hz : forall i, In i (leaves t) -> nth (Z.to_nat i) (zeros (length freqs)) 0 = 0) by (intros; apply nth_zeros).
  assert (Hsum : forall g, g 0 = 0 -> lsum g lens0 = dsum g t 0).
  { intros g Hg. unfold lens0. rewrite (assign_sum g Hg t 0 _ Hnd Hr' Hz ltac:(lia) ltac:(lia)). rewrite lsum_zeros by exact Hg. lia. }
  assert (Hl0 : length lens0 = length freqs) by (unfold lens0; rewrite assign_length; apply zeros_length).
  assert (Hval : forall i, (i < length freqs)%nat ->
            (0 < nth i freqs 0 -> 1 <= nth i lens0 0 <= 255) /\ (nth i freqs 0 <= 0 -> nth i lens0 0 = 0)).
  { intros i Hi. split.
    - intros Hp. assert (Hil : In (Z.of_nat i) (leaves t)) by (apply Hin; rewrite Nat2Z.id; unfold zlen; lia).
      pose proof (assign_leaf_value t 0 (zeros (length freqs)) (Z.of_nat i) Hnd Hr' Hil ltac:(lia) ltac:(lia)) as B.
      rewrite Nat2Z.id in B. fold lens0 in B. unfold t in B at 1. lia.
    - intros Hp. unfold lens0. rewrite assign_outside.
      + apply nth_zeros.
      + intros Hil. apply Hin in Hil. rewrite Nat2Z.id in Hil. lia.
      + eapply Forall_impl; [|exact Hr]. intros a Ha. cbv beta in Ha. lia. }
  assert (Hnn : Forall (fun x => 0 <= x) lens0).
  { apply Forall_forall. intros x Hx. destruct (In_nth _ _ 0 Hx) as [i [Hi Ei]]. rewrite Hl0 in Hi.
    destruct (Hval i Hi) as [H1 H2]. destruct (Z.lt_ge_cases 0 (nth i freqs 0)); [specialize (H1 ltac:(lia)) | specialize (H2 ltac:(lia))]; lia. }
  split; [exact Hl0|]. split; [exact Hnn|]. split; [|split; [|]].
  - apply (Forall2_nth _ 0 0); [rewrite Hl0; reflexivity|]. intros i Hi. destruct (Hval i Hi) as [H1 H2].
    destruct (Z.lt_ge_cases 0 (nth i freqs 0)) as [Hp | Hp].
    + specialize (H1 Hp). replace (0 <? nth i freqs 0) with true by (symmetry; apply Z.ltb_lt; lia). symmetry. apply Z.ltb_lt. lia.
    + specialize (H2 ltac:(lia)). rewrite H2. apply Z.ltb_ge. lia.
  - (* no length above L: Kraft equality, through the limit L + 1 at which nothing is clamped *)
    intros Hall. rewrite kraft_lsum.
    pose proof (gC_succ_zero L lens0 Hall) as HgC.
    pose proof (gK_succ_kterm L lens0 ltac:(lia) Hnn Hall) as HgK.
    destruct (root_kraft (L + 1) l r ltac:(lia)) as [A B]. fold t in A, B.
    rewrite <- (Hsum (gK (L + 1))) in A, B by reflexivity.
    rewrite <- (Hsum (gC (L + 1))) in B by (unfold gC; replace (L + 1 <=? 0) with false by (symmetry; apply Z.leb_gt; lia); reflexivity).
    rewrite HgC in B. cbn [Z.ltb Z.compare] in B. rewrite HgK in A, B. rewrite pow2_succ in A, B by lia. lia.
  - destruct (root_kraft L l r HL) as [A B]. fold t in A, B.
    rewrite <- (Hsum (gK L)) in A, B by reflexivity.
    rewrite <- (Hsum (gC L)) in B by (unfold gC; replace (L <=? 0) with false by (symmetry; apply Z.leb_gt; lia); reflexivity).
    split; assumption.
Qed.

Lemma stream_codes_length lens : length (stream_codes lens) = length lens.
Proof.
  unfold stream_codes, canonical.
  assert (G : forall all rest seen, length (map2 rev_bits rest (canonical_from all seen rest)) = length rest).
  { intros all. induction rest as [|x tl IH]; intros seen; cbn [canonical_from map2 length]; [reflexivity | rewrite IH; reflexivity]. }
  apply G.
Qed.

(* ---- the theorems ---- *)
Definition depth_fits (freqs : list Z) : Prop := forall t, huff_tree freqs = Ok t -> height t <= 255.

Definition sorter_ok (sorter : list (Z * Z) -> list (Z * Z)) : Prop := forall l, Permutation (sorter l) l.

(* main statement with the one remaining hypothesis made explicit: the `depth as u8` cast loses nothing *)
Theorem huffman_ok_partial : forall sorter freqs L,
  sorter_ok sorter -> 1 <= L <= 15 ->
  Forall (fun f => 0 <= f) freqs -> zsum freqs < 2 ^ 32 -> zlen freqs <= 2 ^ L ->
  2 <= used freqs -> depth_fits freqs ->
  exists lens codes, build_huffman_tree sorter freqs L = Ok (true, lens, codes)
    /\ c14_prop freqs L true lens codes.
Proof.
  intros sorter freqs L Hsort HL Hnn Hs Hn Hu Hd.
  assert (Hp15 : 2 ^ L <= 32768) by (change 32768 with (2 ^ 15); apply Z.pow_le_mono_r; lia).
  destruct (tree_phase freqs ltac:(lia) Hnn ltac:(unfold u32_max; change (2 ^ 32) with 4294967296 in Hs; lia) Hu) as [l [r [Et [El Hc]]]].
  pose proof (Hd _ Et) as Hh.
  destruct (tree_lengths_facts freqs l r L ltac:(lia) Hc Hh) as [Hl0 [Hnn0 [HF2 [HK1 [HK2 HK3]]]]].
  destruct (limit_lengths_ok sorter freqs _ L HL Hl0 Hn (Hsort _) Hnn0 HF2 HK1 HK2 HK3) as [lens1 [Elim [Hl1 [Hused [Hunused Hk]]]]].
  assert (HF : Forall (fun x => 0 <= x <= L) lens1).
  { apply Forall_forall. intros x Hx. destruct (In_nth _ _ 0 Hx) as [i [Hi Ei]]. rewrite Hl1 in Hi.
    destruct (Z.lt_ge_cases 0 (nth i freqs 0)) as [Hp | Hp]; [specialize (Hused i Hi Hp) | specialize (Hunused i Hi ltac:(lia))]; lia. }
  unfold build_huffman_tree. replace (used freqs <=? 1) with false by (symmetry; apply Z.leb_gt; lia).
  rewrite El. cbn [bind]. rewrite Elim. cbn [bind]. rewrite (assign_codes_ok lens1 L HL HF Hk). cbn [bind].
  exists lens1, (stream_codes lens1). split; [reflexivity|].
  unfold c14_prop. split; [exact Hl1|]. split.
  { rewrite stream_codes_length. exact Hl1. }
  split; [intros Hlt; unfold used_count in Hlt; unfold used, zlen in Hu; lia|].
  intros _. split; [reflexivity|]. split; [exact Hused|]. split; [exact Hunused|]. split; [exact Hk | reflexivity].
Qed.

(* at most 256 used symbols (every 16- and 256-symbol alphabet; the 280-symbol alphabet unless more than 256 of its
   symbols occur): the depth cannot reach 256, no hypothesis left *)
Lemma depth_fits_small freqs : zlen freqs <= 32768 -> Forall (fun f => 0 <= f) freqs -> zsum freqs <= u32_max ->
  2 <= used freqs -> used freqs <= 256 -> depth_fits freqs.
Proof.
  intros Hn Hnn Hs Hu H256 t Et.
  destruct (tree_phase freqs Hn Hnn Hs Hu) as [l [r [Et' [_ Hc]]]]. rewrite Et in Et'. inversion Et'; subst t.
  pose proof (height_lt_leaves (Node l r)) as Hh.
  (* number of leaves = number of used symbols *)
  destruct (leaves_facts freqs _ Hc) as [Hnd [Hr [Hin _]]].
  assert (Hle : (length (leaves (Node l r)) <= length (filter (fun f => Z.ltb 0 f) freqs))%nat).
  { (* inject the leaves into the positions of the positive entries *)
    assert (G : forall (fr : list Z) (ls : list Z) s, NoDup ls ->
              (forall i, In i ls -> s <= i < s + zlen fr /\ 0 < nth (Z.to_nat (i - s)) fr 0) ->
              (length ls <= length (filter (fun f => Z.ltb 0 f) fr))%nat).
    { induction fr as [|x tl IH]; intros ls s Hnd' H.
      - destruct ls as [|a ls]; [cbn; lia|]. destruct (H a (or_introl eq_refl)) as [Ha _]. unfold zlen in Ha. cbn in Ha. lia.
      - cbn [filter]. destruct (in_dec Z.eq_dec s ls) as [Hs' | Hs'].
        + destruct (in_split _ _ Hs') as [l1 [l2 E]]. subst ls.
          destruct (H s Hs') as [_ Hp]. rewrite Z.sub_diag in Hp. cbn in Hp.
          replace (0 <? x) with true by (symmetry; apply Z.ltb_lt; lia). cbn [length].
          pose proof (NoDup_remove_1 _ _ _ Hnd') as Hnd1. pose proof (NoDup_remove_2 _ _ _ Hnd') as Hnd2.
          specialize (IH (l1 ++ l2) (s + 1) Hnd1). rewrite app_length in *. cbn [length].
          assert (length l1 + length l2 <= length (filter (fun f => Z.ltb 0 f) tl))%nat; [|lia].
          apply IH. intros i Hi. assert (Hi' : In i (l1 ++ s :: l2)) by (apply in_app_or in Hi; apply in_or_app; destruct Hi; [left | right; right]; assumption).
          destruct (H i Hi') as [Hr' Hp']. rewrite zlen_cons in Hr'.
          assert (i <> s) by (intros ->; contradiction).
          split; [lia|]. replace (Z.to_nat (i - s)) with (S (Z.to_nat (i - (s + 1)))) in Hp' by lia. exact Hp'.
        + assert (length ls <= length (filter (fun f => Z.ltb 0 f) tl))%nat.
          { apply (IH ls (s + 1) Hnd'). intros i Hi. destruct (H i Hi) as [Hr' Hp']. rewrite zlen_cons in Hr'.
            assert (i <> s) by (intros ->; contradiction).
            split; [lia|]. replace (Z.to_nat (i - s)) with (S (Z.to_nat (i - (s + 1)))) in Hp' by lia. exact Hp'. }
          destruct (0 <? x); cbn [length]; lia. }
    apply (G freqs _ 0 Hnd). intros i Hi. apply Hin in Hi. rewrite Z.sub_0_r. split; [lia | tauto]. }
  unfold used, zlen in H256. lia.
Qed.

Theorem huffman_ok : forall sorter freqs L,
  sorter_ok sorter -> 1 <= L <= 15 ->
  Forall (fun f => 0 <= f) freqs -> zsum freqs < 2 ^ 32 -> zlen freqs <= 2 ^ L ->
  2 <= used freqs -> used freqs <= 256 ->
  exists lens codes, build_huffman_tree sorter freqs L = Ok (true, lens, codes)
    /\ c14_prop freqs L true lens codes.
Proof.
  intros sorter freqs L Hsort HL Hnn Hs Hn Hu H256.
  apply huffman_ok_partial; try assumption.
  assert (Hp15 : 2 ^ L <= 32768) by (change 32768 with (2 ^ 15); apply Z.pow_le_mono_r; lia).
  apply depth_fits_small; try assumption; [lia|]. unfold u32_max. change (2 ^ 32) with 4294967296 in Hs. lia.
Qed.

(* fewer than two used symbols: the flag is lowered and both arrays are zeroed, for every input *)
Theorem huffman_few : forall sorter freqs L, used freqs <= 1 ->
  build_huffman_tree sorter freqs L = Ok (false, zeros (length freqs), zeros (length freqs))
  /\ c14_prop freqs L false (zeros (length freqs)) (zeros (length freqs)).
Proof.
  intros sorter freqs L Hu. unfold build_huffman_tree. replace (used freqs <=? 1) with true by (symmetry; apply Z.leb_le; lia).
  split; [reflexivity|]. unfold c14_prop. rewrite zeros_length. split; [reflexivity|]. split; [reflexivity|].
  split; [intros _; split; [reflexivity | split; intros i; apply nth_zeros]|].
  intros H2. unfold used_count in H2. unfold used, zlen in Hu. lia.
Qed.

(* the checker accepts what the model produces (so `c14_ok` is not vacuous on the model's side either) *)
Corollary huffman_ok_checked : forall sorter freqs L,
  sorter_ok sorter -> 1 <= L <= 15 ->
  Forall (fun f => 0 <= f) freqs -> zsum freqs < 2 ^ 32 -> zlen freqs <= 2 ^ L ->
  2 <= used freqs -> used freqs <= 256 ->
  exists lens codes, build_huffman_tree sorter freqs L = Ok (true, lens, codes) /\ c14_ok freqs L true lens codes = true.
Proof.
  intros. destruct (huffman_ok sorter freqs L) as [lens [codes [E P]]]; try assumption.
  exists lens, codes. split; [exact E | apply c14_ok_spec; exact P].
Qed.

(* the stable sort used by the oracle is an admissible sorter *)
Lemma insert_by_key_perm x l : Permutation (insert_by_key x l) (x :: l).
Proof.
  induction l as [|y tl IH]; cbn [insert_by_key]; [apply Permutation_refl|].
  destruct (snd x <? snd y); [apply Permutation_refl|].
  eapply Permutation_trans; [apply perm_skip; exact IH | apply perm_swap].
Qed.
Lemma stable_sorter_ok : sorter_ok stable_sorter.
Proof.
  intros l. unfold stable_sorter.
  assert (G : forall l acc, Permutation (fold_left (fun acc x => insert_by_key x acc) l acc) (acc ++ l)).
  { induction l0 as [|x tl IH]; intros acc; cbn [fold_left]; [rewrite app_nil_r; apply Permutation_refl|].
    eapply Permutation_trans; [apply IH|]. eapply Permutation_trans; [apply Permutation_app_tail; apply insert_by_key_perm|].
    cbn [app]. apply Permutation_middle. }
  apply (G l []).
Qed.


(* non-vacuity: the encoder's two real limits on histograms that need the limit (Fibonacci counts) *)
Example huffman_ok_instance_7 :
  build_huffman_tree stable_sorter [1; 1; 2; 3; 5; 8; 13; 21; 34; 55; 0; 0; 0; 0; 0; 0] 7
  = Ok (true, [7; 7; 7; 7; 6; 6; 4; 3; 2; 1; 0; 0; 0; 0; 0; 0], [31; 95; 63; 127; 15; 47; 7; 3; 1; 0; 0; 0; 0; 0; 0; 0]).
Proof. vm_compute. reflexivity. Qed.

Example huffman_ok_instance_15 :
  build_huffman_tree stable_sorter [1; 1; 2; 3; 5; 8; 13; 21; 34; 55; 89; 144; 233; 377; 610; 987; 1597; 2584; 0; 0] 15
  = Ok (true, [15; 15; 15; 15; 14; 14; 12; 11; 10; 9; 8; 7; 6; 5; 4; 3; 2; 1; 0; 0],
        [8191; 24575; 16383; 32767; 4095; 12287; 2047; 1023; 511; 255; 127; 63; 31; 15; 7; 3; 1; 0; 0; 0]).
Proof. vm_compute. reflexivity. Qed.

(* the hypotheses of huffman_ok hold for that histogram *)
Example huffman_ok_hypotheses :
  let freqs := [1; 1; 2; 3; 5; 8; 13; 21; 34; 55; 0; 0; 0; 0; 0; 0] in
  Forall (fun f => 0 <= f) freqs /\ zsum freqs < 2 ^ 32 /\ zlen freqs <= 2 ^ 7 /\ 2 <= used freqs /\ used freqs <= 256.
Proof. cbv zeta. split; [repeat constructor; lia|]. vm_compute. repeat split; congruence. Qed.
