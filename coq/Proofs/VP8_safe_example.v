(* C03 for the VP8 key-frame decoder, part 7: the theorem VP8_safe_main.vp8_decode_total at work, by computation.
   Every outcome class the theorem allows occurs (so neither disjunct is vacuous), on valid, truncated and garbage payloads:
   Ok frames (also from garbage bytes), IoError, Vp8MagicInvalid, ColorSpaceInvalid, BitStreamError, UnsupportedFeature -- and no
   other.  `outcome` = (status, width, height, |Y|, |U|): status 0 = Ok, else Model.Vp8Parse.vp8p_err_code, 100 = panic, 101 = fuel. *)
From Coq Require Import ZArith List Lia.
From WebP Require Import Lib.Res Lib.ZBits Model.Vp8Parse Model.Vp8Decode Proofs.VP8_frame_main Proofs.VP8_safe_defs Proofs.VP8_safe_main.
Import ListNotations.
Open Scope Z_scope.

Definition outcome (r : res (Z * Z * list Z * list Z * list Z)) : Z * Z * Z * Z * Z :=
  match r with
  | Ok (w, h, y, u, v) => (0, w, h, Z.of_nat (length y), Z.of_nat (length u))
  | Err e => (vp8p_err_code e, 0, 0, 0, 0)
  | Panic _ => (100, 0, 0, 0, 0)
  | OutOfFuel => (101, 0, 0, 0, 0)
  end.

(* garbage after a well-formed 10-byte start: a 33 x 17 key frame, first partition 30 zero bytes, then noise -- decodes *)
Definition garbage_frame : list Z := [240; 2; 0; 157; 1; 42; 33; 0; 17; 0] ++ repeat 0 30 ++ [255; 0; 0; 90; 100; 3; 4; 5; 6; 200] ++ repeat 77 300.

Example outcomes :
  outcome (decode_frame ex_payload) = (0, 39, 2, 78, 20) /\                                        (* libwebp-written frame *)
  outcome (decode_frame garbage_frame) = (0, 33, 17, 561, 153) /\                                   (* noise: still a frame *)
  outcome (decode_frame ([16; 1; 0; 157; 1; 42; 1; 0; 1; 0] ++ repeat 0 9)) = (0, 1, 1, 1, 1) /\    (* smallest frame *)
  outcome (decode_frame width0_payload) = (0, 0, 16, 0, 0) /\                                       (* width 0: Ok, empty planes *)
  outcome (decode_frame (firstn 100 ex_payload)) = (1, 0, 0, 0, 0) /\                               (* truncated: IoError *)
  outcome (decode_frame []) = (1, 0, 0, 0, 0) /\
  outcome (decode_frame ([16; 1; 0; 157; 1; 43; 200; 0; 100; 0] ++ repeat 0 8 ++ repeat 90 50)) = (2, 0, 0, 0, 0) /\   (* Vp8MagicInvalid *)
  outcome (decode_frame ([16; 1; 0; 157; 1; 42; 200; 0; 100; 0] ++ [128] ++ repeat 0 7 ++ repeat 90 50)) = (3, 0, 0, 0, 0) /\ (* ColorSpaceInvalid *)
  outcome (decode_frame ([16; 1; 0; 157; 1; 42; 200; 0; 100; 0] ++ repeat 0 8 ++ repeat 90 50)) = (7, 0, 0, 0, 0) /\   (* first partition exhausted: BitStreamError *)
  outcome (decode_frame ([16; 1; 0; 157; 1; 42; 1; 0; 1; 0] ++ repeat 0 8)) = (7, 0, 0, 0, 0) /\   (* token partition empty *)
  outcome (decode_frame (repeat 255 40)) = (1, 0, 0, 0, 0) /\                                       (* inter frame, partitions beyond the payload *)
  outcome (decode_frame ([17; 1; 0] ++ repeat 0 30)) = (9, 0, 0, 0, 0).                              (* inter frame: UnsupportedFeature *)
Proof. vm_compute. repeat split. Qed.

(* the same through the theorem: for these byte strings the result is Err or an Ok frame with consistent planes *)
Example garbage_frame_by_theorem :
  exists w h yp up vp, decode_frame garbage_frame = Ok (w, h, yp, up, vp) /\ frame_result_ok w h yp up vp.
Proof.
  assert (Hb : Forall byte garbage_frame).
  { unfold garbage_frame. repeat (apply Forall_app; split).
    all: try (apply Forall_forall; intros x Hx; apply repeat_spec in Hx; subst x; unfold byte; lia).
    all: repeat constructor; unfold byte; lia. }
  destruct (vp8_decode_total garbage_frame Hb ltac:(vm_compute; reflexivity)) as [(e & E) | H]; [|exact H].
  exfalso. assert (O : outcome (decode_frame garbage_frame) = (0, 33, 17, 561, 153)) by (vm_compute; reflexivity).
  rewrite E in O. cbn [outcome] in O. inversion O.
Qed.
