(* C01 / C03, inverse transforms of the lossless decoder, layer 0: the pixel representation.

   The Model (Model/LosslessTransform.v, Model/Lossless.v) keeps an image as a flat byte array, four bytes per pixel in
   the order R, G, B, A (the `&mut [u8]` of the Rust code); the specification (Spec/VP8L.v) as an array of ARGB words.
   `repr bytes px n` : the first n pixels of `bytes` are the n cells of `px`.
   Also here: get / set lemmas of the 4-byte accessors, invariant rules for the Model's loop combinators
   (for_range, for_range_rev), a general characterisation of the specification's two-dimensional scan loops
   (`scan2d_spec`), and row-major index arithmetic. *)
From Coq Require Import ZArith NArith List Bool Lia.
From WebP Require Import Lib.Res Lib.Arr Lib.ZBits Gen.Kernels Model.LosslessLib Model.LosslessTransform
  Proofs.Lossless_HuffmanSafe Proofs.Lossless_CopyWithin.
From WebP Require Spec.VP8L Proofs.C04_arr.
Module V := WebP.Spec.VP8L.
Import ListNotations.
Open Scope Z_scope.

Ltac Zify.zify_post_hook ::= Z.div_mod_to_equations.

(* ------------------------------------------------------------------------------------------------ *)
(** * channels of an ARGB word *)
Lemma land255' x : Z.land x 255 = x mod 256.
Proof. change 255 with (Z.ones 8). rewrite Z.land_ones by lia. reflexivity. Qed.

Lemma RED_byte p : byte (V.RED p).
Proof. unfold byte, V.RED. rewrite land255'. lia. Qed.
Lemma GREEN_byte p : byte (V.GREEN p).
Proof. unfold byte, V.GREEN. rewrite land255'. lia. Qed.
Lemma BLUE_byte p : byte (V.BLUE p).
Proof. unfold byte, V.BLUE. rewrite land255'. lia. Qed.
Lemma ALPHA_byte p : byte (V.ALPHA p).
Proof. unfold byte, V.ALPHA. rewrite land255'. lia. Qed.

Lemma argb_channels a r g b : byte a -> byte r -> byte g -> byte b ->
  V.ALPHA (V.argb a r g b) = a /\ V.RED (V.argb a r g b) = r /\ V.GREEN (V.argb a r g b) = g /\ V.BLUE (V.argb a r g b) = b.
Proof.
  unfold byte. intros Ha Hr Hg Hb. unfold V.ALPHA, V.RED, V.GREEN, V.BLUE, V.argb.
  rewrite !Z.shiftr_div_pow2 by lia. change (2 ^ 24) with 16777216. change (2 ^ 16) with 65536. change (2 ^ 8) with 256.
  rewrite !land255'. repeat split; lia.
Qed.

Lemma argb_range a r g b : byte a -> byte r -> byte g -> byte b -> 0 <= V.argb a r g b < 2 ^ 32.
Proof. unfold byte, V.argb. change (2 ^ 32) with 4294967296. lia. Qed.

Lemma argb_of_channels p : 0 <= p < 2 ^ 32 -> V.argb (V.ALPHA p) (V.RED p) (V.GREEN p) (V.BLUE p) = p.
Proof.
  change (2 ^ 32) with 4294967296. intros Hp. unfold V.ALPHA, V.RED, V.GREEN, V.BLUE, V.argb.
  rewrite !Z.shiftr_div_pow2 by lia. change (2 ^ 24) with 16777216. change (2 ^ 16) with 65536. change (2 ^ 8) with 256.
  rewrite !land255'. lia.
Qed.

(* a pixel as the Model holds it: (R, G, B, A) *)
Definition q4 (p : Z) : px4 := (V.RED p, V.GREEN p, V.BLUE p, V.ALPHA p).
Definition px_of (q : px4) : Z := let '(r, g, b, a) := q in V.argb a r g b.
Definition bytes4 (q : px4) : Prop := let '(r, g, b, a) := q in byte r /\ byte g /\ byte b /\ byte a.

Lemma q4_bytes p : bytes4 (q4 p).
Proof. unfold q4, bytes4. auto using RED_byte, GREEN_byte, BLUE_byte, ALPHA_byte. Qed.

Lemma q4_px_of q : bytes4 q -> q4 (px_of q) = q.
Proof.
  destruct q as [[[r g] b] a]. intros (Hr & Hg & Hb & Ha). unfold q4, px_of.
  destruct (argb_channels a r g b Ha Hr Hg Hb) as (E1 & E2 & E3 & E4). rewrite E1, E2, E3, E4. reflexivity.
Qed.

Lemma px_of_q4 p : 0 <= p < 2 ^ 32 -> px_of (q4 p) = p.
Proof. intros H. unfold px_of, q4. apply argb_of_channels. exact H. Qed.

Lemma px_of_range q : bytes4 q -> 0 <= px_of q < 2 ^ 32.
Proof. destruct q as [[[r g] b] a]. intros (Hr & Hg & Hb & Ha). apply argb_range; assumption. Qed.

Lemma q4_inj p p' : 0 <= p < 2 ^ 32 -> 0 <= p' < 2 ^ 32 -> q4 p = q4 p' -> p = p'.
Proof. intros H H' E. rewrite <- (px_of_q4 p H), <- (px_of_q4 p' H'), E. reflexivity. Qed.

(* ------------------------------------------------------------------------------------------------ *)
(** * the representation relation *)
(* pixel i of a byte buffer as an ARGB word *)
Definition pxl (bytes : arr) (i : Z) : Z :=
  V.argb (az bytes (4 * i + 3)) (az bytes (4 * i)) (az bytes (4 * i + 1)) (az bytes (4 * i + 2)).
(* the four bytes of pixel i *)
Definition cell (bytes : arr) (i : Z) : px4 :=
  (az bytes (4 * i), az bytes (4 * i + 1), az bytes (4 * i + 2), az bytes (4 * i + 3)).

Definition repr (bytes px : arr) (n : Z) : Prop :=
  4 * n <= zlen bytes /\ Z.of_N (alen px) = n /\
  (forall k, 0 <= k < 4 * n -> byte (az bytes k)) /\
  (forall i, 0 <= i < n -> V.pix px i = pxl bytes i).

Lemma pxl_px_of bytes i : pxl bytes i = px_of (cell bytes i).
Proof. reflexivity. Qed.

Lemma repr_len bytes px n : repr bytes px n -> 4 * n <= zlen bytes.
Proof. intros H. apply H. Qed.
Lemma repr_alen bytes px n : repr bytes px n -> Z.of_N (alen px) = n.
Proof. intros H. apply H. Qed.
Lemma repr_nonneg bytes px n : repr bytes px n -> 0 <= n.
Proof. intros (_ & H & _). lia. Qed.

Lemma repr_cell bytes px n i : repr bytes px n -> 0 <= i < n ->
  cell bytes i = q4 (V.pix px i) /\ 0 <= V.pix px i < 2 ^ 32.
Proof.
  intros (_ & _ & Hb & Hp) Hi. rewrite (Hp i Hi), pxl_px_of.
  assert (B : bytes4 (cell bytes i)) by (unfold cell, bytes4; repeat split; apply Hb; lia).
  split; [symmetry; apply q4_px_of; exact B | apply px_of_range; exact B].
Qed.

Lemma pair4_inj {A B C D} (a a' : A) (b b' : B) (c c' : C) (d d' : D) :
  (a, b, c, d) = (a', b', c', d') -> a = a' /\ b = b' /\ c = c' /\ d = d'.
Proof. intros E. injection E as E0 E1 E2 E3. auto. Qed.

Lemma repr_az4 bytes px n i : repr bytes px n -> 0 <= i < n ->
  az bytes (4 * i) = V.RED (V.pix px i) /\ az bytes (4 * i + 1) = V.GREEN (V.pix px i) /\
  az bytes (4 * i + 2) = V.BLUE (V.pix px i) /\ az bytes (4 * i + 3) = V.ALPHA (V.pix px i).
Proof. intros H Hi. destruct (repr_cell _ _ _ _ H Hi) as [E _]. apply pair4_inj. exact E. Qed.

Lemma repr_range bytes px n i : repr bytes px n -> 0 <= i < n -> 0 <= V.pix px i < 2 ^ 32.
Proof. intros H Hi. apply (repr_cell _ _ _ _ H Hi). Qed.

(* the converse: cells that hold the channels of words below 2^32 *)
Lemma repr_intro bytes px n : 4 * n <= zlen bytes -> Z.of_N (alen px) = n ->
  (forall i, 0 <= i < n -> cell bytes i = q4 (V.pix px i) /\ 0 <= V.pix px i < 2 ^ 32) -> repr bytes px n.
Proof.
  intros Hl Ha H. split; [exact Hl|]. split; [exact Ha|]. split.
  - intros k Hk. destruct (H (k / 4) ltac:(lia)) as [E _]. pose proof (q4_bytes (V.pix px (k / 4))) as B.
    rewrite <- E in B. unfold cell, bytes4 in B. destruct B as (B0 & B1 & B2 & B3).
    assert (Hc : k = 4 * (k / 4) \/ k = 4 * (k / 4) + 1 \/ k = 4 * (k / 4) + 2 \/ k = 4 * (k / 4) + 3) by lia.
    destruct Hc as [Hc | [Hc | [Hc | Hc]]]; rewrite Hc; assumption.
  - intros i Hi. destruct (H i Hi) as [E R]. rewrite pxl_px_of, E. symmetry. apply px_of_q4. exact R.
Qed.

(* the byte of channel c (0 = R, 1 = G, 2 = B, 3 = A) *)
Definition chan (c : Z) (p : Z) : Z :=
  if c =? 0 then V.RED p else if c =? 1 then V.GREEN p else if c =? 2 then V.BLUE p else V.ALPHA p.

Lemma chan_byte c p : byte (chan c p).
Proof. unfold chan. destruct (c =? 0); [apply RED_byte|]. destruct (c =? 1); [apply GREEN_byte|]. destruct (c =? 2); [apply BLUE_byte | apply ALPHA_byte]. Qed.

Lemma repr_chan bytes px n i c : repr bytes px n -> 0 <= i < n -> 0 <= c < 4 -> az bytes (4 * i + c) = chan c (V.pix px i).
Proof.
  intros H Hi Hc. destruct (repr_cell _ _ _ _ H Hi) as [E _]. unfold cell, q4 in E. inversion E as [[E0 E1 E2 E3]].
  assert (C : c = 0 \/ c = 1 \/ c = 2 \/ c = 3) by lia.
  destruct C as [-> | [-> | [-> | ->]]]; unfold chan; cbn [Z.eqb Pos.eqb]; rewrite ?Z.add_0_r; assumption.
Qed.

Lemma cell_chan bytes i p : (forall c, 0 <= c < 4 -> az bytes (4 * i + c) = chan c p) -> cell bytes i = q4 p.
Proof.
  intros H. unfold cell, q4. rewrite <- (Z.add_0_r (4 * i)) at 1.
  rewrite (H 0), (H 1), (H 2), (H 3) by lia. reflexivity.
Qed.

(* ------------------------------------------------------------------------------------------------ *)
(** * the Model's 4-byte accessors *)
Lemma get4_ok a i : 0 <= i -> i + 4 <= zlen a -> get4 a i = Ok (az a i, az a (i + 1), az a (i + 2), az a (i + 3)).
Proof. intros H0 H1. unfold get4. rewrite !zget_ok by lia. reflexivity. Qed.

Lemma get4_cell a i : 0 <= i -> 4 * i + 4 <= zlen a -> get4 a (4 * i) = Ok (cell a i).
Proof. intros H0 H1. rewrite get4_ok by lia. reflexivity. Qed.

Lemma set4_ok a i p : 0 <= i -> i + 4 <= zlen a ->
  exists a', set4 a i p = Ok a' /\ zlen a' = zlen a /\
    forall k, 0 <= k -> az a' k = if k =? i then fst (fst (fst p)) else if k =? i + 1 then snd (fst (fst p))
                                  else if k =? i + 2 then snd (fst p) else if k =? i + 3 then snd p else az a k.
Proof.
  intros H0 H1. destruct p as [[[b0 b1] b2] b3]. unfold set4. cbn [fst snd].
  destruct (zset_ok a i b0 ltac:(lia)) as (a1 & E1 & L1 & Z1). rewrite E1. cbn [bind].
  destruct (zset_ok a1 (i + 1) b1 ltac:(lia)) as (a2 & E2 & L2 & Z2). rewrite E2. cbn [bind].
  destruct (zset_ok a2 (i + 2) b2 ltac:(lia)) as (a3 & E3 & L3 & Z3). rewrite E3. cbn [bind].
  destruct (zset_ok a3 (i + 3) b3 ltac:(lia)) as (a4 & E4 & L4 & Z4). rewrite E4.
  exists a4. split; [reflexivity|]. split; [lia|]. intros k Hk.
  rewrite Z4, Z3, Z2, Z1 by lia.
  destruct (Z.eqb_spec k i); destruct (Z.eqb_spec k (i + 1)); destruct (Z.eqb_spec k (i + 2)); destruct (Z.eqb_spec k (i + 3));
    try reflexivity; lia.
Qed.

(* writing pixel i *)
Lemma set4_cell a i p : 0 <= i -> 4 * i + 4 <= zlen a ->
  exists a', set4 a (4 * i) p = Ok a' /\ zlen a' = zlen a /\ cell a' i = p /\
    (forall k, 0 <= k -> (k < 4 * i \/ 4 * i + 4 <= k) -> az a' k = az a k) /\
    (forall j, 0 <= j -> j <> i -> cell a' j = cell a j).
Proof.
  intros H0 H1. destruct (set4_ok a (4 * i) p ltac:(lia) ltac:(lia)) as (a' & E & L & Hz).
  exists a'. split; [exact E|]. split; [exact L|]. split; [|split].
  - destruct p as [[[b0 b1] b2] b3]. cbn [fst snd] in Hz. unfold cell. rewrite !Hz by lia.
    rewrite Z.eqb_refl.
    replace (4 * i + 1 =? 4 * i) with false by (symmetry; apply Z.eqb_neq; lia). rewrite Z.eqb_refl.
    replace (4 * i + 2 =? 4 * i) with false by (symmetry; apply Z.eqb_neq; lia).
    replace (4 * i + 2 =? 4 * i + 1) with false by (symmetry; apply Z.eqb_neq; lia). rewrite Z.eqb_refl.
    replace (4 * i + 3 =? 4 * i) with false by (symmetry; apply Z.eqb_neq; lia).
    replace (4 * i + 3 =? 4 * i + 1) with false by (symmetry; apply Z.eqb_neq; lia).
    replace (4 * i + 3 =? 4 * i + 2) with false by (symmetry; apply Z.eqb_neq; lia). rewrite Z.eqb_refl. reflexivity.
  - intros k Hk Hout. rewrite Hz by lia.
    replace (k =? 4 * i) with false by (symmetry; apply Z.eqb_neq; lia).
    replace (k =? 4 * i + 1) with false by (symmetry; apply Z.eqb_neq; lia).
    replace (k =? 4 * i + 2) with false by (symmetry; apply Z.eqb_neq; lia).
    replace (k =? 4 * i + 3) with false by (symmetry; apply Z.eqb_neq; lia). reflexivity.
  - intros j Hj Hne.
    assert (G : forall k, 0 <= k -> (k < 4 * i \/ 4 * i + 4 <= k) -> az a' k = az a k).
    { intros k Hk Hout. rewrite Hz by lia.
      replace (k =? 4 * i) with false by (symmetry; apply Z.eqb_neq; lia).
      replace (k =? 4 * i + 1) with false by (symmetry; apply Z.eqb_neq; lia).
      replace (k =? 4 * i + 2) with false by (symmetry; apply Z.eqb_neq; lia).
      replace (k =? 4 * i + 3) with false by (symmetry; apply Z.eqb_neq; lia). reflexivity. }
    unfold cell. rewrite !G by lia. reflexivity.
Qed.

Lemma repr_get4 bytes px n i : repr bytes px n -> 0 <= i < n -> get4 bytes (4 * i) = Ok (q4 (V.pix px i)).
Proof.
  intros H Hi. pose proof (repr_len _ _ _ H). rewrite get4_cell by lia.
  f_equal. apply (repr_cell _ _ _ _ H Hi).
Qed.

(* ------------------------------------------------------------------------------------------------ *)
(** * invariant rules for the Model's loops *)
Lemma for_range_inv {St} (P : Z -> St -> Prop) (f : Z -> St -> res St) lo hi s : lo <= hi -> P lo s ->
  (forall j s0, lo <= j < hi -> P j s0 -> exists s1, f j s0 = Ok s1 /\ P (j + 1) s1) ->
  exists s', for_range lo hi f s = Ok s' /\ P hi s'.
Proof.
  intros Hle H0 Hstep. unfold for_range.
  destruct (for_loop_inv P f 1 (Z.to_nat (hi - lo)) lo s H0) as (s' & E & HP).
  - intros j s0 (m & Hm & Hj) HPj. apply Hstep; [lia | exact HPj].
  - exists s'. split; [exact E|]. replace (lo + Z.of_nat (Z.to_nat (hi - lo)) * 1) with hi in HP by lia. exact HP.
Qed.

(* for i in (lo..hi).rev(): P (i + 1) before the body at i, P i after *)
Lemma for_range_rev_inv {St} (P : Z -> St -> Prop) (f : Z -> St -> res St) lo hi s : lo <= hi -> P hi s ->
  (forall j s0, lo <= j < hi -> P (j + 1) s0 -> exists s1, f j s0 = Ok s1 /\ P j s1) ->
  exists s', for_range_rev lo hi f s = Ok s' /\ P lo s'.
Proof.
  intros Hle H0 Hstep. unfold for_range_rev.
  destruct (for_loop_inv (fun i s => P (i + 1) s) f (-1) (Z.to_nat (hi - lo)) (hi - 1) s) as (s' & E & HP).
  - replace (hi - 1 + 1) with hi by lia. exact H0.
  - intros j s0 (m & Hm & Hj) HPj. destruct (Hstep j s0 ltac:(lia) HPj) as (s1 & E1 & H1).
    exists s1. split; [exact E1|]. replace (j + -1 + 1) with j by lia. exact H1.
  - exists s'. split; [exact E|]. replace (hi - 1 + Z.of_nat (Z.to_nat (hi - lo)) * -1 + 1) with lo in HP by lia. exact HP.
Qed.

(* for_loop with stride 4 over pixels: position = 4 * (pixel index) *)
Lemma for_loop4_inv {St} (P : Z -> St -> Prop) (f : Z -> St -> res St) (n : nat) i0 s : P i0 s ->
  (forall j s0, i0 <= j < i0 + Z.of_nat n -> P j s0 -> exists s1, f (4 * j) s0 = Ok s1 /\ P (j + 1) s1) ->
  exists s', for_loop n (4 * i0) 4 f s = Ok s' /\ P (i0 + Z.of_nat n) s'.
Proof.
  intros H0 Hstep.
  destruct (for_loop_inv (fun pos s => exists j, pos = 4 * j /\ P j s) f 4 n (4 * i0) s) as (s' & E & j & Ej & HP).
  - exists i0. split; [reflexivity | exact H0].
  - intros pos s0 (m & Hm & Hpos) (j & Ej & HPj). assert (j = i0 + m) by lia. subst j.
    destruct (Hstep (i0 + m) s0 ltac:(lia) HPj) as (s1 & E1 & H1). rewrite Ej. exists s1. split; [exact E1|].
    exists (i0 + m + 1). split; [lia | exact H1].
  - exists s'. split; [exact E|]. replace (i0 + Z.of_nat n) with j by lia. exact HP.
Qed.

(* ------------------------------------------------------------------------------------------------ *)
(** * row-major indices *)
Lemma idx_range w h x y : 0 <= x < w -> 0 <= y < h -> 0 <= y * w + x < w * h.
Proof. intros Hx Hy. split; [nia|]. assert (y * w + x < (y + 1) * w) by lia. assert ((y + 1) * w <= h * w) by nia. lia. Qed.

Lemma idx_inj w x y x' y' : 0 <= x < w -> 0 <= x' < w -> y * w + x = y' * w + x' -> x = x' /\ y = y'.
Proof.
  intros Hx Hx' E. assert (y = y').
  { destruct (Z.lt_trichotomy y y') as [H | [H | H]]; [exfalso | exact H | exfalso].
    - assert ((y + 1) * w <= y' * w) by nia. lia.
    - assert ((y' + 1) * w <= y * w) by nia. lia. }
  subst y'. split; [lia | reflexivity].
Qed.

Lemma idx_decomp w h i : 0 < w -> 0 <= i < w * h -> exists x y, 0 <= x < w /\ 0 <= y < h /\ i = y * w + x.
Proof.
  intros Hw Hi. exists (i mod w), (i / w). pose proof (Z.mod_pos_bound i w Hw). pose proof (Z.div_mod i w ltac:(lia)).
  split; [lia|]. split; [|lia]. split; [apply Z.div_pos; lia|]. apply Z.div_lt_upper_bound; lia.
Qed.

(* ------------------------------------------------------------------------------------------------ *)
(** * the specification's scan loops *)
(* for y, for x: img[y*w+x] := G x y img[y*w+x] img   where G reads only cells before y*w+x of its last argument:
   every cell of the result satisfies the recurrence with the RESULT as last argument. *)
Lemma scan2d_spec w h (G : Z -> Z -> Z -> arr -> Z) img : 0 < w -> 0 <= h ->
  (forall x y v a b, 0 <= x < w -> 0 <= y < h -> (forall j, 0 <= j < y * w + x -> V.pix a j = V.pix b j) -> G x y v a = G x y v b) ->
  let out := V.for_range h (fun y => V.for_range w (fun x a => V.set_pix a (y * w + x) (G x y (V.pix a (y * w + x)) a))) img in
  alen out = alen img /\
  (forall x y, 0 <= x < w -> 0 <= y < h -> V.pix out (y * w + x) = G x y (V.pix img (y * w + x)) out) /\
  (forall j, w * h <= j -> V.pix out j = V.pix img j).
Proof.
  intros Hw Hh Hloc out.
  set (Q := fun (i : Z) (a : arr) => alen a = alen img /\ (forall j, i <= j -> V.pix a j = V.pix img j) /\
              (forall x y, 0 <= x < w -> 0 <= y < h -> y * w + x < i -> V.pix a (y * w + x) = G x y (V.pix img (y * w + x)) a)).
  assert (HQ : Q (h * w) out).
  { unfold out. apply (C04_arr.for_range_inv (fun y a => Q (y * w) a)); [lia | |].
    - unfold Q. split; [reflexivity|]. split; [reflexivity|]. intros x y Hx Hy Hlt. exfalso. nia.
    - intros y0 a Hy0 Ha. replace ((y0 + 1) * w) with (y0 * w + w) by lia.
      apply (C04_arr.for_range_inv (fun x a0 => Q (y0 * w + x) a0)); [lia | rewrite Z.add_0_r; exact Ha|].
      intros x0 a0 Hx0 (Hl & Hhi & Hlo). set (i0 := y0 * w + x0) in *.
      assert (Hi0 : 0 <= i0) by (unfold i0; nia).
      rewrite Z.add_assoc. fold i0. remember (G x0 y0 (V.pix a0 i0) a0) as v eqn:Hv.
      unfold Q. split; [rewrite C04_arr.alen_set_pix; exact Hl|]. split.
      + intros j Hj. rewrite C04_arr.pix_set_pix by lia. replace (i0 =? j) with false by (symmetry; apply Z.eqb_neq; lia). apply Hhi. lia.
      + intros x y Hx Hy Hlt. assert (Hxy : 0 <= y * w + x) by nia.
        assert (Hagree : forall j, 0 <= j < i0 -> V.pix a0 j = V.pix (V.set_pix a0 i0 v) j).
        { intros j Hj. rewrite C04_arr.pix_set_pix by lia. replace (i0 =? j) with false by (symmetry; apply Z.eqb_neq; lia). reflexivity. }
        rewrite C04_arr.pix_set_pix by lia. destruct (Z.eqb_spec i0 (y * w + x)) as [E|Hne].
        * unfold i0 in E. destruct (idx_inj w x0 y0 x y Hx0 Hx E) as [-> ->]. fold i0.
          transitivity (G x y (V.pix img i0) a0); [rewrite Hv, (Hhi i0) by lia; reflexivity|].
          apply Hloc; [assumption | assumption |]. intros j Hj. apply Hagree. exact Hj.
        * rewrite Hlo by (try assumption; lia). apply Hloc; [assumption | assumption |]. intros j Hj. apply Hagree. lia. }
  destruct HQ as (Hl & Hhi & Hlo). split; [exact Hl|]. split.
  - intros x y Hx Hy. apply Hlo; [assumption | assumption |]. pose proof (idx_range w h x y Hx Hy). lia.
  - intros j Hj. apply Hhi. lia.
Qed.

(* cells of a freshly made array *)
Lemma pix_amake n j : V.pix (amake n) j = 0.
Proof. unfold V.pix, araw, amake. cbn [adata]. rewrite PM.gempty. reflexivity. Qed.

(* ------------------------------------------------------------------------------------------------ *)
(** * slices and block writes with Z indices *)
Lemma nth_map_seq {A} (f : nat -> A) n k d : (k < n)%nat -> nth k (map f (seq 0 n)) d = f k.
Proof.
  intros Hk. rewrite (nth_indep _ d (f 0%nat)) by (rewrite map_length, seq_length; exact Hk).
  rewrite map_nth, seq_nth by exact Hk. reflexivity.
Qed.

Lemma zslice_ok a s l : 0 <= s -> 0 <= l -> s + l <= zlen a ->
  zslice a s l = Ok (map (fun k => az a (s + Z.of_nat k)) (seq 0 (Z.to_nat l))).
Proof.
  intros Hs Hl Hsl. unfold zslice, zlen in *.
  replace ((s <? 0) || (l <? 0)) with false by (symmetry; apply orb_false_iff; split; apply Z.ltb_ge; lia).
  unfold aslice. replace (Z.to_N s + Z.to_N l <=? alen a)%N with true by (symmetry; apply N.leb_le; lia).
  cbn [of_option]. f_equal. rewrite slice_aux_spec by lia. rewrite app_nil_r.
  replace (N.to_nat (Z.to_N l)) with (Z.to_nat l) by lia.
  apply map_ext. intros j. unfold az. f_equal. lia.
Qed.

Lemma zwrite_ok a s L : 0 <= s -> s + Z.of_nat (length L) <= zlen a ->
  exists a', zwrite a s L = Ok a' /\ zlen a' = zlen a /\
    forall k, 0 <= k -> az a' k = if (s <=? k) && (k <? s + Z.of_nat (length L)) then nth (Z.to_nat (k - s)) L 0 else az a k.
Proof.
  intros Hs Hl. unfold zwrite, zlen in *. replace (s <? 0) with false by (symmetry; apply Z.ltb_ge; lia).
  unfold awrite. replace (Z.to_N s + N.of_nat (length L) <=? alen a)%N with true by (symmetry; apply N.leb_le; lia).
  cbn [of_option]. eexists. split; [reflexivity|]. cbn [alen]. split; [reflexivity|].
  intros k Hk. unfold az at 1. unfold araw. cbn [adata]. rewrite write_aux_find.
  destruct (Z.leb_spec s k) as [H1|H1]; [destruct (Z.ltb_spec k (s + Z.of_nat (length L))) as [H2|H2]|]; cbn [andb].
  - replace ((Z.to_N s <=? Z.to_N k) && (Z.to_N k <? Z.to_N s + N.of_nat (length L)))%N with true
      by (symmetry; apply andb_true_iff; split; [apply N.leb_le | apply N.ltb_lt]; lia).
    f_equal. lia.
  - replace ((Z.to_N s <=? Z.to_N k) && (Z.to_N k <? Z.to_N s + N.of_nat (length L)))%N with false
      by (symmetry; apply andb_false_iff; right; apply N.ltb_ge; lia).
    reflexivity.
  - replace ((Z.to_N s <=? Z.to_N k) && (Z.to_N k <? Z.to_N s + N.of_nat (length L)))%N with false
      by (symmetry; apply andb_false_iff; left; apply N.leb_gt; lia).
    reflexivity.
Qed.

(* the four bytes of pixel i as a list *)
Definition cl (p : Z) : list Z := [V.RED p; V.GREEN p; V.BLUE p; V.ALPHA p].

Lemma zslice_cell bytes px n i : repr bytes px n -> 0 <= i < n -> zslice bytes (i * 4) 4 = Ok (cl (V.pix px i)).
Proof.
  intros H Hi. pose proof (repr_len _ _ _ H). rewrite zslice_ok by lia.
  destruct (repr_az4 _ _ _ _ H Hi) as (E0 & E1 & E2 & E3).
  change (Z.to_nat 4) with 4%nat. cbn [seq map]. unfold cl. rewrite <- E0, <- E1, <- E2, <- E3.
  replace (i * 4 + Z.of_nat 0) with (4 * i) by lia. replace (i * 4 + Z.of_nat 1) with (4 * i + 1) by lia.
  replace (i * 4 + Z.of_nat 2) with (4 * i + 2) by lia. replace (i * 4 + Z.of_nat 3) with (4 * i + 3) by lia. reflexivity.
Qed.

(* ------------------------------------------------------------------------------------------------ *)
(** * per-channel operations of the specification on (R, G, B, A) quadruples *)
Lemma q4_per_channel f p q : (forall a b, byte a -> byte b -> byte (f a b)) ->
  q4 (V.per_channel f p q) = zip4 f (q4 p) (q4 q).
Proof.
  intros Hf. unfold V.per_channel, q4, zip4.
  destruct (argb_channels (f (V.ALPHA p) (V.ALPHA q)) (f (V.RED p) (V.RED q)) (f (V.GREEN p) (V.GREEN q)) (f (V.BLUE p) (V.BLUE q)))
    as (E1 & E2 & E3 & E4); try (apply Hf; auto using RED_byte, GREEN_byte, BLUE_byte, ALPHA_byte).
  rewrite E1, E2, E3, E4. reflexivity.
Qed.

Lemma per_channel_range f p q : (forall a b, byte a -> byte b -> byte (f a b)) -> 0 <= V.per_channel f p q < 2 ^ 32.
Proof. intros Hf. unfold V.per_channel. apply argb_range; apply Hf; auto using RED_byte, GREEN_byte, BLUE_byte, ALPHA_byte. Qed.

Lemma wadd8_byte a b : byte (wadd8 a b).
Proof. unfold wadd8, byte. lia. Qed.

Lemma q4_add_pixels p q : q4 (V.add_pixels p q) = add4 (q4 p) (q4 q).
Proof. unfold V.add_pixels, add4. apply (q4_per_channel (fun a b => (a + b) mod 256)). intros a b _ _. apply wadd8_byte. Qed.

Lemma add_pixels_range p q : 0 <= V.add_pixels p q < 2 ^ 32.
Proof. unfold V.add_pixels. apply per_channel_range. intros a b _ _. apply wadd8_byte. Qed.

Lemma chan_q4 c p : 0 <= c < 4 ->
  chan c p = (if c =? 0 then fst (fst (fst (q4 p))) else if c =? 1 then snd (fst (fst (q4 p))) else if c =? 2 then snd (fst (q4 p)) else snd (q4 p)).
Proof. intros _. reflexivity. Qed.

Lemma chan_add_pixels c p q : 0 <= c < 4 -> chan c (V.add_pixels p q) = wadd8 (chan c p) (chan c q).
Proof.
  intros Hc. rewrite chan_q4, q4_add_pixels by exact Hc. unfold q4, add4, zip4, chan. cbn [fst snd].
  destruct (c =? 0); [reflexivity|]. destruct (c =? 1); [reflexivity|]. destruct (c =? 2); reflexivity.
Qed.
