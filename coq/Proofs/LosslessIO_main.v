(* Property C10, second half, for the whole lossless decoder (Model/LosslessIO.v = LosslessDecoder::decode_frame over a reader
   whose fill_buf fails once; tied to lossless.rs by the c10lossless correspondence: outcome class, pixel hash and the NUMBER of
   fill_buf calls, for a fault at the call indices of the fault-free run under eight classes of schedules).

   decode_frame_io data sched fa W h implicit buf = (result, number of fill_buf calls made).

   (a) decode_frame_io_no_fault      : without a fault the result is Model/Lossless.decode_frame's, for every input and schedule;
   (b) lossless_fault_surfaces       : a fault at a call index k the fault-free run reaches makes the call return Err EIoFault -- not Ok,
                                       not a panic, not another error -- after exactly k + 1 fill_buf calls; a fault at an index the
                                       fault-free run does not reach changes nothing (same result, same number of calls);
   (c) lossless_fault_never_partial  : for a stream the specification decodes (hypotheses of Properties/C01's R.frame_matches_spec)
                                       the call returns either the I/O error or exactly the specification's pixels.
   No hypothesis on the data in (a), (b): they also cover the runs that end in a decoding error or a modelled panic. *)
From Coq Require Import ZArith List Bool Lia.
From WebP Require Import Lib.Res Lib.Arr Lib.ZBits Model.LosslessLib Model.Lossless.
From WebP Require Model.BitReader.
From WebP Require Import Model.BitReaderIO Model.LosslessIO Proofs.BitReaderIO_laws Proofs.LosslessIO_laws Proofs.LosslessIO_refine.
From WebP Require Proofs.C04_bits Proofs.C01_top.
Import ListNotations.
Open Scope Z_scope.

(* ---------- (a) ---------- *)
Theorem decode_frame_io_no_fault : forall data sched W h implicit buf,
  fst (decode_frame_io data sched None W h implicit buf) = Lossless.decode_frame data sched W h implicit buf.
Proof.
  intros. unfold decode_frame_io, decode_frame_arr_io, Lossless.decode_frame.
  destruct (Sim_decode_frame data sched W h implicit (of_list buf)) as [E _]. unfold outW in E.
  destruct (decode_frame_m W h implicit (of_list buf) (init_io data sched None)) as [x r]. cbn [fst snd] in *.
  rewrite <- E. destruct x; reflexivity.
Qed.

Lemma decode_frame_io_calls_nonneg : forall data sched W h implicit buf,
  0 <= snd (decode_frame_io data sched None W h implicit buf).
Proof.
  intros. unfold decode_frame_io, decode_frame_arr_io.
  destruct (FaultLaw_decode_frame W h implicit (of_list buf) (init_io data sched None) 0 eq_refl) as (_ & C & _).
  destruct (decode_frame_m W h implicit (of_list buf) (init_io data sched None)) as [x r]. cbn [fst snd calls init_io] in *. exact C.
Qed.

(* ---------- (b) ---------- *)
Theorem lossless_fault_surfaces : forall data sched W h implicit buf k,
  (0 <= k < snd (decode_frame_io data sched None W h implicit buf) ->
     decode_frame_io data sched (Some k) W h implicit buf = (Err EIoFault, k + 1))
  /\ (k < 0 \/ snd (decode_frame_io data sched None W h implicit buf) <= k ->
     decode_frame_io data sched (Some k) W h implicit buf = decode_frame_io data sched None W h implicit buf).
Proof.
  intros. unfold decode_frame_io, decode_frame_arr_io.
  destruct (FaultLaw_decode_frame W h implicit (of_list buf) (init_io data sched None) k eq_refl) as (_ & _ & F1 & F2).
  change (arm k (init_io data sched None)) with (init_io data sched (Some k)) in *.
  destruct (decode_frame_m W h implicit (of_list buf) (init_io data sched None)) as [x r]. cbn [fst snd calls init_io] in *.
  split.
  - intros Hk. destruct (F1 Hk) as (r'' & E & C & _). rewrite E. cbn [rmap bind]. rewrite C. reflexivity.
  - intros Hk. rewrite (F2 Hk). reflexivity.
Qed.

(* whatever the index: the I/O error after k + 1 calls, or exactly the fault-free outcome *)
Corollary lossless_fault_outcome : forall data sched W h implicit buf k,
  decode_frame_io data sched (Some k) W h implicit buf = (Err EIoFault, k + 1)
  \/ decode_frame_io data sched (Some k) W h implicit buf = decode_frame_io data sched None W h implicit buf.
Proof.
  intros. destruct (lossless_fault_surfaces data sched W h implicit buf k) as [F1 F2].
  destruct (Z_lt_ge_dec k 0) as [Hn|Hn]; [right; apply F2; lia|].
  destruct (Z_lt_ge_dec k (snd (decode_frame_io data sched None W h implicit buf))) as [Hl|Hl]; [left; apply F1; lia | right; apply F2; lia].
Qed.

Corollary lossless_fault_beyond : forall data sched W h implicit buf k,
  k < 0 \/ snd (decode_frame_io data sched None W h implicit buf) <= k ->
  fst (decode_frame_io data sched (Some k) W h implicit buf) = Lossless.decode_frame data sched W h implicit buf.
Proof.
  intros. rewrite (proj2 (lossless_fault_surfaces data sched W h implicit buf k) H). apply decode_frame_io_no_fault.
Qed.

(* any fault setting: never Ok with something else than the fault-free pixels, never a panic the fault-free run does not have *)
Corollary lossless_fault_no_new_outcome : forall data sched fa W h implicit buf,
  fst (decode_frame_io data sched fa W h implicit buf) = Err EIoFault
  \/ fst (decode_frame_io data sched fa W h implicit buf) = Lossless.decode_frame data sched W h implicit buf.
Proof.
  intros. destruct fa as [k|].
  - destruct (lossless_fault_outcome data sched W h implicit buf k) as [E|E]; rewrite E.
    + left. reflexivity.
    + right. apply decode_frame_io_no_fault.
  - right. apply decode_frame_io_no_fault.
Qed.

(* ---------- (c) never success with partially decoded data ---------- *)
Module V := WebP.Proofs.C04_bits.V.

Theorem lossless_fault_never_partial : forall data sched W h buf pixels k,
  Forall byte data -> Z.of_nat (length buf) = 4 * (W * h) ->
  V.decode_rgba data = Some (W, h, pixels) -> C01_top.codes_in_format data ->
  (forall s0, V.read_header (V.Stream [] data) = Some (W, h, s0) -> C01_top.in_format W h s0) ->
  let n := snd (decode_frame_io data sched None W h false buf) in
  decode_frame_io data sched None W h false buf = (Ok pixels, n)
  /\ (0 <= k < n -> decode_frame_io data sched (Some k) W h false buf = (Err EIoFault, k + 1))
  /\ (k < 0 \/ n <= k -> decode_frame_io data sched (Some k) W h false buf = (Ok pixels, n)).
Proof.
  intros data sched W h buf pixels k Hb Hl Hd Hc Hf n.
  pose proof (C01_top.decode_frame_matches_spec data sched W h buf pixels Hb Hl Hd Hc Hf) as E.
  rewrite <- decode_frame_io_no_fault in E.
  assert (E0 : decode_frame_io data sched None W h false buf = (Ok pixels, n)).
  { subst n. destruct (decode_frame_io data sched None W h false buf) as [x c]. cbn [fst snd] in *. rewrite E. reflexivity. }
  destruct (lossless_fault_surfaces data sched W h false buf k) as [F1 F2]. fold n in F1, F2.
  split; [exact E0|]. split; [exact F1|]. intros Hk. rewrite (F2 Hk). exact E0.
Qed.

Theorem lossless_fault_never_partial_implicit : forall data sched W h buf pixels k,
  Forall byte data -> Z.of_nat (length buf) = 4 * (W * h) ->
  V.decode_implicit_rgba W h data = Some pixels -> C01_top.codes_in_format_implicit W h data -> C01_top.in_format W h (V.Stream [] data) ->
  let n := snd (decode_frame_io data sched None W h true buf) in
  decode_frame_io data sched None W h true buf = (Ok pixels, n)
  /\ (0 <= k < n -> decode_frame_io data sched (Some k) W h true buf = (Err EIoFault, k + 1))
  /\ (k < 0 \/ n <= k -> decode_frame_io data sched (Some k) W h true buf = (Ok pixels, n)).
Proof.
  intros data sched W h buf pixels k Hb Hl Hd Hc Hf n.
  pose proof (C01_top.decode_frame_implicit_matches_spec data sched W h buf pixels Hb Hl Hd Hc Hf) as E.
  rewrite <- decode_frame_io_no_fault in E.
  assert (E0 : decode_frame_io data sched None W h true buf = (Ok pixels, n)).
  { subst n. destruct (decode_frame_io data sched None W h true buf) as [x c]. cbn [fst snd] in *. rewrite E. reflexivity. }
  destruct (lossless_fault_surfaces data sched W h true buf k) as [F1 F2]. fold n in F1, F2.
  split; [exact E0|]. split; [exact F1|]. intros Hk. rewrite (F2 Hk). exact E0.
Qed.

(* for a spec-valid stream and ANY fault setting the call returns the I/O error or exactly the specification's pixels *)
Corollary lossless_io_error_or_spec_pixels : forall data sched fa W h buf pixels,
  Forall byte data -> Z.of_nat (length buf) = 4 * (W * h) ->
  V.decode_rgba data = Some (W, h, pixels) -> C01_top.codes_in_format data ->
  (forall s0, V.read_header (V.Stream [] data) = Some (W, h, s0) -> C01_top.in_format W h s0) ->
  fst (decode_frame_io data sched fa W h false buf) = Err EIoFault \/ fst (decode_frame_io data sched fa W h false buf) = Ok pixels.
Proof.
  intros data sched fa W h buf pixels Hb Hl Hd Hc Hf.
  destruct (lossless_fault_no_new_outcome data sched fa W h false buf) as [E|E]; [left; exact E|].
  right. rewrite E. exact (C01_top.decode_frame_matches_spec data sched W h buf pixels Hb Hl Hd Hc Hf).
Qed.

(* ---------- statement tests ---------- *)
(* the F3 witness of Proofs/C01_top.frame_example (2x1 image, 11 bytes) in windows of 1, 2, 1 bytes and then the whole rest:
   17 fill_buf calls; a fault at each of them surfaces after k + 1 calls; beyond them nothing changes; through a Cursor 10 calls *)
Definition ex_data : list Z := [47; 1; 0; 0; 16; 56; 50; 89; 68; 255; 67].
Definition ex_px : list Z := [0; 100; 0; 255; 0; 200; 0; 255].

Example lossless_fault_example :
  decode_frame_io ex_data [1; 2; 1] None 2 1 false (repeat 7 8) = (Ok ex_px, 17)
  /\ forallb (fun k => match decode_frame_io ex_data [1; 2; 1] (Some k) 2 1 false (repeat 7 8) with
                       | (Err EIo, c) => c =? k + 1 | _ => false end)
             [0; 1; 2; 3; 4; 5; 6; 7; 8; 9; 10; 11; 12; 13; 14; 15; 16] = true
  /\ decode_frame_io ex_data [1; 2; 1] (Some 17) 2 1 false (repeat 7 8) = (Ok ex_px, 17)
  /\ decode_frame_io ex_data [] None 2 1 false (repeat 7 8) = (Ok ex_px, 10)
  /\ decode_frame_io ex_data [] (Some 9) 2 1 false (repeat 7 8) = (Err EIoFault, 10).
Proof. repeat split; vm_compute; reflexivity. Qed.

(* a truncated stream: the fault-free run ends in BitStreamError after 11 calls; a fault at the last of them (index 10) is reported instead *)
Example lossless_fault_example_truncated :
  decode_frame_io (firstn 8 ex_data) [1; 2; 1] None 2 1 false (repeat 7 8) = (Err EBitStreamError, 11)
  /\ decode_frame_io (firstn 8 ex_data) [1; 2; 1] (Some 10) 2 1 false (repeat 7 8) = (Err EIoFault, 11)
  /\ decode_frame_io (firstn 8 ex_data) [1; 2; 1] (Some 11) 2 1 false (repeat 7 8) = (Err EBitStreamError, 11).
Proof. repeat split; vm_compute; reflexivity. Qed.

Example lossless_fault_hypotheses_satisfiable :
  Forall byte ex_data /\ Z.of_nat (length (repeat 7 8)) = 4 * (2 * 1)
  /\ V.decode_rgba ex_data = Some (2, 1, ex_px) /\ C01_top.codes_in_format ex_data
  /\ (forall s0, V.read_header (V.Stream [] ex_data) = Some (2, 1, s0) -> C01_top.in_format 2 1 s0).
Proof.
  destruct C01_top.frame_example as (E1 & _ & E3 & E4 & _).
  split; [repeat constructor; unfold byte; lia|]. split; [reflexivity|]. split; [exact E1|]. split; [exact E3 | exact E4].
Qed.
