(* Proofs/VP8_predict_sub.v -- the ten 4x4 sub-block predictors of Model/Vp8Predict.v (and add_residue) against
   Spec.VP8.pred4. *)
From Coq Require Import ZArith List Bool Lia.
From WebP Require Import Lib.Res Lib.ZBits Gen.Kernels Gen.Tables Spec.VP8Tables Spec.VP8 Proofs.VP8_kernels
  Model.Vp8Predict Proofs.VP8_predict_base.
Import ListNotations.
Open Scope Z_scope.

(* the 13 neighbours of the 4x4 block at (x0, y0) of a workspace with the given stride, at the cells the Rust code
   reads: X above-left, A..H = T 0 .. T 7 above and above-right, I..L = L 0 .. L 3 left *)
Definition nbX (a : list Z) (x0 y0 s : Z) : Z := get a ((y0 - 1) * s + x0 - 1).
Definition nbT (a : list Z) (x0 y0 s k : Z) : Z := get a ((y0 - 1) * s + x0 + k).
Definition nbL (a : list Z) (x0 y0 s k : Z) : Z := get a ((y0 + k) * s + x0 - 1).
Definition pred4_ws (m : Z) (a : list Z) (x0 y0 s : Z) : list Z :=
  pred4 m (nbX a x0 y0 s) (nbT a x0 y0 s 0) (nbT a x0 y0 s 1) (nbT a x0 y0 s 2) (nbT a x0 y0 s 3)
          (nbT a x0 y0 s 4) (nbT a x0 y0 s 5) (nbT a x0 y0 s 6) (nbT a x0 y0 s 7)
          (nbL a x0 y0 s 0) (nbL a x0 y0 s 1) (nbL a x0 y0 s 2) (nbL a x0 y0 s 3).

(* the block fits the workspace (then so do the 13 neighbours and the 8-sample slice of top_pixels) *)
(* the block lies inside a row, below the first row and right of the first column, and the workspace has the four
   full rows of the block (what `chunks_exact_mut(stride).skip(y0).take(4)` needs); then the 13 neighbours and the
   8-sample slice of top_pixels are inside the workspace too *)
Definition fits4 (a : list Z) (x0 y0 s : Z) : Prop :=
  1 <= x0 /\ 1 <= y0 /\ x0 + 4 <= s /\ (y0 + 4) * s <= len a.

Lemma copyf4_ok a pos f : 0 <= pos -> pos + 4 <= len a ->
  copyf 4 a pos 0 f = Ok (set (set (set (set a pos (f 0)) (pos + 1) (f 1)) (pos + 2) (f 2)) (pos + 3) (f 3)).
Proof.
  intros H0 H1. cbn [copyf]. replace (pos + 0) with pos by lia.
  change (0 + 1) with 1. change (1 + 1) with 2. change (2 + 1) with 3.
  guards. reflexivity.
Qed.

Lemma copy4_ok a lo v0 v1 v2 v3 : 0 <= lo -> lo + 4 <= len a ->
  copy_from_slice a lo (lo + 3 + 1) [v0; v1; v2; v3] =
  Ok (set (set (set (set a lo v0) (lo + 1) v1) (lo + 2) v2) (lo + 3) v3).
Proof.
  intros H0 H1. unfold copy_from_slice. rewrite !ltb_false by lia. cbn [orb].
  change (len [v0; v1; v2; v3]) with 4. rewrite (eqb_true (lo + 3 + 1 - lo) 4) by lia. cbn [negb length].
  rewrite copyf4_ok by lia. reflexivity.
Qed.

(* name the 13 neighbours and rewrite every other spelling of their cells to the names *)
Ltac fold_nb a i0 N :=
  set (N := get a i0) in *;
  repeat match goal with
  | |- context [get a ?i] => replace (get a i) with N by (subst N; apply (f_equal (get a)); lia)
  end.

Ltac name_neighbours a x0 y0 s :=
  let X := fresh "X" in let A := fresh "A" in let B := fresh "B" in let C := fresh "C" in let D := fresh "D" in
  let E := fresh "E" in let F := fresh "F" in let G := fresh "G" in let H := fresh "H" in
  let I := fresh "I" in let J := fresh "J" in let K := fresh "K" in let L := fresh "L" in
  unfold nbX, nbT, nbL;
  fold_nb a ((y0 - 1) * s + x0 - 1) X;
  fold_nb a ((y0 - 1) * s + x0 + 0) A; fold_nb a ((y0 - 1) * s + x0 + 1) B;
  fold_nb a ((y0 - 1) * s + x0 + 2) C; fold_nb a ((y0 - 1) * s + x0 + 3) D;
  fold_nb a ((y0 - 1) * s + x0 + 4) E; fold_nb a ((y0 - 1) * s + x0 + 5) F;
  fold_nb a ((y0 - 1) * s + x0 + 6) G; fold_nb a ((y0 - 1) * s + x0 + 7) H;
  fold_nb a ((y0 + 0) * s + x0 - 1) I; fold_nb a ((y0 + 1) * s + x0 - 1) J;
  fold_nb a ((y0 + 2) * s + x0 - 1) K; fold_nb a ((y0 + 3) * s + x0 - 1) L.

Ltac gen_to_spec Hb :=
  repeat rewrite avg3_gen by (apply Hb; lia);
  repeat rewrite avg2_gen by (apply Hb; lia).

Lemma avg3_sym a b c : Spec.VP8.avg3 a b c = Spec.VP8.avg3 c b a.
Proof. unfold Spec.VP8.avg3. f_equal. lia. Qed.

(* the common end game: both sides are 16 writes over [a] *)
Ltac same_block x0 y0 s :=
  f_equal; apply list_ext; [ side | ];
  let j := fresh "j" in let Hj := fresh "Hj" in
  intros j Hj; revert Hj; lens; intros Hj;
  unfold put4x4;
  repeat rewrite get_set by side;
  split16 j x0 y0 s; decide_eqbs; try reflexivity; try apply avg3_sym.

Ltac nums :=
  change (0 + 1) with 1 in *; change (1 + 1) with 2 in *; change (2 + 1) with 3 in *;
  change (3 - 0) with 3 in *; change (3 - 1) with 2 in *; change (3 - 2) with 1 in *; change (3 - 3) with 0 in *.

Lemma get4_0 v0 v1 v2 v3 : get [v0; v1; v2; v3] 0 = v0. Proof. reflexivity. Qed.
Lemma get4_1 v0 v1 v2 v3 : get [v0; v1; v2; v3] 1 = v1. Proof. reflexivity. Qed.
Lemma get4_2 v0 v1 v2 v3 : get [v0; v1; v2; v3] 2 = v2. Proof. reflexivity. Qed.
Lemma get4_3 v0 v1 v2 v3 : get [v0; v1; v2; v3] 3 = v3. Proof. reflexivity. Qed.
Lemma sub7_0 v0 v1 v2 v3 v4 v5 v6 : sub [v0; v1; v2; v3; v4; v5; v6] 0 4 = [v0; v1; v2; v3]. Proof. reflexivity. Qed.
Lemma sub7_1 v0 v1 v2 v3 v4 v5 v6 : sub [v0; v1; v2; v3; v4; v5; v6] 1 4 = [v1; v2; v3; v4]. Proof. reflexivity. Qed.
Lemma sub7_2 v0 v1 v2 v3 v4 v5 v6 : sub [v0; v1; v2; v3; v4; v5; v6] 2 4 = [v2; v3; v4; v5]. Proof. reflexivity. Qed.
Lemma sub7_3 v0 v1 v2 v3 v4 v5 v6 : sub [v0; v1; v2; v3; v4; v5; v6] 3 4 = [v3; v4; v5; v6]. Proof. reflexivity. Qed.

Ltac guards4 :=
  repeat first
    [ rewrite usub_ok by side
    | rewrite rd_ok by side
    | rewrite wr_ok by side
    | rewrite copy4_ok by side
    | rewrite copyf4_ok by side
    | rewrite ltb_false by side
    | rewrite leb_false by side
    | progress cbn [bind orb negb rows] ].

Ltac unfold_pred4 :=
  unfold pred4_ws;
  cbv [pred4 B_DC_PRED B_TM_PRED B_VE_PRED B_HE_PRED B_RD_PRED B_VR_PRED B_LD_PRED B_VL_PRED B_HD_PRED B_HU_PRED
       Z.eqb Pos.eqb].

Ltac start4 Hb H :=
  let Hx := fresh "Hx" in let Hy := fresh "Hy" in let Hs := fresh "Hs" in let Hfit := fresh "Hfit" in
  let Hm := fresh "Hm" in
  intros Hb H; destruct H as (Hx & Hy & Hs & Hfit);
  match type of Hfit with (?y0 + 4) * ?s <= _ => assert (Hm : 0 <= (y0 - 1) * s) by nia end.

Theorem predict_bvrpred_spec a x0 y0 s :
  bytes a -> fits4 a x0 y0 s ->
  predict_bvrpred a x0 y0 s = Ok (put4x4 a x0 y0 s (pred4_ws B_VR_PRED a x0 y0 s)).
Proof.
  start4 Hb H.
  unfold predict_bvrpred, edge_pixels.
  guards4. cbv beta iota zeta. guards4.
  gen_to_spec Hb. unfold_pred4.
  name_neighbours a x0 y0 s.
  same_block x0 y0 s.
Qed.

Theorem predict_bvlpred_spec a x0 y0 s :
  bytes a -> fits4 a x0 y0 s ->
  predict_bvlpred a x0 y0 s = Ok (put4x4 a x0 y0 s (pred4_ws B_VL_PRED a x0 y0 s)).
Proof.
  start4 Hb H.
  unfold predict_bvlpred, top_pixels.
  guards4. cbv beta iota zeta. guards4.
  gen_to_spec Hb. unfold_pred4.
  name_neighbours a x0 y0 s.
  same_block x0 y0 s.
Qed.

Theorem predict_bhdpred_spec a x0 y0 s :
  bytes a -> fits4 a x0 y0 s ->
  predict_bhdpred a x0 y0 s = Ok (put4x4 a x0 y0 s (pred4_ws B_HD_PRED a x0 y0 s)).
Proof.
  start4 Hb H.
  unfold predict_bhdpred, edge_pixels.
  guards4. cbv beta iota zeta. guards4.
  gen_to_spec Hb. unfold_pred4.
  name_neighbours a x0 y0 s.
  same_block x0 y0 s.
Qed.

Theorem predict_bhupred_spec a x0 y0 s :
  bytes a -> fits4 a x0 y0 s ->
  predict_bhupred a x0 y0 s = Ok (put4x4 a x0 y0 s (pred4_ws B_HU_PRED a x0 y0 s)).
Proof.
  start4 Hb H.
  unfold predict_bhupred, left_pixels.
  guards4. cbv beta iota zeta. guards4.
  gen_to_spec Hb. unfold_pred4.
  name_neighbours a x0 y0 s.
  same_block x0 y0 s.
Qed.

Theorem predict_bvepred_spec a x0 y0 s :
  bytes a -> fits4 a x0 y0 s ->
  predict_bvepred a x0 y0 s = Ok (put4x4 a x0 y0 s (pred4_ws B_VE_PRED a x0 y0 s)).
Proof.
  start4 Hb H.
  unfold predict_bvepred, topleft_pixel, top_pixels.
  guards4. cbv beta iota zeta. guards4.
  gen_to_spec Hb. unfold_pred4.
  name_neighbours a x0 y0 s.
  same_block x0 y0 s.
Qed.

Theorem predict_bhepred_spec a x0 y0 s :
  bytes a -> fits4 a x0 y0 s ->
  predict_bhepred a x0 y0 s = Ok (put4x4 a x0 y0 s (pred4_ws B_HE_PRED a x0 y0 s)).
Proof.
  start4 Hb H.
  unfold predict_bhepred, topleft_pixel, left_pixels.
  guards4. cbv beta iota zeta. guards4. nums.
  rewrite ?get4_0, ?get4_1, ?get4_2, ?get4_3.
  gen_to_spec Hb. unfold_pred4.
  name_neighbours a x0 y0 s.
  same_block x0 y0 s.
Qed.

Theorem predict_bldpred_spec a x0 y0 s :
  bytes a -> fits4 a x0 y0 s ->
  predict_bldpred a x0 y0 s = Ok (put4x4 a x0 y0 s (pred4_ws B_LD_PRED a x0 y0 s)).
Proof.
  start4 Hb H.
  unfold predict_bldpred, top_pixels.
  guards4. cbv beta iota zeta. cbn [rows]. nums. rewrite sub7_0, sub7_1, sub7_2, sub7_3. guards4.
  gen_to_spec Hb. unfold_pred4.
  name_neighbours a x0 y0 s.
  same_block x0 y0 s.
Qed.

Theorem predict_brdpred_spec a x0 y0 s :
  bytes a -> fits4 a x0 y0 s ->
  predict_brdpred a x0 y0 s = Ok (put4x4 a x0 y0 s (pred4_ws B_RD_PRED a x0 y0 s)).
Proof.
  start4 Hb H.
  unfold predict_brdpred, edge_pixels.
  guards4. cbv beta iota zeta. cbn [rows]. nums. rewrite sub7_0, sub7_1, sub7_2, sub7_3. guards4.
  gen_to_spec Hb. unfold_pred4.
  name_neighbours a x0 y0 s.
  same_block x0 y0 s.
Qed.

(* reads inside a value that go through earlier writes *)
Ltac reads_through :=
  repeat rewrite get_set by side; decide_eqbs.

Ltac pick_nth :=
  match goal with
  | |- _ = nth (Z.to_nat ?k) ?l 0 => let n := eval vm_compute in (Z.to_nat k) in change (Z.to_nat k) with n; cbn [nth]
  end.

Theorem predict_tmpred4_spec a x0 y0 s :
  bytes a -> fits4 a x0 y0 s ->
  predict_tmpred a 4 x0 y0 s = Ok (put4x4 a x0 y0 s (pred4_ws B_TM_PRED a x0 y0 s)).
Proof.
  start4 Hb H.
  unfold predict_tmpred.
  guards4. change (Z.to_nat 4) with 4%nat. cbn [rows]. nums.
  rewrite Z.min_l by lia. change (Z.to_nat 4) with 4%nat.
  guards4. cbv beta.
  reads_through.
  rewrite !clamp255_spec.
  unfold_pred4.
  name_neighbours a x0 y0 s.
  same_block x0 y0 s.
  all: pick_nth; apply f_equal; lia.
Qed.

Lemma dc4_small A B C D I J K L :
  byte A -> byte B -> byte C -> byte D -> byte I -> byte J -> byte K -> byte L ->
  Z.shiftr (4 + A + B + C + D + I + J + K + L) 3 mod 256 = Z.shiftr (A + B + C + D + I + J + K + L + 4) 3.
Proof.
  unfold byte. intros. rewrite !Z.shiftr_div_pow2 by lia. change (2 ^ 3) with 8.
  replace (4 + A + B + C + D + I + J + K + L) with (A + B + C + D + I + J + K + L + 4) by lia.
  apply Z.mod_small. split; [apply Z.div_pos; lia | apply Z.div_lt_upper_bound; lia].
Qed.

Theorem predict_bdcpred_spec a x0 y0 s :
  bytes a -> fits4 a x0 y0 s ->
  predict_bdcpred a x0 y0 s = Ok (put4x4 a x0 y0 s (pred4_ws B_DC_PRED a x0 y0 s)).
Proof.
  start4 Hb H.
  unfold predict_bdcpred.
  guards4. cbn [sum_range sum_leftcol]. nums. guards4.
  rewrite (eqb_false s 0) by lia.
  assert (Hd : y0 + 4 <= len a / s) by (apply Z.div_le_lower_bound; lia).
  rewrite Z.max_r, Z.min_l by lia. change (Z.to_nat 4) with 4%nat.
  guards4. cbv beta.
  rewrite dc4_small by (apply Hb; lia).
  unfold_pred4.
  name_neighbours a x0 y0 s.
  same_block x0 y0 s.
Qed.

(* ------------------------------------------------------------------------------------------------------------ *)
(* add_residue                                                                                                  *)
(* ------------------------------------------------------------------------------------------------------------ *)
(* the 16 samples of the block at (x0, y0), raster order *)
Definition blk4 (a : list Z) (x0 y0 s : Z) : list Z :=
  let g := fun r c => get a ((y0 + r) * s + x0 + c) in
  [g 0 0; g 0 1; g 0 2; g 0 3; g 1 0; g 1 1; g 1 2; g 1 3; g 2 0; g 2 1; g 2 2; g 2 3; g 3 0; g 3 1; g 3 2; g 3 3].
Fixpoint zip_with (f : Z -> Z -> Z) (l1 l2 : list Z) : list Z :=
  match l1, l2 with x :: t1, y :: t2 => f x y :: zip_with f t1 t2 | _, _ => [] end.
(* Spec.VP8.store_row: clip255 (prediction + residual) *)
Definition add_clip (p r : Z) : Z := clip255 (p + r).

Lemma length16 (l : list Z) : length l = 16%nat ->
  exists r0 r1 r2 r3 r4 r5 r6 r7 r8 r9 r10 r11 r12 r13 r14 r15,
    l = [r0; r1; r2; r3; r4; r5; r6; r7; r8; r9; r10; r11; r12; r13; r14; r15].
Proof.
  intros H.
  do 16 (destruct l as [|? l]; [discriminate H|]).
  destruct l; [|discriminate H]. do 16 eexists. reflexivity.
Qed.

(* residues for which the i32 addition `a + i32::from(p)` cannot overflow *)
Definition res_ok (res : list Z) : Prop := Forall (fun r => r <= i32_max - 255) res.

Theorem add_residue_spec a res x0 y0 s :
  bytes a -> fits4 a x0 y0 s -> length res = 16%nat -> res_ok res ->
  add_residue a res y0 x0 s = Ok (put4x4 a x0 y0 s (zip_with add_clip (blk4 a x0 y0 s) res)).
Proof.
  intros Hb H Hl Hr. destruct H as (Hx & Hy & Hs & Hfit).
  assert (Hm : 0 <= (y0 - 1) * s) by nia.
  destruct (length16 res Hl) as (r0 & r1 & r2 & r3 & r4 & r5 & r6 & r7 & r8 & r9 & r10 & r11 & r12 & r13 & r14 & r15 & ->).
  unfold res_ok in Hr.
  repeat match goal with H : Forall _ (_ :: _) |- _ => inversion H; clear H; subst end.
  unfold i32_max in *.
  assert (Hg : forall i, 0 <= i < len a -> 0 <= get a i <= 255) by (intros i Hi; apply Hb; exact Hi).
  unfold add_residue. cbn [length chunks firstn skipn add_residue_rows add_residue_row]. unfold i32_max.
  repeat first
    [ rewrite rd_ok by side
    | rewrite wr_ok by side
    | progress cbn [bind]
    | match goal with |- context [2147483647 <? ?r + get a ?i] =>
        rewrite (ltb_false 2147483647 (r + get a i)) by (pose proof (Hg i ltac:(lia)); lia) end
    | rewrite ltb_false by side
    | progress reads_through ].
  rewrite !clamp255_spec.
  unfold blk4, zip_with, add_clip.
  same_block x0 y0 s.
  all: pick_nth; apply f_equal.
  all: match goal with |- ?r + get ?b ?i = get ?b ?j + ?r => replace i with j by lia; lia end.
Qed.

(* ------------------------------------------------------------------------------------------------------------ *)
(* the dispatch of predict_4x4: crate / bitstream mode numbers (Gen.Tables.vp8_B_xx = RFC 6386 numbering) against *)
(* the Spec's numbering (libwebp's): bmode_to_rfc                                                               *)
(* ------------------------------------------------------------------------------------------------------------ *)
Theorem predict_sub_spec m a x0 y0 s :
  0 <= m <= 9 -> bytes a -> fits4 a x0 y0 s ->
  predict_sub (bmode_to_rfc m) a x0 y0 s = Ok (put4x4 a x0 y0 s (pred4_ws m a x0 y0 s)).
Proof.
  intros Hm Hb Hf.
  assert (E : m = 0 \/ m = 1 \/ m = 2 \/ m = 3 \/ m = 4 \/ m = 5 \/ m = 6 \/ m = 7 \/ m = 8 \/ m = 9) by lia.
  destruct E as [-> | [-> | [-> | [-> | [-> | [-> | [-> | [-> | [-> | ->]]]]]]]]].
  - apply predict_bdcpred_spec; assumption.
  - apply predict_tmpred4_spec; assumption.
  - apply predict_bvepred_spec; assumption.
  - apply predict_bhepred_spec; assumption.
  - apply predict_brdpred_spec; assumption.
  - apply predict_bvrpred_spec; assumption.
  - apply predict_bldpred_spec; assumption.
  - apply predict_bvlpred_spec; assumption.
  - apply predict_bhdpred_spec; assumption.
  - apply predict_bhupred_spec; assumption.
Qed.

(* read back: the 16 written samples, the other cells, the length *)
Lemma fits4_put a x0 y0 s : fits4 a x0 y0 s -> 4 <= s /\ 0 <= y0 * s + x0 /\ (y0 + 3) * s + x0 + 4 <= len a.
Proof. intros (Hx & Hy & Hs & Hfit). assert (0 <= (y0 - 1) * s) by nia. lia. Qed.

Corollary predict_sub_block m a a' x0 y0 s r c :
  0 <= m <= 9 -> bytes a -> fits4 a x0 y0 s -> predict_sub (bmode_to_rfc m) a x0 y0 s = Ok a' ->
  0 <= r < 4 -> 0 <= c < 4 ->
  get a' ((y0 + r) * s + x0 + c) = nth (Z.to_nat (4 * r + c)) (pred4_ws m a x0 y0 s) 0.
Proof.
  intros Hm Hb Hf E Hr Hc. rewrite predict_sub_spec in E by assumption. injection E as <-.
  destruct (fits4_put _ _ _ _ Hf) as (H1 & H2 & H3). apply get_put4x4_in; assumption.
Qed.

Corollary predict_sub_untouched m a a' x0 y0 s j :
  0 <= m <= 9 -> bytes a -> fits4 a x0 y0 s -> predict_sub (bmode_to_rfc m) a x0 y0 s = Ok a' ->
  0 <= j -> (forall r c, 0 <= r < 4 -> 0 <= c < 4 -> j <> (y0 + r) * s + x0 + c) ->
  get a' j = get a j.
Proof.
  intros Hm Hb Hf E Hj Hn. rewrite predict_sub_spec in E by assumption. injection E as <-.
  destruct (fits4_put _ _ _ _ Hf) as (H1 & H2 & H3). apply get_put4x4_out; assumption.
Qed.

Corollary predict_sub_no_panic m a x0 y0 s :
  0 <= m <= 9 -> bytes a -> fits4 a x0 y0 s ->
  exists a', predict_sub (bmode_to_rfc m) a x0 y0 s = Ok a' /\ len a' = len a.
Proof.
  intros Hm Hb Hf. eexists. split; [apply predict_sub_spec; assumption|]. apply len_put4x4.
Qed.

(* add_residue read back: clip255 (sample + residue) on the block, nothing else changes *)
Corollary add_residue_block a a' res x0 y0 s r c :
  bytes a -> fits4 a x0 y0 s -> length res = 16%nat -> res_ok res -> add_residue a res y0 x0 s = Ok a' ->
  0 <= r < 4 -> 0 <= c < 4 ->
  get a' ((y0 + r) * s + x0 + c) = clip255 (get a ((y0 + r) * s + x0 + c) + nth (Z.to_nat (4 * r + c)) res 0).
Proof.
  intros Hb Hf Hl Hr E Hrr Hc. rewrite add_residue_spec in E by assumption. injection E as <-.
  destruct (fits4_put _ _ _ _ Hf) as (H1 & H2 & H3). rewrite get_put4x4_in by assumption.
  destruct (length16 res Hl) as (r0 & r1 & r2 & r3 & r4 & r5 & r6 & r7 & r8 & r9 & r10 & r11 & r12 & r13 & r14 & r15 & ->).
  assert (Er : r = 0 \/ r = 1 \/ r = 2 \/ r = 3) by lia.
  assert (Ec : c = 0 \/ c = 1 \/ c = 2 \/ c = 3) by lia.
  destruct Er as [-> | [-> | [-> | ->]]]; destruct Ec as [-> | [-> | [-> | ->]]]; reflexivity.
Qed.

Corollary add_residue_untouched a a' res x0 y0 s j :
  bytes a -> fits4 a x0 y0 s -> length res = 16%nat -> res_ok res -> add_residue a res y0 x0 s = Ok a' ->
  0 <= j -> (forall r c, 0 <= r < 4 -> 0 <= c < 4 -> j <> (y0 + r) * s + x0 + c) ->
  get a' j = get a j /\ len a' = len a.
Proof.
  intros Hb Hf Hl Hr E Hj Hn. rewrite add_residue_spec in E by assumption. injection E as <-.
  destruct (fits4_put _ _ _ _ Hf) as (H1 & H2 & H3). split; [apply get_put4x4_out; assumption | apply len_put4x4].
Qed.

(* the 16 sub-block positions predict_4x4 uses in the luma workspace (stride 21, 357 cells) satisfy fits4 *)
Lemma fits4_luma a sx sy : len a = 357 -> 0 <= sx < 4 -> 0 <= sy < 4 -> fits4 a (sx * 4 + 1) (sy * 4 + 1) 21.
Proof. intros Hl Hx Hy. unfold fits4. lia. Qed.
(* and the four 4x4 positions of the chroma workspace (stride 9, 81 cells) *)
Lemma fits4_chroma a sx sy : len a = 81 -> 0 <= sx < 2 -> 0 <= sy < 2 -> fits4 a (1 + sx * 4) (1 + sy * 4) 9.
Proof. intros Hl Hx Hy. unfold fits4. lia. Qed.
