(* C01, layer 2a: prefix-code SYMBOL reading.  When does a decoder table (Model.Huffman.tree) represent a
   specification code (Spec.VP8L.code)?

     reads t c      : on related streams (C01_stream.Rel) and under the decoder's refill discipline
                      (15 valid bits or an exhausted reader) Model read_symbol on `t` and Spec read_symbol on `c`
                      deliver the same symbol and related streams, and the Model fails with BitStreamError exactly
                      when the Spec runs out of data;
     peek_ok t      : peek_symbol never fails and is consistent with read_symbol (for the F2 double look-up);
     represents t c n = tree_ok t /\ reads t c /\ peek_ok t /\ every symbol < n.

   Instances: single-symbol codes, the two-symbol simple code (F3 ordering), and every table that build_implicit
   returns for a Kraft-complete length vector, against `make_code` of the same lengths.
   Then the exact correspondence make_code <-> build_implicit (`build_make`):
     no used symbol        : both reject;
     one used symbol       : Symbol k / Single k (any length 1..15);
     >= 2, Kraft sum = 1   : both accept (the Model side needs completeness of build_implicit: `BuildComplete`);
     >= 2, Kraft sum <> 1  : both reject. *)
From Coq Require Import ZArith NArith List Bool Lia.
From WebP Require Import Lib.Res Lib.Arr Lib.ZBits Gen.Tables Spec.PrefixCode
  Model.EncoderHeap Proofs.Huffman_lists Proofs.Huffman_canon Proofs.C04_bits Proofs.C04_prefix Proofs.C04_codedesc
  Model.LosslessLib Model.BitReader Model.Huffman Model.Lossless
  Proofs.Lossless_BitReader Proofs.Lossless_HuffmanSafe Proofs.Lossless_HuffmanRead Proofs.Lossless_HuffmanSimple
  Proofs.Lossless_HuffmanComplete Proofs.Lossless_SymSchedule Proofs.Lossless_PixelSafe Proofs.C01_stream.
Import ListNotations.
Open Scope Z_scope.

Ltac Zify.zify_post_hook ::= Z.div_mod_to_equations.

(* ------------------------------------------------------------------------------------------------ *)
(** * the notions *)
(* the state in which the decoder looks a symbol up: after `fill`, or with enough bits left from the last fill *)
Definition disc (r : BitReader.t) : Prop := 15 <= nbits r \/ data r = [].

Definition reads (t : tree) (c : V.code) : Prop :=
  forall st r, Rel st r -> disc r ->
    match V.read_symbol c st with
    | Some (v, st') => exists r', read_symbol t r = Ok (v, r') /\ Rel st' r' /\ data r' = data r /\
                                  nbits r - 15 <= nbits r' <= nbits r
    | None => read_symbol t r = Err EBitStreamError
    end.

Definition peek_ok (t : tree) : Prop :=
  forall r, 0 <= nbits r -> exists o, peek_symbol t r = Ok o /\
    forall bits v, o = Some (bits, v) ->
      0 <= bits <= 15 /\ read_symbol t r = bind (consume r bits) (fun r' => Ok (v, r')).

Record represents (t : tree) (c : V.code) (n : Z) : Prop := {
  rp_ok : tree_ok t;
  rp_reads : reads t c;
  rp_peek : peek_ok t;
  rp_lt : tree_lt t n;
  rp_single : forall s, t = Single s -> c = V.Symbol s }.   (* zero-bit codes on both sides at once (fast path) *)

(* ------------------------------------------------------------------------------------------------ *)
(** * the specification's read_symbol does not look beyond the code word *)
Definition pad (st : V.stream) : V.stream := match st with V.Stream p bs => V.Stream p (bs ++ [0; 0]) end.

Lemma sbits_pad st : sbits (pad st) = sbits st ++ repeat false 16.
Proof. destruct st as [p bs]. unfold pad, sbits. rewrite flat_map_app, app_assoc. reflexivity. Qed.

Lemma read_symbol_ext : forall c st v st', V.read_symbol c st = Some (v, st') ->
  forall st2 ext, sbits st2 = sbits st ++ ext ->
  exists st2', V.read_symbol c st2 = Some (v, st2') /\ sbits st2' = sbits st' ++ ext.
Proof.
  induction c as [|s|c0 IH0 c1 IH1]; intros st v st' E st2 ext H2; cbn [V.read_symbol] in *.
  - discriminate.
  - injection E as <- <-. exists st2. auto.
  - destruct (V.read_bit st) as [[b s1]|] eqn:Eb; [|discriminate].
    pose proof (read_bit_inv st b s1 Eb) as Hs. rewrite Hs in H2. cbn [app] in H2.
    destruct (read_bit_some st2 b _ H2) as (s2 & Eb2 & Hs2). rewrite Eb2.
    destruct b; [apply (IH1 s1 v st' E s2 ext Hs2) | apply (IH0 s1 v st' E s2 ext Hs2)].
Qed.

Lemma bits_val_repeat_false n : bits_val (repeat false n) = 0.
Proof. induction n as [|n IH]; cbn [repeat bits_val Z.b2z]; lia. Qed.

(* ------------------------------------------------------------------------------------------------ *)
(** * an abstract decoder for a length vector, on both sides *)
Definition scode (lens : list Z) (sym : nat) : Z := nth sym (stream_codes lens) 0.
Definition valid (lens : list Z) (sym : nat) : Prop := (sym < length lens)%nat /\ 1 <= nth sym lens 0 <= 15.

(* Model side: whatever the reservoir holds, the table finds the symbol whose stream word is spelled by the low bits *)
Definition decodes (t : tree) (lens : list Z) : Prop :=
  forall r, exists sym, valid lens sym /\
    (peek_full r) mod 2 ^ (nth sym lens 0) = scode lens sym /\
    read_symbol t r = bind (consume r (nth sym lens 0)) (fun r' => Ok (Z.of_nat sym, r')) /\
    exists o, peek_symbol t r = Ok o /\ (forall bits v, o = Some (bits, v) -> bits = nth sym lens 0 /\ v = Z.of_nat sym).

(* Spec side: the stream word of every used symbol is read back as that symbol *)
Definition spec_code (c : V.code) (lens : list Z) : Prop :=
  forall sym, valid lens sym ->
    parses (V.read_symbol c) (bits_of (Z.to_nat (nth sym lens 0)) (scode lens sym)) (Z.of_nat sym).

Theorem reads_of_decodes t c lens : decodes t lens -> spec_code c lens -> reads t c.
Proof.
  intros Hd Hs st r HRel Hdisc. destruct (Hd r) as (sym & [Hsl HL] & Hm & Hread & _).
  specialize (Hs sym (conj Hsl HL)).
  set (L := nth sym lens 0) in *. unfold Rel in HRel. set (l := sbits st) in *.
  pose proof HRel as [HR Hlen]. pose proof (RelB_nbits l r HRel) as [Hnb Hnl].
  assert (Hlow : bits_val l mod 2 ^ L = scode lens sym).
  { rewrite <- Hm. symmetry. apply (low15 _ r HR Hdisc). lia. }
  assert (Hbits : bits_of (Z.to_nat L) (scode lens sym) = bits_of (Z.to_nat L) (bits_val l)).
  { rewrite <- Hlow. rewrite <- (Z2Nat.id L) at 2 by lia. apply bits_of_mod. }
  rewrite Hbits in Hs. rewrite Hread. clear Hread Hm Hbits Hd.
  destruct (Nat.le_gt_cases (Z.to_nat L) (length l)) as [Hle|Hgt].
  - (* the whole word is there *)
    rewrite bits_of_bits_val_firstn in Hs by exact Hle.
    destruct (Hs st (skipn (Z.to_nat L) l) ltac:(symmetry; apply firstn_skipn)) as (st' & E & Hs').
    rewrite E.
    assert (HLn : L <= nbits r).
    { destruct Hdisc as [H15|He]; [lia|]. pose proof (RelB_exhausted l r HRel He). lia. }
    destruct (consume_RelB l r L HRel ltac:(lia)) as (r' & Ec & HR' & Hn' & Hd'). rewrite Ec. cbn [bind].
    exists r'. split; [reflexivity|]. split; [unfold Rel; rewrite Hs'; exact HR'|]. split; [exact Hd' | lia].
  - (* the data end inside the word *)
    rewrite consume_short by lia. cbn [bind].
    destruct (V.read_symbol c st) as [[v st']|] eqn:E; [exfalso|reflexivity].
    destruct (read_symbol_ext c st v st' E (pad st) (repeat false 16) (sbits_pad st)) as (st2 & E2 & H2).
    assert (Hv : bits_val (l ++ repeat false 16) = bits_val l).
    { rewrite bits_val_app, bits_val_repeat_false. lia. }
    rewrite <- Hv in Hs. rewrite bits_of_bits_val_firstn in Hs by (rewrite app_length, repeat_length; lia).
    destruct (Hs (pad st) (skipn (Z.to_nat L) (l ++ repeat false 16))) as (st3 & E3 & H3).
    { rewrite sbits_pad. fold l. symmetry. apply firstn_skipn. }
    rewrite E2 in E3. injection E3 as _ <-.
    apply (f_equal (@length bool)) in H2. apply (f_equal (@length bool)) in H3.
    rewrite H2 in H3. rewrite skipn_length, !app_length, repeat_length in H3. lia.
Qed.

Lemma peek_of_decodes t lens : decodes t lens -> peek_ok t.
Proof.
  intros Hd r Hn. destruct (Hd r) as (sym & [Hsl HL] & _ & Hread & o & Ep & Ho).
  exists o. split; [exact Ep|]. intros bits v ->. destruct (Ho bits v eq_refl) as [-> ->]. split; [lia | exact Hread].
Qed.

Lemma lt_of_decodes t lens : decodes t lens -> tree_lt t (Z.of_nat (length lens)).
Proof.
  intros Hd. split.
  - intros r v r' E. destruct (Hd r) as (sym & [Hsl HL] & _ & Hread & _). rewrite Hread in E.
    destruct (consume r (nth sym lens 0)); cbn [bind] in E; try discriminate. injection E as <- _. lia.
  - intros r b v E. destruct (Hd r) as (sym & [Hsl HL] & _ & _ & o & Ep & Ho). rewrite Ep in E. injection E as ->.
    destruct (Ho b v eq_refl) as [-> ->]. lia.
Qed.

(* ------------------------------------------------------------------------------------------------ *)
(** * single-symbol codes *)
Lemma consume_zero r : 0 <= nbits r -> consume r 0 = Ok r.
Proof.
  intros H. unfold consume. replace (nbits r <? 0) with false by (symmetry; apply Z.ltb_ge; lia).
  cbn [Z.ltb Z.leb Z.compare orb]. destruct r as [d s b n]. cbn [data sched buffer nbits]. rewrite Z.shiftr_0_r, Z.sub_0_r. reflexivity.
Qed.

Theorem represents_single s n : 0 <= s < n -> represents (Single s) (V.Symbol s) n.
Proof.
  intros Hs. split.
  - constructor.
  - intros st r HRel _. cbn [V.read_symbol read_symbol]. exists r. split; [reflexivity|]. split; [exact HRel|]. split; [reflexivity | lia].
  - intros r Hn. exists (Some (0, s)). split; [reflexivity|]. intros bits v E. injection E as <- <-.
    split; [lia|]. rewrite consume_zero by exact Hn. reflexivity.
  - apply single_lt. exact Hs.
  - intros s' E. injection E as <-. reflexivity.
Qed.

(* ------------------------------------------------------------------------------------------------ *)
(** * tables from build_implicit *)
Lemma revl_dec_code_scode lens sym : lens_ok lens -> Z.of_nat (length lens) <= 5957 -> (sym < length lens)%nat -> nth sym lens 0 <> 0 ->
  revl (nth sym lens 0) (dec_code lens sym) = scode lens sym.
Proof.
  intros Hok Hlen Hs Hn.
  assert (Hl : 1 <= nth sym lens 0 <= 15).
  { pose proof (proj1 (Forall_forall _ _) Hok (nth sym lens 0) ltac:(apply nth_In; assumption)) as H. cbn beta in H. lia. }
  unfold scode, stream_codes. rewrite (Lossless_HuffmanRead.map2_nth rev_bits lens (canonical lens) sym 0 0)
    by (try assumption; unfold canonical; rewrite Lossless_HuffmanRead.canonical_from_length; assumption).
  rewrite <- dec_code_canonical by assumption.
  assert (Hc0 : 0 <= dec_code lens sym).
  { unfold dec_code, code_of, Lossless_HuffmanSafe.first. pose proof (cnt_nonneg (nth sym lens 0) (firstn sym lens)).
    assert (Hh : hist_ok (hist_of lens)).
    { intros i Hi. rewrite hist_of_zn; [|assumption|intros l Hin; pose proof (proj1 (Forall_forall _ _) Hok l Hin) as H0; cbn beta in H0; lia].
      destruct (i =? 0); [lia|]. pose proof (cnt_nonneg i lens). pose proof (cnt_le_length i lens). lia. }
    pose proof (curr_of_bound (hist_of lens) (Z.to_nat (nth sym lens 0) - 1) Hh). lia. }
  apply revl_rev_bits; lia.
Qed.

Theorem decodes_built lens t : lens_ok lens -> Z.of_nat (length lens) <= 5957 -> 2 <= nz lens ->
  build_implicit lens = Ok t -> decodes t lens.
Proof.
  intros Hok Hlen Hnz Hb r.
  destruct (build_implicit_spec lens Hok Hlen) as [E|(t' & E & Hbuilt)]; [congruence|].
  rewrite Hb in E. injection E as <-.
  destruct (built_tctx lens t Hok Hlen Hbuilt Hnz) as (hist & mx & tb & nc & nodes & table & -> & Hctx & Hcode).
  assert (Hv0 : 0 <= peek_full r mod 2 ^ 16) by (apply Z.mod_pos_bound; reflexivity).
  destruct (exists_symbol lens hist mx tb nc nodes table _ Hctx Hv0) as (sym & Hs & Hn & Hm).
  destruct (lookup_code lens hist mx tb nc nodes table sym r Hctx Hs Hn Hm) as [Hread Hpeek].
  assert (Hl : 1 <= nth sym lens 0 <= 15).
  { pose proof (proj1 (Forall_forall _ _) Hok (nth sym lens 0) ltac:(apply nth_In; assumption)) as H. cbn beta in H. lia. }
  exists sym. split; [split; assumption|]. split.
  - rewrite mod_pow2_mod_pow2 in Hm by lia. rewrite Hm, Hcode. apply revl_dec_code_scode; assumption.
  - split; [exact Hread|]. eexists. split; [exact Hpeek|]. intros bits v E.
    destruct (nth sym lens 0 <=? tb); [|discriminate]. injection E as <- <-. auto.
Qed.

Lemma spec_code_complete lens c : Forall (fun l => 0 <= l <= 15) lens -> kraft lens 15 = 2 ^ 15 ->
  V.make_code lens = Some c -> spec_code c lens.
Proof.
  intros HF Hk Hc sym [Hs Hl]. destruct (prefix_code_roundtrip lens HF Hk) as (c' & Hc' & H).
  rewrite Hc in Hc'. injection Hc' as <-. apply H; [exact Hs | lia].
Qed.

Lemma decodes_not_single t lens : decodes t lens -> forall s, t <> Single s.
Proof.
  intros Hd s ->. destruct (Hd (BitReader.mk [] [] 0 0)) as (sym & [_ HL] & _ & Hread & _).
  cbn [read_symbol] in Hread. rewrite consume_short in Hread by (cbn [nbits]; lia). discriminate.
Qed.

Theorem represents_built lens t c : lens_ok lens -> Z.of_nat (length lens) <= 5957 -> 2 <= nz lens ->
  kraft lens 15 = 2 ^ 15 -> build_implicit lens = Ok t -> V.make_code lens = Some c ->
  represents t c (Z.of_nat (length lens)).
Proof.
  intros Hok Hlen Hnz Hk Hb Hc. pose proof (decodes_built lens t Hok Hlen Hnz Hb) as Hd. split.
  - apply (ok_built lens t Hok Hlen Hb).
  - apply (reads_of_decodes t c lens Hd). apply spec_code_complete; assumption.
  - apply (peek_of_decodes t lens Hd).
  - apply (lt_of_decodes t lens Hd).
  - intros s E. exfalso. apply (decodes_not_single t lens Hd s E).
Qed.

(* ------------------------------------------------------------------------------------------------ *)
(** * make_code and build_implicit accept the same length vectors *)
Notation lzlen := EncoderHeap.zlen.

Lemma nz_sum lens : lens_ok lens ->
  nz lens = count_eq 1 lens + count_eq 2 lens + count_eq 3 lens + count_eq 4 lens + count_eq 5 lens + count_eq 6 lens
          + count_eq 7 lens + count_eq 8 lens + count_eq 9 lens + count_eq 10 lens + count_eq 11 lens + count_eq 12 lens
          + count_eq 13 lens + count_eq 14 lens + count_eq 15 lens.
Proof.
  induction 1 as [|x tl Hx _ IH]; [reflexivity|]. cbn [nz count_eq]. rewrite IH.
  assert (Hc : x = 0 \/ x = 1 \/ x = 2 \/ x = 3 \/ x = 4 \/ x = 5 \/ x = 6 \/ x = 7 \/ x = 8 \/ x = 9 \/ x = 10 \/ x = 11
               \/ x = 12 \/ x = 13 \/ x = 14 \/ x = 15) by lia.
  clear Hx IH. repeat (destruct Hc as [->|Hc]; [cbn [Z.eqb Pos.eqb]; lia|]). subst x. cbn [Z.eqb Pos.eqb]. lia.
Qed.

Lemma used_length lens : lens_ok lens -> lzlen (V.used_symbols lens) = nz lens.
Proof.
  intros Hok. rewrite used_symbols_blocks.
  change (V.zseq 1 15) with [1; 2; 3; 4; 5; 6; 7; 8; 9; 10; 11; 12; 13; 14; 15]. cbn [flat_map].
  rewrite !zlen_app, !block_length. change (lzlen (@nil (Z * Z))) with 0. rewrite (nz_sum lens Hok). lia.
Qed.

Lemma nz_zero_all : forall lens, nz lens = 0 -> forall i, nth i lens 0 = 0.
Proof.
  induction lens as [|x tl IH]; intros H i; [destruct i; reflexivity|]. cbn [nz] in H. pose proof (nz_nonneg tl).
  destruct (Z.eqb_spec x 0) as [->|]; [|lia]. destruct i; cbn [nth]; [reflexivity | apply IH; lia].
Qed.

Lemma nz_one_shape : forall lens s, nz lens = 1 ->
  exists k, (k < length lens)%nat /\ nth k lens 0 <> 0 /\
            (forall i, (i < length lens)%nat -> nth i lens 0 = if Nat.eqb i k then nth k lens 0 else 0) /\
            position_nonzero lens s = Some (s + Z.of_nat k).
Proof.
  induction lens as [|x tl IH]; intros s H; cbn [nz] in H; [lia|]. pose proof (nz_nonneg tl).
  cbn [position_nonzero]. destruct (Z.eqb_spec x 0) as [->|Hx].
  - destruct (IH (s + 1) ltac:(lia)) as (k & Hk & Hn & Hall & Hp). exists (S k). cbn [length nth]. split; [lia|].
    split; [exact Hn|]. split.
    + intros [|i] Hi; cbn [nth Nat.eqb]; [reflexivity | apply Hall; lia].
    + rewrite Hp. f_equal. lia.
  - exists 0%nat. cbn [length nth]. split; [lia|]. split; [exact Hx|]. split.
    + intros [|i] Hi; cbn [nth Nat.eqb]; [reflexivity | apply nz_zero_all; lia].
    + f_equal. lia.
Qed.

Lemma built_kraft lens t : lens_ok lens -> built lens t -> 2 <= nz lens -> kraft lens 15 = 2 ^ 15.
Proof.
  intros Hok Hb Hnz. destruct Hb as [sym H1 _|hist mx tb nc nodes table _ Hcx Hzn Hlast Hk _ _ _ _]; [lia|].
  destruct Hcx as [_ Hmx _ _ _].
  rewrite (kraft_ksum lens 15 15) by (eapply Forall_impl; [|exact Hok]; cbn; intros; lia).
  pose proof (curr_ksum lens hist 15) as Hc.
  specialize (Hc ltac:(intros i Hi; rewrite Hzn by lia; replace (i =? 0) with false by (symmetry; apply Z.eqb_neq; lia); reflexivity) 15%nat ltac:(lia)).
  pose proof (curr_of_tail hist mx Hlast (Z.to_nat (15 - mx))) as Ht.
  replace (Z.to_nat mx + Z.to_nat (15 - mx))%nat with 15%nat in Ht by lia.
  rewrite Ht, Hk in Hc. rewrite Z2Nat.id in Hc by lia. change (2 ^ (15 - Z.of_nat 15)) with 1 in Hc.
  rewrite <- Z.pow_add_r in Hc by lia. replace (15 - mx + (mx + 1)) with 16 in Hc by lia. change (2 ^ 16) with 65536 in Hc.
  change (2 ^ 15) with 32768. lia.
Qed.

(* the four cases, on both sides *)
Theorem build_make lens : lens_ok lens -> Z.of_nat (length lens) <= 5957 ->
  match V.make_code lens with
  | Some c => exists t, build_implicit lens = Ok t /\ represents t c (Z.of_nat (length lens))
  | None => build_implicit lens = Err EHuffmanError
  end.
Proof.
  intros Hok Hlen. pose proof (nz_nonneg lens) as Hnz0. pose proof (used_length lens Hok) as Hul.
  assert (HF : Forall (fun l => 0 <= l <= 15) lens) by exact Hok.
  assert (Hcount : exists hist, count_lengths lens (repeat 0 16) 0 = Ok (hist, nz lens)).
  { destruct (count_lengths_spec lens (repeat 0 16) 0 Hok ltac:(reflexivity)) as (hist & num & Ec & _ & _ & Hnum & _); try lia.
    { intros i Hi. rewrite repeat0_zn. lia. }
    exists hist. rewrite Ec. f_equal. f_equal. lia. }
  destruct Hcount as (hist & Ec).
  destruct (Z.eq_dec (nz lens) 0) as [H0|H0]; [|destruct (Z.eq_dec (nz lens) 1) as [H1|H1]].
  - (* no used symbol *)
    unfold V.make_code. destruct (V.used_symbols lens) as [|e rest]; [|rewrite zlen_cons in Hul; pose proof (zlen_nonneg rest); lia].
    unfold build_implicit. rewrite Ec. cbn [bind]. rewrite H0. reflexivity.
  - (* one used symbol: a bare leaf, whatever its length *)
    destruct (nz_one_shape lens 0 H1) as (k & Hk & Hn & Hall & Hp).
    assert (Hl : 1 <= nth k lens 0 <= 15).
    { pose proof (proj1 (Forall_forall _ _) Hok (nth k lens 0) ltac:(apply nth_In; assumption)) as H. cbn beta in H. lia. }
    rewrite (make_code_single lens k (nth k lens 0) Hk Hl Hall).
    exists (Single (Z.of_nat k)). split.
    + unfold build_implicit. rewrite Ec. cbn [bind]. rewrite H1. cbn [Z.eqb Pos.eqb]. rewrite Hp. cbn [of_option bind].
      unfold build_single_node. rewrite Z.add_0_l. rewrite Z.mod_small by (change (2 ^ 16) with 65536; lia). reflexivity.
    + apply represents_single. lia.
  - (* at least two: the Kraft equality decides *)
    assert (Hnz : 2 <= nz lens) by lia.
    assert (Hmk : V.make_code lens = if kraft lens 15 =? 2 ^ 15 then Some (code_tree lens) else None).
    { unfold V.make_code, code_tree. rewrite kraft_sum_kraft by (eapply Forall_impl; [|exact HF]; cbn; intros; lia).
      destruct (V.used_symbols lens) as [|[s0 l0] [|e1 rest]].
      - change (lzlen (@nil (Z * Z))) with 0 in Hul. lia.
      - rewrite zlen_cons in Hul. change (lzlen (@nil (Z * Z))) with 0 in Hul. lia.
      - reflexivity. }
    rewrite Hmk. destruct (Z.eqb_spec (kraft lens 15) (2 ^ 15)) as [Hk|Hk].
    + destruct (build_implicit_complete lens Hok Hlen Hnz Hk) as (t & Hb). exists t. split; [exact Hb|].
      apply (represents_built lens t (code_tree lens) Hok Hlen Hnz Hk Hb). rewrite Hmk.
      replace (kraft lens 15 =? 2 ^ 15) with true by (symmetry; apply Z.eqb_eq; exact Hk). reflexivity.
    + destruct (build_implicit_spec lens Hok Hlen) as [E|(t & E & Hbuilt)]; [exact E|].
      exfalso. apply Hk. apply (built_kraft lens t Hok Hbuilt Hnz).
Qed.

Corollary build_make_some lens c : lens_ok lens -> Z.of_nat (length lens) <= 5957 -> V.make_code lens = Some c ->
  exists t, build_implicit lens = Ok t /\ represents t c (Z.of_nat (length lens)).
Proof. intros Hok Hlen E. pose proof (build_make lens Hok Hlen) as H. rewrite E in H. exact H. Qed.

Corollary build_make_none lens : lens_ok lens -> Z.of_nat (length lens) <= 5957 -> V.make_code lens = None ->
  build_implicit lens = Err EHuffmanError.
Proof. intros Hok Hlen E. pose proof (build_make lens Hok Hlen) as H. rewrite E in H. exact H. Qed.

(* the Kraft acceptance rule stated once, for both sides: accepted iff exactly one used symbol or Kraft sum 1 *)
Corollary acceptance lens : lens_ok lens -> Z.of_nat (length lens) <= 5957 ->
  ((exists t, build_implicit lens = Ok t) <-> (exists c, V.make_code lens = Some c)) /\
  ((exists c, V.make_code lens = Some c) <-> nz lens = 1 \/ (2 <= nz lens /\ kraft lens 15 = 2 ^ 15)).
Proof.
  intros Hok Hlen. pose proof (build_make lens Hok Hlen) as H. split.
  - split.
    + intros (t & E). destruct (V.make_code lens) as [c|]; [eauto | congruence].
    + intros (c & E). rewrite E in H. destruct H as (t & Hb & _). eauto.
  - pose proof (nz_nonneg lens) as Hnz0. split.
    + intros (c & E). rewrite E in H. destruct H as (t & Hb & _).
      destruct (build_implicit_spec lens Hok Hlen) as [E2|(t' & E2 & Hbuilt)]; [congruence|].
      destruct (Z.eq_dec (nz lens) 1); [left; assumption|right].
      destruct Hbuilt as [sym H1 _|hist mx tb nc nodes table H2 Hcx Hzn Hlast Hk Hls Htab Hwf Hg]; [lia|].
      split; [exact H2|]. eapply built_kraft; [exact Hok | | exact H2].
      apply (built_tree lens hist mx tb nc nodes table); assumption.
    + intros [H1|[H2 Hk]].
      * destruct (V.make_code lens) as [c|] eqn:E; [eauto|]. exfalso.
        destruct (nz_one_shape lens 0 H1) as (k & Hk & Hn & Hall & Hp).
        assert (Hl : 1 <= nth k lens 0 <= 15).
        { pose proof (proj1 (Forall_forall _ _) Hok (nth k lens 0) ltac:(apply nth_In; assumption)) as H0. cbn beta in H0. lia. }
        rewrite (make_code_single lens k (nth k lens 0) Hk Hl Hall) in E. discriminate.
      * exists (code_tree lens). apply make_code_complete; assumption.
Qed.

(* ------------------------------------------------------------------------------------------------ *)
(** * the two-symbol simple code (FIX F3: the smaller symbol gets the word 0) *)
Lemma firstn_snoc : forall k (l : list Z), (k < length l)%nat -> firstn (S k) l = firstn k l ++ [nth k l 0].
Proof.
  induction k as [|k IH]; intros [|x tl] H; cbn [length] in H; try lia; [reflexivity|].
  cbn [firstn nth app]. f_equal. apply IH. lia.
Qed.

Lemma kraft01 lens : Forall (fun l => l = 0 \/ l = 1) lens -> kraft lens 15 = 2 ^ 14 * count_eq 1 lens.
Proof.
  induction 1 as [|x tl Hx _ IH]; [reflexivity|]. cbn [kraft count_eq]. rewrite IH.
  destruct Hx as [->| ->]; cbn [Z.ltb Z.eqb Z.compare Pos.eqb]; [lia|]. change (2 ^ (15 - 1)) with (2 ^ 14). lia.
Qed.

Section TwoSymbols.
  Variables (lens : list Z) (a b : nat).
  Hypothesis Hab : (a < b)%nat.
  Hypothesis Hb : (b < length lens)%nat.
  Hypothesis Hpt : forall i, (i < length lens)%nat -> nth i lens 0 = if Nat.eqb i a || Nat.eqb i b then 1 else 0.

  Lemma two_count : forall k, (k <= length lens)%nat ->
    count_eq 1 (firstn k lens) = (if Nat.ltb a k then 1 else 0) + (if Nat.ltb b k then 1 else 0).
  Proof.
    induction k as [|k IH]; intros Hk; [reflexivity|].
    rewrite firstn_snoc by lia. rewrite count_eq_app, IH by lia. cbn [count_eq]. rewrite Hpt by lia.
    destruct (Nat.eqb_spec k a) as [Hka|Hka]; destruct (Nat.eqb_spec k b) as [Hkb|Hkb]; cbn [orb Z.eqb Pos.eqb];
      destruct (Nat.ltb_spec a k); destruct (Nat.ltb_spec b k); destruct (Nat.ltb_spec a (S k)); destruct (Nat.ltb_spec b (S k)); lia.
  Qed.

  Lemma two_01 : Forall (fun l => l = 0 \/ l = 1) lens.
  Proof.
    apply Forall_forall. intros x Hin. apply (In_nth _ _ 0) in Hin. destruct Hin as (i & Hi & <-). rewrite Hpt by exact Hi.
    destruct (Nat.eqb i a || Nat.eqb i b); auto.
  Qed.

  Lemma two_lens_ok : lens_ok lens.
  Proof. eapply Forall_impl; [|exact two_01]. cbn. intros x [->| ->]; lia. Qed.

  Lemma two_kraft : kraft lens 15 = 2 ^ 15.
  Proof.
    rewrite (kraft01 lens two_01). rewrite <- (firstn_all lens). rewrite two_count by lia.
    replace (Nat.ltb a (length lens)) with true by (symmetry; apply Nat.ltb_lt; lia).
    replace (Nat.ltb b (length lens)) with true by (symmetry; apply Nat.ltb_lt; lia). reflexivity.
  Qed.

  Lemma two_valid sym : valid lens sym <-> sym = a \/ sym = b.
  Proof.
    unfold valid. split.
    - intros [Hs Hl]. rewrite Hpt in Hl by exact Hs.
      destruct (Nat.eqb_spec sym a); [auto|]. destruct (Nat.eqb_spec sym b); [auto|]. cbn [orb] in Hl. lia.
    - intros [-> | ->]; (split; [lia|]); rewrite Hpt by lia; rewrite Nat.eqb_refl, ?orb_true_r; cbn [orb]; lia.
  Qed.

  Lemma two_scode : scode lens a = 0 /\ scode lens b = 1 /\ nth a lens 0 = 1 /\ nth b lens 0 = 1.
  Proof.
    assert (Ha1 : nth a lens 0 = 1) by (rewrite Hpt by lia; rewrite Nat.eqb_refl; reflexivity).
    assert (Hb1 : nth b lens 0 = 1) by (rewrite Hpt by lia; rewrite Nat.eqb_refl, orb_true_r; reflexivity).
    assert (Hn1 : next_code lens 1 = 0) by reflexivity.
    unfold scode. rewrite !stream_codes_nth by lia. rewrite Ha1, Hb1. change (Z.to_nat 1) with 1%nat. rewrite Hn1.
    rewrite !two_count by lia.
    replace (Nat.ltb a a) with false by (symmetry; apply Nat.ltb_ge; lia).
    replace (Nat.ltb b a) with false by (symmetry; apply Nat.ltb_ge; lia).
    replace (Nat.ltb a b) with true by (symmetry; apply Nat.ltb_lt; lia).
    replace (Nat.ltb b b) with false by (symmetry; apply Nat.ltb_ge; lia).
    repeat split; reflexivity.
  Qed.

  Lemma two_decodes : Z.of_nat b < 65536 -> decodes (build_two_node (Z.of_nat a) (Z.of_nat b)) lens.
  Proof.
    intros Hb16 r. destruct two_scode as (Sa & Sb & La & Lb).
    destruct (two_node_raw (Z.of_nat a) (Z.of_nat b) r ltac:(lia) ltac:(lia)) as [Er Ep].
    pose proof (Z.bit0_mod (peek_full r)) as Hbit.
    destruct (Z.testbit (peek_full r) 0) eqn:Et; cbn [Z.b2z] in Hbit.
    - exists b. split; [apply two_valid; auto|]. rewrite Lb. change (2 ^ 1) with 2. split; [lia|].
      split; [exact Er|]. eexists. split; [exact Ep|]. intros bits v E. injection E as <- <-. auto.
    - exists a. split; [apply two_valid; auto|]. rewrite La. change (2 ^ 1) with 2. split; [lia|].
      split; [exact Er|]. eexists. split; [exact Ep|]. intros bits v E. injection E as <- <-. auto.
  Qed.

  Theorem represents_two c : Z.of_nat (length lens) <= 65536 -> V.make_code lens = Some c ->
    represents (build_two_node (Z.of_nat a) (Z.of_nat b)) c (Z.of_nat (length lens)).
  Proof.
    intros Hlen Hc. pose proof (two_decodes ltac:(lia)) as Hd. split.
    - apply ok_two; lia.
    - apply (reads_of_decodes _ c lens Hd). apply spec_code_complete; [exact two_lens_ok | exact two_kraft | exact Hc].
    - apply (peek_of_decodes _ lens Hd).
    - apply (lt_of_decodes _ lens Hd).
    - intros s E. discriminate.
  Qed.

  Lemma two_make_code : exists c, V.make_code lens = Some c.
  Proof. exists (code_tree lens). apply make_code_complete; [exact two_lens_ok | exact two_kraft]. Qed.
End TwoSymbols.
