(* C12: the integer blend of alpha_blending.rs (translated kernel Gen.Kernels.blend_pixel_nonpremult plus the
   little-endian wrapper Model.AlphaBlend.do_alpha_blending) against the exact "over" operator of Spec.Blend. *)
From Coq Require Import ZArith Lia List Bool.
From WebP Require Import Gen.Kernels Lib.ZBits Lib.Sweep Spec.Blend Model.AlphaBlend.
Import ListNotations.
Open Scope Z_scope.

Ltac Zify.zify_post_hook ::= Z.div_mod_to_equations.

(* ---------------------------------------------------------------------------------------------- *)
(* 1. div_by_255 rounds to nearest on the whole range the blend uses: finite sweep, lifted.        *)
(* ---------------------------------------------------------------------------------------------- *)
Definition div255_cert (v : Z) : bool :=
  let r := div_by_255 v in (0 <=? r) && (Z.abs (255 * r - v) <=? 127) && div_by_255_ok v.

Lemma div255_sweep_ok :
  forallb (fun hi => forallb (fun lo => div255_cert (hi * 256 + lo)) (zrange 256 0)) (zrange 256 0) = true.
Proof. vm_compute. reflexivity. Qed.

Lemma div255_facts v : 0 <= v <= 65025 ->
  0 <= div_by_255 v /\ Z.abs (255 * div_by_255 v - v) <= 127 /\ div_by_255_ok v = true.
Proof.
  intros Hv.
  pose proof (forallb_zrange _ _ _ div255_sweep_ok (v / 256)) as H1.
  assert (H2 := H1 ltac:(lia)).
  pose proof (forallb_zrange _ _ _ H2 (v mod 256) ltac:(lia)) as Hs.
  cbv beta in Hs. replace (v / 256 * 256 + v mod 256) with v in Hs by lia.
  unfold div255_cert in Hs. cbv zeta in Hs.
  apply andb_prop in Hs. destruct Hs as [Hs H3]. apply andb_prop in Hs. destruct Hs as [Ha Hb].
  apply Z.leb_le in Ha. apply Z.leb_le in Hb. split; [exact Ha | split; [exact Hb | exact H3]].
Qed.

(* ---------------------------------------------------------------------------------------------- *)
(* 2. The kernel in closed arithmetic form                                                        *)
(* ---------------------------------------------------------------------------------------------- *)
Definition dfa (sa da : Z) : Z := div_by_255 (da * (255 - sa)).
Definition bl_a (sa da : Z) : Z := sa + dfa sa da.
Definition bl_scale (sa da : Z) : Z := 16777216 / bl_a sa da.
Definition bl_chan (sc sa dc da : Z) : Z := ((sc * sa + dc * dfa sa da) * bl_scale sa da) / 16777216.

Lemma dfa_facts sa da : byte sa -> byte da ->
  0 <= dfa sa da /\ Z.abs (255 * dfa sa da - da * (255 - sa)) <= 127 /\ sa + dfa sa da <= 255.
Proof.
  unfold byte. intros Hs Hd. unfold dfa.
  assert (Hv : 0 <= da * (255 - sa) <= 65025) by nia.
  destruct (div255_facts _ Hv) as (H1 & H2 & _).
  repeat split; try assumption.
  assert (da * (255 - sa) <= 255 * (255 - sa)) by nia. lia.
Qed.

(* quotient facts: with A = bl_a, s = bl_scale, x = sc*sa + dc*b, q = bl_chan:  0 <= x - q*A <= A *)
Lemma chan_quot sc sa dc da : byte sc -> byte dc -> 1 <= sa <= 255 -> byte da ->
  let A := bl_a sa da in let x := sc * sa + dc * dfa sa da in let q := bl_chan sc sa dc da in
  1 <= A <= 255 /\ 0 <= x <= 255 * A /\ 0 <= q /\ q * A <= x /\ x - q * A <= A.
Proof.
  unfold byte. intros Hsc Hdc Hsa Hda. cbv zeta.
  destruct (dfa_facts sa da) as (Hb0 & _ & HA); [unfold byte; lia | unfold byte; lia |].
  unfold bl_chan, bl_scale, bl_a. set (b := dfa sa da) in *. set (A := sa + b).
  assert (HA1 : 1 <= A <= 255) by (unfold A; lia).
  set (x := sc * sa + dc * b).
  assert (Hx : 0 <= x <= 255 * A) by (unfold x, A; nia).
  set (s := 16777216 / A).
  assert (Hs : s * A <= 16777216 < s * A + A) by (unfold s; lia).
  assert (Hs0 : 0 <= s) by (unfold s; apply Z.div_pos; lia).
  set (q := x * s / 16777216).
  assert (Hq : 16777216 * q <= x * s < 16777216 * q + 16777216) by (unfold q; lia).
  assert (Hq0 : 0 <= q) by (unfold q; apply Z.div_pos; nia).
  split; [exact HA1|]. split; [exact Hx|]. split; [exact Hq0|].
  split.
  - (* 2^24 q A <= x s A <= x 2^24 *)
    assert (16777216 * (q * A) <= 16777216 * x) by nia. lia.
  - (* x (2^24 - A) < x s A  (or x = 0);  x s A < 2^24 (q+1) A *)
    destruct (Z.eq_dec x 0) as [Hx0 | Hxn]; [nia|].
    assert (H1 : x * (16777216 - A) < x * (s * A)) by nia.
    assert (H2 : x * s * A < (16777216 * q + 16777216) * A) by nia.
    assert (H3 : x * A <= 255 * 255 * 255) by nia.
    nia.
Qed.

Lemma bl_chan_byte sc sa dc da : byte sc -> byte dc -> 1 <= sa <= 255 -> byte da -> byte (bl_chan sc sa dc da).
Proof.
  intros Hsc Hdc Hsa Hda. destruct (chan_quot sc sa dc da Hsc Hdc Hsa Hda) as (HA & Hx & Hq0 & Hq1 & _).
  unfold byte. split; [exact Hq0|]. nia.
Qed.

(* the translated channel kernel, on packed words, is bl_chan *)
Lemma kernel_channel r g b a r' g' b' a' k :
  byte r -> byte g -> byte b -> byte a -> byte r' -> byte g' -> byte b' -> byte a' -> 1 <= a -> 0 <= k <= 2 ->
  blend_channel_nonpremult (pack4 r g b a) a (pack4 r' g' b' a') (wrapU 8 (dfa a a')) (bl_scale a a') (channel_shift k)
  = bl_chan (nth (Z.to_nat k) [r; g; b; a] 0) a (nth (Z.to_nat k) [r'; g'; b'; a'] 0) a'.
Proof.
  intros Hr Hg Hb Ha Hr' Hg' Hb' Ha' Ha1 Hk.
  unfold blend_channel_nonpremult, channel_shift.
  replace (k * 8) with (8 * k) by lia.
  rewrite !chan_of_pack by (assumption || lia).
  destruct (dfa_facts a a' Ha Ha') as (Hd0 & _ & Hd1).
  rewrite (wrapU_small 8 (dfa a a')) by (unfold byte in *; change (2 ^ 8) with 256; lia).
  assert (Hsc : byte (nth (Z.to_nat k) [r; g; b; a] 0)).
  { assert (Hc : k = 0 \/ k = 1 \/ k = 2) by lia. destruct Hc as [-> | [-> | ->]]; assumption. }
  assert (Hdc : byte (nth (Z.to_nat k) [r'; g'; b'; a'] 0)).
  { assert (Hc : k = 0 \/ k = 1 \/ k = 2) by lia. destruct Hc as [-> | [-> | ->]]; assumption. }
  set (sc := nth (Z.to_nat k) [r; g; b; a] 0) in *. set (dc := nth (Z.to_nat k) [r'; g'; b'; a'] 0) in *.
  cbv zeta. change (3 * 8) with 24. rewrite Z.shiftr_div_pow2 by lia. change (2 ^ 24) with 16777216.
  fold (bl_chan sc a dc a').
  apply wrapU_small. pose proof (bl_chan_byte sc a dc a' Hsc Hdc (conj Ha1 (proj2 Ha)) Ha') as Hq.
  unfold byte in Hq. change (2 ^ 8) with 256. lia.
Qed.

Lemma kernel_pixel r g b a r' g' b' a' :
  byte r -> byte g -> byte b -> byte a -> byte r' -> byte g' -> byte b' -> byte a' ->
  blend_pixel_nonpremult (pack4 r g b a) (pack4 r' g' b' a') =
  if a =? 0 then pack4 r' g' b' a'
  else pack4 (bl_chan r a r' a') (bl_chan g a g' a') (bl_chan b a b' a') (bl_a a a').
Proof.
  intros Hr Hg Hb Ha Hr' Hg' Hb' Ha'.
  unfold blend_pixel_nonpremult.
  change (channel_shift 3) with (8 * 3).
  rewrite !chan_of_pack by (assumption || lia).
  change (nth (Z.to_nat 3) [r; g; b; a] 0) with a. change (nth (Z.to_nat 3) [r'; g'; b'; a'] 0) with a'.
  cbv zeta.
  destruct (a =? 0) eqn:Ea; [reflexivity|]. apply Z.eqb_neq in Ea.
  assert (Ha1 : 1 <= a) by (unfold byte in Ha; lia).
  fold (dfa a a'). fold (bl_a a a').
  replace (Z.quot (wrapU 32 (Z.shiftl 1 24)) (bl_a a a')) with (bl_scale a a').
  2:{ unfold bl_scale. change (wrapU 32 (Z.shiftl 1 24)) with 16777216. symmetry. apply Z.quot_div_nonneg; [lia|].
      destruct (dfa_facts a a' Ha Ha') as (Hd0 & _ & _). unfold bl_a. lia. }
  rewrite (kernel_channel r g b a r' g' b' a' 0) by (assumption || lia).
  rewrite (kernel_channel r g b a r' g' b' a' 1) by (assumption || lia).
  rewrite (kernel_channel r g b a r' g' b' a' 2) by (assumption || lia).
  change (nth (Z.to_nat 0) [r; g; b; a] 0) with r. change (nth (Z.to_nat 1) [r; g; b; a] 0) with g.
  change (nth (Z.to_nat 2) [r; g; b; a] 0) with b.
  change (nth (Z.to_nat 0) [r'; g'; b'; a'] 0) with r'. change (nth (Z.to_nat 1) [r'; g'; b'; a'] 0) with g'.
  change (nth (Z.to_nat 2) [r'; g'; b'; a'] 0) with b'.
  pose proof (bl_chan_byte r a r' a' Hr Hr' (conj Ha1 (proj2 Ha)) Ha') as H0.
  pose proof (bl_chan_byte g a g' a' Hg Hg' (conj Ha1 (proj2 Ha)) Ha') as H1.
  pose proof (bl_chan_byte b a b' a' Hb Hb' (conj Ha1 (proj2 Ha)) Ha') as H2.
  assert (H3 : byte (bl_a a a')).
  { destruct (dfa_facts a a' Ha Ha') as (Hd0 & _ & Hd1). unfold bl_a, byte in *. lia. }
  change (channel_shift 0) with 0. change (channel_shift 1) with 8. change (channel_shift 2) with 16.
  change (channel_shift 3) with 24.
  rewrite !Z.shiftl_mul_pow2 by lia.
  rewrite !wrapU_small.
  - change (2 ^ 0) with 1. rewrite Z.mul_1_r. apply lor_pack4; assumption.
  - unfold byte in H3. change (2 ^ 24) with 16777216. change (2 ^ 32) with 4294967296. lia.
  - unfold byte in H2. change (2 ^ 16) with 65536. change (2 ^ 32) with 4294967296. lia.
  - unfold byte in H1. change (2 ^ 8) with 256. change (2 ^ 32) with 4294967296. lia.
  - unfold byte in H0. change (2 ^ 0) with 1. change (2 ^ 32) with 4294967296. lia.
Qed.

Lemma to_le_byte_pack b0 b1 b2 b3 : byte b0 -> byte b1 -> byte b2 -> byte b3 ->
  let w := pack4 b0 b1 b2 b3 in
  (to_le_byte w 0, to_le_byte w 1, to_le_byte w 2, to_le_byte w 3) = (b0, b1, b2, b3).
Proof.
  unfold byte, pack4, to_le_byte. intros H0 H1 H2 H3. cbv zeta.
  change (2 ^ (8 * 0)) with 1. change (2 ^ (8 * 1)) with 256. change (2 ^ (8 * 2)) with 65536.
  change (2 ^ (8 * 3)) with 16777216. change (2 ^ 8) with 256. change (2 ^ 16) with 65536.
  change (2 ^ 24) with 16777216.
  replace ((b0 + b1 * 256 + b2 * 65536 + b3 * 16777216) / 256) with (b1 + b2 * 256 + b3 * 65536) by lia.
  replace ((b0 + b1 * 256 + b2 * 65536 + b3 * 16777216) / 65536) with (b2 + b3 * 256) by lia.
  replace ((b0 + b1 * 256 + b2 * 65536 + b3 * 16777216) / 16777216) with b3 by lia.
  repeat f_equal; lia.
Qed.

Definition px_ok (p : px) : Prop := let '(r, g, b, a) := p in byte r /\ byte g /\ byte b /\ byte a.

(* the model of do_alpha_blending in closed form *)
Lemma blend_closed r g b a r' g' b' a' :
  px_ok (r, g, b, a) -> px_ok (r', g', b', a') ->
  do_alpha_blending (r, g, b, a) (r', g', b', a') =
  if a =? 0 then (r', g', b', a')
  else (bl_chan r a r' a', bl_chan g a g' a', bl_chan b a b' a', bl_a a a').
Proof.
  intros (Hr & Hg & Hb & Ha) (Hr' & Hg' & Hb' & Ha').
  unfold do_alpha_blending. fold (pack4 r g b a). fold (pack4 r' g' b' a').
  rewrite kernel_pixel by assumption.
  destruct (a =? 0) eqn:Ea.
  - apply to_le_byte_pack; assumption.
  - apply Z.eqb_neq in Ea. assert (Ha1 : 1 <= a <= 255) by (unfold byte in Ha; lia).
    apply to_le_byte_pack.
    + apply bl_chan_byte; assumption.
    + apply bl_chan_byte; assumption.
    + apply bl_chan_byte; assumption.
    + destruct (dfa_facts a a' Ha Ha') as (Hd0 & _ & Hd1). unfold bl_a, byte in *. lia.
Qed.

(* ---------------------------------------------------------------------------------------------- *)
(* 3. Properties of the closed form                                                               *)
(* ---------------------------------------------------------------------------------------------- *)
Lemma bl_alpha_close sa da : byte sa -> byte da -> alpha_close sa da (bl_a sa da).
Proof.
  intros Hs Hd. destruct (dfa_facts sa da Hs Hd) as (_ & He & _).
  unfold alpha_close, bl_a, D. lia.
Qed.

Lemma quad_bound A : 1 <= A <= 255 -> (255 * A + 127 * 255) * A <= 2 * 255 * (255 * A - 127).
Proof.
  intros H. assert (HA : A * A <= 255 * A) by nia.
  destruct (Z.eq_dec A 1) as [->|Hn]; [lia|]. nia.
Qed.

Lemma bl_chan_close sc sa dc da : byte sc -> byte dc -> 1 <= sa <= 255 -> byte da ->
  chan_close sc sa dc da (bl_chan sc sa dc da) (bl_a sa da).
Proof.
  intros Hsc Hdc Hsa Hda.
  destruct (chan_quot sc sa dc da Hsc Hdc Hsa Hda) as (HA & Hx & Hq0 & Hq1 & Hq2).
  assert (Hsab : byte sa) by (unfold byte; lia).
  destruct (dfa_facts sa da Hsab Hda) as (Hb0 & He & _).
  unfold chan_close, D, N. unfold bl_a in *.
  set (b := dfa sa da) in *. set (q := bl_chan sc sa dc da) in *. set (A := sa + b) in *.
  set (e := 255 * b - da * (255 - sa)) in *.
  assert (HD : 255 * sa + da * (255 - sa) = 255 * A - e) by (unfold A, e; lia).
  assert (HN : 255 * sc * sa + dc * da * (255 - sa) = 255 * (sc * sa + dc * b) - dc * e) by (unfold e; lia).
  rewrite HD, HN. set (x := sc * sa + dc * b) in *.
  assert (Hq255 : q <= 255) by nia.
  (* q D - N = 255 (q A - x) + e (dc - q) *)
  replace (q * (255 * A - e) - (255 * x - dc * e)) with (255 * (q * A - x) + e * (dc - q)) by lia.
  assert (Hb1 : Z.abs (255 * (q * A - x)) <= 255 * A) by lia.
  assert (Hb2 : Z.abs (e * (dc - q)) <= 127 * 255).
  { unfold byte in Hdc. rewrite Z.abs_mul. assert (Z.abs (dc - q) <= 255) by lia.
    apply Z.mul_le_mono_nonneg; lia. }
  assert (Hb3 : Z.abs (255 * (q * A - x) + e * (dc - q)) <= 255 * A + 127 * 255) by lia.
  assert (Hb4 : (255 * A + 127 * 255) * A <= 2 * 255 * (255 * A - 127)) by (apply quad_bound; exact HA).
  apply Z.le_trans with ((255 * A + 127 * 255) * A); [apply Z.mul_le_mono_nonneg_r; lia|].
  apply Z.le_trans with (2 * 255 * (255 * A - 127)); [exact Hb4 | lia].
Qed.

Lemma quot_hi q A x m : 0 < A -> q * A <= x -> x <= m * A -> q <= m.
Proof. intros. nia. Qed.
Lemma quot_lo q A x m : 0 < A -> x - q * A <= A -> m * A <= x -> m - 1 <= q.
Proof. intros. nia. Qed.

Lemma bl_chan_range sc sa dc da : byte sc -> byte dc -> 1 <= sa <= 255 -> byte da ->
  Z.min sc dc - 1 <= bl_chan sc sa dc da <= Z.max sc dc.
Proof.
  intros Hsc Hdc Hsa Hda.
  destruct (chan_quot sc sa dc da Hsc Hdc Hsa Hda) as (HA & Hx & Hq0 & Hq1 & Hq2).
  assert (Hsab : byte sa) by (unfold byte; lia).
  destruct (dfa_facts sa da Hsab Hda) as (Hb0 & _ & _).
  unfold bl_a in *. set (b := dfa sa da) in *. set (q := bl_chan sc sa dc da) in *.
  unfold byte in *.
  destruct (Z.le_ge_cases sc dc) as [Hle | Hge].
  - rewrite Z.min_l, Z.max_r by lia.
    assert (Hlo : sc * (sa + b) <= sc * sa + dc * b) by nia.
    assert (Hhi : sc * sa + dc * b <= dc * (sa + b)) by nia.
    split; [eapply quot_lo; [|exact Hq2|exact Hlo]; lia | eapply quot_hi; [|exact Hq1|exact Hhi]; lia].
  - rewrite Z.min_r, Z.max_l by lia.
    assert (Hlo : dc * (sa + b) <= sc * sa + dc * b) by nia.
    assert (Hhi : sc * sa + dc * b <= sc * (sa + b)) by nia.
    split; [eapply quot_lo; [|exact Hq2|exact Hlo]; lia | eapply quot_hi; [|exact Hq1|exact Hhi]; lia].
Qed.

(* exact behaviour for an opaque source on this tree: every non-zero channel comes out one lower *)
Lemma bl_opaque_channel sc dc da : byte sc -> byte dc -> byte da ->
  bl_chan sc 255 dc da = if sc =? 0 then 0 else sc - 1.
Proof.
  unfold byte. intros Hsc Hdc Hda. unfold bl_chan, bl_scale, bl_a, dfa.
  replace (da * (255 - 255)) with 0 by lia.
  change (div_by_255 0) with 0. change (16777216 / (255 + 0)) with 65793.
  destruct (sc =? 0) eqn:E; [apply Z.eqb_eq in E | apply Z.eqb_neq in E]; lia.
Qed.

Lemma bl_opaque_alpha da : bl_a 255 da = 255.
Proof. unfold bl_a, dfa. replace (da * (255 - 255)) with 0 by lia. reflexivity. Qed.

(* ---------------------------------------------------------------------------------------------- *)
(* 4. Statements about do_alpha_blending                                                          *)
(* ---------------------------------------------------------------------------------------------- *)
Lemma blend_transparent_lemma s d : px_ok s -> px_ok d -> px_a s = 0 -> do_alpha_blending s d = d.
Proof.
  destruct s as [[[r g] b] a]. destruct d as [[[r' g'] b'] a']. intros Hs Hd Ha. cbn [px_a] in Ha. subst a.
  rewrite blend_closed by assumption. reflexivity.
Qed.

Definition chan_of (p : px) (k : nat) : Z :=
  match k with O => px_r p | 1%nat => px_g p | _ => px_b p end.

Lemma blend_mid_lemma s d k : px_ok s -> px_ok d -> 0 < px_a s < 255 -> (k < 3)%nat ->
  let o := do_alpha_blending s d in
  alpha_close (px_a s) (px_a d) (px_a o)
  /\ chan_close (chan_of s k) (px_a s) (chan_of d k) (px_a d) (chan_of o k) (px_a o)
  /\ chan_range (chan_of s k) (chan_of d k) (chan_of o k).
Proof.
  destruct s as [[[r g] b] a]. destruct d as [[[r' g'] b'] a']. intros Hs Hd Ha Hk. cbn [px_a] in Ha.
  cbv zeta. rewrite blend_closed by assumption.
  destruct (a =? 0) eqn:Ea; [apply Z.eqb_eq in Ea; lia|].
  destruct Hs as (Hr & Hg & Hb & Hab). destruct Hd as (Hr' & Hg' & Hb' & Ha').
  assert (Ha1 : 1 <= a <= 255) by lia.
  cbn [px_a]. split; [apply bl_alpha_close; assumption|].
  destruct k as [|[|[|k]]]; [| | |lia]; cbn [chan_of px_r px_g px_b];
    (split; [apply bl_chan_close; assumption|]);
    unfold chan_range;
    match goal with |- _ <= bl_chan ?sc a ?dc a' <= _ =>
      pose proof (bl_chan_range sc a dc a' ltac:(assumption) ltac:(assumption) Ha1 Ha') end; lia.
Qed.

(* the known defect class: opaque source.  Exact characterisation of what the tree computes there. *)
Lemma blend_opaque_known_lemma s d : px_ok s -> px_ok d -> px_a s = 255 ->
  let dec c := if c =? 0 then 0 else c - 1 in
  do_alpha_blending s d = (dec (px_r s), dec (px_g s), dec (px_b s), 255).
Proof.
  destruct s as [[[r g] b] a]. destruct d as [[[r' g'] b'] a']. intros Hs Hd Ha. cbn [px_a] in Ha. subst a.
  cbv zeta. rewrite blend_closed by assumption. change (255 =? 0) with false. cbv iota.
  destruct Hs as (Hr & Hg & Hb & _). destruct Hd as (Hr' & Hg' & Hb' & Ha').
  rewrite !bl_opaque_channel by assumption. rewrite bl_opaque_alpha. reflexivity.
Qed.

Lemma blend_opaque_refuted_lemma :
  exists s d, px_ok s /\ px_ok d /\ px_a s = 255 /\ do_alpha_blending s d <> s.
Proof.
  exists (200, 1, 0, 255), (7, 7, 7, 7). unfold px_ok, byte. repeat split; try lia.
  vm_compute. discriminate.
Qed.

(* no checked operation of a debug build can fire (u32 products, the two debug_assert!s, shifts) *)
Lemma blend_no_overflow_lemma s d : px_ok s -> px_ok d -> do_alpha_blending_ok s d = true.
Proof.
  destruct s as [[[r g] b] a]. destruct d as [[[r' g'] b'] a'].
  intros (Hr & Hg & Hb & Ha) (Hr' & Hg' & Hb' & Ha').
  unfold do_alpha_blending_ok. fold (pack4 r g b a). fold (pack4 r' g' b' a').
  unfold blend_pixel_nonpremult_ok.
  change (channel_shift_ok 3) with true. change (channel_shift_ok 2) with true.
  change (channel_shift_ok 1) with true. change (channel_shift_ok 0) with true.
  change (channel_shift 3) with (8 * 3).
  rewrite !chan_of_pack by (assumption || lia).
  change (nth (Z.to_nat 3) [r; g; b; a] 0) with a. change (nth (Z.to_nat 3) [r'; g'; b'; a'] 0) with a'.
  cbv zeta. change (8 * 3) with 24.
  cbn [andb Z.leb Z.ltb Z.compare Pos.compare Pos.compare_cont].
  destruct (a =? 0) eqn:Ea; [reflexivity|]. apply Z.eqb_neq in Ea.
  assert (Ha1 : 1 <= a <= 255) by (unfold byte in Ha; lia).
  fold (dfa a a'). fold (bl_a a a').
  replace (Z.quot (wrapU 32 (Z.shiftl 1 24)) (bl_a a a')) with (bl_scale a a').
  2:{ unfold bl_scale. change (wrapU 32 (Z.shiftl 1 24)) with 16777216. symmetry. apply Z.quot_div_nonneg; [lia|].
      destruct (dfa_facts a a' Ha Ha') as (Hd0 & _ & _). unfold bl_a. lia. }
  destruct (dfa_facts a a' Ha Ha') as (Hd0 & _ & Hd1).
  assert (Hv : 0 <= a' * (255 - a) <= 65025) by (unfold byte in *; nia).
  destruct (div255_facts _ Hv) as (_ & _ & Hok).
  rewrite (wrapU_small 8 (dfa a a')) by (change (2 ^ 8) with 256; lia).
  (* every blend_channel_nonpremult_ok instance *)
  assert (Hch : forall k, 0 <= k <= 2 ->
     blend_channel_nonpremult_ok (pack4 r g b a) a (pack4 r' g' b' a') (dfa a a') (bl_scale a a') (channel_shift k) = true).
  { intros k Hk. unfold blend_channel_nonpremult_ok, channel_shift.
    replace (k * 8) with (8 * k) by lia.
    rewrite !chan_of_pack by (assumption || lia).
    assert (Hsc : byte (nth (Z.to_nat k) [r; g; b; a] 0)).
    { assert (Hc : k = 0 \/ k = 1 \/ k = 2) by lia. destruct Hc as [-> | [-> | ->]]; assumption. }
    assert (Hdc : byte (nth (Z.to_nat k) [r'; g'; b'; a'] 0)).
    { assert (Hc : k = 0 \/ k = 1 \/ k = 2) by lia. destruct Hc as [-> | [-> | ->]]; assumption. }
    set (sc := nth (Z.to_nat k) [r; g; b; a] 0) in *. set (dc := nth (Z.to_nat k) [r'; g'; b'; a'] 0) in *.
    cbv zeta. change (channel_shift_ok 3) with true. change (3 * 8) with 24.
    change (wrapU 64 (Z.shiftl 1 32)) with 4294967296.
    destruct (chan_quot sc a dc a' Hsc Hdc Ha1 Ha') as (HA & Hx & _).
    unfold bl_a in HA, Hx. fold (dfa a a') in *.
    set (x := sc * a + dc * dfa a a') in *. set (A := a + dfa a a') in *.
    assert (Hs : bl_scale a a' * A <= 16777216 < bl_scale a a' * A + A) by (unfold bl_scale, bl_a; fold A; lia).
    assert (Hs0 : 1 <= bl_scale a a') by nia.
    set (s := bl_scale a a') in *.
    assert (Hq : 256 * A <= Z.quot 4294967296 s).
    { rewrite Z.quot_div_nonneg by lia. apply Z.div_le_lower_bound; [lia|]. nia. }
    assert (Hxs : x * s <= 255 * 16777216) by nia.
    unfold byte in Hsc, Hdc.
    repeat (apply andb_true_intro; split);
      try (apply inr_true); try (apply Z.leb_le); try (apply Z.ltb_lt); try (apply negb_true_iff; apply Z.eqb_neq);
      try lia; try nia. }
  rewrite !Hch by lia. rewrite Hok.
  unfold bl_a in *.
  repeat (apply andb_true_intro; split); try reflexivity;
    try (apply inr_true); try (apply Z.leb_le); try (apply Z.ltb_lt); try (apply negb_true_iff; apply Z.eqb_neq);
    unfold byte in *; try lia; try nia.
Qed.
