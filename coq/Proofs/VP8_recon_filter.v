(* Proofs/VP8_recon_filter.v -- (iii) one macroblock: Vp8Decoder::loop_filter = Spec.VP8.filter_mb (parameters through
   VP8_filter_params.calc_params_reference, edge positions / strides / frame-edge exclusions / inner-edge condition
   through VP8_recon_stages.v); (iv) the filter pass of decode_frame_ = Spec.VP8.loop_filter. *)
From Coq Require Import ZArith NArith List Bool Lia.
From WebP Require Import Lib.Res Lib.ZBits Lib.Arr Gen.Kernels Gen.Tables Spec.VP8Tables Spec.VP8 Model.Vp8Predict Model.Vp8Recon
  Proofs.VP8_predict_base Proofs.VP8_arraykernels Proofs.VP8_filter_params
  Proofs.VP8_recon_base Proofs.VP8_recon_plane Proofs.VP8_recon_bytes Proofs.VP8_recon_mb Proofs.VP8_recon_chroma Proofs.VP8_recon_frame
  Proofs.VP8_recon_edge Proofs.VP8_recon_runs Proofs.VP8_recon_stages.
From WebP Require Model.Vp8Parse.
Import ListNotations.
Open Scope Z_scope.

(* ------------------------------------------------------------------------------------------------------------ *)
(* 1. header fields of the filter                                                                               *)
(* ------------------------------------------------------------------------------------------------------------ *)
(* the decoder fields against the reference header *)
Definition filt_rel (h : RHdr) (hs : header) : Prop :=
  rh_filter_type h = h_simple hs /\ rh_filter_level h = h_level hs /\ rh_sharpness_level h = h_sharpness hs /\
  rh_segments_enabled h = h_use_segment hs /\
  (forall seg, 0 <= seg < 4 -> exists sg, nth_error (rh_segment h) (Z.to_nat seg) = Some sg /\
     Vp8Parse.sg_delta_values sg = negb (h_absolute hs) /\ Vp8Parse.sg_loopfilter_level sg = nthZ (h_seg_filter hs) seg 0) /\
  nth 0 (rh_ref_delta h) 0 = (if h_use_lf_delta hs then nthZ (h_ref_lf_delta hs) 0 0 else 0) /\
  nth 0 (rh_mode_delta h) 0 = (if h_use_lf_delta hs then nthZ (h_mode_lf_delta hs) 0 0 else 0).

(* what the bitstream guarantees (6-bit level, 3-bit sharpness, 6-bit signed deltas and segment levels), and the
   condition under which libwebp and the RFC decoder agree on the level: the segment-adjusted base stays in 0..63 *)
Definition lf_valid (hs : header) : Prop :=
  0 <= h_level hs <= 63 /\ 0 <= h_sharpness hs <= 7 /\
  -63 <= nthZ (h_ref_lf_delta hs) 0 0 <= 63 /\ -63 <= nthZ (h_mode_lf_delta hs) 0 0 <= 63 /\
  forall seg, 0 <= seg < 4 ->
    -63 <= nthZ (h_seg_filter hs) seg 0 <= 63 /\
    0 <= (if h_use_segment hs then nthZ (h_seg_filter hs) seg 0 + (if h_absolute hs then 0 else h_level hs) else h_level hs) <= 63.

Lemma ref_level_range base r0 m0 i4 : 0 <= ref_level base r0 m0 i4 <= 63.
Proof. unfold ref_level, clip. destruct (Z.ltb_spec (base + r0 + (if i4 then m0 else 0)) 0); [lia|]. destruct (Z.ltb_spec 63 (base + r0 + (if i4 then m0 else 0))); lia. Qed.

Lemma ref_ilevel_range level sh : 0 <= level <= 63 -> 0 <= sh <= 7 -> 1 <= ref_ilevel level sh <= 63.
Proof.
  intros Hl Hs. unfold ref_ilevel. rewrite !Z.shiftr_div_pow2 by lia. change (2 ^ 2) with 4. change (2 ^ 1) with 2.
  Ltac Zify.zify_post_hook ::= Z.div_mod_to_equations.
  destruct (0 <? sh); [destruct (4 <? sh)|];
    repeat match goal with |- context [if ?c then _ else _] => destruct c eqn:? end;
    repeat match goal with H : (_ <? _) = true |- _ => apply Z.ltb_lt in H | H : (_ <? _) = false |- _ => apply Z.ltb_ge in H end; lia.
Qed.

Theorem filter_parameters_spec h hs mb m r : filt_rel h hs -> lf_valid hs ->
  (Vp8Parse.mb_luma_mode mb =? vp8_B_PRED) = m_i4 m -> seg_rel mb m r ->
  exists level il hev,
    filter_parameters h mb = Ok (level, il, hev) /\ 0 <= level <= 63 /\ 1 <= il <= 63 /\
    filter_strength hs (m_seg m) (m_i4 m) = (if 0 <? level then mkF (2 * level + il) il hev else mkF 0 0 0).
Proof.
  intros (Eft & Efl & Esh & Ese & Hseg & Er & Em) (Hl & Hsh & Hr & Hm & Hsg) Ei4 (_ & Esid & Hsid).
  destruct (Hseg (m_seg m) Hsid) as (sg & Enth & Edv & Elf).
  destruct (Hsg (m_seg m) Hsid) as (Hsl & Hbase).
  set (ref0 := if h_use_lf_delta hs then nthZ (h_ref_lf_delta hs) 0 0 else 0).
  set (mode0 := if h_use_lf_delta hs then nthZ (h_mode_lf_delta hs) 0 0 else 0).
  assert (Hr0 : -63 <= ref0 <= 63) by (unfold ref0; destruct (h_use_lf_delta hs); lia).
  assert (Hm0 : -63 <= mode0 <= 63) by (unfold mode0; destruct (h_use_lf_delta hs); lia).
  set (base := if h_use_segment hs then nthZ (h_seg_filter hs) (m_seg m) 0 + (if h_absolute hs then 0 else h_level hs) else h_level hs) in *.
  assert (Hbase' : (if h_use_segment hs
                    then (if negb (h_absolute hs) then h_level hs + nthZ (h_seg_filter hs) (m_seg m) 0 else nthZ (h_seg_filter hs) (m_seg m) 0)
                    else h_level hs) = base).
  { unfold base. destruct (h_use_segment hs); [|reflexivity]. destruct (h_absolute hs); cbn [negb]; lia. }
  destruct (calc_params_reference (h_level hs) (h_use_segment hs) (negb (h_absolute hs)) (nthZ (h_seg_filter hs) (m_seg m) 0) ref0 mode0
              (Vp8Parse.mb_luma_mode mb) (h_sharpness hs) Hl Hsl Hr0 Hm0 Hsh ltac:(rewrite Hbase'; exact Hbase)) as [Ec Eok].
  cbv zeta in Ec, Eok. rewrite Hbase' in Ec.
  change 4 with vp8_B_PRED in Ec. rewrite Ei4 in Ec.
  set (level := ref_level base ref0 mode0 (m_i4 m)) in *.
  exists level, (ref_ilevel level (h_sharpness hs)), (ref_hev level).
  pose proof (ref_level_range base ref0 mode0 (m_i4 m)) as Hlv. fold level in Hlv.
  split; [|split; [exact Hlv|split; [apply ref_ilevel_range; assumption|]]].
  - unfold filter_parameters. rewrite Esid, Enth. unfold cfp_apply.
    rewrite Efl, Ese, Edv, Elf, Er, Em, Esh. fold ref0. fold mode0. rewrite Eok. cbn [negb]. rewrite Ec. reflexivity.
  - pose proof (filter_params_refine hs (m_seg m) (m_i4 m) Hl Hsl Hr Hm Hsh Hbase) as Hf. cbv zeta in Hf.
    fold ref0 in Hf. fold mode0 in Hf.
    destruct (calc_params_reference (h_level hs) (h_use_segment hs) (negb (h_absolute hs)) (nthZ (h_seg_filter hs) (m_seg m) 0) ref0 mode0
                (if m_i4 m then 4 else 0) (h_sharpness hs) Hl Hsl Hr0 Hm0 Hsh ltac:(rewrite Hbase'; exact Hbase)) as [Ec2 _].
    cbv zeta in Ec2. rewrite Hbase' in Ec2.
    assert (Ei : ((if m_i4 m then 4 else 0) =? 4) = m_i4 m) by (destruct (m_i4 m); reflexivity). rewrite Ei in Ec2. fold level in Ec2.
    rewrite Ec2 in Hf. cbn [nth] in Hf. exact Hf.
Qed.

(* ------------------------------------------------------------------------------------------------------------ *)
(* 2. one macroblock                                                                                            *)
(* ------------------------------------------------------------------------------------------------------------ *)
(* the three decoder planes being filtered against the reference planes *)
Definition frel3 (mbw mbh : Z) (pl : planes) (b : planes3) : Prop :=
  p_w (pl_y pl) = mbw * 16 /\ p_w (pl_u pl) = mbw * 8 /\ p_w (pl_v pl) = mbw * 8 /\
  pst (fst (fst b)) (p_a (pl_y pl)) (mbw * 16) (mbh * 16) /\
  pst (snd (fst b)) (p_a (pl_u pl)) (mbw * 8) (mbh * 8) /\
  pst (snd b) (p_a (pl_v pl)) (mbw * 8) (mbh * 8).

Theorem loop_filter_mb_refines h hs pl mx my mb m r b :
  filt_rel h hs -> lf_valid hs -> h_level hs <> 0 ->
  (Vp8Parse.mb_luma_mode mb =? vp8_B_PRED) = m_i4 m -> seg_rel mb m r ->
  0 <= mx < rh_mbwidth h -> 0 <= my < rh_mbheight h ->
  frel3 (rh_mbwidth h) (rh_mbheight h) pl b ->
  exists b', Vp8Recon.loop_filter h mx my mb b = Ok b' /\
             frel3 (rh_mbwidth h) (rh_mbheight h) (filter_mb hs pl mx my m r) b'.
Proof.
  intros Hfr Hval Hlev Ei4 Hsg Hmx Hmy (Wy & Wu & Wv & Py & Pu & Pv).
  destruct b as [[y u] v]. cbn [fst snd] in Py, Pu, Pv.
  destruct (filter_parameters_spec h hs mb m r Hfr Hval Ei4 Hsg) as (level & il & hev & Efp & Hlv & Hil & Efs).
  unfold Vp8Recon.loop_filter. rewrite Efp. cbn [bind].
  unfold filter_mb. rewrite Efs.
  rewrite Z.gtb_ltb. destruct (Z.ltb_spec 0 level) as [Hpos|Hzero].
  2:{ cbn [f_limit]. change (0 =? 0) with true. cbv iota. exists (y, u, v). split; [reflexivity|].
      split; [exact Wy|]. split; [exact Wu|]. split; [exact Wv|]. cbn [fst snd]. split; [exact Py|]. split; [exact Pu|exact Pv]. }
  cbn [f_limit f_ilevel f_hev].
  rewrite (eqb_false (2 * level + il) 0) by lia.
  rewrite (ltb_false 255 ((level + 2) * 2 + il)) by lia.
  rewrite !usub_ok by nia. cbn [bind].
  rewrite !Z.min_r by nia.
  destruct Hfr as (Eft & Efl & _ & _ & _ & _ & _).
  assert (Eftype : (filter_type hs =? 1) = rh_filter_type h).
  { unfold filter_type. rewrite (eqb_false (h_level hs) 0) by exact Hlev. rewrite Eft. destruct (h_simple hs); reflexivity. }
  rewrite Eftype.
  destruct (proj2 Hsg) as (Esid & _). destruct Hsg as (Enz & _).
  assert (Einner : ((Vp8Parse.mb_luma_mode mb =? vp8_B_PRED) || Vp8Parse.mb_non_zero_coeffs mb) = (m_i4 m || r_nonzero r))
    by (rewrite Ei4, Enz; reflexivity).
  replace ((level + 2) * 2 + il) with (2 * level + il + 4) by ring.
  replace (level * 2 + il) with (2 * level + il) by ring.
  set (lim := 2 * level + il).
  destruct (rh_filter_type h) eqn:Esimple.
  - (* simple filter: luma only *)
    destruct (lf_left_simple h (rh_mbheight h) mx my mb il hev (lim + 4) Hmx Hmy y u v (p_a (pl_y pl)) Py Esimple) as (y1 & E1 & P1).
    rewrite E1. cbn [bind].
    destruct (lf_inner_v_simple h (rh_mbheight h) mx my mb il hev lim Hmx Hmy y1 u v _ P1 Esimple) as (y2 & E2 & P2).
    rewrite E2. cbn [bind].
    destruct (lf_top_simple h (rh_mbheight h) mx my mb il hev (lim + 4) Hmx Hmy y2 u v _ P2 Esimple) as (y3 & E3 & P3).
    rewrite E3. cbn [bind].
    destruct (lf_inner_h_simple h (rh_mbheight h) mx my mb il hev lim Hmx Hmy y3 u v _ P3 Esimple) as (y4 & E4 & P4).
    rewrite E4. exists (y4, u, v). split; [reflexivity|].
    unfold frel3. cbn [pl_y pl_u pl_v p_w p_a fst snd].
    split; [exact Wy|]. split; [exact Wu|]. split; [exact Wv|]. split; [|split; [exact Pu|exact Pv]].
    rewrite filter_mb_plane_stages. rewrite Wy. rewrite <- Einner. exact P4.
  - (* normal filter *)
    destruct (lf_left_normal h (rh_mbheight h) mx my mb il hev (lim + 4) Hmx Hmy y u v _ _ _ Py Pu Pv Esimple) as (y1 & u1 & v1 & E1 & Py1 & Pu1 & Pv1).
    rewrite E1. cbn [bind].
    destruct (lf_inner_v_normal h (rh_mbheight h) mx my mb il hev lim Hmx Hmy y1 u1 v1 _ _ _ Py1 Pu1 Pv1 Esimple) as (y2 & u2 & v2 & E2 & Py2 & Pu2 & Pv2).
    rewrite E2. cbn [bind].
    destruct (lf_top_normal h (rh_mbheight h) mx my mb il hev (lim + 4) Hmx Hmy y2 u2 v2 _ _ _ Py2 Pu2 Pv2 Esimple) as (y3 & u3 & v3 & E3 & Py3 & Pu3 & Pv3).
    rewrite E3. cbn [bind].
    destruct (lf_inner_h_normal h (rh_mbheight h) mx my mb il hev lim Hmx Hmy y3 u3 v3 _ _ _ Py3 Pu3 Pv3 Esimple) as (y4 & u4 & v4 & E4 & Py4 & Pu4 & Pv4).
    rewrite E4. exists (y4, u4, v4). split; [reflexivity|].
    unfold frel3. cbn [pl_y pl_u pl_v p_w p_a fst snd].
    split; [exact Wy|]. split; [exact Wu|]. split; [exact Wv|].
    rewrite !filter_mb_plane_stages. rewrite Wy, Wu, Wv. rewrite <- Einner.
    split; [exact Py4|]. split; [exact Pu4|exact Pv4].
Qed.
