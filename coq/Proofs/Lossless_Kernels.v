(* The scalar kernels of the lossless inverse transforms, as regenerated from lossless_transform.rs / lossless.rs
   by tools/rs2v.py (Gen.Kernels), equal the formulas of the WebP lossless bitstream specification on the
   argument ranges the decoder uses, and their checked arithmetic never overflows there (C01 e., C03). *)
From Coq Require Import ZArith List Bool Lia.
From WebP Require Import Gen.Kernels Lib.ZBits Lib.Sweep Model.LosslessTransform.
Import ListNotations.
Open Scope Z_scope.

Ltac Zify.zify_post_hook ::= Z.div_mod_to_equations.

(* the specification's Clamp to [0, 255] *)
Definition clamp255 (x : Z) : Z := Z.min (Z.max x 0) 255.

Lemma wrapU8_byte x : 0 <= x <= 255 -> wrapU 8 x = x.
Proof. intros H. apply wrapU_small. change (2 ^ 8) with 256. lia. Qed.

(* Average2(a, b) = (a + b) / 2 *)
Theorem average2_spec a b : byte a -> byte b -> average2 a b = (a + b) / 2 /\ average2_ok a b = true /\ byte (average2 a b).
Proof.
  unfold byte, average2, average2_ok. intros Ha Hb.
  rewrite Z.quot_div_nonneg by lia. rewrite wrapU8_byte by lia.
  split; [reflexivity|]. split; [apply inr_true; lia | lia].
Qed.

(* ClampAddSubtractFull(a, b, c) = Clamp(a + b - c) *)
Theorem clamp_add_subtract_full_spec a b c :
  clamp_add_subtract_full a b c = clamp255 (a + b - c) /\ byte (clamp_add_subtract_full a b c).
Proof. unfold clamp_add_subtract_full, clamp255, byte. rewrite wrapU8_byte by lia. lia. Qed.

Theorem clamp_add_subtract_full_ok_bytes a b c : byte a -> byte b -> byte c -> clamp_add_subtract_full_ok a b c = true.
Proof.
  unfold byte, clamp_add_subtract_full_ok. intros Ha Hb Hc.
  apply andb_true_iff. split; apply inr_true; lia.
Qed.

(* ClampAddSubtractHalf(a, b) = Clamp(a + (a - b) / 2), C division (truncation towards zero) *)
Theorem clamp_add_subtract_half_spec a b :
  clamp_add_subtract_half a b = clamp255 (a + Z.quot (a - b) 2) /\ byte (clamp_add_subtract_half a b).
Proof. unfold clamp_add_subtract_half, clamp255, byte. rewrite wrapU8_byte by lia. lia. Qed.

Theorem clamp_add_subtract_half_ok_bytes a b : byte a -> byte b -> clamp_add_subtract_half_ok a b = true.
Proof.
  unfold byte, clamp_add_subtract_half_ok. intros Ha Hb.
  assert (H : -255 <= Z.quot (a - b) 2 <= 255).
  { destruct (Z_le_gt_dec b a).
    - rewrite Z.quot_div_nonneg by lia. lia.
    - replace (a - b) with (- (b - a)) by lia. rewrite Z.quot_opp_l by lia. rewrite Z.quot_div_nonneg by lia. lia. }
  rewrite !andb_true_iff. repeat split; apply inr_true; lia.
Qed.

(* the argument of predictor 13, (L + T) / 2 on bytes, is a byte *)
Lemma cash_ok p t tl : byte p -> byte t -> byte tl ->
  cash p t tl = Res.Ok (clamp255 ((p + t) / 2 + Z.quot ((p + t) / 2 - tl) 2)).
Proof.
  intros Hp Ht Htl. unfold cash. unfold byte in *.
  rewrite Z.quot_div_nonneg by lia.
  rewrite clamp_add_subtract_half_ok_bytes by (unfold byte; lia).
  f_equal. apply clamp_add_subtract_half_spec.
Qed.

Lemma casf_ok p t tl : byte p -> byte t -> byte tl -> casf p t tl = Res.Ok (clamp255 (p + t - tl)).
Proof.
  intros Hp Ht Htl. unfold casf. rewrite clamp_add_subtract_full_ok_bytes by assumption.
  f_equal. apply clamp_add_subtract_full_spec.
Qed.

(* ColorTransformDelta((int8) t, (int8) c) = (t * c) >> 5 with an arithmetic shift; the Rust code shifts the
   product reinterpreted as u32 logically, which agrees modulo 2^27, hence on the byte that is kept *)
Lemma ctd_sweep :
  forallb (fun t => forallb (fun c =>
     (color_transform_delta t c mod 256 =? Z.shiftr (t * c) 5 mod 256)
     && color_transform_delta_ok t c && (color_transform_delta t c <? 2 ^ 27)
     && (0 <=? color_transform_delta t c)) (zrange 256 (-128))) (zrange 256 (-128)) = true.
Proof. vm_compute. reflexivity. Qed.

Theorem color_transform_delta_spec t c : -128 <= t <= 127 -> -128 <= c <= 127 ->
  color_transform_delta t c mod 256 = Z.shiftr (t * c) 5 mod 256 /\
  color_transform_delta_ok t c = true /\ 0 <= color_transform_delta t c < 2 ^ 27.
Proof.
  intros Ht Hc.
  pose proof (forallb_zrange _ 256 (-128) ctd_sweep t ltac:(cbn; lia)) as H. cbn beta in H.
  pose proof (forallb_zrange _ 256 (-128) H c ltac:(cbn; lia)) as H1. cbn beta in H1.
  rewrite !andb_true_iff in H1. destruct H1 as [[[H1 H2] H3] H4].
  apply Z.eqb_eq in H1. apply Z.ltb_lt in H3. apply Z.leb_le in H4. auto.
Qed.

Lemma wrapS8_range x : -128 <= wrapS 8 x <= 127.
Proof.
  unfold wrapS. change (8 - 1) with 7. change (2 ^ 7) with 128. change (2 ^ 8) with 256.
  pose proof (Z.mod_pos_bound (x + 128) 256 ltac:(lia)). lia.
Qed.

(* on bytes, as the colour transform uses it: both arguments reinterpreted as int8 *)
Theorem ctd_spec tb cb :
  ctd tb cb mod 256 = Z.shiftr (wrapS 8 tb * wrapS 8 cb) 5 mod 256 /\ 0 <= ctd tb cb < 2 ^ 27.
Proof.
  unfold ctd. pose proof (wrapS8_range tb). pose proof (wrapS8_range cb).
  destruct (color_transform_delta_spec (wrapS 8 tb) (wrapS 8 cb)) as (H1 & _ & H3); auto.
Qed.

(* subsample_size(size, bits) = ceil(size / 2^bits); never fails for u16 sizes and shift counts below 32 *)
Theorem subsample_size_spec size bits : 0 <= size <= 65535 -> 0 <= bits < 32 ->
  subsample_size size bits = (size + 2 ^ bits - 1) / 2 ^ bits /\ subsample_size_ok size bits = true /\
  0 <= subsample_size size bits <= size.
Proof.
  intros Hs Hb. unfold subsample_size, subsample_size_ok.
  assert (Hp : 1 <= 2 ^ bits <= 2 ^ 31) by (split; [apply (Z.pow_le_mono_r 2 0 bits); lia | apply Z.pow_le_mono_r; lia]).
  change (2 ^ 31) with 2147483648 in Hp.
  rewrite Z.shiftl_1_l. rewrite wrapU_small by (change (2 ^ 32) with 4294967296; lia).
  rewrite Z.shiftr_div_pow2 by lia.
  assert (Hr : 0 <= (size + 2 ^ bits - 1) / 2 ^ bits <= size).
  { clear Hb. generalize dependent (2 ^ bits). intros p Hp. split.
    - apply Z.div_pos; lia.
    - destruct (Z.eq_dec size 0) as [->|Hne].
      + rewrite Z.div_small by lia. lia.
      + apply Z.div_le_upper_bound; [lia|]. assert (0 <= (size - 1) * (p - 1)) by (apply Z.mul_nonneg_nonneg; lia). lia. }
  split; [reflexivity|]. split; [|exact Hr].
  rewrite !andb_true_iff. repeat split; try apply inr_true; try apply Z.leb_le; try apply Z.ltb_lt; lia.
Qed.

Corollary subsample_ok size bits : 0 <= size <= 65535 -> 0 <= bits < 32 ->
  subsample size bits = Res.Ok ((size + 2 ^ bits - 1) / 2 ^ bits).
Proof.
  intros Hs Hb. unfold subsample. destruct (subsample_size_spec size bits Hs Hb) as (H1 & H2 & _).
  rewrite H2, H1. reflexivity.
Qed.

Example kernels_example :
  average2 255 254 = 254 /\ clamp_add_subtract_full 200 100 20 = 255 /\ clamp_add_subtract_half 10 201 = 0 /\
  ctd 255 255 = 0 /\ ctd 128 127 mod 256 = 4 /\ subsample_size 17 4 = 2.
Proof. vm_compute. repeat split. Qed.
