(* C01 / C03, inverse transforms, (a): subtract green.
   Model.LosslessTransform.apply_subtract_green_transform (lossless_transform.rs, in place on R,G,B,A bytes) refines
   Spec.VP8L.inverse_subtract_green (section 4.3: red and blue get green added, modulo 256), and never panics on any buffer. *)
From Coq Require Import ZArith NArith List Bool Lia.
From WebP Require Import Lib.Res Lib.Arr Lib.ZBits Gen.Kernels Model.LosslessLib Model.LosslessTransform
  Proofs.Lossless_HuffmanSafe Proofs.Lossless_CopyWithin Proofs.C01T_repr.
From WebP Require Spec.VP8L Proofs.C04_arr Proofs.C04_transforms.
Import ListNotations.
Open Scope Z_scope.

Ltac Zify.zify_post_hook ::= Z.div_mod_to_equations.

(* decide the boolean comparisons of a goal by lia *)
Ltac zeqb :=
  repeat match goal with
  | |- context [?a =? ?b] => first [ replace (a =? b) with false by (symmetry; apply Z.eqb_neq; lia)
                                    | replace (a =? b) with true by (symmetry; apply Z.eqb_eq; lia) ]
  end.

(* what the loop does to byte k of pixel k / 4 *)
Definition green_byte (img : arr) (k : Z) : Z :=
  if k mod 4 =? 0 then wadd8 (az img k) (az img (k + 1))
  else if k mod 4 =? 2 then wadd8 (az img k) (az img (k - 1))
  else az img k.

(* C03: total on every buffer (also lengths not divisible by four: the trailing bytes are left alone) *)
Theorem subtract_green_total img :
  exists img', apply_subtract_green_transform img = Ok img' /\ zlen img' = zlen img /\
    forall k, 0 <= k -> az img' k = if k <? 4 * (zlen img / 4) then green_byte img k else az img k.
Proof.
  unfold apply_subtract_green_transform.
  assert (Hlen : 0 <= zlen img) by (unfold zlen; lia).
  set (P := fun (j : Z) (cur : arr) => zlen cur = zlen img /\
              forall k, 0 <= k -> az cur k = if k <? 4 * j then green_byte img k else az img k).
  destruct (for_loop4_inv P (fun pos img0 =>
      bind (zget img0 pos) (fun r => bind (zget img0 (pos + 1)) (fun g => bind (zget img0 (pos + 2)) (fun b =>
      bind (zset img0 pos (wadd8 r g)) (fun img1 => zset img1 (pos + 2) (wadd8 b g))))))
      (Z.to_nat (zlen img / 4)) 0 img) as (img' & E & HP).
  - split; [reflexivity|]. intros k Hk. replace (k <? 4 * 0) with false by (symmetry; apply Z.ltb_ge; lia). reflexivity.
  - intros j cur Hj (Hl & Hz). rewrite Z2Nat.id in Hj by (apply Z.div_pos; lia).
    rewrite !zget_ok by lia. cbn [bind].
    destruct (zset_ok cur (4 * j) (wadd8 (az cur (4 * j)) (az cur (4 * j + 1))) ltac:(lia)) as (c1 & E1 & L1 & Z1). rewrite E1. cbn [bind].
    destruct (zset_ok c1 (4 * j + 2) (wadd8 (az cur (4 * j + 2)) (az cur (4 * j + 1))) ltac:(lia)) as (c2 & E2 & L2 & Z2). rewrite E2.
    exists c2. split; [reflexivity|]. split; [lia|]. intros k Hk. rewrite Z2, Z1 by lia.
    rewrite (Hz (4 * j)), (Hz (4 * j + 1)), (Hz (4 * j + 2)) by lia.
    replace (4 * j <? 4 * j) with false by (symmetry; apply Z.ltb_ge; lia).
    replace (4 * j + 1 <? 4 * j) with false by (symmetry; apply Z.ltb_ge; lia).
    replace (4 * j + 2 <? 4 * j) with false by (symmetry; apply Z.ltb_ge; lia).
    destruct (Z.eqb_spec k (4 * j + 2)) as [->|N2]; [|destruct (Z.eqb_spec k (4 * j)) as [->|N0]].
    + replace (4 * j + 2 <? 4 * (j + 1)) with true by (symmetry; apply Z.ltb_lt; lia).
      unfold green_byte. replace ((4 * j + 2) mod 4) with 2 by lia. cbn [Z.eqb Pos.eqb]. do 2 f_equal. lia.
    + replace (4 * j <? 4 * (j + 1)) with true by (symmetry; apply Z.ltb_lt; lia).
      unfold green_byte. replace ((4 * j) mod 4) with 0 by lia. reflexivity.
    + rewrite Hz by lia. destruct (Z.ltb_spec k (4 * j)).
      * replace (k <? 4 * (j + 1)) with true by (symmetry; apply Z.ltb_lt; lia). reflexivity.
      * destruct (Z.ltb_spec k (4 * (j + 1))); [|reflexivity].
        unfold green_byte. assert (Hc : k = 4 * j + 1 \/ k = 4 * j + 3) by lia. destruct Hc as [-> | ->].
        -- replace ((4 * j + 1) mod 4) with 1 by lia. reflexivity.
        -- replace ((4 * j + 3) mod 4) with 3 by lia. reflexivity.
  - exists img'. split; [exact E|]. destruct HP as (Hl & Hz). split; [exact Hl|].
    intros k Hk. rewrite Hz by lia. rewrite Z2Nat.id by (apply Z.div_pos; lia). reflexivity.
Qed.

Corollary subtract_green_no_panic img : forall p, apply_subtract_green_transform img <> Panic p.
Proof. intros p. destruct (subtract_green_total img) as (img' & E & _). rewrite E. discriminate. Qed.

(* the pixel-level effect *)
Lemma q4_add_green p : q4 (V.add_green p) = (wadd8 (V.RED p) (V.GREEN p), V.GREEN p, wadd8 (V.BLUE p) (V.GREEN p), V.ALPHA p).
Proof.
  unfold V.add_green, q4, wadd8.
  destruct (argb_channels (V.ALPHA p) ((V.RED p + V.GREEN p) mod 256) (V.GREEN p) ((V.BLUE p + V.GREEN p) mod 256)) as (E1 & E2 & E3 & E4);
    try apply ALPHA_byte; try apply GREEN_byte; try (unfold byte; lia).
  rewrite E1, E2, E3, E4. reflexivity.
Qed.

Lemma add_green_range p : 0 <= V.add_green p < 2 ^ 32.
Proof. unfold V.add_green. apply argb_range; try apply ALPHA_byte; try apply GREEN_byte; unfold byte; lia. Qed.

(* C01: on a buffer of exactly n pixels the result represents the specification's inverse transform *)
Theorem subtract_green_refines bytes px n : repr bytes px n -> zlen bytes = 4 * n ->
  exists bytes', apply_subtract_green_transform bytes = Ok bytes' /\ zlen bytes' = zlen bytes /\
                 repr bytes' (V.inverse_subtract_green px) n.
Proof.
  intros Hr Hlen. destruct (subtract_green_total bytes) as (b' & E & Hl & Hz).
  exists b'. split; [exact E|]. split; [exact Hl|].
  destruct (C04_transforms.inverse_subtract_green_spec px) as (Ha & Hp).
  pose proof (repr_alen _ _ _ Hr) as Han.
  apply repr_intro; [lia | rewrite Ha; exact Han |].
  intros i Hi. rewrite (Hp i) by lia. split; [|apply add_green_range].
  rewrite q4_add_green. destruct (repr_az4 _ _ _ _ Hr Hi) as (E0 & E1 & E2 & E3).
  unfold cell. rewrite !Hz by lia.
  replace (zlen bytes / 4) with n by lia.
  replace (4 * i <? 4 * n) with true by (symmetry; apply Z.ltb_lt; lia).
  replace (4 * i + 1 <? 4 * n) with true by (symmetry; apply Z.ltb_lt; lia).
  replace (4 * i + 2 <? 4 * n) with true by (symmetry; apply Z.ltb_lt; lia).
  replace (4 * i + 3 <? 4 * n) with true by (symmetry; apply Z.ltb_lt; lia).
  unfold green_byte.
  replace ((4 * i) mod 4) with 0 by lia. replace ((4 * i + 1) mod 4) with 1 by lia.
  replace ((4 * i + 2) mod 4) with 2 by lia. replace ((4 * i + 3) mod 4) with 3 by lia.
  cbn [Z.eqb Pos.eqb]. replace (4 * i + 2 - 1) with (4 * i + 1) by lia.
  rewrite E0, E1, E2, E3. reflexivity.
Qed.

(* the hypotheses are satisfiable: two pixels *)
Example subtract_green_example :
  let bytes := of_list [10; 250; 30; 255; 1; 2; 3; 4] in
  let px := of_list [V.argb 255 10 250 30; V.argb 4 1 2 3] in
  apply_subtract_green_transform bytes = Ok (of_list [4; 250; 24; 255; 3; 2; 5; 4]) /\
  V.pixel_list (V.inverse_subtract_green px) = [V.argb 255 4 250 24; V.argb 4 3 2 5].
Proof. vm_compute. split; reflexivity. Qed.
