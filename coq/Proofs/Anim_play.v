(* C06: the frames a fresh decoder delivers (Model.Anim.play) are the renderings of the container specification's
   canvas model (Spec.Anim.frames_upto) with the implementation's blend kernel as the per-pixel operator, and their
   durations; corollaries for overwritten, transparent and opaque source pixels. *)
From Coq Require Import ZArith NArith List Bool Lia.
From WebP Require Import Lib.Res Lib.Arr Lib.ZBits Spec.Blend Model.AlphaBlend Model.Anim Spec.Anim
  Proofs.Anim_arr Proofs.Anim_composite Proofs.C12_blend.
Import ListNotations.
Open Scope Z_scope.

(* ------------------------------------------------------------------------------------------------ *)
(* how the container specification reads the file the model is given                                 *)
(* ------------------------------------------------------------------------------------------------ *)
Fixpoint group4 (l : list Z) : list pixel :=
  match l with r :: g :: b :: a :: tl => (r, g, b, a) :: group4 tl | _ => [] end.
Fixpoint group3 (l : list Z) : list pixel :=
  match l with r :: g :: b :: tl => (r, g, b, 255) :: group3 tl | _ => [] end.

(* ANMF: Frame X / Frame Y are stored halved, width and height minus one; bit 1 of the flags byte clear = blend,
   bit 0 set = dispose to background *)
Definition frame_of (fr : mframe) : frame :=
  {| fr_x := mf_xh fr * 2; fr_y := mf_yh fr * 2; fr_w := mf_wm1 fr + 1; fr_h := mf_hm1 fr + 1;
     fr_duration := mf_duration fr;
     fr_blend := Z.land (mf_flags fr) 2 =? 0;
     fr_dispose := negb (Z.land (mf_flags fr) 1 =? 0);
     fr_has_alpha := mf_has_alpha fr;
     fr_pixels := if mf_has_alpha fr then group4 (mf_data fr) else group3 (mf_data fr) |}.

Definition anim_of (f : mfile) : anim :=
  {| an_w := m_w f; an_h := m_h f; an_alpha := m_alpha f; an_bg_stored := m_bg_stored f;
     an_frames := map frame_of (m_frames f) |}.

(* a file the decoder accepts: 24-bit ANMF fields, frames of at most 16384 x 16384 inside the canvas, payloads of the
   frame's size; the canvas small enough for the u32 product width * height * 4 (see F11) *)
Definition valid_mframe (W H : Z) (fr : mframe) : Prop :=
  0 <= mf_xh fr < 16777216 /\ 0 <= mf_yh fr < 16777216 /\ 0 <= mf_wm1 fr < 16384 /\ 0 <= mf_hm1 fr < 16384 /\
  mf_xh fr * 2 + (mf_wm1 fr + 1) <= W /\ mf_yh fr * 2 + (mf_hm1 fr + 1) <= H /\
  Z.of_nat (length (mf_data fr)) = (mf_wm1 fr + 1) * (mf_hm1 fr + 1) * (if mf_has_alpha fr then 4 else 3).

Definition valid_file (f : mfile) : Prop :=
  1 <= m_w f /\ 1 <= m_h f /\ m_w f * m_h f * 4 < 18446744073709551616 /\ length (m_bg_stored f) = 4%nat /\
  m_frames f <> [] /\ Forall (valid_mframe (m_w f) (m_h f)) (m_frames f).

Lemma group4_length : forall n l, length l = (4 * n)%nat -> length (group4 l) = n.
Proof.
  induction n as [|n IH]; intros l H.
  - destruct l; [reflexivity|discriminate].
  - destruct l as [|r [|g [|b [|a tl]]]]; cbn [length] in H; try lia. cbn [group4 length]. rewrite IH by lia. reflexivity.
Qed.

Lemma group3_length : forall n l, length l = (3 * n)%nat -> length (group3 l) = n.
Proof.
  induction n as [|n IH]; intros l H.
  - destruct l; [reflexivity|discriminate].
  - destruct l as [|r [|g [|b tl]]]; cbn [length] in H; try lia. cbn [group3 length]. rewrite IH by lia. reflexivity.
Qed.

Lemma nth_group4 : forall i l, (4 * i + 4 <= length l)%nat ->
  nth i (group4 l) (0, 0, 0, 0) = (nth (4 * i) l 0, nth (4 * i + 1) l 0, nth (4 * i + 2) l 0, nth (4 * i + 3) l 0).
Proof.
  induction i as [|i IH]; intros l H.
  - destruct l as [|r [|g [|b [|a tl]]]]; cbn [length] in H; try lia. reflexivity.
  - destruct l as [|r [|g [|b [|a tl]]]]; cbn [length] in H; try lia. cbn [group4 nth]. rewrite IH by lia.
    replace (4 * S i)%nat with (S (S (S (S (4 * i))))) by lia.
    replace (S (S (S (S (4 * i)))) + 1)%nat with (S (S (S (S (4 * i + 1))))) by lia.
    replace (S (S (S (S (4 * i)))) + 2)%nat with (S (S (S (S (4 * i + 2))))) by lia.
    replace (S (S (S (S (4 * i)))) + 3)%nat with (S (S (S (S (4 * i + 3))))) by lia.
    reflexivity.
Qed.

Lemma nth_group3 : forall i l, (3 * i + 3 <= length l)%nat ->
  nth i (group3 l) (0, 0, 0, 0) = (nth (3 * i) l 0, nth (3 * i + 1) l 0, nth (3 * i + 2) l 0, 255).
Proof.
  induction i as [|i IH]; intros l H.
  - destruct l as [|r [|g [|b tl]]]; cbn [length] in H; try lia. reflexivity.
  - destruct l as [|r [|g [|b tl]]]; cbn [length] in H; try lia. cbn [group3 nth]. rewrite IH by lia.
    replace (3 * S i)%nat with (S (S (S (3 * i)))) by lia.
    replace (S (S (S (3 * i))) + 1)%nat with (S (S (S (3 * i + 1)))) by lia.
    replace (S (S (S (3 * i))) + 2)%nat with (S (S (S (3 * i + 2)))) by lia.
    reflexivity.
Qed.

Lemma valid_frame_of W H fr : valid_mframe W H fr -> valid_frame W H (frame_of fr).
Proof.
  intros (Hx & Hy & Hw & Hh & Hxw & Hyh & HL). unfold valid_frame, frame_of. cbn.
  repeat split; try lia.
  destruct (mf_has_alpha fr).
  - rewrite (group4_length (Z.to_nat ((mf_wm1 fr + 1) * (mf_hm1 fr + 1)))); nia.
  - rewrite (group3_length (Z.to_nat ((mf_wm1 fr + 1) * (mf_hm1 fr + 1)))); nia.
Qed.

Lemma valid_anim_of f : valid_file f -> valid_anim (anim_of f).
Proof.
  intros (HW & HH & HB & Hbg & Hne & Hall). unfold valid_anim, anim_of. cbn.
  repeat split; try assumption.
  - destruct (m_frames f); [contradiction|discriminate].
  - apply Forall_map. eapply Forall_impl; [|exact Hall]. intros fr. apply valid_frame_of.
Qed.

(* the decoded payload, read by the model's index arithmetic, is the specification's frame pixel *)
Lemma frame_pixel_fpix W H fr x y : valid_mframe W H fr -> 0 <= x < mf_wm1 fr + 1 -> 0 <= y < mf_hm1 fr + 1 ->
  frame_pixel (frame_of fr) x y = fpix (mf_has_alpha fr) (of_list (mf_data fr)) (mf_wm1 fr + 1) x y.
Proof.
  intros (Hx & Hy & Hw & Hh & Hxw & Hyh & HL) Hxr Hyr.
  pose proof (slot_bound (mf_wm1 fr + 1) (mf_hm1 fr + 1) x y Hxr Hyr) as Hs.
  unfold frame_pixel, frame_of, fpix. cbn [fr_w fr_pixels fr_has_alpha].
  destruct (mf_has_alpha fr).
  - rewrite nth_group4 by lia. unfold get4. rewrite !zraw_of_list by lia.
    repeat f_equal; lia.
  - rewrite nth_group3 by lia. rewrite !zraw_of_list by lia.
    repeat f_equal; lia.
Qed.

(* ------------------------------------------------------------------------------------------------ *)
(* the decoder state after k frames, against the specification's state                               *)
(* ------------------------------------------------------------------------------------------------ *)
Definition prev_rel (W H : Z) (st : astate) (prev : option frame) : Prop :=
  match prev with
  | None => dispose_next_frame st = true /\ previous_frame_width st = 0 /\ previous_frame_height st = 0 /\
            previous_frame_x_offset st = 0 /\ previous_frame_y_offset st = 0
  | Some p => dispose_next_frame st = fr_dispose p /\ previous_frame_width st = fr_w p /\ previous_frame_height st = fr_h p /\
            previous_frame_x_offset st = fr_x p /\ previous_frame_y_offset st = fr_y p /\ valid_frame W H p
  end.

Definition canvas_rel (W H : Z) (bg : px) (st : astate) (K : canvas) : Prop :=
  match acanvas st with
  | Some a => crep W H a K
  | None => forall x y, 0 <= x < W -> 0 <= y < H -> K x y = bg
  end.

Definition state_rel (f : mfile) (st : astate) (k : nat) (S : canvas * option frame) : Prop :=
  next_frame st = Z.of_nat k /\ next_frame_start st = Z.of_nat k /\
  prev_rel (m_w f) (m_h f) st (snd S) /\ canvas_rel (m_w f) (m_h f) (background_color f) st (fst S).

Definition kstep (f : mfile) := step do_alpha_blending (background (m_bg_stored f)).

Lemma fresh_state_rel f : state_rel f fresh_state 0 (canvas0 (background (m_bg_stored f)), None).
Proof. unfold state_rel, fresh_state, prev_rel, canvas_rel. cbn. repeat split. Qed.

Lemma new_canvas_crep W H c : fits W H -> crep W H (new_canvas (W * H * 4) c) (fun _ _ => c).
Proof.
  intros (HW & HH & HB). split; [apply zlen_new_canvas; nia|].
  intros x y Hx Hy. pose proof (slot_bound W H x y Hx Hy) as Hs.
  unfold new_canvas. change 0 with (0 * 4) at 1. rewrite get4_fill4 by lia.
  rewrite Z.div_mul by lia. rewrite Z2Nat.id by lia.
  replace ((0 <=? x + y * W) && (x + y * W <? 0 + W * H)) with true by (symmetry; apply band_iff; lia).
  reflexivity.
Qed.

Lemma read_frame_core_step f st k S fr :
  valid_file f -> state_rel f st k S -> nth_error (m_frames f) k = Some fr ->
  exists st',
    read_frame_core f st (output_buffer_size f) =
      Ok (mf_duration fr, st', render (m_alpha f) (m_w f) (m_h f) (fst (kstep f S (frame_of fr))))
    /\ state_rel f st' (Datatypes.S k) (kstep f S (frame_of fr)).
Proof.
  intros (HW & HH & HB & Hbg & Hne & Hall) (Hnf & Hns & Hprev & Hcanvas) Hnth.
  assert (HF : fits (m_w f) (m_h f)) by (repeat split; assumption).
  assert (Hk : (k < length (m_frames f))%nat) by (apply nth_error_Some; rewrite Hnth; discriminate).
  assert (Hv : valid_mframe (m_w f) (m_h f) fr).
  { rewrite Forall_forall in Hall. apply Hall. eapply nth_error_In. exact Hnth. }
  pose proof Hv as (Hx & Hy & Hw & Hh & Hxw & Hyh & HL).
  unfold read_frame_core.
  rewrite Z.eqb_refl. cbn [negb].
  replace (next_frame st =? num_frames f) with false by (symmetry; apply Z.eqb_neq; unfold num_frames; lia).
  rewrite Hns, Nat2Z.id, Hnth. cbv zeta.
  replace ((16384 <? mf_wm1 fr + 1) || (16384 <? mf_hm1 fr + 1)) with false
    by (symmetry; apply orb_false_intro; apply Z.ltb_ge; lia).
  replace ((m_w f <? mf_xh fr * 2 + (mf_wm1 fr + 1)) || (m_h f <? mf_yh fr * 2 + (mf_hm1 fr + 1))) with false
    by (symmetry; apply orb_false_intro; apply Z.ltb_ge; lia).
  unfold decode_payload. rewrite HL, Z.eqb_refl. cbn [bind].
  (* the canvas before this frame *)
  assert (Hc0 : exists a0,
     match acanvas st with
     | Some c => Ok c
     | None => if m_w f * m_h f * 4 <? 18446744073709551616 then Ok (new_canvas (m_w f * m_h f * 4) (background_color f)) else Err EImageTooLarge
     end = Ok a0 /\ crep (m_w f) (m_h f) a0 (fst S)).
  { unfold canvas_rel in Hcanvas. destruct (acanvas st) as [a|].
    - exists a. split; [reflexivity|exact Hcanvas].
    - replace (m_w f * m_h f * 4 <? 18446744073709551616) with true by (symmetry; apply Z.ltb_lt; exact HB).
      eexists. split; [reflexivity|].
      eapply crep_ext; [apply new_canvas_crep; exact HF|]. intros x y Hx' Hy'. symmetry. apply Hcanvas; assumption. }
  destruct Hc0 as (a0 & Hc0 & Hrep0). rewrite Hc0. cbn [bind].
  (* the previous rectangle lies inside the canvas *)
  assert (Hp : 0 <= previous_frame_x_offset st /\ 0 <= previous_frame_y_offset st /\
               0 <= previous_frame_width st /\ 0 <= previous_frame_height st /\
               previous_frame_x_offset st + previous_frame_width st <= m_w f /\
               previous_frame_y_offset st + previous_frame_height st <= m_h f).
  { unfold prev_rel in Hprev. destruct (snd S) as [p|].
    - destruct Hprev as (_ & -> & -> & -> & -> & Hvp). unfold valid_frame in Hvp. lia.
    - destruct Hprev as (_ & -> & -> & -> & ->). lia. }
  destruct Hp as (Hp1 & Hp2 & Hp3 & Hp4 & Hp5 & Hp6).
  destruct (composite_frame_spec (m_w f) (m_h f) a0 (fst S)
              (if dispose_next_frame st then Some (background_color f) else None)
              (of_list (mf_data fr)) (mf_xh fr * 2) (mf_yh fr * 2) (mf_wm1 fr + 1) (mf_hm1 fr + 1)
              (mf_has_alpha fr) (Z.land (mf_flags fr) 2 =? 0)
              (previous_frame_width st) (previous_frame_height st) (previous_frame_x_offset st) (previous_frame_y_offset st))
    as (a' & Hcomp & Hrep'); try assumption; try lia.
  { rewrite zlen_of_list. exact HL. }
  rewrite Hcomp. cbn [bind].
  (* the composited canvas is the specification's next canvas *)
  assert (Hspec : crep (m_w f) (m_h f) a' (fst (kstep f S (frame_of fr)))).
  { eapply crep_ext; [exact Hrep'|]. intros x y Hx' Hy'.
    unfold composite_result, kstep, step. cbn [fst]. unfold draw, in_frame, blends.
    cbn [fr_x fr_y fr_w fr_h fr_blend fr_has_alpha frame_of].
    assert (Hk1 : match (if dispose_next_frame st then Some (background_color f) else None) with
                  | Some c => if in_rect (previous_frame_x_offset st) (previous_frame_y_offset st)
                                   (previous_frame_width st) (previous_frame_height st) x y then c else fst S x y
                  | None => fst S x y end
                  = dispose (background (m_bg_stored f)) (snd S) (fst S) x y).
    { unfold prev_rel in Hprev. unfold dispose. destruct (snd S) as [p|].
      - destruct Hprev as (Hd & -> & -> & -> & -> & _). rewrite Hd. unfold in_frame.
        destruct (fr_dispose p); reflexivity.
      - destruct Hprev as (-> & -> & -> & -> & ->).
        replace (in_rect 0 0 0 0 x y) with false; [reflexivity|].
        symmetry. apply not_true_is_false. intros T. apply in_rect_iff in T. lia. }
    rewrite Hk1.
    destruct (in_rect (mf_xh fr * 2) (mf_yh fr * 2) (mf_wm1 fr + 1) (mf_hm1 fr + 1) x y) eqn:Ein; [|reflexivity].
    apply in_rect_iff in Ein.
    rewrite (frame_pixel_fpix (m_w f) (m_h f)) by (assumption || lia).
    rewrite (andb_comm (mf_has_alpha fr)). reflexivity. }
  exists {| next_frame := next_frame st + 1; next_frame_start := Z.of_nat k + 1;
            dispose_next_frame := negb (Z.land (mf_flags fr) 1 =? 0);
            previous_frame_width := mf_wm1 fr + 1; previous_frame_height := mf_hm1 fr + 1;
            previous_frame_x_offset := mf_xh fr * 2; previous_frame_y_offset := mf_yh fr * 2;
            acanvas := Some a' |}.
  split.
  - pose proof Hspec as [HL' _]. unfold output_buffer_size.
    destruct (m_alpha f).
    + rewrite HL', Z.eqb_refl. rewrite (render_rgba_crep _ _ _ _ HF Hspec).
      reflexivity.
    + rewrite HL'. replace (Z.min (m_w f * m_h f * 3 / 3) (m_w f * m_h f * 4 / 4)) with (m_w f * m_h f)
        by (rewrite !Z.div_mul by lia; lia).
      rewrite (render_rgb_crep _ _ _ _ HF Hspec).
      reflexivity.
  - unfold state_rel. cbn [next_frame next_frame_start]. split; [lia|]. split; [lia|]. split.
    + unfold kstep, step. cbn [snd]. unfold prev_rel. cbn.
      repeat split; try reflexivity; try lia; apply (valid_frame_of _ _ _ Hv).
    + unfold canvas_rel. cbn [acanvas]. exact Hspec.
Qed.

(* ------------------------------------------------------------------------------------------------ *)
(* the specification's state sequence                                                                *)
(* ------------------------------------------------------------------------------------------------ *)
Lemma firstn_S_nth {A} (l : list A) : forall k x, nth_error l k = Some x -> firstn (S k) l = firstn k l ++ [x].
Proof.
  induction l as [|a l IH]; intros k x H.
  - destruct k; discriminate.
  - destruct k as [|k].
    + cbn in H. injection H as ->. reflexivity.
    + cbn [nth_error] in H. change (firstn (S (S k)) (a :: l)) with (a :: firstn (S k) l).
      rewrite (IH k x H). reflexivity.
Qed.

Lemma play_state_S over A k fr : nth_error (an_frames A) k = Some fr ->
  play_state over A (S k) = step over (background (an_bg_stored A)) (play_state over A k) fr.
Proof. intros H. unfold play_state. rewrite (firstn_S_nth _ _ _ H), fold_left_app. reflexivity. Qed.

Lemma nth_error_frames f k fr : nth_error (m_frames f) k = Some fr -> nth_error (an_frames (anim_of f)) k = Some (frame_of fr).
Proof. intros H. unfold anim_of. cbn [an_frames]. apply map_nth_error. exact H. Qed.

Lemma render_length b W H K : 0 <= W * H -> Z.of_nat (length (render b W H K)) = W * H * (if b then 4 else 3).
Proof. intros HWH. unfold render. rewrite map_length, zseq_length. destruct b; lia. Qed.

Definition kernel_canvas (f : mfile) (k : nat) : canvas := frames_upto do_alpha_blending (anim_of f) k.
Definition delivered (f : mfile) (k : nat) : res Z * list Z :=
  (Ok (duration (anim_of f) k), render (m_alpha f) (m_w f) (m_h f) (kernel_canvas f k)).

(* the decoder state after k frames; total (stays put if a read fails, which a valid file never does) *)
Fixpoint state_after (f : mfile) (k : nat) : astate :=
  match k with
  | O => fresh_state
  | S j => match read_frame_core f (state_after f j) (output_buffer_size f) with
           | Ok (_, st', _) => st'
           | _ => state_after f j
           end
  end.

Lemma state_after_spec f : valid_file f -> forall k, (k <= length (m_frames f))%nat ->
  state_rel f (state_after f k) k (play_state do_alpha_blending (anim_of f) k).
Proof.
  intros Hv. induction k as [|k IH]; intros Hk.
  - apply fresh_state_rel.
  - destruct (nth_error (m_frames f) k) as [fr|] eqn:Hnth; [|apply nth_error_None in Hnth; lia].
    destruct (read_frame_core_step f (state_after f k) k _ fr Hv (IH ltac:(lia)) Hnth) as (st' & Hcore & Hrel).
    cbn [state_after]. rewrite Hcore.
    rewrite (play_state_S _ _ _ _ (nth_error_frames _ _ _ Hnth)). exact Hrel.
Qed.

Lemma read_frame_core_after f k : valid_file f -> (k < length (m_frames f))%nat ->
  read_frame_core f (state_after f k) (output_buffer_size f) =
  Ok (duration (anim_of f) k, state_after f (S k), render (m_alpha f) (m_w f) (m_h f) (kernel_canvas f k)).
Proof.
  intros Hv Hk.
  destruct (nth_error (m_frames f) k) as [fr|] eqn:Hnth; [|apply nth_error_None in Hnth; lia].
  destruct (read_frame_core_step f (state_after f k) k _ fr Hv (state_after_spec f Hv k ltac:(lia)) Hnth) as (st' & Hcore & Hrel).
  cbn [state_after]. rewrite Hcore.
  unfold duration, kernel_canvas, frames_upto. rewrite (nth_error_frames _ _ _ Hnth).
  rewrite (play_state_S _ _ _ _ (nth_error_frames _ _ _ Hnth)). reflexivity.
Qed.

Lemma read_frame_after f k buf : valid_file f -> (k < length (m_frames f))%nat ->
  Z.of_nat (length buf) = output_buffer_size f ->
  read_frame f (state_after f k) buf =
  (Ok (duration (anim_of f) k), state_after f (S k), render (m_alpha f) (m_w f) (m_h f) (kernel_canvas f k)).
Proof. intros Hv Hk HL. unfold read_frame. rewrite HL, read_frame_core_after by assumption. reflexivity. Qed.

Lemma delivered_length f k : valid_file f ->
  Z.of_nat (length (render (m_alpha f) (m_w f) (m_h f) (kernel_canvas f k))) = output_buffer_size f.
Proof. intros (HW & HH & _). rewrite render_length by nia. reflexivity. Qed.

Lemma play_from_spec f : valid_file f -> forall m k buf, (k + m <= length (m_frames f))%nat ->
  Z.of_nat (length buf) = output_buffer_size f ->
  play_from f m (state_after f k) buf = map (delivered f) (seq k m).
Proof.
  intros Hv. induction m as [|m IH]; intros k buf Hk HL.
  - reflexivity.
  - cbn [play_from seq map]. rewrite read_frame_after by (assumption || lia).
    rewrite (IH (S k)) by (try lia; apply delivered_length; exact Hv). reflexivity.
Qed.

(* C06, main statement *)
Lemma read_frame_spec_lemma : forall f buf k, valid_file f -> Z.of_nat (length buf) = output_buffer_size f ->
  (k < length (m_frames f))%nat ->
  nth_error (play f buf) k =
  Some (Ok (duration (anim_of f) k),
        render (m_alpha f) (m_w f) (m_h f) (frames_upto do_alpha_blending (anim_of f) k)).
Proof.
  intros f buf k Hv HL Hk. unfold play. change fresh_state with (state_after f 0).
  rewrite (play_from_spec f Hv) by (assumption || lia).
  rewrite (map_nth_error (delivered f) k (seq 0 (length (m_frames f))) (d := k)); [reflexivity|].
  rewrite nth_error_nth' with (d := O) by (rewrite seq_length; exact Hk). rewrite seq_nth by exact Hk. reflexivity.
Qed.

Lemma play_all_lemma : forall f buf, valid_file f -> Z.of_nat (length buf) = output_buffer_size f ->
  play f buf = map (fun db => (Ok (fst db), snd db)) (shown do_alpha_blending (anim_of f)).
Proof.
  intros f buf Hv HL. unfold play. change fresh_state with (state_after f 0).
  rewrite (play_from_spec f Hv) by (assumption || lia).
  unfold shown. rewrite map_map.
  replace (length (an_frames (anim_of f))) with (length (m_frames f)) by (unfold anim_of; cbn [an_frames]; rewrite map_length; reflexivity).
  reflexivity.
Qed.

(* ------------------------------------------------------------------------------------------------ *)
(* corollaries about individual pixels (statements about the specification's canvases, which the      *)
(* delivered buffers render by read_frame_spec)                                                       *)
(* ------------------------------------------------------------------------------------------------ *)
(* the canvas on which frame k is drawn: canvas k-1 with the previous frame's rectangle disposed if it asked *)
Definition canvas_before (over : pixel -> pixel -> pixel) (A : anim) (k : nat) : canvas :=
  dispose (background (an_bg_stored A)) (snd (play_state over A k)) (fst (play_state over A k)).

Lemma frames_upto_draw over A k fr : nth_error (an_frames A) k = Some fr ->
  frames_upto over A k = draw over fr (canvas_before over A k).
Proof. intros H. unfold frames_upto. rewrite (play_state_S _ _ _ _ H). reflexivity. Qed.

(* outside the frame's rectangle nothing but the disposal of the previous rectangle happens *)
Lemma outside_frame_lemma over A k fr x y : nth_error (an_frames A) k = Some fr -> in_frame fr x y = false ->
  frames_upto over A k x y = canvas_before over A k x y.
Proof. intros H Hin. rewrite (frames_upto_draw _ _ _ _ H). unfold draw. rewrite Hin. reflexivity. Qed.

(* a frame that is not blended replaces the canvas pixels exactly -- opaque or not *)
Lemma overwrite_exact_lemma over A k fr x y : nth_error (an_frames A) k = Some fr -> blends fr = false ->
  in_frame fr x y = true ->
  frames_upto over A k x y = frame_pixel fr (x - fr_x fr) (y - fr_y fr).
Proof. intros H Hb Hin. rewrite (frames_upto_draw _ _ _ _ H). unfold draw. rewrite Hin, Hb. reflexivity. Qed.

Lemma blended_pixel_lemma over A k fr x y : nth_error (an_frames A) k = Some fr -> blends fr = true ->
  in_frame fr x y = true ->
  frames_upto over A k x y = over (frame_pixel fr (x - fr_x fr) (y - fr_y fr)) (canvas_before over A k x y).
Proof. intros H Hb Hin. rewrite (frames_upto_draw _ _ _ _ H). unfold draw. rewrite Hin, Hb. reflexivity. Qed.

(* all bytes of the animation are bytes *)
Definition bytes_anim (A : anim) : Prop :=
  pixel_ok (background (an_bg_stored A)) /\
  Forall (fun fr => Forall pixel_ok (fr_pixels fr)) (an_frames A).

Lemma pixel_ok_px_ok p : pixel_ok p <-> px_ok p.
Proof. destruct p as [[[r g] b] a]. unfold pixel_ok, px_ok, byte. cbn. tauto. Qed.

Lemma kernel_pixel_ok s d : pixel_ok (do_alpha_blending s d).
Proof.
  destruct s as [[[r g] b] a], d as [[[r' g'] b'] a']. unfold do_alpha_blending, pixel_ok, to_le_byte. cbn [p_red p_green p_blue p_alpha].
  repeat split; try (apply Z.mod_pos_bound; lia);
    match goal with |- ?x mod 256 <= 255 => pose proof (Z.mod_pos_bound x 256 ltac:(lia)); lia end.
Qed.

Lemma frame_pixel_ok fr x y : Forall pixel_ok (fr_pixels fr) -> pixel_ok (frame_pixel fr x y).
Proof.
  intros Hall. unfold frame_pixel.
  assert (Hp : pixel_ok (nth (Z.to_nat (y * fr_w fr + x)) (fr_pixels fr) (0, 0, 0, 0))).
  { destruct (nth_in_or_default (Z.to_nat (y * fr_w fr + x)) (fr_pixels fr) (0, 0, 0, 0)) as [Hin | ->].
    - rewrite Forall_forall in Hall. apply Hall. exact Hin.
    - unfold pixel_ok. cbn. lia. }
  destruct (nth (Z.to_nat (y * fr_w fr + x)) (fr_pixels fr) (0, 0, 0, 0)) as [[[r g] b] a].
  unfold pixel_ok in *. cbn in *. destruct (fr_has_alpha fr); lia.
Qed.

Lemma kernel_state_ok A : bytes_anim A -> forall k x y,
  pixel_ok (fst (play_state do_alpha_blending A k) x y) /\ pixel_ok (canvas_before do_alpha_blending A k x y).
Proof.
  intros [Hbg Hfr] k. induction k as [|k IH]; intros x y.
  - unfold canvas_before, play_state. cbn. split; exact Hbg.
  - assert (Hfst : forall x y, pixel_ok (fst (play_state do_alpha_blending A (S k)) x y)).
    { intros x' y'. destruct (nth_error (an_frames A) k) as [fr|] eqn:Hnth.
      - rewrite (play_state_S _ _ _ _ Hnth). unfold step. cbn [fst]. fold (canvas_before do_alpha_blending A k).
        unfold draw. destruct (in_frame fr x' y'); [|apply IH].
        destruct (blends fr); [apply kernel_pixel_ok|].
        apply frame_pixel_ok. rewrite Forall_forall in Hfr. apply Hfr. eapply nth_error_In. exact Hnth.
      - apply nth_error_None in Hnth. pose proof (IH x' y') as [IH1 _].
        unfold play_state in IH1 |- *. rewrite firstn_all2 in IH1 by lia. rewrite firstn_all2 by lia. exact IH1. }
    split; [apply Hfst|].
    unfold canvas_before, dispose. destruct (snd (play_state do_alpha_blending A (S k))) as [p|]; [|apply Hfst].
    destruct (fr_dispose p); [|apply Hfst]. destruct (in_frame p x y); [exact Hbg|apply Hfst].
Qed.

(* a fully transparent source pixel of a blended frame leaves the canvas pixel unchanged (C12: blend_transparent) *)
Lemma transparent_unchanged_lemma A k fr x y : bytes_anim A -> nth_error (an_frames A) k = Some fr ->
  blends fr = true -> in_frame fr x y = true -> p_alpha (frame_pixel fr (x - fr_x fr) (y - fr_y fr)) = 0 ->
  frames_upto do_alpha_blending A k x y = canvas_before do_alpha_blending A k x y.
Proof.
  intros HB H Hb Hin Ha. rewrite (blended_pixel_lemma _ _ _ _ _ _ H Hb Hin).
  apply blend_transparent_lemma.
  - apply pixel_ok_px_ok. apply frame_pixel_ok. destruct HB as [_ HB]. rewrite Forall_forall in HB. apply HB.
    eapply nth_error_In. exact H.
  - apply pixel_ok_px_ok. apply (kernel_state_ok A HB).
  - destruct (frame_pixel fr (x - fr_x fr) (y - fr_y fr)) as [[[r g] b] a]. exact Ha.
Qed.

(* KNOWN FINDING F14: an opaque source pixel of a blended frame does NOT replace the canvas pixel exactly: every
   non-zero colour channel comes out one lower (C12: blend_opaque_known_class); nothing else can happen *)
Definition dec_channel (c : Z) : Z := if c =? 0 then 0 else c - 1.

Lemma opaque_blended_known_lemma A k fr x y : bytes_anim A -> nth_error (an_frames A) k = Some fr ->
  blends fr = true -> in_frame fr x y = true -> p_alpha (frame_pixel fr (x - fr_x fr) (y - fr_y fr)) = 255 ->
  let s := frame_pixel fr (x - fr_x fr) (y - fr_y fr) in
  frames_upto do_alpha_blending A k x y = (dec_channel (p_red s), dec_channel (p_green s), dec_channel (p_blue s), 255).
Proof.
  intros HB H Hb Hin Ha s. rewrite (blended_pixel_lemma _ _ _ _ _ _ H Hb Hin). fold s.
  assert (Hs : px_ok s).
  { apply pixel_ok_px_ok. apply frame_pixel_ok. destruct HB as [_ HB]. rewrite Forall_forall in HB. apply HB.
    eapply nth_error_In. exact H. }
  assert (Hd : px_ok (canvas_before do_alpha_blending A k x y)) by (apply pixel_ok_px_ok; apply (kernel_state_ok A HB)).
  assert (Ha' : px_a s = 255) by (unfold s in *; destruct (frame_pixel fr (x - fr_x fr) (y - fr_y fr)) as [[[r g] b] a]; exact Ha).
  rewrite (blend_opaque_known_lemma s _ Hs Hd Ha').
  destruct s as [[[r g] b] a]. reflexivity.
Qed.

(* ... and the property's clause is violated on exactly that class *)
Lemma opaque_blended_refuted_lemma : exists A k fr x y,
  valid_anim A /\ bytes_anim A /\ nth_error (an_frames A) k = Some fr /\ blends fr = true /\ in_frame fr x y = true /\
  p_alpha (frame_pixel fr (x - fr_x fr) (y - fr_y fr)) = 255 /\
  frames_upto do_alpha_blending A k x y <> frame_pixel fr (x - fr_x fr) (y - fr_y fr).
Proof.
  exists {| an_w := 1; an_h := 1; an_alpha := true; an_bg_stored := [0; 0; 0; 0];
            an_frames := [ {| fr_x := 0; fr_y := 0; fr_w := 1; fr_h := 1; fr_duration := 10; fr_blend := true;
                              fr_dispose := false; fr_has_alpha := true; fr_pixels := [(200, 1, 0, 255)] |} ] |}.
  exists O. eexists. exists 0, 0.
  split; [|split; [|split; [reflexivity|]]].
  - unfold valid_anim, valid_frame. cbn. repeat split; try lia; try discriminate.
    constructor; [|constructor]. cbn. lia.
  - unfold bytes_anim, pixel_ok. cbn. repeat split; try lia. repeat constructor; cbn; lia.
  - repeat split; try reflexivity. vm_compute. discriminate.
Qed.

(* blending an alpha-less frame = overwriting, for every operator that is exact on opaque sources: the two readings
   of "a frame without alpha channel whose blending bit is set" agree *)
Lemma draw_opaque_frame_lemma over fr K x y : over_opaque_exact over ->
  Forall pixel_ok (fr_pixels fr) -> pixel_ok (K x y) ->
  draw_by_flag over fr K x y = draw over fr K x y.
Proof.
  intros Hop Hpx HK. unfold draw_by_flag, draw, blends.
  destruct (in_frame fr x y); [|reflexivity].
  destruct (fr_blend fr); [|reflexivity]. cbn [andb].
  destruct (fr_has_alpha fr) eqn:Eha; [reflexivity|].
  apply Hop; [apply frame_pixel_ok; exact Hpx | exact HK |].
  unfold frame_pixel. rewrite Eha.
  destruct (nth (Z.to_nat ((y - fr_y fr) * fr_w fr + (x - fr_x fr))) (fr_pixels fr) (0, 0, 0, 0)) as [[[r g] b] a]. reflexivity.
Qed.

(* the implementation's kernel meets the specification's requirements at alpha 0 and in between (C12) *)
Lemma kernel_transparent_exact : over_transparent_exact do_alpha_blending.
Proof.
  intros s d Hs Hd Ha. apply blend_transparent_lemma; [apply pixel_ok_px_ok; exact Hs | apply pixel_ok_px_ok; exact Hd |].
  destruct s as [[[r g] b] a]. exact Ha.
Qed.

Lemma kernel_within_bounds : over_within_bounds do_alpha_blending.
Proof.
  intros s d c Hs Hd Ha Hc.
  assert (Hs' := proj1 (pixel_ok_px_ok s) Hs). assert (Hd' := proj1 (pixel_ok_px_ok d) Hd).
  assert (Ha' : 0 < px_a s < 255) by (destruct s as [[[r g] b] a]; exact Ha).
  assert (C : c = 0 \/ c = 1 \/ c = 2) by lia.
  destruct C as [-> | [-> | ->]].
  - pose proof (blend_mid_lemma s d 0%nat Hs' Hd' Ha' ltac:(lia)) as H.
    destruct s as [[[r g] b] a], d as [[[r' g'] b'] a']. destruct (do_alpha_blending (r, g, b, a) (r', g', b', a')) as [[[ro go] bo] ao].
    exact H.
  - pose proof (blend_mid_lemma s d 1%nat Hs' Hd' Ha' ltac:(lia)) as H.
    destruct s as [[[r g] b] a], d as [[[r' g'] b'] a']. destruct (do_alpha_blending (r, g, b, a) (r', g', b', a')) as [[[ro go] bo] ao].
    exact H.
  - pose proof (blend_mid_lemma s d 2%nat Hs' Hd' Ha' ltac:(lia)) as H.
    destruct s as [[[r g] b] a], d as [[[r' g'] b'] a']. destruct (do_alpha_blending (r, g, b, a) (r', g', b', a')) as [[[ro go] bo] ao].
    exact H.
Qed.
