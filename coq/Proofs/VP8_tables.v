(* Proofs/VP8_tables.v -- every constant table of src/vp8.rs (as regenerated into Gen/Tables.v by tools/rs2v.py on
   each run) is the normative table of Spec/VP8Tables.v (frozen from libwebp 1.3.1 = RFC 6386), possibly under an
   explicit, stated re-encoding (mode renumbering libwebp <-> RFC; libwebp's tree layout <-> the RFC tree layout;
   0-terminated <-> 0-padded probability rows).  All by computation on closed terms.

   Part A: the tables of the code equal the tables of the Spec.
   Part B: the hand-transcribed trees of the Spec are the decision chains of the C code: each tree is unfolded into
           its list of (leaf, path) where a path is the list of (probability index, bit) decisions, and compared
           with the paths read off the C text (tree_dec.c ParseIntraMode, vp8_dec.c GetCoeffs/GetLargeValue);
           libwebp's own tree layout (kYModesIntra4) unfolds to the same paths as its RFC re-encoding.
   Part C: arithmetic identities the Spec relies on (y2ac factor). *)
From Coq Require Import ZArith List Bool Lia.
From WebP Require Import Gen.Tables Spec.VP8Tables Lib.Sweep.
Import ListNotations.
Open Scope Z_scope.

(* ------------------------------------------------------------------------------------------------------------ *)
(* re-encodings                                                                                                 *)
(* ------------------------------------------------------------------------------------------------------------ *)
(* leaves of an RFC-layout tree are the entries <= 0 (leaf value = -entry); renumber them *)
Definition map_leaves (f : Z -> Z) (tree : list Z) : list Z := map (fun v => if 0 <? v then v else - f (- v)) tree.
(* a 10x10 table indexed by libwebp mode numbers, re-indexed by RFC mode numbers *)
Definition reindex_bmodes {A} (d : A) (t : list (list A)) : list (list A) :=
  map (fun a => map (fun l => nth (Z.to_nat (bmode_of_rfc l)) (nth (Z.to_nat (bmode_of_rfc a)) t []) d)
                    [0; 1; 2; 3; 4; 5; 6; 7; 8; 9])
      [0; 1; 2; 3; 4; 5; 6; 7; 8; 9].
(* probability rows padded with zeros to a fixed width *)
Definition pad_to (n : nat) (l : list Z) : list Z := l ++ repeat 0 (n - length l).

(* ------------------------------------------------------------------------------------------------------------ *)
(* Part A                                                                                                       *)
(* ------------------------------------------------------------------------------------------------------------ *)
Theorem coeff_probs_normative : vp8_COEFF_PROBS = coeffs_proba0.
Proof. vm_compute. reflexivity. Qed.

Theorem coeff_update_probs_normative : vp8_COEFF_UPDATE_PROBS = coeffs_update_proba.
Proof. vm_compute. reflexivity. Qed.

Theorem coeff_bands_normative : vp8_COEFF_BANDS = firstn 16 kBands.
Proof. vm_compute. reflexivity. Qed.

Theorem zigzag_normative : vp8_ZIGZAG = kZigzag.
Proof. vm_compute. reflexivity. Qed.

Theorem dc_quant_normative : vp8_DC_QUANT = kDcTable.
Proof. vm_compute. reflexivity. Qed.

Theorem ac_quant_normative : vp8_AC_QUANT = kAcTable.
Proof. vm_compute. reflexivity. Qed.

Theorem segment_tree_normative : vp8_SEGMENT_ID_TREE = segment_tree.
Proof. vm_compute. reflexivity. Qed.

Theorem dct_token_tree_normative : vp8_DCT_TOKEN_TREE = coeff_tree.
Proof. vm_compute. reflexivity. Qed.

Theorem dct_cat_probs_normative : vp8_PROB_DCT_CAT = map (pad_to 12) cat_probs.
Proof. vm_compute. reflexivity. Qed.

Theorem dct_cat_base_normative : vp8_DCT_CAT_BASE = cat_base.
Proof. vm_compute. reflexivity. Qed.

(* token numbering: literals 0..4, categories 1..6 = 5..10, end of block = 11 *)
Theorem dct_token_numbers :
  [vp8_DCT_0; vp8_DCT_1; vp8_DCT_2; vp8_DCT_3; vp8_DCT_4; vp8_DCT_CAT1; vp8_DCT_CAT2; vp8_DCT_CAT3; vp8_DCT_CAT4;
   vp8_DCT_CAT5; vp8_DCT_CAT6; vp8_DCT_EOB] = [0; 1; 2; 3; 4; 5; 6; 7; 8; 9; 10; DCT_EOB].
Proof. vm_compute. reflexivity. Qed.

(* mode numbering of the code = RFC numbering = renumbered libwebp numbering *)
Theorem bmode_numbers :
  [vp8_B_DC_PRED; vp8_B_TM_PRED; vp8_B_VE_PRED; vp8_B_HE_PRED; vp8_B_RD_PRED; vp8_B_VR_PRED; vp8_B_LD_PRED;
   vp8_B_VL_PRED; vp8_B_HD_PRED; vp8_B_HU_PRED]
  = map bmode_to_rfc [B_DC_PRED; B_TM_PRED; B_VE_PRED; B_HE_PRED; B_RD_PRED; B_VR_PRED; B_LD_PRED; B_VL_PRED;
                      B_HD_PRED; B_HU_PRED].
Proof. vm_compute. reflexivity. Qed.

Theorem ymode_numbers :
  [vp8_DC_PRED; vp8_TM_PRED; vp8_V_PRED; vp8_H_PRED; vp8_B_PRED] = map ymode_to_rfc [DC_PRED; TM_PRED; V_PRED; H_PRED; B_PRED].
Proof. vm_compute. reflexivity. Qed.

Theorem bmode_renumbering_bijective :
  map (fun m => bmode_of_rfc (bmode_to_rfc m)) [0; 1; 2; 3; 4; 5; 6; 7; 8; 9] = [0; 1; 2; 3; 4; 5; 6; 7; 8; 9] /\
  map (fun m => bmode_to_rfc (bmode_of_rfc m)) [0; 1; 2; 3; 4; 5; 6; 7; 8; 9] = [0; 1; 2; 3; 4; 5; 6; 7; 8; 9].
Proof. split; vm_compute; reflexivity. Qed.

(* key-frame luma mode: same tree, leaves renumbered; same probabilities *)
Theorem kf_ymode_tree_normative : vp8_KEYFRAME_YMODE_TREE = map_leaves ymode_to_rfc kf_ymode_tree.
Proof. vm_compute. reflexivity. Qed.
Theorem kf_ymode_probs_normative : vp8_KEYFRAME_YMODE_PROBS = kf_ymode_prob.
Proof. vm_compute. reflexivity. Qed.

(* chroma mode *)
Theorem uv_mode_tree_normative : vp8_KEYFRAME_UV_MODE_TREE = map_leaves ymode_to_rfc uv_mode_tree.
Proof. vm_compute. reflexivity. Qed.
Theorem uv_mode_probs_normative : vp8_KEYFRAME_UV_MODE_PROBS = uv_mode_prob.
Proof. vm_compute. reflexivity. Qed.

(* sub-block mode: libwebp's kYModesIntra4, moved to the RFC layout (node k -> index 2k), leaves renumbered; the
   node order is the same, so the 9 probabilities of a context attach to the same decisions *)
Theorem bpred_tree_normative : vp8_KEYFRAME_BPRED_MODE_TREE = map_leaves bmode_to_rfc (tree_of_libwebp kYModesIntra4).
Proof. vm_compute. reflexivity. Qed.
(* contexts [above][left] renumbered *)
Theorem bpred_probs_normative : vp8_KEYFRAME_BPRED_MODE_PROBS = reindex_bmodes [] kBModesProba.
Proof. vm_compute. reflexivity. Qed.

(* ------------------------------------------------------------------------------------------------------------ *)
(* Part B: trees as decision paths                                                                              *)
(* ------------------------------------------------------------------------------------------------------------ *)
(* all (leaf, path) of an RFC-layout tree from index i; path = (probability index, bit) list in reading order *)
Fixpoint rfc_paths (fuel : nat) (tree : list Z) (i : Z) (path : list (Z * Z)) : list (Z * list (Z * Z)) :=
  match fuel with
  | O => []
  | S k =>
    let go := fun b =>
      let j := nth (Z.to_nat (i + b)) tree 0 in
      let p := path ++ [(Z.shiftr i 1, b)] in
      if 0 <? j then rfc_paths k tree j p else [(- j, p)] in
    go 0 ++ go 1
  end.
(* the same for libwebp's layout: i = T[bit(prob[0])]; while i > 0: i = T[2i + bit(prob[i])] *)
Fixpoint lw_paths (fuel : nat) (T : list Z) (i : Z) (path : list (Z * Z)) : list (Z * list (Z * Z)) :=
  match fuel with
  | O => []
  | S k =>
    let go := fun b =>
      let j := nth (Z.to_nat (2 * i + b)) T 0 in
      let p := path ++ [(i, b)] in
      if 0 <? j then lw_paths k T j p else [(- j, p)] in
    go 0 ++ go 1
  end.

(* libwebp's layout and its RFC re-encoding [bmode_tree] (what Spec.VP8.read_bmode walks) have the same paths *)
Lemma libwebp_tree_layout_equivalent : lw_paths 18 kYModesIntra4 0 [] = rfc_paths 18 bmode_tree 0 [].
Proof. vm_compute. reflexivity. Qed.

(* tree_dec.c: segment = !GetBit(p[0]) ? GetBit(p[1]) : GetBit(p[2]) + 2 *)
Lemma segment_tree_is_c_chain :
  rfc_paths 6 segment_tree 0 [] = [(0, [(0, 0); (1, 0)]); (1, [(0, 0); (1, 1)]); (2, [(0, 1); (2, 0)]); (3, [(0, 1); (2, 1)])].
Proof. vm_compute. reflexivity. Qed.

(* tree_dec.c: is_i4x4 = !GetBit(145); ymode = GetBit(156) ? (GetBit(128) ? TM : H) : (GetBit(163) ? V : DC);
   probability indices 0..3 = 145, 156, 163, 128 *)
Lemma kf_ymode_tree_is_c_chain :
  rfc_paths 8 kf_ymode_tree 0 [] =
  [(B_PRED, [(0, 0)]); (DC_PRED, [(0, 1); (1, 0); (2, 0)]); (V_PRED, [(0, 1); (1, 0); (2, 1)]);
   (H_PRED, [(0, 1); (1, 1); (3, 0)]); (TM_PRED, [(0, 1); (1, 1); (3, 1)])].
Proof. vm_compute. reflexivity. Qed.

(* tree_dec.c: uvmode = !GetBit(142) ? DC : !GetBit(114) ? V : GetBit(183) ? TM : H *)
Lemma uv_mode_tree_is_c_chain :
  rfc_paths 6 uv_mode_tree 0 [] =
  [(DC_PRED, [(0, 0)]); (V_PRED, [(0, 1); (1, 0)]); (H_PRED, [(0, 1); (1, 1); (2, 0)]); (TM_PRED, [(0, 1); (1, 1); (2, 1)])].
Proof. vm_compute. reflexivity. Qed.

(* vp8_dec.c GetCoeffs: p[0] = 0 -> end of block; p[1] = 0 -> zero; p[2] = 0 -> one; otherwise GetLargeValue:
   p[3] = 0: (p[4] = 0 -> 2 | p[5]: 3, 4);  p[3] = 1: p[6] = 0: (p[7]: cat1, cat2) | p[6] = 1: bit1 = p[8],
   bit0 = p[9 + bit1], cat3 + 2 * bit1 + bit0 *)
Lemma coeff_tree_is_c_chain :
  rfc_paths 22 coeff_tree 0 [] =
  [(11, [(0, 0)]);
   (0, [(0, 1); (1, 0)]);
   (1, [(0, 1); (1, 1); (2, 0)]);
   (2, [(0, 1); (1, 1); (2, 1); (3, 0); (4, 0)]);
   (3, [(0, 1); (1, 1); (2, 1); (3, 0); (4, 1); (5, 0)]);
   (4, [(0, 1); (1, 1); (2, 1); (3, 0); (4, 1); (5, 1)]);
   (5, [(0, 1); (1, 1); (2, 1); (3, 1); (6, 0); (7, 0)]);
   (6, [(0, 1); (1, 1); (2, 1); (3, 1); (6, 0); (7, 1)]);
   (7, [(0, 1); (1, 1); (2, 1); (3, 1); (6, 1); (8, 0); (9, 0)]);
   (8, [(0, 1); (1, 1); (2, 1); (3, 1); (6, 1); (8, 0); (9, 1)]);
   (9, [(0, 1); (1, 1); (2, 1); (3, 1); (6, 1); (8, 1); (10, 0)]);
   (10, [(0, 1); (1, 1); (2, 1); (3, 1); (6, 1); (8, 1); (10, 1)])].
Proof. vm_compute. reflexivity. Qed.
(* after a zero token the walk starts at index 2: no end-of-block branch *)
Lemma coeff_tree_after_zero_has_no_eob :
  map fst (rfc_paths 22 coeff_tree 2 []) = [0; 1; 2; 3; 4; 5; 6; 7; 8; 9; 10].
Proof. vm_compute. reflexivity. Qed.

(* every leaf of the sub-block mode tree is reached exactly once: the ten modes *)
Lemma bmode_tree_leaves : map fst (rfc_paths 18 bmode_tree 0 []) = [0; 1; 2; 3; 4; 5; 6; 7; 8; 9].
Proof. vm_compute. reflexivity. Qed.

(* ------------------------------------------------------------------------------------------------------------ *)
(* Part C: arithmetic                                                                                           *)
(* ------------------------------------------------------------------------------------------------------------ *)
(* quant_dec.c computes the Y2 AC factor as (x * 101581) >> 16 and notes it equals x * 155 / 100 (the RFC's form,
   used by Spec.VP8.segment_quant) on 0..284, the range of kAcTable *)
Lemma y2ac_factor_forms_sweep :
  forallb (fun x => Z.shiftr (x * 101581) 16 =? x * 155 / 100) (zrange 285 0) = true.
Proof. vm_compute. reflexivity. Qed.
Lemma y2ac_factor_forms : forall x, 0 <= x <= 284 -> Z.shiftr (x * 101581) 16 = x * 155 / 100.
Proof.
  intros x Hx. apply Z.eqb_eq.
  apply (forallb_zrange (fun x => Z.shiftr (x * 101581) 16 =? x * 155 / 100) 285 0 y2ac_factor_forms_sweep). lia.
Qed.
Lemma ac_table_range : forallb (fun x => (0 <=? x) && (x <=? 284)) kAcTable = true.
Proof. vm_compute. reflexivity. Qed.
(* the uv DC factor never exceeds 132 (index clamp to 117) *)
Lemma uvdc_clamp : nth 117 kDcTable 0 = 132 /\ forallb (fun x => x <=? 132) (firstn 118 kDcTable) = true.
Proof. split; vm_compute; reflexivity. Qed.
