(* C01, layer 1: the stream relation between the specification's bit stream (Spec.VP8L.stream: pending bits of the
   current byte + untouched bytes, read one bit at a time) and the decoder's bit reservoir (Model.BitReader.t:
   a u64 buffer, a bit count, the bytes not yet pulled from the reader, a fill_buf schedule).

     RelB l r : the reservoir `r` holds exactly the unread bit sequence `l` (first bit to be read first):
                the invariant `R (bits_val l) r` of Lossless_BitReader.v, plus the bit count
                length l = nbits r + 8 * length (data r)   (R alone does not see trailing zero bits);
     Rel st r := RelB (sbits st) r     (sbits : C04_bits.v).

   Results: Rel_init; fill keeps Rel (fill_Rel); consume n drops n bits (consume_RelB); the Model's read_bits and the
   specification's ReadBits agree under Rel, including the end-of-data error (read_bits_Rel, read_bits_Rel_inv). *)
From Coq Require Import ZArith List Bool Lia.
From WebP Require Import Lib.Res Lib.ZBits Model.EncoderHeap Proofs.C04_bits Model.BitReader Proofs.Lossless_BitReader.
Import ListNotations.
Open Scope Z_scope.

Ltac Zify.zify_post_hook ::= Z.div_mod_to_equations.

Notation LV := Lossless_BitReader.V.

(* ------------------------------------------------------------------------------------------------ *)
(** * bit lists *)
Lemma bits_val_nonneg l : 0 <= bits_val l.
Proof. induction l as [|b t IH]; cbn [bits_val]; [lia|]. destruct b; cbn [Z.b2z]; lia. Qed.

Lemma bits_val_skipn : forall k l, Z.shiftr (bits_val l) (Z.of_nat k) = bits_val (skipn k l).
Proof.
  induction k as [|k IH]; intros l.
  - cbn [skipn]. apply Z.shiftr_0_r.
  - destruct l as [|b t]; [cbn [skipn bits_val]; apply Z.shiftr_0_l|].
    cbn [skipn bits_val]. rewrite <- IH. replace (Z.of_nat (S k)) with (1 + Z.of_nat k) by lia.
    rewrite <- Z.shiftr_shiftr by lia. f_equal. rewrite Z.shiftr_div_pow2 by lia. change (2 ^ 1) with 2.
    destruct b; cbn [Z.b2z]; lia.
Qed.

Lemma bits_of_bits_val_firstn : forall n l, (n <= length l)%nat -> bits_of n (bits_val l) = firstn n l.
Proof.
  induction n as [|n IH]; intros l Hn; [reflexivity|].
  destruct l as [|b t]; [cbn in Hn; lia|]. cbn [length] in Hn. cbn [bits_of firstn bits_val]. f_equal.
  - rewrite Z.odd_add_mul_2. destruct b; reflexivity.
  - rewrite <- (IH t) by lia. f_equal. destruct b; cbn [Z.b2z]; lia.
Qed.

Lemma bits_val_mod : forall n l, bits_val l mod 2 ^ Z.of_nat n = bits_val (firstn n l).
Proof.
  intros n l. destruct (Nat.le_gt_cases n (length l)) as [Hle|Hgt].
  - rewrite <- bits_val_bits_of. rewrite bits_of_bits_val_firstn by exact Hle. reflexivity.
  - rewrite firstn_all2 by lia. apply Z.mod_small. pose proof (bits_val_range l) as H.
    split; [lia|]. apply Z.lt_le_trans with (2 ^ EncoderHeap.zlen l); [lia|].
    apply Z.pow_le_mono_r; [lia|]. unfold EncoderHeap.zlen. lia.
Qed.

Lemma byte_bits_val b : byte b -> bits_val (V.byte_bits b) = b /\ length (V.byte_bits b) = 8%nat.
Proof.
  intros Hb. split; [|reflexivity]. rewrite <- (Z.mod_small b 256) at 1 by (unfold byte in Hb; lia).
  rewrite byte_bits_bits_of. rewrite bits_val_bits_of. change (2 ^ Z.of_nat 8) with 256. apply Z.mod_small. unfold byte in Hb. lia.
Qed.

Lemma bytes_bits d : Forall byte d ->
  bits_val (flat_map V.byte_bits d) = LV d /\ length (flat_map V.byte_bits d) = (8 * length d)%nat.
Proof.
  induction 1 as [|b tl Hb _ [IH1 IH2]]; [split; reflexivity|].
  cbn [flat_map LV length]. destruct (byte_bits_val b Hb) as [E1 E2]. split.
  - rewrite bits_val_app, E1, IH1. unfold EncoderHeap.zlen. rewrite E2. change (2 ^ Z.of_nat 8) with 256. lia.
  - rewrite app_length, E2, IH2. lia.
Qed.

(* ------------------------------------------------------------------------------------------------ *)
(** * the relation *)
Definition RelB (l : list bool) (r : BitReader.t) : Prop :=
  R (bits_val l) r /\ Z.of_nat (length l) = nbits r + 8 * Z.of_nat (length (data r)).

Definition Rel (st : V.stream) (r : BitReader.t) : Prop := RelB (sbits st) r.

(* a fresh reader over the payload *)
Theorem Rel_init d sch : Forall byte d -> Rel (V.Stream [] d) (init d sch).
Proof.
  intros Hd. unfold Rel, RelB, sbits. cbn [app]. destruct (bytes_bits d Hd) as [E1 E2]. rewrite E1, E2. split.
  - apply R_init. exact Hd.
  - unfold init. cbn [nbits data]. lia.
Qed.

Lemma RelB_nbits l r : RelB l r -> 0 <= nbits r < 64 /\ nbits r <= Z.of_nat (length l).
Proof. intros [(Hn & _) Hl]. lia. Qed.

(* at exhaustion the reservoir holds exactly what is left *)
Lemma RelB_exhausted l r : RelB l r -> data r = [] -> Z.of_nat (length l) = nbits r.
Proof. intros [_ Hl] He. rewrite He in Hl. cbn [length] in Hl. lia. Qed.

(* fill: same unread bits; afterwards 56 valid bits or nothing left to pull *)
Theorem fill_RelB l r : RelB l r ->
  exists r', fill r = Ok r' /\ RelB l r' /\ (56 <= nbits r' \/ data r' = []) /\ nbits r <= nbits r'.
Proof.
  intros [HR Hl]. destruct (fill_ok _ r HR) as (r' & E & HR' & Hnd). exists r'. split; [exact E|].
  pose proof (fill_post _ r r' HR E) as [_ Hpost].
  pose proof (f_equal fst Hnd) as Hn. pose proof (f_equal snd Hnd) as Hd. unfold fill_nd in Hn, Hd. cbn [fst snd] in Hn, Hd.
  set (k := Nat.min (need (nbits r)) (length (data r))) in *.
  assert (Hk : (k <= length (data r))%nat) by (unfold k; lia).
  split; [split; [exact HR'|]|split; [exact Hpost | lia]].
  rewrite Hn, Hd, skipn_length. lia.
Qed.

Theorem fill_Rel st r : Rel st r ->
  exists r', fill r = Ok r' /\ Rel st r' /\ (56 <= nbits r' \/ data r' = []).
Proof. intros H. destruct (fill_RelB _ r H) as (r' & E & H' & Hp & _). eauto. Qed.

(* consume: the first `num` bits are gone *)
Lemma consume_RelB l r num : RelB l r -> 0 <= num <= nbits r ->
  exists r', consume r num = Ok r' /\ RelB (skipn (Z.to_nat num) l) r' /\ nbits r' = nbits r - num /\ data r' = data r.
Proof.
  intros [HR Hl] Hnum. destruct (consume_R _ r num HR Hnum) as (r' & E & HR' & Hn' & Hd').
  exists r'. split; [exact E|]. split; [|split; assumption]. split.
  - rewrite <- bits_val_skipn. rewrite Z2Nat.id by lia. exact HR'.
  - rewrite skipn_length, Hn', Hd'. pose proof HR as (Hn & _). lia.
Qed.

(* peeking `num` valid bits *)
Lemma peek_RelB l r num : RelB l r -> 0 <= num <= nbits r -> peek r num = Ok (bits_val (firstn (Z.to_nat num) l)).
Proof.
  intros [HR _] Hnum. rewrite (peek_R _ r num HR Hnum). f_equal.
  rewrite <- (Z2Nat.id num) at 1 by lia. apply bits_val_mod.
Qed.

(* ------------------------------------------------------------------------------------------------ *)
(** * the specification's ReadBits on a bit list *)
Lemma read_bit_nil st : sbits st = [] -> V.read_bit st = None.
Proof.
  destruct st as [p bs]. unfold sbits. intros H. apply app_eq_nil in H. destruct H as [-> H].
  destruct bs as [|y bs]; [reflexivity|]. cbn [flat_map] in H. apply app_eq_nil in H. destruct H as [H _]. discriminate.
Qed.

Lemma read_bit_inv st b st' : V.read_bit st = Some (b, st') -> sbits st = b :: sbits st'.
Proof.
  destruct (sbits st) as [|b0 l] eqn:E.
  - rewrite (read_bit_nil st E). discriminate.
  - destruct (read_bit_some st b0 l E) as (s1 & E1 & H1). rewrite E1. intros H. injection H as <- <-. rewrite H1. reflexivity.
Qed.

Lemma read_bits_some : forall n st, (n <= length (sbits st))%nat ->
  exists st', V.read_bits n st = Some (bits_val (firstn n (sbits st)), st') /\ sbits st' = skipn n (sbits st).
Proof.
  intros n st Hn.
  destruct (read_bits_parses_mod n (bits_val (sbits st)) st (skipn n (sbits st))) as (st' & E & H).
  - rewrite bits_of_bits_val_firstn by exact Hn. symmetry. apply firstn_skipn.
  - exists st'. rewrite bits_val_mod in E. auto.
Qed.

Lemma read_bits_none : forall n st, (length (sbits st) < n)%nat -> V.read_bits n st = None.
Proof.
  induction n as [|n IH]; intros st Hn; [lia|]. cbn [V.read_bits].
  destruct (sbits st) as [|b l] eqn:E.
  - rewrite (read_bit_nil st E). reflexivity.
  - destruct (read_bit_some st b l E) as (s1 & E1 & H1). rewrite E1. cbn [length] in Hn.
    rewrite (IH s1) by (rewrite H1; lia). reflexivity.
Qed.

Lemma read_bits_inv n st v st' : V.read_bits n st = Some (v, st') ->
  (n <= length (sbits st))%nat /\ v = bits_val (firstn n (sbits st)) /\ sbits st' = skipn n (sbits st).
Proof.
  intros E. destruct (Nat.le_gt_cases n (length (sbits st))) as [Hle|Hgt].
  - destruct (read_bits_some n st Hle) as (s1 & E1 & H1). rewrite E in E1. injection E1 as -> ->. auto.
  - rewrite (read_bits_none n st Hgt) in E. discriminate.
Qed.

Lemma firstn_val_range n (l : list bool) : 0 <= bits_val (firstn n l) < 2 ^ Z.of_nat n.
Proof. rewrite <- bits_val_mod. apply Z.mod_pos_bound. apply Z.pow_pos_nonneg; lia. Qed.

(* ------------------------------------------------------------------------------------------------ *)
(** * the Model's read_bits = the specification's ReadBits *)
Theorem read_bits_Rel st r tb n : Rel st r -> 0 <= n <= 32 -> n <= tb ->
  match V.read_bits (Z.to_nat n) st with
  | Some (v, st') => exists r', read_bits r tb n = Ok (v, r') /\ Rel st' r' /\ 0 <= v < 2 ^ n
  | None => read_bits r tb n = Err EBitStreamError
  end.
Proof.
  intros HRel Hn Htb. unfold Rel in *. set (l := sbits st) in *. unfold read_bits.
  replace ((tb <? n) || (32 <? n)) with false
    by (symmetry; apply orb_false_iff; split; apply Z.ltb_ge; lia).
  assert (H1 : exists r1, (if nbits r <? n then fill r else Ok r) = Ok r1 /\ RelB l r1 /\ (n <= nbits r1 \/ data r1 = [])).
  { destruct (nbits r <? n) eqn:E.
    - destruct (fill_RelB l r HRel) as (r1 & F & H1 & [Hp|Hp] & _); exists r1; (split; [exact F|]); (split; [exact H1|]); [left; lia | right; exact Hp].
    - apply Z.ltb_ge in E. exists r. auto. }
  destruct H1 as (r1 & E1 & HR1 & Hen). rewrite E1. cbn [bind]. clear E1.
  pose proof (RelB_nbits l r1 HR1) as [Hnb Hnl].
  destruct (Z_le_gt_dec n (nbits r1)) as [Hle|Hgt].
  - (* enough bits *)
    destruct (read_bits_some (Z.to_nat n) st ltac:(fold l; lia)) as (st' & Es & Hs'). rewrite Es. fold l in Hs'.
    rewrite (peek_RelB l r1 n HR1 ltac:(lia)). cbn [bind].
    pose proof (firstn_val_range (Z.to_nat n) l) as Hv. rewrite Z2Nat.id in Hv by lia.
    set (v := bits_val (firstn (Z.to_nat n) l)) in *.
    assert (Hp : 2 ^ n <= 2 ^ 32) by (apply Z.pow_le_mono_r; lia).
    assert (Hp2 : 2 ^ n <= 2 ^ tb) by (apply Z.pow_le_mono_r; lia).
    rewrite (Z.mod_small v) by lia.
    destruct (consume_RelB l r1 n HR1 ltac:(lia)) as (r2 & Ec & HR2 & _). rewrite Ec. cbn [bind].
    replace (v <? 2 ^ tb) with true by (symmetry; apply Z.ltb_lt; lia).
    exists r2. split; [reflexivity|]. split; [rewrite Hs'; exact HR2 | exact Hv].
  - (* end of data *)
    destruct Hen as [Hen|Hen]; [lia|]. pose proof (RelB_exhausted l r1 HR1 Hen) as Hlen.
    rewrite (read_bits_none (Z.to_nat n) st) by (fold l; lia).
    unfold peek. replace ((n <? 0) || (64 <=? n)) with false
      by (symmetry; apply orb_false_iff; split; [apply Z.ltb_ge | apply Z.leb_gt]; lia).
    cbn [bind]. rewrite consume_short by lia. reflexivity.
Qed.

(* the two readings, one per direction *)
Corollary read_bits_Rel_some st r tb n v st' : Rel st r -> 0 <= n <= 32 -> n <= tb ->
  V.read_bits (Z.to_nat n) st = Some (v, st') -> exists r', read_bits r tb n = Ok (v, r') /\ Rel st' r' /\ 0 <= v < 2 ^ n.
Proof. intros H Hn Htb E. pose proof (read_bits_Rel st r tb n H Hn Htb) as P. rewrite E in P. exact P. Qed.

Corollary read_bits_Rel_none st r tb n : Rel st r -> 0 <= n <= 32 -> n <= tb ->
  V.read_bits (Z.to_nat n) st = None -> read_bits r tb n = Err EBitStreamError.
Proof. intros H Hn Htb E. pose proof (read_bits_Rel st r tb n H Hn Htb) as P. rewrite E in P. exact P. Qed.

Corollary read_bits_Rel_inv st r tb n v r' : Rel st r -> 0 <= n <= 32 -> n <= tb ->
  read_bits r tb n = Ok (v, r') -> exists st', V.read_bits (Z.to_nat n) st = Some (v, st') /\ Rel st' r'.
Proof.
  intros H Hn Htb E. pose proof (read_bits_Rel st r tb n H Hn Htb) as P.
  destruct (V.read_bits (Z.to_nat n) st) as [[v0 st']|].
  - destruct P as (r0 & E0 & HR0 & _). rewrite E in E0. injection E0 as <- <-. eauto.
  - rewrite E in P. discriminate.
Qed.

(* statement test: the crate's unit test data through both readers *)
Example read_bits_Rel_example :
  let d := [205; 129; 255] in
  V.read_bits 14 (V.Stream [] d) = Some (461, V.Stream [false; true] [255]) /\
  (exists r', read_bits (init d [1; 1]) 16 14 = Ok (461, r') /\ nbits r' = 10 /\ data r' = []).
Proof. vm_compute. split; [reflexivity|]. eexists. repeat split. Qed.
