(* The back-reference copy of decode_image_data for dist >= 2 (Model.Lossless.copy_backref, DESIGN.md Appendix A4;
   part of lemma d. of C01): the 16-byte `copy_within` trick with its strided follow-up copies, and the scalar tail
   used near the end of the buffer, both produce the overlapping LZ77 copy
        out[k] = out[k - 4*dist]   for 4*index <= k < 4*(index+length),
   leave every byte below 4*index untouched, never panic, and touch nothing at or above 4*(index+length+3)
   (the up to 12 bytes in between may be overwritten with look-ahead data by the trick). *)
From Coq Require Import ZArith NArith List Bool Lia FMapPositive.
From WebP Require Import Lib.Res Lib.Arr Model.LosslessLib Model.Lossless Proofs.Lossless_HuffmanSafe.
Import ListNotations.
Open Scope Z_scope.

Ltac Zify.zify_post_hook ::= Z.div_mod_to_equations.

(* ---------- slices and block writes of Lib/Arr ---------- *)
Lemma slice_aux_len a : forall n i acc, length (slice_aux a n i acc) = (n + length acc)%nat.
Proof. induction n as [|n IH]; intros i acc; [reflexivity|]. cbn [slice_aux]. rewrite IH. cbn [length]. lia. Qed.

Lemma slice_aux_spec a : forall n i acc, (N.of_nat n <= i)%N ->
  slice_aux a n i acc = map (fun j => araw a (i - N.of_nat n + N.of_nat j)%N) (seq 0 n) ++ acc.
Proof.
  induction n as [|n IH]; intros i acc Hi; [reflexivity|]. cbn [slice_aux]. rewrite IH by lia.
  rewrite seq_S, map_app. cbn [map plus]. rewrite <- app_assoc. cbn [app].
  f_equal; [|do 2 f_equal; lia].
  apply map_ext. intros j. f_equal. lia.
Qed.

Lemma slice_aux_length a n i : length (slice_aux a n i []) = n.
Proof. rewrite slice_aux_len. cbn [length]. lia. Qed.

Lemma slice_aux_nth a n i j : (N.of_nat n <= i)%N -> (j < n)%nat ->
  nth j (slice_aux a n i []) 0 = araw a (i - N.of_nat n + N.of_nat j)%N.
Proof.
  intros Hi Hj. rewrite slice_aux_spec, app_nil_r by exact Hi.
  set (f := fun j => araw a (i - N.of_nat n + N.of_nat j)%N).
  rewrite (nth_indep _ 0 (f 0%nat)) by (rewrite map_length, seq_length; exact Hj).
  rewrite map_nth. rewrite seq_nth by exact Hj. reflexivity.
Qed.

Lemma write_aux_find : forall l m i j,
  PM.find (akey j) (write_aux m i l) =
  if ((i <=? j) && (j <? i + N.of_nat (length l)))%N then Some (nth (N.to_nat (j - i)) l 0) else PM.find (akey j) m.
Proof.
  induction l as [|x tl IH]; intros m i j; cbn [write_aux length].
  - replace ((i <=? j) && (j <? i + N.of_nat 0))%N with false; [reflexivity|].
    symmetry. apply andb_false_iff. destruct (N.leb_spec i j); [right; apply N.ltb_ge; lia | left; reflexivity].
  - rewrite IH. destruct (N.eq_dec j i) as [->|Hne].
    + replace ((N.succ i <=? i) && (i <? N.succ i + N.of_nat (length tl)))%N with false
        by (symmetry; apply andb_false_iff; left; apply N.leb_gt; lia).
      replace ((i <=? i) && (i <? i + N.of_nat (S (length tl))))%N with true
        by (symmetry; apply andb_true_iff; split; [apply N.leb_le | apply N.ltb_lt]; lia).
      rewrite PM.gss. replace (N.to_nat (i - i)) with 0%nat by lia. reflexivity.
    + rewrite PM.gso by (intros E; apply akey_inj in E; lia).
      destruct (N.leb_spec (N.succ i) j) as [Hle|Hgt].
      * replace (i <=? j)%N with true by (symmetry; apply N.leb_le; lia).
        replace (j <? i + N.of_nat (S (length tl)))%N with (j <? N.succ i + N.of_nat (length tl))%N
          by (destruct (N.ltb_spec j (N.succ i + N.of_nat (length tl))); symmetry; [apply N.ltb_lt | apply N.ltb_ge]; lia).
        cbn [andb]. destruct (j <? N.succ i + N.of_nat (length tl))%N; [|reflexivity].
        replace (N.to_nat (j - i)) with (S (N.to_nat (j - N.succ i))) by lia. reflexivity.
      * cbn [andb]. replace (i <=? j)%N with false by (symmetry; apply N.leb_gt; lia). reflexivity.
Qed.

(* a.copy_within(src..src+len, dst): memmove *)
Lemma zcopy_within_ok a src len dst : 0 <= src -> 0 <= len -> 0 <= dst -> src + len <= zlen a -> dst + len <= zlen a ->
  exists a', zcopy_within a src len dst = Ok a' /\ zlen a' = zlen a /\
    forall k, 0 <= k -> az a' k = if (dst <=? k) && (k <? dst + len) then az a (src + (k - dst)) else az a k.
Proof.
  intros Hs Hl Hd Hsl Hdl. unfold zcopy_within, zlen in *.
  replace ((src <? 0) || (len <? 0) || (dst <? 0)) with false.
  2:{ symmetry. rewrite !orb_false_iff. repeat split; apply Z.ltb_ge; lia. }
  unfold acopy_within, aslice. replace (Z.to_N src + Z.to_N len <=? alen a)%N with true by (symmetry; apply N.leb_le; lia).
  unfold awrite. rewrite slice_aux_length.
  replace (Z.to_N dst + N.of_nat (N.to_nat (Z.to_N len)) <=? alen a)%N with true by (symmetry; apply N.leb_le; lia).
  cbn [of_option]. eexists. split; [reflexivity|]. cbn [alen]. split; [reflexivity|].
  intros k Hk. unfold az at 1. unfold araw. cbn [adata]. rewrite write_aux_find. rewrite slice_aux_length.
  destruct (Z_le_gt_dec dst k) as [Hdk|Hdk]; [destruct (Z_lt_ge_dec k (dst + len)) as [Hkl|Hkl]|].
  - replace ((Z.to_N dst <=? Z.to_N k) && (Z.to_N k <? Z.to_N dst + N.of_nat (N.to_nat (Z.to_N len))))%N with true
      by (symmetry; apply andb_true_iff; split; [apply N.leb_le | apply N.ltb_lt]; lia).
    replace ((dst <=? k) && (k <? dst + len)) with true
      by (symmetry; apply andb_true_iff; split; [apply Z.leb_le | apply Z.ltb_lt]; lia).
    rewrite slice_aux_nth by lia. unfold az. f_equal. lia.
  - replace ((Z.to_N dst <=? Z.to_N k) && (Z.to_N k <? Z.to_N dst + N.of_nat (N.to_nat (Z.to_N len))))%N with false
      by (symmetry; apply andb_false_iff; right; apply N.ltb_ge; lia).
    replace ((dst <=? k) && (k <? dst + len)) with false
      by (symmetry; apply andb_false_iff; right; apply Z.ltb_ge; lia).
    reflexivity.
  - replace ((Z.to_N dst <=? Z.to_N k) && (Z.to_N k <? Z.to_N dst + N.of_nat (N.to_nat (Z.to_N len))))%N with false
      by (symmetry; apply andb_false_iff; left; apply N.leb_gt; lia).
    replace ((dst <=? k) && (k <? dst + len)) with false
      by (symmetry; apply andb_false_iff; left; apply Z.leb_gt; lia).
    reflexivity.
Qed.

(* ---------- loops with an invariant ---------- *)
Lemma for_loop_inv {St} (P : Z -> St -> Prop) (f : Z -> St -> res St) step :
  forall n i s, P i s ->
  (forall j s0, (exists m, 0 <= m < Z.of_nat n /\ j = i + m * step) -> P j s0 -> exists s1, f j s0 = Ok s1 /\ P (j + step) s1) ->
  exists s', for_loop n i step f s = Ok s' /\ P (i + Z.of_nat n * step) s'.
Proof.
  induction n as [|n IH]; intros i s HP Hstep; cbn [for_loop].
  - exists s. split; [reflexivity|]. replace (i + Z.of_nat 0 * step) with i by lia. exact HP.
  - destruct (Hstep i s ltac:(exists 0; lia) HP) as (s1 & E1 & HP1). rewrite E1.
    destruct (IH (i + step) s1 HP1) as (s' & E & HP').
    { intros j s0 (m & Hm & Hj) HPj. apply Hstep; [|assumption]. exists (m + 1). lia. }
    exists s'. split; [exact E|]. replace (i + Z.of_nat (S n) * step) with (i + step + Z.of_nat n * step) by lia. exact HP'.
Qed.

(* ---------- the overlapping copy ---------- *)
(* what the LZ77 copy must achieve on the flat buffer *)
Definition lz_copied (data data' : arr) (index dist length : Z) : Prop :=
  zlen data' = zlen data /\
  (forall k, 0 <= k < 4 * index -> az data' k = az data k) /\
  (forall k, 4 * index <= k < 4 * (index + length) -> az data' k = az data' (k - 4 * dist)) /\
  (forall k, 4 * (index + length + 3) <= k -> az data' k = az data k).

(* the scalar loop: for i in 0..length*4 { data[index*4+i] = data[index*4+i - dist*4] } *)
Lemma scalar_copy_ok data index dist length :
  1 <= dist <= index -> 0 <= length -> 4 * (index + length) <= zlen data ->
  exists data', for_range 0 (length * 4) (fun i d => bind (zget d (index * 4 + i - dist * 4)) (fun v => zset d (index * 4 + i) v)) data = Ok data' /\
    zlen data' = zlen data /\
    (forall k, 0 <= k < 4 * index -> az data' k = az data k) /\
    (forall k, 4 * index <= k < 4 * (index + length) -> az data' k = az data' (k - 4 * dist)) /\
    (forall k, 4 * (index + length) <= k -> az data' k = az data k).
Proof.
  intros Hd Hl Hlen. unfold for_range.
  set (P := fun (i : Z) (d : arr) => zlen d = zlen data /\
     (forall k, 0 <= k < 4 * index -> az d k = az data k) /\
     (forall k, 4 * index <= k < 4 * index + i -> az d k = az d (k - 4 * dist)) /\
     (forall k, 4 * index + i <= k -> az d k = az data k)).
  destruct (for_loop_inv P (fun i d => bind (zget d (index * 4 + i - dist * 4)) (fun v => zset d (index * 4 + i) v)) 1
              (Z.to_nat (length * 4 - 0)) 0 data) as (d' & E & HP).
  - unfold P. repeat split; auto; intros k Hk; lia.
  - intros j d (m & Hm & Hj) (Hlen' & Hlow & Hrec & Hhigh).
    rewrite zget_ok by lia. cbn [bind].
    destruct (zset_ok d (index * 4 + j) (az d (index * 4 + j - dist * 4)) ltac:(lia)) as (d1 & E1 & Hlen1 & Hz1).
    exists d1. split; [exact E1|]. unfold P. split; [lia|]. split; [|split].
    + intros k Hk. rewrite Hz1 by lia. replace (k =? index * 4 + j) with false by (symmetry; apply Z.eqb_neq; lia). apply Hlow. lia.
    + intros k Hk. rewrite (Hz1 k) by lia. rewrite (Hz1 (k - 4 * dist)) by lia.
      replace (k - 4 * dist =? index * 4 + j) with false by (symmetry; apply Z.eqb_neq; lia).
      destruct (Z.eqb_spec k (index * 4 + j)) as [->|Hne]; [f_equal; lia|]. apply Hrec. lia.
    + intros k Hk. rewrite Hz1 by lia. replace (k =? index * 4 + j) with false by (symmetry; apply Z.eqb_neq; lia). apply Hhigh. lia.
  - exists d'. split; [exact E|]. destruct HP as (H1 & H2 & H3 & H4). split; [assumption|]. split; [assumption|]. split.
    + intros k Hk. apply H3. lia.
    + intros k Hk. apply H4. lia.
Qed.

(* the 16-byte trick *)
Lemma trick_copy_ok data index dist length step :
  (step = 8 /\ dist = 2 \/ step = 12 /\ dist = 3 \/ step = 16 /\ 4 <= dist) ->
  dist <= index -> 1 <= length -> 4 * (index + length + 3) <= zlen data ->
  exists d0, zcopy_within data ((index - dist) * 4) 16 (index * 4) = Ok d0 /\
  exists data', for_loop (Z.to_nat (step_count 0 (length * 4) step - 1)) step step
                  (fun i d => zcopy_within d ((index - dist) * 4 + i) 16 (index * 4 + i)) d0 = Ok data' /\
                lz_copied data data' index dist length /\
                (* without the follow-up loop the first copy suffices when it covers the run *)
                (length * 4 <= step -> lz_copied data d0 index dist length).
Proof.
  intros Hstep Hd Hl Hlen.
  assert (Hs : 0 < step <= 16 /\ step <= 4 * dist /\ exists q, step = 4 * q) by
    (destruct Hstep as [[-> ->]|[[-> ->]|[-> H4]]]; (split; [lia|]); (split; [lia|]); [exists 2 | exists 3 | exists 4]; lia).
  destruct Hs as (Hs1 & Hs2 & q & Hq).
  destruct (zcopy_within_ok data ((index - dist) * 4) 16 (index * 4)) as (d0 & E0 & Hlen0 & Hz0); try lia.
  exists d0. split; [exact E0|].
  set (C := (length * 4 + step - 1) / step).
  assert (HC : step_count 0 (length * 4) step = C).
  { unfold step_count. replace (length * 4 <=? 0) with false by (symmetry; apply Z.leb_gt; lia). unfold C. f_equal. lia. }
  assert (HC1 : 1 <= C /\ length * 4 <= C * step /\ (C - 1) * step < length * 4).
  { unfold C. destruct Hstep as [[-> _]|[[-> _]|[-> _]]]; lia. }
  set (Q := fun (i : Z) (d : arr) => zlen d = zlen data /\
     (forall k, 0 <= k < 4 * index -> az d k = az data k) /\
     (forall k, 4 * index <= k < 4 * index + i -> az d k = az d (k - 4 * dist)) /\
     (forall k, 4 * index + i - step + 16 <= k -> az d k = az data k)).
  assert (HQ0 : Q step d0).
  { unfold Q. split; [assumption|]. split; [|split].
    - intros k Hk. rewrite Hz0 by lia.
      replace ((index * 4 <=? k) && (k <? index * 4 + 16)) with false by (symmetry; apply andb_false_iff; left; apply Z.leb_gt; lia). reflexivity.
    - intros k Hk. rewrite (Hz0 k) by lia. rewrite (Hz0 (k - 4 * dist)) by lia.
      replace ((index * 4 <=? k) && (k <? index * 4 + 16)) with true
        by (symmetry; apply andb_true_iff; split; [apply Z.leb_le | apply Z.ltb_lt]; lia).
      replace ((index * 4 <=? k - 4 * dist) && (k - 4 * dist <? index * 4 + 16)) with false
        by (symmetry; apply andb_false_iff; left; apply Z.leb_gt; lia).
      f_equal. lia.
    - intros k Hk. rewrite Hz0 by lia.
      replace ((index * 4 <=? k) && (k <? index * 4 + 16)) with false by (symmetry; apply andb_false_iff; right; apply Z.ltb_ge; lia). reflexivity. }
  assert (Hfinal : forall i d, Q i d -> length * 4 <= i -> i - step + 16 <= length * 4 + 12 -> lz_copied data d index dist length).
  { intros i d (H1 & H2 & H3 & H4) Hi1 Hi2. split; [assumption|]. split; [assumption|]. split.
    - intros k Hk. apply H3. lia.
    - intros k Hk. apply H4. lia. }
  destruct (for_loop_inv Q (fun i d => zcopy_within d ((index - dist) * 4 + i) 16 (index * 4 + i)) step
              (Z.to_nat (step_count 0 (length * 4) step - 1)) step d0 HQ0) as (d' & E & HQ).
  - intros j d (m & Hm & Hj) (Hlen' & Hlow & Hrec & Hhigh). rewrite HC in Hm.
    assert (Hj4 : exists t, j = 4 * t) by (exists (q + m * q); rewrite Hj, Hq; lia).
    destruct Hj4 as (t & Ht).
    assert (Hjlt : j < length * 4).
    { rewrite Hj. destruct Hstep as [[-> _]|[[-> _]|[-> _]]]; lia. }
    destruct (zcopy_within_ok d ((index - dist) * 4 + j) 16 (index * 4 + j)) as (d1 & E1 & Hlen1 & Hz1); try lia.
    exists d1. split; [exact E1|]. unfold Q. split; [lia|]. split; [|split].
    + intros k Hk. rewrite Hz1 by lia.
      replace ((index * 4 + j <=? k) && (k <? index * 4 + j + 16)) with false by (symmetry; apply andb_false_iff; left; apply Z.leb_gt; lia).
      apply Hlow. lia.
    + intros k Hk. rewrite (Hz1 k) by lia. rewrite (Hz1 (k - 4 * dist)) by lia.
      replace ((index * 4 + j <=? k - 4 * dist) && (k - 4 * dist <? index * 4 + j + 16)) with false
        by (symmetry; apply andb_false_iff; left; apply Z.leb_gt; lia).
      destruct (Z_lt_ge_dec k (index * 4 + j)).
      * replace ((index * 4 + j <=? k) && (k <? index * 4 + j + 16)) with false by (symmetry; apply andb_false_iff; left; apply Z.leb_gt; lia).
        apply Hrec. lia.
      * replace ((index * 4 + j <=? k) && (k <? index * 4 + j + 16)) with true
          by (symmetry; apply andb_true_iff; split; [apply Z.leb_le | apply Z.ltb_lt]; lia).
        f_equal. lia.
    + intros k Hk. rewrite Hz1 by lia.
      replace ((index * 4 + j <=? k) && (k <? index * 4 + j + 16)) with false by (symmetry; apply andb_false_iff; right; apply Z.ltb_ge; lia).
      apply Hhigh. lia.
  - exists d'. split; [exact E|]. split.
    + apply (Hfinal _ d' HQ); rewrite HC; rewrite Z2Nat.id by lia; destruct Hstep as [[-> _]|[[-> _]|[-> _]]]; lia.
    + intros Hshort. apply (Hfinal step d0 HQ0); lia.
Qed.

(* Appendix A4 *)
Theorem copy_backref_spec data index dist length num_values :
  zlen data = 4 * num_values -> 2 <= dist <= index -> 1 <= length -> index + length <= num_values ->
  exists data', copy_backref data index dist length num_values = Ok data' /\ lz_copied data data' index dist length.
Proof.
  intros Hlen Hd Hl Hin. unfold copy_backref.
  destruct (index + length + 3 <=? num_values) eqn:Etrick.
  - apply Z.leb_le in Etrick.
    assert (Hstep : Z.min (dist * 4) 16 = 8 /\ dist = 2 \/ Z.min (dist * 4) 16 = 12 /\ dist = 3 \/ Z.min (dist * 4) 16 = 16 /\ 4 <= dist) by lia.
    destruct (trick_copy_ok data index dist length (Z.min (dist * 4) 16) Hstep ltac:(lia) Hl ltac:(lia))
      as (d0 & E0 & data' & E & Hok & Hshort).
    rewrite E0. cbn [bind].
    destruct ((4 <? length) || (dist <? 4)) eqn:Eloop.
    + exists data'. split; [exact E | exact Hok].
    + exists d0. split; [reflexivity|]. apply Hshort.
      apply orb_false_iff in Eloop. destruct Eloop as [E1 E2]. apply Z.ltb_ge in E1. apply Z.ltb_ge in E2. lia.
  - apply Z.leb_gt in Etrick.
    destruct (scalar_copy_ok data index dist length ltac:(lia) ltac:(lia) ltac:(lia)) as (data' & E & H1 & H2 & H3 & H4).
    exists data'. split; [exact E|]. split; [assumption|]. split; [assumption|]. split; [assumption|].
    intros k Hk. apply H4. lia.
Qed.

(* the overlapping copy is determined by the bytes before it: any two buffers that agree below 4*index and satisfy
   the recurrence agree on the copied range (so the trick equals the scalar definition) *)
Theorem lz_copied_unique data d1 d2 index dist length : 1 <= dist <= index ->
  lz_copied data d1 index dist length -> lz_copied data d2 index dist length ->
  forall k, 0 <= k < 4 * (index + length) -> az d1 k = az d2 k.
Proof.
  intros Hd (_ & A1 & A2 & _) (_ & B1 & B2 & _).
  assert (H : forall n k, 0 <= k < Z.of_nat n -> k < 4 * (index + length) -> az d1 k = az d2 k).
  { induction n as [|n IH]; intros k Hk Hk2; [lia|].
    destruct (Z_lt_ge_dec k (4 * index)).
    - rewrite A1, B1 by lia. reflexivity.
    - rewrite A2, B2 by lia. apply IH; lia. }
  intros k Hk. apply (H (Z.to_nat (k + 1)) k); lia.
Qed.

(* pixels 2,3,4 are copied from two pixels back; the three pixels after the run may be clobbered (they are
   rewritten by later tokens), the fourth is not touched *)
Example copy_backref_example :
  rmap (fun d => (firstn 20 (zto_list d), skipn 32 (zto_list d)))
    (copy_backref (of_list [1;2;3;4; 5;6;7;8; 0;0;0;0; 0;0;0;0; 0;0;0;0; 9;9;9;9; 9;9;9;9; 9;9;9;9; 7;7;7;7]) 2 2 3 9)
  = Ok ([1;2;3;4; 5;6;7;8; 1;2;3;4; 5;6;7;8; 1;2;3;4], [7;7;7;7]).
Proof. vm_compute. reflexivity. Qed.
