(* C01 / C03, frame level, GENERALISED over the specification's two image readers.

   This file is Proofs/C01T_frame.v (by builder c01transforms: the transform list, apply_transforms and the composition of
   the whole VP8L frame decoder, parametric in the refinement of the entropy decoder) with ONE change, made mechanically:
   the specification's entropy_coded_image / spatially_coded_image are Section variables ECI / SCI, and
   read_transform(s) / image_stream / decode / decode_implicit / decode_rgba / decode_implicit_rgba are the versions
   of C01_gspec.v parametrised by them.  No proof idea was changed.  Reason: premise P3 of C01T_frame.v
   (decode_image_stream = the specification's readers, for every valid image) is false -- the specification, like
   libwebp, drops a simple-code symbol outside the 40-symbol distance alphabet, the crate rejects it
   (C01_final.P1_P3_inconsistent) -- so the premises have to be stated for the STRICT readers of C01_groups.v.
   C01_top.v instantiates ECI / SCI with them and discharges all five premises. *)
From Coq Require Import ZArith NArith List Bool Lia.
From WebP Require Import Lib.Res Lib.Arr Lib.ZBits Gen.Kernels Model.LosslessLib Model.BitReader Model.Huffman
  Model.LosslessTransform Model.Lossless
  Proofs.Lossless_HuffmanSafe Proofs.Lossless_CopyWithin Proofs.Lossless_Kernels
  Proofs.C01T_repr Proofs.C01T_green Proofs.C01T_color Proofs.C01T_index Proofs.C01T_palette Proofs.C01T_pred_spec
  Proofs.C01T_predictor Proofs.C01_gspec.
From WebP Require Spec.VP8L Proofs.C04_arr.
Import ListNotations.
Open Scope Z_scope.
Open Scope res_scope.

Ltac Zify.zify_post_hook ::= Z.div_mod_to_equations.

Section G.
  Variables (ECI SCI : image_reader).

(* ------------------------------------------------------------------------------------------------ *)
(** * small facts *)
Lemma spec_read_bits_S n s :
  V.read_bits (S n) s = match V.read_bit s with
                        | Some (b, s1) => match V.read_bits n s1 with Some (v, s2) => Some (Z.b2z b + 2 * v, s2) | None => None end
                        | None => None
                        end.
Proof. reflexivity. Qed.

Lemma spec_read_bits_range : forall n s v s', V.read_bits n s = Some (v, s') -> 0 <= v < 2 ^ Z.of_nat n.
Proof.
  induction n as [|n IH]; intros s v s' H; [|rewrite spec_read_bits_S in H].
  - injection H as Hv Hs. subst. cbn. lia.
  - destruct (V.read_bit s) as [[b s1]|]; [|discriminate].
    destruct (V.read_bits n s1) as [[v1 s2]|] eqn:E; [|discriminate].
    assert (Hv : v = Z.b2z b + 2 * v1) by congruence. rewrite Hv. clear H Hv.
    specialize (IH _ _ _ E). rewrite Nat2Z.inj_succ, Z.pow_succ_r by lia. destruct b; cbn [Z.b2z]; lia.
Qed.

Lemma dru_range n B : 1 <= n -> 1 <= B -> 1 <= V.DIV_ROUND_UP n B <= n.
Proof.
  intros Hn HB. pose proof (div_round_up_ge n B ltac:(lia) HB).
  destruct (div_round_up_bounds n B ltac:(lia) HB) as [H1 | [H1 _]]; [|lia]. split; nia.
Qed.

Lemma pow2_range b : 0 <= b <= 9 -> 1 <= 2 ^ b <= 512.
Proof. apply pow2_bits. Qed.

Lemma width_bits_range n : 0 <= V.width_bits_of n <= 3.
Proof. unfold V.width_bits_of. destruct (n <=? 2); [lia|]. destruct (n <=? 4); [lia|]. destruct (n <=? 16); lia. Qed.

(* views of the output buffer *)
Lemma zview_ok a n : 0 <= n <= zlen a -> exists v, zview a n = Ok v /\ zlen v = n /\ forall k, az v k = az a k.
Proof.
  intros Hn. unfold zview, zlen in *. replace (n <? 0) with false by (symmetry; apply Z.ltb_ge; lia).
  replace (Z.to_N n <=? alen a)%N with true by (symmetry; apply N.leb_le; lia).
  eexists. split; [reflexivity|]. cbn [alen]. split; [lia|]. intros k. reflexivity.
Qed.

Lemma zunview_ok o v : zlen (zunview o v) = zlen o /\ forall k, az (zunview o v) k = az v k.
Proof. split; [reflexivity|]. intros k. reflexivity. Qed.

Lemma repr_ext a b px n : (forall k, az b k = az a k) -> 4 * n <= zlen b -> repr a px n -> repr b px n.
Proof.
  intros He Hl (_ & Ha & Hb & Hp). split; [exact Hl|]. split; [exact Ha|]. split.
  - intros k Hk. rewrite He. apply Hb. exact Hk.
  - intros i Hi. rewrite (Hp i Hi). unfold pxl. rewrite !He. reflexivity.
Qed.

(* the slots of LosslessDecoder::transforms *)
Lemma opt_set_length {A} (l : list (option A)) i v : length (opt_set l i v) = length l.
Proof. revert i. induction l as [|x t IH]; intros i; [reflexivity|]. destruct i; cbn [opt_set length]; [reflexivity | rewrite IH; reflexivity]. Qed.

Lemma nth_error_opt_set {A} (l : list (option A)) i v j : (i < length l)%nat ->
  nth_error (opt_set l i v) j = if Nat.eqb i j then Some (Some v) else nth_error l j.
Proof.
  revert i j. induction l as [|x t IH]; intros i j Hi; [cbn [length] in Hi; lia|].
  destruct i as [|i]; destruct j as [|j]; cbn [opt_set nth_error Nat.eqb]; try reflexivity.
  apply IH. cbn [length] in Hi. lia.
Qed.

Lemma Forall2_rev {A B} (R : A -> B -> Prop) l l' : Forall2 R l l' -> Forall2 R (rev l) (rev l').
Proof. induction 1 as [|x y l l' Hxy _ IH]; [constructor|]. cbn [rev]. apply Forall2_app; [exact IH | repeat constructor; exact Hxy]. Qed.

(* ------------------------------------------------------------------------------------------------ *)
(** * how Model transforms represent specification transforms *)
Definition ttype (t : V.transform) : Z :=
  match t with V.Predictor _ _ _ => 0 | V.ColorTransform _ _ _ => 1 | V.SubtractGreen => 2 | V.ColorIndexing _ _ _ => 3 end.

Definition trel (h : Z) (mt : transform) (st : V.transform) : Prop :=
  match mt, st with
  | PredictorTransform sb data, V.Predictor wd sb' modes =>
      sb' = sb /\ 2 <= sb <= 9 /\ repr data modes (V.DIV_ROUND_UP wd (2 ^ sb) * V.DIV_ROUND_UP h (2 ^ sb))
  | ColorTransform sb data, V.ColorTransform wd sb' el =>
      sb' = sb /\ 2 <= sb <= 9 /\ repr data el (V.DIV_ROUND_UP wd (2 ^ sb) * V.DIV_ROUND_UP h (2 ^ sb))
  | SubtractGreen, V.SubtractGreen => True
  | ColorIndexingTransform ts tdata, V.ColorIndexing wd ts' table =>
      ts' = ts /\ 1 <= ts <= 256 /\ repr tdata table ts /\ zlen tdata = 4 * ts
  | _, _ => False
  end.

(* reading transform t at image width w leaves width w1; W = the width of the frame (colour indexing comes first or never
   sees a reduced width, because it is the only transform that changes the width and occurs at most once) *)
Definition step_width (W : Z) (t : V.transform) (w w1 : Z) : Prop :=
  match t with
  | V.Predictor wd _ _ | V.ColorTransform wd _ _ => wd = w /\ w1 = w
  | V.SubtractGreen => w1 = w
  | V.ColorIndexing wd n _ => wd = w /\ w = W /\ w1 = V.DIV_ROUND_UP w (2 ^ V.width_bits_of n)
  end.

(* reading order *)
Fixpoint chain_read (W : Z) (ts : list V.transform) (w cw : Z) : Prop :=
  match ts with [] => cw = w | t :: r => exists w1, step_width W t w w1 /\ chain_read W r w1 cw end.
(* application order *)
Fixpoint chain_apply (W : Z) (sts : list V.transform) (wc wf : Z) : Prop :=
  match sts with [] => wc = wf | t :: r => exists w1, step_width W t w1 wc /\ chain_apply W r w1 wf end.

Lemma chain_apply_app W l1 : forall l2 a b c, chain_apply W l1 a b -> chain_apply W l2 b c -> chain_apply W (l1 ++ l2) a c.
Proof.
  induction l1 as [|t r IH]; intros l2 a b c H1 H2; cbn [chain_apply app] in *.
  - subst b. exact H2.
  - destruct H1 as (w1 & Hs & Hr). exists w1. split; [exact Hs|]. apply (IH l2 w1 b c); assumption.
Qed.

Lemma chain_read_apply W ts : forall w cw, chain_read W ts w cw -> chain_apply W (rev ts) cw w.
Proof.
  induction ts as [|t r IH]; intros w cw H; cbn [chain_read rev] in *.
  - subst cw. reflexivity.
  - destruct H as (w1 & Hs & Hr). apply (chain_apply_app W (rev r) [t] cw w1 w); [apply IH; exact Hr|].
    cbn [chain_apply]. exists w. split; [exact Hs | reflexivity].
Qed.

(* every predictor block uses one of the 14 modes of the format (see C01T_predictor.predictor_mode14_differs) *)
Definition modes_in_format (t : V.transform) : Prop :=
  match t with
  | V.Predictor _ _ modes => forall j, 0 <= j < Z.of_N (alen modes) -> V.GREEN (V.pix modes j) <= 13
  | _ => True
  end.

(* what the Rust code computes: the specification's inverse transforms, except that a predictor block whose green byte
   is 14..255 keeps its residuals (C01T_pred_spec.pmodel) *)
Definition inverse_transform_m (h : Z) (img : arr) (t : V.transform) : arr :=
  match t with
  | V.Predictor width size_bits modes => inverse_predictor_gen pmodel width h size_bits modes img
  | _ => V.inverse_transform h img t
  end.

Lemma inverse_transform_m_spec h mt t img : 0 <= h -> trel h mt t -> modes_in_format t ->
  inverse_transform_m h img t = V.inverse_transform h img t.
Proof.
  intros Hh Ht Hm. destruct t as [wd sb modes | | |]; try reflexivity. cbn [inverse_transform_m V.inverse_transform].
  destruct mt as [sb' data | | |]; cbn [trel] in Ht; try contradiction. destruct Ht as (-> & Hsb & Hr).
  cbn [modes_in_format] in Hm. rewrite (repr_alen _ _ _ Hr) in Hm.
  destruct (Z_le_gt_dec wd 0) as [Hw0|Hw0].
  - (* no pixel at all: both loops do nothing *)
    unfold V.inverse_predictor, inverse_predictor_gen. apply for_range_ext; [exact Hh|]. intros y a Hy.
    unfold V.for_range. replace (Z.to_N wd) with 0%N by lia. reflexivity.
  - rewrite inverse_predictor_is_gen. apply inverse_predictor_gen_ext; [lia | exact Hh |]. intros x y Hx Hy.
    pose proof (pow2_bits sb' ltac:(lia)) as HB.
    assert (Hbi : 0 <= Z.shiftr y sb' * V.DIV_ROUND_UP wd (2 ^ sb') + Z.shiftr x sb' < V.DIV_ROUND_UP wd (2 ^ sb') * V.DIV_ROUND_UP h (2 ^ sb')).
    { rewrite !Z.shiftr_div_pow2 by lia. apply block_index_lt; lia. }
    pose proof (Hm _ Hbi) as H13. pose proof (GREEN_byte (V.pix modes (Z.shiftr y sb' * V.DIV_ROUND_UP wd (2 ^ sb') + Z.shiftr x sb'))) as Bg.
    unfold byte in Bg. unfold pmodel.
    replace (V.GREEN (V.pix modes (Z.shiftr y sb' * V.DIV_ROUND_UP wd (2 ^ sb') + Z.shiftr x sb')) <=? 13) with true
      by (symmetry; apply Z.leb_le; exact H13).
    rewrite land15_small by lia. reflexivity.
Qed.

Lemma fold_transform_m_spec h sts : 0 <= h -> Forall (fun t => exists mt, trel h mt t) sts -> Forall modes_in_format sts ->
  forall img, fold_left (inverse_transform_m h) sts img = fold_left (V.inverse_transform h) sts img.
Proof.
  intros Hh. induction sts as [|t r IH]; intros Hall Hm img; [reflexivity|].
  inversion Hall as [|t0 r0 (mt & Ht) Hall' E0]. inversion Hm as [|t1 r1 Hmt Hm' E1]. subst.
  cbn [fold_left]. rewrite (inverse_transform_m_spec h mt t img Hh Ht Hmt). apply IH; assumption.
Qed.

Section Frame.
  (* `bad r`: what the Model result r must satisfy when the specification rejects the stream.  Instantiated below with
     "r is an Err" (invalid streams are rejected) and with "True" (then only the clauses about valid streams remain). *)
  Variable bad : forall A : Type, res A -> Prop.
  Hypothesis bad_err : forall A e, bad A (Err e).
  Hypothesis bad_bind : forall A B (r : res A) (f : A -> res B), bad A r -> bad B (bind r f).
  Variable rel : BitReader.t -> V.stream -> Prop.
  Hypothesis rel_init : forall data sched, Forall byte data -> rel (BitReader.init data sched) (V.Stream [] data).
  Hypothesis read_bits_refines : forall br s tb n, rel br s -> 0 <= n <= 16 -> n <= tb ->
    match V.read_bits (Z.to_nat n) s with
    | Some (v, s') => exists br', BitReader.read_bits br tb n = Ok (v, br') /\ rel br' s'
    | None => bad _ (BitReader.read_bits br tb n)
    end.
  Hypothesis decode_image_stream_refines : forall br s xs ys (argb : bool) data,
    rel br s -> 1 <= xs <= 16384 -> 1 <= ys <= 16384 -> zlen data = 4 * (xs * ys) ->
    match (if argb then SCI xs ys s else ECI xs ys s) with
    | Some (px, s') => exists br' bytes, decode_image_stream STREAM_LEVELS br xs ys argb data = Ok (br', bytes) /\
                         zlen bytes = zlen data /\ repr bytes px (xs * ys) /\ rel br' s'
    | None => bad _ (decode_image_stream STREAM_LEVELS br xs ys argb data)
    end.

  Variables (W h : Z).
  Hypothesis HW : 1 <= W <= 16384.
  Hypothesis Hh : 1 <= h <= 16384.

  (* ---------------------------------------------------------------------------------------------- *)
  (** ** one transform header *)
  Definition m_read_transform (ty : Z) (br : BitReader.t) (xsize : Z) : res (transform * Z * BitReader.t) :=
    (if ty =? 0 then
       let* '(sb, br) := BitReader.read_bits br 8 3 in
       let size_bits := sb + 2 in
       let* block_xsize := subsample xsize size_bits in
       let* block_ysize := subsample h size_bits in
       let* '(br, data) := decode_image_stream STREAM_LEVELS br block_xsize block_ysize false
                                               (zmake (block_xsize * block_ysize * 4)) in
       Ok (PredictorTransform size_bits data, xsize, br)
     else if ty =? 1 then
       let* '(sb, br) := BitReader.read_bits br 8 3 in
       let size_bits := sb + 2 in
       let* block_xsize := subsample xsize size_bits in
       let* block_ysize := subsample h size_bits in
       let* '(br, data) := decode_image_stream STREAM_LEVELS br block_xsize block_ysize false
                                               (zmake (block_xsize * block_ysize * 4)) in
       Ok (ColorTransform size_bits data, xsize, br)
     else if ty =? 2 then Ok (SubtractGreen, xsize, br)
     else if ty =? 3 then
       let* '(cts, br) := BitReader.read_bits br 16 8 in
       let color_table_size := cts + 1 in
       let* '(br, color_map) := decode_image_stream STREAM_LEVELS br color_table_size 1 false
                                                    (zmake (color_table_size * 4)) in
       let bits := if color_table_size <=? 2 then 3 else if color_table_size <=? 4 then 2
                   else if color_table_size <=? 16 then 1 else 0 in
       let* xsize' := subsample xsize bits in
       let* color_map := adjust_color_map color_map in
       Ok (ColorIndexingTransform color_table_size color_map, xsize', br)
     else Panic PUnreachable).

  (* size bits and the sub-resolution image of the predictor / colour transform *)
  Lemma block_image_refines {X} br s wcur (K : Z -> arr -> BitReader.t -> res X) : rel br s -> 1 <= wcur <= 16384 ->
    let M := (let* '(sb, br) := BitReader.read_bits br 8 3 in
              let size_bits := sb + 2 in
              let* block_xsize := subsample wcur size_bits in
              let* block_ysize := subsample h size_bits in
              let* '(br, data) := decode_image_stream STREAM_LEVELS br block_xsize block_ysize false
                                                      (zmake (block_xsize * block_ysize * 4)) in
              K size_bits data br) in
    match V.read_bits 3 s with
    | None => bad _ (M)
    | Some (b, s1) =>
      match ECI (V.DIV_ROUND_UP wcur (2 ^ (b + 2))) (V.DIV_ROUND_UP h (2 ^ (b + 2))) s1 with
      | None => bad _ (M)
      | Some (img, s2) => exists br' data, M = K (b + 2) data br' /\ rel br' s2 /\ 2 <= b + 2 <= 9 /\
                            repr data img (V.DIV_ROUND_UP wcur (2 ^ (b + 2)) * V.DIV_ROUND_UP h (2 ^ (b + 2)))
      end
    end.
  Proof.
    intros Hrel Hwc M. unfold M. clear M.
    pose proof (read_bits_refines br s 8 3 Hrel ltac:(lia) ltac:(lia)) as Hb. change (Z.to_nat 3) with 3%nat in Hb.
    destruct (V.read_bits 3 s) as [[b s1]|] eqn:Eb.
    2:{ apply bad_bind; exact Hb. }
    destruct Hb as (br1 & E1 & Hrel1). apply spec_read_bits_range in Eb. change (2 ^ Z.of_nat 3) with 8 in Eb.
    rewrite E1. cbn [bind]. cbv zeta. rewrite !subsample_ok by lia. cbn [bind].
    pose proof (pow2_range (b + 2) ltac:(lia)) as Hp.
    change ((wcur + 2 ^ (b + 2) - 1) / 2 ^ (b + 2)) with (V.DIV_ROUND_UP wcur (2 ^ (b + 2))).
    change ((h + 2 ^ (b + 2) - 1) / 2 ^ (b + 2)) with (V.DIV_ROUND_UP h (2 ^ (b + 2))).
    pose proof (dru_range wcur (2 ^ (b + 2)) ltac:(lia) ltac:(lia)) as Hx.
    pose proof (dru_range h (2 ^ (b + 2)) ltac:(lia) ltac:(lia)) as Hy.
    set (xs := V.DIV_ROUND_UP wcur (2 ^ (b + 2))) in *. set (ys := V.DIV_ROUND_UP h (2 ^ (b + 2))) in *.
    pose proof (decode_image_stream_refines br1 s1 xs ys false (zmake (xs * ys * 4)) Hrel1 ltac:(lia) ltac:(lia)) as Hd.
    cbv beta iota in Hd. specialize (Hd ltac:(rewrite zmake_len by nia; lia)).
    destruct (ECI xs ys s1) as [[img s2]|].
    2:{ apply bad_bind; exact Hd. }
    destruct Hd as (br2 & data & E2 & _ & Hr2 & Hrel2). exists br2, data. rewrite E2. cbn [bind].
    split; [reflexivity|]. split; [exact Hrel2|]. split; [lia | exact Hr2].
  Qed.

  Lemma read_transform_refines ty br s wcur : rel br s -> 0 <= ty <= 3 -> 1 <= wcur <= 16384 -> (ty = 3 -> wcur = W) ->
    match g_read_transform ECI ty wcur h s with
    | Some (t, w1, s') => exists mt br', m_read_transform ty br wcur = Ok (mt, w1, br') /\ rel br' s' /\ trel h mt t /\
                            ttype t = ty /\ step_width W t wcur w1 /\ 1 <= w1 <= 16384
    | None => bad _ (m_read_transform ty br wcur)
    end.
  Proof.
    intros Hrel Hty Hwc H3. assert (C : ty = 0 \/ ty = 1 \/ ty = 2 \/ ty = 3) by lia.
    destruct C as [-> | [-> | [-> | ->]]]; unfold g_read_transform, m_read_transform; cbn [Z.eqb Pos.eqb].
    - pose proof (block_image_refines br s wcur (fun sb data br0 => Ok (PredictorTransform sb data, wcur, br0)) Hrel Hwc) as Hb.
      cbv zeta in Hb. destruct (V.read_bits 3 s) as [[b s1]|]; [|exact Hb].
      destruct (ECI _ _ s1) as [[img s2]|]; [|exact Hb].
      destruct Hb as (br' & data & E & Hrel' & Hsb & Hr). exists (PredictorTransform (b + 2) data), br'.
      split; [exact E|]. split; [exact Hrel'|]. split; [cbn [trel]; auto|]. split; [reflexivity|]. split; [cbn; auto | lia].
    - pose proof (block_image_refines br s wcur (fun sb data br0 => Ok (ColorTransform sb data, wcur, br0)) Hrel Hwc) as Hb.
      cbv zeta in Hb. destruct (V.read_bits 3 s) as [[b s1]|]; [|exact Hb].
      destruct (ECI _ _ s1) as [[img s2]|]; [|exact Hb].
      destruct Hb as (br' & data & E & Hrel' & Hsb & Hr). exists (ColorTransform (b + 2) data), br'.
      split; [exact E|]. split; [exact Hrel'|]. split; [cbn [trel]; auto|]. split; [reflexivity|]. split; [cbn; auto | lia].
    - exists SubtractGreen, br. split; [reflexivity|]. split; [exact Hrel|]. split; [exact I|]. split; [reflexivity|].
      split; [reflexivity | lia].
    - specialize (H3 eq_refl).
      pose proof (read_bits_refines br s 16 8 Hrel ltac:(lia) ltac:(lia)) as Hb. change (Z.to_nat 8) with 8%nat in Hb.
      destruct (V.read_bits 8 s) as [[n s1]|] eqn:Eb.
      2:{ apply bad_bind; exact Hb. }
      destruct Hb as (br1 & E1 & Hrel1). apply spec_read_bits_range in Eb. change (2 ^ Z.of_nat 8) with 256 in Eb.
      rewrite E1. cbn [bind]. cbv zeta.
      pose proof (decode_image_stream_refines br1 s1 (n + 1) 1 false (zmake ((n + 1) * 4)) Hrel1 ltac:(lia) ltac:(lia)) as Hd.
      cbv beta iota in Hd. specialize (Hd ltac:(rewrite zmake_len by lia; lia)).
      destruct (ECI (n + 1) 1 s1) as [[deltas s2]|].
      2:{ apply bad_bind; exact Hd. }
      destruct Hd as (br2 & cm & E2 & Hl2 & Hr2 & Hrel2). rewrite E2. cbn [bind].
      rewrite zmake_len in Hl2 by lia. rewrite Z.mul_1_r in Hr2.
      fold (V.width_bits_of (n + 1)). pose proof (width_bits_range (n + 1)) as Hwb.
      rewrite subsample_ok by lia. cbn [bind].
      destruct (adjust_color_map_refines cm deltas (n + 1) Hr2 ltac:(lia) ltac:(lia)) as (cm' & E3 & Hl3 & Hr3).
      rewrite E3. cbn [bind].
      change ((wcur + 2 ^ V.width_bits_of (n + 1) - 1) / 2 ^ V.width_bits_of (n + 1))
        with (V.DIV_ROUND_UP wcur (2 ^ V.width_bits_of (n + 1))).
      assert (Hp : 1 <= 2 ^ V.width_bits_of (n + 1)) by (apply (Z.pow_le_mono_r 2 0); lia).
      pose proof (dru_range wcur (2 ^ V.width_bits_of (n + 1)) ltac:(lia) Hp) as Hx.
      eexists. eexists. split; [reflexivity|]. split; [exact Hrel2|]. split.
      + cbn [trel]. split; [reflexivity|]. split; [lia|]. split; [exact Hr3 | lia].
      + split; [reflexivity|]. split; [cbn [step_width]; auto | lia].
  Qed.

  (* ---------------------------------------------------------------------------------------------- *)
  (** ** the transform list *)
  Definition slot (d : dec) (ty : Z) : option (option transform) := nth_error (d_transforms d) (Z.to_nat ty).

  Definition dinv (d : dec) (seen : list Z) : Prop :=
    length (d_transforms d) = 4%nat /\ d_width d = W /\ d_height d = h /\
    (forall ty, 0 <= ty <= 3 -> ~ In ty seen -> slot d ty = Some None) /\
    (forall ty, In ty seen -> exists mt, slot d ty = Some (Some mt)).

  Lemma spec_read_transforms_unfold n seen w s :
    g_read_transforms ECI n seen w h s =
    match V.read_bits 1 s with
    | Some (present, s) =>
      if present =? 0 then Some ([], w, s) else
      match n with
      | O => None
      | S k =>
        match V.read_bits 2 s with
        | Some (type, s) =>
          if existsb (Z.eqb type) seen then None else
          match g_read_transform ECI type w h s with
          | Some (t, w1, s) =>
            match g_read_transforms ECI k (type :: seen) w1 h s with
            | Some (ts, w2, s) => Some (t :: ts, w2, s)
            | None => None
            end
          | None => None
          end
        | None => None
        end
      end
    | None => None
    end.
  Proof. destruct n; reflexivity. Qed.

  Lemma existsb_eqb_In ty seen : existsb (Z.eqb ty) seen = true <-> In ty seen.
  Proof.
    rewrite existsb_exists. split.
    - intros (x & Hx & E). apply Z.eqb_eq in E. subst x. exact Hx.
    - intros H. exists ty. split; [exact H | apply Z.eqb_refl].
  Qed.

  Lemma all_seen seen ty : NoDup seen -> (forall t, In t seen -> 0 <= t <= 3) -> length seen = 4%nat -> 0 <= ty <= 3 -> In ty seen.
  Proof.
    intros Hnd Hr Hl Hty. assert (Hincl : incl [0; 1; 2; 3] seen).
    { apply NoDup_length_incl; [exact Hnd | cbn [length]; lia |]. intros t Ht. specialize (Hr t Ht). cbn [In]. lia. }
    apply Hincl. cbn [In]. lia.
  Qed.

  Lemma step_width_same t w w1 : step_width W t w w1 -> ttype t <> 3 -> w1 = w.
  Proof. destruct t; cbn [step_width ttype]; intros H Hne; lia. Qed.

  Lemma read_loop_refines : forall n fuel seen br s d wcur,
    rel br s -> (n < fuel)%nat -> dinv d seen -> NoDup seen -> (forall ty, In ty seen -> 0 <= ty <= 3) ->
    (length seen + n = 4)%nat -> 1 <= wcur <= 16384 -> (~ In 3 seen -> wcur = W) ->
    match g_read_transforms ECI n seen wcur h s with
    | Some (ts, cw, s') =>
        exists br' d', read_transforms_loop fuel br d wcur = Ok (cw, br', d') /\ rel br' s' /\
          d_width d' = W /\ d_height d' = h /\ d_order d' = d_order d ++ map ttype ts /\
          (forall ty mt, 0 <= ty -> slot d ty = Some (Some mt) -> slot d' ty = Some (Some mt)) /\
          Forall (fun t => exists mt, slot d' (ttype t) = Some (Some mt) /\ trel h mt t) ts /\
          chain_read W ts wcur cw /\ 1 <= cw <= 16384
    | None => bad _ (read_transforms_loop fuel br d wcur)
    end.
  Proof.
    assert (Hpre : forall seen br s d wcur, rel br s -> dinv d seen -> 1 <= wcur <= 16384 ->
              forall (K : BitReader.t -> res (Z * BitReader.t * dec)) (KS : V.stream -> option (list V.transform * Z * V.stream)),
              (forall br1 s1, rel br1 s1 ->
                 match KS s1 with
                 | Some (ts, cw, s') =>
                     exists br' d', K br1 = Ok (cw, br', d') /\ rel br' s' /\
                       d_width d' = W /\ d_height d' = h /\ d_order d' = d_order d ++ map ttype ts /\
                       (forall ty mt, 0 <= ty -> slot d ty = Some (Some mt) -> slot d' ty = Some (Some mt)) /\
                       Forall (fun t => exists mt, slot d' (ttype t) = Some (Some mt) /\ trel h mt t) ts /\
                       chain_read W ts wcur cw /\ 1 <= cw <= 16384
                 | None => bad _ (K br1)
                 end) ->
              match (match V.read_bits 1 s with
                     | Some (present, s1) => if present =? 0 then Some ([], wcur, s1) else KS s1
                     | None => None end) with
              | Some (ts, cw, s') =>
                  exists br' d', (let* '(more, br1) := BitReader.read_bits br 8 1 in
                                  if negb (more =? 1) then Ok (wcur, br1, d) else K br1) = Ok (cw, br', d') /\ rel br' s' /\
                    d_width d' = W /\ d_height d' = h /\ d_order d' = d_order d ++ map ttype ts /\
                    (forall ty mt, 0 <= ty -> slot d ty = Some (Some mt) -> slot d' ty = Some (Some mt)) /\
                    Forall (fun t => exists mt, slot d' (ttype t) = Some (Some mt) /\ trel h mt t) ts /\
                    chain_read W ts wcur cw /\ 1 <= cw <= 16384
              | None => bad _ (let* '(more, br1) := BitReader.read_bits br 8 1 in
                                if negb (more =? 1) then Ok (wcur, br1, d) else K br1)
              end).
    { intros seen br s d wcur Hrel Hd Hwc K KS HK.
      pose proof (read_bits_refines br s 8 1 Hrel ltac:(lia) ltac:(lia)) as Hb. change (Z.to_nat 1) with 1%nat in Hb.
      destruct (V.read_bits 1 s) as [[present s1]|] eqn:Eb; [|apply bad_bind; exact Hb].
      destruct Hb as (br1 & E1 & Hrel1). apply spec_read_bits_range in Eb. change (2 ^ Z.of_nat 1) with 2 in Eb.
      rewrite E1. cbn [bind]. destruct (Z.eqb_spec present 0) as [->|Hp].
      - cbn [Z.eqb negb]. exists br1, d. destruct Hd as (_ & Hdw & Hdh & _).
        split; [reflexivity|]. split; [exact Hrel1|]. split; [exact Hdw|]. split; [exact Hdh|].
        split; [cbn [map]; rewrite app_nil_r; reflexivity|]. split; [intros ty mt _ Hs; exact Hs|]. split; [constructor|].
        split; [reflexivity | exact Hwc].
      - replace (present =? 1) with true by (symmetry; apply Z.eqb_eq; lia). cbn [negb]. apply HK. exact Hrel1. }
    induction n as [|k IH]; intros fuel seen br s d wcur Hrel Hfuel Hd Hnd Hrange Hlen Hwc Hw3;
      (destruct fuel as [|fuel']; [lia|]); rewrite spec_read_transforms_unfold; cbn [read_transforms_loop];
      apply (Hpre seen br s d wcur Hrel Hd Hwc); intros br1 s1 Hrel1;
      pose proof (read_bits_refines br1 s1 8 2 Hrel1 ltac:(lia) ltac:(lia)) as Hb2; change (Z.to_nat 2) with 2%nat in Hb2.
    - (* no transform may follow: the Model reads the type and finds its slot taken *)
      destruct (V.read_bits 2 s1) as [[ty s2]|] eqn:Eb2; [|apply bad_bind; exact Hb2].
      destruct Hb2 as (br2 & E2 & Hrel2). apply spec_read_bits_range in Eb2. change (2 ^ Z.of_nat 2) with 4 in Eb2.
      rewrite E2. cbn [bind].
      destruct Hd as (_ & _ & _ & _ & Hs).
      destruct (Hs ty (all_seen seen ty Hnd Hrange ltac:(lia) ltac:(lia))) as (mt & Emt). unfold slot in Emt. rewrite Emt. cbn [of_option bind].
      apply bad_err.
    - destruct (V.read_bits 2 s1) as [[ty s2]|] eqn:Eb2; [|apply bad_bind; exact Hb2].
      destruct Hb2 as (br2 & E2 & Hrel2). apply spec_read_bits_range in Eb2. change (2 ^ Z.of_nat 2) with 4 in Eb2.
      rewrite E2. cbn [bind]. pose proof Hd as (Hdl & Hdw & Hdh & Hnone & Hsome).
      destruct (existsb (Z.eqb ty) seen) eqn:Eseen.
      + apply existsb_eqb_In in Eseen. destruct (Hsome ty Eseen) as (mt & Emt). unfold slot in Emt. rewrite Emt. cbn [of_option bind].
        apply bad_err.
      + assert (Hnin : ~ In ty seen) by (intros Hin; apply existsb_eqb_In in Hin; congruence).
        pose proof (Hnone ty ltac:(lia) Hnin) as Eslot. unfold slot in Eslot. rewrite Eslot. cbn [of_option bind].
        rewrite Hdh. fold (m_read_transform ty br2 wcur).
        pose proof (read_transform_refines ty br2 s2 wcur Hrel2 ltac:(lia) Hwc) as Ht.
        specialize (Ht ltac:(intros ->; apply Hw3; exact Hnin)).
        destruct (g_read_transform ECI ty wcur h s2) as [[[t w1] s3]|]; [|apply bad_bind; exact Ht].
        destruct Ht as (mt & br3 & E3 & Hrel3 & Htrel & Htty & Hstep & Hw1). rewrite E3. cbn [bind].
        set (d1 := {| d_transforms := opt_set (d_transforms d) (Z.to_nat ty) mt; d_order := d_order d ++ [ty];
                      d_width := d_width d; d_height := h |}).
        assert (Hslot1 : forall ty', 0 <= ty' -> slot d1 ty' = if ty' =? ty then Some (Some mt) else slot d ty').
        { intros ty' Hty'. unfold slot, d1. cbn [d_transforms]. rewrite nth_error_opt_set by lia.
          destruct (Z.eqb_spec ty' ty) as [->|Hne]; [rewrite Nat.eqb_refl; reflexivity|].
          replace (Nat.eqb (Z.to_nat ty) (Z.to_nat ty')) with false by (symmetry; apply Nat.eqb_neq; lia). reflexivity. }
        assert (Hd1 : dinv d1 (ty :: seen)).
        { split; [unfold d1; cbn [d_transforms]; rewrite opt_set_length; exact Hdl|]. split; [exact Hdw|]. split; [reflexivity|]. split.
          - intros ty' Hty' Hn'. rewrite Hslot1 by lia. destruct (Z.eqb_spec ty' ty) as [->|Hne]; [exfalso; apply Hn'; left; reflexivity|].
            apply Hnone; [lia|]. intros Hin. apply Hn'. right. exact Hin.
          - intros ty' [<-|Hin].
            + exists mt. rewrite Hslot1 by lia. rewrite Z.eqb_refl. reflexivity.
            + specialize (Hrange ty' Hin). rewrite Hslot1 by lia. destruct (Z.eqb_spec ty' ty) as [->|Hne]; [exists mt; reflexivity|].
              apply Hsome. exact Hin. }
        assert (Hw3' : ~ In 3 (ty :: seen) -> w1 = W).
        { intros Hn3. assert (w1 = wcur) by (apply (step_width_same t); [exact Hstep | rewrite Htty; intros ->; apply Hn3; left; reflexivity]).
          subst w1. apply Hw3. intros Hin. apply Hn3. right. exact Hin. }
        pose proof (IH fuel' (ty :: seen) br3 s3 d1 w1 Hrel3 ltac:(lia) Hd1 ltac:(constructor; assumption)) as Hrec.
        specialize (Hrec ltac:(intros ty' [<-|Hin]; [lia | apply Hrange; exact Hin]) ltac:(cbn [length]; lia) Hw1 Hw3').
        destruct (g_read_transforms ECI k (ty :: seen) w1 h s3) as [[[ts cw] s4]|]; [|exact Hrec].
        destruct Hrec as (br' & d' & E' & Hrel' & Hdw' & Hdh' & Hord' & Hpres' & Hall' & Hchain' & Hcw').
        exists br', d'. split; [exact E'|]. split; [exact Hrel'|]. split; [exact Hdw'|]. split; [exact Hdh'|]. split; [|split; [|split; [|split]]].
        * rewrite Hord'. unfold d1. cbn [d_order map]. rewrite <- app_assoc, Htty. reflexivity.
        * intros ty' mt' Hty' Hs'. apply Hpres'; [exact Hty'|].
          rewrite Hslot1 by lia. destruct (Z.eqb_spec ty' ty) as [->|Hne]; [|exact Hs']. unfold slot in Hs'. congruence.
        * constructor; [|exact Hall']. exists mt. split; [|exact Htrel]. apply Hpres'; [lia|]. rewrite Htty, Hslot1 by lia. rewrite Z.eqb_refl. reflexivity.
        * cbn [chain_read]. exists w1. split; assumption.
        * exact Hcw'.
  Qed.

  (* ---------------------------------------------------------------------------------------------- *)
  (** ** applying the inverse transforms *)
  Lemma chain_apply_le sts : forall wc wf, chain_apply W sts wc wf -> 1 <= wc -> wc <= wf.
  Proof.
    induction sts as [|t r IH]; intros wc wf H Hwc; cbn [chain_apply] in H; [lia|].
    destruct H as (w1 & Hs & Hr). assert (wc <= w1 /\ 1 <= w1).
    { destruct t; cbn [step_width] in Hs; try lia. destruct Hs as (_ & -> & ->).
      pose proof (width_bits_range color_table_size) as Hwb.
      assert (Hp : 1 <= 2 ^ V.width_bits_of color_table_size) by (apply (Z.pow_le_mono_r 2 0); lia).
      pose proof (dru_range W _ ltac:(lia) Hp). lia. }
    specialize (IH w1 wf Hr ltac:(lia)). lia.
  Qed.

  Lemma view_repr buf img wc : repr buf img (wc * h) -> 1 <= wc <= W -> zlen buf = 4 * (W * h) ->
    exists v, zview buf (wc * h * 4) = Ok v /\ zlen v = 4 * (wc * h) /\ repr v img (wc * h) /\
      forall v' px', zlen v' = zlen v -> repr v' px' (wc * h) ->
        zlen (zunview buf v') = zlen buf /\ repr (zunview buf v') px' (wc * h).
  Proof.
    intros Hr Hwc Hl. assert (Hle : wc * h * 4 <= zlen buf) by nia.
    destruct (zview_ok buf (wc * h * 4) ltac:(nia)) as (v & E & Lv & Av). exists v. split; [exact E|]. split; [lia|]. split.
    - apply (repr_ext buf v); [exact Av | lia | exact Hr].
    - intros v' px' Lv' Hr'. destruct (zunview_ok buf v') as (Lu & Au). split; [exact Lu|].
      apply (repr_ext v' (zunview buf v')); [exact Au | lia | exact Hr'].
  Qed.

  Lemma apply_refines d : d_width d = W -> d_height d = h ->
    forall sts order buf img wc,
    Forall2 (fun st ty => ttype st = ty /\ exists mt, slot d ty = Some (Some mt) /\ trel h mt st) sts order ->
    chain_apply W sts wc W -> 1 <= wc <= 16384 ->
    repr buf img (wc * h) -> zlen buf = 4 * (W * h) ->
    exists buf', apply_transforms order d buf (wc * h * 4) wc = Ok buf' /\ zlen buf' = zlen buf /\
                 repr buf' (fold_left (inverse_transform_m h) sts img) (W * h).
  Proof.
    intros Hdw Hdh. pose proof (conj Hdw Hdh) as Hd. clear Hdw Hdh.
    induction sts as [|t r IH]; intros order buf img wc HF Hchain Hwc Hr Hl.
    - inversion HF. subst order. cbn [chain_apply] in Hchain. subst wc. exists buf. split; [reflexivity|]. split; [reflexivity | exact Hr].
    - inversion HF as [|t0 ty r0 order' (Htty & mt & Hslot & Htrel) HF' Et Eo]. subst t0 r0 order. clear HF.
      destruct Hd as (Hdw & Hdh).
      cbn [chain_apply] in Hchain. destruct Hchain as (w1 & Hstep & Hchain').
      pose proof (chain_apply_le _ _ _ Hchain') as Hle1.
      cbn [apply_transforms fold_left]. unfold slot in Hslot. rewrite Hslot. cbn [of_option bind].
      destruct t as [wd sb modes | wd sb el | | wd ts table]; destruct mt as [sb' data | sb' data | | ts' tdata]; cbn [trel] in Htrel; try contradiction;
        cbn [step_width] in Hstep; cbn [inverse_transform_m V.inverse_transform].
      + (* predictor *)
        destruct Hstep as (-> & ->). destruct Htrel as (-> & Hsb & Hrd). specialize (Hle1 ltac:(lia)).
        destruct (view_repr buf img w1 Hr ltac:(lia) Hl) as (v & Ev & Lv & Hrv & Hback). rewrite Ev. cbn [bind]. rewrite Hdh.
        destruct (predictor_transform_model v img data modes w1 h sb' _ ltac:(lia) ltac:(lia) ltac:(lia) Hrv Lv Hrd (Z.le_refl _)) as (v' & E' & L' & Hr').
        rewrite E'. cbn [bind]. destruct (Hback v' _ L' Hr') as (Lu & Hru).
        destruct (IH order' (zunview buf v') _ w1 HF' Hchain' ltac:(lia) Hru ltac:(lia)) as (b' & Eb & Lb & Hrb).
        exists b'. split; [exact Eb|]. split; [lia | exact Hrb].
      + (* colour transform *)
        destruct Hstep as (-> & ->). destruct Htrel as (-> & Hsb & Hrd). specialize (Hle1 ltac:(lia)).
        destruct (view_repr buf img w1 Hr ltac:(lia) Hl) as (v & Ev & Lv & Hrv & Hback). rewrite Ev. cbn [bind].
        destruct (color_transform_refines v img data el w1 h sb' _ ltac:(lia) ltac:(lia) ltac:(lia) Hrv Lv Hrd (Z.le_refl _)) as (v' & E' & L' & Hr').
        rewrite E'. cbn [bind]. destruct (Hback v' _ L' Hr') as (Lu & Hru).
        destruct (IH order' (zunview buf v') _ w1 HF' Hchain' ltac:(lia) Hru ltac:(lia)) as (b' & Eb & Lb & Hrb).
        exists b'. split; [exact Eb|]. split; [lia | exact Hrb].
      + (* subtract green *)
        subst w1. specialize (Hle1 ltac:(lia)).
        destruct (view_repr buf img wc Hr ltac:(lia) Hl) as (v & Ev & Lv & Hrv & Hback). rewrite Ev. cbn [bind].
        destruct (subtract_green_refines v img (wc * h) Hrv Lv) as (v' & E' & L' & Hr').
        rewrite E'. cbn [bind]. destruct (Hback v' _ L' Hr') as (Lu & Hru).
        destruct (IH order' (zunview buf v') _ wc HF' Hchain' Hwc Hru ltac:(lia)) as (b' & Eb & Lb & Hrb).
        exists b'. split; [exact Eb|]. split; [lia | exact Hrb].
      + (* colour indexing: back to the full width *)
        destruct Hstep as (-> & -> & ->). destruct Htrel as (-> & Hts & Hrt & Hlt).
        rewrite Hdw, Hdh.
        destruct (color_indexing_refines buf img tdata table W h ts' ltac:(lia) ltac:(lia) Hts Hr Hl Hrt Hlt) as (b1 & E1 & L1 & Hr1).
        rewrite E1. cbn [bind].
        destruct (IH order' b1 _ W HF' Hchain' HW Hr1 ltac:(lia)) as (b' & Eb & Lb & Hrb).
        exists b'. split; [exact Eb|]. split; [lia | exact Hrb].
  Qed.

  (* ---------------------------------------------------------------------------------------------- *)
  (** ** the frame after its header *)
  Definition m_body (br : BitReader.t) (w hh : Z) (buf : arr) : res arr :=
    let d := {| d_transforms := [None; None; None; None]; d_order := []; d_width := w; d_height := hh |} in
    let* '(transformed_width, br, d) := read_transforms br d in
    let transformed_size := transformed_width * hh * 4 in
    let* v := zview buf transformed_size in
    let* '(_, v') := decode_image_stream STREAM_LEVELS br transformed_width hh true v in
    apply_transforms (rev (d_order d)) d (zunview buf v') transformed_size transformed_width.

  Lemma body_refines br s buf : rel br s -> zlen buf = 4 * (W * h) ->
    match g_read_transforms ECI 4 [] W h s with
    | None => bad _ (m_body br W h buf)
    | Some (ts, cw, s1) =>
      match SCI cw h s1 with
      | None => bad _ (m_body br W h buf)
      | Some (img, s2) =>
          exists out, m_body br W h buf = Ok out /\ zlen out = zlen buf /\
                      repr out (fold_left (inverse_transform_m h) (rev ts) img) (W * h) /\
                      (Forall modes_in_format ts ->
                       fold_left (inverse_transform_m h) (rev ts) img = fold_left (V.inverse_transform h) (rev ts) img)
      end
    end.
  Proof.
    intros Hrel Hl. unfold m_body. cbv zeta. unfold read_transforms. cbn [d_width].
    set (d0 := {| d_transforms := [None; None; None; None]; d_order := []; d_width := W; d_height := h |}).
    assert (Hd0 : dinv d0 []).
    { split; [reflexivity|]. split; [reflexivity|]. split; [reflexivity|]. split.
      - intros ty Hty _. unfold slot, d0. cbn [d_transforms].
        assert (C : ty = 0 \/ ty = 1 \/ ty = 2 \/ ty = 3) by lia. destruct C as [-> | [-> | [-> | ->]]]; reflexivity.
      - intros ty []. }
    pose proof (read_loop_refines 4 6 [] br s d0 W Hrel ltac:(lia) Hd0 (NoDup_nil _) ltac:(intros ty []) eq_refl HW ltac:(auto)) as Hloop.
    destruct (g_read_transforms ECI 4 [] W h s) as [[[ts cw] s1]|]; [|apply bad_bind; exact Hloop].
    destruct Hloop as (br1 & d1 & E1 & Hrel1 & Hdw & Hdh & Hord & _ & Hall & Hchain & Hcw). rewrite E1. cbn [bind].
    pose proof (chain_read_apply W ts W cw Hchain) as Hca. pose proof (chain_apply_le _ _ _ Hca ltac:(lia)) as Hcw2.
    destruct (zview_ok buf (cw * h * 4) ltac:(nia)) as (v & Ev & Lv & Av). rewrite Ev. cbn [bind].
    pose proof (decode_image_stream_refines br1 s1 cw h true v Hrel1 Hcw Hh ltac:(lia)) as Hdec. cbv beta iota in Hdec.
    destruct (SCI cw h s1) as [[img s2]|]; [|apply bad_bind; exact Hdec].
    destruct Hdec as (br2 & v' & E2 & Lv' & Hrv' & _). rewrite E2. cbn [bind].
    destruct (zunview_ok buf v') as (Lu & Au).
    assert (Hru : repr (zunview buf v') img (cw * h)) by (apply (repr_ext v'); [exact Au | nia | exact Hrv']).
    unfold d0 in Hord. cbn [d_order app] in Hord. rewrite Hord. rewrite <- map_rev.
    destruct (apply_refines d1 Hdw Hdh (rev ts) (map ttype (rev ts)) (zunview buf v') img cw) as (out & Eo & Lo & Hro); try assumption; try lia.
    - rewrite map_rev. apply Forall2_rev. clear - Hall. induction Hall as [|t r (mt & Hs & Ht) _ IH]; [constructor|].
      cbn [map]. constructor; [|exact IH]. split; [reflexivity|]. exists mt. split; assumption.
    - exists out. split; [exact Eo|]. split; [lia|]. split; [exact Hro|].
      intros Hmodes. apply fold_transform_m_spec; [lia | | apply Forall_rev; exact Hmodes].
      apply Forall_rev. clear - Hall. induction Hall as [|t r (mt & _ & Ht) _ IH]; constructor; [exists mt; exact Ht | exact IH].
  Qed.

  (* ---------------------------------------------------------------------------------------------- *)
  (** ** the header *)
  Definition m_header (data sched : list Z) (width height : Z) : res (Z * Z * BitReader.t) :=
    let br := BitReader.init data sched in
    let* '(signature, br) := BitReader.read_bits br 8 8 in
    if negb (signature =? 47) then Err ELosslessSignatureInvalid else
    let* '(w1, br) := BitReader.read_bits br 16 14 in
    let* '(h1, br) := BitReader.read_bits br 16 14 in
    let w := w1 + 1 in let h := h1 + 1 in
    if negb (w =? width) || negb (h =? height) then Err EInconsistentImageSizes else
    let* '(_alpha_used, br) := BitReader.read_bits br 8 1 in
    let* '(version_num, br) := BitReader.read_bits br 8 3 in
    if negb (version_num =? 0) then Err EVersionNumberInvalid else
    Ok (w, h, br).

  Lemma decode_frame_arr_unfold data sched width height buf :
    decode_frame_arr data sched width height false buf =
    (let* '(w, hh, br) := m_header data sched width height in m_body br w hh buf).
  Proof. reflexivity. Qed.

  Lemma decode_frame_arr_unfold_implicit data sched width height buf :
    decode_frame_arr data sched width height true buf = m_body (BitReader.init data sched) (width mod 2 ^ 16) (height mod 2 ^ 16) buf.
  Proof. reflexivity. Qed.

  Lemma header_refines data sched width height : Forall byte data ->
    match V.read_header (V.Stream [] data) with
    | Some (w', h', s0) =>
        if (w' =? width) && (h' =? height)
        then exists br, m_header data sched width height = Ok (width, height, br) /\ rel br s0 /\ 1 <= width <= 16384 /\ 1 <= height <= 16384
        else bad _ (m_header data sched width height)
    | None => bad _ (m_header data sched width height)
    end.
  Proof.
    intros Hbytes. unfold V.read_header, m_header. cbv zeta.
    pose proof (rel_init data sched Hbytes) as Hrel0.
    pose proof (read_bits_refines _ _ 8 8 Hrel0 ltac:(lia) ltac:(lia)) as H1. change (Z.to_nat 8) with 8%nat in H1.
    destruct (V.read_bits 8 (V.Stream [] data)) as [[sig s1]|]; [|apply bad_bind; exact H1].
    destruct H1 as (br1 & E1 & Hrel1). rewrite E1. cbn [bind]. change 0x2f with 47.
    destruct (sig =? 47); cbn [negb]; [|apply bad_err].
    pose proof (read_bits_refines _ _ 16 14 Hrel1 ltac:(lia) ltac:(lia)) as H2. change (Z.to_nat 14) with 14%nat in H2.
    destruct (V.read_bits 14 s1) as [[w1 s2]|] eqn:Ew; [|apply bad_bind; exact H2].
    destruct H2 as (br2 & E2 & Hrel2). rewrite E2. cbn [bind]. apply spec_read_bits_range in Ew. change (2 ^ Z.of_nat 14) with 16384 in Ew.
    pose proof (read_bits_refines _ _ 16 14 Hrel2 ltac:(lia) ltac:(lia)) as H3. change (Z.to_nat 14) with 14%nat in H3.
    destruct (V.read_bits 14 s2) as [[h1 s3]|] eqn:Eh; [|apply bad_bind; exact H3].
    destruct H3 as (br3 & E3 & Hrel3). rewrite E3. cbn [bind]. apply spec_read_bits_range in Eh. change (2 ^ Z.of_nat 14) with 16384 in Eh.
    pose proof (read_bits_refines _ _ 8 1 Hrel3 ltac:(lia) ltac:(lia)) as H4. change (Z.to_nat 1) with 1%nat in H4.
    pose proof (fun br s (H : rel br s) => read_bits_refines br s 8 3 H ltac:(lia) ltac:(lia)) as H5. change (Z.to_nat 3) with 3%nat in H5.
    destruct (Z.eqb_spec (w1 + 1) width) as [Ewd|Ewd]; destruct (Z.eqb_spec (h1 + 1) height) as [Ehd|Ehd]; cbn [negb orb andb].
    - destruct (V.read_bits 1 s3) as [[a s4]|]; [|apply bad_bind; exact H4].
      destruct H4 as (br4 & E4 & Hrel4). rewrite E4. cbn [bind]. specialize (H5 _ _ Hrel4).
      destruct (V.read_bits 3 s4) as [[ver s5]|]; [|apply bad_bind; exact H5].
      destruct H5 as (br5 & E5 & Hrel5). rewrite E5. cbn [bind].
      destruct (ver =? 0); cbn [negb]; [|apply bad_err].
      rewrite Ewd, Ehd, !Z.eqb_refl. cbn [andb]. exists br5. split; [reflexivity|]. split; [exact Hrel5 | lia].
    - assert (Hf : bad (Z * Z * BitReader.t) (Err EInconsistentImageSizes)) by apply bad_err.
      destruct (V.read_bits 1 s3) as [[a s4]|]; [|exact Hf]. destruct (V.read_bits 3 s4) as [[ver s5]|]; [|exact Hf].
      destruct (ver =? 0); cbn [negb]; [|exact Hf].
      rewrite Ewd, Z.eqb_refl. replace (h1 + 1 =? height) with false by (symmetry; apply Z.eqb_neq; exact Ehd). exact Hf.
    - assert (Hf : bad (Z * Z * BitReader.t) (Err EInconsistentImageSizes)) by apply bad_err.
      destruct (V.read_bits 1 s3) as [[a s4]|]; [|exact Hf]. destruct (V.read_bits 3 s4) as [[ver s5]|]; [|exact Hf].
      destruct (ver =? 0); cbn [negb]; [|exact Hf].
      replace (w1 + 1 =? width) with false by (symmetry; apply Z.eqb_neq; exact Ewd). exact Hf.
    - assert (Hf : bad (Z * Z * BitReader.t) (Err EInconsistentImageSizes)) by apply bad_err.
      destruct (V.read_bits 1 s3) as [[a s4]|]; [|exact Hf]. destruct (V.read_bits 3 s4) as [[ver s5]|]; [|exact Hf].
      destruct (ver =? 0); cbn [negb]; [|exact Hf].
      replace (w1 + 1 =? width) with false by (symmetry; apply Z.eqb_neq; exact Ewd). exact Hf.
  Qed.
End Frame.

(* ------------------------------------------------------------------------------------------------ *)
(** * the byte list handed back to the caller *)
Lemma zto_list_aux_spec a : forall n i acc, (N.of_nat n <= i)%N ->
  zto_list_aux a n i acc = map (fun j => araw a (i - N.of_nat n + N.of_nat j)%N) (seq 0 n) ++ acc.
Proof.
  induction n as [|n IH]; intros i acc Hi; [reflexivity|]. cbn [zto_list_aux]. rewrite IH by lia.
  rewrite seq_S, map_app. cbn [map plus]. rewrite <- app_assoc. cbn [app].
  f_equal; [|do 2 f_equal; lia].
  apply map_ext. intros j. f_equal. lia.
Qed.

Lemma zto_list_spec a : zto_list a = map (fun j => az a (Z.of_nat j)) (seq 0 (Z.to_nat (zlen a))).
Proof.
  unfold zto_list. rewrite zto_list_aux_spec by lia. rewrite app_nil_r. unfold zlen.
  replace (Z.to_nat (Z.of_N (alen a))) with (N.to_nat (alen a)) by lia.
  apply map_ext. intros j. unfold az. f_equal. lia.
Qed.

Lemma rgba_bytes_concat px : V.rgba_bytes px = concat (map cl px).
Proof.
  unfold V.rgba_bytes. rewrite rev_append_rev, app_nil_r.
  assert (G : forall l acc, fold_left (fun acc p => V.ALPHA p :: V.BLUE p :: V.GREEN p :: V.RED p :: acc) l acc
                           = rev (concat (map cl l)) ++ acc).
  { induction l as [|p t IH]; intros acc; [reflexivity|]. cbn [fold_left map concat]. rewrite IH.
    rewrite rev_app_distr, <- app_assoc. reflexivity. }
  rewrite G, app_nil_r, rev_involutive. reflexivity.
Qed.

Lemma repr_rgba out px n : repr out px n -> zlen out = 4 * n -> zto_list out = V.rgba_bytes (V.pixel_list px).
Proof.
  intros Hr Hl. pose proof (repr_alen _ _ _ Hr) as Ha. pose proof (repr_nonneg _ _ _ Hr) as Hn.
  rewrite zto_list_spec, rgba_bytes_concat, C04_arr.pixel_list_spec.
  replace (N.to_nat (alen px)) with (Z.to_nat n) by lia. rewrite Hl.
  set (L := map cl (map (fun j => V.pix px (Z.of_nat j)) (seq 0 (Z.to_nat n)))).
  assert (HLu : forall x, In x L -> length x = 4%nat).
  { intros x Hx. unfold L in Hx. apply in_map_iff in Hx. destruct Hx as (p & <- & _). reflexivity. }
  assert (HLl : length L = Z.to_nat n) by (unfold L; rewrite !map_length, seq_length; reflexivity).
  apply (nth_ext _ _ 0 0).
  - rewrite map_length, seq_length, (concat_uniform_length L 4 HLu), HLl. lia.
  - intros k Hk. rewrite map_length, seq_length in Hk. rewrite nth_map_seq by exact Hk.
    set (q := Z.of_nat k / 4). set (r := Z.of_nat k mod 4).
    replace k with (Z.to_nat q * 4 + Z.to_nat r)%nat at 2 by (unfold q, r; lia).
    rewrite (nth_concat_uniform L 4 0 HLu) by (unfold q, r; lia).
    unfold L. rewrite map_map. rewrite (nth_map_seq (fun j => cl (V.pix px (Z.of_nat j)))) by (unfold q; lia).
    rewrite nth_cl by (unfold r; lia). rewrite Z2Nat.id by (unfold q; lia).
    replace (Z.of_nat k) with (4 * q + r) by (unfold q, r; lia).
    apply (repr_chan _ _ _ _ _ Hr); unfold q, r; lia.
Qed.

(* ------------------------------------------------------------------------------------------------ *)
(** * the frame decoder against the specification *)
(* no predictor block of the stream uses mode 14 or 15 *)
Definition stream_in_format (w h : Z) (s : V.stream) : Prop :=
  match g_read_transforms ECI 4 [] w h s with Some (ts, _, _) => Forall modes_in_format ts | None => True end.

Section Top.
  Variable bad : forall A : Type, res A -> Prop.
  Hypothesis bad_err : forall A e, bad A (Err e).
  Hypothesis bad_bind : forall A B (r : res A) (f : A -> res B), bad A r -> bad B (bind r f).
  Variable rel : BitReader.t -> V.stream -> Prop.
  Hypothesis rel_init : forall data sched, Forall byte data -> rel (BitReader.init data sched) (V.Stream [] data).
  Hypothesis read_bits_refines : forall br s tb n, rel br s -> 0 <= n <= 16 -> n <= tb ->
    match V.read_bits (Z.to_nat n) s with
    | Some (v, s') => exists br', BitReader.read_bits br tb n = Ok (v, br') /\ rel br' s'
    | None => bad _ (BitReader.read_bits br tb n)
    end.
  Hypothesis decode_image_stream_refines : forall br s xs ys (argb : bool) data,
    rel br s -> 1 <= xs <= 16384 -> 1 <= ys <= 16384 -> zlen data = 4 * (xs * ys) ->
    match (if argb then SCI xs ys s else ECI xs ys s) with
    | Some (px, s') => exists br' bytes, decode_image_stream STREAM_LEVELS br xs ys argb data = Ok (br', bytes) /\
                         zlen bytes = zlen data /\ repr bytes px (xs * ys) /\ rel br' s'
    | None => bad _ (decode_image_stream STREAM_LEVELS br xs ys argb data)
    end.

  (* image-stream: transforms, ARGB image, inverse transforms in reverse order *)
  Lemma image_stream_refines br s W h buf : rel br s -> 1 <= W <= 16384 -> 1 <= h <= 16384 -> zlen buf = 4 * (W * h) ->
    match g_image_stream ECI SCI W h s with
    | Some pixels => exists out, m_body br W h buf = Ok out /\ zlen out = zlen buf /\
                                 (stream_in_format W h s -> zto_list out = V.rgba_bytes pixels)
    | None => bad _ (m_body br W h buf)
    end.
  Proof.
    intros Hrel HW Hh Hl. unfold g_image_stream, stream_in_format.
    pose proof (body_refines bad bad_err bad_bind rel rel_init read_bits_refines decode_image_stream_refines W h HW Hh br s buf Hrel Hl) as Hb.
    destruct (g_read_transforms ECI 4 [] W h s) as [[[ts cw] s1]|]; [|exact Hb].
    destruct (SCI cw h s1) as [[img s2]|]; [|exact Hb].
    destruct Hb as (out & E & Lo & Hr & Heq). exists out. split; [exact E|]. split; [exact Lo|].
    intros Hm. rewrite <- (Heq Hm). apply (repr_rgba out _ (W * h) Hr). lia.
  Qed.

  (* VP8L chunk payload (explicit header) *)
  Lemma decode_frame_gen data sched W h buf : Forall byte data -> zlen buf = 4 * (W * h) ->
    match g_decode ECI SCI data with
    | Some (w', h', pixels) =>
        w' = W -> h' = h ->
        exists out, decode_frame_arr data sched W h false buf = Ok out /\ zlen out = zlen buf /\
          ((forall s0, V.read_header (V.Stream [] data) = Some (W, h, s0) -> stream_in_format W h s0) ->
           zto_list out = V.rgba_bytes pixels)
    | None => bad _ (decode_frame_arr data sched W h false buf)
    end.
  Proof.
    intros Hbytes Hl. rewrite decode_frame_arr_unfold. unfold g_decode.
    pose proof (header_refines bad bad_err bad_bind rel rel_init read_bits_refines decode_image_stream_refines h data sched W h Hbytes) as Hh.
    destruct (V.read_header (V.Stream [] data)) as [[[w' h'] s0]|]; [|apply bad_bind; exact Hh].
    destruct (Z.eqb_spec w' W) as [->|Hnw]; [destruct (Z.eqb_spec h' h) as [->|Hnh]|]; cbn [andb] in Hh.
    - destruct Hh as (br & E & Hrel & HW & Hhr). rewrite E. cbn [bind].
      pose proof (image_stream_refines br s0 W h buf Hrel HW Hhr Hl) as Hi.
      destruct (g_image_stream ECI SCI W h s0) as [pixels|]; [|exact Hi].
      intros _ _. destruct Hi as (out & Eo & Lo & Ho). exists out. split; [exact Eo|]. split; [exact Lo|].
      intros Hfmt. apply Ho. apply Hfmt. reflexivity.
    - destruct (g_image_stream ECI SCI W h' s0); [intros _ Hc; contradiction | apply bad_bind; exact Hh].
    - destruct (g_image_stream ECI SCI w' h' s0); [intros Hc; contradiction | apply bad_bind; exact Hh].
  Qed.

  (* the header alone, when the dimensions the caller expects differ from the coded ones *)
  Lemma decode_frame_gen_header data sched W h buf : Forall byte data ->
    match V.read_header (V.Stream [] data) with
    | Some (w', h', s0) => (w' <> W \/ h' <> h) -> bad _ (decode_frame_arr data sched W h false buf)
    | None => bad _ (decode_frame_arr data sched W h false buf)
    end.
  Proof.
    intros Hbytes. rewrite decode_frame_arr_unfold.
    pose proof (header_refines bad bad_err bad_bind rel rel_init read_bits_refines decode_image_stream_refines h data sched W h Hbytes) as Hh.
    destruct (V.read_header (V.Stream [] data)) as [[[w' h'] s0]|]; [|apply bad_bind; exact Hh].
    intros Hne. destruct (Z.eqb_spec w' W) as [->|Hnw]; [destruct (Z.eqb_spec h' h) as [->|Hnh]|]; cbn [andb] in Hh.
    - exfalso. destruct Hne as [Hne|Hne]; apply Hne; reflexivity.
    - apply bad_bind. exact Hh.
    - apply bad_bind. exact Hh.
  Qed.

  (* ALPH-style payload (dimensions from the container) *)
  Lemma decode_frame_implicit_gen data sched W h buf : Forall byte data -> zlen buf = 4 * (W * h) ->
    1 <= W <= 16384 -> 1 <= h <= 16384 ->
    match g_decode_implicit ECI SCI W h data with
    | Some pixels =>
        exists out, decode_frame_arr data sched W h true buf = Ok out /\ zlen out = zlen buf /\
                    (stream_in_format W h (V.Stream [] data) -> zto_list out = V.rgba_bytes pixels)
    | None => bad _ (decode_frame_arr data sched W h true buf)
    end.
  Proof.
    intros Hbytes Hl HW Hh. rewrite decode_frame_arr_unfold_implicit. unfold g_decode_implicit.
    change (2 ^ 16) with 65536. rewrite !Z.mod_small by lia.
    replace ((1 <=? W) && (W <=? 16384) && (1 <=? h) && (h <=? 16384)) with true
      by (symmetry; rewrite !andb_true_iff; repeat split; apply Z.leb_le; lia).
    apply image_stream_refines; try assumption. apply rel_init. exact Hbytes.
  Qed.
End Top.

(* ------------------------------------------------------------------------------------------------ *)
(** * the two instances *)
Definition is_err {A} (r : res A) : Prop := exists e, r = Err e.

Section Instances.
  Variable rel : BitReader.t -> V.stream -> Prop.
  Hypothesis rel_init : forall data sched, Forall byte data -> rel (BitReader.init data sched) (V.Stream [] data).
  (* what the entropy-decoding proofs have to provide for VALID input ... *)
  Hypothesis read_bits_refines : forall br s tb n v s', rel br s -> 0 <= n <= 16 -> n <= tb ->
    V.read_bits (Z.to_nat n) s = Some (v, s') -> exists br', BitReader.read_bits br tb n = Ok (v, br') /\ rel br' s'.
  Hypothesis decode_image_stream_refines : forall br s xs ys (argb : bool) data px s',
    rel br s -> 1 <= xs <= 16384 -> 1 <= ys <= 16384 -> zlen data = 4 * (xs * ys) ->
    (if argb then SCI xs ys s else ECI xs ys s) = Some (px, s') ->
    exists br' bytes, decode_image_stream STREAM_LEVELS br xs ys argb data = Ok (br', bytes) /\
                      zlen bytes = zlen data /\ repr bytes px (xs * ys) /\ rel br' s'.
  (* ... and for INVALID input *)
  Hypothesis read_bits_rejects : forall br s tb n, rel br s -> 0 <= n <= 16 -> n <= tb ->
    V.read_bits (Z.to_nat n) s = None -> is_err (BitReader.read_bits br tb n).
  Hypothesis decode_image_stream_rejects : forall br s xs ys (argb : bool) data,
    rel br s -> 1 <= xs <= 16384 -> 1 <= ys <= 16384 -> zlen data = 4 * (xs * ys) ->
    (if argb then SCI xs ys s else ECI xs ys s) = None ->
    is_err (decode_image_stream STREAM_LEVELS br xs ys argb data).

  Let btrue : forall A : Type, res A -> Prop := fun _ _ => True.
  Let berr : forall A : Type, res A -> Prop := fun A r => @is_err A r.

  Lemma rb_true : forall br s tb n, rel br s -> 0 <= n <= 16 -> n <= tb ->
    match V.read_bits (Z.to_nat n) s with
    | Some (v, s') => exists br', BitReader.read_bits br tb n = Ok (v, br') /\ rel br' s'
    | None => btrue _ (BitReader.read_bits br tb n)
    end.
  Proof.
    intros br s tb n Hrel Hn Htb. destruct (V.read_bits (Z.to_nat n) s) as [[v s']|] eqn:E; [|exact I].
    apply (read_bits_refines br s tb n v s'); assumption.
  Qed.

  Lemma dis_true : forall br s xs ys (argb : bool) data,
    rel br s -> 1 <= xs <= 16384 -> 1 <= ys <= 16384 -> zlen data = 4 * (xs * ys) ->
    match (if argb then SCI xs ys s else ECI xs ys s) with
    | Some (px, s') => exists br' bytes, decode_image_stream STREAM_LEVELS br xs ys argb data = Ok (br', bytes) /\
                         zlen bytes = zlen data /\ repr bytes px (xs * ys) /\ rel br' s'
    | None => btrue _ (decode_image_stream STREAM_LEVELS br xs ys argb data)
    end.
  Proof.
    intros br s xs ys argb data Hrel Hx Hy Hl.
    destruct (if argb then SCI xs ys s else ECI xs ys s) as [[px s']|] eqn:E; [|exact I].
    apply (decode_image_stream_refines br s xs ys argb data px s'); assumption.
  Qed.

  Lemma rb_err : forall br s tb n, rel br s -> 0 <= n <= 16 -> n <= tb ->
    match V.read_bits (Z.to_nat n) s with
    | Some (v, s') => exists br', BitReader.read_bits br tb n = Ok (v, br') /\ rel br' s'
    | None => berr _ (BitReader.read_bits br tb n)
    end.
  Proof.
    intros br s tb n Hrel Hn Htb. destruct (V.read_bits (Z.to_nat n) s) as [[v s']|] eqn:E.
    - apply (read_bits_refines br s tb n v s'); assumption.
    - apply (read_bits_rejects br s tb n); assumption.
  Qed.

  Lemma dis_err : forall br s xs ys (argb : bool) data,
    rel br s -> 1 <= xs <= 16384 -> 1 <= ys <= 16384 -> zlen data = 4 * (xs * ys) ->
    match (if argb then SCI xs ys s else ECI xs ys s) with
    | Some (px, s') => exists br' bytes, decode_image_stream STREAM_LEVELS br xs ys argb data = Ok (br', bytes) /\
                         zlen bytes = zlen data /\ repr bytes px (xs * ys) /\ rel br' s'
    | None => berr _ (decode_image_stream STREAM_LEVELS br xs ys argb data)
    end.
  Proof.
    intros br s xs ys argb data Hrel Hx Hy Hl.
    destruct (if argb then SCI xs ys s else ECI xs ys s) as [[px s']|] eqn:E.
    - apply (decode_image_stream_refines br s xs ys argb data px s'); assumption.
    - apply (decode_image_stream_rejects br s xs ys argb data); assumption.
  Qed.

  Lemma berr_err : forall A e, berr A (Err e).
  Proof. intros A e. exists e. reflexivity. Qed.
  Lemma berr_bind : forall A B (r : res A) (f : A -> res B), berr A r -> berr B (bind r f).
  Proof. intros A B r f (e & ->). exists e. reflexivity. Qed.

  (** ** C01: every valid stream whose predictor modes are in the format decodes to the specification's pixels *)
  Theorem decode_frame_refines_spec data sched W h buf pixels : Forall byte data -> zlen buf = 4 * (W * h) ->
    g_decode ECI SCI data = Some (W, h, pixels) ->
    (forall s0, V.read_header (V.Stream [] data) = Some (W, h, s0) -> stream_in_format W h s0) ->
    exists out, decode_frame_arr data sched W h false buf = Ok out /\ zlen out = zlen buf /\ zto_list out = V.rgba_bytes pixels.
  Proof.
    intros Hbytes Hl Hdec Hfmt.
    pose proof (decode_frame_gen btrue (fun _ _ => I) (fun _ _ _ _ _ => I) rel rel_init rb_true dis_true data sched W h buf Hbytes Hl) as H.
    rewrite Hdec in H. destruct (H eq_refl eq_refl) as (out & E & Lo & Ho). exists out. auto.
  Qed.

  Theorem decode_frame_implicit_refines_spec data sched W h buf pixels : Forall byte data -> zlen buf = 4 * (W * h) ->
    g_decode_implicit ECI SCI W h data = Some pixels -> stream_in_format W h (V.Stream [] data) ->
    exists out, decode_frame_arr data sched W h true buf = Ok out /\ zlen out = zlen buf /\ zto_list out = V.rgba_bytes pixels.
  Proof.
    intros Hbytes Hl Hdec Hfmt.
    assert (HWh : 1 <= W <= 16384 /\ 1 <= h <= 16384).
    { unfold g_decode_implicit in Hdec. destruct ((1 <=? W) && (W <=? 16384) && (1 <=? h) && (h <=? 16384)) eqn:E; [|discriminate].
      rewrite !andb_true_iff, !Z.leb_le in E. lia. }
    pose proof (decode_frame_implicit_gen btrue (fun _ _ => I) (fun _ _ _ _ _ => I) rel rel_init rb_true dis_true data sched W h buf Hbytes Hl
                  (proj1 HWh) (proj2 HWh)) as H.
    rewrite Hdec in H. destruct H as (out & E & Lo & Ho). exists out. auto.
  Qed.

  (* the entry point on lists: the caller's buffer afterwards = Spec.VP8L.decode_rgba *)
  Corollary decode_frame_matches_spec data sched W h buf pixels : Forall byte data -> Z.of_nat (length buf) = 4 * (W * h) ->
    g_decode_rgba ECI SCI data = Some (W, h, pixels) ->
    (forall s0, V.read_header (V.Stream [] data) = Some (W, h, s0) -> stream_in_format W h s0) ->
    decode_frame data sched W h false buf = Ok pixels.
  Proof.
    intros Hbytes Hlen Hdec Hfmt. unfold g_decode_rgba in Hdec. unfold decode_frame.
    destruct (g_decode ECI SCI data) as [[[w' h'] px]|] eqn:Ed; [|discriminate].
    assert (w' = W /\ h' = h /\ pixels = V.rgba_bytes px) as (-> & -> & ->) by (repeat split; congruence).
    destruct (decode_frame_refines_spec data sched W h (of_list buf) px Hbytes ltac:(rewrite zlen_of_list; exact Hlen) Ed Hfmt)
      as (out & E & _ & Ho).
    rewrite E. cbn [bind]. rewrite Ho. reflexivity.
  Qed.

  Corollary decode_frame_implicit_matches_spec data sched W h buf pixels : Forall byte data -> Z.of_nat (length buf) = 4 * (W * h) ->
    g_decode_implicit_rgba ECI SCI W h data = Some pixels -> stream_in_format W h (V.Stream [] data) ->
    decode_frame data sched W h true buf = Ok pixels.
  Proof.
    intros Hbytes Hlen Hdec Hfmt. unfold g_decode_implicit_rgba in Hdec. unfold decode_frame.
    destruct (g_decode_implicit ECI SCI W h data) as [px|] eqn:Ed; [|discriminate].
    assert (pixels = V.rgba_bytes px) as -> by congruence.
    destruct (decode_frame_implicit_refines_spec data sched W h (of_list buf) px Hbytes ltac:(rewrite zlen_of_list; exact Hlen) Ed Hfmt)
      as (out & E & _ & Ho).
    rewrite E. cbn [bind]. rewrite Ho. reflexivity.
  Qed.

  (** ** every stream the specification rejects is rejected with an error (never a panic, never garbage) *)
  Theorem decode_frame_rejects data sched W h buf : Forall byte data -> zlen buf = 4 * (W * h) ->
    g_decode ECI SCI data = None -> is_err (decode_frame_arr data sched W h false buf).
  Proof.
    intros Hbytes Hl Hdec.
    pose proof (decode_frame_gen berr berr_err berr_bind rel rel_init rb_err dis_err data sched W h buf Hbytes Hl) as H.
    rewrite Hdec in H. exact H.
  Qed.

  Theorem decode_frame_implicit_rejects data sched W h buf : Forall byte data -> zlen buf = 4 * (W * h) ->
    1 <= W <= 16384 -> 1 <= h <= 16384 ->
    g_decode_implicit ECI SCI W h data = None -> is_err (decode_frame_arr data sched W h true buf).
  Proof.
    intros Hbytes Hl HW Hh Hdec.
    pose proof (decode_frame_implicit_gen berr berr_err berr_bind rel rel_init rb_err dis_err data sched W h buf Hbytes Hl HW Hh) as H.
    rewrite Hdec in H. exact H.
  Qed.

  (** ** C03 at frame level: whatever the payload (also with out-of-format predictor modes), decode_frame returns Ok or Err:
         no panic, no fuel exhaustion *)
  Theorem decode_frame_no_panic data sched W h buf : Forall byte data -> zlen buf = 4 * (W * h) ->
    (forall p, decode_frame_arr data sched W h false buf <> Panic p) /\ decode_frame_arr data sched W h false buf <> OutOfFuel.
  Proof.
    intros Hbytes Hl.
    assert (G : forall r : res arr, (exists a, r = Ok a) \/ is_err r -> (forall p, r <> Panic p) /\ r <> OutOfFuel).
    { intros r [(a & ->) | (e & ->)]; split; try intros p; discriminate. }
    apply G. clear G.
    pose proof (decode_frame_gen berr berr_err berr_bind rel rel_init rb_err dis_err data sched W h buf Hbytes Hl) as H.
    pose proof (decode_frame_gen_header berr berr_err berr_bind rel rel_init rb_err dis_err data sched W h buf Hbytes) as H'.
    unfold g_decode in H. destruct (V.read_header (V.Stream [] data)) as [[[w' h'] s0]|]; [|right; exact H].
    destruct (Z.eq_dec w' W) as [->|Hnw]; [destruct (Z.eq_dec h' h) as [->|Hnh]|].
    - destruct (g_image_stream ECI SCI W h s0) as [px|]; [|right; exact H].
      destruct (H eq_refl eq_refl) as (out & E & _). left. exists out. exact E.
    - right. apply H'. right. exact Hnh.
    - right. apply H'. left. exact Hnw.
  Qed.
  (* ALPH-style: dimensions 1..16384 from the container (a zero side is outside the contract: image_data[3] panics) *)
  Theorem decode_frame_implicit_no_panic data sched W h buf : Forall byte data -> zlen buf = 4 * (W * h) ->
    1 <= W <= 16384 -> 1 <= h <= 16384 ->
    (forall p, decode_frame_arr data sched W h true buf <> Panic p) /\ decode_frame_arr data sched W h true buf <> OutOfFuel.
  Proof.
    intros Hbytes Hl HW Hh.
    pose proof (decode_frame_implicit_gen berr berr_err berr_bind rel rel_init rb_err dis_err data sched W h buf Hbytes Hl HW Hh) as H.
    destruct (g_decode_implicit ECI SCI W h data) as [px|].
    - destruct H as (out & E & _). rewrite E. split; [intros p|]; discriminate.
    - destruct H as (e & E). rewrite E. split; [intros p|]; discriminate.
  Qed.
End Instances.
End G.
