(* C01 / C03, inverse transforms, (c) part 2: the fourteen row predictors of lossless_transform.rs
   (Model.LosslessTransform.pred0 .. pred13: byte loops, `prev`-carrying pixel loops over zipped slices, the 64-byte chunks
   of predictor 7, the i16 arithmetic of Select) applied to a run of pixels [i0, i0 + n) inside one row (not the first
   row, not the first column): if every pixel of the run obeys  out[i] = residual[i] + predict_m(L, T, TR, TL)  then the
   row function turns a buffer that holds `out` before i0 into one that holds `out` before i0 + n, without panicking. *)
From Coq Require Import ZArith NArith List Bool Lia.
From WebP Require Import Lib.Res Lib.Arr Lib.ZBits Gen.Kernels Model.LosslessLib Model.LosslessTransform
  Proofs.Lossless_HuffmanSafe Proofs.Lossless_CopyWithin Proofs.Lossless_Kernels Proofs.C01T_repr Proofs.C01T_pred_spec.
From WebP Require Spec.VP8L.
Import ListNotations.
Open Scope Z_scope.

Ltac Zify.zify_post_hook ::= Z.div_mod_to_equations.

Ltac ltb_false := repeat match goal with |- context [?a <? ?b] => replace (a <? b) with false by (symmetry; apply Z.ltb_ge; lia) end.
Ltac checks := do 5 (ltb_false; cbn [bind]).

Lemma add4_black q : bytes4 q -> add4 q (0, 0, 0, 255) = (fst (fst (fst q)), snd (fst (fst q)), snd (fst q), wadd8 (snd q) 255).
Proof.
  destruct q as [[[r g] b] a]. intros (Hr & Hg & Hb & _). unfold byte in Hr, Hg, Hb. unfold add4, zip4, wadd8. cbn [fst snd].
  rewrite !Z.add_0_r, !Z.mod_small by lia. reflexivity.
Qed.

Section Rows.
  Variables (out : arr) (base : Z -> Z) (w N : Z).
  Hypothesis Hw : 1 <= w.

  (* pixels before i hold the result, the others the `base` values *)
  Definition pinv (i : Z) (cur : arr) : Prop :=
    zlen cur = 4 * N /\ forall j, 0 <= j < N -> cell cur j = q4 (if j <? i then V.pix out j else base j).

  Lemma pinv_get_out i cur j : pinv i cur -> 0 <= j < i -> j < N -> get4 cur (4 * j) = Ok (q4 (V.pix out j)).
  Proof.
    intros (Hl & Hc) Hj HjN. rewrite get4_cell by lia. rewrite (Hc j) by lia.
    replace (j <? i) with true by (symmetry; apply Z.ltb_lt; lia). reflexivity.
  Qed.

  Lemma pinv_get_base i cur j : pinv i cur -> i <= j < N -> 0 <= j -> get4 cur (4 * j) = Ok (q4 (base j)).
  Proof.
    intros (Hl & Hc) Hj Hj0. rewrite get4_cell by lia. rewrite (Hc j) by lia.
    replace (j <? i) with false by (symmetry; apply Z.ltb_ge; lia). reflexivity.
  Qed.

  Lemma pinv_set i cur : pinv i cur -> 0 <= i < N ->
    exists cur', set4 cur (4 * i) (q4 (V.pix out i)) = Ok cur' /\ pinv (i + 1) cur'.
  Proof.
    intros (Hl & Hc) Hi. destruct (set4_cell cur i (q4 (V.pix out i)) ltac:(lia) ltac:(lia)) as (c' & E & L & C1 & _ & C2).
    exists c'. split; [exact E|]. split; [lia|]. intros j Hj. destruct (Z.eq_dec j i) as [->|Hne].
    - replace (i <? i + 1) with true by (symmetry; apply Z.ltb_lt; lia). exact C1.
    - rewrite C2 by lia. rewrite (Hc j Hj). f_equal.
      destruct (Z.ltb_spec j i); destruct (Z.ltb_spec j (i + 1)); try reflexivity; lia.
  Qed.

  (* ---------------------------------------------------------------------------------------------- *)
  (** ** the `prev`-carrying loop *)
  Lemma prev_loop_ok f (utl ut utr : bool) : forall (n : nat) i cur prev,
    pinv i cur -> 1 <= i -> i + Z.of_nat n <= N -> prev = q4 (V.pix out (i - 1)) ->
    (utl = true -> w + 1 <= i) -> (ut = true -> w <= i) -> (utr = true -> w <= i /\ ((0 < n)%nat -> 2 <= w)) ->
    (forall j, i <= j < i + Z.of_nat n ->
       f (q4 (base j)) (q4 (V.pix out (j - 1)))
         (if utl then q4 (V.pix out (j - w - 1)) else zero4) (if ut then q4 (V.pix out (j - w)) else zero4)
         (if utr then q4 (V.pix out (j - w + 1)) else zero4) = Ok (q4 (V.pix out j))) ->
    exists prev' cur', prev_loop n f utl ut utr (w * 4) (4 * i) prev cur = Ok (prev', cur') /\ pinv (i + Z.of_nat n) cur' /\
                       prev' = q4 (V.pix out (i + Z.of_nat n - 1)).
  Proof.
    induction n as [|n IH]; intros i cur prev Hinv Hi HN Hprev Htl Ht Htr Hf.
    - exists prev, cur. split; [reflexivity|]. replace (i + Z.of_nat 0) with i by lia. split; [exact Hinv | exact Hprev].
    - cbn [prev_loop]. rewrite (pinv_get_base i cur i Hinv) by lia. cbn [bind].
      assert (Etl : (if utl then get4 cur (4 * i - w * 4 - 4) else Ok zero4) = Ok (if utl then q4 (V.pix out (i - w - 1)) else zero4)).
      { destruct utl; [|reflexivity]. specialize (Htl eq_refl). replace (4 * i - w * 4 - 4) with (4 * (i - w - 1)) by lia.
        apply (pinv_get_out i); [exact Hinv | lia | lia]. }
      assert (Et : (if ut then get4 cur (4 * i - w * 4) else Ok zero4) = Ok (if ut then q4 (V.pix out (i - w)) else zero4)).
      { destruct ut; [|reflexivity]. specialize (Ht eq_refl). replace (4 * i - w * 4) with (4 * (i - w)) by lia.
        apply (pinv_get_out i); [exact Hinv | lia | lia]. }
      assert (Etr : (if utr then get4 cur (4 * i - w * 4 + 4) else Ok zero4) = Ok (if utr then q4 (V.pix out (i - w + 1)) else zero4)).
      { destruct utr; [|reflexivity]. destruct (Htr eq_refl) as [H1 H2]. specialize (H2 ltac:(lia)).
        replace (4 * i - w * 4 + 4) with (4 * (i - w + 1)) by lia.
        apply (pinv_get_out i); [exact Hinv | lia | lia]. }
      rewrite Etl, Et, Etr. cbn [bind]. rewrite Hprev. rewrite (Hf i) by lia. cbn [bind].
      destruct (pinv_set i cur Hinv ltac:(lia)) as (c1 & E1 & Hinv1). rewrite E1. cbn [bind].
      replace (4 * i + 4) with (4 * (i + 1)) by lia.
      destruct (IH (i + 1) c1 (q4 (V.pix out i)) Hinv1 ltac:(lia) ltac:(lia)) as (p' & c' & E' & Hinv' & Hp').
      + f_equal. f_equal. lia.
      + intros H. specialize (Htl H). lia.
      + intros H. specialize (Ht H). lia.
      + intros H. destruct (Htr H) as [H1 H2]. split; [lia|]. intros _. apply H2. lia.
      + intros j Hj. apply Hf. lia.
      + exists p', c'. split; [exact E'|]. replace (i + Z.of_nat (S n)) with (i + 1 + Z.of_nat n) by lia. split; [exact Hinv' | exact Hp'].
  Qed.

  (* a run of n pixels starting at i0, in a row below the first, right of the first column *)
  Definition run_ok (i0 n : Z) : Prop := w + 1 <= i0 /\ 0 <= n <= w - 1 /\ i0 + n <= N.

  (* the common prelude of the pixel-wise predictors *)
  Lemma prev_of_ok i0 cur : pinv i0 cur -> 1 <= i0 <= N -> prev_of cur (4 * i0) = Ok (q4 (V.pix out (i0 - 1))).
  Proof.
    intros Hinv Hi. unfold prev_of, usub. ltb_false. cbn [bind]. replace (4 * i0 - 4) with (4 * (i0 - 1)) by lia.
    apply (pinv_get_out i0); [exact Hinv | lia | lia].
  Qed.

  Lemma split_checks_ok i0 n cur : pinv i0 cur -> 0 <= n -> i0 + n <= N -> split_checks cur (4 * i0) (4 * (i0 + n)) = Ok tt.
  Proof. intros (Hl & _) Hn HN. unfold split_checks. ltb_false. reflexivity. Qed.

  (* the shape shared by predictors 1, 5, 6, 10, 12, 13: one prev_loop of n steps *)
  Lemma one_loop_ok f utl ut utr i0 n cur : pinv i0 cur -> 1 <= i0 -> 0 <= n -> i0 + n <= N ->
    (utl = true -> w + 1 <= i0) -> (ut = true -> w <= i0) -> (utr = true -> w <= i0 /\ (0 < n -> 2 <= w)) ->
    (forall j, i0 <= j < i0 + n ->
       f (q4 (base j)) (q4 (V.pix out (j - 1)))
         (if utl then q4 (V.pix out (j - w - 1)) else zero4) (if ut then q4 (V.pix out (j - w)) else zero4)
         (if utr then q4 (V.pix out (j - w + 1)) else zero4) = Ok (q4 (V.pix out j))) ->
    exists cur', bind (prev_loop (Z.to_nat n) f utl ut utr (w * 4) (4 * i0) (q4 (V.pix out (i0 - 1))) cur)
                      (fun '(_, img') => Ok img') = Ok cur' /\ pinv (i0 + n) cur'.
  Proof.
    intros Hinv Hi Hn HN Htl Ht Htr Hf.
    destruct (prev_loop_ok f utl ut utr (Z.to_nat n) i0 cur (q4 (V.pix out (i0 - 1))) Hinv Hi ltac:(lia) eq_refl Htl Ht)
      as (p' & c' & E & Hinv' & _).
    - intros H. destruct (Htr H) as [H1 H2]. split; [exact H1|]. intros Hpos. apply H2. lia.
    - intros j Hj. apply Hf. lia.
    - rewrite E. cbn [bind]. exists c'. split; [reflexivity|]. rewrite Z2Nat.id in Hinv' by lia. exact Hinv'.
  Qed.

  (* ---------------------------------------------------------------------------------------------- *)
  (** ** predictors 1, 5, 6, 7, 10, 12, 13 *)
  Lemma pred1_ok i0 n cur : 1 <= i0 -> 0 <= n -> i0 + n <= N -> pinv i0 cur ->
    (forall i, i0 <= i < i0 + n -> V.pix out i = V.add_pixels (base i) (V.pix out (i - 1))) ->
    exists cur', pred1 cur (4 * i0) (4 * (i0 + n)) w = Ok cur' /\ pinv (i0 + n) cur'.
  Proof.
    intros Hi Hn HN Hinv Hrec. pose proof Hinv as (Hl & _). unfold pred1, usub. ltb_false. cbn [bind].
    replace (4 * i0 - 4) with (4 * (i0 - 1)) by lia.
    assert (Es : slice4 cur (4 * (i0 - 1)) = Ok (q4 (V.pix out (i0 - 1)))).
    { pose proof (pinv_get_out i0 cur (i0 - 1) Hinv ltac:(lia) ltac:(lia)) as G. rewrite get4_cell in G by lia.
      unfold slice4. rewrite zslice_ok by lia. change (Z.to_nat 4) with 4%nat. cbn [seq map bind].
      assert (G' : cell cur (i0 - 1) = q4 (V.pix out (i0 - 1))) by congruence. rewrite <- G'. unfold cell.
      replace (4 * (i0 - 1) + Z.of_nat 0) with (4 * (i0 - 1)) by lia. replace (4 * (i0 - 1) + Z.of_nat 1) with (4 * (i0 - 1) + 1) by lia.
      replace (4 * (i0 - 1) + Z.of_nat 2) with (4 * (i0 - 1) + 2) by lia. replace (4 * (i0 - 1) + Z.of_nat 3) with (4 * (i0 - 1) + 3) by lia.
      reflexivity. }
    rewrite Es. cbn [bind]. unfold cur_chunks. replace ((4 * (i0 + n) - 4 * i0) / 4) with n by lia.
    apply (one_loop_ok _ false false false); try assumption; try discriminate.
    intros j Hj. rewrite (Hrec j Hj), q4_add_pixels. reflexivity.
  Qed.

  Lemma pred5_ok i0 n cur : run_ok i0 n -> pinv i0 cur ->
    (forall i, i0 <= i < i0 + n ->
       V.pix out i = V.add_pixels (base i) (V.Average2 (V.Average2 (V.pix out (i - 1)) (V.pix out (i - w + 1))) (V.pix out (i - w)))) ->
    exists cur', pred5 cur (4 * i0) (4 * (i0 + n)) w = Ok cur' /\ pinv (i0 + n) cur'.
  Proof.
    intros (Hi & Hn & HN) Hinv Hrec. unfold pred5. rewrite split_checks_ok, prev_of_ok by (try assumption; lia). cbn [bind].
    unfold usub, chunks_from, cur_chunks. checks.
    replace (Z.min (Z.min ((4 * (i0 + n) - 4 * i0) / 4) ((4 * i0 - (4 * i0 - w * 4 + 4)) / 4)) ((4 * i0 - (4 * i0 - w * 4)) / 4)) with n by lia.
    apply (one_loop_ok _ false true true); try assumption; try lia; try discriminate.
    intros j Hj. rewrite (Hrec j Hj), q4_add_pixels, !q4_Average2. reflexivity.
  Qed.

  Lemma pred6_ok i0 n cur : run_ok i0 n -> pinv i0 cur ->
    (forall i, i0 <= i < i0 + n -> V.pix out i = V.add_pixels (base i) (V.Average2 (V.pix out (i - 1)) (V.pix out (i - w - 1)))) ->
    exists cur', pred6 cur (4 * i0) (4 * (i0 + n)) w = Ok cur' /\ pinv (i0 + n) cur'.
  Proof.
    intros (Hi & Hn & HN) Hinv Hrec. unfold pred6. rewrite split_checks_ok, prev_of_ok by (try assumption; lia). cbn [bind].
    unfold usub, chunks_from, cur_chunks. checks.
    replace (Z.min ((4 * (i0 + n) - 4 * i0) / 4) ((4 * i0 - (4 * i0 - w * 4 - 4)) / 4)) with n by lia.
    apply (one_loop_ok _ true false false); try assumption; try lia; try discriminate.
    intros j Hj. rewrite (Hrec j Hj), q4_add_pixels, !q4_Average2. reflexivity.
  Qed.

  Lemma pred10_ok i0 n cur : run_ok i0 n -> pinv i0 cur ->
    (forall i, i0 <= i < i0 + n ->
       V.pix out i = V.add_pixels (base i) (V.Average2 (V.Average2 (V.pix out (i - 1)) (V.pix out (i - w - 1)))
                                                       (V.Average2 (V.pix out (i - w)) (V.pix out (i - w + 1))))) ->
    exists cur', pred10 cur (4 * i0) (4 * (i0 + n)) w = Ok cur' /\ pinv (i0 + n) cur'.
  Proof.
    intros (Hi & Hn & HN) Hinv Hrec. unfold pred10. rewrite split_checks_ok, prev_of_ok by (try assumption; lia). cbn [bind].
    unfold usub, chunks_from, cur_chunks. checks.
    replace (Z.min (Z.min (Z.min ((4 * (i0 + n) - 4 * i0) / 4) ((4 * i0 - (4 * i0 - w * 4 - 4)) / 4)) ((4 * i0 - (4 * i0 - w * 4)) / 4))
                   ((4 * i0 - (4 * i0 - w * 4 + 4)) / 4)) with n by lia.
    apply (one_loop_ok _ true true true); try assumption; try lia; try discriminate.
    intros j Hj. rewrite (Hrec j Hj), q4_add_pixels, !q4_Average2. reflexivity.
  Qed.

  Lemma pred12_ok i0 n cur : run_ok i0 n -> pinv i0 cur ->
    (forall i, i0 <= i < i0 + n ->
       V.pix out i = V.add_pixels (base i) (V.ClampAddSubtractFull (V.pix out (i - 1)) (V.pix out (i - w)) (V.pix out (i - w - 1)))) ->
    exists cur', pred12 cur (4 * i0) (4 * (i0 + n)) w = Ok cur' /\ pinv (i0 + n) cur'.
  Proof.
    intros (Hi & Hn & HN) Hinv Hrec. unfold pred12. rewrite split_checks_ok, prev_of_ok by (try assumption; lia). cbn [bind].
    unfold usub, chunks_from, cur_chunks. checks.
    replace (Z.min (Z.min ((4 * (i0 + n) - 4 * i0) / 4) ((4 * i0 - (4 * i0 - w * 4 - 4)) / 4)) ((4 * i0 - (4 * i0 - w * 4)) / 4)) with n by lia.
    apply (one_loop_ok _ true true false); try assumption; try lia; try discriminate.
    intros j Hj. rewrite q4_casf. cbn [bind]. rewrite (Hrec j Hj), q4_add_pixels. reflexivity.
  Qed.

  Lemma pred13_ok i0 n cur : run_ok i0 n -> pinv i0 cur ->
    (forall i, i0 <= i < i0 + n ->
       V.pix out i = V.add_pixels (base i) (V.ClampAddSubtractHalf (V.Average2 (V.pix out (i - 1)) (V.pix out (i - w))) (V.pix out (i - w - 1)))) ->
    exists cur', pred13 cur (4 * i0) (4 * (i0 + n)) w = Ok cur' /\ pinv (i0 + n) cur'.
  Proof.
    intros (Hi & Hn & HN) Hinv Hrec. unfold pred13. rewrite split_checks_ok, prev_of_ok by (try assumption; lia). cbn [bind].
    unfold usub, cur_chunks. checks.
    replace ((4 * (i0 + n) - 4 * i0) / 4) with n by lia.
    apply (one_loop_ok _ true true false); try assumption; try lia; try discriminate.
    intros j Hj. rewrite q4_cash. cbn [bind]. rewrite (Hrec j Hj), q4_add_pixels. reflexivity.
  Qed.

  Lemma pred7_ok i0 n cur : run_ok i0 n -> pinv i0 cur ->
    (forall i, i0 <= i < i0 + n -> V.pix out i = V.add_pixels (base i) (V.Average2 (V.pix out (i - 1)) (V.pix out (i - w)))) ->
    exists cur', pred7 cur (4 * i0) (4 * (i0 + n)) w = Ok cur' /\ pinv (i0 + n) cur'.
  Proof.
    intros (Hi & Hn & HN) Hinv Hrec. unfold pred7. rewrite split_checks_ok, prev_of_ok by (try assumption; lia). cbn [bind].
    unfold usub. checks.
    set (f := fun cur0 prev (_ t _ : px4) => Ok (add4 cur0 (zip4 average2 prev t))).
    set (n1 := 16 * (n / 16)).
    replace (16 * ((4 * (i0 + n) - 4 * i0) / 64)) with n1 by (unfold n1; lia).
    replace ((4 * (i0 + n) - 4 * i0 - 64 * ((4 * (i0 + n) - 4 * i0) / 64)) / 4) with (n - n1) by (unfold n1; lia).
    replace (4 * i0 + 64 * ((4 * (i0 + n) - 4 * i0) / 64)) with (4 * (i0 + n1)) by (unfold n1; lia).
    assert (Hn1 : 0 <= n1 <= n) by (unfold n1; lia).
    assert (Hf : forall j, i0 <= j < i0 + n ->
               f (q4 (base j)) (q4 (V.pix out (j - 1))) zero4 (q4 (V.pix out (j - w))) zero4 = Ok (q4 (V.pix out j))).
    { intros j Hj. unfold f. rewrite (Hrec j Hj), q4_add_pixels, !q4_Average2. reflexivity. }
    destruct (prev_loop_ok f false true false (Z.to_nat n1) i0 cur (q4 (V.pix out (i0 - 1))) Hinv ltac:(lia) ltac:(lia) eq_refl)
      as (p1 & c1 & E1 & Hinv1 & Hp1); try discriminate; try lia.
    { intros j Hj. apply Hf. lia. }
    rewrite E1. cbn [bind]. rewrite Z2Nat.id in Hinv1, Hp1 by lia.
    destruct (prev_loop_ok f false true false (Z.to_nat (n - n1)) (i0 + n1) c1 p1 Hinv1 ltac:(lia) ltac:(lia) Hp1)
      as (p2 & c2 & E2 & Hinv2 & _); try discriminate; try lia.
    { intros j Hj. apply Hf. lia. }
    rewrite E2. cbn [bind]. exists c2. split; [reflexivity|].
    rewrite Z2Nat.id in Hinv2 by lia. replace (i0 + n1 + (n - n1)) with (i0 + n) in Hinv2 by lia. exact Hinv2.
  Qed.

  (* ---------------------------------------------------------------------------------------------- *)
  (** ** predictor 11 (Select) *)
  Lemma select_loop_ok : forall (n : nat) i cur l tl,
    pinv i cur -> w + 1 <= i -> i + Z.of_nat n <= N -> l = q4 (V.pix out (i - 1)) -> tl = q4 (V.pix out (i - w - 1)) ->
    (forall j, i <= j < i + Z.of_nat n ->
       V.pix out j = V.add_pixels (base j) (V.Select (V.pix out (j - 1)) (V.pix out (j - w)) (V.pix out (j - w - 1)))) ->
    exists cur', select_loop n (w * 4) (4 * i) l tl cur = Ok cur' /\ pinv (i + Z.of_nat n) cur'.
  Proof.
    induction n as [|n IH]; intros i cur l tl Hinv Hi HN Hl Htl Hrec.
    - exists cur. split; [reflexivity|]. replace (i + Z.of_nat 0) with i by lia. exact Hinv.
    - cbn [select_loop]. rewrite (pinv_get_base i cur i Hinv) by lia. cbn [bind].
      replace (4 * i - w * 4) with (4 * (i - w)) by lia.
      rewrite (pinv_get_out i cur (i - w) Hinv) by lia. cbn [bind]. rewrite Hl, Htl.
      fold (sel_left (q4 (V.pix out (i - 1))) (q4 (V.pix out (i - w))) (q4 (V.pix out (i - w - 1)))).
      fold (sel_top (q4 (V.pix out (i - 1))) (q4 (V.pix out (i - w))) (q4 (V.pix out (i - w - 1)))).
      destruct (select_q4 (V.pix out (i - 1)) (V.pix out (i - w)) (V.pix out (i - w - 1))) as (B1 & B2 & ES).
      replace ((32767 <? sel_left (q4 (V.pix out (i - 1))) (q4 (V.pix out (i - w))) (q4 (V.pix out (i - w - 1)))) ||
               (32767 <? sel_top (q4 (V.pix out (i - 1))) (q4 (V.pix out (i - w))) (q4 (V.pix out (i - w - 1))))) with false
        by (symmetry; apply orb_false_iff; split; apply Z.ltb_ge; assumption).
      rewrite !map4_mod_q4.
      assert (Enw : (if sel_left (q4 (V.pix out (i - 1))) (q4 (V.pix out (i - w))) (q4 (V.pix out (i - w - 1))) <?
                        sel_top (q4 (V.pix out (i - 1))) (q4 (V.pix out (i - w))) (q4 (V.pix out (i - w - 1)))
                     then add4 (q4 (base i)) (q4 (V.pix out (i - 1))) else add4 (q4 (base i)) (q4 (V.pix out (i - w))))
                    = q4 (V.pix out i)).
      { rewrite (Hrec i) by lia. rewrite q4_add_pixels, ES.
        destruct (sel_left _ _ _ <? sel_top _ _ _); reflexivity. }
      rewrite Enw. destruct (pinv_set i cur Hinv ltac:(lia)) as (c1 & E1 & Hinv1). rewrite E1. cbn [bind].
      replace (4 * i + 4) with (4 * (i + 1)) by lia.
      destruct (IH (i + 1) c1 (q4 (V.pix out i)) (q4 (V.pix out (i - w))) Hinv1 ltac:(lia) ltac:(lia)) as (c' & E' & Hinv').
      + do 2 f_equal. lia.
      + do 2 f_equal. lia.
      + intros j Hj. apply Hrec. lia.
      + exists c'. split; [exact E'|]. replace (i + Z.of_nat (S n)) with (i + 1 + Z.of_nat n) by lia. exact Hinv'.
  Qed.

  Lemma pred11_ok i0 n cur : run_ok i0 n -> pinv i0 cur ->
    (forall i, i0 <= i < i0 + n ->
       V.pix out i = V.add_pixels (base i) (V.Select (V.pix out (i - 1)) (V.pix out (i - w)) (V.pix out (i - w - 1)))) ->
    exists cur', pred11 cur (4 * i0) (4 * (i0 + n)) w = Ok cur' /\ pinv (i0 + n) cur'.
  Proof.
    intros (Hi & Hn & HN) Hinv Hrec. unfold pred11. rewrite split_checks_ok by (try assumption; lia). cbn [bind].
    unfold usub, chunks_from, cur_chunks. checks.
    replace (4 * i0 - 4) with (4 * (i0 - 1)) by lia. rewrite (pinv_get_out i0 cur (i0 - 1) Hinv) by lia. cbn [bind].
    ltb_false. cbn [bind].
    replace (4 * i0 - w * 4 - 4) with (4 * (i0 - w - 1)) by lia. rewrite (pinv_get_out i0 cur (i0 - w - 1) Hinv) by lia. cbn [bind].
    replace (Z.min ((4 * (i0 + n) - 4 * i0) / 4) ((4 * i0 - (4 * i0 - w * 4)) / 4)) with n by lia.
    destruct (select_loop_ok (Z.to_nat n) i0 cur _ _ Hinv ltac:(lia) ltac:(lia) eq_refl eq_refl) as (c' & E & Hinv').
    - intros j Hj. apply Hrec. lia.
    - exists c'. split; [exact E|]. rewrite Z2Nat.id in Hinv' by lia. exact Hinv'.
  Qed.

  (* ---------------------------------------------------------------------------------------------- *)
  (** ** predictor 0 *)

  Lemma pred0_ok i0 n cur : 0 <= i0 -> 0 <= n -> i0 + n <= N -> pinv i0 cur ->
    (forall i, i0 <= i < i0 + n -> V.pix out i = V.add_pixels (base i) V.black) ->
    exists cur', pred0 cur (4 * i0) (4 * (i0 + n)) w = Ok cur' /\ pinv (i0 + n) cur'.
  Proof.
    intros Hi Hn HN Hinv Hrec. unfold pred0.
    replace (step_count (4 * i0 + 3) (4 * (i0 + n)) 4) with n.
    2:{ unfold step_count. destruct (Z.leb_spec (4 * (i0 + n)) (4 * i0 + 3)); lia. }
    destruct (for_loop_inv (fun pos c => exists j, pos = 4 * j + 3 /\ pinv j c)
                (fun i img => bind (zget img i) (fun c => zset img i (wadd8 c 255))) 4 (Z.to_nat n) (4 * i0 + 3) cur)
      as (c' & E & j' & Ej & Hinv').
    - exists i0. split; [reflexivity | exact Hinv].
    - intros pos c0 (m & Hm & Hpos) (j & Ej & (Hl & Hc)). assert (j = i0 + m) by lia. subst j. rewrite Ej.
      rewrite zget_ok by lia. cbn [bind].
      destruct (zset_ok c0 (4 * (i0 + m) + 3) (wadd8 (az c0 (4 * (i0 + m) + 3)) 255) ltac:(lia)) as (c1 & E1 & L1 & Z1).
      exists c1. split; [exact E1|]. exists (i0 + m + 1). split; [lia|]. split; [lia|]. intros j Hj.
      destruct (Z.eq_dec j (i0 + m)) as [->|Hne].
      + replace (i0 + m <? i0 + m + 1) with true by (symmetry; apply Z.ltb_lt; lia).
        rewrite (Hrec (i0 + m)) by lia. rewrite q4_add_pixels, q4_black, add4_black by apply q4_bytes.
        pose proof (Hc (i0 + m) ltac:(lia)) as Hcm. replace (i0 + m <? i0 + m) with false in Hcm by (symmetry; apply Z.ltb_ge; lia).
        apply pair4_inj in Hcm. destruct Hcm as (C0 & C1 & C2 & C3).
        unfold cell. rewrite !Z1 by lia.
        replace (4 * (i0 + m) =? 4 * (i0 + m) + 3) with false by (symmetry; apply Z.eqb_neq; lia).
        replace (4 * (i0 + m) + 1 =? 4 * (i0 + m) + 3) with false by (symmetry; apply Z.eqb_neq; lia).
        replace (4 * (i0 + m) + 2 =? 4 * (i0 + m) + 3) with false by (symmetry; apply Z.eqb_neq; lia).
        rewrite Z.eqb_refl. rewrite C0, C1, C2, C3. reflexivity.
      + unfold cell. rewrite !Z1 by lia.
        replace (4 * j =? 4 * (i0 + m) + 3) with false by (symmetry; apply Z.eqb_neq; lia).
        replace (4 * j + 1 =? 4 * (i0 + m) + 3) with false by (symmetry; apply Z.eqb_neq; lia).
        replace (4 * j + 2 =? 4 * (i0 + m) + 3) with false by (symmetry; apply Z.eqb_neq; lia).
        replace (4 * j + 3 =? 4 * (i0 + m) + 3) with false by (symmetry; apply Z.eqb_neq; lia).
        fold (cell c0 j). rewrite (Hc j Hj). f_equal.
        destruct (Z.ltb_spec j (i0 + m)); destruct (Z.ltb_spec j (i0 + m + 1)); try reflexivity; lia.
    - exists c'. split; [exact E|]. replace (i0 + n) with j' by lia. exact Hinv'.
  Qed.

  (* ---------------------------------------------------------------------------------------------- *)
  (** ** the byte-wise predictors 2, 3, 4, 8, 9 *)
  Definition obyte (k : Z) : Z := chan (k mod 4) (V.pix out (k / 4)).
  Definition bbyte (k : Z) : Z := chan (k mod 4) (base (k / 4)).

  Definition binv (p : Z) (cur : arr) : Prop :=
    zlen cur = 4 * N /\ forall k, 0 <= k < 4 * N -> az cur k = if k <? p then obyte k else bbyte k.

  Lemma pinv_binv i cur : pinv i cur -> binv (4 * i) cur.
  Proof.
    intros (Hl & Hc). split; [exact Hl|]. intros k Hk. pose proof (Hc (k / 4) ltac:(lia)) as H.
    assert (Ek : k = 4 * (k / 4) + k mod 4) by lia.
    assert (Hb : (k <? 4 * i) = (k / 4 <? i)) by (destruct (Z.ltb_spec k (4 * i)); destruct (Z.ltb_spec (k / 4) i); try reflexivity; lia).
    rewrite Hb. unfold obyte, bbyte. rewrite Ek at 1.
    apply pair4_inj in H. destruct H as (H0 & H1 & H2 & H3).
    assert (C : k mod 4 = 0 \/ k mod 4 = 1 \/ k mod 4 = 2 \/ k mod 4 = 3) by lia.
    destruct C as [C | [C | [C | C]]]; rewrite C; rewrite ?Z.add_0_r;
      [rewrite H0 | rewrite H1 | rewrite H2 | rewrite H3]; destruct (k / 4 <? i); reflexivity.
  Qed.

  Lemma binv_pinv i cur : binv (4 * i) cur -> pinv i cur.
  Proof.
    intros (Hl & Hz). split; [exact Hl|]. intros j Hj. apply cell_chan. intros c Hc. rewrite Hz by lia.
    unfold obyte, bbyte. replace ((4 * j + c) mod 4) with c by lia. replace ((4 * j + c) / 4) with j by lia.
    destruct (Z.ltb_spec (4 * j + c) (4 * i)); destruct (Z.ltb_spec j i); try reflexivity; lia.
  Qed.

  Lemma byte_loop_ok pred p0 p1 cur : binv p0 cur -> 0 <= p0 <= p1 -> p1 <= 4 * N ->
    (forall k cur0, p0 <= k < p1 -> binv k cur0 -> exists v, pred cur0 k = Ok v /\ obyte k = wadd8 (bbyte k) v) ->
    exists cur', byte_loop pred cur p0 p1 = Ok cur' /\ binv p1 cur'.
  Proof.
    intros Hinv Hp Hp1 Hpred. unfold byte_loop.
    apply (for_range_inv binv); [lia | exact Hinv |].
    intros k c0 Hk (Hl & Hz). destruct (Hpred k c0 Hk (conj Hl Hz)) as (v & Ev & Hv). rewrite Ev. cbn [bind].
    rewrite zget_ok by lia. cbn [bind].
    destruct (zset_ok c0 k (wadd8 (az c0 k) v) ltac:(lia)) as (c1 & E1 & L1 & Z1).
    exists c1. split; [exact E1|]. split; [lia|]. intros k' Hk'. rewrite Z1 by lia.
    destruct (Z.eqb_spec k' k) as [->|Hne].
    - replace (k <? k + 1) with true by (symmetry; apply Z.ltb_lt; lia). rewrite (Hz k) by lia.
      replace (k <? k) with false by (symmetry; apply Z.ltb_ge; lia). symmetry. exact Hv.
    - rewrite (Hz k' Hk'). destruct (Z.ltb_spec k' k); destruct (Z.ltb_spec k' (k + 1)); try reflexivity; lia.
  Qed.

  (* reading an already final byte d places back *)
  Lemma binv_back k cur0 d : binv k cur0 -> 0 < d <= k -> k < 4 * N -> az cur0 (k - d) = obyte (k - d).
  Proof.
    intros (Hl & Hz) Hd Hk. rewrite Hz by lia. replace (k - d <? k) with true by (symmetry; apply Z.ltb_lt; lia). reflexivity.
  Qed.

  Lemma obyte_shift k j : obyte (k - 4 * j) = chan (k mod 4) (V.pix out (k / 4 - j)).
  Proof. unfold obyte. replace ((k - 4 * j) mod 4) with (k mod 4) by lia. replace ((k - 4 * j) / 4) with (k / 4 - j) by lia. reflexivity. Qed.

  (* the recurrence of a run, byte by byte *)
  Lemma rec_byte (P : Z -> Z) i0 n k : (forall i, i0 <= i < i0 + n -> V.pix out i = V.add_pixels (base i) (P i)) ->
    4 * i0 <= k < 4 * (i0 + n) -> obyte k = wadd8 (bbyte k) (chan (k mod 4) (P (k / 4))).
  Proof.
    intros Hrec Hk. unfold obyte, bbyte. rewrite (Hrec (k / 4)) by lia. apply chan_add_pixels. lia.
  Qed.

  Section ByteRun.
    Variables (i0 n : Z) (cur : arr).
    Hypothesis Hrun : run_ok i0 n.
    Hypothesis Hinv : pinv i0 cur.

    Lemma byte_run_ok pred (P : Z -> Z) :
      (forall i, i0 <= i < i0 + n -> V.pix out i = V.add_pixels (base i) (P i)) ->
      (forall k cur0, 4 * i0 <= k < 4 * (i0 + n) -> binv k cur0 -> pred cur0 k = Ok (chan (k mod 4) (P (k / 4)))) ->
      exists cur', byte_loop pred cur (4 * i0) (4 * (i0 + n)) = Ok cur' /\ pinv (i0 + n) cur'.
    Proof.
      intros Hrec Hpred. destruct Hrun as (Hi & Hn & HN).
      destruct (byte_loop_ok pred (4 * i0) (4 * (i0 + n)) cur (pinv_binv _ _ Hinv) ltac:(lia) ltac:(lia)) as (c' & E & Hb).
      - intros k c0 Hk Hc0. exists (chan (k mod 4) (P (k / 4))). split; [apply Hpred; assumption|]. apply (rec_byte P i0 n); assumption.
      - exists c'. split; [exact E|]. apply binv_pinv. exact Hb.
    Qed.

    Lemma up_ok k cur0 : 4 * i0 <= k < 4 * (i0 + n) -> binv k cur0 -> up cur0 k w = Ok (chan (k mod 4) (V.pix out (k / 4 - w))).
    Proof.
      intros Hk Hb. destruct Hrun as (Hi & Hn & HN). pose proof Hb as (Hl & _). unfold up, usub. ltb_false. cbn [bind].
      rewrite zget_ok by lia. f_equal. replace (k - w * 4) with (k - 4 * w) by lia.
      rewrite (binv_back k cur0 (4 * w) Hb) by lia. apply obyte_shift.
    Qed.

    Lemma up_right_ok k cur0 : 4 * i0 <= k < 4 * (i0 + n) -> binv k cur0 ->
      up_right cur0 k w = Ok (chan (k mod 4) (V.pix out (k / 4 - w + 1))).
    Proof.
      intros Hk Hb. destruct Hrun as (Hi & Hn & HN). pose proof Hb as (Hl & _). unfold up_right, usub. ltb_false. cbn [bind].
      rewrite zget_ok by lia. f_equal. replace (k - w * 4 + 4) with (k - 4 * (w - 1)) by lia.
      rewrite (binv_back k cur0 (4 * (w - 1)) Hb) by lia. rewrite obyte_shift. do 2 f_equal. lia.
    Qed.

    Lemma up_left_ok k cur0 : 4 * i0 <= k < 4 * (i0 + n) -> binv k cur0 ->
      up_left cur0 k w = Ok (chan (k mod 4) (V.pix out (k / 4 - w - 1))).
    Proof.
      intros Hk Hb. destruct Hrun as (Hi & Hn & HN). pose proof Hb as (Hl & _). unfold up_left, usub. ltb_false. cbn [bind]. ltb_false. cbn [bind].
      rewrite zget_ok by lia. f_equal. replace (k - w * 4 - 4) with (k - 4 * (w + 1)) by lia.
      rewrite (binv_back k cur0 (4 * (w + 1)) Hb) by lia. rewrite obyte_shift. do 2 f_equal. lia.
    Qed.

    Lemma pred2_ok : (forall i, i0 <= i < i0 + n -> V.pix out i = V.add_pixels (base i) (V.pix out (i - w))) ->
      exists cur', pred2 cur (4 * i0) (4 * (i0 + n)) w = Ok cur' /\ pinv (i0 + n) cur'.
    Proof. intros Hrec. unfold pred2. apply (byte_run_ok _ (fun i => V.pix out (i - w)) Hrec). intros k c0 Hk Hb. apply up_ok; assumption. Qed.

    Lemma pred3_ok : (forall i, i0 <= i < i0 + n -> V.pix out i = V.add_pixels (base i) (V.pix out (i - w + 1))) ->
      exists cur', pred3 cur (4 * i0) (4 * (i0 + n)) w = Ok cur' /\ pinv (i0 + n) cur'.
    Proof. intros Hrec. unfold pred3. apply (byte_run_ok _ (fun i => V.pix out (i - w + 1)) Hrec). intros k c0 Hk Hb. apply up_right_ok; assumption. Qed.

    Lemma pred4_ok : (forall i, i0 <= i < i0 + n -> V.pix out i = V.add_pixels (base i) (V.pix out (i - w - 1))) ->
      exists cur', pred4 cur (4 * i0) (4 * (i0 + n)) w = Ok cur' /\ pinv (i0 + n) cur'.
    Proof. intros Hrec. unfold pred4. apply (byte_run_ok _ (fun i => V.pix out (i - w - 1)) Hrec). intros k c0 Hk Hb. apply up_left_ok; assumption. Qed.

    Lemma pred8_ok : (forall i, i0 <= i < i0 + n -> V.pix out i = V.add_pixels (base i) (V.Average2 (V.pix out (i - w - 1)) (V.pix out (i - w)))) ->
      exists cur', pred8 cur (4 * i0) (4 * (i0 + n)) w = Ok cur' /\ pinv (i0 + n) cur'.
    Proof.
      intros Hrec. unfold pred8. apply (byte_run_ok _ (fun i => V.Average2 (V.pix out (i - w - 1)) (V.pix out (i - w))) Hrec).
      intros k c0 Hk Hb. rewrite up_left_ok, up_ok by assumption. cbn [bind]. rewrite chan_Average2 by lia. reflexivity.
    Qed.

    Lemma pred9_ok : (forall i, i0 <= i < i0 + n -> V.pix out i = V.add_pixels (base i) (V.Average2 (V.pix out (i - w)) (V.pix out (i - w + 1)))) ->
      exists cur', pred9 cur (4 * i0) (4 * (i0 + n)) w = Ok cur' /\ pinv (i0 + n) cur'.
    Proof.
      intros Hrec. unfold pred9. apply (byte_run_ok _ (fun i => V.Average2 (V.pix out (i - w)) (V.pix out (i - w + 1))) Hrec).
      intros k c0 Hk Hb. rewrite up_ok, up_right_ok by assumption. cbn [bind]. rewrite chan_Average2 by lia. reflexivity.
    Qed.
  End ByteRun.

  (* ---------------------------------------------------------------------------------------------- *)
  (** ** all fourteen, and the green bytes that are no mode *)
  Lemma pred_k_default m img s e : 14 <= m -> pred_k m img s e w = Ok img.
  Proof.
    intros Hm. destruct m as [|p|p]; try lia.
    do 4 (destruct p as [p|p|]; try lia; try reflexivity).
  Qed.

  Lemma q4_add_zero p : q4 (V.add_pixels p 0) = q4 p.
  Proof.
    rewrite q4_add_pixels. change (q4 0) with (0, 0, 0, 0). unfold q4, add4, zip4, wadd8.
    pose proof (RED_byte p) as H1. pose proof (GREEN_byte p) as H2. pose proof (BLUE_byte p) as H3. pose proof (ALPHA_byte p) as H4.
    unfold byte in *. rewrite !Z.add_0_r, !Z.mod_small by lia. reflexivity.
  Qed.

  Theorem pred_k_ok m i0 n cur : 0 <= m -> run_ok i0 n -> pinv i0 cur ->
    (forall i, i0 <= i < i0 + n ->
       V.pix out i = V.add_pixels (base i) (pmodel m (V.pix out (i - 1)) (V.pix out (i - w)) (V.pix out (i - w + 1)) (V.pix out (i - w - 1)))) ->
    exists cur', pred_k m cur (4 * i0) (4 * (i0 + n)) w = Ok cur' /\ pinv (i0 + n) cur'.
  Proof.
    intros Hm Hrun Hinv Hrec. pose proof Hrun as (Hi & Hn & HN).
    destruct (Z_le_gt_dec m 13) as [H13|H14].
    - unfold pmodel in Hrec. replace (m <=? 13) with true in Hrec by (symmetry; apply Z.leb_le; exact H13).
      assert (C : m = 0 \/ m = 1 \/ m = 2 \/ m = 3 \/ m = 4 \/ m = 5 \/ m = 6 \/ m = 7 \/ m = 8 \/ m = 9 \/ m = 10 \/ m = 11 \/ m = 12 \/ m = 13) by lia.
      destruct C as [-> | [-> | [-> | [-> | [-> | [-> | [-> | [-> | [-> | [-> | [-> | [-> | [-> | ->]]]]]]]]]]]]];
        cbn [V.predict] in Hrec; cbn [pred_k].
      + apply pred0_ok; try assumption; lia.
      + apply pred1_ok; try assumption; lia.
      + apply pred2_ok; assumption.
      + apply pred3_ok; assumption.
      + apply pred4_ok; assumption.
      + apply pred5_ok; assumption.
      + apply pred6_ok; assumption.
      + apply pred7_ok; assumption.
      + apply pred8_ok; assumption.
      + apply pred9_ok; assumption.
      + apply pred10_ok; assumption.
      + apply pred11_ok; assumption.
      + apply pred12_ok; assumption.
      + apply pred13_ok; assumption.
    - rewrite pred_k_default by lia. exists cur. split; [reflexivity|].
      unfold pmodel in Hrec. replace (m <=? 13) with false in Hrec by (symmetry; apply Z.leb_gt; lia).
      destruct Hinv as (Hl & Hc). split; [exact Hl|]. intros j Hj. rewrite (Hc j Hj).
      destruct (Z.ltb_spec j i0); destruct (Z.ltb_spec j (i0 + n)); try reflexivity; try lia.
      rewrite (Hrec j) by lia. symmetry. apply q4_add_zero.
  Qed.
End Rows.
