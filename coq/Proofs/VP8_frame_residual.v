(* VP8 frame-level parsing, part 4: read_residual_data, strong form.  The two theorems of VP8_parse_residual (B_PRED and 16x16
   macroblocks) state their failure branch as "BitStreamError and SOME reference state is over-read"; the frame-level statement needs the
   reference state at the END of parse_residuals.  The proofs below are those of VP8_parse_residual.read_residual_data_bpred_refines /
   _i16_refines with the failure branches closed by monotonicity of the reference reader (VP8_frame_mono): the intermediate state the
   plane loop failed at precedes the final one.  Also here: the skipped-macroblock branch inlined in decode_frame_ (Model.Vp8Frame.skipped_macroblock)
   equals the skip handling of Spec.VP8.parse_residuals. *)
From Coq Require Import ZArith Lia List Bool.
From WebP Require Import Lib.Res Gen.Kernels Gen.Tables Lib.ZBits Lib.Sweep Proofs.C15_num Proofs.C15_ideal Proofs.C15_model
  Proofs.C15_ops Proofs.C15_reqs Proofs.C15_main Spec.RfcBoolDec Spec.BoolDec Spec.VP8Tables Spec.VP8 Model.ArithDec
  Model.Vp8Parse Model.Vp8Frame Proofs.VP8_tables Proofs.VP8_arraykernels_aux Proofs.VP8_parse_base Proofs.VP8_parse_coeffs Proofs.VP8_parse_mbheader
  Proofs.VP8_parse_header Proofs.VP8_parse_residual Proofs.VP8_frame_base Proofs.VP8_frame_mono.
Import ListNotations.
Open Scope Z_scope.

Ltac kill_spec_m := repeat match goal with |- context [blocks_rows ?a ?b ?c ?d ?e ?f ?g ?h ?i ?j] =>
  let H := fresh "Hm" in pose proof (blocks_rows_mono a b c d f e g h i j) as H;
  destruct (blocks_rows a b c d e f g h i j) as [[[[? ?] ?] ?] ?]; cbn [snd] in H end.

Theorem read_residual_data_bpred_strong : forall data, Forall byte data -> C15_model.len data < 2 ^ 63 ->
  forall (h : header) (m : mbmode) (v : Vp8) (mb t : MacroBlock) (mbx p : Z) (d : Dec) (s : bstate) (seg : Segment),
  mb_luma_mode mb = 4 -> m_i4 m = true -> h_use_skip h && m_skip m = false ->
  tables_ok (h_probas h) -> token_nodes_of (h_probas h) = Ok (v_token_probs v) ->
  0 <= mb_segmentid mb -> nth_error (v_segment v) (Z.to_nat (mb_segmentid mb)) = Some seg ->
  sg_ydc seg = q_y1dc (segment_quant h (m_seg m)) -> sg_yac seg = q_y1ac (segment_quant h (m_seg m)) ->
  sg_uvdc seg = q_uvdc (segment_quant h (m_seg m)) -> sg_uvac seg = q_uvac (segment_quant h (m_seg m)) ->
  i16 (sg_ydc seg) -> i16 (sg_yac seg) -> i16 (sg_uvdc seg) -> i16 (sg_uvac seg) ->
  coef_bound (sg_ydc seg) (sg_yac seg) <= dct_bound -> coef_bound (sg_uvdc seg) (sg_uvac seg) <= dct_bound ->
  sg_ydc seg <> 0 -> sg_uvdc seg <> 0 ->
  0 <= p -> nth_error (v_partitions v) (Z.to_nat p) = Some d -> 0 <= mbx -> nth_error (v_top v) (Z.to_nat mbx) = Some t ->
  length (mb_complexity t) = 9%nat -> length (mb_complexity (v_left v)) = 9%nat -> cx_ok (mb_complexity t) -> cx_ok (mb_complexity (v_left v)) ->
  linked data s d ->
  let '(res, top', left', s') := parse_residuals h m (ctx_of (mb_complexity t)) (ctx_of (mb_complexity (v_left v))) s in
  (exists d', read_residual_data v mb mbx p
     = Ok (concat (map (fun b => fst (Spec.VP8.idct b)) (r_y res ++ r_u res ++ r_v res)), r_nonzero res,
           rst v p mbx t d' (c_dc top' :: c_y top' ++ c_u top' ++ c_v top') (c_dc left' :: c_y left' ++ c_u left' ++ c_v left')) /\
     linked data s' d')
  \/ (read_residual_data v mb mbx p = Err EBitStreamError /\ over_read data s').
Proof.
  intros data Hbytes Hlen h m v mb t mbx p d s seg Hluma Hi4 Hskip Htab Htp Hsid Hseg Ey1 Ey2 Eu1 Eu2 I1 I2 I3 I4 B1 B2 N1 N2
         Hp Hd Hmbx Ht Ltc Llc Ctc Clc Hlink.
  set (tc := mb_complexity t) in *. set (lc := mb_complexity (v_left v)) in *.
  assert (Hpl : 0 <= p < Z.of_nat (length (v_partitions v))) by (pose proof (nth_error_lt_len _ _ _ Hd); lia).
  assert (Hml : 0 <= mbx < Z.of_nat (length (v_top v))) by (pose proof (nth_error_lt_len _ _ _ Ht); lia).
  (* Spec *)
  unfold parse_residuals. rewrite Hskip, Hi4. cbv iota zeta. cbn [c_y c_u c_v c_dc ctx_of].
  rewrite <- Ey1, <- Ey2, <- Eu1, <- Eu2.
  (* Model *)
  unfold read_residual_data. rewrite Hluma. change (4 =? vp8_B_PRED) with true. cbv iota. change (3 =? 1) with false. cbv iota. cbn [bind].
  rewrite (idx_of_nth_error _ _ seg Hsid Hseg). cbn [bind].
  (* stage Y *)
  pose proof (residual_rows_refines data Hbytes Hlen (h_probas h) v p mbx 3 (sg_ydc seg) (sg_yac seg) t 0 4 0 1 4 d tc lc (repeat 0 384) false s
                Htab Htp ltac:(lia) I1 I2 B1 Hpl Hml ltac:(lia) ltac:(lia) Ctc Clc ltac:(cbn; lia) ltac:(vm_compute; reflexivity) Hlink) as SY.
  cbv zeta in SY. unfold tc, lc in SY. rewrite (rst_id v p mbx t d Hd Ht) in SY. fold tc lc in SY.
  change (Z.of_nat 0) with 0 in SY. change (Z.of_nat 4) with 4 in SY. change (Z.of_nat 1) with 1 in SY. change (3 =? 0) with false in SY. cbv iota in SY.
  cbn [Nat.add Nat.mul] in SY.
  destruct (plane_facts (h_probas h) v Htab Htp 3 ltac:(lia)) as [HP3 HN3].
  destruct (plane_facts (h_probas h) v Htab Htp 2 ltac:(lia)) as [HP2 HN2].
  assert (Cty : cx_ok (firstn 4 (skipn 1 tc))) by (apply cx_ok_firstn, cx_ok_skipn; exact Ctc).
  assert (Cly : cx_ok (firstn 4 (skipn 1 lc))) by (apply cx_ok_firstn, cx_ok_skipn; exact Clc).
  pose proof (blocks_rows_shape _ _ (sg_ydc seg) (sg_yac seg) 0 (firstn 4 (skipn 1 tc)) (firstn 4 (skipn 1 lc)) s HP3 HN3 ltac:(lia) Cty Cly) as ShY.
  pose proof (residual_flag_is_block_nonzero (nthZ (h_probas h) 3 []) (sg_ydc seg) (sg_yac seg) 0 (firstn 4 (skipn 1 tc)) (firstn 4 (skipn 1 lc)) s
                ltac:(right; split; [reflexivity | exact N1])) as FY.
  unfold nthZ in *. change (Z.to_nat 3) with 3%nat in *. change (Z.to_nat 2) with 2%nat in *.
  destruct (blocks_rows (nth 3 (h_probas h) []) (sg_ydc seg) (sg_yac seg) 0 (firstn 4 (skipn 1 tc)) (firstn 4 (skipn 1 lc)) s [] [] true)
    as [[[[yb ty] ly] ok1] s0].
  rewrite !firstn_length, !skipn_length, Ltc, Llc in ShY. cbn [Nat.sub Nat.min Nat.mul Nat.add] in ShY. destruct ShY as (LyB & Lty & Lly & Cty' & Cly').
  destruct SY as [[d1 [EY LY]] | [EY OY]]; [|kill_spec_m; right; rewrite EY; cbn [bind]; split; [reflexivity | eapply over_read_le; [|exact OY]; unfold le_st in *; lia]].
  rewrite EY. cbn [bind]. clear EY.
  (* stage U *)
  set (tc1 := firstn 1 tc ++ ty ++ skipn 5 tc) in *. set (lc1 := firstn 1 lc ++ ly ++ skipn 5 lc) in *.
  set (cY := concat (map (fun b0 : list Z * Z => fst (idct (fst b0))) yb)) in *.
  assert (LcY : length cY = 256%nat) by (unfold cY; rewrite concat_idct_length, LyB; reflexivity).
  set (blocksY := firstn 0 (repeat 0 384) ++ cY ++ skipn 256 (repeat 0 384)).
  assert (Ltc1 : length tc1 = 9%nat) by (unfold tc1; rewrite !app_length, firstn_length, skipn_length; lia).
  assert (Llc1 : length lc1 = 9%nat) by (unfold lc1; rewrite !app_length, firstn_length, skipn_length; lia).
  assert (Ctc1 : cx_ok tc1) by (unfold tc1; apply cx_ok_splice; [apply cx_ok_firstn | | apply cx_ok_skipn]; assumption).
  assert (Clc1 : cx_ok lc1) by (unfold lc1; apply cx_ok_splice; [apply cx_ok_firstn | | apply cx_ok_skipn]; assumption).
  assert (EbY : blocksY = cY ++ repeat 0 128) by (unfold blocksY; change (firstn 0 (repeat 0 384)) with (@nil Z); rewrite app_nil_l; f_equal).
  assert (LbY : length blocksY = 384%nat) by (rewrite EbY, app_length, repeat_length, LcY; reflexivity).
  assert (SkY : skipn 256 blocksY = repeat 0 128).
  { rewrite EbY. rewrite <- LcY at 1. rewrite skipn_app, skipn_all, Nat.sub_diag. reflexivity. }
  pose proof (residual_rows_refines data Hbytes Hlen (h_probas h) v p mbx 2 (sg_uvdc seg) (sg_uvac seg) t 0 2 16 5 2 d1 tc1 lc1 blocksY
                (false || existsb (spec_flag 0) yb) s0 Htab Htp ltac:(lia) I3 I4 B2 Hpl Hml ltac:(lia) ltac:(lia) Ctc1 Clc1 ltac:(rewrite LbY; cbn; lia)) as SU.
  cbn [Nat.add Nat.mul] in SU. specialize (SU ltac:(rewrite SkY; vm_compute; reflexivity) LY). cbv zeta in SU.
  change (Z.of_nat 0) with 0 in SU. change (Z.of_nat 2) with 2 in SU. change (Z.of_nat 16) with 16 in SU. change (Z.of_nat 5) with 5 in SU.
  change (2 =? 0) with false in SU. cbv iota in SU. unfold nthZ in SU. change (Z.to_nat 2) with 2%nat in SU.
  unfold tc1 at 1 in SU. unfold lc1 at 1 in SU. rewrite (nine_ctx_u tc ty Ltc Lty), (nine_ctx_u lc ly Llc Lly) in SU.
  assert (Ctu : cx_ok (firstn 2 (skipn 5 tc))) by (apply cx_ok_firstn, cx_ok_skipn; exact Ctc).
  assert (Clu : cx_ok (firstn 2 (skipn 5 lc))) by (apply cx_ok_firstn, cx_ok_skipn; exact Clc).
  pose proof (blocks_rows_shape _ _ (sg_uvdc seg) (sg_uvac seg) 0 (firstn 2 (skipn 5 tc)) (firstn 2 (skipn 5 lc)) s0 HP2 HN2 ltac:(lia) Ctu Clu) as ShU.
  pose proof (residual_flag_is_block_nonzero (nth 2 (h_probas h) []) (sg_uvdc seg) (sg_uvac seg) 0 (firstn 2 (skipn 5 tc)) (firstn 2 (skipn 5 lc)) s0
                ltac:(right; split; [reflexivity | exact N2])) as FU.
  rewrite (blocks_rows_true _ _ _ _ _ _ s0 ok1).
  destruct (blocks_rows (nth 2 (h_probas h) []) (sg_uvdc seg) (sg_uvac seg) 0 (firstn 2 (skipn 5 tc)) (firstn 2 (skipn 5 lc)) s0 [] [] true)
    as [[[[ub tu] lu] ok2t] s1].
  rewrite !firstn_length, !skipn_length, Ltc, Llc in ShU. cbn [Nat.sub Nat.min Nat.mul Nat.add] in ShU. destruct ShU as (LuB & Ltu & Llu & Ctu' & Clu').
  destruct SU as [[d2 [EU LU]] | [EU OU]]; [|kill_spec_m; right; rewrite EU; cbn [bind]; split; [reflexivity | eapply over_read_le; [|exact OU]; unfold le_st in *; lia]].
  rewrite EU. cbn [bind]. clear EU.
  (* stage V *)
  set (tc2 := firstn 5 tc1 ++ tu ++ skipn 7 tc1) in *. set (lc2 := firstn 5 lc1 ++ lu ++ skipn 7 lc1) in *.
  set (cU := concat (map (fun b0 : list Z * Z => fst (idct (fst b0))) ub)) in *.
  assert (LcU : length cU = 64%nat) by (unfold cU; rewrite concat_idct_length, LuB; reflexivity).
  set (blocksU := firstn 256 blocksY ++ cU ++ skipn 320 blocksY) in *.
  assert (Ltc2 : length tc2 = 9%nat) by (unfold tc2; rewrite !app_length, firstn_length, skipn_length; lia).
  assert (Llc2 : length lc2 = 9%nat) by (unfold lc2; rewrite !app_length, firstn_length, skipn_length; lia).
  assert (Ctc2 : cx_ok tc2) by (unfold tc2; apply cx_ok_splice; [apply cx_ok_firstn | | apply cx_ok_skipn]; assumption).
  assert (Clc2 : cx_ok lc2) by (unfold lc2; apply cx_ok_splice; [apply cx_ok_firstn | | apply cx_ok_skipn]; assumption).
  assert (FnY : firstn 256 blocksY = cY).
  { rewrite EbY. rewrite <- LcY. rewrite firstn_app, firstn_all, Nat.sub_diag. change (firstn 0 (repeat 0 128)) with (@nil Z). apply app_nil_r. }
  assert (SkY2 : skipn 320 blocksY = repeat 0 64).
  { replace 320%nat with (256 + 64)%nat by reflexivity. rewrite <- skipn_skipn'. rewrite SkY. reflexivity. }
  assert (LbU : length blocksU = 384%nat) by (unfold blocksU; rewrite FnY, SkY2, !app_length, LcY, LcU, repeat_length; reflexivity).
  assert (SkU : skipn 320 blocksU = repeat 0 64).
  { unfold blocksU. rewrite FnY, SkY2. rewrite app_assoc. replace 320%nat with (length (cY ++ cU)) by (rewrite app_length, LcY, LcU; reflexivity).
    rewrite skipn_app, skipn_all, Nat.sub_diag. reflexivity. }
  pose proof (residual_rows_refines data Hbytes Hlen (h_probas h) v p mbx 2 (sg_uvdc seg) (sg_uvac seg) t 0 2 20 7 2 d2 tc2 lc2 blocksU
                (false || existsb (spec_flag 0) yb || existsb (spec_flag 0) ub) s1 Htab Htp ltac:(lia) I3 I4 B2 Hpl Hml ltac:(lia) ltac:(lia) Ctc2 Clc2
                ltac:(rewrite LbU; cbn; lia)) as SV.
  cbn [Nat.add Nat.mul] in SV. specialize (SV ltac:(rewrite SkU; vm_compute; reflexivity) LU). cbv zeta in SV.
  change (Z.of_nat 0) with 0 in SV. change (Z.of_nat 2) with 2 in SV. change (Z.of_nat 20) with 20 in SV. change (Z.of_nat 7) with 7 in SV.
  change (2 =? 0) with false in SV. cbv iota in SV. unfold nthZ in SV. change (Z.to_nat 2) with 2%nat in SV.
  unfold tc2 at 1 in SV. unfold lc2 at 1 in SV. unfold tc1 at 1 2 in SV. unfold lc1 at 1 2 in SV.
  rewrite (nine_ctx_v tc ty tu Ltc Lty Ltu), (nine_ctx_v lc ly lu Llc Lly Llu) in SV.
  assert (Ctv : cx_ok (firstn 2 (skipn 7 tc))) by (apply cx_ok_firstn, cx_ok_skipn; exact Ctc).
  assert (Clv : cx_ok (firstn 2 (skipn 7 lc))) by (apply cx_ok_firstn, cx_ok_skipn; exact Clc).
  pose proof (blocks_rows_shape _ _ (sg_uvdc seg) (sg_uvac seg) 0 (firstn 2 (skipn 7 tc)) (firstn 2 (skipn 7 lc)) s1 HP2 HN2 ltac:(lia) Ctv Clv) as ShV.
  pose proof (residual_flag_is_block_nonzero (nth 2 (h_probas h) []) (sg_uvdc seg) (sg_uvac seg) 0 (firstn 2 (skipn 7 tc)) (firstn 2 (skipn 7 lc)) s1
                ltac:(right; split; [reflexivity | exact N2])) as FV.
  rewrite (blocks_rows_true _ _ _ _ _ _ s1 _).
  destruct (blocks_rows (nth 2 (h_probas h) []) (sg_uvdc seg) (sg_uvac seg) 0 (firstn 2 (skipn 7 tc)) (firstn 2 (skipn 7 lc)) s1 [] [] true)
    as [[[[vb tv] lv] ok3t] s2].
  rewrite !firstn_length, !skipn_length, Ltc, Llc in ShV. cbn [Nat.sub Nat.min Nat.mul Nat.add] in ShV. destruct ShV as (LvB & Ltv & Llv & Ctv' & Clv').
  destruct SV as [[d3 [EV LV]] | [EV OV]]; [|right; rewrite EV; cbn [bind]; split; [reflexivity | eapply over_read_le; [|exact OV]; unfold le_st in *; lia]].
  rewrite EV. cbn [bind]. clear EV.
  left. exists d3. split; [|exact LV]. cbn [r_y r_u r_v r_nonzero c_y c_u c_v c_dc].
  (* contexts *)
  unfold tc2, lc2, tc1, lc1. rewrite (nine_split tc (nth 0 tc 0) ty tu tv Ltc Lty Ltu Ltv), (nine_split lc (nth 0 lc 0) ly lu lv Llc Lly Llu Llv).
  (* blocks *)
  set (cV := concat (map (fun b0 : list Z * Z => fst (idct (fst b0))) vb)).
  assert (LcV : length cV = 64%nat) by (unfold cV; rewrite concat_idct_length, LvB; reflexivity).
  assert (Eblocks : firstn 320 blocksU ++ cV ++ skipn 384 blocksU
                    = concat (map (fun b => fst (idct b)) (map fst yb ++ map fst ub ++ map fst vb))).
  { rewrite !map_app, !concat_app, !map_map. fold cY cU cV.
    rewrite (skipn_all2 blocksU) by (rewrite LbU; lia). rewrite app_nil_r.
    unfold blocksU. rewrite FnY, SkY2. rewrite app_assoc.
    replace 320%nat with (length (cY ++ cU)) by (rewrite app_length, LcY, LcU; reflexivity).
    rewrite firstn_app, firstn_all, Nat.sub_diag. cbn [firstn]. rewrite app_nil_r. rewrite <- app_assoc. reflexivity. }
  rewrite Eblocks. rewrite FY, FU, FV. cbn [orb]. reflexivity.
Qed.

Theorem read_residual_data_i16_strong : forall data, Forall byte data -> C15_model.len data < 2 ^ 63 ->
  forall (h : header) (m : mbmode) (v : Vp8) (mb t : MacroBlock) (mbx p : Z) (d : Dec) (s : bstate) (seg : Segment),
  (mb_luma_mode mb =? vp8_B_PRED) = false -> m_i4 m = false -> h_use_skip h && m_skip m = false ->
  tables_ok (h_probas h) -> token_nodes_of (h_probas h) = Ok (v_token_probs v) ->
  0 <= mb_segmentid mb -> nth_error (v_segment v) (Z.to_nat (mb_segmentid mb)) = Some seg ->
  sg_ydc seg = q_y1dc (segment_quant h (m_seg m)) -> sg_yac seg = q_y1ac (segment_quant h (m_seg m)) ->
  sg_y2dc seg = q_y2dc (segment_quant h (m_seg m)) -> sg_y2ac seg = q_y2ac (segment_quant h (m_seg m)) ->
  sg_uvdc seg = q_uvdc (segment_quant h (m_seg m)) -> sg_uvac seg = q_uvac (segment_quant h (m_seg m)) ->
  i16 (sg_ydc seg) -> i16 (sg_yac seg) -> i16 (sg_y2dc seg) -> i16 (sg_y2ac seg) -> i16 (sg_uvdc seg) -> i16 (sg_uvac seg) ->
  coef_bound (sg_ydc seg) (sg_yac seg) <= dct_bound -> coef_bound (sg_y2dc seg) (sg_y2ac seg) <= wht_bound ->
  coef_bound (sg_uvdc seg) (sg_uvac seg) <= dct_bound ->
  sg_uvdc seg <> 0 ->
  0 <= p -> nth_error (v_partitions v) (Z.to_nat p) = Some d -> 0 <= mbx -> nth_error (v_top v) (Z.to_nat mbx) = Some t ->
  length (mb_complexity t) = 9%nat -> length (mb_complexity (v_left v)) = 9%nat -> cx_ok (mb_complexity t) -> cx_ok (mb_complexity (v_left v)) ->
  linked data s d ->
  let '(res, top', left', s') := parse_residuals h m (ctx_of (mb_complexity t)) (ctx_of (mb_complexity (v_left v))) s in
  (exists d', read_residual_data v mb mbx p
     = Ok (concat (map (fun b => fst (Spec.VP8.idct b)) (r_y res ++ r_u res ++ r_v res)), r_nonzero res,
           rst v p mbx t d' (c_dc top' :: c_y top' ++ c_u top' ++ c_v top') (c_dc left' :: c_y left' ++ c_u left' ++ c_v left')) /\
     linked data s' d')
  \/ (read_residual_data v mb mbx p = Err EBitStreamError /\ over_read data s').
Proof.
  intros data Hbytes Hlen h m v mb t mbx p d s seg Hluma Hi4 Hskip Htab Htp Hsid Hseg Ey1 Ey2 Ew1 Ew2 Eu1 Eu2 I1 I2 J1 J2 I3 I4 B1 BW B2 N2
         Hp Hd Hmbx Ht Ltc Llc Ctc Clc Hlink.
  set (tc := mb_complexity t) in *. set (lc := mb_complexity (v_left v)) in *.
  assert (Hpl : 0 <= p < Z.of_nat (length (v_partitions v))) by (pose proof (nth_error_lt_len _ _ _ Hd); lia).
  assert (Hml : 0 <= mbx < Z.of_nat (length (v_top v))) by (pose proof (nth_error_lt_len _ _ _ Ht); lia).
  destruct (plane_facts (h_probas h) v Htab Htp 0 ltac:(lia)) as [HP0 HN0].
  destruct (plane_facts (h_probas h) v Htab Htp 1 ltac:(lia)) as [HP1 HN1].
  destruct (plane_facts (h_probas h) v Htab Htp 2 ltac:(lia)) as [HP2 HN2].
  change (Z.to_nat 0) with 0%nat in *. change (Z.to_nat 1) with 1%nat in *. change (Z.to_nat 2) with 2%nat in *.
  assert (Ht0 : 0 <= nth 0 tc 0 <= 1) by (unfold cx_ok in Ctc; rewrite Forall_forall in Ctc; apply Ctc; apply nth_In; lia).
  assert (Hl0 : 0 <= nth 0 lc 0 <= 1) by (unfold cx_ok in Clc; rewrite Forall_forall in Clc; apply Clc; apply nth_In; lia).
  set (cx := nth 0 tc 0 + nth 0 lc 0).
  (* Spec *)
  unfold parse_residuals. rewrite Hskip, Hi4. cbv iota zeta. cbn [c_y c_u c_v c_dc ctx_of].
  rewrite <- Ey1, <- Ey2, <- Ew1, <- Ew2, <- Eu1, <- Eu2. unfold nthZ. change (Z.to_nat 0) with 0%nat. change (Z.to_nat 1) with 1%nat. change (Z.to_nat 2) with 2%nat.
  fold cx.
  (* Model: the Y2 block *)
  unfold read_residual_data. rewrite Hluma. cbv iota. change (1 =? 1) with true. cbv iota.
  unfold top_complexity, left_complexity. rewrite (idx_of_nth_error _ _ t Hmbx Ht). cbn [bind]. fold tc lc.
  rewrite (idx_ok tc 0 0) by lia. rewrite (idx_ok lc 0 0) by lia. change (Z.to_nat 0) with 0%nat. cbn [bind].
  unfold u8_add_c. fold cx. destruct (Z.leb_spec cx 255) as [_|Hbad]; [|unfold cx in Hbad; lia]. cbn [bind].
  rewrite (idx_of_nth_error _ _ seg Hsid Hseg). cbn [bind]. change (repeat 0 16) with zero16.
  destruct (linked_wsafe data Hlen s d Hlink) as [Hw Hbig].
  rewrite (read_coefficients_model v (h_probas h) p 1 cx (sg_y2dc seg) (sg_y2ac seg) d zero16 eq_refl Htab Htp ltac:(lia) ltac:(unfold cx; lia) J1 J2 Hp Hd Hw Hbig).
  change (Z.to_nat 1) with 1%nat. change (1 =? 0) with false. cbv iota.
  pose proof (spec_get_coeffs _ _ HP1 HN1 (sg_y2dc seg) (sg_y2ac seg) 0 ltac:(lia) cx s ltac:(unfold cx; lia)) as EC.
  pose proof (transfer_run data Hbytes Hlen (G_blk (nth 1 (v_token_probs v) []) (sg_y2dc seg) (sg_y2ac seg) 0 cx zero16) s d Hlink
                (G_blk_probs _ _ HP1 HN1 (sg_y2dc seg) (sg_y2ac seg) 0 ltac:(lia) cx zero16 ltac:(unfold cx; lia))) as T. cbv zeta in T.
  assert (Bw : let r := fst (interpG bdbit (G_blk (nth 1 (v_token_probs v) []) (sg_y2dc seg) (sg_y2ac seg) 0 cx zero16) s) in
               length (snd r) = 16%nat /\ Forall (within (coef_bound (sg_y2dc seg) (sg_y2ac seg))) (snd r)).
  { unfold G_blk. change (Z.to_nat (16 - 0)) with 16%nat.
    apply (G_coeff_bound bdbit _ _ (sg_y2dc seg) (sg_y2ac seg) HP1 HN1 16 0 cx false false zero16 s ltac:(lia) ltac:(lia) ltac:(unfold cx; lia) eq_refl).
    repeat constructor; unfold within, coef_bound; lia. }
  cbv zeta in Bw.
  destruct (get_coeffs (nth 1 (h_probas h) []) cx (sg_y2dc seg) (sg_y2ac seg) 0 s) as [[[b nz] okc] s1].
  destruct (interpG bdbit (G_blk (nth 1 (v_token_probs v) []) (sg_y2dc seg) (sg_y2ac seg) 0 cx zero16) s) as [hbS s1'].
  destruct (interpG cold_pure (G_blk (nth 1 (v_token_probs v) []) (sg_y2dc seg) (sg_y2ac seg) 0 cx zero16) d) as [hbM d1].
  cbn [fst snd] in EC, T, Bw. destruct EC as (Es1 & Eb & Eh & Hnz). subst s1' b. destruct Bw as [Lblk Fblk].
  destruct (iwht (snd hbS)) as [w' ok2] eqn:Ew.
  destruct T as (W1 & C1 & [(Eeof & L1 & Ev) | (Eeof & Ov)]); rewrite Eeof;
    [|kill_spec_m; right; cbn [bind]; split; [reflexivity | eapply over_read_le; [|exact Ov]; unfold le_st in *; lia]].
  subst hbM. cbn [bind].
  rewrite (rst_parts_only v p mbx t d d1 Hd Ht). fold tc lc.
  rewrite rst_set_left_cx by lia. cbn [bind]. rewrite rst_set_top_cx by lia. cbn [bind].
  set (x := ArithDec.b2z (fst hbS)). assert (Hx : 0 <= x <= 1) by apply b2z_01.
  assert (Fw : Forall (within wht_bound) (snd hbS)) by (eapply Forall_impl; [|exact Fblk]; intros a Ha; unfold within in *; lia).
  rewrite (iwht_block_ok (snd hbS) Lblk Fw). cbn [bind].
  assert (Ew' : w' = app16 iwht4x4 [] (snd hbS)) by (rewrite (iwht_spec _ Lblk), Ew; reflexivity). subst w'.
  assert (HB0 : 0 <= coef_bound (sg_y2dc seg) (sg_y2ac seg)) by (unfold coef_bound; lia).
  destruct (iwht_bound _ (snd hbS) HB0 Lblk Fblk) as [Fws Lws].
  set (w := app16 iwht4x4 [] (snd hbS)) in *.
  destruct (scatter_ok w Lws) as (Sc1 & Sc2 & Sc3 & Sc4). rewrite Sc1. cbn [bind].
  rewrite rst_seg, (idx_of_nth_error _ _ seg Hsid Hseg). cbn [bind].
  set (tcx := updZ tc 0 x). set (lcx := updZ lc 0 x).
  assert (Ltcx : length tcx = 9%nat) by (unfold tcx; rewrite updZ_length; exact Ltc).
  assert (Llcx : length lcx = 9%nat) by (unfold lcx; rewrite updZ_length; exact Llc).
  assert (Ctcx : cx_ok tcx) by (apply cx_ok_upd0; assumption).
  assert (Clcx : cx_ok lcx) by (apply cx_ok_upd0; assumption).
  set (blocks1 := concat (map dcblk w) ++ repeat 0 128) in *.
  assert (Lb1 : length blocks1 = 384%nat).
  { unfold blocks1. rewrite app_length, repeat_length. clear - Lws. do 16 (destruct w as [|? w]; [discriminate|]). destruct w; [|discriminate]. reflexivity. }
  destruct (linked_wsafe data Hlen s1 d1 L1) as [Hw1 Hbig1].
  assert (Fwd : Forall (within dct_bound) w) by (eapply Forall_impl; [|exact Fws]; intros a Ha; unfold within, wht_bound, dct_bound in *; lia).
  pose proof (residual_rows_ok (h_probas h) v Htab Htp p mbx 0 (sg_ydc seg) (sg_yac seg) dct_bound t ltac:(lia) I1 I2 ltac:(lia) Hpl Hml
                4 0 4 0 1 d1 tcx lcx blocks1 false Hw1 Hbig1 Eeof ltac:(lia) ltac:(lia) Ctcx Clcx ltac:(rewrite Lb1; cbn; lia)) as EM.
  rewrite Sc2 in EM.
  specialize (EM ltac:(unfold chunk4; repeat constructor; apply dcblk_bounded; try (unfold dct_bound; lia); try apply Forall_firstn; try apply Forall_skipn; exact Fwd)).
  change (Z.of_nat 0) with 0 in EM. change (Z.of_nat 4) with 4 in EM. change (Z.of_nat 1) with 1 in EM. change (0 =? 0) with true in EM. cbv iota in EM.
  change (Z.to_nat 0) with 0%nat in EM. cbn [Nat.add Nat.mul] in EM.
  unfold tcx at 2 in EM. unfold lcx at 2 in EM. rewrite !upd0_skipn in EM by lia. 
  rewrite EM. clear EM.
  (* stage Y: transfer, then the Spec's rows with the DC values put in afterwards *)
  set (tops := firstn 4 (skipn 1 tc)) in *. set (lefts := firstn 4 (skipn 1 lc)) in *.
  assert (Ltops : length tops = 4%nat) by (unfold tops; rewrite firstn_length, skipn_length; lia).
  assert (Llefts : length lefts = 4%nat) by (unfold lefts; rewrite firstn_length, skipn_length; lia).
  assert (Cty : cx_ok tops) by (apply cx_ok_firstn, cx_ok_skipn; exact Ctc).
  assert (Cly : cx_ok lefts) by (apply cx_ok_firstn, cx_ok_skipn; exact Clc).
  pose proof (transfer_run data Hbytes Hlen (G_rows (nth 0 (v_token_probs v) []) (sg_ydc seg) (sg_yac seg) 1 tops lefts (map (map dcblk) (chunk4 w))) s1 d1 L1
                (G_rows_probs_any _ _ HP0 HN0 (sg_ydc seg) (sg_yac seg) 1 lefts (or_intror eq_refl) tops _)) as T2. cbv zeta in T2.
  pose proof (G_rows_dc bdbit _ _ (sg_ydc seg) (sg_yac seg) lefts HP0 HN0 tops (chunk4 w) s1 Cty Cly ltac:(rewrite Llefts; reflexivity)
                ltac:(rewrite Ltops; exact Sc4)) as EDC.
  rewrite Sc3 in EDC. rewrite EDC in T2. clear EDC.
  pose proof (spec_blocks_rows _ _ HP0 HN0 (sg_ydc seg) (sg_yac seg) 1 (or_intror eq_refl) lefts tops s1 [] [] true Cty Cly) as ES.
  pose proof (G_rows_inv _ _ HP0 HN0 (sg_ydc seg) (sg_yac seg) 1 (or_intror eq_refl) bdbit dct_bound lefts tops s1 Cty Cly ltac:(unfold dct_bound; lia) B1) as Inv.
  cbv zeta in Inv.
  rewrite (blocks_rows_true _ _ _ _ _ _ s1 (okc && ok2)).
  destruct (blocks_rows (nth 0 (h_probas h) []) (sg_ydc seg) (sg_yac seg) 1 tops lefts s1 [] [] true) as [[[[yb ty] ly] ok1] s2].
  destruct (interpG bdbit (G_rows (nth 0 (v_token_probs v) []) (sg_ydc seg) (sg_yac seg) 1 tops lefts (repeat (repeat zero16 (length tops)) (length lefts))) s1) as [rS s2'].
  destruct (interpG cold_pure (G_rows (nth 0 (v_token_probs v) []) (sg_ydc seg) (sg_yac seg) 1 tops lefts (map (map dcblk) (chunk4 w))) d1) as [rM d2].
  cbn [fst snd rev_append app] in ES, Inv, T2. destruct ES as (Es & Et & El & bs & Ebl & Frel). subst s2' ty ly yb.
  destruct Inv as (LyB & Lty & Lly & Cty' & Cly' & Hbnd & Hunr). rewrite Ltops, Llefts in LyB. rewrite Ltops in Lty. rewrite Llefts in Lly. cbn [Nat.mul Nat.add] in LyB.
  destruct T2 as (W2 & C2 & [(Eeof2 & L2 & Ev2) | (Eeof2 & Ov2)]); rewrite Eeof2;
    [|kill_spec_m; right; cbn [bind]; split; [reflexivity | eapply over_read_le; [|exact Ov2]; unfold le_st in *; lia]].
  subst rM. cbn [fst snd bind].
  destruct (set_dcs_rel (fst (fst rS)) bs w dct_bound Frel ltac:(rewrite LyB; exact Lws) Hunr Hbnd Fwd ltac:(lia)) as [Hb1 Hb2].
  rewrite Hb1, Hb2. clear Hb1 Hb2.
  pose proof (Forall2_len _ _ _ Frel) as Lbs. rewrite LyB in Lbs.
  set (ty := snd (fst rS)) in *. set (ly := snd rS) in *.
  set (ybd := set_dcs bs w) in *.
  assert (Lybd : length ybd = 16%nat) by (unfold ybd; rewrite set_dcs_length; symmetry; exact Lbs).
  (* stage U *)
  set (tc1 := firstn 1 tcx ++ ty ++ skipn 5 tcx) in *. set (lc1 := firstn 1 lcx ++ ly ++ skipn 5 lcx) in *.
  set (cY := concat (map (fun b0 : list Z => fst (idct b0)) (map fst ybd))) in *.
  assert (LcY : length cY = 256%nat) by (unfold cY; rewrite concat_idct_length', map_length, Lybd; reflexivity).
  set (blocksY := firstn 0 blocks1 ++ cY ++ skipn 256 blocks1).
  assert (Sk1 : skipn 256 blocks1 = repeat 0 128).
  { unfold blocks1. replace 256%nat with (length (concat (map dcblk w))) by (rewrite dcblks_length, Lws; reflexivity).
    rewrite skipn_app, skipn_all, Nat.sub_diag. reflexivity. }
  assert (Ltc1 : length tc1 = 9%nat) by (unfold tc1; rewrite !app_length, firstn_length, skipn_length; lia).
  assert (Llc1 : length lc1 = 9%nat) by (unfold lc1; rewrite !app_length, firstn_length, skipn_length; lia).
  assert (Ctc1 : cx_ok tc1) by (unfold tc1; apply cx_ok_splice; [apply cx_ok_firstn | | apply cx_ok_skipn]; assumption).
  assert (Clc1 : cx_ok lc1) by (unfold lc1; apply cx_ok_splice; [apply cx_ok_firstn | | apply cx_ok_skipn]; assumption).
  assert (EbY : blocksY = cY ++ repeat 0 128) by (unfold blocksY; rewrite Sk1; reflexivity).
  assert (LbY : length blocksY = 384%nat) by (rewrite EbY, app_length, repeat_length, LcY; reflexivity).
  assert (SkY : skipn 256 blocksY = repeat 0 128).
  { rewrite EbY. rewrite <- LcY at 1. rewrite skipn_app, skipn_all, Nat.sub_diag. reflexivity. }
  pose proof (residual_rows_refines data Hbytes Hlen (h_probas h) v p mbx 2 (sg_uvdc seg) (sg_uvac seg) t 0 2 16 5 2 d2 tc1 lc1 blocksY
                (false || existsb block_nonzero ybd) s2 Htab Htp ltac:(lia) I3 I4 B2 Hpl Hml ltac:(lia) ltac:(lia) Ctc1 Clc1 ltac:(rewrite LbY; cbn; lia)) as SU.
  cbn [Nat.add Nat.mul] in SU. specialize (SU ltac:(rewrite SkY; vm_compute; reflexivity) L2). cbv zeta in SU.
  change (Z.of_nat 0) with 0 in SU. change (Z.of_nat 2) with 2 in SU. change (Z.of_nat 16) with 16 in SU. change (Z.of_nat 5) with 5 in SU.
  change (2 =? 0) with false in SU. cbv iota in SU. unfold nthZ in SU. change (Z.to_nat 2) with 2%nat in SU.
  unfold tc1 at 1 in SU. unfold lc1 at 1 in SU. rewrite (nine_ctx_u tcx ty Ltcx Lty), (nine_ctx_u lcx ly Llcx Lly) in SU.
  unfold tcx at 1 in SU. unfold lcx at 1 in SU. rewrite !upd0_skipn in SU by lia.
  assert (Ctu : cx_ok (firstn 2 (skipn 5 tc))) by (apply cx_ok_firstn, cx_ok_skipn; exact Ctc).
  assert (Clu : cx_ok (firstn 2 (skipn 5 lc))) by (apply cx_ok_firstn, cx_ok_skipn; exact Clc).
  pose proof (blocks_rows_shape _ _ (sg_uvdc seg) (sg_uvac seg) 0 (firstn 2 (skipn 5 tc)) (firstn 2 (skipn 5 lc)) s2 HP2 HN2 ltac:(lia) Ctu Clu) as ShU.
  pose proof (residual_flag_is_block_nonzero (nth 2 (h_probas h) []) (sg_uvdc seg) (sg_uvac seg) 0 (firstn 2 (skipn 5 tc)) (firstn 2 (skipn 5 lc)) s2
                ltac:(right; split; [reflexivity | exact N2])) as FU.
  rewrite (blocks_rows_true _ _ _ _ _ _ s2 _).
  destruct (blocks_rows (nth 2 (h_probas h) []) (sg_uvdc seg) (sg_uvac seg) 0 (firstn 2 (skipn 5 tc)) (firstn 2 (skipn 5 lc)) s2 [] [] true)
    as [[[[ub tu] lu] ok2t] s3].
  rewrite !firstn_length, !skipn_length, Ltc, Llc in ShU. cbn [Nat.sub Nat.min Nat.mul Nat.add] in ShU. destruct ShU as (LuB & Ltu & Llu & Ctu' & Clu').
  destruct SU as [[d3 [EU LU]] | [EU OU]]; [|kill_spec_m; right; rewrite EU; cbn [bind]; split; [reflexivity | eapply over_read_le; [|exact OU]; unfold le_st in *; lia]].
  rewrite EU. cbn [bind]. clear EU.
  (* stage V *)
  set (tc2 := firstn 5 tc1 ++ tu ++ skipn 7 tc1) in *. set (lc2 := firstn 5 lc1 ++ lu ++ skipn 7 lc1) in *.
  set (cU := concat (map (fun b0 : list Z * Z => fst (idct (fst b0))) ub)) in *.
  assert (LcU : length cU = 64%nat) by (unfold cU; rewrite concat_idct_length, LuB; reflexivity).
  set (blocksU := firstn 256 blocksY ++ cU ++ skipn 320 blocksY) in *.
  assert (Ltc2 : length tc2 = 9%nat) by (unfold tc2; rewrite !app_length, firstn_length, skipn_length; lia).
  assert (Llc2 : length lc2 = 9%nat) by (unfold lc2; rewrite !app_length, firstn_length, skipn_length; lia).
  assert (Ctc2 : cx_ok tc2) by (unfold tc2; apply cx_ok_splice; [apply cx_ok_firstn | | apply cx_ok_skipn]; assumption).
  assert (Clc2 : cx_ok lc2) by (unfold lc2; apply cx_ok_splice; [apply cx_ok_firstn | | apply cx_ok_skipn]; assumption).
  assert (FnY : firstn 256 blocksY = cY).
  { rewrite EbY. rewrite <- LcY. rewrite firstn_app, firstn_all, Nat.sub_diag. change (firstn 0 (repeat 0 128)) with (@nil Z). apply app_nil_r. }
  assert (SkY2 : skipn 320 blocksY = repeat 0 64).
  { replace 320%nat with (256 + 64)%nat by reflexivity. rewrite <- skipn_skipn'. rewrite SkY. reflexivity. }
  assert (LbU : length blocksU = 384%nat) by (unfold blocksU; rewrite FnY, SkY2, !app_length, LcY, LcU, repeat_length; reflexivity).
  assert (SkU : skipn 320 blocksU = repeat 0 64).
  { unfold blocksU. rewrite FnY, SkY2. rewrite app_assoc. replace 320%nat with (length (cY ++ cU)) by (rewrite app_length, LcY, LcU; reflexivity).
    rewrite skipn_app, skipn_all, Nat.sub_diag. reflexivity. }
  pose proof (residual_rows_refines data Hbytes Hlen (h_probas h) v p mbx 2 (sg_uvdc seg) (sg_uvac seg) t 0 2 20 7 2 d3 tc2 lc2 blocksU
                (false || existsb block_nonzero ybd || existsb (spec_flag 0) ub) s3 Htab Htp ltac:(lia) I3 I4 B2 Hpl Hml ltac:(lia) ltac:(lia) Ctc2 Clc2
                ltac:(rewrite LbU; cbn; lia)) as SV.
  cbn [Nat.add Nat.mul] in SV. specialize (SV ltac:(rewrite SkU; vm_compute; reflexivity) LU). cbv zeta in SV.
  change (Z.of_nat 0) with 0 in SV. change (Z.of_nat 2) with 2 in SV. change (Z.of_nat 20) with 20 in SV. change (Z.of_nat 7) with 7 in SV.
  change (2 =? 0) with false in SV. cbv iota in SV. unfold nthZ in SV. change (Z.to_nat 2) with 2%nat in SV.
  unfold tc2 at 1 in SV. unfold lc2 at 1 in SV. unfold tc1 at 1 2 in SV. unfold lc1 at 1 2 in SV.
  rewrite (nine_ctx_v tcx ty tu Ltcx Lty Ltu), (nine_ctx_v lcx ly lu Llcx Lly Llu) in SV.
  unfold tcx at 1 in SV. unfold lcx at 1 in SV. rewrite !upd0_skipn in SV by lia.
  assert (Ctv : cx_ok (firstn 2 (skipn 7 tc))) by (apply cx_ok_firstn, cx_ok_skipn; exact Ctc).
  assert (Clv : cx_ok (firstn 2 (skipn 7 lc))) by (apply cx_ok_firstn, cx_ok_skipn; exact Clc).
  pose proof (blocks_rows_shape _ _ (sg_uvdc seg) (sg_uvac seg) 0 (firstn 2 (skipn 7 tc)) (firstn 2 (skipn 7 lc)) s3 HP2 HN2 ltac:(lia) Ctv Clv) as ShV.
  pose proof (residual_flag_is_block_nonzero (nth 2 (h_probas h) []) (sg_uvdc seg) (sg_uvac seg) 0 (firstn 2 (skipn 7 tc)) (firstn 2 (skipn 7 lc)) s3
                ltac:(right; split; [reflexivity | exact N2])) as FV.
  rewrite (blocks_rows_true _ _ _ _ _ _ s3 _).
  destruct (blocks_rows (nth 2 (h_probas h) []) (sg_uvdc seg) (sg_uvac seg) 0 (firstn 2 (skipn 7 tc)) (firstn 2 (skipn 7 lc)) s3 [] [] true)
    as [[[[vb tv] lv] ok3t] s4].
  rewrite !firstn_length, !skipn_length, Ltc, Llc in ShV. cbn [Nat.sub Nat.min Nat.mul Nat.add] in ShV. destruct ShV as (LvB & Ltv & Llv & Ctv' & Clv').
  destruct SV as [[d4 [EV LV]] | [EV OV]]; [|right; rewrite EV; cbn [bind]; split; [reflexivity | eapply over_read_le; [|exact OV]; unfold le_st in *; lia]].
  rewrite EV. cbn [bind]. clear EV.
  left. exists d4. split; [|exact LV]. cbn [r_y r_u r_v r_nonzero c_y c_u c_v c_dc].
  (* contexts *)
  unfold tc2, lc2, tc1, lc1. rewrite (nine_split tcx (nth 0 tcx 0) ty tu tv Ltcx Lty Ltu Ltv), (nine_split lcx (nth 0 lcx 0) ly lu lv Llcx Lly Llu Llv).
  destruct (upd0_head tc x ltac:(lia)) as [_ Ex1]. destruct (upd0_head lc x ltac:(lia)) as [_ Ex2]. fold tcx in Ex1. fold lcx in Ex2. rewrite Ex1, Ex2.
  assert (Exx : x = VP8.b2z (0 <? nz)) by (unfold x; rewrite Eh; reflexivity). rewrite <- Exx.
  (* blocks *)
  set (cV := concat (map (fun b0 : list Z * Z => fst (idct (fst b0))) vb)).
  assert (LcV : length cV = 64%nat) by (unfold cV; rewrite concat_idct_length, LvB; reflexivity).
  assert (Eblocks : firstn 320 blocksU ++ cV ++ skipn 384 blocksU
                    = concat (map (fun b => fst (idct b)) (map fst ybd ++ map fst ub ++ map fst vb))).
  { rewrite !map_app, !concat_app. rewrite (map_map fst _ ub), (map_map fst _ vb). fold cY cU cV.
    rewrite (skipn_all2 blocksU) by (rewrite LbU; lia). rewrite app_nil_r.
    unfold blocksU. rewrite FnY, SkY2. rewrite app_assoc.
    replace 320%nat with (length (cY ++ cU)) by (rewrite app_length, LcY, LcU; reflexivity).
    rewrite firstn_app, firstn_all, Nat.sub_diag. cbn [firstn]. rewrite app_nil_r. rewrite <- app_assoc. reflexivity. }
  rewrite Eblocks. rewrite FU, FV. cbn [orb]. reflexivity.
Qed.
