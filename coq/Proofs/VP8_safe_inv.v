(* C03 for the VP8 key-frame decoder, part 1: the state invariant of the parsing half.
     part_live d     a boolean-decoder state from which every request is safe (C15_model.wsafe: range 128..255, bit_count -8..31,
                     chunk index within the buffer, three final bytes, final_bytes_remaining in -1..3 or the EOF sentinel; `big`:
                     the chunk counter cannot overflow a usize) and that is not past its end of file (`check` succeeds);
     seg_q_ok s      the six dequantisation factors of a segment are i16 values small enough for the inverse transforms: 4162 (the
                     proved bound on the magnitude ANY token sequence can carry -- VP8_parse_residual.mag_bound; the exact maximum
                     is DCT_CAT6: base 67 + 11 extra bits = 2114) times the factor stays within 2^29 for the inverse DCT and
                     within 2^27 - 1 for the inverse WHT (whose outputs, at most 2 * that + 1, are again within 2^29).  Every
                     factor a header can produce qualifies (at most 157 * 2 = 314 and 284 * 155 / 100 = 440, so a coefficient is
                     at most 4162 * 440 = 1 831 280 in absolute value), and so does the all-zero default segment;
     blocks_ok       the [i32; 384] handed to the prediction is the inverse DCT of 24 coefficient blocks bounded by 2^29 -- which
                     bounds every residual far below i32::MAX - 255 (VP8_decode_refwf.idct_res_ok);
     vp8_inv v       the invariant of the macroblock loop of decode_frame_: key frame; segment tree / skip probability / token
                     probability tables as a header can set them; first-partition reader safe; `num_partitions` in {1,2,4,8} and
                     the partitions below it live; four segments with small factors; top has mbwidth entries, each (and left)
                     with 16 valid sub-block modes and nine 0/1 complexity entries. *)
From Coq Require Import ZArith Lia List Bool.
From WebP Require Import Lib.Res Gen.Kernels Gen.Tables Lib.ZBits Proofs.C15_model Proofs.C15_main Model.ArithDec
  Model.Vp8Parse Proofs.VP8_arraykernels_aux Proofs.VP8_parse_base Proofs.VP8_parse_coeffs Proofs.VP8_parse_mbheader
  Proofs.VP8_parse_header Proofs.VP8_parse_residual Proofs.VP8_frame_loop Proofs.VP8_decode_shape.
From WebP Require Spec.VP8.
Import ListNotations.
Open Scope Z_scope.

Definition part_live (d : Dec) : Prop := wsafe d /\ big d /\ is_past_eof d = false.

Definition seg_q_ok (s : Segment) : Prop :=
  i16 (sg_ydc s) /\ i16 (sg_yac s) /\ i16 (sg_y2dc s) /\ i16 (sg_y2ac s) /\ i16 (sg_uvdc s) /\ i16 (sg_uvac s) /\
  coef_bound (sg_ydc s) (sg_yac s) <= dct_bound /\ coef_bound (sg_y2dc s) (sg_y2ac s) <= wht_bound /\
  coef_bound (sg_uvdc s) (sg_uvac s) <= dct_bound.

Definition idct_of (bs : list (list Z)) : list Z := concat (map (fun b => fst (Spec.VP8.idct b)) bs).

Definition blocks_ok (blocks : list Z) : Prop :=
  exists bs, length bs = 24%nat /\ bounded_blocks dct_bound bs /\ blocks = idct_of bs.

Definition mbout_ok (r : MacroBlock * list Z) : Prop :=
  rec_shape (fst r) /\ 0 <= mb_segmentid (fst r) <= 3 /\ blocks_ok (snd r).

Record vp8_inv (v : Vp8) : Prop := mkInv {
  inv_key : fi_keyframe (v_frame v) = true;
  inv_seg : v_segments_enabled v && v_segments_update_map v = true -> seg_nodes_ok v;
  inv_skip : forall p, v_prob_skip_false v = Some p -> 0 <= p <= 255;
  inv_b : wsafe (v_b v) /\ big (v_b v);
  inv_tp : exists P, tables_ok P /\ token_nodes_of P = Ok (v_token_probs v);
  inv_segs : length (v_segment v) = 4%nat /\ Forall seg_q_ok (v_segment v);
  inv_np : v_num_partitions v = 1 \/ v_num_partitions v = 2 \/ v_num_partitions v = 4 \/ v_num_partitions v = 8;
  inv_parts : forall i, 0 <= i < v_num_partitions v ->
              exists d, nth_error (v_partitions v) (Z.to_nat i) = Some d /\ part_live d;
  inv_top : Z.of_nat (length (v_top v)) = v_mbwidth v /\ Forall top_ok (v_top v);
  inv_left : top_ok (v_left v) }.

(* ---- small facts ---- *)
Lemma Forall_upd {A} (Q : A -> Prop) (l : list A) : forall n x, Forall Q l -> Q x -> Forall Q (VP8.upd l n x).
Proof.
  induction l as [|y l IH]; intros n x F Hx; [destruct n; constructor|].
  inversion F; subst. destruct n; cbn [VP8.upd]; constructor; auto.
Qed.

Lemma seg_default_q_ok : seg_q_ok Segment_default.
Proof. unfold seg_q_ok, Segment_default, i16, coef_bound, dct_bound, wht_bound. cbn. lia. Qed.

Lemma default_top_ok : top_ok MacroBlock_default.
Proof.
  unfold top_ok, MacroBlock_default. cbn [mb_bpred mb_complexity]. split; [reflexivity|]. split; [apply zeros_modes_ok|].
  split; [reflexivity|]. unfold cx_ok. apply Forall_forall. intros z Hz. apply repeat_spec in Hz. lia.
Qed.

Lemma part_live_facts d : part_live d -> wsafe d /\ big d.
Proof. intros (A & B & _). split; assumption. Qed.
