(* Proofs/VP8_predict_eval.v -- a workspace of known length as an explicit list of its cells, so that a Model function
   can be run by computation with the cell contents as opaque terms. *)
From Coq Require Import ZArith List Bool Lia.
From WebP Require Import Lib.Res Model.Vp8Predict Proofs.VP8_predict_base.
Import ListNotations.
Open Scope Z_scope.

Lemma list_as_cells (a : list Z) (g : Z -> Z) n :
  g = get a -> len a = Z.of_nat n -> a = map (fun k => g (Z.of_nat k)) (seq 0 n).
Proof.
  intros -> Hl. unfold len in Hl. apply (nth_ext _ _ 0 (get a (Z.of_nat 0))).
  - rewrite map_length, seq_length. lia.
  - intros k Hk. rewrite (map_nth (fun k => get a (Z.of_nat k))), seq_nth by lia.
    unfold get. rewrite Nat2Z.id. reflexivity.
Qed.

Lemma get_cells (f : nat -> Z) n j : 0 <= j < Z.of_nat n -> get (map f (seq 0 n)) j = f (Z.to_nat j).
Proof.
  intros H. unfold get. rewrite (nth_indep _ 0 (f 0%nat)) by (rewrite map_length, seq_length; lia).
  rewrite (map_nth f), seq_nth by lia. reflexivity.
Qed.

Lemma len_cells (f : nat -> Z) n : len (map f (seq 0 n)) = Z.of_nat n.
Proof. unfold len. rewrite map_length, seq_length. reflexivity. Qed.

(* cell (y, x) of a workspace with [w] columns *)
Lemma cell_div y x w : 0 <= x < w -> 0 <= y -> (y * w + x) / w = y /\ (y * w + x) mod w = x.
Proof.
  intros Hx Hy. split.
  - rewrite Z.add_comm, Z.div_add by lia. rewrite Z.div_small by lia. lia.
  - rewrite Z.add_comm, Z.mod_add by lia. apply Z.mod_small. lia.
Qed.

(* a workspace of h rows x w columns given cell by cell *)
Definition cells (h w : nat) (f : Z -> Z -> Z) : list Z :=
  map (fun k => f (Z.of_nat k / Z.of_nat w) (Z.of_nat k mod Z.of_nat w)) (seq 0 (h * w)).

Lemma len_cells2 h w f : len (cells h w f) = Z.of_nat (h * w).
Proof. apply len_cells. Qed.

Lemma get_cells2 h w f y x :
  0 <= y < Z.of_nat h -> 0 <= x < Z.of_nat w -> get (cells h w f) (y * Z.of_nat w + x) = f y x.
Proof.
  intros Hy Hx. unfold cells.
  assert (Hb : 0 <= y * Z.of_nat w + x < Z.of_nat (h * w)) by nia.
  rewrite get_cells by exact Hb. rewrite Z2Nat.id by lia.
  destruct (cell_div y x (Z.of_nat w)) as (-> & ->); try lia.
Qed.

(* run the model on the explicit list of cells; the cell contents stay opaque *)
Ltac eval_cells a Hl n :=
  let g := fresh "g" in let Eg := fresh "Eg" in
  remember (get a) as g eqn:Eg;
  rewrite (list_as_cells a g n Eg Hl); clear Eg Hl; clear a;
  vm_compute; reflexivity.
