(* VP8 parsing, part 0: the bridge between the three boolean decoders.
     Spec.BoolDec   (bstate)  -- the reader Spec.VP8 is written on
     Spec.RfcBoolDec (st)     -- the reader property C15 is stated on
     Model.ArithDec (Dec)     -- the mirror of vp8_arithmetic_decoder.rs
   A parsing function is an adaptive sequence of bit requests returning a value: a `gprog A` (C15_ops.prog with any
   result type).  The three readers interpret the same gprog; C15's single-bit results (spec_read_bool, sim_bit) lift by
   one induction (`transfer`): from linked states, either the results are equal and the states stay linked, or the
   reference run has read beyond the data (more than len + 1 bytes needed) and the Rust decoder is past its end of file
   (every `check` then returns BitStreamError).
   `linked data b d`: the Spec.BoolDec state b and the ArithDec decoder d are at the same position of the same partition
   `data` -- the refinement relation of Proofs/C15_main (`live`: same ideal state, nothing beyond len + 1 bytes needed so
   far), composed with the field-by-field equality of Spec.BoolDec and Spec.RfcBoolDec states. *)
From Coq Require Import ZArith Lia List Bool.
From WebP Require Import Lib.Res Gen.Kernels Gen.Tables Lib.ZBits Proofs.C15_num Proofs.C15_ideal Proofs.C15_model
  Proofs.C15_ops Proofs.C15_reqs Proofs.C15_main Spec.RfcBoolDec Spec.BoolDec Model.ArithDec.
Import ListNotations.
Open Scope Z_scope.

(* ---- adaptive programs with a result of any type ---- *)
Inductive gprog (A : Type) := GRet (a : A) | GRead (p : Z) (k : bool -> gprog A).
Arguments GRet {A} a. Arguments GRead {A} p k.

Fixpoint interpG {A St : Type} (bit : St -> Z -> bool * St) (g : gprog A) (s : St) : A * St :=
  match g with
  | GRet a => (a, s)
  | GRead p k => let '(b, s1) := bit s p in interpG bit (k b) s1
  end.

Fixpoint gbind {A B} (g : gprog A) (f : A -> gprog B) : gprog B :=
  match g with GRet a => f a | GRead p k => GRead p (fun b => gbind (k b) f) end.

Fixpoint gprobs_ok {A} (g : gprog A) : Prop :=
  match g with GRet _ => True | GRead p k => 0 <= p <= 255 /\ gprobs_ok (k true) /\ gprobs_ok (k false) end.

Fixpoint lift (pg : prog) : gprog Z :=
  match pg with Done v => GRet v | Read p k => GRead p (fun b => lift (k b)) end.

Lemma interpG_bind {A B St} (bit : St -> Z -> bool * St) (g : gprog A) (f : A -> gprog B) s :
  interpG bit (gbind g f) s = let '(a, s1) := interpG bit g s in interpG bit (f a) s1.
Proof.
  revert s. induction g as [a | p k IH]; intros s; cbn [gbind interpG]; [reflexivity|].
  destruct (bit s p) as [b s1]. apply IH.
Qed.

Lemma interpG_lift {St} (bit : St -> Z -> bool * St) pg s : interpG bit (lift pg) s = interpP bit pg s.
Proof.
  revert s. induction pg as [v | p k IH]; intros s; cbn [lift interpG interpP]; [reflexivity|].
  destruct (bit s p) as [b s1]. apply IH.
Qed.

Lemma gprobs_bind {A B} (g : gprog A) (f : A -> gprog B) : gprobs_ok g -> (forall a, gprobs_ok (f a)) -> gprobs_ok (gbind g f).
Proof.
  induction g as [a | p k IH]; intros Hg Hf; cbn [gbind gprobs_ok] in *; [apply Hf|].
  destruct Hg as (Hp & Ht & Hff). repeat split; try lia; apply IH; assumption.
Qed.

Lemma gprobs_lift pg : probs_ok pg -> gprobs_ok (lift pg).
Proof.
  induction pg as [v | p k IH]; intros H; cbn [lift gprobs_ok probs_ok] in *; [exact I|].
  destruct H as (Hp & Ht & Hf). repeat split; try lia; apply IH; assumption.
Qed.

(* ---- the three bit readers ---- *)
Definition rfcbit (s : st) (p : Z) : bool * st := RfcBoolDec.read_bool s p.
Definition bdbit (s : bstate) (p : Z) : bool * bstate := let '(v, s') := BoolDec.read_bool p s in (v =? 1, s').

Lemma pair_if_bit (c : bool) (x y : bstate) :
  (if c then (1, x) else (0, y)) =
  (ArithDec.b2z (fst (let '(v, s') := if c then (1, x) else (0, y) in (v =? 1, s'))),
   snd (let '(v, s') := if c then (1, x) else (0, y) in (v =? 1, s'))).
Proof. destruct c; reflexivity. Qed.

Lemma bd_read_bool_bit p s : BoolDec.read_bool p s = (ArithDec.b2z (fst (bdbit s p)), snd (bdbit s p)).
Proof. unfold bdbit, BoolDec.read_bool. apply pair_if_bit. Qed.

Lemma interpS_rfcbit pg s : interpS pg s = interpP rfcbit pg s.
Proof.
  revert s. induction pg as [v | p k IH]; intros s; cbn [interpS interpP]; [reflexivity|].
  unfold rfcbit at 1. destruct (RfcBoolDec.read_bool s p) as [b s1]. apply IH.
Qed.

(* ---- Spec.BoolDec's composite readers are interpreters of the C15 progs ---- *)
Lemma bd_flag s : BoolDec.read_flag s = (ArithDec.b2z (fst (bdbit s 128)), snd (bdbit s 128)).
Proof. apply bd_read_bool_bit. Qed.

Lemma bd_lit n : forall v s, Z.of_nat n <= 8 -> 0 <= v < 2 ^ (8 - Z.of_nat n) ->
  BoolDec.read_literal_aux n v s = interpP bdbit (lit_prog n v) s.
Proof.
  induction n as [|n IH]; intros v s Hn Hv; cbn [BoolDec.read_literal_aux lit_prog interpP]; [reflexivity|].
  rewrite bd_read_bool_bit. destruct (bdbit s 128) as [b s1]. cbn [fst snd].
  assert (E2 : 2 ^ (8 - Z.of_nat n) = 2 ^ (8 - Z.of_nat (S n)) * 2 ^ 1) by (rewrite <- pow2_add by lia; f_equal; lia).
  pose proof (pow2_le (8 - Z.of_nat n) 8 ltac:(lia)) as H8. change (2 ^ 8) with 256 in H8. change (2 ^ 1) with 2 in *.
  rewrite Z.mod_small by lia.
  replace (2 * v + ArithDec.b2z b) with (v * 2 + ArithDec.b2z b) by lia.
  apply IH; [lia|]. unfold ArithDec.b2z. destruct b; lia.
Qed.

Lemma bd_literal n s : 0 <= n <= 8 -> BoolDec.read_literal n s = interpP bdbit (lit_prog (Z.to_nat n) 0) s.
Proof.
  intros Hn. unfold BoolDec.read_literal. apply bd_lit; rewrite Z2Nat.id by lia; [lia|]. split; [lia | apply pow2_pos; lia].
Qed.

Lemma bd_opt_signed n s : 0 <= n <= 8 -> BoolDec.read_opt_signed n s = interpP bdbit (signed_prog (Z.to_nat n)) s.
Proof.
  intros Hn. unfold BoolDec.read_opt_signed, signed_prog. cbn [interpP]. rewrite bd_flag.
  destruct (bdbit s 128) as [flag s1]. cbn [fst snd]. destruct flag; cbn [ArithDec.b2z Z.eqb Pos.eqb]; [|reflexivity].
  unfold BoolDec.read_signed. rewrite bd_literal by exact Hn. rewrite interpP_bind.
  destruct (interpP bdbit (lit_prog (Z.to_nat n) 0) s1) as [mag s2]. cbn [interpP]. rewrite bd_flag.
  destruct (bdbit s2 128) as [sign s3]. cbn [fst snd]. destruct sign; reflexivity.
Qed.

(* treed_read on an RFC tree array = the walk over the crate's node table (cf. C15_reqs.spec_tree) *)
Lemma bd_tree t p nodes : tree_okb t p = true -> length nodes = length p ->
  (forall j, (j < length p)%nat -> nth_error nodes j = Some (node_of t p j)) ->
  forall fuelM fuelS j s, (j < length p)%nat -> (length p - j <= fuelM)%nat -> (length p - j <= fuelS)%nat ->
  BoolDec.treed_read_aux fuelS t p (2 * Z.of_nat j) s = interpP bdbit (tree_prog fuelM nodes (Z.of_nat j)) s.
Proof.
  intros Hok Hlen Hn. destruct (tree_okb_spec t p Hok) as (Hl & Hm & Hb & He).
  induction fuelM as [|f IH]; intros fuelS j s Hj HfM HfS; [lia|].
  destruct fuelS as [|g]; [lia|].
  cbn [BoolDec.treed_read_aux tree_prog]. rewrite Nat2Z.id. rewrite (Hn j Hj). cbn [interpP].
  unfold node_of at 1. cbn [prob].
  rewrite Z.shiftr_div_pow2 by lia. change (2 ^ 1) with 2.
  replace (2 * Z.of_nat j / 2) with (Z.of_nat j) by lia. rewrite Nat2Z.id.
  rewrite bd_read_bool_bit. destruct (bdbit s (nth j p 0)) as [b s1]. cbn [fst snd]. cbv zeta.
  set (q := if b then (2 * j + 1)%nat else (2 * j)%nat).
  assert (Eq : Z.to_nat (2 * Z.of_nat j + ArithDec.b2z b) = q) by (unfold q, ArithDec.b2z; destruct b; lia).
  rewrite Eq.
  assert (Et : (if b then right (node_of t p j) else left (node_of t p j)) = prepare_branch (nth q t 0))
    by (unfold q, node_of; destruct b; reflexivity).
  rewrite Et.
  destruct (He q ltac:(unfold q; destruct b; lia)) as (R & Pz). cbv zeta in *.
  destruct (branch_facts (nth q t 0) R) as (_ & Fp & Fn).
  destruct (Z.ltb_spec 0 (nth q t 0)) as [Pos | Neg].
  - rewrite (Fp Pos). destruct (Pz Pos) as (Ev & Rg). apply Z.even_spec in Ev. destruct Ev as [m Em]. rewrite Em in *.
    replace (2 * m / 2) with m by lia.
    assert (Elt : (m <? Z.of_nat (length nodes)) = true) by (apply Z.ltb_lt; lia). rewrite Elt.
    assert (Hq : Z.of_nat q < 2 * m) by lia.
    replace m with (Z.of_nat (Z.to_nat m)) by lia.
    apply IH; unfold q in *; destruct b; lia.
  - destruct (Fn Neg) as (G & V).
    assert (Elt : (prepare_branch (nth q t 0) <? Z.of_nat (length nodes)) = false) by (apply Z.ltb_ge; lia). rewrite Elt.
    cbn [interpP]. rewrite V. reflexivity.
Qed.

(* the form used by the parsing proofs: the node table tree_nodes_from builds, entered at node j *)
Lemma bd_treed_read t p nodes j s : tree_okb t p = true -> tree_nodes_from t p = Ok nodes -> (j < length p)%nat ->
  BoolDec.treed_read t p (2 * Z.of_nat j) s = interpP bdbit (tree_prog (S (length nodes)) nodes (Z.of_nat j)) s.
Proof.
  intros Hok En Hj. destruct (tree_nodes_from_spec t p Hok) as [nodes' (E1 & E2 & E3)].
  rewrite En in E1. injection E1 as <-. destruct (tree_okb_spec t p Hok) as (Hl & _).
  unfold BoolDec.treed_read. apply (bd_tree t p nodes Hok E2 E3); lia.
Qed.

(* ---- Model.ArithDec's public reads as interpreters (from C15_main.model_step_eq) ---- *)
Definition big (d : Dec) : Prop := nchunks d + 100 < u64_mod.

Lemma m_read_bool d p : wsafe d -> 0 <= p <= 255 -> ArithDec.read_bool d p = Ok (cold_pure d p).
Proof. apply read_bool_eq. Qed.
Lemma m_read_flag d : wsafe d -> ArithDec.read_flag d = Ok (cold_pure d 128).
Proof. apply read_flag_eq. Qed.
Lemma m_read_literal d n : wsafe d -> big d -> 0 <= n <= 8 ->
  ArithDec.read_literal d n = Ok (interpP cold_pure (lit_prog (Z.to_nat n) 0) d).
Proof. intros Hw Hb Hn. exact (model_step_eq [] d (OL n) Hw Hb Hn). Qed.
Lemma m_read_signed d n : wsafe d -> big d -> 0 <= n <= 8 ->
  ArithDec.read_optional_signed_value d n = Ok (interpP cold_pure (signed_prog (Z.to_nat n)) d).
Proof. intros Hw Hb Hn. exact (model_step_eq [] d (OS n) Hw Hb Hn). Qed.
Lemma m_read_tree d t p nodes j node : wsafe d -> big d -> tree_okb t p = true -> tree_nodes_from t p = Ok nodes ->
  (j < length p)%nat -> nth_error nodes j = Some node ->
  read_with_tree_with_first_node d nodes node = Ok (interpP cold_pure (tree_prog (S (length nodes)) nodes (Z.of_nat j)) d).
Proof.
  intros Hw Hb Hok En Hj Enode.
  assert (Hop : op_ok [(t, p, 2 * Z.of_nat j)] (OT 0)).
  { split; [cbn; lia|]. cbn [nth]. split; [exact Hok|]. exists j. split; [exact Hj | reflexivity]. }
  pose proof (model_step_eq [(t, p, 2 * Z.of_nat j)] d (OT 0) Hw Hb Hop) as E.
  cbn [ArithDec.step nth op_prog] in E. rewrite En in E. cbn [bind] in E.
  replace (2 * Z.of_nat j / 2) with (Z.of_nat j) in E by lia. rewrite Nat2Z.id in E. rewrite Enode in E. cbn [of_option bind] in E.
  exact E.
Qed.

Lemma tree_probs_of t p nodes : tree_okb t p = true -> tree_nodes_from t p = Ok nodes -> forall fuel idx, probs_ok (tree_prog fuel nodes idx).
Proof.
  intros Hok En. destruct (tree_nodes_from_spec t p Hok) as [nodes' (E1 & E2 & E3)]. rewrite En in E1. injection E1 as <-.
  apply tree_probs. exact (nodes_wf_of t p nodes Hok E2 E3).
Qed.

(* ---- the generic facts about the cold interpreter ---- *)
Lemma cold_gprog_facts {A} (g : gprog A) : forall d, wsafe d -> gprobs_ok g ->
  wsafe (snd (interpG cold_pure g d)) /\ chunks (snd (interpG cold_pure g d)) = chunks d.
Proof.
  induction g as [a | p k IH]; intros d Hw Hp; cbn [interpG snd].
  - split; [exact Hw | reflexivity].
  - destruct Hp as (Hp & Ht & Hf).
    destruct (cold_pure_wsafe d p Hw Hp) as [W1 C1].
    destruct (cold_pure d p) as [b d1]. cbn [snd] in *.
    destruct (IH b d1 W1 ltac:(destruct b; assumption)) as [W2 C2].
    split; [exact W2 | congruence].
Qed.

Lemma big_chunks d d' : chunks d' = chunks d -> big d -> big d'.
Proof. unfold big, nchunks. intros ->. exact id. Qed.

Lemma need_mono_g {A} (g : gprog A) : forall s, need s <= need (snd (interpG rfcbit g s)).
Proof.
  induction g as [a | p k IH]; intros s; cbn [interpG snd]; [lia|].
  pose proof (need_mono_bool s p). unfold rfcbit at 1. destruct (RfcBoolDec.read_bool s p) as [b s1]. cbn [snd] in *.
  specialize (IH b s1). lia.
Qed.

Section Link.
Variable data : list Z.
Hypothesis Hbytes : Forall byte data.
Notation len := (C15_model.len data).
Hypothesis Hlen : len < 2 ^ 63.

(* Spec.BoolDec state = Spec.RfcBoolDec state, field by field (ghost fields: the shift count) *)
Definition bs_rel (b : bstate) (r : st) : Prop :=
  rest b = input r /\ BoolDec.value b = RfcBoolDec.value r /\ BoolDec.range b = RfcBoolDec.range r /\
  BoolDec.bit_count b = RfcBoolDec.bit_count r /\ shift_count b = shifts r.

Definition linked (b : bstate) (d : Dec) : Prop :=
  exists r, bs_rel b r /\ live data r d /\ need r <= bytes_for_shift_count (shifts r) /\ nchunks d = len / 4.

(* the reference decoder has consumed so much that its next request needs more than len + 1 bytes *)
Definition over_read (b : bstate) : Prop := len + 1 < bytes_needed b.

Lemma linked_wsafe b d : linked b d -> wsafe d /\ big d.
Proof.
  intros [r (_ & Hl & _ & Hn)]. apply (status_wsafe data Hlen r d). split; [left; exact Hl | exact Hn].
Qed.

Lemma linked_not_eof b d : linked b d -> is_past_eof d = false.
Proof.
  intros [r (_ & Hl & _ & Hn)].
  pose proof (status_eof data r d (conj (or_introl Hl) Hn)) as H.
  destruct (is_past_eof d); [|reflexivity]. destruct Hl as [_ Hle]. assert (len + 1 < need r) by (apply H; reflexivity). lia.
Qed.

(* one renormalisation step, then the loops *)
Lemma normalize_more n : forall b, 128 <= BoolDec.range (normalize n b) -> normalize (S n) b = normalize n b.
Proof.
  induction n as [|n IH]; intros b H.
  - cbn [normalize] in *. destruct (Z.ltb_spec (BoolDec.range b) 128); [lia | reflexivity].
  - change (normalize (S (S n)) b) with
      (if BoolDec.range b <? 128 then
         let v := Z.shiftl (BoolDec.value b) 1 in let r := Z.shiftl (BoolDec.range b) 1 in let bc := BoolDec.bit_count b + 1 in
         if bc =? 8 then let '(x, s') := BoolDec.next_byte b in
                         normalize (S n) (mkB (rest s') (Z.lor v x) r 0 (fetched s') (past s') (starved s'))
         else normalize (S n) (mkB (rest b) v r bc (fetched b) (past b) (starved b))
       else b).
    cbn [normalize] in H. cbn [normalize].
    destruct (BoolDec.range b <? 128); [|reflexivity]. cbv zeta in *.
    destruct (BoolDec.bit_count b + 1 =? 8).
    + destruct (BoolDec.next_byte b) as [x s']. apply IH. exact H.
    + apply IH. exact H.
Qed.

Lemma norm_rel n : forall b r, bs_rel b r -> 0 <= BoolDec.bit_count b <= 7 -> bs_rel (normalize n b) (renorm n r).
Proof.
  induction n as [|n IH]; intros b r Hr Hbc; [exact Hr|].
  cbn [normalize renorm]. destruct Hr as (E1 & E2 & E3 & E4 & E5). rewrite <- E3.
  destruct (BoolDec.range b <? 128); [|repeat split; assumption].
  cbv zeta. unfold shift1. rewrite <- E4.
  destruct (Z.eqb_spec (BoolDec.bit_count b + 1) 8) as [E8 | N8].
  - unfold BoolDec.next_byte, RfcBoolDec.next_byte. rewrite <- E1.
    destruct (rest b) as [|x tl] eqn:Er.
    + apply IH; [|cbn [BoolDec.bit_count]; lia].
      unfold bs_rel, shift_count in *. cbn [rest BoolDec.value BoolDec.range BoolDec.bit_count fetched input RfcBoolDec.value RfcBoolDec.range RfcBoolDec.bit_count shifts].
      rewrite <- E2, <- E3, <- E5. repeat split. lia.
    + apply IH; [|cbn [BoolDec.bit_count]; lia].
      unfold bs_rel, shift_count in *. cbn [rest BoolDec.value BoolDec.range BoolDec.bit_count fetched input RfcBoolDec.value RfcBoolDec.range RfcBoolDec.bit_count shifts].
      rewrite <- E2, <- E3, <- E5. repeat split. lia.
  - apply IH; [|cbn [BoolDec.bit_count]; lia].
    unfold bs_rel, shift_count in *. cbn [rest BoolDec.value BoolDec.range BoolDec.bit_count fetched input RfcBoolDec.value RfcBoolDec.range RfcBoolDec.bit_count shifts].
    rewrite <- E1, <- E2, <- E3, <- E5. repeat split. lia.
Qed.

Lemma norm8_rel b0 r0 : bs_rel b0 r0 -> 0 <= BoolDec.bit_count b0 <= 7 -> 128 <= RfcBoolDec.range (renorm 7 r0) ->
  bs_rel (normalize 8 b0) (renorm 7 r0).
Proof.
  intros R0 Hbc Hrange. pose proof (norm_rel 7 b0 r0 R0 Hbc) as R7.
  rewrite normalize_more; [exact R7|]. destruct R7 as (_ & _ & -> & _). exact Hrange.
Qed.

Lemma rfc_read_bool_cases r p :
  RfcBoolDec.read_bool r p =
  (Z.shiftl (1 + Z.shiftr ((RfcBoolDec.range r - 1) * p) 8) 8 <=? RfcBoolDec.value r,
   renorm 7 (if Z.shiftl (1 + Z.shiftr ((RfcBoolDec.range r - 1) * p) 8) 8 <=? RfcBoolDec.value r
             then mk (input r) (RfcBoolDec.value r - Z.shiftl (1 + Z.shiftr ((RfcBoolDec.range r - 1) * p) 8) 8)
                     (RfcBoolDec.range r - (1 + Z.shiftr ((RfcBoolDec.range r - 1) * p) 8)) (RfcBoolDec.bit_count r) (shifts r)
                     (Z.max (need r) (bytes_for_shift_count (shifts r)))
             else mk (input r) (RfcBoolDec.value r) (1 + Z.shiftr ((RfcBoolDec.range r - 1) * p) 8) (RfcBoolDec.bit_count r) (shifts r)
                     (Z.max (need r) (bytes_for_shift_count (shifts r))))).
Proof. unfold RfcBoolDec.read_bool. destruct (_ <=? RfcBoolDec.value r); reflexivity. Qed.

Lemma bd_read_bool_cases b p :
  bdbit b p =
  (Z.shiftl (1 + Z.shiftr ((BoolDec.range b - 1) * p) 8) 8 <=? BoolDec.value b,
   normalize 8 (if Z.shiftl (1 + Z.shiftr ((BoolDec.range b - 1) * p) 8) 8 <=? BoolDec.value b
                then mkB (rest b) (BoolDec.value b - Z.shiftl (1 + Z.shiftr ((BoolDec.range b - 1) * p) 8) 8)
                         (BoolDec.range b - (1 + Z.shiftr ((BoolDec.range b - 1) * p) 8)) (BoolDec.bit_count b) (fetched b) (past b)
                         (starved b || exhausted b)
                else mkB (rest b) (BoolDec.value b) (1 + Z.shiftr ((BoolDec.range b - 1) * p) 8) (BoolDec.bit_count b) (fetched b) (past b)
                         (starved b || exhausted b))).
Proof.
  unfold bdbit, BoolDec.read_bool. destruct (_ <=? BoolDec.value b);
    match goal with |- context [normalize ?n ?x] => generalize (normalize n x) end; intros; reflexivity.
Qed.

Lemma bd_bit_rel i b r p : ideal_ok data i -> specinv data i r -> bs_rel b r -> 0 <= p <= 255 ->
  fst (bdbit b p) = fst (rfcbit r p) /\ bs_rel (snd (bdbit b p)) (snd (rfcbit r p)).
Proof.
  intros Hi Hs Hr Hp.
  destruct (spec_read_bool data Hbytes i r p Hi Hs Hp) as [r1 (E & Hs1 & _)].
  pose proof (ideal_step_ok data Hbytes i p Hi Hp) as Hi1.
  assert (Hrange : 128 <= RfcBoolDec.range (snd (RfcBoolDec.read_bool r p))).
  { rewrite E. cbn [snd]. destruct Hs1 as (-> & _). destruct Hi1 as (? & _). lia. }
  assert (Hbc : 0 <= BoolDec.bit_count b <= 7).
  { destruct Hr as (_ & _ & _ & -> & _). destruct Hs as (_ & _ & -> & _). pose proof (Z.mod_pos_bound (iT i) 8 ltac:(lia)). lia. }
  clear E. unfold rfcbit. rewrite rfc_read_bool_cases in *. rewrite bd_read_bool_cases. cbn [fst snd] in *.
  pose proof Hr as (E1 & E2 & E3 & E4 & E5). rewrite <- E2, <- E3 in *.
  split; [reflexivity|].
  apply norm8_rel; [| destruct (_ <=? BoolDec.value b); cbn [BoolDec.bit_count]; exact Hbc | exact Hrange].
  destruct (_ <=? BoolDec.value b);
    unfold bs_rel, shift_count in *; cbn [rest BoolDec.value BoolDec.range BoolDec.bit_count fetched input RfcBoolDec.value RfcBoolDec.range RfcBoolDec.bit_count shifts];
    repeat split; assumption.
Qed.

Lemma bfsc_mono a b : a <= b -> bytes_for_shift_count a <= bytes_for_shift_count b.
Proof. intros H. unfold bytes_for_shift_count. assert ((a + 7) / 8 <= (b + 7) / 8) by (apply Z.div_le_mono; lia). lia. Qed.

Lemma ideal_step_T i p : ideal_ok data i -> 0 <= p <= 255 -> iT i <= iT (snd (ideal_step data i p)).
Proof.
  intros (HR & HT & HA & Hh) Hp. unfold ideal_step. cbn [snd iT].
  pose proof (split_of_range (iR i) p ltac:(lia) Hp) as Hs.
  set (R1 := if _ <=? _ then _ else _).
  assert (HR1 : 1 <= R1 <= 255) by (unfold R1; destruct (_ <=? _); lia).
  destruct (norm_shift_facts R1 HR1) as (Hn1 & _). lia.
Qed.

(* ---- the transfer theorem ---- *)
Theorem transfer {A} (g : gprog A) : forall b d, linked b d -> gprobs_ok g ->
  (linked (snd (interpG bdbit g b)) (snd (interpG cold_pure g d)) /\ fst (interpG cold_pure g d) = fst (interpG bdbit g b))
  \/ (is_past_eof (snd (interpG cold_pure g d)) = true /\ over_read (snd (interpG bdbit g b))).
Proof.
  induction g as [a | p k IH]; intros b d Hl Hp; cbn [interpG fst snd].
  - left. split; [exact Hl | reflexivity].
  - destruct Hp as (Hp & Ht & Hf). destruct Hl as [r (Hr & [[i (Hi & Hs & Hm)] Hn] & Hns & Hnc)].
    destruct (spec_read_bool data Hbytes i r p Hi Hs Hp) as [r1 (E & Hs1 & Hn1)].
    pose proof (ideal_step_ok data Hbytes i p Hi Hp) as Hi1.
    destruct (bd_bit_rel i b r p Hi Hs Hr Hp) as [Eb Hr1]. unfold rfcbit in Eb, Hr1. rewrite E in Eb, Hr1. cbn [fst snd] in Eb, Hr1.
    pose proof (ideal_step_T i p Hi Hp) as HT.
    assert (Hsh : shifts r = iT i) by (destruct Hs as (_ & -> & _); reflexivity).
    assert (Hsh1 : shifts r1 = iT (snd (ideal_step data i p))) by (destruct Hs1 as (_ & -> & _); reflexivity).
    assert (Hns1 : need r1 <= bytes_for_shift_count (shifts r1)).
    { rewrite Hn1, Hsh1. rewrite Hsh in Hns. pose proof (bfsc_mono _ _ HT). lia. }
    destruct (sim_bit data Hbytes i d p Hi Hm Hp) as [(Nd & Ebit & Hm1) | (Nd & Ebit & Hd)].
    + destruct (cold_pure_wsafe d p (modinv_wsafe data i d Hi Hm) Hp) as [_ Hch].
      destruct (cold_pure d p) as [bit d1]. destruct (bdbit b p) as [bit' b1]. cbn [fst snd] in *.
      assert (bit = bit') by congruence. subst bit'. rewrite Ebit.
      apply IH; [|destruct (fst (ideal_step data i p)); assumption].
      exists r1. split; [exact Hr1|]. split; [split; [exists (snd (ideal_step data i p)); auto | lia]|].
      split; [exact Hns1|]. unfold nchunks in *. rewrite Hch. exact Hnc.
    + right. destruct (cold_pure d p) as [bit d1]. destruct (bdbit b p) as [bit' b1]. cbn [fst snd] in *.
      assert (Hsnd : forall g' : gprog A, snd (interpG cold_pure g' d1) = d1).
      { induction g' as [a' | p' k' IH']; cbn [interpG snd]; [reflexivity|]. rewrite (dead_bit d1 p' Hd). apply IH'. }
      rewrite Hsnd. split; [destruct Hd as (_ & He & _); unfold is_past_eof; rewrite He; apply Z.eqb_refl|].
      (* the reference state only moves forward *)
      assert (Hfw : forall (g' : gprog A) b2 r2 i2, ideal_ok data i2 -> specinv data i2 r2 -> bs_rel b2 r2 -> gprobs_ok g' ->
                    shifts r2 <= shift_count (snd (interpG bdbit g' b2))).
      { induction g' as [a' | p' k' IH']; intros b2 r2 i2 Hi2 Hs2 Hr2 Hp2; cbn [interpG snd].
        - destruct Hr2 as (_ & _ & _ & _ & ->). lia.
        - destruct Hp2 as (Hp2 & Ht2 & Hf2).
          destruct (spec_read_bool data Hbytes i2 r2 p' Hi2 Hs2 Hp2) as [r3 (E3 & Hs3 & _)].
          destruct (bd_bit_rel i2 b2 r2 p' Hi2 Hs2 Hr2 Hp2) as [_ Hr3]. unfold rfcbit in Hr3. rewrite E3 in Hr3. cbn [snd] in Hr3.
          pose proof (ideal_step_T i2 p' Hi2 Hp2) as HT2.
          destruct (bdbit b2 p') as [bb b3]. cbn [snd] in *.
          specialize (IH' bb b3 r3 _ (ideal_step_ok data Hbytes i2 p' Hi2 Hp2) Hs3 Hr3 ltac:(destruct bb; assumption)).
          destruct Hs2 as (_ & Es2 & _). destruct Hs3 as (_ & Es3 & _). lia. }
      specialize (Hfw (k bit') b1 r1 _ Hi1 Hs1 Hr1 ltac:(destruct bit'; assumption)).
      unfold over_read, bytes_needed. fold (bytes_for_shift_count (shift_count (snd (interpG bdbit (k bit') b1)))).
      assert (iT i <= shift_count (snd (interpG bdbit (k bit') b1))) by lia.
      pose proof (bfsc_mono _ _ H). lia.
Qed.

(* the same with the Model side's well-formedness, in the shape the function proofs use *)
Corollary transfer_run {A} (g : gprog A) b d : linked b d -> gprobs_ok g ->
  let r := interpG cold_pure g d in let s := interpG bdbit g b in
  wsafe (snd r) /\ chunks (snd r) = chunks d /\
  ((is_past_eof (snd r) = false /\ linked (snd s) (snd r) /\ fst r = fst s) \/ (is_past_eof (snd r) = true /\ over_read (snd s))).
Proof.
  intros Hl Hp. cbv zeta. destruct (linked_wsafe b d Hl) as [Hw _].
  destruct (cold_gprog_facts g d Hw Hp) as [W C]. split; [exact W|]. split; [exact C|].
  destruct (transfer g b d Hl Hp) as [[L E] | [E O]].
  - left. split; [exact (linked_not_eof _ _ L) | split; assumption].
  - right. split; assumption.
Qed.

(* ---- establishing the link: both decoders initialised on the same partition ---- *)
Lemma bd_init_rel : bs_rel (bd_init data) (RfcBoolDec.init data).
Proof.
  unfold bd_init, RfcBoolDec.init, BoolDec.next_byte, RfcBoolDec.next_byte. cbn [rest].
  destruct data as [|b0 [|b1 tl]]; unfold bs_rel, shift_count; cbn [rest BoolDec.value BoolDec.range BoolDec.bit_count fetched input RfcBoolDec.value RfcBoolDec.range RfcBoolDec.bit_count shifts past starved].
  - repeat split.
  - repeat split. change (Z.shiftl 0 8) with 0. rewrite Z.lor_0_l.
    pose proof (Forall_inv Hbytes) as B0. unfold byte in B0.
    rewrite Z.lor_0_r. rewrite Z.shiftl_mul_pow2 by lia. change (2 ^ 8) with 256. lia.
  - repeat split. change (Z.shiftl 0 8) with 0. rewrite Z.lor_0_l.
    pose proof (Forall_inv Hbytes) as B0. pose proof (Forall_inv (Forall_inv_tail Hbytes)) as B1. unfold byte in B0, B1.
    rewrite Z.shiftl_mul_pow2 by lia. rewrite Z.lor_comm. rewrite lor_low_high by (change (2 ^ 8) with 256; lia).
    change (2 ^ 8) with 256. lia.
Qed.

Theorem linked_init : nth 0 data 0 <> 255 ->
  exists d0, ArithDec.init (chunks_of data) len = Ok d0 /\ linked (bd_init data) d0.
Proof.
  intros Hff. destruct (init_ok data Hlen) as [d0 [E0 M0]]. exists d0. split; [exact E0|].
  exists (RfcBoolDec.init data). split; [exact bd_init_rel|].
  split; [split; [exists ideal0; split; [apply ideal0_ok; assumption | split; [apply spec_init; assumption | exact M0]]|]|].
  - rewrite need_init. unfold C15_model.len. lia.
  - split; [rewrite need_init; destruct (spec_init data Hbytes) as (_ & Esh & _); rewrite Esh; cbn [iT ideal0]; unfold bytes_for_shift_count; lia|].
    destruct (mi_chunks data ideal0 d0 M0) as [Hl _]. unfold nchunks. exact Hl.
Qed.

End Link.
