(* VP8 whole-frame decoding, part 1: "the reference run has read beyond a partition" (over_read, the failure branch of
   VP8_frame_main.parse_frame_refines: the crate's reader needs more than len + 1 bytes) implies libwebp's eof_ flag
   (Spec.BoolDec.starved), for every state the reference parser reaches.  So Spec.VP8.decode_frame = Some _, which
   tests [starved] on the first partition after the modes and on every token partition that serves a macroblock row,
   excludes the failure branch: the reference is one byte STRICTER than the crate.

   [sinv data s]: the ghost fields of s are consistent with a run over [data] (past = bytes fetched beyond the end,
   rest = what is left) and  starved s = true  \/  shift_count s <= 8 * len data.  It holds for bd_init and is kept
   by read_bool with ANY probability argument (normalize shifts at most 8 times), hence by every parsing function of
   Spec.VP8 without any well-formedness hypothesis on trees or tables. *)
From Coq Require Import ZArith Lia List Bool.
From WebP Require Import Lib.Res Lib.ZBits Spec.BoolDec Spec.VP8Tables Spec.VP8 Model.ArithDec Proofs.C15_model
  Proofs.VP8_parse_base Proofs.VP8_frame_base Proofs.VP8_frame_mono Proofs.VP8_frame_header Proofs.VP8_frame_hdrthm
  Proofs.VP8_frame_loop.
Import ListNotations.
Open Scope Z_scope.

Notation blen := C15_model.len.

(* ---------- the invariant ---------- *)
Definition ginv (data : list Z) (s : bstate) : Prop :=
  0 <= BoolDec.bit_count s <= 7 /\
  past s = Z.max 0 (fetched s - blen data) /\
  Z.of_nat (length (rest s)) = Z.max 0 (blen data - fetched s).

Definition sinv (data : list Z) (s : bstate) : Prop :=
  ginv data s /\ (starved s = true \/ shift_count s <= 8 * blen data).

Lemma sinv_init data : sinv data (bd_init data).
Proof.
  unfold sinv, ginv, bd_init, BoolDec.next_byte, shift_count, exhausted, C15_model.len.
  destruct data as [|b0 [|b1 tl]]; cbn [rest BoolDec.bit_count fetched past starved length]; repeat split; lia.
Qed.

Lemma normalize_ginv data n : forall s, ginv data s ->
  ginv data (normalize n s) /\ shift_count (normalize n s) <= shift_count s + Z.of_nat n /\ starved (normalize n s) = starved s.
Proof.
  induction n as [|n IH]; intros s G; [cbn [normalize]; split; [exact G | split; [lia | reflexivity]]|].
  cbn [normalize]. destruct (BoolDec.range s <? 128); [|split; [exact G | split; [lia | reflexivity]]].
  cbv zeta. destruct G as (Hbc & Hp & Hr).
  destruct (Z.eqb_spec (BoolDec.bit_count s + 1) 8) as [E8 | N8].
  - unfold BoolDec.next_byte. destruct (rest s) as [|x tl] eqn:Er; cbn [length] in Hr.
    + match goal with |- context [normalize n ?x] => destruct (IH x) as (G1 & S1 & T1) end.
      { unfold ginv. cbn [rest BoolDec.bit_count fetched past length]. repeat split; lia. }
      split; [exact G1|]. split; [|exact T1].
      eapply Z.le_trans; [exact S1|]. unfold shift_count. cbn [fetched BoolDec.bit_count]. lia.
    + match goal with |- context [normalize n ?x] => destruct (IH x) as (G1 & S1 & T1) end.
      { unfold ginv. cbn [rest BoolDec.bit_count fetched past length]. repeat split; lia. }
      split; [exact G1|]. split; [|exact T1].
      eapply Z.le_trans; [exact S1|]. unfold shift_count. cbn [fetched BoolDec.bit_count]. lia.
  - match goal with |- context [normalize n ?x] => destruct (IH x) as (G1 & S1 & T1) end.
    { unfold ginv. cbn [rest BoolDec.bit_count fetched past]. repeat split; lia. }
    split; [exact G1|]. split; [|exact T1].
    eapply Z.le_trans; [exact S1|]. unfold shift_count. cbn [fetched BoolDec.bit_count]. lia.
Qed.

Lemma exhausted_false data s : ginv data s -> exhausted s = false -> shift_count s <= 8 * blen data - 8.
Proof.
  intros (Hbc & Hp & _) E. unfold exhausted in E. apply orb_false_iff in E. destruct E as [E1 E2].
  apply Z.leb_gt in E1. unfold shift_count.
  destruct (Z.eqb_spec (past s) 1) as [P1 | P1]; cbn [andb] in E2; [apply Z.ltb_ge in E2; lia | lia].
Qed.

(* one bit, any probability argument *)
Lemma sinv_bdbit data s p : sinv data s -> sinv data (snd (bdbit s p)).
Proof.
  intros [G J]. rewrite bd_read_bool_cases. cbn [snd].
  match goal with |- sinv data (normalize 8 ?x) => set (s0 := x) end.
  assert (G0 : ginv data s0) by (unfold s0; destruct (_ <=? BoolDec.value s); exact G).
  assert (Sh0 : shift_count s0 = shift_count s) by (unfold s0; destruct (_ <=? BoolDec.value s); reflexivity).
  assert (St0 : starved s0 = starved s || exhausted s) by (unfold s0; destruct (_ <=? BoolDec.value s); reflexivity).
  destruct (normalize_ginv data 8 s0 G0) as (G1 & S1 & T1). split; [exact G1|].
  rewrite T1, St0. destruct (starved s) eqn:Es; [left; reflexivity|]. destruct (exhausted s) eqn:Ee; [left; reflexivity|].
  right. pose proof (exhausted_false data s G Ee). change (Z.of_nat 8) with 8 in S1. lia.
Qed.

Lemma sinv_interp {A} data (g : gprog A) : forall s, sinv data s -> sinv data (snd (interpG bdbit g s)).
Proof.
  induction g as [a | p k IH]; intros s H; cbn [interpG snd]; [exact H|].
  pose proof (sinv_bdbit data s p H) as H1. destruct (bdbit s p) as [b s1]. cbn [snd] in H1. apply IH. exact H1.
Qed.

(* the point of it: a run that needs more than len + 1 bytes has set libwebp's eof flag *)
Lemma over_read_starved data s : sinv data s -> over_read data s -> starved s = true.
Proof.
  intros [_ [J | J]] O; [exact J|]. exfalso. unfold over_read, bytes_needed in O.
  assert ((shift_count s + 7) / 8 <= blen data) by (apply Z.div_le_upper_bound; lia). lia.
Qed.

Lemma init_not_over_read data : ~ over_read data (bd_init data).
Proof.
  unfold over_read, bytes_needed. replace (shift_count (bd_init data)) with 0.
  - change ((0 + 7) / 8 + 1) with 1. unfold C15_model.len. lia.
  - unfold bd_init, BoolDec.next_byte, shift_count. destruct data as [|b0 [|b1 tl]]; reflexivity.
Qed.

(* ---------- "keeps the invariant": a preorder on states, threaded through the parsing functions ---------- *)
Definition keeps (data : list Z) (s s' : bstate) : Prop := sinv data s -> sinv data s'.
Lemma keeps_refl data s : keeps data s s. Proof. exact id. Qed.
Lemma keeps_trans data a b c : keeps data a b -> keeps data b c -> keeps data a c. Proof. unfold keeps. auto. Qed.

Section Keeps.
Variable data : list Z.
Notation K := (keeps data).

Lemma read_bool_keeps p s : K s (snd (BoolDec.read_bool p s)).
Proof. rewrite bd_read_bool_bit. cbn [snd]. exact (sinv_bdbit data s p). Qed.

Lemma treed_read_aux_keeps fuel t p : forall i s, K s (snd (treed_read_aux fuel t p i s)).
Proof.
  induction fuel as [|f IH]; intros i s; cbn [treed_read_aux]; [apply keeps_refl|].
  pose proof (read_bool_keeps (nth (Z.to_nat (Z.shiftr i 1)) p 0) s) as H. destruct (BoolDec.read_bool _ s) as [b s1]. cbn [snd] in H.
  destruct (0 <? nth (Z.to_nat (i + b)) t 0); [eapply keeps_trans; [exact H | apply IH] | exact H].
Qed.
Lemma treed_read_keeps t p i s : K s (snd (treed_read t p i s)).
Proof. apply treed_read_aux_keeps. Qed.

(* ---- modes ---- *)
Lemma read_bmode_row_keeps top : forall left s acc, K s (snd (read_bmode_row top left s acc)).
Proof.
  induction top as [|t tl IH]; intros left s acc; cbn [read_bmode_row]; [apply keeps_refl|].
  unfold read_bmode. pose proof (treed_read_keeps bmode_tree (nthZ (nthZ kBModesProba t []) left []) 0 s) as H.
  destruct (treed_read bmode_tree _ 0 s) as [m s1]. cbn [snd] in H. eapply keeps_trans; [exact H | apply IH].
Qed.
Lemma read_bmode_rows_keeps lefts : forall top s modes nl, K s (snd (read_bmode_rows top lefts s modes nl)).
Proof.
  induction lefts as [|l tl IH]; intros top s modes nl; cbn [read_bmode_rows]; [apply keeps_refl|].
  pose proof (read_bmode_row_keeps top l s []) as H. destruct (read_bmode_row top l s []) as [[row last] s1]. cbn [snd] in H.
  eapply keeps_trans; [exact H | apply IH].
Qed.
Lemma parse_mb_mode_keeps h top4 left4 s : K s (snd (parse_mb_mode h top4 left4 s)).
Proof.
  unfold parse_mb_mode.
  assert (H1 : K s (snd (if h_update_map h then treed_read segment_tree (h_seg_probs h) 0 s else (0, s))))
    by (destruct (h_update_map h); [apply treed_read_keeps | apply keeps_refl]).
  destruct (if h_update_map h then _ else _) as [seg s1]. cbn [snd] in H1.
  assert (H2 : K s1 (snd (if h_use_skip h then BoolDec.read_bool (h_skip_p h) s1 else (0, s1))))
    by (destruct (h_use_skip h); [apply read_bool_keeps | apply keeps_refl]).
  destruct (if h_use_skip h then _ else _) as [skip s2]. cbn [snd] in H2.
  pose proof (treed_read_keeps kf_ymode_tree kf_ymode_prob 0 s2) as H3. destruct (treed_read kf_ymode_tree kf_ymode_prob 0 s2) as [ym s3]. cbn [snd] in H3.
  assert (H4 : K s3 (snd (if ym =? B_PRED then let '(modes, t, l, s) := read_bmode_rows top4 left4 s3 [] [] in (true, modes, t, l, s)
                               else (false, [], [ym; ym; ym; ym], [ym; ym; ym; ym], s3)))).
  { destruct (ym =? B_PRED); [|apply keeps_refl]. pose proof (read_bmode_rows_keeps left4 top4 s3 [] []) as H.
    destruct (read_bmode_rows top4 left4 s3 [] []) as [[[modes t] l] s4]. exact H. }
  destruct (if ym =? B_PRED then _ else _) as [[[[i4 im] t4] l4] s4]. cbn [snd] in H4.
  pose proof (treed_read_keeps uv_mode_tree uv_mode_prob 0 s4) as H5. destruct (treed_read uv_mode_tree uv_mode_prob 0 s4) as [uv s5]. cbn [snd] in *.
  unfold keeps in *. auto 10.
Qed.
Lemma parse_mode_row_keeps h n : forall tops left4 s acc nt, K s (snd (parse_mode_row h n tops left4 s acc nt)).
Proof.
  induction n as [|n IH]; intros tops left4 s acc nt; cbn [parse_mode_row]; [apply keeps_refl|].
  destruct (split_at 4 tops) as [top4 rest]. pose proof (parse_mb_mode_keeps h top4 left4 s) as H.
  destruct (parse_mb_mode h top4 left4 s) as [[[m t'] l'] s1]. cbn [snd] in H. eapply keeps_trans; [exact H | apply IH].
Qed.
Lemma parse_mode_rows_keeps h rows : forall tops s acc, K s (snd (parse_mode_rows h rows tops s acc)).
Proof.
  induction rows as [|k IH]; intros tops s acc; cbn [parse_mode_rows]; [apply keeps_refl|].
  pose proof (parse_mode_row_keeps h (Z.to_nat (mb_w h)) tops [0; 0; 0; 0] s [] []) as H.
  destruct (parse_mode_row h (Z.to_nat (mb_w h)) tops [0; 0; 0; 0] s [] []) as [[row tops'] s1]. cbn [snd] in H.
  eapply keeps_trans; [exact H | apply IH].
Qed.
Lemma parse_modes_keeps h s : K s (snd (parse_modes h s)).
Proof. apply parse_mode_rows_keeps. Qed.

(* ---- tokens ---- *)
Lemma read_extra_keeps probs : forall acc s, K s (snd (read_extra probs acc s)).
Proof.
  induction probs as [|p tl IH]; intros acc s; cbn [read_extra]; [apply keeps_refl|].
  pose proof (read_bool_keeps p s) as H. destruct (BoolDec.read_bool p s) as [b s1]. cbn [snd] in H. eapply keeps_trans; [exact H | apply IH].
Qed.
Lemma token_magnitude_keeps tok s : K s (snd (token_magnitude tok s)).
Proof.
  unfold token_magnitude. destruct (tok <=? 4); [apply keeps_refl|].
  pose proof (read_extra_keeps (nthZ cat_probs (tok - 5) []) 0 s) as H. destruct (read_extra _ 0 s) as [e s1]. exact H.
Qed.
Lemma get_coeffs_loop_keeps fuel bands dc ac : forall n ctx az acc ok s, K s (snd (get_coeffs_loop fuel bands dc ac n ctx az acc ok s)).
Proof.
  induction fuel as [|f IH]; intros n ctx az acc ok s; cbn [get_coeffs_loop]; [apply keeps_refl|].
  destruct (16 <=? n); [apply keeps_refl|].
  pose proof (treed_read_keeps coeff_tree (nthZ (nthZ bands (nthZ kBands n 0) []) ctx []) (if az then 2 else 0) s) as H.
  destruct (treed_read coeff_tree _ _ s) as [tok s1]. cbn [snd] in H.
  destruct (tok =? DCT_EOB); [exact H|]. destruct (tok =? 0); [eapply keeps_trans; [exact H | apply IH]|].
  pose proof (token_magnitude_keeps tok s1) as H2. destruct (token_magnitude tok s1) as [v s2]. cbn [snd] in H2.
  pose proof (read_bool_keeps 128 s2) as H3. destruct (BoolDec.read_bool 128 s2) as [sg s3]. cbn [snd] in H3.
  eapply keeps_trans; [|apply IH]. unfold keeps in *. auto 10.
Qed.
Lemma get_coeffs_keeps bands ctx dc ac first s : K s (snd (get_coeffs bands ctx dc ac first s)).
Proof.
  unfold get_coeffs. pose proof (get_coeffs_loop_keeps 17 bands dc ac first ctx false (if first =? 1 then [0] else []) true s) as H.
  destruct (get_coeffs_loop 17 bands dc ac first ctx false _ true s) as [[[racc nz] ok] s']. exact H.
Qed.
Lemma blocks_row_keeps bands dc ac first tops : forall l s blocks nt ok, K s (snd (blocks_row bands dc ac first tops l s blocks nt ok)).
Proof.
  induction tops as [|t tl IH]; intros l s blocks nt ok; cbn [blocks_row]; [apply keeps_refl|].
  pose proof (get_coeffs_keeps bands (l + t) dc ac first s) as H. destruct (get_coeffs bands (l + t) dc ac first s) as [[[b nz] ok1] s1]. cbn [snd] in H.
  eapply keeps_trans; [exact H | apply IH].
Qed.
Lemma blocks_rows_keeps bands dc ac first lefts : forall tops s blocks nl ok, K s (snd (blocks_rows bands dc ac first tops lefts s blocks nl ok)).
Proof.
  induction lefts as [|l tl IH]; intros tops s blocks nl ok; cbn [blocks_rows]; [apply keeps_refl|].
  pose proof (blocks_row_keeps bands dc ac first tops l s blocks [] ok) as H.
  destruct (blocks_row bands dc ac first tops l s blocks [] ok) as [[[[bl tops'] l'] ok1] s1]. cbn [snd] in H.
  eapply keeps_trans; [exact H | apply IH].
Qed.
Lemma parse_residuals_keeps h m top left s : K s (snd (parse_residuals h m top left s)).
Proof.
  unfold parse_residuals. destruct (h_use_skip h && m_skip m); [apply keeps_refl|]. cbv zeta.
  assert (H0 : K s (snd (if m_i4 m then (None, None, true, s)
     else let '(b, nz, ok1, s1) := get_coeffs (nthZ (h_probas h) 1 []) (c_dc top + c_dc left) (q_y2dc (segment_quant h (m_seg m))) (q_y2ac (segment_quant h (m_seg m))) 0 s in
          let '(w, ok2) := iwht b in (Some w, Some (b2z (0 <? nz)), ok1 && ok2, s1)))).
  { destruct (m_i4 m); [apply keeps_refl|]. pose proof (get_coeffs_keeps (nthZ (h_probas h) 1 []) (c_dc top + c_dc left) (q_y2dc (segment_quant h (m_seg m))) (q_y2ac (segment_quant h (m_seg m))) 0 s) as H.
    destruct (get_coeffs _ _ _ _ 0 s) as [[[b nz] ok1] s1]. destruct (iwht b) as [w ok2]. exact H. }
  destruct (if m_i4 m then _ else _) as [[[dcs dc_ctx] ok0] s0]. cbn [snd] in H0.
  match goal with |- context [blocks_rows ?a ?b ?c ?d ?e ?f s0 [] [] ok0] => pose proof (blocks_rows_keeps a b c d f e s0 [] [] ok0) as H1; destruct (blocks_rows a b c d e f s0 [] [] ok0) as [[[[yb ty] ly] ok1] s1] end.
  cbn [snd] in H1.
  match goal with |- context [blocks_rows ?a ?b ?c ?d ?e ?f s1 [] [] ok1] => pose proof (blocks_rows_keeps a b c d f e s1 [] [] ok1) as H2; destruct (blocks_rows a b c d e f s1 [] [] ok1) as [[[[ub tu] lu] ok2] s2] end.
  cbn [snd] in H2.
  match goal with |- context [blocks_rows ?a ?b ?c ?d ?e ?f s2 [] [] ok2] => pose proof (blocks_rows_keeps a b c d f e s2 [] [] ok2) as H3; destruct (blocks_rows a b c d e f s2 [] [] ok2) as [[[[vb tv] lv] ok3] s3] end.
  cbn [snd] in *. unfold keeps in *. auto 10.
Qed.
Lemma parse_token_row_keeps h modes : forall tops left s acc nt, K s (snd (parse_token_row h modes tops left s acc nt)).
Proof.
  induction modes as [|m mtl IH]; intros tops left s acc nt; cbn [parse_token_row]; [apply keeps_refl|].
  destruct tops as [|t ttl]; [apply keeps_refl|].
  pose proof (parse_residuals_keeps h m t left s) as H. destruct (parse_residuals h m t left s) as [[[r t'] l'] s1]. cbn [snd] in H.
  eapply keeps_trans; [exact H | apply IH].
Qed.
End Keeps.

(* ---------- all token rows: every partition keeps its invariant; partitions no row is served by stay as they are ---------- *)
Definition parts_sinv (parts : list (list Z)) (ps : list bstate) : Prop :=
  length ps = length parts /\ forall i, (i < length parts)%nat -> sinv (nth i parts []) (nth i ps (bd_init [])).

Lemma nth_upd_same {A} (l : list A) : forall n x d, (n < length l)%nat -> nth n (upd l n x) d = x.
Proof. induction l as [|y l IH]; intros [|n] x d H; cbn [length] in H; cbn [upd nth]; try lia; [reflexivity | apply IH; lia]. Qed.
Lemma nth_upd_other {A} (l : list A) : forall n m x d, n <> m -> nth m (upd l n x) d = nth m l d.
Proof. induction l as [|y l IH]; intros [|n] [|m] x d H; cbn [upd nth]; try reflexivity; try congruence. apply IH. congruence. Qed.
Lemma upd_length {A} (l : list A) : forall n x, length (upd l n x) = length l.
Proof. induction l as [|y l IH]; intros [|n] x; cbn [upd length]; try reflexivity. rewrite IH. reflexivity. Qed.

Lemma parse_token_rows_sinv parts h rows : forall r tops ps acc, parts_sinv parts ps ->
  parts_sinv parts (snd (parse_token_rows h rows r tops ps acc)).
Proof.
  induction rows as [|row tl IH]; intros r tops ps acc H; cbn [parse_token_rows]; [exact H|].
  destruct (nth_error ps (Z.to_nat (Z.land r (h_num_parts h - 1)))) as [s|] eqn:En; [|exact H].
  pose proof (parse_token_row_keeps (nth (Z.to_nat (Z.land r (h_num_parts h - 1))) parts []) h row tops ctx0 s [] []) as Hk.
  destruct (parse_token_row h row tops ctx0 s [] []) as [[res tops'] s']. cbn [snd] in Hk. apply IH.
  destruct H as [L Hi]. assert (Hlt : (Z.to_nat (Z.land r (h_num_parts h - 1)) < length ps)%nat) by (apply nth_error_Some; congruence).
  split; [rewrite upd_length; exact L|]. intros i Hil.
  destruct (Nat.eq_dec (Z.to_nat (Z.land r (h_num_parts h - 1))) i) as [E | N].
  - subst i. rewrite nth_upd_same by exact Hlt. apply Hk.
    specialize (Hi _ Hil). rewrite (nth_error_nth _ _ _ En) in Hi. exact Hi.
  - rewrite nth_upd_other by exact N. apply Hi. exact Hil.
Qed.

(* partitions with an index not below the number of rows (and of partitions) are not touched *)
Lemma parse_token_rows_untouched h rows : forall r tops ps acc i,
  (forall k, r <= k < r + Z.of_nat (length rows) -> Z.to_nat (Z.land k (h_num_parts h - 1)) <> i) ->
  nth i (snd (parse_token_rows h rows r tops ps acc)) (bd_init []) = nth i ps (bd_init []).
Proof.
  induction rows as [|row tl IH]; intros r tops ps acc i H; cbn [parse_token_rows]; [reflexivity|].
  destruct (nth_error ps (Z.to_nat (Z.land r (h_num_parts h - 1)))) as [s|] eqn:En; [|reflexivity].
  destruct (parse_token_row h row tops ctx0 s [] []) as [[res tops'] s']. cbn [length] in H.
  rewrite IH by (intros k Hk; apply H; lia).
  apply nth_upd_other. apply H. lia.
Qed.

Lemma parts_sinv_init parts : parts_sinv parts (map bd_init parts).
Proof.
  split; [apply map_length|]. intros i Hi.
  replace (nth i (map bd_init parts) (bd_init [])) with (bd_init (nth i parts [])) by (symmetry; apply (map_nth bd_init parts [] i)).
  apply sinv_init.
Qed.

(* ---------- the header ---------- *)
Lemma parse_header_sinv data h s parts : parse_header data = Some (h, s, parts) -> sinv (first_partition data) s.
Proof.
  intros Hph. rewrite parse_header_eq in Hph.
  (destruct data as [|b0 [|b1 [|b2 [|b3 [|b4 [|b5 [|b6 [|b7 [|b8 [|b9 body]]]]]]]]]]; [discriminate Hph ..|]).
  cbv zeta in Hph.
  repeat match type of Hph with (if ?c then None else _) = Some _ => destruct c; [discriminate Hph|] end.
  rewrite split_at_spec in Hph.
  match type of Hph with context [bd_init ?p] => set (p0 := p) in * end.
  assert (Efp : first_partition (b0 :: b1 :: b2 :: b3 :: b4 :: b5 :: b6 :: b7 :: b8 :: b9 :: body) = p0) by reflexivity.
  rewrite Efp. clear Efp.
  rewrite spec_mid_eq in Hph.
  pose proof (sinv_interp p0 G_mid (bd_init p0) (sinv_init p0)) as H1.
  destruct (interpG bdbit G_mid (bd_init p0)) as [o s1]. cbn [snd] in H1.
  destruct (parse_partitions _ _) as [pp|]; [|discriminate Hph].
  rewrite spec_tail_eq in Hph.
  pose proof (sinv_interp p0 (G_tail coeffs_proba0) s1 H1) as H2.
  destruct (interpG bdbit (G_tail coeffs_proba0) s1) as [t s2]. cbn [snd] in H2.
  injection Hph as _ <- _. exact H2.
Qed.

(* ---------- a frame the reference decodes is not over-read anywhere ---------- *)
Lemma land_small r n : (n = 1 \/ n = 2 \/ n = 4 \/ n = 8) -> 0 <= r < n -> Z.land r (n - 1) = r.
Proof.
  intros Hn Hr.
  assert (E : exists k, 0 <= k /\ n = 2 ^ k) by (destruct Hn as [-> | [-> | [-> | ->]]]; [exists 0 | exists 1 | exists 2 | exists 3]; split; try lia; reflexivity).
  destruct E as [k [Hk ->]]. replace (2 ^ k - 1) with (Z.ones k) by (rewrite Z.ones_equiv; lia).
  rewrite Z.land_ones by exact Hk. apply Z.mod_small. exact Hr.
Qed.

(* the first partition, with no hypothesis on the header at all *)
Theorem decoded_first_not_over_read data h s parts f :
  parse_header data = Some (h, s, parts) -> VP8.decode_frame data = Some f ->
  ~ over_read (first_partition data) (snd (parse_modes h s)).
Proof.
  intros Hph Hd.
  pose proof (parse_modes_keeps (first_partition data) h s (parse_header_sinv data h s parts Hph)) as Hs'.
  unfold VP8.decode_frame in Hd. rewrite Hph in Hd. destruct (parse_modes h s) as [modes s']. cbn [snd] in *.
  destruct (starved s') eqn:Est; [discriminate Hd|].
  intros O. rewrite (over_read_starved _ _ Hs' O) in Est. discriminate Est.
Qed.

Theorem decoded_not_over_read data h s parts f :
  parse_header data = Some (h, s, parts) -> VP8.decode_frame data = Some f ->
  (h_num_parts h = 1 \/ h_num_parts h = 2 \/ h_num_parts h = 4 \/ h_num_parts h = 8) ->
  length parts = Z.to_nat (h_num_parts h) -> 0 < mb_h h ->
  let '(modes, s') := parse_modes h s in
  let '(res, ps') := parse_tokens h modes (map bd_init parts) in
  ~ over_read (first_partition data) s' /\ ~ parts_over parts ps'.
Proof.
  intros Hph Hd Hnp Lparts Hmbh.
  pose proof (parse_header_sinv data h s parts Hph) as Hs.
  pose proof (parse_modes_keeps (first_partition data) h s Hs) as Hs'.
  assert (Lmodes : length (fst (parse_modes h s)) = Z.to_nat (mb_h h)).
  { unfold parse_modes.
    assert (G : forall rows tops s0 acc, length (fst (parse_mode_rows h rows tops s0 acc)) = (rows + length acc)%nat).
    { induction rows as [|k IH]; intros tops s0 acc; cbn [parse_mode_rows]; [cbn [fst]; rewrite rev_append_rev, app_nil_r, rev_length; reflexivity|].
      destruct (parse_mode_row h (Z.to_nat (mb_w h)) tops [0; 0; 0; 0] s0 [] []) as [[row tops'] s1]. rewrite IH. cbn [length]. lia. }
    rewrite G. cbn [length]. lia. }
  unfold VP8.decode_frame in Hd. rewrite Hph in Hd.
  destruct (parse_modes h s) as [modes s']. cbn [fst snd] in *.
  destruct (starved s') eqn:Est; [discriminate Hd|].
  pose proof (parse_token_rows_sinv parts h modes 0 (tabulate (fun _ => ctx0) (Z.to_nat (mb_w h))) (map bd_init parts) [] (parts_sinv_init parts)) as Hps.
  pose proof (fun i => parse_token_rows_untouched h modes 0 (tabulate (fun _ => ctx0) (Z.to_nat (mb_w h))) (map bd_init parts) [] i) as Hun.
  fold (parse_tokens h modes (map bd_init parts)) in Hps, Hun.
  destruct (parse_tokens h modes (map bd_init parts)) as [res ps']. cbn [snd] in Hps, Hun.
  destruct (existsb starved (firstn (Z.to_nat (Z.min (h_num_parts h) (mb_h h))) ps')) eqn:Eex; [discriminate Hd|]. clear Hd.
  split.
  - intros O. rewrite (over_read_starved _ _ Hs' O) in Est. discriminate Est.
  - intros [i [Hi O]]. destruct Hps as [Lps Hps].
    destruct (Z.ltb_spec (Z.of_nat i) (Z.min (h_num_parts h) (mb_h h))) as [Hused | Hunused].
    + (* a partition decode_frame tests *)
      pose proof (over_read_starved _ _ (Hps i Hi) O) as St.
      assert (Hin : In (nth i ps' (bd_init [])) (firstn (Z.to_nat (Z.min (h_num_parts h) (mb_h h))) ps')).
      { rewrite <- (firstn_skipn (Z.to_nat (Z.min (h_num_parts h) (mb_h h))) ps') at 1.
        rewrite app_nth1 by (rewrite firstn_length; lia). apply nth_In. rewrite firstn_length. lia. }
      assert (Hc : existsb starved (firstn (Z.to_nat (Z.min (h_num_parts h) (mb_h h))) ps') = true)
        by (apply existsb_exists; eexists; split; [exact Hin | exact St]).
      rewrite Hc in Eex. discriminate Eex.
    + (* a partition no row reads: still in its initial state *)
      rewrite Hun in O.
      * replace (nth i (map bd_init parts) (bd_init [])) with (bd_init (nth i parts [])) in O by (symmetry; apply (map_nth bd_init parts [] i)).
        exact (init_not_over_read _ O).
      * intros k Hk. rewrite Lmodes in Hk. rewrite land_small by (try exact Hnp; lia). lia.
Qed.
