(* Proofs/VP8_predict_border.v -- the bordered workspaces of vp8.rs hold the frame neighbours of Spec.VP8:
   [luma_border] / [chroma_border] state it, create_border_luma and the inline chroma border code establish it for
   every macroblock position (interior, top row, left column, corners, last column). *)
From Coq Require Import ZArith NArith List Bool Lia.
From WebP Require Import Lib.Res Lib.ZBits Lib.Arr Gen.Kernels Gen.Tables Spec.VP8Tables Spec.VP8 Proofs.VP8_kernels
  Model.Vp8Predict Proofs.VP8_predict_base.
Import ListNotations.
Open Scope Z_scope.

(* ------------------------------------------------------------------------------------------------------------ *)
(* Spec.VP8 helpers                                                                                             *)
(* ------------------------------------------------------------------------------------------------------------ *)
Lemma tabulate_aux_spec {A} (f : Z -> A) n : forall acc,
  tabulate_aux f n acc = map f (map Z.of_nat (seq 0 n)) ++ acc.
Proof.
  induction n as [|n IH]; intros acc; cbn [tabulate_aux]; [reflexivity|].
  rewrite IH, seq_S, !map_app, <- app_assoc. reflexivity.
Qed.

Lemma tabulate_spec {A} (f : Z -> A) n : tabulate f n = map f (map Z.of_nat (seq 0 n)).
Proof. unfold tabulate. rewrite tabulate_aux_spec, app_nil_r. reflexivity. Qed.

Lemma nthZ_tabulate {A} (f : Z -> A) n i d : 0 <= i < Z.of_nat n -> nthZ (tabulate f n) i d = f i.
Proof.
  intros H. unfold nthZ. rewrite tabulate_spec.
  rewrite (nth_indep _ d (f 0)) by (rewrite !map_length, seq_length; lia).
  rewrite (map_nth f). f_equal.
  rewrite (nth_indep _ 0 (Z.of_nat 0)) by (rewrite map_length, seq_length; lia).
  rewrite (map_nth Z.of_nat), seq_nth by lia. lia.
Qed.

Lemma tabulate_ext {A} (f g : Z -> A) n : (forall i, 0 <= i < Z.of_nat n -> f i = g i) -> tabulate f n = tabulate g n.
Proof.
  intros H. rewrite !tabulate_spec. apply map_ext_in. intros i Hi.
  apply in_map_iff in Hi. destruct Hi as (k & <- & Hk). apply in_seq in Hk. apply H. lia.
Qed.

Lemma pget_above p x y : y < 0 -> pget p x y = 127.
Proof. intros H. unfold pget. rewrite ltb_true by lia. reflexivity. Qed.
Lemma pget_left p x y : 0 <= y -> x < 0 -> pget p x y = 129.
Proof. intros H H0. unfold pget. rewrite ltb_false, ltb_true by lia. reflexivity. Qed.

(* ------------------------------------------------------------------------------------------------------------ *)
(* the luma border                                                                                              *)
(* ------------------------------------------------------------------------------------------------------------ *)
(* the bordered luma workspace [ws] of macroblock (mx, my) holds the frame neighbours, with the reference
   decoder's conventions outside the frame (Spec.VP8.pget: 127 above, 129 to the left) and the top-right rule of
   Spec.VP8.recon_sub (last macroblock column: sample (16 mx + 15, 16 my - 1) four times); the four top-right
   samples are repeated at the right end of rows 4, 8 and 12 *)
Definition luma_border (p : plane) (mbw mx my : Z) (ws : list Z) : Prop :=
  len ws = 357 /\
  get ws 0 = pget p (16 * mx - 1) (16 * my - 1) /\
  (forall i, 0 <= i < 16 -> get ws (1 + i) = pget p (16 * mx + i) (16 * my - 1)) /\
  (forall i, 0 <= i < 4 -> get ws (17 + i) = if mx =? mbw - 1 then pget p (16 * mx + 15) (16 * my - 1)
                                              else pget p (16 * mx + 16 + i) (16 * my - 1)) /\
  (forall i, 0 <= i < 4 -> get ws (4 * 21 + 17 + i) = get ws (17 + i) /\ get ws (8 * 21 + 17 + i) = get ws (17 + i) /\
                           get ws (12 * 21 + 17 + i) = get ws (17 + i)) /\
  (forall j, 0 <= j < 16 -> get ws ((1 + j) * 21) = pget p (16 * mx - 1) (16 * my + j)).

(* what the decoder's top_border / left_border arrays hold when macroblock (mx, my) is reached *)
Definition top_holds (p : plane) (mbw mx my : Z) (top : list Z) : Prop :=
  0 < my ->
  mx * 16 + 16 <= len top /\
  (forall i, 0 <= i < 16 -> get top (mx * 16 + i) = pget p (16 * mx + i) (16 * my - 1)) /\
  (mx <> mbw - 1 -> mx * 16 + 20 <= len top /\
                    forall i, 0 <= i < 4 -> get top (mx * 16 + 16 + i) = pget p (16 * mx + 16 + i) (16 * my - 1)).
Definition left_holds (p : plane) (mx my : Z) (left : list Z) : Prop :=
  0 < mx ->
  17 <= len left /\
  (forall j, 0 <= j < 16 -> get left (1 + j) = pget p (16 * mx - 1) (16 * my + j)) /\
  (0 < my -> get left 0 = pget p (16 * mx - 1) (16 * my - 1)).

Lemma len_luma_ws0 : len luma_ws0 = 357.
Proof. reflexivity. Qed.
Lemma len_chroma_ws0 : len chroma_ws0 = 81.
Proof. reflexivity. Qed.
#[global] Hint Rewrite len_luma_ws0 len_chroma_ws0 : lens.

Ltac decide_eqs :=
  repeat match goal with
  | |- context [?x =? ?y] => first [ rewrite (eqb_false x y) by lia | rewrite (eqb_true x y) by lia ]
  end.

Ltac execL :=
  repeat first
    [ rewrite get_fillf by side
    | rewrite get_set by side
    | progress decide_cmps
    | progress decide_eqs
    | rewrite ltb_false by side
    | rewrite usub_ok by side
    | rewrite rd_ok by side
    | rewrite wr_ok by side
    | rewrite copyf_ok by side
    | rewrite Z.min_l by lia
    | progress change (Z.to_nat 16) with 16%nat
    | progress change (Z.to_nat 4) with 4%nat
    | progress cbn [bind for_]
    | progress cbv beta ].

Ltac readsL :=
  repeat first [ rewrite get_fillf by side | rewrite get_set by side | progress decide_cmps | progress decide_eqs
               | progress cbv beta ].

(* closed arithmetic on numerals *)
Ltac norm_closed :=
  repeat match goal with
  | |- context [?a + ?b] => is_z_num a; is_z_num b; let v := eval vm_compute in (a + b) in change (a + b) with v
  | |- context [?a - ?b] => is_z_num a; is_z_num b; let v := eval vm_compute in (a - b) in change (a - b) with v
  | |- context [?a * ?b] => is_z_num a; is_z_num b; let v := eval vm_compute in (a * b) in change (a * b) with v
  end.

(* evaluate a read of a closed workspace term (the leaves are opaque variables) *)
Ltac ev :=
  repeat match goal with
  | |- context [get ?w ?i] =>
      lazymatch w with set _ _ _ => idtac | fillf _ _ _ _ _ => idtac end;
      let v := eval vm_compute in (get w i) in change (get w i) with v
  end.

Ltac split16i i :=
  let E := fresh "E" in
  assert (i = 0 \/ i = 1 \/ i = 2 \/ i = 3 \/ i = 4 \/ i = 5 \/ i = 6 \/ i = 7 \/ i = 8 \/ i = 9 \/ i = 10 \/ i = 11
          \/ i = 12 \/ i = 13 \/ i = 14 \/ i = 15) as E by lia;
  destruct E as [-> | [-> | [-> | [-> | [-> | [-> | [-> | [-> | [-> | [-> | [-> | [-> | [-> | [-> | [-> | ->]]]]]]]]]]]]]]].
Ltac split4i i :=
  let E := fresh "E" in
  assert (i = 0 \/ i = 1 \/ i = 2 \/ i = 3) as E by lia; destruct E as [-> | [-> | [-> | ->]]].

Ltac leaf_fin :=
  first
    [ reflexivity
    | symmetry; apply pget_above; lia
    | symmetry; apply pget_left; lia
    | match goal with
      | Etv : forall k, ?tv k = get ?top (_ * 16 + k), H : forall i, _ -> get ?top (_ * 16 + i) = pget _ _ _ |- ?tv _ = pget _ _ _ =>
          rewrite Etv; apply H; lia
      end
    | match goal with
      | Etr : forall k, ?tr k = get ?top (_ * 16 + 16 + k), H : forall i, _ -> get ?top (_ * 16 + 16 + i) = pget _ _ _ |- ?tr _ = pget _ _ _ =>
          rewrite Etr; apply H; lia
      end
    | match goal with
      | Elv : forall k, ?lv k = get ?left k, H : forall j, _ -> get ?left (1 + j) = pget _ _ _ |- ?lv _ = pget _ _ (_ + ?K) =>
          rewrite Elv; exact (H K ltac:(lia))
      end
    | match goal with
      | Elv : forall k, ?lv k = get ?left k, H : _ -> get ?left 0 = pget _ _ _ |- ?lv 0 = pget _ _ _ =>
          rewrite Elv; apply H; lia
      end ].

Theorem create_border_luma_spec p mbw mx my top left :
  0 <= mx < mbw -> 0 <= my -> top_holds p mbw mx my top -> left_holds p mx my left ->
  exists ws, create_border_luma mx my mbw top left = Ok ws /\ luma_border p mbw mx my ws.
Proof.
  intros Hmx Hmy Ht Hl. unfold top_holds in Ht. unfold left_holds in Hl.
  unfold create_border_luma, luma_stride.
  destruct (Z.eqb_spec my 0) as [Ey|Ey]; destruct (Z.eqb_spec mx 0) as [Ex|Ex];
    try (destruct (Ht ltac:(lia)) as (Hlt & Ht16 & Htr); clear Ht);
    try (destruct (Hl ltac:(lia)) as (Hll & Hl16 & Hl0); clear Hl);
    execL;
    try (destruct (Z.eqb_spec mx (mbw - 1)) as [Er|Er]; [|destruct (Htr Er) as (Hlt2 & Ht4)]; execL).
  all: norm_closed.
  all: pose (tv := fun k : Z => get top (mx * 16 + k)); pose (tr := fun k : Z => get top (mx * 16 + 16 + k));
       pose (lv := get left);
       change (fun k : Z => get top (mx * 16 + k)) with tv;
       change (fun k : Z => get top (mx * 16 + 16 + k)) with tr;
       change (get top (mx * 16 + 15)) with (tv 15);
       change (get top (mx * 16 + 16 + 0)) with (tr 0); change (get top (mx * 16 + 16 + 1)) with (tr 1);
       change (get top (mx * 16 + 16 + 2)) with (tr 2); change (get top (mx * 16 + 16 + 3)) with (tr 3);
       change (get left) with lv;
       assert (Etv : forall k, tv k = get top (mx * 16 + k)) by reflexivity;
       assert (Etr : forall k, tr k = get top (mx * 16 + 16 + k)) by reflexivity;
       assert (Elv : forall k, lv k = get left k) by reflexivity;
       clearbody tv tr lv.
  all: eexists; (split; [reflexivity|]).
  all: unfold luma_border; split; [lens; reflexivity|].
  all: split; [ev|split; [intros i Hi; split16i i; ev|split; [intros i Hi; split4i i; ev|split; [intros i Hi; split4i i; ev; repeat split|intros i Hi; split16i i; ev]]]].
  all: try (destruct (Z.eqb_spec mx (mbw - 1)); [|try lia]); try lia.
  all: leaf_fin.
Qed.
