(* C03 for the VP8 key-frame decoder, reconstruction half, part 3: crop, and the whole of Vp8Recon.decode_frame_planes.
     decode_frame_planes_safe   for EVERY header within the ranges read_frame_header can produce (rhdr_ok; width or height 0
                                included) and EVERY macroblock list satisfying the parser's output invariant (rec_ok) of
                                the announced length, the reconstruction half returns Ok -- no index / slice / overflow
                                panic, no OutOfFuel -- and, when both sizes are positive, planes of the announced sizes
                                holding bytes (ReadImage_lossy.planes_ok).
   No hypothesis about stream validity: in particular no `lf_valid` (the segment-adjusted filter base may leave 0..63). *)
From Coq Require Import ZArith NArith List Bool Lia.
From WebP Require Import Lib.Res Lib.ZBits Lib.Arr Spec.VP8 Model.Vp8Predict Model.Vp8Recon
  Proofs.VP8_predict_base Proofs.VP8_recon_base Proofs.VP8_recon_bytes Proofs.VP8_recon_edge Proofs.VP8_recon_stages
  Proofs.VP8_recon_pass Proofs.VP8_decode_planes Proofs.ReadImage_lossy
  Proofs.VP8_safe_defs Proofs.VP8_safe_recon_filter Proofs.VP8_safe_recon_rel.
From WebP Require Model.Vp8Parse.
Import ListNotations.
Open Scope Z_scope.
Ltac Zify.zify_post_hook ::= Z.div_mod_to_equations.

(* ------------------------------------------------------------------------------------------------------------ *)
(* 1. crop_plane                                                                                                *)
(* ------------------------------------------------------------------------------------------------------------ *)
Lemma cell_in_plane stride Hh width height y x :
  0 <= width <= stride -> 0 <= height <= Hh -> 0 <= y < height -> 0 <= x < width -> 0 <= y * stride + x < stride * Hh.
Proof. intros Hw Hh' Hy Hx. assert (0 <= y * stride) by nia. assert ((y + 1) * stride <= Hh * stride) by nia. lia. Qed.

Theorem crop_plane_safe a stride width height Hh :
  abytes_in a -> alenZ a = stride * Hh -> 0 <= width <= stride -> 0 <= height <= Hh ->
  exists l, crop_plane a stride width height = Ok l /\
            length l = (Z.to_nat width * Z.to_nat height)%nat /\ Forall byte l.
Proof.
  intros Ha L Hw Hh'.
  exists (VP8.crop (mkP stride a) width height).
  split; [apply (crop_plane_refines a (mkP stride a) stride width height Hh (aeq_refl a) eq_refl L Hw Hh')|].
  split; [apply crop_length|].
  unfold VP8.crop. rewrite crop_rows_spec, app_nil_r. unfold rows_list.
  apply Forall_forall. intros v Hv. apply in_flat_map in Hv. destruct Hv as (y & Hy & Hv).
  apply in_map_iff in Hv. destruct Hv as (k & <- & Hk). apply in_seq in Hy. apply in_seq in Hk.
  cbn [p_a p_w].
  pose proof (cell_in_plane stride Hh width height (Z.of_nat y) (Z.of_nat k) Hw Hh' ltac:(lia) ltac:(lia)) as Hc.
  apply Ha. rewrite L. exact Hc.
Qed.

Lemma half_nat w : 0 <= w -> Z.to_nat ((w + 1) / 2) = ((Z.to_nat w + 1) / 2)%nat.
Proof.
  intros Hw. rewrite <- half_up_nat by exact Hw. rewrite Z.shiftr_div_pow2 by lia. reflexivity.
Qed.

(* ------------------------------------------------------------------------------------------------------------ *)
(* 2. the reconstruction half as a whole                                                                        *)
(* ------------------------------------------------------------------------------------------------------------ *)
(* the shape of the returned planes, for every header (0 x h and w x 0 frames have empty planes) *)
Theorem decode_frame_planes_shape (h : RHdr) (recs : list (MacroBlock * list Z)) :
  rhdr_ok h -> Forall rec_ok recs -> length recs = Z.to_nat (rh_mbwidth h * rh_mbheight h) ->
  exists y u v, Vp8Recon.decode_frame_planes h recs = Ok (y, u, v) /\
    length y = (Z.to_nat (rh_width h) * Z.to_nat (rh_height h))%nat /\
    length u = (((Z.to_nat (rh_width h) + 1) / 2) * ((Z.to_nat (rh_height h) + 1) / 2))%nat /\
    length v = (((Z.to_nat (rh_width h) + 1) / 2) * ((Z.to_nat (rh_height h) + 1) / 2))%nat /\
    Forall byte y /\ Forall byte u /\ Forall byte v.
Proof.
  intros Hh Hok Hlen. pose proof Hh as (Hw & Hhh & Emw & Emh & _).
  destruct (reconstruct_safe h recs Hh Hok Hlen) as (s & Es & Hpl & Em).
  destruct (filter_frame_safe h (rs_macroblocks s) (rs_ybuf s, rs_ubuf s, rs_vbuf s) (rhdr_ok_fhdr h Hh)) as (b' & Ef & Hb').
  { rewrite Em, map_length. exact Hlen. }
  { rewrite Em. apply Forall_forall. intros mb Hmb. apply in_map_iff in Hmb. destruct Hmb as (r & <- & Hr).
    rewrite Forall_forall in Hok. apply rec_ok_seg. apply Hok. exact Hr. }
  { exact Hpl. }
  destruct b' as [[y u] v]. destruct Hb' as ((_ & By & Ly) & (_ & Bu & Lu) & (_ & Bv & Lv)). cbn [fst snd] in *.
  assert (Hmw : rh_width h <= rh_mbwidth h * 16) by lia.
  assert (Hmh : rh_height h <= rh_mbheight h * 16) by lia.
  destruct (crop_plane_safe y (rh_mbwidth h * 16) (rh_width h) (rh_height h) (rh_mbheight h * 16) By Ly ltac:(lia) ltac:(lia))
    as (fy & Ey & Lfy & Bfy).
  destruct (crop_plane_safe u (rh_mbwidth h * 8) ((rh_width h + 1) / 2) ((rh_height h + 1) / 2) (rh_mbheight h * 8) Bu Lu
              ltac:(lia) ltac:(lia)) as (fu & Eu & Lfu & Bfu).
  destruct (crop_plane_safe v (rh_mbwidth h * 8) ((rh_width h + 1) / 2) ((rh_height h + 1) / 2) (rh_mbheight h * 8) Bv Lv
              ltac:(lia) ltac:(lia)) as (fv & Ev & Lfv & Bfv).
  exists fy, fu, fv. split.
  - unfold decode_frame_planes, decode_frame_recon. rewrite Es. cbn [bind]. rewrite Ef. cbn [bind].
    unfold chroma_size. rewrite (ltb_false 65535 (rh_width h + 1)), (ltb_false 65535 (rh_height h + 1)) by lia. cbn [bind].
    rewrite Ey. cbn [bind]. rewrite Eu. cbn [bind]. rewrite Ev. cbn [bind snd]. reflexivity.
  - rewrite !half_nat in Lfu, Lfv by lia. repeat split; assumption.
Qed.

Theorem decode_frame_planes_safe : forall (h : RHdr) (recs : list (MacroBlock * list Z)),
  rhdr_ok h -> Forall rec_ok recs -> length recs = Z.to_nat (rh_mbwidth h * rh_mbheight h) ->
  exists y u v, Vp8Recon.decode_frame_planes h recs = Ok (y, u, v) /\
                (1 <= rh_width h -> 1 <= rh_height h -> planes_ok (rh_width h) (rh_height h) y u v).
Proof.
  intros h recs Hh Hok Hlen.
  destruct (decode_frame_planes_shape h recs Hh Hok Hlen) as (y & u & v & E & Ly & Lu & Lv & By & Bu & Bv).
  exists y, u, v. split; [exact E|]. intros Hw1 Hh1. destruct Hh as (Hw & Hhh & _).
  unfold planes_ok. repeat split; try assumption; lia.
Qed.
