(* VP8 parsing: where read_frame_header (Model.Vp8Parse, = the crate by the correspondence check) and Spec.VP8.parse_header
   (= libwebp 1.3.1) do NOT accept the same payloads.  Concrete witnesses, evaluated by vm_compute.
   Each payload: 3-byte frame tag (key frame, first partition of 8 bytes), start code 9d 01 2a, 16 x 16, first partition,
   token partition(s).  None of them is a stream an encoder produces; C02 speaks about valid streams only. *)
From Coq Require Import ZArith List Bool.
From WebP Require Import Lib.Res Spec.BoolDec Spec.VP8 Model.ArithDec Model.Vp8Parse.
Import ListNotations.
Open Scope Z_scope.

Definition run_header (payload : list Z) : res Vp8 := bind (Vp8_new payload) read_frame_header.
Definition spec_accepts (payload : list Z) : bool := match parse_header payload with Some _ => true | None => false end.
Definition model_result (payload : list Z) : Z :=     (* 0 = Ok, otherwise the error code of vp8p_err_code, 100 = panic *)
  match run_header payload with Ok _ => 0 | Err e => vp8p_err_code e | Panic _ => 100 | OutOfFuel => 101 end.

(* a well-formed reference point: both accept *)
Definition w_ok : list Z := [16; 1; 0; 157; 1; 42; 16; 0; 16; 0] ++ [0; 0; 0; 0; 0; 0; 0; 0] ++ [0].
(* colour-space bit set (first bit of the first partition): libwebp ignores the bit, the crate rejects the frame *)
Definition w_colour_space : list Z := [16; 1; 0; 157; 1; 42; 16; 0; 16; 0] ++ [128; 0; 0; 0; 0; 0; 0; 0] ++ [0].
(* width 0: libwebp rejects, the crate's header parser accepts (0 macroblocks) *)
Definition w_width0 : list Z := [16; 1; 0; 157; 1; 42; 0; 0; 16; 0] ++ [0; 0; 0; 0; 0; 0; 0; 0] ++ [0].
(* show_frame = 0: libwebp rejects, the crate ignores the bit *)
Definition w_hidden : list Z := [0; 1; 0; 157; 1; 42; 16; 0; 16; 0] ++ [0; 0; 0; 0; 0; 0; 0; 0] ++ [0].
(* profile (version) 4: libwebp rejects, the crate accepts every 3-bit version *)
Definition w_profile4 : list Z := [24; 1; 0; 157; 1; 42; 16; 0; 16; 0] ++ [0; 0; 0; 0; 0; 0; 0; 0] ++ [0].
(* two partitions, the first of 1 byte, nothing left for the last one: libwebp rejects an empty last partition, the crate
   initialises it with no data (and fails later only if a macroblock row reads from it) *)
Definition w_empty_last : list Z := [16; 1; 0; 157; 1; 42; 16; 0; 16; 0] ++ [0; 1; 0; 0; 0; 0; 0; 0] ++ [1; 0; 0] ++ [7].
(* declared partition size larger than what is left: both reject (libwebp: the cut-down partition leaves the last one empty;
   the crate: read_exact fails) -- no disagreement here *)
Definition w_oversized : list Z := [16; 1; 0; 157; 1; 42; 16; 0; 16; 0] ++ [0; 1; 0; 0; 0; 0; 0; 0] ++ [10; 0; 0] ++ [7; 7].

Theorem header_acceptance_refuted :
  (spec_accepts w_ok = true /\ model_result w_ok = 0) /\
  (spec_accepts w_colour_space = true /\ model_result w_colour_space = 3 (* ColorSpaceInvalid *)) /\
  (spec_accepts w_width0 = false /\ model_result w_width0 = 0) /\
  (spec_accepts w_hidden = false /\ model_result w_hidden = 0) /\
  (spec_accepts w_profile4 = false /\ model_result w_profile4 = 0) /\
  (spec_accepts w_empty_last = false /\ model_result w_empty_last = 0) /\
  (spec_accepts w_oversized = false /\ model_result w_oversized = 1 (* IoError *)).
Proof. repeat split; vm_compute; reflexivity. Qed.
