(* C03 for the VP8L pixel loop (Model.Lossless.pixel_loop = decode_image_data): the building blocks never panic
   under the invariants the decoder maintains -- symbol bounds of the prefix tables, colour-cache size, buffer length
   4 * width * height, index <= num_values -- and keep those invariants. *)
From Coq Require Import ZArith NArith List Bool Lia FMapPositive.
From WebP Require Import Lib.Res Lib.Arr Lib.ZBits Gen.Tables Model.LosslessLib Model.BitReader Model.Huffman Model.Lossless
     Proofs.Lossless_BitReader Proofs.Lossless_HuffmanSafe Proofs.Lossless_HuffmanRead Proofs.Lossless_CopyWithin
     Proofs.Lossless_SymSchedule.
Import ListNotations.
Open Scope Z_scope.

Ltac Zify.zify_post_hook ::= Z.div_mod_to_equations.

(* ---------- buffer accesses ---------- *)
Lemma zwrite_ok a start l : 0 <= start -> start + Z.of_nat (length l) <= zlen a ->
  exists a', zwrite a start l = Ok a' /\ zlen a' = zlen a.
Proof.
  intros Hs Hl. unfold zwrite, zlen in *. replace (start <? 0) with false by (symmetry; apply Z.ltb_ge; lia).
  unfold awrite. replace (Z.to_N start + N.of_nat (length l) <=? alen a)%N with true by (symmetry; apply N.leb_le; lia).
  cbn [of_option]. eexists. split; reflexivity.
Qed.

Lemma write4_ok a i p : 0 <= i -> i + 4 <= zlen a -> exists a', write4 a i p = Ok a' /\ zlen a' = zlen a.
Proof. intros Hi Hl. destruct p as [[[b0 b1] b2] b3]. unfold write4. apply zwrite_ok; cbn [length]; lia. Qed.

Lemma set4_ok a i p : 0 <= i -> i + 4 <= zlen a -> exists a', set4 a i p = Ok a' /\ zlen a' = zlen a.
Proof.
  intros Hi Hl. destruct p as [[[b0 b1] b2] b3]. unfold set4.
  destruct (zset_ok a i b0 ltac:(lia)) as (a1 & E1 & L1 & _). rewrite E1. cbn [bind].
  destruct (zset_ok a1 (i + 1) b1 ltac:(lia)) as (a2 & E2 & L2 & _). rewrite E2. cbn [bind].
  destruct (zset_ok a2 (i + 2) b2 ltac:(lia)) as (a3 & E3 & L3 & _). rewrite E3. cbn [bind].
  destruct (zset_ok a3 (i + 3) b3 ltac:(lia)) as (a4 & E4 & L4 & _). exists a4. split; [exact E4 | lia].
Qed.

Lemma get4_ok a i : 0 <= i -> i + 4 <= zlen a -> exists p, get4 a i = Ok p.
Proof. intros Hi Hl. unfold get4. rewrite !zget_ok by lia. cbn [bind]. eauto. Qed.

Lemma slice4_ok a i : 0 <= i -> i + 4 <= zlen a -> exists p, slice4 a i = Ok p.
Proof.
  intros Hi Hl. unfold slice4, zslice, zlen in *.
  replace ((i <? 0) || (4 <? 0)) with false by (symmetry; apply orb_false_iff; split; apply Z.ltb_ge; lia).
  unfold aslice. replace (Z.to_N i + Z.to_N 4 <=? alen a)%N with true by (symmetry; apply N.leb_le; lia).
  cbn [of_option bind]. change (N.to_nat (Z.to_N 4)) with 4%nat. cbn [slice_aux]. eauto.
Qed.

Lemma fill_pixels_ok data index n value : 0 <= index -> 0 <= n -> 4 * (index + n) <= zlen data ->
  exists data', fill_pixels data index n value = Ok data' /\ zlen data' = zlen data.
Proof.
  intros Hi Hn Hl. unfold fill_pixels, for_range.
  destruct (for_loop_inv (fun (_ : Z) (d : arr) => zlen d = zlen data)
              (fun i d => write4 d (index * 4 + i * 4) value) 1 (Z.to_nat (n - 0)) 0 data eq_refl) as (d' & E & H).
  - intros j d (m & Hm & Hj) Hd. destruct (write4_ok d (index * 4 + j * 4) value ltac:(lia) ltac:(lia)) as (d1 & E1 & L1).
    exists d1. split; [exact E1 | lia].
  - exists d'. split; [exact E | exact H].
Qed.

(* ---------- the colour cache ---------- *)
Definition cache_ok (c : color_cache) : Prop := 1 <= cbits c <= 11 /\ vzlen (ccache c) = 2 ^ cbits c.

Lemma cache_new_ok bits : 1 <= bits <= 11 -> cache_ok (cache_new bits).
Proof.
  intros H. unfold cache_ok, cache_new. cbn [cbits ccache]. split; [assumption|].
  unfold vzlen, vmake. cbn [vlen]. rewrite Z.shiftl_1_l. rewrite Z2N.id; [reflexivity | apply Z.pow_nonneg; lia].
Qed.

Lemma cache_insert_ok c p : cache_ok c -> exists c', cache_insert c p = Ok c' /\ cache_ok c'.
Proof.
  intros [Hb Hl]. destruct p as [[[r g] b] a]. unfold cache_insert.
  unfold usub. replace (32 <? cbits c) with false by (symmetry; apply Z.ltb_ge; lia). cbn [bind].
  replace (32 <=? 32 - cbits c) with false by (symmetry; apply Z.leb_gt; lia).
  set (x := (506832829 * Z.lor (Z.lor (Z.lor (Z.shiftl r 16) (Z.shiftl g 8)) b) (Z.shiftl a 24)) mod 2 ^ 32).
  assert (Hx : 0 <= x < 2 ^ 32) by (apply Z.mod_pos_bound; reflexivity).
  assert (Hidx : 0 <= Z.shiftr x (32 - cbits c) < vzlen (ccache c)).
  { rewrite Hl. rewrite Z.shiftr_div_pow2 by lia.
    assert (Hp : 0 < 2 ^ (32 - cbits c)) by (apply Z.pow_pos_nonneg; lia).
    split; [apply Z.div_pos; lia|]. apply Z.div_lt_upper_bound; [assumption|].
    rewrite <- Z.pow_add_r by lia. replace (32 - cbits c + cbits c) with 32 by lia. lia. }
  destruct (vset_ok (ccache c) _ (r, g, b, a) Hidx) as (v' & E & L & _). rewrite E. cbn [bind].
  eexists. split; [reflexivity|]. unfold cache_ok. cbn [cbits ccache]. split; [assumption | lia].
Qed.

Lemma cache_lookup_ok c i : cache_ok c -> 0 <= i < 2 ^ cbits c -> exists p, cache_lookup c i = Ok p.
Proof. intros [Hb Hl] Hi. unfold cache_lookup. rewrite vget_ok by lia. eauto. Qed.

Lemma cache_insert_bits c p c' : cache_insert c p = Ok c' -> cbits c' = cbits c.
Proof.
  unfold cache_insert. destruct p as [[[r g] b] a]. destruct (usub 32 (cbits c)) as [sh| | |]; cbn [bind]; try discriminate.
  destruct (32 <=? sh); try discriminate. destruct (vset (ccache c) _ _) as [v| | |]; cbn [bind]; try discriminate.
  intros E. injection E as <-. reflexivity.
Qed.

Lemma cache_insert_range_ok c data index length : cache_ok c -> 0 <= index -> 0 <= length ->
  4 * (index + length) <= zlen data ->
  exists c', cache_insert_range c data index length = Ok c' /\ cache_ok c' /\ cbits c' = cbits c.
Proof.
  intros Hc Hi Hn Hl. unfold cache_insert_range.
  replace (zlen data <? index * 4 + length * 4) with false by (symmetry; apply Z.ltb_ge; lia).
  unfold for_range.
  destruct (for_loop_inv (fun (_ : Z) (c0 : color_cache) => cache_ok c0 /\ cbits c0 = cbits c)
              (fun i c0 => bind (get4 data (index * 4 + i * 4)) (fun p => cache_insert c0 p)) 1 (Z.to_nat (length - 0)) 0 c
              (conj Hc eq_refl))
    as (c' & E & H).
  - intros j c0 (m & Hm & Hj) [Hc0 Hb0]. destruct (get4_ok data (index * 4 + j * 4) ltac:(lia) ltac:(lia)) as (p & Ep).
    rewrite Ep. cbn [bind]. destruct (cache_insert_ok c0 p Hc0) as (c1 & E1 & Hc1). exists c1. split; [exact E1|].
    split; [assumption|]. rewrite (cache_insert_bits c0 p c1 E1). assumption.
  - exists c'. split; [exact E | exact H].
Qed.

(* ---------- LZ77 parameters ---------- *)
Lemma distance_map_shape :
  forallb (fun e => match e with [_; _] => true | _ => false end) lossless_DISTANCE_MAP = true /\
  length lossless_DISTANCE_MAP = 120%nat.
Proof. vm_compute. split; reflexivity. Qed.

Lemma plane_code_ok xsize pc : 1 <= pc -> exists d, plane_code_to_distance xsize pc = Ok d /\ 1 <= d.
Proof.
  intros Hpc. unfold plane_code_to_distance. destruct (120 <? pc) eqn:E.
  - apply Z.ltb_lt in E. exists (pc - 120). split; [reflexivity | lia].
  - apply Z.ltb_ge in E. unfold usub. replace (pc <? 1) with false by (symmetry; apply Z.ltb_ge; lia). cbn [bind].
    destruct distance_map_shape as [Hshape Hlen].
    destruct (nth_error lossless_DISTANCE_MAP (Z.to_nat (pc - 1))) as [e|] eqn:En.
    + pose proof (proj1 (forallb_forall _ _) Hshape e (nth_error_In _ _ En)) as He.
      destruct e as [|x [|y [|z e]]]; try discriminate.
      destruct (x + y * xsize <? 1) eqn:Ed; [exists 1; split; [reflexivity | lia]|].
      apply Z.ltb_ge in Ed. eexists. split; [reflexivity | lia].
    + apply nth_error_None in En. lia.
Qed.

Lemma get_copy_distance_ok s br pc : R s br -> 0 <= pc < 40 ->
  (exists v br' s', get_copy_distance br pc = Ok (v, br') /\ 1 <= v /\ R s' br' /\ data br' = data br /\ nbits br' <= nbits br) \/
  get_copy_distance br pc = Err EBitStreamError.
Proof.
  intros HR Hpc. unfold get_copy_distance. destruct (pc <? 4) eqn:E.
  - apply Z.ltb_lt in E. left. exists (pc + 1), br, s. split; [reflexivity|]. split; [lia|]. split; [exact HR|]. split; [reflexivity | lia].
  - apply Z.ltb_ge in E.
    assert (Heb : 1 <= Z.shiftr (pc - 2) 1 <= 18) by (rewrite Z.shiftr_div_pow2 by lia; change (2 ^ 1) with 2; lia).
    set (eb := Z.shiftr (pc - 2) 1) in *.
    replace (255 <? eb) with false by (symmetry; apply Z.ltb_ge; lia).
    unfold peek. replace ((eb <? 0) || (64 <=? eb)) with false
      by (symmetry; apply orb_false_iff; split; [apply Z.ltb_ge | apply Z.leb_gt]; lia).
    cbn [bind]. destruct (Z_lt_ge_dec (nbits br) eb) as [Hlt|Hge].
    + right. rewrite consume_short by assumption. reflexivity.
    + left. destruct (consume_R s br eb HR ltac:(lia)) as (br' & Ec & HR' & Hn' & Hd'). rewrite Ec. cbn [bind].
      pose proof HR as (_ & HB & _).
      assert (Hland : 0 <= Z.land (buffer br) (Z.ones eb)) by (apply Z.land_nonneg; left; assumption).
      assert (Hoff : 0 <= Z.shiftl (2 + Z.land pc 1) eb).
      { apply Z.shiftl_nonneg. assert (0 <= Z.land pc 1) by (apply Z.land_nonneg; left; lia). lia. }
      eexists _, br', _. split; [reflexivity|]. split; [lia|]. split; [exact HR'|]. split; [assumption | lia].
Qed.

(* ---------- symbols a table can deliver ---------- *)
Definition tree_lt (t : tree) (n : Z) : Prop :=
  (forall r v r', read_symbol t r = Ok (v, r') -> 0 <= v < n) /\
  (forall r b v, peek_symbol t r = Ok (Some (b, v)) -> 0 <= v < n /\ 0 <= b <= 15).

Lemma single_lt s n : 0 <= s < n -> tree_lt (Single s) n.
Proof.
  intros H. split.
  - intros r v r' E. cbn in E. injection E as <- _. assumption.
  - intros r b v E. cbn in E. injection E as <- <-. split; [assumption | lia].
Qed.

Lemma two_node_lt a b n : 0 <= a < 65536 -> 0 <= b < 65536 -> a < n -> b < n -> tree_lt (build_two_node a b) n.
Proof.
  intros Ha Hb Han Hbn. split.
  - intros r v r' E. destruct (two_node_raw a b r Ha Hb) as [E1 _]. rewrite E1 in E.
    destruct (consume r 1); cbn [bind] in E; try discriminate. injection E as <- _.
    match goal with |- context [if ?c then _ else _] => destruct c end; lia.
  - intros r bb v E. destruct (two_node_raw a b r Ha Hb) as [_ E1]. rewrite E1 in E. injection E as <- <-.
    split; [match goal with |- context [if ?c then _ else _] => destruct c end; lia | lia].
Qed.

Lemma position_nonzero_bound : forall ls k i, position_nonzero ls k = Some i -> k <= i < k + Z.of_nat (length ls).
Proof.
  induction ls as [|x ls IH]; intros k i E; cbn [position_nonzero] in E; [discriminate|].
  destruct (x =? 0).
  - specialize (IH (k + 1) i E). cbn [length]. lia.
  - injection E as <-. cbn [length]. lia.
Qed.

Lemma built_lt lens t : lens_ok lens -> Z.of_nat (length lens) <= 5957 -> build_implicit lens = Ok t ->
  tree_lt t (Z.of_nat (length lens)).
Proof.
  intros Hok Hlen Hb.
  destruct (build_implicit_spec lens Hok Hlen) as [E|(t' & E & Hbuilt)]; [congruence|].
  rewrite Hb in E. injection E as <-.
  destruct Hbuilt as [sym H1 Hp|hist mx tb nc nodes table H2 Hcx Hzn Hlast Hk Hls Htab Hwf Hg].
  - apply single_lt. pose proof (position_nonzero_bound lens 0 sym Hp).
    rewrite Z.mod_small by (change (2 ^ 16) with 65536; lia). lia.
  - assert (Hctx : tctx lens hist mx tb nc nodes table) by (constructor; assumption).
    assert (Hfind : forall r, exists sym, (sym < length lens)%nat /\ 1 <= nth sym lens 0 <= 15 /\
               read_symbol (Tree nodes table (2 ^ tb - 1)) r = bind (consume r (nth sym lens 0)) (fun r' => Ok (Z.of_nat sym, r')) /\
               peek_symbol (Tree nodes table (2 ^ tb - 1)) r = Ok (if nth sym lens 0 <=? tb then Some (nth sym lens 0, Z.of_nat sym) else None)).
    { intros r. assert (Hv0 : 0 <= peek_full r mod 2 ^ 16) by (apply Z.mod_pos_bound; reflexivity).
      destruct (exists_symbol lens hist mx tb nc nodes table _ Hctx Hv0) as (sym & Hs & Hn & Hm).
      exists sym. split; [assumption|]. split.
      - pose proof (proj1 (Forall_forall _ _) Hok (nth sym lens 0) ltac:(apply nth_In; assumption)) as H. cbn beta in H. lia.
      - apply (lookup_code lens hist mx tb nc nodes table sym r Hctx Hs Hn Hm). }
    split.
    + intros r v r' E. destruct (Hfind r) as (sym & Hs & Hl & Er & _). rewrite Er in E.
      destruct (consume r (nth sym lens 0)); cbn [bind] in E; try discriminate. injection E as <- _. lia.
    + intros r b v E. destruct (Hfind r) as (sym & Hs & Hl & _ & Ep). rewrite Ep in E.
      destruct (nth sym lens 0 <=? tb); [|discriminate]. injection E as <- <-. lia.
Qed.

(* ---------- reading a symbol keeps the reader invariant ---------- *)
Lemma read_symbol_R t s br : tree_ok t -> R s br ->
  (exists v br' s', read_symbol t br = Ok (v, br') /\ R s' br') \/ read_symbol t br = Err EBitStreamError.
Proof.
  intros Ht HR.
  assert (Hc : forall l v, 1 <= l <= 15 ->
     (exists v' br' s', bind (consume br l) (fun r' => Ok (v, r')) = Ok (v', br') /\ R s' br') \/
     bind (consume br l) (fun r' => Ok (v, r')) = (Err EBitStreamError : res (Z * BitReader.t))).
  { intros l v Hl. destruct (Z_lt_ge_dec (nbits br) l) as [Hlt|Hge].
    - right. rewrite consume_short by assumption. reflexivity.
    - left. destruct (consume_R s br l HR ltac:(lia)) as (br' & Ec & HR' & _). rewrite Ec. cbn [bind]. eauto. }
  destruct Ht as [sy | a b Ha Hb | lens t Hok Hlen Hb].
  - left. cbn [read_symbol]. eauto.
  - destruct (two_node_raw a b br Ha Hb) as [E _]. rewrite E. apply Hc. lia.
  - destruct (build_implicit_spec lens Hok Hlen) as [E|(t' & E & Hbuilt)]; [congruence|].
    rewrite Hb in E. injection E as <-.
    destruct Hbuilt as [sym H1 Hp|hist mx tb nc nodes table H2 Hcx Hzn Hlast Hk Hls Htab Hwf Hg].
    + left. cbn [read_symbol]. eauto.
    + assert (Hctx : tctx lens hist mx tb nc nodes table) by (constructor; assumption).
      assert (Hv0 : 0 <= peek_full br mod 2 ^ 16) by (apply Z.mod_pos_bound; reflexivity).
      destruct (exists_symbol lens hist mx tb nc nodes table _ Hctx Hv0) as (sym & Hs & Hn & Hm).
      destruct (lookup_code lens hist mx tb nc nodes table sym br Hctx Hs Hn Hm) as [E _]. rewrite E. apply Hc.
      pose proof (proj1 (Forall_forall _ _) Hok (nth sym lens 0) ltac:(apply nth_In; assumption)) as H. cbn beta in H. lia.
Qed.

Lemma peek_symbol_ok t br : tree_ok t -> exists o, peek_symbol t br = Ok o.
Proof.
  intros Ht. destruct Ht as [sy | a b Ha Hb | lens t Hok Hlen Hb].
  - cbn. eauto.
  - destruct (two_node_raw a b br Ha Hb) as [_ E]. rewrite E. eauto.
  - destruct (build_implicit_spec lens Hok Hlen) as [E|(t' & E & Hbuilt)]; [congruence|].
    rewrite Hb in E. injection E as <-.
    destruct Hbuilt as [sym H1 Hp|hist mx tb nc nodes table H2 Hcx Hzn Hlast Hk Hls Htab Hwf Hg].
    + cbn. eauto.
    + assert (Hctx : tctx lens hist mx tb nc nodes table) by (constructor; assumption).
      assert (Hv0 : 0 <= peek_full br mod 2 ^ 16) by (apply Z.mod_pos_bound; reflexivity).
      destruct (exists_symbol lens hist mx tb nc nodes table _ Hctx Hv0) as (sym & Hs & Hn & Hm).
      destruct (lookup_code lens hist mx tb nc nodes table sym br Hctx Hs Hn Hm) as [_ E]. rewrite E. eauto.
Qed.

Lemma fill_if_R s br (c : bool) : R s br -> exists br', (if c then fill br else Ok br) = Ok br' /\ R s br'.
Proof. intros HR. destruct c; [destruct (fill_ok s br HR) as (br' & E & HR' & _); eauto | eauto]. Qed.

Lemma lor_ge a b : 0 <= a -> 0 <= b -> a <= Z.lor a b.
Proof.
  intros Ha Hb. assert (E : Z.lor a b = a + Z.ldiff b a).
  { assert (E1 : Z.lor a b = Z.lor a (Z.ldiff b a)).
    { apply Z.bits_inj'. intros i Hi. rewrite !Z.lor_spec, Z.ldiff_spec. destruct (Z.testbit a i), (Z.testbit b i); reflexivity. }
    assert (E2 : Z.land a (Z.ldiff b a) = 0).
    { apply Z.bits_inj'. intros i Hi. rewrite Z.land_spec, Z.ldiff_spec, Z.bits_0. destruct (Z.testbit a i), (Z.testbit b i); reflexivity. }
    rewrite E1. rewrite <- Z.lxor_lor by assumption. symmetry. apply Z.add_nocarry_lxor. assumption. }
  rewrite E. assert (0 <= Z.ldiff b a) by (apply Z.ldiff_nonneg; left; assumption). lia.
Qed.

(* ---------- the invariants of decode_image_data ---------- *)
Record group_ok (g : group) (green_n : Z) : Prop := {
  go_green : tree_ok (g_green g);
  go_green_lt : tree_lt (g_green g) green_n;
  go_red : tree_ok (g_red g);
  go_blue : tree_ok (g_blue g);
  go_alpha : tree_ok (g_alpha g);
  go_dist : tree_ok (g_dist g);
  go_dist_lt : tree_lt (g_dist g) 40 }.

(* a block whose four colour codes are single symbols with a literal green: the fast path applies *)
Definition fastable (g : group) : Prop := all_single g = true /\ exists c, g_green g = Single c /\ c < 256.

Record info_ok (h : huffman_info) (w hgt green_n : Z) : Prop := {
  io_bits : 0 <= h_bits h <= 9;
  io_mask : h_mask h = if h_bits h =? 0 then 65535 else 2 ^ h_bits h - 1;
  io_groups : forall i, 0 <= i < vzlen (h_groups h) -> group_ok (vz (h_groups h) i) green_n;
  io_group0 : 0 < vzlen (h_groups h);
  io_image : h_bits h <> 0 -> forall x y, 0 <= x < w -> 0 <= y < hgt ->
     0 <= Z.shiftr y (h_bits h) * h_xsize h + Z.shiftr x (h_bits h) < zlen (h_image h) /\
     0 <= az (h_image h) (Z.shiftr y (h_bits h) * h_xsize h + Z.shiftr x (h_bits h)) < vzlen (h_groups h) }.

Definition cache_inv (cache : option color_cache) (cn : Z) : Prop :=
  match cache with None => cn = 0 | Some c => cache_ok c /\ cn = 2 ^ cbits c end.

Definition safe_out (fuel : nat) (slack : Z) (x : res (BitReader.t * arr)) : Prop :=
  match x with Panic _ => False | OutOfFuel => Z.of_nat fuel <= slack | _ => True end.

Lemma safe_out_step fuel slack slack' x : slack' + 1 <= slack -> safe_out fuel slack' x -> safe_out (S fuel) slack x.
Proof. intros H. destruct x; cbn [safe_out]; auto. lia. Qed.

Lemma cache_insert_opt_ok cache cn p : cache_inv cache cn ->
  exists cache', cache_insert_opt cache p = Ok cache' /\ cache_inv cache' cn.
Proof.
  intros H. destruct cache as [c|]; cbn [cache_insert_opt cache_inv] in *.
  - destruct H as [Hc Hn]. destruct (cache_insert_ok c p Hc) as (c' & E & Hc'). rewrite E. cbn [bind].
    exists (Some c'). split; [reflexivity|]. cbn [cache_inv]. split; [assumption|].
    rewrite (cache_insert_bits c p c' E). assumption.
  - exists None. split; [reflexivity | assumption].
Qed.

(* ---------- the pixel loop ---------- *)
Tactic Notation "rd" constr(Ht) constr(HR) ident(v) ident(br') ident(s') ident(HR') :=
  let E := fresh "Erd" in
  destruct (read_symbol_R _ _ _ Ht HR) as [(v & br' & s' & E & HR')|E]; rewrite E; cbn [bind]; [|exact I].

(* entering a block: the group of the block and the index at which the block ends *)
Lemma block_step w hgt h gn grp nbs index : 1 <= w <= 65535 -> 1 <= hgt <= 65536 -> info_ok h w hgt gn ->
  0 <= index < w * hgt -> nbs <= w * hgt -> (index < nbs -> group_ok grp gn) ->
  exists g nbs' e,
    (if nbs <=? index then
       if w =? 0 then Panic PDivZero else
       let x := index mod w in let y := index / w in
       bind (usub w 1) (fun wm1 =>
       let nbs1 := Z.min (Z.lor x (h_mask h)) wm1 + y * w + 1 in
       bind (get_huff_index h (x mod 2 ^ 16) (y mod 2 ^ 16)) (fun huff_index =>
       bind (vget (h_groups h) huff_index) (fun g => Ok (g, nbs1, true))))
     else Ok (grp, nbs, false)) = Ok (g, nbs', e) /\
    group_ok g gn /\ index < nbs' <= w * hgt /\ (e = (nbs <=? index)) /\
    (e = true -> h_bits h = 0 -> g = vz (h_groups h) 0).
Proof.
  intros Hw Hh [Hbits Hmask Hgroups Hg0 Himage] Hidx Hnbs Hgrp.
  destruct (nbs <=? index) eqn:En.
  2:{ apply Z.leb_gt in En. exists grp, nbs, false. split; [reflexivity|]. split; [apply Hgrp; lia|]. split; [lia|]. split; [reflexivity|].
      intros H; discriminate. }
  replace (w =? 0) with false by (symmetry; apply Z.eqb_neq; lia).
  unfold usub. replace (w <? 1) with false by (symmetry; apply Z.ltb_ge; lia). cbn [bind].
  set (x := index mod w). set (y := index / w).
  assert (Hx : 0 <= x < w) by (apply Z.mod_pos_bound; lia).
  assert (Hy : 0 <= y < hgt).
  { unfold y. split; [apply Z.div_pos; lia|]. apply Z.div_lt_upper_bound; lia. }
  assert (Hxy : index = w * y + x) by (unfold x, y; apply Z.div_mod; lia).
  assert (Hm0 : 0 <= h_mask h).
  { rewrite Hmask. destruct (h_bits h =? 0); [lia|]. assert (0 < 2 ^ h_bits h) by (apply Z.pow_pos_nonneg; lia). lia. }
  pose proof (lor_ge x (h_mask h) ltac:(lia) Hm0) as Hlor.
  rewrite (Z.mod_small x) by (change (2 ^ 16) with 65536; lia).
  rewrite (Z.mod_small y) by (change (2 ^ 16) with 65536; lia).
  assert (Hnb : index < Z.min (Z.lor x (h_mask h)) (w - 1) + y * w + 1 <= w * hgt) by nia.
  unfold get_huff_index. destruct (h_bits h =? 0) eqn:Eb.
  - apply Z.eqb_eq in Eb. cbn [bind]. rewrite vget_ok by lia. cbn [bind].
    eexists _, _, true. split; [reflexivity|]. split; [apply Hgroups; lia|]. split; [exact Hnb|]. split; [reflexivity|]. auto.
  - apply Z.eqb_neq in Eb. destruct (Himage Eb x y Hx Hy) as [Hp Hv].
    rewrite zget_ok by exact Hp. cbn [bind]. rewrite vget_ok by exact Hv. cbn [bind].
    eexists _, _, true. split; [reflexivity|]. split; [apply Hgroups; exact Hv|]. split; [exact Hnb|]. split; [reflexivity|].
    intros _ H0. contradiction.
Qed.

Lemma single_read g c br : g_green g = Single c -> read_symbol (g_green g) br = Ok (c, br).
Proof. intros ->. reflexivity. Qed.

Lemma all_single_green g : all_single g = true -> exists c, g_green g = Single c.
Proof.
  unfold all_single. intros H. rewrite !andb_true_iff in H. destruct H as [[[H _] _] _].
  destruct (g_green g) as [c|]; [eauto | discriminate].
Qed.

(* one literal / back-reference / cache step, for any continuation that is safe from every later index *)
Lemma nonfast_safe w hgt cn (Q : res (BitReader.t * arr) -> Prop) k g cache index nbs br data s :
  (forall e, Q (Err e)) ->
  1 <= w <= 65535 -> 1 <= hgt -> 0 <= cn -> group_ok g (280 + cn) ->
  R s br -> zlen data = 4 * (w * hgt) -> 0 <= index < w * hgt -> index < nbs <= w * hgt -> cache_inv cache cn ->
  (forall cache' index' br' data' s', R s' br' -> zlen data' = 4 * (w * hgt) -> index < index' <= w * hgt ->
      cache_inv cache' cn -> Q (k cache' index' br' data')) ->
  Q (pixel_nonfast k w (w * hgt) g cache index nbs br data).
Proof.
  intros QE Hw Hh Hcn [Tgreen Tgreen_lt Tred Tblue Talpha Tdist Tdist_lt] HR Hlen Hidx Hnbs Hcache Hk.
  set (N := w * hgt) in *. unfold pixel_nonfast.
  destruct (read_symbol_R _ _ _ Tgreen HR) as [(code & br1 & s1 & E & HR1)|E]; rewrite E; cbn [bind]; [|apply QE].
  destruct Tgreen_lt as [Hgl Hgp]. pose proof (Hgl _ _ _ E) as Hcode. clear E.
  destruct (code <? 256) eqn:Ec.
  - (* literal *)
    destruct (read_symbol_R _ _ _ Tred HR1) as [(red & br2 & s2 & E & HR2)|E]; rewrite E; cbn [bind]; [|apply QE]. clear E.
    destruct (read_symbol_R _ _ _ Tblue HR2) as [(blue & br3 & s3 & E & HR3)|E]; rewrite E; cbn [bind]; [|apply QE]. clear E.
    destruct (fill_if_R s3 br3 (nbits br3 <? 15) HR3) as (br4 & E & HR4). rewrite E. cbn [bind]. clear E.
    destruct (read_symbol_R _ _ _ Talpha HR4) as [(alpha & br5 & s5 & E & HR5)|E]; rewrite E; cbn [bind]; [|apply QE]. clear E.
    destruct (set4_ok data (index * 4) (u8 red, u8 code, u8 blue, u8 alpha) ltac:(lia) ltac:(lia)) as (data1 & E & Hl1).
    rewrite E. cbn [bind]. clear E.
    destruct (cache_insert_opt_ok cache cn (u8 red, u8 code, u8 blue, u8 alpha) Hcache) as (cache1 & E & Hc1).
    rewrite E. cbn [bind]. clear E.
    apply (Hk cache1 (index + 1) br5 data1 s5); auto; lia.
  - apply Z.ltb_ge in Ec. destruct (code <? 256 + 24) eqn:Ec2.
    + (* backward reference *)
      apply Z.ltb_lt in Ec2.
      destruct (get_copy_distance_ok s1 br1 (code - 256) HR1 ltac:(lia)) as [(len & br2 & s2 & E & Hlen1 & HR2 & _)|E];
        rewrite E; cbn [bind]; [|apply QE]. clear E.
      destruct (fill_if_R s2 br2 (nbits br2 <? 33) HR2) as (br3 & E & HR3). rewrite E. cbn [bind]. clear E.
      destruct (read_symbol_R _ _ _ Tdist HR3) as [(dsym & br4 & s4 & E & HR4)|E]; rewrite E; cbn [bind]; [|apply QE].
      destruct Tdist_lt as [Hdl _]. pose proof (Hdl _ _ _ E) as Hdsym. clear E.
      destruct (get_copy_distance_ok s4 br4 dsym HR4 Hdsym) as [(dcode & br5 & s5 & E & Hdc & HR5 & _)|E];
        rewrite E; cbn [bind]; [|apply QE]. clear E.
      destruct (plane_code_ok w dcode Hdc) as (dist & E & Hdist). rewrite E. cbn [bind]. clear E.
      destruct ((index <? dist) || (N - index <? len)) eqn:Echk; [apply QE|].
      apply orb_false_iff in Echk. destruct Echk as [E1 E2]. apply Z.ltb_ge in E1. apply Z.ltb_ge in E2.
      destruct (dist =? 1) eqn:Ed1.
      * apply Z.eqb_eq in Ed1. subst dist.
        destruct (slice4_ok data ((index - 1) * 4) ltac:(lia) ltac:(lia)) as (value & E). rewrite E. cbn [bind]. clear E.
        destruct (fill_pixels_ok data index len value ltac:(lia) ltac:(lia) ltac:(lia)) as (data1 & E & Hl1).
        rewrite E. cbn [bind]. clear E.
        apply (Hk cache (index + len) br5 data1 s5); auto; lia.
      * apply Z.eqb_neq in Ed1.
        destruct (copy_backref_spec data index dist len N Hlen ltac:(lia) Hlen1 ltac:(lia)) as (data1 & E & (Hl1 & _)).
        rewrite E. cbn [bind]. clear E.
        destruct cache as [c|]; cbn [cache_inv] in Hcache.
        -- destruct Hcache as [Hcok Hcn2].
           destruct (cache_insert_range_ok c data1 index len Hcok ltac:(lia) ltac:(lia) ltac:(lia)) as (c' & E & Hcok' & Hb').
           rewrite E. cbn [bind]. clear E.
           apply (Hk (Some c') (index + len) br5 data1 s5); auto; try lia.
           cbn [cache_inv]. split; [assumption|]. rewrite Hb'. assumption.
        -- cbn [bind]. apply (Hk None (index + len) br5 data1 s5); auto; lia.
    + (* colour cache *)
      apply Z.ltb_ge in Ec2. destruct cache as [c|]; [|apply QE]. cbn [cache_inv] in Hcache. destruct Hcache as [Hcok Hcn2].
      destruct (cache_lookup_ok c (code - 280) Hcok ltac:(lia)) as (color & E). rewrite E. cbn [bind]. clear E.
      destruct (write4_ok data (index * 4) color ltac:(lia) ltac:(lia)) as (data1 & E & Hl1). rewrite E. cbn [bind]. clear E.
      destruct (cache_insert_ok c color Hcok) as (c1 & E & Hcok1). rewrite E. cbn [bind].
      pose proof (cache_insert_bits c color c1 E) as Hb1. clear E.
      assert (Hinv1 : cache_inv (Some c1) cn) by (cbn [cache_inv]; split; [assumption | rewrite Hb1; assumption]).
      destruct (index + 1 <? nbs) eqn:Enb.
      2:{ apply (Hk (Some c1) (index + 1) br1 data1 s1); auto; lia. }
      apply Z.ltb_lt in Enb.
      destruct (peek_symbol_ok (g_green g) br1 Tgreen) as (pk & E). rewrite E. cbn [bind].
      destruct pk as [[bits code2]|].
      2:{ apply (Hk (Some c1) (index + 1) br1 data1 s1); auto; lia. }
      destruct (Hgp _ _ _ E) as [Hcode2 Hbits]. clear E.
      destruct (280 <=? code2) eqn:Ec3.
      2:{ apply (Hk (Some c1) (index + 1) br1 data1 s1); auto; lia. }
      apply Z.leb_le in Ec3.
      destruct (Z_lt_ge_dec (nbits br1) bits) as [Hshort|Hlong].
      { rewrite consume_short by assumption. cbn [bind]. apply QE. }
      destruct (consume_R s1 br1 bits HR1 ltac:(lia)) as (br2 & E & HR2 & _). rewrite E. cbn [bind]. clear E.
      destruct (cache_lookup_ok c1 (code2 - 280) Hcok1 ltac:(rewrite Hb1; lia)) as (color2 & E). rewrite E. cbn [bind]. clear E.
      destruct (write4_ok data1 ((index + 1) * 4) color2 ltac:(lia) ltac:(lia)) as (data2 & E & Hl2). rewrite E. cbn [bind]. clear E.
      destruct (cache_insert_ok c1 color2 Hcok1) as (c2 & E & Hcok2). rewrite E. cbn [bind].
      pose proof (cache_insert_bits c1 color2 c2 E) as Hb2. clear E.
      apply (Hk (Some c2) (index + 1 + 1) br2 data2 _ HR2); auto; try lia.
      cbn [cache_inv]. split; [assumption | rewrite Hb2, Hb1; assumption].
Qed.

(* C03, vp8l_pixels_safe: decode_image_data's loop never panics, and with fuel > num_values - index it terminates *)
Theorem pixel_loop_safe w hgt h cn : 1 <= w <= 65535 -> 1 <= hgt <= 65536 -> 0 <= cn -> info_ok h w hgt (280 + cn) ->
  forall fuel grp cache index nbs br data s,
  R s br -> zlen data = 4 * (w * hgt) -> 0 <= index <= w * hgt -> nbs <= w * hgt -> cache_inv cache cn ->
  (index < nbs -> group_ok grp (280 + cn)) ->
  (h_bits h = 0 -> index < w * hgt -> (index = 0 /\ nbs <= 0) \/ ~ fastable (vz (h_groups h) 0)) ->
  safe_out fuel (w * hgt - index) (pixel_loop fuel w (w * hgt) h grp cache index nbs br data).
Proof.
  intros Hw Hh Hcn Hinfo. set (N := w * hgt).
  induction fuel as [|fuel IH]; intros grp cache index nbs br data s HR Hlen Hidx Hnbs Hcache Hgrp Hnf; cbn [pixel_loop].
  - cbn [safe_out]. lia.
  - destruct (index <? N) eqn:Ei; cbn [negb]; [|exact I]. apply Z.ltb_lt in Ei.
    destruct (fill_ok s br HR) as (br1 & F & HR1 & _). rewrite F. cbn [bind]. clear F.
    destruct (block_step w hgt h (280 + cn) grp nbs index Hw Hh Hinfo ltac:(lia) Hnbs Hgrp)
      as (g & nbs' & e & Eb & Hg & Hnbs' & He & Hg0).
    cbv zeta in Eb. fold N in Eb, Hnbs'. rewrite Eb. cbn [bind]. clear Eb.
    pose proof Hg as [Tgreen Tgreen_lt Tred Tblue Talpha Tdist Tdist_lt].
    (* the rest of the loop from a larger index, once the fast path is known to be blocked for bits = 0 *)
    assert (Hnext : (h_bits h = 0 -> ~ fastable (vz (h_groups h) 0)) ->
               forall cache' index' br' data' s', R s' br' -> zlen data' = 4 * N -> index < index' <= N ->
               cache_inv cache' cn -> safe_out (S fuel) (N - index) (pixel_loop fuel w N h g cache' index' nbs' br' data')).
    { intros Hnf' cache' index' br' data' s' HR' Hlen' Hi' Hc'.
      apply (safe_out_step fuel (N - index) (N - index')); [lia|].
      apply (IH g cache' index' nbs' br' data' s'); auto; try lia. }
    assert (Hblocked : (e && all_single g = false \/ exists c, g_green g = Single c /\ 256 <= c) ->
               h_bits h = 0 -> ~ fastable (vz (h_groups h) 0)).
    { intros Hwhy Hb0. destruct (Hnf Hb0 Ei) as [[Hi0 Hn0]|Hnofast]; [|assumption].
      assert (Het : e = true) by (rewrite He; apply Z.leb_le; lia).
      rewrite <- (Hg0 Het Hb0). intros [Hall (c & Hc & Hc256)].
      destruct Hwhy as [Hwhy|(c' & Hc' & Hc'256)].
      - rewrite Het, Hall in Hwhy. discriminate.
      - rewrite Hc in Hc'. injection Hc' as <-. lia. }
    assert (Hbody : (h_bits h = 0 -> ~ fastable (vz (h_groups h) 0)) ->
       safe_out (S fuel) (N - index)
         (pixel_nonfast (fun cache0 index0 br0 data0 => pixel_loop fuel w N h g cache0 index0 nbs' br0 data0)
                        w N g cache index nbs' br1 data)).
    { intros Hnf'. apply (nonfast_safe w hgt cn (safe_out (S fuel) (N - index)) _ g cache index nbs' br1 data s); auto; try lia.
      - intros e0. exact I.
      - intros cache' index' br' data' s' HR' Hl' Hi' Hc'. apply (Hnext Hnf' cache' index' br' data' s'); auto. }
    destruct (e && all_single g) eqn:Efast.
    + apply andb_true_iff in Efast. destruct Efast as [Het Hall].
      destruct (all_single_green g Hall) as (c & Hc). rewrite (single_read g c br1 Hc). cbn [bind].
      destruct (c <? 256) eqn:Ec.
      * apply Z.ltb_lt in Ec.
        rd Tred HR1 red br2 s2 HR2. rd Tblue HR2 blue br3 s3 HR3. rd Talpha HR3 alpha br4 s4 HR4.
        assert (Hn : 0 <= (if h_bits h =? 0 then N else nbs' - index) /\
                     index < index + (if h_bits h =? 0 then N else nbs' - index) <= N).
        { destruct (h_bits h =? 0) eqn:Eb0; [|lia]. apply Z.eqb_eq in Eb0.
          destruct (Hnf Eb0 Ei) as [[Hi0 _]|Hnofast]; [lia|]. exfalso. apply Hnofast. rewrite <- (Hg0 Het Eb0).
          split; [assumption|]. exists c. split; [assumption | lia]. }
        destruct (fill_pixels_ok data index _ (u8 red, u8 c, u8 blue, u8 alpha) ltac:(lia) (proj1 Hn) ltac:(lia)) as (data1 & Ef & Hl1).
        rewrite Ef. cbn [bind].
        destruct (cache_insert_opt_ok cache cn (u8 red, u8 c, u8 blue, u8 alpha) Hcache) as (cache1 & Eci & Hc1).
        rewrite Eci. cbn [bind].
        apply (safe_out_step fuel (N - index) (N - (index + (if h_bits h =? 0 then N else nbs' - index)))); [lia|].
        apply (IH g cache1 _ nbs' br4 data1 s4); auto; try lia.
        intros Hb0 Hlt. rewrite (proj2 (Z.eqb_eq _ _) Hb0) in Hlt. lia.
      * apply Z.ltb_ge in Ec. apply Hbody. apply Hblocked. right. exists c. split; [assumption | lia].
    + apply Hbody. apply Hblocked. left. reflexivity.
Qed.

(* LosslessDecoder::decode_image_data never panics and terminates within its fuel *)
Theorem decode_image_data_safe w hgt h cn br data s :
  1 <= w <= 65535 -> 1 <= hgt <= 65536 -> 0 <= cn -> info_ok h w hgt (280 + cn) -> cache_inv (h_cache h) cn ->
  R s br -> zlen data = 4 * (w * hgt) ->
  match decode_image_data br w hgt h data with Panic _ => False | OutOfFuel => False | _ => True end.
Proof.
  intros Hw Hh Hcn Hinfo Hcache HR Hlen. unfold decode_image_data.
  pose proof Hinfo as [Hbits Hmask Hgroups Hg0 Himage].
  assert (Hgi : exists i, get_huff_index h 0 0 = Ok i /\ 0 <= i < vzlen (h_groups h)).
  { unfold get_huff_index. destruct (h_bits h =? 0) eqn:Eb; [exists 0; split; [reflexivity | lia]|].
    apply Z.eqb_neq in Eb. destruct (Himage Eb 0 0 ltac:(lia) ltac:(lia)) as [Hp Hv].
    rewrite zget_ok by exact Hp. eauto. }
  destruct Hgi as (i & Ei & Hi). rewrite Ei. cbn [bind]. rewrite vget_ok by exact Hi. cbn [bind].
  pose proof (pixel_loop_safe w hgt h cn Hw Hh Hcn Hinfo (S (Z.to_nat (w * hgt))) (vz (h_groups h) i) (h_cache h) 0 0 br data s
                HR Hlen ltac:(nia) ltac:(nia) Hcache ltac:(lia) ltac:(intros _ _; left; lia)) as H.
  destruct (pixel_loop _ _ _ _ _ _ _ _ _ _); cbn [safe_out] in H; auto. nia.
Qed.
