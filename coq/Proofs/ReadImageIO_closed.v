(* Property C10, (c) for lossy stills without ALPH chunk, UNCONDITIONAL on the decoder: on a well-formed lossy still whose key frame the
   reference decoder decodes (hypotheses of Properties/C05's RIC.read_image_lossy_closed = Proofs/VP8_decode_readimage.read_image_lossy_closed),
   read_image over the file reader -- any schedule, any reader position, every required-method call counted -- returns exactly the
   specification's pixels without a fault, and with ONE injected failure at any call index either the I/O error (no buffer reported) or
   exactly the specification's pixels: never success with other data, never a panic.
   From: Proofs/ReadImageIO_refine2.read_image_vp8_io_no_fault (the fault-free run is Model.ReadImage.read_image with
   vp8 := Model.Vp8Decode.decode_frame), read_image_lossy_closed, Proofs/ReadImageIO_main.read_image_fault_outcome. *)
From Coq Require Import ZArith List Bool Lia.
From WebP Require Import Lib.Res Spec.Container.
From WebP Require Spec.VP8 Model.Vp8Decode Model.Container Model.ReadImage.
From WebP Require Import Proofs.Container_bytes Proofs.ReadImage_base Proofs.ReadImage_container Proofs.ReadImage_lossy
  Proofs.VP8_decode_main Proofs.VP8_decode_readimage.
From WebP Require Model.ContainerIO Proofs.ContainerIO_prims Proofs.ContainerIO_refine Model.ReadImageIO Proofs.ReadImageIO_refine
  Proofs.ReadImageIO_refine2 Proofs.ReadImageIO_main.
Import ListNotations.
Open Scope Z_scope.

Module CIO := WebP.Model.ContainerIO.
Module RIO := WebP.Model.ReadImageIO.
Module P := WebP.Proofs.ContainerIO_prims.

Theorem lossy_still_fault_error_or_spec_pixels c payload w h yp up vp px :
  wf c = true -> anim c = false -> image_vp8 c = Some payload -> dims c = (w, h) ->
  Spec.VP8.decode payload = Some (w, h, yp, up, vp) -> decode_hyps_b payload = true ->
  lossy_pixels c w h yp up vp = Some px -> alph_ok_for c w h ->
  image_alph c = None -> len (serialize c) <= 18446744073709551615 ->
  exists dec, Model.Container.new (serialize c) = Ok dec /\
    forall (buf : list Z) (s : CIO.rstate),
      len buf = buffer_size c ->
      CIO.r_data s = serialize c -> CIO.r_fail_at s = None -> CIO.r_fail_eof s = false -> 0 <= CIO.r_pos s ->
      fst (RIO.read_image_io dec buf s) = (CIO.IOk tt, Some px)
      /\ forall k, fst (RIO.read_image_io dec buf (P.set_fail s (Some k))) = (CIO.IErr CIO.XFault, None)
                   \/ fst (RIO.read_image_io dec buf (P.set_fail s (Some k))) = (CIO.IOk tt, Some px).
Proof.
  intros Hwf Ha Hp Hd Hdec Hy Hpx Hfmt Hna Hlen.
  destruct (new_still_view c Hwf Ha) as (dec & Hnew & Hv).
  destruct (read_image_lossy_closed c payload w h yp up vp px Hwf Ha Hp Hd Hdec Hy Hpx Hfmt) as (dec' & Hnew' & Hri & _).
  rewrite Hnew in Hnew'. injection Hnew' as <-.
  exists dec. split; [exact Hnew|]. intros buf s Hbl Hds Hfa Hfe Hpos.
  destruct Hv as (Hdata & Hanim & _ & _ & _ & Hv8 & Hv8l & Halph & _).
  assert (Hnl : image_vp8l c = None).
  { destruct (still_one_bitstream c Hwf Ha) as [(q & _ & H)|(q & _ & H)]; [exact H | congruence]. }
  rewrite Hnl in Hv8l. rewrite Hna in Halph. rewrite Hp in Hv8. cbn [chunk_is] in Hv8l, Halph, Hv8.
  destruct Hv8 as (st & Hl8 & (pre & post & Hsplit & Hpre) & _).
  assert (Hfree : fst (RIO.read_image_io dec buf s) = (CIO.IOk tt, Some px)).
  { rewrite ReadImageIO_main.read_image_io_m. cbn [fst].
    assert (Hok : ContainerIO_refine.okstate (Model.Container.d_data dec) s).
    { split; [congruence|]. split; [unfold P.quiet; rewrite Hfa; exact I | exact Hpos]. }
    assert (Hst : forall range, Model.Container.lookup Model.Container.KVP8 (Model.Container.d_chunks dec) = Some range ->
                  0 <= fst range <= Model.Container.u64_max).
    { intros range Hr. rewrite Hl8 in Hr. injection Hr as <-. cbn [fst].
      assert (len pre <= len (serialize c)).
      { rewrite <- Hdata, Hsplit. unfold len. rewrite app_length. lia. }
      unfold Model.Container.u64_max. subst st. unfold len in *. lia. }
    pose proof (ReadImageIO_refine2.read_image_vp8_io_no_fault dec buf s Hok Hst Hanim Hv8l (fun _ => Halph)) as H.
    rewrite (Hri buf Hbl) in H. cbn [ReadImageIO_refine2.outcome_res] in H.
    destruct (fst (RIO.read_image_m dec buf s)) as [b|e|q|]; cbn [ContainerIO_refine.erase] in H; try discriminate H.
    injection H as ->. reflexivity. }
  split; [exact Hfree|]. intros k.
  exact (ReadImageIO_main.read_image_io_error_or_pixels_partial dec buf s px Hfa Hfe Hfree k).
Qed.
