(* C10, the glue over the file reader, fault-free refinement of the reader operations of Model/ReadImageIO.v (PARTIAL: the
   primitives and init_partitions; the composition up to read_image is not proved, see the report).  From a reader state in
   which no fault can fire any more (`okstate`: quiet, position >= 0), for EVERY schedule:
     * a Take of limit lim delivers exactly tk lim s = the first lim bytes that remain:
         take_read_exact_spec      Take::read_exact = Model.Vp8Parse.read_exact on those bytes (same bytes, the rest is what the
                                   Take of the decreased limit delivers; UnexpectedEof exactly when they are short);
         take_read_to_end_spec     Take::read_to_end returns all of them, whatever std's read_to_end loop asks for (probe of 32
                                   bytes, Vec growth, adaptive request size);
     * init_sized_partitions_refines, init_partitions_refines: the partition reads of the VP8 decoder over the Take are
       Model.Vp8Parse.init_partitions on those bytes (same state, same error / panic). *)
From Coq Require Import ZArith List Bool Lia.
From WebP Require Import Lib.Res Model.Container Model.ContainerIO Proofs.ContainerIO_prims Proofs.ContainerIO_laws
  Proofs.ContainerIO_refine.
From WebP Require Model.ArithDec Model.Vp8Parse Model.Vp8Frame Model.Vp8Recon Model.Vp8Decode Model.ReadImage Model.Yuv.
From WebP Require Import Model.ReadImageIO.
Import ListNotations.
Open Scope Z_scope.

Module VP := WebP.Model.Vp8Parse.
Module RI := WebP.Model.ReadImage.

(* what a Take of limit lim over the reader in state s can deliver *)
Definition tk (lim : Z) (s : rstate) : list Z := takez lim (remaining s).

Lemma okstate_step d s p c : okstate d s -> r_calls s <= c -> 0 <= p -> okstate d (set_pos_calls s p c).
Proof.
  intros (H1 & H2 & H3) Hc Hp. split; [exact H1|]. split; [apply quiet_step; assumption | exact Hp].
Qed.

Lemma remaining_step s n c : 0 <= r_pos s -> 0 <= n -> remaining (set_pos_calls s (r_pos s + n) c) = dropz n (remaining s).
Proof. intros Hp Hn. unfold remaining. cbn [set_pos_calls r_pos r_data]. apply dropz_add; assumption. Qed.

Lemma dropz_0 (l : list Z) : dropz 0 l = l.
Proof. destruct l; reflexivity. Qed.

Lemma firstn_takez n lim l : 0 <= n <= lim -> firstn (Z.to_nat n) (takez lim l) = takez n l.
Proof. intros H. rewrite !takez_firstn, firstn_firstn. f_equal. lia. Qed.

Lemma skipn_takez n lim l : 0 <= n <= lim -> skipn (Z.to_nat n) (takez lim l) = takez (lim - n) (dropz n l).
Proof.
  intros H. rewrite !takez_firstn, dropz_skipn, firstn_skipn_comm. f_equal. f_equal. lia.
Qed.

(* ---------------------------------------------------------------------------------------------- *)
(* Take::read_exact                                                                                 *)
(* ---------------------------------------------------------------------------------------------- *)
Lemma take_read_exact_spec d s lim n : okstate d s -> 0 <= lim ->
  match VP.read_exact (tk lim s) n with
  | Ok (b, g') => exists s', take_read_exact lim n s = (IOk b, s') /\ okstate d s' /\ tk (lim - len b) s' = g' /\ 0 <= lim - len b
  | Err e => e = EIo /\ exists s', take_read_exact lim n s = (IErr XEof, s') /\ okstate d s'
  | _ => False
  end.
Proof.
  intros Hok Hlim. pose proof Hok as (Hd & Hq & Hp).
  unfold VP.read_exact. fold (len (tk lim s)).
  assert (Hlg : len (tk lim s) = Z.min lim (len (remaining s))).
  { unfold tk. change (@len Z) with (@MC.len Z). rewrite len_takez. lia. }
  pose proof (len_nonneg (remaining s)) as Hrem0. change (@MC.len Z) with (@len Z) in Hrem0.
  destruct (read_exact_nofault n s Hq) as (c' & Hc & _ & Eq).
  destruct (n <=? len (tk lim s)) eqn:E.
  - apply Z.leb_le in E. unfold take_read_exact. replace (n <=? lim) with true by (symmetry; apply Z.leb_le; lia).
    rewrite Eq. destruct (n <=? 0) eqn:E0.
    + apply Z.leb_le in E0. replace (Z.to_nat n) with O by lia. cbn [firstn skipn].
      eexists. split; [reflexivity|]. split; [apply okstate_step; (assumption || lia)|].
      change (len (@nil Z)) with 0. rewrite Z.sub_0_r. split; [|exact Hlim].
      unfold tk. rewrite remaining_step by lia. rewrite dropz_0. reflexivity.
    + apply Z.leb_gt in E0. change (@MC.len Z) with (@len Z).
      replace (n <=? len (remaining s)) with true by (symmetry; apply Z.leb_le; lia).
      assert (Hlb : len (takez n (remaining s)) = n).
      { change (@len Z) with (@MC.len Z). rewrite len_takez. change (@MC.len Z) with (@len Z). lia. }
      unfold tk. rewrite firstn_takez by lia. rewrite skipn_takez by lia.
      eexists. split; [reflexivity|]. split; [apply okstate_step; (assumption || lia)|].
      rewrite Hlb. split; [|lia]. rewrite remaining_step by lia. reflexivity.
  - apply Z.leb_gt in E. split; [reflexivity|]. unfold take_read_exact. destruct (n <=? lim) eqn:El.
    + apply Z.leb_le in El. rewrite Eq. replace (n <=? 0) with false by (symmetry; apply Z.leb_gt; lia).
      change (@MC.len Z) with (@len Z). replace (n <=? len (remaining s)) with false by (symmetry; apply Z.leb_gt; lia).
      eexists. split; [reflexivity|]. apply okstate_step; (assumption || lia).
    + apply Z.leb_gt in El. destruct (read_exact_nofault lim s Hq) as (c2 & Hc2 & _ & Eq2).
      unfold bind, handle. rewrite Eq2. change (@MC.len Z) with (@len Z).
      destruct (lim <=? 0); [|destruct (lim <=? len (remaining s))]; cbn [fail];
        (eexists; split; [reflexivity|]; apply okstate_step; (assumption || lia)).
Qed.

(* ---------------------------------------------------------------------------------------------- *)
(* Take::read_to_end                                                                                *)
(* ---------------------------------------------------------------------------------------------- *)
Lemma read_call_nofault want s : quiet s ->
  read_call want s =
    (IOk (takez (Z.min (window (r_sched s) (r_calls s)) want) (remaining s)),
     set_pos_calls s (r_pos s + len (takez (Z.min (window (r_sched s) (r_calls s)) want) (remaining s))) (r_calls s + 1)).
Proof. intros Hq. unfold read_call. rewrite (is_fail_quiet _ (r_calls s) (r_calls s) Hq) by lia. reflexivity. Qed.

(* one delivered block and the rest *)
Lemma takez_block w lim l : 1 <= w <= lim ->
  takez w l ++ takez (lim - len (takez w l)) (dropz (len (takez w l)) l) = takez lim l.
Proof.
  intros Hw. pose proof (len_nonneg l) as Hl0.
  assert (Hn : MC.len (takez w l) = Z.min w (MC.len l)) by (rewrite len_takez; lia).
  change (@len Z) with (@MC.len Z). rewrite Hn.
  destruct (Z_le_gt_dec w (MC.len l)) as [H|H].
  - replace (Z.min w (MC.len l)) with w by lia. rewrite <- (takez_split w (lim - w) l) by lia. f_equal. lia.
  - replace (Z.min w (MC.len l)) with (MC.len l) by lia.
    rewrite (takez_all w l) by lia. rewrite (takez_all lim l) by lia.
    assert (Hd : dropz (MC.len l) l = []).
    { rewrite dropz_skipn. apply skipn_all2. unfold MC.len. lia. }
    rewrite Hd. destruct (lim - MC.len l <=? 0); cbn [takez]; apply app_nil_r.
Qed.

Lemma rte_loop_spec d : forall fuel lim vlen cap maxrd racc s,
  okstate d s -> 0 <= lim -> (length (remaining s) < fuel)%nat -> vlen <= cap -> 1 <= maxrd ->
  exists s', rte_loop fuel lim vlen cap maxrd racc s = (IOk (rev racc ++ tk lim s), s') /\ okstate d s'.
Proof.
  induction fuel as [|fuel IH]; intros lim vlen cap maxrd racc s Hok Hlim Hf Hvc Hmr; [lia|].
  pose proof Hok as (Hd & Hq & Hp).
  cbn [rte_loop].
  set (cap' := if vlen =? cap then Z.max (Z.max (2 * cap) (vlen + 32)) 8 else cap).
  assert (Hc' : vlen < cap').
  { subst cap'. destruct (vlen =? cap) eqn:E; [lia | apply Z.eqb_neq in E; lia]. }
  set (bl := Z.min (cap' - vlen) maxrd). assert (Hbl : 1 <= bl) by (subst bl; lia).
  destruct (lim <=? 0) eqn:E0.
  - apply Z.leb_le in E0. exists s. split; [|exact Hok]. unfold ret. rewrite rev_tr_rev.
    unfold tk. rewrite takez_firstn. replace (Z.to_nat lim) with O by lia. cbn [firstn]. rewrite app_nil_r. reflexivity.
  - apply Z.leb_gt in E0. unfold bind, handle. rewrite (read_call_nofault _ s Hq).
    pose proof (window_pos (r_sched s) (r_calls s)) as Hwin.
    set (w := Z.min (window (r_sched s) (r_calls s)) (Z.min bl lim)). assert (Hw : 1 <= w <= lim) by (subst w; lia).
    destruct (takez w (remaining s)) as [|x t] eqn:Eg.
    + exists (set_pos_calls s (r_pos s + len (@nil Z)) (r_calls s + 1)). split; [|apply okstate_step; [assumption | lia | change (len (@nil Z)) with 0; lia]].
      unfold ret. rewrite rev_tr_rev. apply takez_nil_inv in Eg; [|lia]. unfold tk. rewrite Eg.
      cbn [takez]. rewrite ?app_nil_r. reflexivity.
    + rewrite <- Eg. set (got := takez w (remaining s)).
      assert (Hn : 1 <= len got <= w).
      { subst got. change (@len Z) with (@MC.len Z). rewrite len_takez. pose proof (len_nonneg (remaining s)).
        assert (remaining s <> []) by (intros Hnil; rewrite Hnil in Eg; destruct w; discriminate).
        assert (0 < MC.len (remaining s)) by (unfold MC.len; destruct (remaining s); [congruence | cbn [length]; lia]). lia. }
      set (s1 := set_pos_calls s (r_pos s + len got) (r_calls s + 1)).
      assert (Hok1 : okstate d s1) by (apply okstate_step; (assumption || lia)).
      assert (Hrem1 : remaining s1 = dropz (len got) (remaining s)) by (apply remaining_step; lia).
      destruct (IH (lim - len got) (vlen + len got) cap'
                  (if (maxrd <=? bl) && (len got =? bl) then 2 * maxrd else maxrd) (rev_append got racc) s1 Hok1) as (s' & E & Hok').
      * lia.
      * rewrite Hrem1. assert (remaining s <> []) by (intros Hnil; rewrite Hnil in Eg; destruct w; discriminate).
        pose proof (length_dropz (len got) (remaining s) ltac:(lia) H). lia.
      * subst w bl. lia.
      * destruct (_ && _); lia.
      * exists s'. split; [|exact Hok']. rewrite E. f_equal. f_equal.
        rewrite rev_append_rev, rev_app_distr, rev_involutive, <- app_assoc. f_equal.
        unfold tk. rewrite Hrem1. subst got. apply takez_block. exact Hw.
Qed.

Lemma take_read_to_end_spec d s lim : okstate d s -> 0 <= lim ->
  exists s', take_read_to_end lim s = (IOk (tk lim s), s') /\ okstate d s'.
Proof.
  intros Hok Hlim. pose proof Hok as (Hd & Hq & Hp). unfold take_read_to_end.
  destruct (lim <=? 0) eqn:E0.
  - apply Z.leb_le in E0. exists s. split; [|exact Hok]. unfold ret, tk. rewrite takez_firstn. replace (Z.to_nat lim) with O by lia. reflexivity.
  - apply Z.leb_gt in E0. unfold bind, handle. rewrite (read_call_nofault _ s Hq).
    pose proof (window_pos (r_sched s) (r_calls s)) as Hwin.
    set (w := Z.min (window (r_sched s) (r_calls s)) (Z.min 32 lim)). assert (Hw : 1 <= w <= lim) by (subst w; lia).
    destruct (takez w (remaining s)) as [|x t] eqn:Eg.
    + exists (set_pos_calls s (r_pos s + len (@nil Z)) (r_calls s + 1)). split; [|apply okstate_step; [assumption | lia | change (len (@nil Z)) with 0; lia]].
      unfold ret. apply takez_nil_inv in Eg; [|lia]. unfold tk. rewrite Eg. cbn [takez]. rewrite ?app_nil_r. reflexivity.
    + rewrite <- Eg. set (got := takez w (remaining s)).
      assert (Hnil : remaining s <> []) by (intros Hnil; rewrite Hnil in Eg; destruct w; discriminate).
      assert (Hn : 1 <= len got <= w).
      { subst got. change (@len Z) with (@MC.len Z). rewrite len_takez. pose proof (len_nonneg (remaining s)).
        assert (0 < MC.len (remaining s)) by (unfold MC.len; destruct (remaining s); [congruence | cbn [length]; lia]). lia. }
      set (s1 := set_pos_calls s (r_pos s + len got) (r_calls s + 1)).
      assert (Hok1 : okstate d s1) by (apply okstate_step; (assumption || lia)).
      assert (Hrem1 : remaining s1 = dropz (len got) (remaining s)) by (apply remaining_step; lia).
      destruct (rte_loop_spec d (S (length (remaining s1))) (lim - len got) (len got) (Z.max 8 (len got)) 8192 (rev_append got []) s1 Hok1)
        as (s' & E & Hok'); try lia.
      exists s'. split; [|exact Hok']. fold s1. rewrite E. f_equal. f_equal.
      rewrite rev_append_rev, app_nil_r, rev_involutive. unfold tk. rewrite Hrem1. subst got. apply takez_block. exact Hw.
Qed.

(* ---------------------------------------------------------------------------------------------- *)
(* walking the I/O text and the pure text in parallel                                               *)
(* ---------------------------------------------------------------------------------------------- *)
Definition RefOK {A} (d : list Z) (x : ires A * rstate) (p : res A) : Prop := erase (fst x) = p /\ okstate d (snd x).

Lemma bind_ok {A B} (m : M A) (f : A -> M B) s a s' : m s = (IOk a, s') -> bind m f s = f a s'.
Proof. intros E. unfold bind, handle. rewrite E. reflexivity. Qed.
Lemma bind_err {A B} (m : M A) (f : A -> M B) s e s' : m s = (IErr e, s') -> bind m f s = (IErr e, s').
Proof. intros E. unfold bind, handle. rewrite E. reflexivity. Qed.
Lemma bind_panic {A B} (m : M A) (f : A -> M B) s p s' : m s = (IPanic p, s') -> bind m f s = (IPanic p, s').
Proof. intros E. unfold bind, handle. rewrite E. reflexivity. Qed.
Lemma bind_oof {A B} (m : M A) (f : A -> M B) s s' : m s = (IOutOfFuel, s') -> bind m f s = (IOutOfFuel, s').
Proof. intros E. unfold bind, handle. rewrite E. reflexivity. Qed.
Lemma bind_lift {A B} (r : res A) (f : A -> M B) s :
  bind (lift r) f s = match r with Ok a => f a s | Err e => (IErr (XDec e), s) | Panic p => (IPanic p, s) | OutOfFuel => (IOutOfFuel, s) end.
Proof. unfold bind, handle, lift. destruct r; reflexivity. Qed.
Lemma bind_ghost {B} lim (f : list Z -> M B) s : bind (ghost lim) f s = f (tk lim s) s.
Proof. reflexivity. Qed.
Lemma erase_of_res {A} (r : res A) : erase (of_res r) = r.
Proof. destruct r; reflexivity. Qed.
Lemma RefOK_lift {A} d (r : res A) s : okstate d s -> RefOK d (lift r s) r.
Proof. intros H. split; [apply erase_of_res | exact H]. Qed.

(* one `bind (lift X) f` against `Res.bind X g` *)
Ltac lift_step :=
  rewrite bind_lift;
  match goal with
  | |- RefOK _ (match ?X with _ => _ end) _ =>
      let a := fresh "a" in
      destruct X as [a| | |]; cbn [Res.bind];
      [ try (destruct a as [? ?]) | split; [reflexivity | assumption] .. ]
  end.

(* one `bind (take_read_exact lim n) f` against `Res.bind (VP.read_exact g n) h` with tk lim s = g *)
Ltac read_step d :=
  match goal with
  | Hok : okstate d ?s, Hg : tk ?lim ?s = ?g |- RefOK d (bind (take_read_exact ?lim ?n) _ ?s) _ =>
      let H := fresh "H" in let E := fresh "E" in let s1 := fresh "s" in
      let Hok1 := fresh "Hok" in let Hg1 := fresh "Hg" in let Hl1 := fresh "Hl" in
      pose proof (take_read_exact_spec d s lim n Hok ltac:(assumption)) as H; rewrite Hg in H;
      destruct (VP.read_exact g n) as [[? ?]| ? | |]; cbn [Res.bind];
      [ destruct H as (s1 & E & Hok1 & Hg1 & Hl1); rewrite (bind_ok _ _ _ _ _ E); cbn beta zeta
      | destruct H as (-> & s1 & E & Hok1); rewrite (bind_err _ _ _ _ _ E); split; [reflexivity | exact Hok1]
      | contradiction | contradiction ]
  end.

(* ---------------------------------------------------------------------------------------------- *)
(* init_partitions                                                                                  *)
(* ---------------------------------------------------------------------------------------------- *)
Lemma init_sized_partitions_refines d : forall k i sizes lim parts s g,
  okstate d s -> 0 <= lim -> tk lim s = g ->
  match VP.init_sized_partitions k i sizes g parts with
  | Ok (g', parts') => exists lim' s', init_sized_partitions_io k i sizes lim parts s = (IOk (lim', parts'), s')
                                       /\ okstate d s' /\ tk lim' s' = g' /\ 0 <= lim'
  | Err e => exists x s', init_sized_partitions_io k i sizes lim parts s = (IErr x, s') /\ erase_err x = e /\ okstate d s'
  | Panic p => exists s', init_sized_partitions_io k i sizes lim parts s = (IPanic p, s') /\ okstate d s'
  | OutOfFuel => exists s', init_sized_partitions_io k i sizes lim parts s = (IOutOfFuel, s') /\ okstate d s'
  end.
Proof.
  induction k as [|k IH]; intros i sizes lim parts s g Hok Hlim Hg.
  - cbn [VP.init_sized_partitions init_sized_partitions_io]. exists lim, s. auto.
  - cbn [VP.init_sized_partitions init_sized_partitions_io]. cbn zeta.
    pose proof (take_read_exact_spec d s lim (VP.le24 (firstn 3 sizes)) Hok Hlim) as H. rewrite Hg in H.
    destruct (VP.read_exact g (VP.le24 (firstn 3 sizes))) as [[b g1]|e| |]; cbn [Res.bind]; try contradiction.
    + destruct H as (s1 & E & Hok1 & Hg1 & Hl1). rewrite (bind_ok _ _ _ _ _ E). cbn beta zeta.
      rewrite bind_lift. destruct (ArithDec.init (ArithDec.chunks_of b) (VP.le24 (firstn 3 sizes))) as [dd|e|p|]; cbn [Res.bind];
        [| exists (XDec e), s1; auto | exists s1; auto | exists s1; auto].
      rewrite bind_lift. destruct (VP.set_idx parts i dd) as [parts1|e|p|]; cbn [Res.bind];
        [| exists (XDec e), s1; auto | exists s1; auto | exists s1; auto].
      apply IH; assumption.
    + destruct H as (-> & s1 & E & Hok1). rewrite (bind_err _ _ _ _ _ E). exists XEof, s1. auto.
Qed.

Lemma init_partitions_refines d lim v n s : okstate d s -> 0 <= lim -> tk lim s = VP.v_r v ->
  RefOK d (init_partitions_io lim v n s) (VP.init_partitions v n).
Proof.
  intros Hok Hlim Hg. unfold init_partitions_io, VP.init_partitions.
  assert (Hend : forall lim1 parts s1, okstate d s1 -> 0 <= lim1 ->
            RefOK d (bind (take_read_to_end lim1) (fun r =>
                       let size := Z.of_nat (length r) in
                       bind (lift (ArithDec.init (ArithDec.chunks_of r) size)) (fun dd =>
                       bind (lift (ArithDec.usize_sub n 1)) (fun idxn =>
                       bind (lift (VP.set_idx parts idxn dd)) (fun parts1 =>
                       ret (VP.set_partitions (VP.set_r v []) parts1))))) s1)
                    (let size := Z.of_nat (length (tk lim1 s1)) in
                     Res.bind (ArithDec.init (ArithDec.chunks_of (tk lim1 s1)) size) (fun dd =>
                     Res.bind (ArithDec.usize_sub n 1) (fun idxn =>
                     Res.bind (VP.set_idx parts idxn dd) (fun parts1 =>
                     Ok (VP.set_partitions (VP.set_r v []) parts1)))))).
  { intros lim1 parts s1 Hok1 Hl1. destruct (take_read_to_end_spec d s1 lim1 Hok1 Hl1) as (s2 & E & Hok2).
    rewrite (bind_ok _ _ _ _ _ E). cbn beta zeta.
    lift_step. lift_step. lift_step. split; [reflexivity | exact Hok2]. }
  destruct (1 <? n) eqn:En.
  - rewrite <- Hg.
    pose proof (take_read_exact_spec d s lim (3 * n - 3) Hok Hlim) as H.
    unfold bind at 1, handle at 1. unfold bind at 1, handle at 1.
    destruct (VP.read_exact (tk lim s) (3 * n - 3)) as [[sizes g1]|e| |]; cbn [Res.bind]; try contradiction.
    + destruct H as (s1 & E & Hok1 & Hg1 & Hl1). rewrite E.
      pose proof (init_sized_partitions_refines d (Z.to_nat (n - 1)) 0 sizes (lim - len sizes) (VP.v_partitions v) s1 g1 Hok1 Hl1 Hg1) as H2.
      destruct (VP.init_sized_partitions (Z.to_nat (n - 1)) 0 sizes g1 (VP.v_partitions v)) as [[g2 parts2]|e|p|]; cbn [Res.bind].
      * destruct H2 as (lim2 & s2 & E2 & Hok2 & Hg2 & Hl2). rewrite E2. rewrite <- Hg2. apply Hend; assumption.
      * destruct H2 as (x & s2 & E2 & Hx & Hok2). rewrite E2. split; [cbn [fst erase]; rewrite Hx; reflexivity | exact Hok2].
      * destruct H2 as (s2 & E2 & Hok2). rewrite E2. split; [reflexivity | exact Hok2].
      * destruct H2 as (s2 & E2 & Hok2). rewrite E2. split; [reflexivity | exact Hok2].
    + destruct H as (-> & s1 & E & Hok1). rewrite E. split; [reflexivity | exact Hok1].
  - unfold bind at 1, handle at 1. unfold ret at 1. cbn [Res.bind]. rewrite <- Hg. apply Hend; assumption.
Qed.
