(* The canvas of every well-formed container fits in usize: fix F11 computes the canvas length with usize::checked_mul, so
   read_frame never answers ImageTooLarge for the canvas of a file that WebPDecoder::new accepted.  The theorems "from the file
   bytes" (C06 module G, C07 modules H and HC) therefore carry no size hypothesis. *)
From Coq Require Import ZArith List Bool Lia.
From WebP Require Import Spec.Container.
Open Scope Z_scope.

Lemma in_range_iff lo hi x : in_range lo hi x = true <-> lo <= x <= hi.
Proof. unfold in_range. rewrite andb_true_iff, !Z.leb_le. tauto. Qed.

Lemma wf_canvas_fits c : wf c = true -> fst (dims c) * snd (dims c) * 4 < 18446744073709551616.
Proof.
  unfold wf. intros H. apply andb_true_iff in H. destruct H as [_ H].
  destruct c as [v trail | l trail | x cs]; cbn [dims fst snd].
  - apply andb_true_iff in H. destruct H as [H _]. unfold vp8_ok in H.
    repeat (apply andb_true_iff in H; destruct H as [H ?]).
    repeat match goal with Hr : in_range _ _ _ = true |- _ => apply in_range_iff in Hr end. nia.
  - apply andb_true_iff in H. destruct H as [H _]. unfold vp8l_ok in H.
    repeat (apply andb_true_iff in H; destruct H as [H ?]).
    repeat match goal with Hr : in_range _ _ _ = true |- _ => apply in_range_iff in Hr end. nia.
  - repeat (apply andb_true_iff in H; destruct H as [H ?]). unfold vp8x_ok in H.
    repeat (apply andb_true_iff in H; destruct H as [H ?]).
    match goal with Hm : (_ <=? 4294967295) = true |- _ => apply Z.leb_le in Hm; lia end.
Qed.
