(* C10, container layer over an abstract reader: two compositional laws of Model.ContainerIO computations.

   FaultLaw m   one injected fault at call index k, against the fault-free run of m from the same state:
                  k outside the calls m makes  -> same result, same final state (up to the armed fault);
                  k among the calls m makes    -> m returns IErr XFault after exactly k + 1 calls.
                In particular no fault is swallowed and none becomes a panic or a success.
   SchedLaw m   from two states that agree on data and position (any schedules, any call counters, faults
                absent or already passed) m returns the same result and leaves the same position.
   StateFree m  the same, without the hypothesis on the position (operations that start with an absolute seek).

   Both laws hold for the primitives and are preserved by `?` (bind), by `match` on a result that passes XFault
   through (handle), by `if` and by `match` on values; so they hold for every function of the model. *)
From Coq Require Import ZArith List Bool Lia.
From WebP Require Import Lib.Res Model.Container Model.ContainerIO Proofs.ContainerIO_prims.
Import ListNotations.
Open Scope Z_scope.

(* ---------------------------------------------------------------------------------------------- *)
(* FaultLaw                                                                                         *)
(* ---------------------------------------------------------------------------------------------- *)
Definition FaultLaw {A} (m : M A) : Prop :=
  forall s k, r_fail_at s = None -> r_fail_eof s = false ->
    r_calls s <= r_calls (snd (m s)) /\ r_fail_at (snd (m s)) = None /\ r_fail_eof (snd (m s)) = false
    /\ ((k < r_calls s \/ r_calls (snd (m s)) <= k) ->
          m (set_fail s (Some k)) = (fst (m s), set_fail (snd (m s)) (Some k)))
    /\ (r_calls s <= k < r_calls (snd (m s)) ->
          fst (m (set_fail s (Some k))) = IErr XFault
          /\ r_calls (snd (m (set_fail s (Some k)))) = k + 1
          /\ r_fail_at (snd (m (set_fail s (Some k)))) = Some k).

Lemma FaultLaw_pure {A} (g : rstate -> ires A) :
  (forall s f, g (set_fail s f) = g s) -> FaultLaw (fun s => (g s, s)).
Proof.
  intros Hg s k Hs Hk. cbn [fst snd]. split; [lia|]. split; [exact Hs|]. split; [exact Hk|]. split.
  - intros _. rewrite Hg. reflexivity.
  - lia.
Qed.

Lemma FaultLaw_const {A} (r : ires A) : FaultLaw (fun s => (r, s)).
Proof. apply (FaultLaw_pure (fun _ => r)). reflexivity. Qed.

Lemma FaultLaw_ret {A} (a : A) : FaultLaw (ret a). Proof. exact (FaultLaw_const _). Qed.
Lemma FaultLaw_fail {A} e : FaultLaw (@fail A e). Proof. exact (FaultLaw_const _). Qed.
Lemma FaultLaw_lift {A} (r : res A) : FaultLaw (lift r). Proof. exact (FaultLaw_const _). Qed.
Lemma FaultLaw_lift_cursor {A} (r : res A) : FaultLaw (lift_cursor r). Proof. exact (FaultLaw_const _). Qed.
Lemma FaultLaw_get_data : FaultLaw get_data.
Proof. apply (FaultLaw_pure (fun s => IOk (r_data s))). reflexivity. Qed.

Lemma FaultLaw_handle {A B} (m : M A) (h : ires A -> M B) :
  FaultLaw m -> (forall r, FaultLaw (h r)) -> (forall s, h (IErr XFault) s = (IErr XFault, s)) ->
  FaultLaw (handle m h).
Proof.
  intros Hm Hh Hpass s k Hs Hk. unfold handle.
  destruct (Hm s k Hs Hk) as (Hc & Hn & Hke & Hsame & Hf).
  destruct (m s) as [r0 s0] eqn:E0. cbn [fst snd] in *.
  destruct (Hh r0 s0 k Hn Hke) as (Hc' & Hn' & Hke' & Hsame' & Hf').
  split; [lia|]. split; [exact Hn'|]. split; [exact Hke'|]. split.
  - intros H. rewrite Hsame by lia. apply Hsame'. lia.
  - intros H. destruct (Z_lt_le_dec k (r_calls s0)) as [Hlt|Hge].
    + destruct (Hf ltac:(lia)) as (F1 & F2 & F3).
      destruct (m (set_fail s (Some k))) as [r1 s1]. cbn [fst snd] in *. subst r1.
      rewrite Hpass. cbn [fst snd]. auto.
    + rewrite Hsame by lia. apply Hf'. lia.
Qed.

Lemma FaultLaw_bind {A B} (m : M A) (f : A -> M B) :
  FaultLaw m -> (forall a, FaultLaw (f a)) -> FaultLaw (bind m f).
Proof.
  intros Hm Hf. unfold bind. apply FaultLaw_handle; [exact Hm | | reflexivity].
  intros [a|e|p|]; [apply Hf | apply FaultLaw_const ..].
Qed.

Lemma FaultLaw_read_exact n : FaultLaw (read_exact n).
Proof.
  intros s k Hs Hk. unfold read_exact. rewrite remaining_set_fail. cbn [r_sched r_fail_at r_fail_eof r_calls r_pos set_fail].
  rewrite Hs, Hk. cbn [fault_err].
  pose proof (read_loop_fault (r_sched s) k XFault (S (length (remaining s))) (remaining s) n (r_calls s) [] 0) as H.
  cbn zeta in H.
  destruct (read_loop (S (length (remaining s))) (r_sched s) None XFault (remaining s) n (r_calls s) [] 0) as [[r0 c0] n0].
  destruct (read_loop (S (length (remaining s))) (r_sched s) (Some k) XFault (remaining s) n (r_calls s) [] 0) as [[r1 c1] n1].
  cbn [fst snd] in *. destruct H as (Hc & Hsame & Hf).
  split; [exact Hc|]. split; [exact Hs|]. split; [exact Hk|]. split.
  - intros H. specialize (Hsame H). inversion Hsame. subst. reflexivity.
  - intros H. destruct (Hf H) as [F1 F2]. subst. auto.
Qed.

Lemma FaultLaw_seek_to (target : rstate -> Z) :
  (forall s f, target (set_fail s f) = target s) -> FaultLaw (seek_to target).
Proof.
  intros Ht s k Hs Hk. unfold seek_to. cbn [r_fail_at r_fail_eof r_calls r_pos set_fail]. rewrite Hs, Hk, Ht. cbn [is_fail fault_err].
  destruct (k =? r_calls s) eqn:Ek.
  - apply Z.eqb_eq in Ek.
    destruct ((target s <? 0) || (u64_max <? target s)); cbn [fst snd set_pos_calls r_calls r_fail_at r_fail_eof];
      (split; [lia|]); (split; [exact Hs|]); (split; [exact Hk|]); (split; [lia|]); intros _; repeat split; lia.
  - apply Z.eqb_neq in Ek.
    destruct ((target s <? 0) || (u64_max <? target s)); cbn [fst snd set_pos_calls r_calls r_fail_at r_fail_eof];
      (split; [lia|]); (split; [exact Hs|]); (split; [exact Hk|]); (split; [reflexivity | lia]).
Qed.

Lemma FaultLaw_seek_start p : FaultLaw (seek_start p).
Proof. apply FaultLaw_seek_to. reflexivity. Qed.
Lemma FaultLaw_seek_current off : FaultLaw (seek_current off).
Proof. apply FaultLaw_seek_to. reflexivity. Qed.

(* ---------------------------------------------------------------------------------------------- *)
(* SchedLaw / StateFree                                                                             *)
(* ---------------------------------------------------------------------------------------------- *)
Definition data_eq (s1 s2 : rstate) : Prop := r_data s1 = r_data s2 /\ quiet s1 /\ quiet s2.
Definition sched_eq (s1 s2 : rstate) : Prop := data_eq s1 s2 /\ r_pos s1 = r_pos s2.

Definition SchedLaw {A} (m : M A) : Prop :=
  forall s1 s2, sched_eq s1 s2 -> fst (m s1) = fst (m s2) /\ sched_eq (snd (m s1)) (snd (m s2)).
Definition StateFree {A} (m : M A) : Prop :=
  forall s1 s2, data_eq s1 s2 -> fst (m s1) = fst (m s2) /\ data_eq (snd (m s1)) (snd (m s2)).

Lemma SchedLaw_pure {A} (g : rstate -> ires A) :
  (forall s1 s2, sched_eq s1 s2 -> g s1 = g s2) -> SchedLaw (fun s => (g s, s)).
Proof. intros Hg s1 s2 H. cbn [fst snd]. split; [apply Hg; exact H | exact H]. Qed.

Lemma SchedLaw_const {A} (r : ires A) : SchedLaw (fun s => (r, s)).
Proof. apply (SchedLaw_pure (fun _ => r)). reflexivity. Qed.

Lemma SchedLaw_ret {A} (a : A) : SchedLaw (ret a). Proof. exact (SchedLaw_const _). Qed.
Lemma SchedLaw_fail {A} e : SchedLaw (@fail A e). Proof. exact (SchedLaw_const _). Qed.
Lemma SchedLaw_lift {A} (r : res A) : SchedLaw (lift r). Proof. exact (SchedLaw_const _). Qed.
Lemma SchedLaw_lift_cursor {A} (r : res A) : SchedLaw (lift_cursor r). Proof. exact (SchedLaw_const _). Qed.
Lemma SchedLaw_get_data : SchedLaw get_data.
Proof. apply (SchedLaw_pure (fun s => IOk (r_data s))). intros s1 s2 [[H _] _]. rewrite H. reflexivity. Qed.

Lemma SchedLaw_handle {A B} (m : M A) (h : ires A -> M B) :
  SchedLaw m -> (forall r, SchedLaw (h r)) -> SchedLaw (handle m h).
Proof.
  intros Hm Hh s1 s2 H. unfold handle. destruct (Hm s1 s2 H) as [E1 E2].
  destruct (m s1) as [r1 t1]. destruct (m s2) as [r2 t2]. cbn [fst snd] in *. subst r2. apply Hh. exact E2.
Qed.

Lemma SchedLaw_bind {A B} (m : M A) (f : A -> M B) :
  SchedLaw m -> (forall a, SchedLaw (f a)) -> SchedLaw (bind m f).
Proof.
  intros Hm Hf. unfold bind. apply SchedLaw_handle; [exact Hm|].
  intros [a|e|p|]; [apply Hf | apply SchedLaw_const ..].
Qed.

Lemma quiet_step s p c : quiet s -> r_calls s <= c -> quiet (set_pos_calls s p c).
Proof. unfold quiet. cbn [set_pos_calls r_fail_at r_calls]. apply quiet_at_mono. Qed.

Lemma read_exact_quiet n s : quiet s -> read_exact n s = (let '(r, c, nr) :=
   read_loop (S (length (remaining s))) (r_sched s) None XFault (remaining s) n (r_calls s) [] 0 in
   (r, set_pos_calls s (r_pos s + nr) c)).
Proof. intros Hq. unfold read_exact. rewrite (read_loop_quiet _ _ _ XFault) by exact Hq. reflexivity. Qed.

(* what read_exact does once no fault can fire: the pure cursor semantics, at least one call when n > 0 *)
Lemma read_exact_nofault n s : quiet s ->
  exists c', r_calls s <= c' /\ (0 < n -> r_calls s < c') /\
    read_exact n s =
      if n <=? 0 then (IOk [], set_pos_calls s (r_pos s + 0) c')
      else if n <=? len (remaining s) then (IOk (takez n (remaining s)), set_pos_calls s (r_pos s + n) c')
      else (IErr XEof, set_pos_calls s (r_pos s + len (remaining s)) c').
Proof.
  intros Hq. rewrite read_exact_quiet by exact Hq.
  destruct (n <=? 0) eqn:E0.
  - exists (r_calls s). apply Z.leb_le in E0. split; [lia|]. split; [lia|].
    cbn [read_loop]. replace (n <=? 0) with true by (symmetry; apply Z.leb_le; lia). reflexivity.
  - apply Z.leb_gt in E0.
    destruct (read_loop_nofault (r_sched s) XFault (S (length (remaining s))) (remaining s) n (r_calls s) [] 0 ltac:(lia) E0)
      as (c' & Hc' & Eq).
    exists c'. split; [lia|]. split; [lia|]. rewrite Eq.
    destruct (n <=? len (remaining s)); reflexivity.
Qed.

Lemma SchedLaw_read_exact n : SchedLaw (read_exact n).
Proof.
  intros s1 s2 [[Hd [Hq1 Hq2]] Hp].
  assert (Hrem : remaining s1 = remaining s2) by (unfold remaining; rewrite Hd, Hp; reflexivity).
  destruct (read_exact_nofault n s1 Hq1) as (c1 & Hc1 & _ & E1).
  destruct (read_exact_nofault n s2 Hq2) as (c2 & Hc2 & _ & E2).
  rewrite E1, E2, Hrem, Hp.
  destruct (n <=? 0); [|destruct (n <=? len (remaining s2))]; cbn [fst snd]; (split; [reflexivity|]);
    (split; [split; [exact Hd | split; apply quiet_step; assumption] | reflexivity]).
Qed.

Lemma seek_to_quiet target s : quiet s ->
  seek_to target s =
    if (target s <? 0) || (u64_max <? target s) then (IErr XInvalidSeek, set_pos_calls s (r_pos s) (r_calls s + 1))
    else (IOk (target s), set_pos_calls s (target s) (r_calls s + 1)).
Proof. intros Hq. unfold seek_to. rewrite (is_fail_quiet _ (r_calls s) (r_calls s) Hq) by lia. reflexivity. Qed.

Lemma SchedLaw_seek_to target :
  (forall s1 s2, sched_eq s1 s2 -> target s1 = target s2) -> SchedLaw (seek_to target).
Proof.
  intros Ht s1 s2 H. pose proof (Ht s1 s2 H) as Et. destruct H as [[Hd [Hq1 Hq2]] Hp].
  rewrite !seek_to_quiet by assumption. rewrite Et, Hp.
  destruct ((target s2 <? 0) || (u64_max <? target s2)); cbn [fst snd]; (split; [reflexivity|]);
    (split; [split; [exact Hd | split; apply quiet_step; (assumption || lia)] | reflexivity]).
Qed.

Lemma SchedLaw_seek_start p : SchedLaw (seek_start p).
Proof. apply SchedLaw_seek_to. reflexivity. Qed.
Lemma SchedLaw_seek_current off : SchedLaw (seek_current off).
Proof. apply SchedLaw_seek_to. intros s1 s2 [_ Hp]. rewrite Hp. reflexivity. Qed.

(* an operation that starts with seek(SeekFrom::Start(p)) does not depend on where the reader was left *)
Lemma StateFree_seek_start_then {B} p (f : Z -> M B) :
  (forall a, SchedLaw (f a)) -> StateFree (bind (seek_start p) f).
Proof.
  intros Hf s1 s2 [Hd [Hq1 Hq2]]. unfold bind, handle, seek_start. rewrite !seek_to_quiet by assumption.
  destruct ((p <? 0) || (u64_max <? p)).
  - cbn [fst snd]. split; [reflexivity|]. split; [exact Hd | split; apply quiet_step; (assumption || lia)].
  - assert (Hse : sched_eq (set_pos_calls s1 p (r_calls s1 + 1)) (set_pos_calls s2 p (r_calls s2 + 1))).
    { split; [split; [exact Hd | split; apply quiet_step; (assumption || lia)] | reflexivity]. }
    destruct (Hf p _ _ Hse) as [E1 E2]. split; [exact E1 | exact (proj1 E2)].
Qed.

Lemma StateFree_const {A} (r : ires A) : StateFree (fun s => (r, s)).
Proof. intros s1 s2 H. cbn [fst snd]. split; [reflexivity | exact H]. Qed.

Lemma StateFree_bind_lift {A B} (r : res A) (f : A -> M B) :
  (forall a, StateFree (f a)) -> StateFree (bind (lift r) f).
Proof.
  intros Hf s1 s2 H. unfold bind, handle, lift. destruct r as [a|e|p|]; cbn [of_res]; [apply Hf; exact H | ..];
    (cbn [fst snd]; split; [reflexivity | exact H]).
Qed.

(* ---------------------------------------------------------------------------------------------- *)
(* the laws hold for every function of the model                                                    *)
(* ---------------------------------------------------------------------------------------------- *)
Create HintDb flaw discriminated.
Create HintDb slaw discriminated.
#[export] Hint Resolve FaultLaw_ret FaultLaw_fail FaultLaw_lift FaultLaw_lift_cursor FaultLaw_get_data FaultLaw_read_exact
  FaultLaw_seek_start FaultLaw_seek_current FaultLaw_const : flaw.
#[export] Hint Resolve SchedLaw_ret SchedLaw_fail SchedLaw_lift SchedLaw_lift_cursor SchedLaw_get_data SchedLaw_read_exact
  SchedLaw_seek_start SchedLaw_seek_current SchedLaw_const : slaw.

Ltac fl :=
  repeat first
    [ solve [auto 1 with flaw]
    | apply FaultLaw_bind; [|intros]
    | apply FaultLaw_handle; [ | intros | intros; reflexivity]
    | match goal with
      | |- FaultLaw (if ?b then _ else _) => destruct b
      | |- FaultLaw (match ?x with _ => _ end) => destruct x
      end ].
Ltac sl :=
  repeat first
    [ solve [auto 1 with slaw]
    | apply SchedLaw_bind; [|intros]
    | apply SchedLaw_handle; [ | intros]
    | match goal with
      | |- SchedLaw (if ?b then _ else _) => destruct b
      | |- SchedLaw (match ?x with _ => _ end) => destruct x
      end ].

Lemma FaultLaw_stream_position : FaultLaw stream_position. Proof. unfold stream_position. fl. Qed.
Lemma SchedLaw_stream_position : SchedLaw stream_position. Proof. unfold stream_position. sl. Qed.
Lemma FaultLaw_seek_relative off : FaultLaw (seek_relative off). Proof. unfold seek_relative. fl. Qed.
Lemma SchedLaw_seek_relative off : SchedLaw (seek_relative off). Proof. unfold seek_relative. sl. Qed.
Lemma FaultLaw_read_u8 : FaultLaw read_u8. Proof. unfold read_u8. fl. Qed.
Lemma SchedLaw_read_u8 : SchedLaw read_u8. Proof. unfold read_u8. sl. Qed.
Lemma FaultLaw_read_u16_le : FaultLaw read_u16_le. Proof. unfold read_u16_le. fl. Qed.
Lemma SchedLaw_read_u16_le : SchedLaw read_u16_le. Proof. unfold read_u16_le. sl. Qed.
Lemma FaultLaw_read_u24_le : FaultLaw read_u24_le. Proof. unfold read_u24_le. fl. Qed.
Lemma SchedLaw_read_u24_le : SchedLaw read_u24_le. Proof. unfold read_u24_le. sl. Qed.
Lemma FaultLaw_read_u32_le : FaultLaw read_u32_le. Proof. unfold read_u32_le. fl. Qed.
Lemma SchedLaw_read_u32_le : SchedLaw read_u32_le. Proof. unfold read_u32_le. sl. Qed.
Lemma FaultLaw_read_3_bytes : FaultLaw read_3_bytes. Proof. unfold read_3_bytes. fl. Qed.
Lemma SchedLaw_read_3_bytes : SchedLaw read_3_bytes. Proof. unfold read_3_bytes. sl. Qed.
Lemma FaultLaw_read_fourcc : FaultLaw read_fourcc. Proof. unfold read_fourcc. fl. Qed.
Lemma SchedLaw_read_fourcc : SchedLaw read_fourcc. Proof. unfold read_fourcc. sl. Qed.
#[export] Hint Resolve FaultLaw_stream_position FaultLaw_seek_relative FaultLaw_read_u8 FaultLaw_read_u16_le
  FaultLaw_read_u24_le FaultLaw_read_u32_le FaultLaw_read_3_bytes FaultLaw_read_fourcc : flaw.
#[export] Hint Resolve SchedLaw_stream_position SchedLaw_seek_relative SchedLaw_read_u8 SchedLaw_read_u16_le
  SchedLaw_read_u24_le SchedLaw_read_u32_le SchedLaw_read_3_bytes SchedLaw_read_fourcc : slaw.

Lemma FaultLaw_read_chunk_header : FaultLaw read_chunk_header. Proof. unfold read_chunk_header. fl. Qed.
Lemma SchedLaw_read_chunk_header : SchedLaw read_chunk_header. Proof. unfold read_chunk_header. sl. Qed.
#[export] Hint Resolve FaultLaw_read_chunk_header : flaw.
#[export] Hint Resolve SchedLaw_read_chunk_header : slaw.

Lemma FaultLaw_read_extended_header : FaultLaw read_extended_header. Proof. unfold read_extended_header. fl. Qed.
Lemma SchedLaw_read_extended_header : SchedLaw read_extended_header. Proof. unfold read_extended_header. sl. Qed.
#[export] Hint Resolve FaultLaw_read_extended_header : flaw.
#[export] Hint Resolve SchedLaw_read_extended_header : slaw.

Lemma FaultLaw_read_chunk_in chunks k mx : FaultLaw (read_chunk_in chunks k mx).
Proof. unfold read_chunk_in. fl. Qed.
Lemma SchedLaw_read_chunk_in chunks k mx : SchedLaw (read_chunk_in chunks k mx).
Proof. unfold read_chunk_in. sl. Qed.
#[export] Hint Resolve FaultLaw_read_chunk_in : flaw.
#[export] Hint Resolve SchedLaw_read_chunk_in : slaw.

Lemma FaultLaw_scan_body st : FaultLaw (scan_body st). Proof. unfold scan_body. fl. Qed.
Lemma SchedLaw_scan_body st : SchedLaw (scan_body st). Proof. unfold scan_body. sl. Qed.
#[export] Hint Resolve FaultLaw_scan_body : flaw.
#[export] Hint Resolve SchedLaw_scan_body : slaw.

Lemma FaultLaw_scan fuel maxp : forall st, FaultLaw (scan fuel maxp st).
Proof. induction fuel as [|fuel IH]; intros st; cbn [scan]; fl; apply IH. Qed.
Lemma SchedLaw_scan fuel maxp : forall st, SchedLaw (scan fuel maxp st).
Proof. induction fuel as [|fuel IH]; intros st; cbn [scan]; sl; apply IH. Qed.
#[export] Hint Resolve FaultLaw_scan : flaw.
#[export] Hint Resolve SchedLaw_scan : slaw.

Lemma FaultLaw_first_frame_loop n rend : forall pos chunks, FaultLaw (first_frame_loop n rend pos chunks).
Proof. induction n as [|n IH]; intros pos chunks; cbn [first_frame_loop]; fl; apply IH. Qed.
Lemma SchedLaw_first_frame_loop n rend : forall pos chunks, SchedLaw (first_frame_loop n rend pos chunks).
Proof. induction n as [|n IH]; intros pos chunks; cbn [first_frame_loop]; sl; apply IH. Qed.
#[export] Hint Resolve FaultLaw_first_frame_loop : flaw.
#[export] Hint Resolve SchedLaw_first_frame_loop : slaw.

Lemma FaultLaw_new : FaultLaw new. Proof. unfold new. fl. Qed.
Lemma SchedLaw_new : SchedLaw new. Proof. unfold new. sl. Qed.

Lemma FaultLaw_read_chunk dec k mx : FaultLaw (read_chunk dec k mx). Proof. unfold read_chunk. fl. Qed.
Lemma SchedLaw_read_chunk dec k mx : SchedLaw (read_chunk dec k mx). Proof. unfold read_chunk. sl. Qed.

(* the loop of read_frame that steps over the chunks between two ANMF chunks: induction on its fuel *)
Lemma FaultLaw_skip_to_anmf fuel : forall nfs, FaultLaw (skip_to_anmf fuel nfs).
Proof. induction fuel as [|fuel IH]; intros nfs; cbn [skip_to_anmf]; fl; apply IH. Qed.
Lemma SchedLaw_skip_to_anmf fuel : forall nfs, SchedLaw (skip_to_anmf fuel nfs).
Proof. induction fuel as [|fuel IH]; intros nfs; cbn [skip_to_anmf]; sl; apply IH. Qed.
#[export] Hint Resolve FaultLaw_skip_to_anmf : flaw.
#[export] Hint Resolve SchedLaw_skip_to_anmf : slaw.

Lemma FaultLaw_read_frame_header w h nfs : FaultLaw (read_frame_header w h nfs).
Proof. unfold read_frame_header. fl. Qed.
Lemma SchedLaw_read_frame_header w h nfs : SchedLaw (read_frame_header w h nfs).
Proof. unfold read_frame_header. sl. Qed.

(* operations that begin with an absolute seek do not depend on the state the reader was left in *)
Lemma StateFree_read_chunk_in chunks k mx : StateFree (read_chunk_in chunks k mx).
Proof.
  unfold read_chunk_in. destruct (lookup k chunks) as [[rs re]|]; [|apply (StateFree_const (IOk None))].
  apply StateFree_bind_lift. intros sz. destruct (mx <? sz); [apply (StateFree_const (IErr (XDec EMemoryLimitExceeded)))|].
  apply StateFree_seek_start_then. intros _. sl.
Qed.

Lemma StateFree_read_frame_header w h nfs : StateFree (read_frame_header w h nfs).
Proof. unfold read_frame_header. apply StateFree_seek_start_then. intros _. sl. Qed.

(* ---------------------------------------------------------------------------------------------- *)
(* what no computation changes                                                                      *)
(* ---------------------------------------------------------------------------------------------- *)
Definition Preserves {A} (m : M A) : Prop :=
  forall s, r_data (snd (m s)) = r_data s /\ r_sched (snd (m s)) = r_sched s
            /\ r_fail_at (snd (m s)) = r_fail_at s /\ r_fail_eof (snd (m s)) = r_fail_eof s.

Lemma Preserves_const {A} (g : rstate -> ires A) : Preserves (fun s => (g s, s)).
Proof. intros s. cbn [snd]. auto. Qed.
Lemma Preserves_ret {A} (a : A) : Preserves (ret a). Proof. exact (Preserves_const _). Qed.
Lemma Preserves_fail {A} e : Preserves (@fail A e). Proof. exact (Preserves_const _). Qed.
Lemma Preserves_lift {A} (r : res A) : Preserves (lift r). Proof. exact (Preserves_const _). Qed.
Lemma Preserves_lift_cursor {A} (r : res A) : Preserves (lift_cursor r). Proof. exact (Preserves_const _). Qed.
Lemma Preserves_get_data : Preserves get_data. Proof. exact (Preserves_const _). Qed.
Lemma Preserves_k {A} (r : ires A) : Preserves (fun s => (r, s)). Proof. exact (Preserves_const (fun _ => r)). Qed.

Lemma Preserves_handle {A B} (m : M A) (h : ires A -> M B) :
  Preserves m -> (forall r, Preserves (h r)) -> Preserves (handle m h).
Proof.
  intros Hm Hh s. unfold handle. destruct (Hm s) as (A1 & A2 & A3 & A4). destruct (m s) as [r s']. cbn [snd] in *.
  destruct (Hh r s') as (B1 & B2 & B3 & B4). repeat split; congruence.
Qed.
Lemma Preserves_bind {A B} (m : M A) (f : A -> M B) :
  Preserves m -> (forall a, Preserves (f a)) -> Preserves (bind m f).
Proof.
  intros Hm Hf. unfold bind. apply Preserves_handle; [exact Hm|]. intros [a|e|p|]; [apply Hf | apply Preserves_k ..].
Qed.
Lemma Preserves_read_exact n : Preserves (read_exact n).
Proof. intros s. unfold read_exact. destruct (read_loop _ _ _ _ _ _ _ _ _) as [[r c] nr]. cbn [snd set_pos_calls r_data r_sched r_fail_at r_fail_eof]. auto. Qed.
Lemma Preserves_seek_to t : Preserves (seek_to t).
Proof.
  intros s. unfold seek_to. destruct (is_fail _ _); [|destruct (_ || _)];
    cbn [snd set_pos_calls r_data r_sched r_fail_at r_fail_eof]; auto.
Qed.
Lemma Preserves_seek_start p : Preserves (seek_start p). Proof. apply Preserves_seek_to. Qed.
Lemma Preserves_seek_current p : Preserves (seek_current p). Proof. apply Preserves_seek_to. Qed.

Create HintDb plaw discriminated.
#[export] Hint Resolve Preserves_ret Preserves_fail Preserves_lift Preserves_lift_cursor Preserves_get_data Preserves_k
  Preserves_read_exact Preserves_seek_start Preserves_seek_current : plaw.
Ltac pl :=
  repeat first
    [ solve [auto 1 with plaw]
    | apply Preserves_bind; [|intros]
    | apply Preserves_handle; [ | intros]
    | match goal with
      | |- Preserves (if ?b then _ else _) => destruct b
      | |- Preserves (match ?x with _ => _ end) => destruct x
      end ].

Lemma Preserves_read_chunk_in chunks k mx : Preserves (read_chunk_in chunks k mx).
Proof. unfold read_chunk_in. pl. Qed.
