(* C03 for the container layer: on EVERY byte string Model.Container.new neither panics (no u32/u64/i64 overflow
   of checked arithmetic, no unwrap of None) nor runs out of fuel, and every accessor of a decoder it returns is
   panic-free as well.  Hypotheses: the input is a list of bytes, shorter than isize::MAX (a Rust slice). *)
From Coq Require Import ZArith List Bool Lia.
From WebP Require Import Lib.Res Lib.ZBits Spec.Container Proofs.Container_bytes Proofs.Container_scan.
From WebP Require Model.Container.
Import ListNotations.
Open Scope Z_scope.

Ltac Zify.zify_post_hook ::= Z.div_mod_to_equations.

Definition safe {A} (r : res A) : Prop := match r with Panic _ | OutOfFuel => False | _ => True end.

Lemma safe_bind {A B} (r : res A) (f : A -> res B) :
  safe r -> (forall a, r = Ok a -> safe (f a)) -> safe (bind r f).
Proof. destruct r; cbn; auto. Qed.

Lemma safe_Ok {A} (a : A) : safe (Ok a). Proof. exact I. Qed.
(* injectivity without the normalisation [injection] performs on the arithmetic inside *)
Lemma Ok_inj {A} (a b : A) : Ok a = Ok b -> a = b.
Proof. intros H. inversion H. reflexivity. Qed.
Lemma Ok_Continue_inj a b : Ok (M.Continue a) = Ok (M.Continue b) -> a = b.
Proof. intros H. inversion H. reflexivity. Qed.
Lemma safe_Err {A} e : safe (@Err A e). Proof. exact I. Qed.

(* ---------------------------------------------------------------------------------------------- *)
(* the reader on an arbitrary byte list                                                             *)
(* ---------------------------------------------------------------------------------------------- *)
Lemma forallb_firstn {A} (f : A -> bool) n l : forallb f l = true -> forallb f (firstn n l) = true.
Proof. revert l. induction n as [|n IH]; intros [|a l] H; cbn [firstn forallb] in *; try reflexivity.
  rewrite andb_true_iff in H. destruct H as [Ha Hl]. rewrite Ha, (IH l Hl). reflexivity. Qed.
Lemma forallb_skipn {A} (f : A -> bool) n l : forallb f l = true -> forallb f (skipn n l) = true.
Proof. revert l. induction n as [|n IH]; intros [|a l] H; cbn [skipn forallb] in *; try reflexivity; try exact H.
  rewrite andb_true_iff in H. destruct H as [_ Hl]. exact (IH l Hl). Qed.

Lemma all_bytes_slice d p n : all_bytes d = true -> all_bytes (M.slice d p n) = true.
Proof. intros H. unfold M.slice, all_bytes. apply forallb_firstn, forallb_skipn. exact H. Qed.

Lemma is_byte_true' x : is_byte x = true -> 0 <= x <= 255.
Proof. unfold is_byte. rewrite andb_true_iff, !Z.leb_le. tauto. Qed.

Lemma nth_byte_range l i : all_bytes l = true -> 0 <= M.nth_byte l i <= 255.
Proof.
  unfold M.nth_byte, all_bytes. revert i. induction l as [|a l IH]; intros i H.
  - destruct i; cbn; lia.
  - cbn [forallb] in H. rewrite andb_true_iff in H. destruct H as [Ha Hl].
    destruct i; cbn [nth]; [apply is_byte_true'; exact Ha | apply IH; exact Hl].
Qed.

(* read_exact: Ok with the position advanced, or UnexpectedEof; never a panic *)
Lemma read_exact_cases d p n : 0 < n -> all_bytes d = true ->
  (exists x, M.read_exact d p n = Ok (x, p + n) /\ all_bytes x = true /\ p + n <= len d) \/ M.read_exact d p n = Err EIo.
Proof.
  intros Hn Hb. unfold M.read_exact. destruct (n =? 0) eqn:E0; [apply Z.eqb_eq in E0; lia|].
  rewrite len_M. destruct (p + n <=? len d) eqn:E; [left | right; reflexivity].
  apply Z.leb_le in E. eexists. split; [reflexivity|]. split; [apply all_bytes_slice; exact Hb | exact E].
Qed.

Lemma read_u8_cases d p : all_bytes d = true ->
  (exists v, M.read_u8 d p = Ok (v, p + 1) /\ 0 <= v <= 255 /\ p + 1 <= len d) \/ M.read_u8 d p = Err EIo.
Proof.
  intros Hb. unfold M.read_u8. destruct (read_exact_cases d p 1 ltac:(lia) Hb) as [(x & -> & Hx & Hl) | ->]; [left | right; reflexivity].
  cbn [bind]. eexists. split; [reflexivity|]. split; [apply nth_byte_range; exact Hx | exact Hl].
Qed.
Lemma read_u16_cases d p : all_bytes d = true ->
  (exists v, M.read_u16_le d p = Ok (v, p + 2) /\ 0 <= v <= 65535 /\ p + 2 <= len d) \/ M.read_u16_le d p = Err EIo.
Proof.
  intros Hb. unfold M.read_u16_le. destruct (read_exact_cases d p 2 ltac:(lia) Hb) as [(x & -> & Hx & Hl) | ->]; [left | right; reflexivity].
  cbn [bind]. eexists. split; [reflexivity|]. split; [|exact Hl].
  pose proof (nth_byte_range x 0 Hx). pose proof (nth_byte_range x 1 Hx). lia.
Qed.
Lemma read_u24_cases d p : all_bytes d = true ->
  (exists v, M.read_u24_le d p = Ok (v, p + 3) /\ 0 <= v <= 16777215 /\ p + 3 <= len d) \/ M.read_u24_le d p = Err EIo.
Proof.
  intros Hb. unfold M.read_u24_le. destruct (read_exact_cases d p 3 ltac:(lia) Hb) as [(x & -> & Hx & Hl) | ->]; [left | right; reflexivity].
  cbn [bind]. eexists. split; [reflexivity|]. split; [|exact Hl].
  pose proof (nth_byte_range x 0 Hx). pose proof (nth_byte_range x 1 Hx). pose proof (nth_byte_range x 2 Hx). lia.
Qed.
Lemma read_u32_cases d p : all_bytes d = true ->
  (exists v, M.read_u32_le d p = Ok (v, p + 4) /\ 0 <= v <= 4294967295 /\ p + 4 <= len d) \/ M.read_u32_le d p = Err EIo.
Proof.
  intros Hb. unfold M.read_u32_le. destruct (read_exact_cases d p 4 ltac:(lia) Hb) as [(x & -> & Hx & Hl) | ->]; [left | right; reflexivity].
  cbn [bind]. eexists. split; [reflexivity|]. split; [|exact Hl].
  pose proof (nth_byte_range x 0 Hx). pose proof (nth_byte_range x 1 Hx). pose proof (nth_byte_range x 2 Hx).
  pose proof (nth_byte_range x 3 Hx). lia.
Qed.
Lemma read_3_bytes_cases d p : all_bytes d = true ->
  (exists v, M.read_3_bytes d p = Ok (v, p + 3) /\ 0 <= v <= 16777215 /\ p + 3 <= len d) \/ M.read_3_bytes d p = Err EIo.
Proof.
  intros Hb. unfold M.read_3_bytes. destruct (read_exact_cases d p 3 ltac:(lia) Hb) as [(x & -> & Hx & Hl) | ->]; [left | right; reflexivity].
  cbn [bind]. eexists. split; [reflexivity|]. split; [|exact Hl].
  pose proof (nth_byte_range x 0 Hx). pose proof (nth_byte_range x 1 Hx). pose proof (nth_byte_range x 2 Hx).
  rewrite lor3 by lia. lia.
Qed.

Lemma read_fourcc_cases d p : all_bytes d = true ->
  (exists k, M.read_fourcc d p = Ok (k, p + 4) /\ p + 4 <= len d) \/ M.read_fourcc d p = Err EIo.
Proof.
  intros Hb. unfold M.read_fourcc. destruct (read_exact_cases d p 4 ltac:(lia) Hb) as [(x & -> & Hx & Hl) | ->]; [left | right; reflexivity].
  cbn [bind]. eexists. split; [reflexivity | exact Hl].
Qed.

Lemma read_chunk_header_cases d p : all_bytes d = true ->
  (exists k sz rsz, M.read_chunk_header d p = Ok ((k, sz, rsz), p + 8)
                    /\ 0 <= sz <= 4294967295 /\ sz <= rsz <= 4294967295 /\ p + 8 <= len d)
  \/ M.read_chunk_header d p = Err EIo.
Proof.
  intros Hb. unfold M.read_chunk_header.
  destruct (read_fourcc_cases d p Hb) as [(k & -> & Hl) | ->]; [| right; reflexivity]. cbn [bind].
  destruct (read_u32_cases d (p + 4) Hb) as [(v & -> & Hv & Hl2) | ->]; [left | right; reflexivity]. cbn [bind].
  replace (p + 4 + 4) with (p + 8) in * by lia.
  assert (Hland : 0 <= Z.land v 1 <= 1).
  { change (Z.land v 1) with (Z.land v (Z.ones 1)). rewrite Z.land_ones by lia. change (2 ^ 1) with 2. lia. }
  eexists. eexists. eexists. split; [reflexivity|]. unfold M.u32_max. lia.
Qed.

(* ---------------------------------------------------------------------------------------------- *)
(* the chunk map                                                                                    *)
(* ---------------------------------------------------------------------------------------------- *)
Definition big : Z := 1099511627776.      (* 2^40, far above any position the decoder computes *)
Definition mid : Z := 137438953472.       (* 2^37: bound of the ranges registered by the scan *)
Definition range_ok (B : Z) (r : Z * Z) : Prop := 8 <= fst r <= snd r /\ snd r <= B.
Definition map_ok (B : Z) (m : M.chunk_map) : Prop := Forall (fun kr => range_ok B (snd kr)) m.

Lemma map_ok_mono B B' m : B <= B' -> map_ok B m -> map_ok B' m.
Proof. intros HB H. unfold map_ok in *. eapply Forall_impl; [|exact H]. intros [k r] [H1 H2]. split; [exact H1 | cbn [snd] in *; lia]. Qed.

Lemma map_ok_lookup B m k r : map_ok B m -> M.lookup k m = Some r -> range_ok B r.
Proof.
  induction m as [|[k' r'] m IH]; intros H E; cbn [M.lookup] in E; [discriminate|].
  inversion H as [|? ? Hr Hm]; subst. destruct (M.kind_eqb k k'); [injection E as <-; exact Hr | exact (IH Hm E)].
Qed.

Lemma map_ok_or_insert B m k r : map_ok B m -> range_ok B r -> map_ok B (M.or_insert k r m).
Proof.
  intros Hm Hr. unfold M.or_insert. destruct (M.contains_key k m); [exact Hm|].
  unfold map_ok. apply Forall_app. split; [exact Hm | constructor; [exact Hr | constructor]].
Qed.

Lemma read_chunk_in_safe B d m k limit : all_bytes d = true -> map_ok B m -> safe (M.read_chunk_in d m k limit).
Proof.
  intros Hb Hm. unfold M.read_chunk_in. destruct (M.lookup k m) as [[s e]|] eqn:E; [|exact I].
  destruct (map_ok_lookup _ _ _ _ Hm E) as [[H8 Hse] _]. cbn [fst snd] in *.
  rewrite sub_u64_ok by lia. rewrite bind_Ok. destruct (limit <? e - s); [exact I|].
  unfold M.read_exact. destruct (e - s =? 0); [exact I|]. destruct (s + (e - s) <=? M.len d); exact I.
Qed.

(* ---------------------------------------------------------------------------------------------- *)
(* the scan loop                                                                                    *)
(* ---------------------------------------------------------------------------------------------- *)
Definition maxp_bound : Z := 34359738368.      (* 2^35 *)

Definition inv (maxp : Z) (st : M.scan_state) : Prop :=
  0 <= M.s_rpos st /\ 0 <= M.s_position st <= maxp + 8589934592
  /\ 0 <= 32 * M.s_num_frames st <= M.s_position st /\ map_ok mid (M.s_chunks st).

Lemma seek_relative_cases p off : 0 <= p -> 0 <= off ->
  (M.seek_relative p off = Ok (p + off)) \/ M.seek_relative p off = Err EIo.
Proof.
  intros Hp Ho. unfold M.seek_relative. destruct (0 <=? p + off) eqn:E1; [| apply Z.leb_gt in E1; lia].
  destruct (p + off <=? M.u64_max); cbn [andb]; auto.
Qed.

Lemma or_insert_if_ok B (b : bool) k r m : map_ok B m -> range_ok B r -> map_ok B (if b then M.or_insert k r m else m).
Proof. intros Hm Hr. destruct b; [apply map_ok_or_insert; assumption | exact Hm]. Qed.

(* one iteration: no panic; a continuing iteration keeps the invariant and moves the reader forward by at
   least 8 bytes, after a successful 8-byte read *)
Lemma scan_body_safe d maxp st :
  all_bytes d = true -> maxp <= maxp_bound -> inv maxp st -> M.s_position st < maxp ->
  safe (M.scan_body d st)
  /\ forall st', M.scan_body d st = Ok (M.Continue st') ->
       inv maxp st' /\ M.s_rpos st + 8 <= len d /\ M.s_rpos st + 8 <= M.s_rpos st'.
Proof.
  intros Hb Hmax (Hr0 & Hpos & Hnf & Hmap) Hlt. unfold maxp_bound in Hmax.
  unfold M.scan_body.
  destruct (read_chunk_header_cases d (M.s_rpos st) Hb) as [(k & sz & rsz & -> & Hsz & Hrsz & Hl) | ->];
    [| split; [exact I | intros st' H; discriminate H]].
  repeat (first [rewrite bind_Ok | rewrite add_u64_ok by (unfold M.u64_max; lia)]).
  set (chunks := if negb (M.is_unknown k) then _ else _).
  assert (Hchunks : map_ok mid chunks).
  { apply or_insert_if_ok; [exact Hmap|]. unfold range_ok, mid. cbn [fst snd]. lia. }
  destruct (M.kind_eqb k M.KANMF).
  - (* ANMF *)
    rewrite add_u32_ok by (unfold M.u32_max; lia). rewrite bind_Ok.
    destruct (sz <? 24) eqn:E24; [split; [exact I | intros st' H; discriminate H]|]. apply Z.ltb_ge in E24.
    destruct (seek_relative_cases (M.s_rpos st + 8) 12 ltac:(lia) ltac:(lia)) as [-> | ->];
      [| split; [exact I | intros st' H; discriminate H]].
    rewrite bind_Ok.
    destruct (read_u32_cases d (M.s_rpos st + 8 + 12) Hb) as [(v & -> & Hv & Hl2) | ->];
      [| split; [exact I | intros st' H; discriminate H]].
    rewrite bind_Ok.
    destruct (negb (M.s_is_lossy st)).
    + destruct (read_chunk_header_cases d (M.s_rpos st + 8 + 12 + 4) Hb) as [(k2 & sz2 & rsz2 & -> & _ & _ & Hl3) | ->];
        [| split; [exact I | intros st' H; discriminate H]].
      rewrite bind_Ok. rewrite sub_i64_ok by (unfold M.i64_min, M.i64_max; lia). rewrite bind_Ok.
      destruct (seek_relative_cases (M.s_rpos st + 8 + 12 + 4 + 8) (rsz - 24) ltac:(lia) ltac:(lia)) as [-> | ->];
        [| split; [exact I | intros st' H; discriminate H]].
      rewrite bind_Ok. split; [exact I|]. intros st' H. apply Ok_Continue_inj in H. subst st'.
      unfold inv. cbn [M.s_rpos M.s_position M.s_num_frames M.s_chunks]. repeat split; try lia; exact Hchunks.
    + rewrite sub_i64_ok by (unfold M.i64_min, M.i64_max; lia). rewrite bind_Ok.
      destruct (seek_relative_cases (M.s_rpos st + 8 + 12 + 4) (rsz - 16) ltac:(lia) ltac:(lia)) as [-> | ->];
        [| split; [exact I | intros st' H; discriminate H]].
      rewrite bind_Ok. split; [exact I|]. intros st' H. apply Ok_Continue_inj in H. subst st'.
      unfold inv. cbn [M.s_rpos M.s_position M.s_num_frames M.s_chunks]. repeat split; try lia; exact Hchunks.
  - destruct (seek_relative_cases (M.s_rpos st + 8) rsz ltac:(lia) ltac:(lia)) as [-> | ->];
      [| split; [exact I | intros st' H; discriminate H]].
    rewrite bind_Ok. split; [exact I|]. intros st' H. apply Ok_Continue_inj in H. subst st'.
    unfold inv. cbn [M.s_rpos M.s_position M.s_num_frames M.s_chunks]. repeat split; try lia; exact Hchunks.
Qed.

Lemma scan_safe d maxp : all_bytes d = true -> maxp <= maxp_bound ->
  forall fuel st, inv maxp st -> 1 <= Z.of_nat fuel -> len d - M.s_rpos st < Z.of_nat fuel ->
  safe (M.scan fuel d maxp st) /\ forall st', M.scan fuel d maxp st = Ok st' -> inv maxp st'.
Proof.
  intros Hb Hmax. induction fuel as [|fuel IH]; intros st Hinv Hf1 Hfuel.
  - cbn in Hf1. lia.
  - cbn [M.scan]. destruct (M.s_position st <? maxp) eqn:E.
    + apply Z.ltb_lt in E. destruct (scan_body_safe d maxp st Hb Hmax Hinv E) as [Hs Hc].
      destruct (M.scan_body d st) as [[st1|]|e|pk|] eqn:Eb; try (destruct Hs).
      * destruct (Hc st1 eq_refl) as (Hinv1 & Hl & Hadv). apply IH; [exact Hinv1 | lia | lia].
      * split; [exact I | intros st' H; apply Ok_inj in H; subst st'; exact Hinv].
      * split; [exact I | intros st' H; discriminate H].
    + split; [exact I | intros st' H; apply Ok_inj in H; subst st'; exact Hinv].
Qed.

(* ---------------------------------------------------------------------------------------------- *)
(* the first-frame loop                                                                             *)
(* ---------------------------------------------------------------------------------------------- *)
Lemma first_frame_loop_safe d rend : all_bytes d = true ->
  forall n rp position chunks, 0 <= position <= big - 17179869184 * Z.of_nat n -> map_ok big chunks ->
  safe (M.first_frame_loop n d rend rp position chunks)
  /\ forall chunks', M.first_frame_loop n d rend rp position chunks = Ok chunks' -> map_ok big chunks'.
Proof.
  intros Hb. unfold big. induction n as [|n IH]; intros rp position chunks Hpos Hm.
  - cbn [M.first_frame_loop]. split; [exact I | intros c H; apply Ok_inj in H; subst c; exact Hm].
  - cbn [M.first_frame_loop].
    destruct (read_chunk_header_cases d rp Hb) as [(k & sz & rsz & -> & Hsz & Hrsz & _) | ->];
      [| split; [exact I | intros c H; discriminate H]].
    repeat (first [rewrite bind_Ok | rewrite add_u64_ok by (unfold M.u64_max; lia)]).
    assert (Hm' : map_ok big (M.or_insert k (position + 8, position + 8 + sz) chunks)).
    { apply map_ok_or_insert; [exact Hm|]. unfold range_ok, big. cbn [fst snd]. lia. }
    destruct (rend <? position + (8 + rsz) + 8).
    + split; [exact I | intros c H; apply Ok_inj in H; subst c; exact Hm'].
    + apply IH; [lia | exact Hm'].
Qed.

(* ---------------------------------------------------------------------------------------------- *)
(* new                                                                                              *)
(* ---------------------------------------------------------------------------------------------- *)
Definition decoder_ok (dec : M.decoder) (d : list Z) : Prop := M.d_data dec = d /\ map_ok big (M.d_chunks dec).

Lemma land_16383_range x : 0 <= x -> 0 <= Z.land x 16383 <= 16383.
Proof.
  intros H. assert (E : Z.land x 16383 = x mod 16384).
  { change 16383 with (Z.ones 14). rewrite Z.land_ones by lia. reflexivity. }
  rewrite E. lia.
Qed.

Lemma contains_true_lookup k m : M.contains_key k m = true -> exists r, M.lookup k m = Some r.
Proof. unfold M.contains_key. destruct (M.lookup k m) as [r|]; [eauto | discriminate]. Qed.

Definition good (d : list Z) (r : res M.decoder) : Prop :=
  match r with Ok dec => decoder_ok dec d | Err _ => True | Panic _ | OutOfFuel => False end.

Ltac err_branch := cbn [bind good]; exact I.

Ltac io_case H :=
  first [ destruct H as [(?v & -> & ?Hv & ?Hl) | ->]; [rewrite bind_Ok | err_branch]
        | destruct H as [(?v & -> & ?Hl) | ->]; [rewrite bind_Ok | err_branch] ].

Lemma new_good d : all_bytes d = true -> len d <= 9223372036854775807 -> good d (M.new d).
Proof.
  intros Hb Hlen. unfold M.new.
  destruct (read_chunk_header_cases d 0 Hb) as [(k & riff_size & rsz & -> & Hrs & _ & _) | ->];
    [rewrite bind_Ok | err_branch].
  destruct (negb (M.kind_eqb k M.KRIFF)); [err_branch|].
  io_case (read_fourcc_cases d (0 + 8) Hb).
  destruct (negb (M.kind_eqb v M.KWEBP)); [err_branch|].
  destruct (read_chunk_header_cases d (0 + 8 + 4) Hb) as [(chunk & sz & crsz & -> & Hsz & Hcrsz & _) | ->];
    [rewrite bind_Ok | err_branch].
  change (0 + 8 + 4 + 8) with 20. cbv zeta.
  destruct chunk; try err_branch.
  - (* VP8 *)
    io_case (read_u24_cases d 20 Hb).
    destruct (negb (Z.land v0 1 =? 0)); [err_branch|].
    destruct (read_exact_cases d (20 + 3) 3 ltac:(lia) Hb) as [(magic & -> & _ & _) | ->];
      [rewrite bind_Ok | err_branch].
    destruct (negb (M.bytes_eqb magic [157; 1; 42])); [err_branch|].
    io_case (read_u16_cases d (20 + 3 + 3) Hb).
    io_case (read_u16_cases d (20 + 3 + 3 + 2) Hb).
    destruct ((Z.land v1 16383 =? 0) || (Z.land v2 16383 =? 0)); [err_branch|].
    rewrite add_u64_ok by (unfold M.u64_max; lia). rewrite bind_Ok.
    cbn [good]. split; [reflexivity|].
    unfold M.mk_decoder. cbn [M.d_chunks]. constructor; [|constructor]. unfold range_ok, big. cbn [fst snd]. lia.
  - (* VP8L *)
    io_case (read_u8_cases d 20 Hb).
    destruct (negb (v0 =? 47)); [err_branch|].
    io_case (read_u32_cases d (20 + 1) Hb).
    destruct (negb (Z.shiftr v1 29 =? 0)); [err_branch|].
    pose proof (land_16383_range v1 ltac:(lia)) as L1.
    pose proof (land_16383_range (Z.shiftr v1 14) ltac:(apply Z.shiftr_nonneg; lia)) as L2.
    rewrite !add_u32_ok by (unfold M.u32_max; lia). rewrite !bind_Ok.
    rewrite add_u64_ok by (unfold M.u64_max; lia). rewrite bind_Ok.
    cbn [good]. split; [reflexivity|].
    unfold M.mk_decoder. cbn [M.d_chunks]. constructor; [|constructor]. unfold range_ok, big. cbn [fst snd]. lia.
  - (* VP8X *)
    unfold M.read_extended_header.
    io_case (read_u8_cases d 20 Hb).
    io_case (read_3_bytes_cases d (20 + 1) Hb).
    io_case (read_3_bytes_cases d (20 + 1 + 3) Hb).
    rewrite add_u32_ok by (unfold M.u32_max; lia). rewrite bind_Ok.
    io_case (read_3_bytes_cases d (20 + 1 + 3 + 3) Hb).
    rewrite add_u32_ok by (unfold M.u32_max; lia). rewrite bind_Ok.
    destruct (M.u32_max <? (v2 + 1) * (v3 + 1)); [err_branch|].
    rewrite bind_Ok. cbn [M.e_canvas_width M.e_canvas_height M.e_animation M.e_icc_profile M.e_exif_metadata M.e_xmp_metadata M.e_alpha].
    rewrite add_u64_ok by (unfold M.u64_max; lia). rewrite bind_Ok.
    rewrite add_u64_ok by (unfold M.u64_max; lia). rewrite bind_Ok.
    set (maxp := 20 + crsz + Z.max (riff_size - 12) 0).
    set (st0 := {| M.s_rpos := 20 + crsz; M.s_position := 20 + crsz; M.s_chunks := []; M.s_num_frames := 0;
                   M.s_loop_duration := 0; M.s_is_lossy := false |}).
    assert (Hmaxp : maxp <= maxp_bound) by (unfold maxp, maxp_bound; lia).
    assert (Hinv0 : inv maxp st0).
    { unfold inv, st0, maxp. cbn [M.s_rpos M.s_position M.s_num_frames M.s_chunks]. repeat split; try lia. constructor. }
    destruct (scan_safe d maxp Hb Hmaxp (S (length d)) st0 Hinv0) as [Hss Hsinv].
    { lia. }
    { unfold st0. cbn [M.s_rpos]. unfold len. lia. }
    destruct (M.scan (S (length d)) d maxp st0) as [st|e|pk|] eqn:Escan; try (destruct Hss); [| err_branch].
    rewrite bind_Ok. destruct (Hsinv st eq_refl) as (_ & Hpos & _ & Hmap).
    set (anim := negb (Z.land v0 2 =? 0)).
    destruct anim eqn:Eanim.
    + (* animation flag set *)
      destruct (M.contains_key M.KANIM (M.s_chunks st)) eqn:Canim; cbn [negb andb orb]; [| err_branch].
      destruct (M.contains_key M.KANMF (M.s_chunks st)) eqn:Canmf; cbn [negb andb orb]; [| err_branch].
      match goal with |- context [if ?c then Err EChunkMissing else _] => destruct c end; [err_branch|].
      destruct (contains_true_lookup _ _ Canmf) as ([rs re] & Hlk).
      destruct (map_ok_lookup _ _ _ _ Hmap Hlk) as [[Hrs8 Hrse] Hrebig]. cbn [fst snd] in *. unfold mid in Hrebig.
      pose proof (read_chunk_in_safe mid d (M.s_chunks st) M.KANIM 6 Hb Hmap) as Hrc.
      destruct (M.read_chunk_in d (M.s_chunks st) M.KANIM 6) as [[chunk|]|e|pk|] eqn:Erc; try (destruct Hrc);
        try err_branch.
      * (* the ANIM payload *)
        unfold M.read_exact at 1. cbn [Z.eqb].
        destruct (0 + 4 <=? M.len chunk); [| err_branch].
        rewrite bind_Ok. unfold M.read_u16_le, M.read_exact. cbn [Z.eqb].
        destruct (0 + 4 + 2 <=? M.len chunk); [| err_branch].
        rewrite !bind_Ok.
        match goal with |- context [if ?n =? 0 then Ok M.Forever else _] => destruct (n =? 0) end; rewrite bind_Ok;
          rewrite Hlk; cbn [of_option]; rewrite bind_Ok; cbn [fst]; rewrite sub_u64_ok by lia; rewrite !bind_Ok;
          rewrite add_u64_ok by (unfold M.u64_max; lia); rewrite bind_Ok;
          (destruct (first_frame_loop_safe d re Hb 2 (rs + 16) (rs + 16) (M.s_chunks st)) as [Hfs Hfm];
            [unfold big; lia | apply (map_ok_mono mid big); [unfold mid, big; lia | exact Hmap] |]);
          (destruct (M.first_frame_loop 2 d re (rs + 16) (rs + 16) (M.s_chunks st)) as [c2|e|pk|] eqn:Effl; try (destruct Hfs);
            [| err_branch]);
          rewrite bind_Ok; cbn [good]; (split; [reflexivity|]);
          unfold M.mk_decoder; cbn [M.d_chunks]; exact (Hfm c2 eq_refl).
      * destruct e; err_branch.
    + (* still image *)
      cbn [andb orb negb].
      match goal with |- context [if ?c then Err EChunkMissing else _] => destruct c end; [err_branch|].
      rewrite bind_Ok.
      destruct (M.lookup M.KANMF (M.s_chunks st)) as [[rs re]|] eqn:Hlk.
      * destruct (map_ok_lookup _ _ _ _ Hmap Hlk) as [[Hrs8 Hrse] Hrebig]. cbn [fst snd] in *. unfold mid in Hrebig.
        rewrite add_u64_ok by (unfold M.u64_max; lia). rewrite bind_Ok.
        destruct (first_frame_loop_safe d re Hb 2 (rs + 16) (rs + 16) (M.s_chunks st)) as [Hfs Hfm];
          [unfold big; lia | apply (map_ok_mono mid big); [unfold mid, big; lia | exact Hmap] |].
        destruct (M.first_frame_loop 2 d re (rs + 16) (rs + 16) (M.s_chunks st)) as [c2|e|pk|] eqn:Effl; try (destruct Hfs);
          [| err_branch].
        rewrite bind_Ok. cbn [good]. split; [reflexivity|].
        unfold M.mk_decoder. cbn [M.d_chunks]. exact (Hfm c2 eq_refl).
      * rewrite bind_Ok. cbn [good]. split; [reflexivity|].
        unfold M.mk_decoder. cbn [M.d_chunks]. apply (map_ok_mono mid big); [unfold mid, big; lia | exact Hmap].
Qed.

Lemma new_safe_ok d :
  all_bytes d = true -> len d <= 9223372036854775807 ->
  safe (M.new d) /\ forall dec, M.new d = Ok dec -> decoder_ok dec d.
Proof.
  intros Hb Hlen. pose proof (new_good d Hb Hlen) as H. destruct (M.new d); cbn [good safe] in *;
    (split; [try exact I; try exact H | intros dec E; try discriminate E]).
  apply Ok_inj in E. subst dec. exact H.
Qed.

(* ---------------------------------------------------------------------------------------------- *)
(* the theorems                                                                                     *)
(* ---------------------------------------------------------------------------------------------- *)
Theorem new_no_panic bytes :
  all_bytes bytes = true -> len bytes <= 9223372036854775807 ->
  (forall p, M.new bytes <> Panic p) /\ M.new bytes <> OutOfFuel.
Proof.
  intros Hb Hl. destruct (new_safe_ok bytes Hb Hl) as [Hs _].
  split; [intros p E | intros E]; rewrite E in Hs; exact Hs.
Qed.

Theorem accessors_no_panic bytes dec :
  all_bytes bytes = true -> len bytes <= 9223372036854775807 -> M.new bytes = Ok dec ->
  forall limit,
    safe (M.icc_profile (M.set_memory_limit dec limit)) /\ safe (M.exif_metadata (M.set_memory_limit dec limit))
    /\ safe (M.xmp_metadata (M.set_memory_limit dec limit))
    /\ safe (M.icc_profile dec) /\ safe (M.exif_metadata dec) /\ safe (M.xmp_metadata dec).
Proof.
  intros Hb Hl Hnew limit. destruct (new_safe_ok bytes Hb Hl) as [_ Hok]. destruct (Hok dec Hnew) as [Hd Hm].
  unfold M.icc_profile, M.exif_metadata, M.xmp_metadata, M.read_chunk, M.set_memory_limit. cbn [M.d_data M.d_chunks M.d_memory_limit].
  rewrite Hd. repeat split; apply (read_chunk_in_safe big); assumption.
Qed.
