(* C08, extended layouts (VP8X still image and animation), part 2: the rest of read_data after the chunk scan
   and the accessor theorem. *)
From Coq Require Import ZArith List Bool Lia.
From WebP Require Import Lib.Res Lib.ZBits Spec.Container Proofs.Container_bytes Proofs.Container_simple
  Proofs.Container_scan.
From WebP Require Model.Container.
Import ListNotations.
Open Scope Z_scope.

Ltac Zify.zify_post_hook ::= Z.div_mod_to_equations.

(* ---------------------------------------------------------------------------------------------- *)
(* unfolding equations                                                                              *)
(* ---------------------------------------------------------------------------------------------- *)
Definition wf_chunks (x : vp8x) (cs : list chunk) : bool :=
  if x_anim x
  then existsb is_anim cs && existsb is_anmf cs
       && negb (existsb is_vp8 cs) && negb (existsb is_vp8l cs) && negb (existsb is_alph cs)
  else (count is_vp8 cs + count is_vp8l cs =? 1) && negb (existsb is_anmf cs).

Lemma wf_extended_eq x cs :
  wf (Extended x cs)
  = (file_size (Extended x cs) <=? 4294967286)
    && (vp8x_ok x && forallb chunk_ok cs
        && Bool.eqb (x_icc x) (existsb is_iccp cs) && Bool.eqb (x_exif x) (existsb is_exif cs)
        && Bool.eqb (x_xmp x) (existsb is_xmp cs) && wf_chunks x cs).
Proof. reflexivity. Qed.

Lemma body_extended_eq x cs :
  body (Extended x cs) = ser_chunk cc_VP8X (vp8x_payload x) ++ concat (map chunk_bytes cs).
Proof. reflexivity. Qed.

(* ---------------------------------------------------------------------------------------------- *)
(* VP8X payload                                                                                     *)
(* ---------------------------------------------------------------------------------------------- *)
Lemma flag_bits r1 i l e xm a r2 :
  0 <= r1 <= 3 -> 0 <= r2 <= 1 ->
  let f := 64 * r1 + 32 * b2z i + 16 * b2z l + 8 * b2z e + 4 * b2z xm + 2 * b2z a + r2 in
  negb (Z.land f 32 =? 0) = i /\ negb (Z.land f 16 =? 0) = l /\ negb (Z.land f 8 =? 0) = e
  /\ negb (Z.land f 4 =? 0) = xm /\ negb (Z.land f 2 =? 0) = a /\ 0 <= f <= 255.
Proof.
  intros H1 H2.
  assert (C1 : r1 = 0 \/ r1 = 1 \/ r1 = 2 \/ r1 = 3) by lia.
  assert (C2 : r2 = 0 \/ r2 = 1) by lia.
  destruct C1 as [-> | [-> | [-> | ->]]], C2 as [-> | ->], i, l, e, xm, a; cbv; intuition discriminate.
Qed.

Definition info_of (x : vp8x) (bg : list Z) : M.extended_info :=
  {| M.e_alpha := x_alpha x; M.e_canvas_width := x_w1 x + 1; M.e_canvas_height := x_h1 x + 1;
     M.e_icc_profile := x_icc x; M.e_exif_metadata := x_exif x; M.e_xmp_metadata := x_xmp x;
     M.e_animation := x_anim x; M.e_background_color := bg |}.

Lemma read_extended_header_at d p x :
  at_pos d p (vp8x_payload x) -> vp8x_ok x = true ->
  M.read_extended_header d p = Ok (info_of x [0; 0; 0; 0], p + 10).
Proof.
  intros Hat Hok. unfold vp8x_ok in Hok. rewrite !andb_true_iff in Hok.
  destruct Hok as (((((H1 & H2) & H3) & Hw) & Hh) & Hmul).
  apply in_range_true in H1, H2, H3, Hw, Hh. apply Z.leb_le in Hmul.
  unfold vp8x_payload in Hat.
  pose proof (at_pos_app_l _ _ _ _ Hat) as Hf. apply at_pos_app_r in Hat. change (len [vp8x_flags x]) with 1 in Hat.
  pose proof (at_pos_app_l _ _ _ _ Hat) as Hr. apply at_pos_app_r in Hat. rewrite len_le24 in Hat.
  pose proof (at_pos_app_l _ _ _ _ Hat) as Hw1. apply at_pos_app_r in Hat. rewrite len_le24 in Hat.
  rewrite <- (app_nil_r (le24 (x_h1 x))) in Hat. apply at_pos_app_l in Hat.
  destruct (flag_bits (x_rsv1 x) (x_icc x) (x_alpha x) (x_exif x) (x_xmp x) (x_anim x) (x_rsv2 x) H1 H2)
    as (F1 & F2 & F3 & F4 & F5 & _).
  unfold M.read_extended_header.
  rewrite (read_u8_at d p _ Hf), bind_Ok.
  rewrite (read_3_bytes_at d (p + 1) _ Hr) by lia. rewrite bind_Ok.
  rewrite (read_3_bytes_at d (p + 1 + 3) _ Hw1) by lia. rewrite bind_Ok.
  rewrite add_u32_ok by (unfold M.u32_max; lia). rewrite bind_Ok.
  rewrite (read_3_bytes_at d (p + 1 + 3 + 3) _ Hat) by lia. rewrite bind_Ok.
  rewrite add_u32_ok by (unfold M.u32_max; lia). rewrite bind_Ok.
  unfold M.u32_max.
  destruct (4294967295 <? (x_w1 x + 1) * (x_h1 x + 1)) eqn:E; [apply Z.ltb_lt in E; lia|].
  unfold vp8x_flags in *. rewrite F1, F2, F3, F4, F5.
  replace (p + 1 + 3 + 3 + 3) with (p + 10) by lia. reflexivity.
Qed.

(* ---------------------------------------------------------------------------------------------- *)
(* find / existsb / count                                                                           *)
(* ---------------------------------------------------------------------------------------------- *)
Lemma find_ext' {A} (f g : A -> bool) l : (forall a, f a = g a) -> find f l = find g l.
Proof. intros H. induction l as [|a l IH]; cbn [find]; [reflexivity|]. rewrite H, IH. reflexivity. Qed.

Lemma existsb_find {A} (f : A -> bool) l : existsb f l = match find f l with Some _ => true | None => false end.
Proof. induction l as [|a l IH]; cbn [existsb find]; [reflexivity|]. destruct (f a); [reflexivity | exact IH]. Qed.

Lemma existsb_count f cs : existsb f cs = (0 <? count f cs).
Proof.
  unfold count. induction cs as [|c cs IH]; cbn [existsb filter]; [reflexivity|].
  destruct (f c); cbn [orb].
  - rewrite len_cons. pose proof (len_nonneg (filter f cs)). symmetry. apply Z.ltb_lt. lia.
  - exact IH.
Qed.

Lemma kp_iccp c : kind_pred M.KICCP c = is_iccp c. Proof. destruct c; reflexivity. Qed.
Lemma kp_exif c : kind_pred M.KEXIF c = is_exif c. Proof. destruct c; reflexivity. Qed.
Lemma kp_xmp c : kind_pred M.KXMP c = is_xmp c. Proof. destruct c; reflexivity. Qed.
Lemma kp_anim c : kind_pred M.KANIM c = is_anim c. Proof. destruct c; reflexivity. Qed.
Lemma kp_anmf c : kind_pred M.KANMF c = is_anmf c. Proof. destruct c; reflexivity. Qed.
Lemma kp_vp8 c : kind_pred M.KVP8 c = is_vp8 c. Proof. destruct c; reflexivity. Qed.
Lemma kp_vp8l c : kind_pred M.KVP8L c = is_vp8l c. Proof. destruct c; reflexivity. Qed.

(* the chunk map after the scan, queried for a kind the decoder knows *)
Lemma lookup_after_scan cs p st0 K :
  M.s_chunks st0 = [] -> M.lookup K (M.s_chunks (scan_spec p cs st0)) = first_range K p cs.
Proof. intros Hempty. rewrite scan_spec_lookup, Hempty. reflexivity. Qed.

Lemma contains_after_scan d cs p st0 K pred :
  M.s_chunks st0 = [] -> forallb chunk_ok cs = true -> at_pos d p (concat (map chunk_bytes cs)) ->
  (forall c, kind_pred K c = pred c) ->
  M.contains_key K (M.s_chunks (scan_spec p cs st0)) = existsb pred cs.
Proof.
  intros Hempty Hok Hat Hp. unfold M.contains_key. rewrite (lookup_after_scan _ _ _ _ Hempty).
  pose proof (first_range_find K cs p d Hok Hat) as H.
  rewrite existsb_find, <- (find_ext' _ _ cs Hp).
  destruct (first_range K p cs) as [[s e]|].
  - destruct H as (c & -> & _). reflexivity.
  - rewrite H. reflexivity.
Qed.

(* metadata getters *)
Lemma read_chunk_after_scan d cs p st0 chunks' K pred limit :
  M.s_chunks st0 = [] -> forallb chunk_ok cs = true -> at_pos d p (concat (map chunk_bytes cs)) ->
  M.lookup K chunks' = M.lookup K (M.s_chunks (scan_spec p cs st0)) -> (forall c, kind_pred K c = pred c) ->
  M.read_chunk_in d chunks' K limit = expect_meta (option_map chunk_payload (find pred cs)) limit.
Proof.
  intros Hempty Hok Hat Hl Hp. unfold M.read_chunk_in. rewrite Hl, (lookup_after_scan _ _ _ _ Hempty).
  pose proof (first_range_find K cs p d Hok Hat) as H. rewrite <- (find_ext' _ _ cs Hp).
  destruct (first_range K p cs) as [[s e]|].
  - destruct H as (c & -> & Hpay & -> & Hs). cbn [option_map expect_meta].
    pose proof (len_nonneg (chunk_payload c)).
    rewrite sub_u64_ok by lia. rewrite bind_Ok. replace (s + len (chunk_payload c) - s) with (len (chunk_payload c)) by lia.
    destruct (limit <? len (chunk_payload c)); [reflexivity|].
    rewrite (read_exact_at d s _ _ Hpay eq_refl). reflexivity.
  - rewrite H. reflexivity.
Qed.

(* ---------------------------------------------------------------------------------------------- *)
(* garbage-tolerant header read (second iteration of the first-frame loop)                          *)
(* ---------------------------------------------------------------------------------------------- *)
Lemma list8 (X : list Z) : 8 <= len X ->
  exists b0 b1 b2 b3 b4 b5 b6 b7 m, X = b0 :: b1 :: b2 :: b3 :: b4 :: b5 :: b6 :: b7 :: m.
Proof.
  intros H. unfold len in H.
  do 8 (destruct X as [|? X]; [cbn [length] in H; lia|]).
  repeat eexists.
Qed.

Lemma is_byte_true x : is_byte x = true -> 0 <= x <= 255.
Proof. unfold is_byte. rewrite andb_true_iff, !Z.leb_le. tauto. Qed.

Lemma read_chunk_header_8 d p b0 b1 b2 b3 b4 b5 b6 b7 m :
  at_pos d p (b0 :: b1 :: b2 :: b3 :: b4 :: b5 :: b6 :: b7 :: m) -> all_bytes d = true ->
  exists sz rsz, M.read_chunk_header d p = Ok ((M.from_fourcc [b0; b1; b2; b3], sz, rsz), p + 8)
                 /\ 0 <= sz <= 4294967295 /\ 0 <= rsz <= 4294967295.
Proof.
  intros Hat Hb.
  pose proof (all_bytes_at _ _ _ Hb Hat) as Hx. unfold all_bytes in Hx. cbn [forallb] in Hx.
  rewrite !andb_true_iff in Hx. destruct Hx as (_ & _ & _ & _ & B4 & B5 & B6 & B7 & _).
  apply is_byte_true in B4, B5, B6, B7.
  change (b0 :: b1 :: b2 :: b3 :: b4 :: b5 :: b6 :: b7 :: m) with ([b0; b1; b2; b3] ++ [b4; b5; b6; b7] ++ m) in Hat.
  pose proof (at_pos_app_l _ _ _ _ Hat) as H1. apply at_pos_app_r in Hat. change (len [b0; b1; b2; b3]) with 4 in Hat.
  apply at_pos_app_l in Hat.
  unfold M.read_chunk_header. rewrite (read_fourcc_at d p _ H1 eq_refl), bind_Ok.
  unfold M.read_u32_le. rewrite (read_exact_at d (p + 4) _ 4 Hat eq_refl), bind_Ok. cbn [M.nth_byte nth].
  rewrite bind_Ok. replace (p + 4 + 4) with (p + 8) by lia.
  set (sz := b4 + 256 * b5 + 65536 * b6 + 16777216 * b7).
  assert (Hl : 0 <= Z.land sz 1 <= 1).
  { change (Z.land sz 1) with (Z.land sz (Z.ones 1)). rewrite Z.land_ones by lia. change (2 ^ 1) with 2. lia. }
  eexists. eexists. split; [reflexivity|].
  unfold M.u32_max. subst sz. lia.
Qed.

Lemma from_fourcc_low h r : 0 <= h <= 63 -> M.from_fourcc (h :: r) = M.KUnknown (h :: r).
Proof.
  intros H. unfold M.from_fourcc. cbn [M.bytes_eqb].
  repeat match goal with |- context [h =? ?k] => let E := fresh in destruct (h =? k) eqn:E; [apply Z.eqb_eq in E; lia|] end.
  cbn [andb]. reflexivity.
Qed.

Lemma from_fourcc_157 a b c : M.from_fourcc [a; b; c; 157] = M.KUnknown [a; b; c; 157].
Proof.
  unfold M.from_fourcc. cbn [M.bytes_eqb Z.eqb Pos.eqb]. rewrite !andb_false_r. reflexivity.
Qed.

(* ---------------------------------------------------------------------------------------------- *)
(* registration of the first frame's sub-chunks                                                     *)
(* ---------------------------------------------------------------------------------------------- *)
Lemma kind_eqb_neq K k : K <> k -> M.kind_eqb K k = false.
Proof. intros H. destruct (M.kind_eqb K k) eqn:E; [apply kind_eqb_eq in E; contradiction | reflexivity]. Qed.

Lemma kind_eqb_unknown K u : M.is_unknown K = false -> M.kind_eqb K (M.KUnknown u) = false.
Proof. destruct K; cbn; intros H; try reflexivity; discriminate. Qed.

Lemma first_subchunk_known i :
  M.from_fourcc (fst (first_subchunk i)) = M.KVP8 \/ M.from_fourcc (fst (first_subchunk i)) = M.KALPH
  \/ M.from_fourcc (fst (first_subchunk i)) = M.KVP8L.
Proof. destruct i as [[a|] v | l]; cbn [first_subchunk fst]; auto. Qed.

(* the bytes that follow the first sub-chunk header never look like a FourCC the decoder knows *)
Lemma first_sub_garbage i Y b0 b1 b2 b3 m :
  image_ok i = true -> snd (first_subchunk i) ++ Y = b0 :: b1 :: b2 :: b3 :: m ->
  exists u, M.from_fourcc [b0; b1; b2; b3] = M.KUnknown u.
Proof.
  destruct i as [[a|] v | l]; cbn [image_ok first_subchunk snd]; intros Hok E.
  - rewrite andb_true_iff in Hok. destruct Hok as [Ha _]. unfold alph_ok in Ha. rewrite !andb_true_iff in Ha.
    destruct Ha as (((H1 & H2) & H3) & _). apply in_range_true in H1, H2, H3.
    pose proof (f_equal (@hd Z 0) E) as E0. change (16 * a_pre a + 4 * a_filter a + a_comp a = b0) in E0. subst b0.
    eexists. apply from_fourcc_low. lia.
  - pose proof (f_equal (fun l => nth 3 l 0) E) as E3. change (157 = b3) in E3. subst b3.
    eexists. apply from_fourcc_157.
  - pose proof (f_equal (@hd Z 0) E) as E0. change (47 = b0) in E0. subst b0.
    eexists. apply from_fourcc_low. lia.
Qed.

Lemma first_frame_loop_ok d s f chunks :
  at_pos d s (frame_payload f) -> frame_ok f = true -> all_bytes d = true -> len d <= 4294967294 ->
  exists chunks', M.first_frame_loop 2 d (s + len (frame_payload f)) (s + 16) (s + 16) chunks = Ok chunks'
    /\ forall K, M.is_unknown K = false -> K <> M.KVP8 -> K <> M.KVP8L -> K <> M.KALPH ->
                 M.lookup K chunks' = M.lookup K chunks.
Proof.
  intros Hat Hok Hbytes Hd.
  assert (Himg : image_ok (f_image f) = true).
  { unfold frame_ok in Hok. rewrite !andb_true_iff in Hok. tauto. }
  destruct (at_pos_bound _ _ _ Hat) as [Hs0 Hb].
  pose proof (len_frame_payload f) as Hlen.
  set (cc1 := fst (first_subchunk (f_image f))) in *. set (pl1 := snd (first_subchunk (f_image f))) in *.
  pose proof (len_nonneg pl1) as Hl1. pose proof (rounded_bounds _ Hl1) as Hrb.
  pose proof (len_nonneg (frame_tail f)) as Ht0.
  assert (Hcc1 : len cc1 = 4) by apply first_subchunk_cc_len.
  rewrite frame_payload_split in Hat. fold cc1 pl1 in Hat.
  apply at_pos_app_r in Hat. rewrite len_frame_head in Hat.
  apply at_pos_app_r in Hat. change (len (le24 (f_duration f) ++ [frame_flags f])) with 4 in Hat.
  replace (s + 12 + 4) with (s + 16) in Hat by lia.
  destruct (ser_chunk_header d (s + 16) cc1 pl1 _ Hat Hcc1) as (Hh & _ & _).
  (* everything after the first header *)
  assert (HX : at_pos d (s + 24) (pl1 ++ pad pl1 ++ frame_tail f)).
  { unfold ser_chunk in Hat.
    replace ((cc1 ++ le32 (len pl1) ++ pl1 ++ pad pl1) ++ frame_tail f)
      with ((cc1 ++ le32 (len pl1)) ++ pl1 ++ pad pl1 ++ frame_tail f) in Hat by (rewrite <- !app_assoc; reflexivity).
    apply at_pos_app_r in Hat. rewrite len_app, Hcc1, len_le32 in Hat. replace (s + 16 + (4 + 4)) with (s + 24) in Hat by lia.
    exact Hat. }
  set (k1 := M.from_fourcc cc1).
  assert (Hk1 : forall K, K <> M.KVP8 -> K <> M.KVP8L -> K <> M.KALPH -> M.kind_eqb K k1 = false).
  { intros K N1 N2 N3. apply kind_eqb_neq. destruct (first_subchunk_known (f_image f)) as [E | [E | E]];
      unfold k1, cc1; rewrite E; assumption. }
  cbn [M.first_frame_loop].
  rewrite (read_chunk_header_at d (s + 16) cc1 (len pl1) Hh Hcc1) by lia. fold k1.
  repeat (first [rewrite bind_Ok | rewrite add_u64_ok by (unfold M.u64_max; lia)]).
  destruct (s + len (frame_payload f) <? s + 16 + (8 + rounded (len pl1)) + 8) eqn:E1.
  - eexists. split; [reflexivity|].
    intros K Hu N1 N2 N3. rewrite lookup_or_insert, (Hk1 K N1 N2 N3). destruct (M.lookup K chunks); reflexivity.
  - apply Z.ltb_ge in E1.
    assert (H8 : 8 <= len (pl1 ++ pad pl1 ++ frame_tail f)).
    { rewrite !len_app, len_pad. unfold rounded in *. lia. }
    destruct (list8 _ H8) as (b0 & b1 & b2 & b3 & b4 & b5 & b6 & b7 & m & EX).
    rewrite EX in HX.
    destruct (read_chunk_header_8 d (s + 24) _ _ _ _ _ _ _ _ _ HX Hbytes) as (sz & rsz & Hrd & Hsz & Hrsz).
    replace (s + 16 + 8) with (s + 24) by lia. rewrite Hrd.
    repeat (first [rewrite bind_Ok | rewrite add_u64_ok by (unfold M.u64_max; lia)]).
    destruct (first_sub_garbage (f_image f) (pad pl1 ++ frame_tail f) b0 b1 b2 b3 _ Himg EX) as (u & Hu).
    rewrite Hu.
    eexists. split.
    + destruct (_ <? _); reflexivity.
    + intros K HuK N1 N2 N3. rewrite !lookup_or_insert, (Hk1 K N1 N2 N3), (kind_eqb_unknown K u HuK).
      destruct (M.lookup K chunks); reflexivity.
Qed.

(* ---------------------------------------------------------------------------------------------- *)
(* new on an extended file, phase 1: up to and including the chunk scan                             *)
(* ---------------------------------------------------------------------------------------------- *)
(* the text of Model.Container.new after the scan (VP8X branch), as a function of the scan result *)
Definition after_scan (d : list Z) (info : M.extended_info) (st : M.scan_state) : res M.decoder :=
  let width := M.e_canvas_width info in
  let height := M.e_canvas_height info in
  let chunks := M.s_chunks st in
  let is_lossy := M.s_is_lossy st || M.contains_key M.KVP8 chunks in
  if M.e_animation info && (negb (M.contains_key M.KANIM chunks) || negb (M.contains_key M.KANMF chunks))
     || M.e_icc_profile info && negb (M.contains_key M.KICCP chunks)
     || M.e_exif_metadata info && negb (M.contains_key M.KEXIF chunks)
     || M.e_xmp_metadata info && negb (M.contains_key M.KXMP chunks)
     || negb (M.e_animation info) && Bool.eqb (M.contains_key M.KVP8 chunks) (M.contains_key M.KVP8L chunks)
  then Err EChunkMissing else
  bind
    (if M.e_animation info then
       match M.read_chunk_in d chunks M.KANIM 6 with
       | Ok (Some chunk) =>
           bind (M.read_exact chunk 0 4) (fun '(bg, cp) =>
           bind (M.read_u16_le chunk cp) (fun '(n, _) =>
           bind (if n =? 0 then Ok M.Forever else (if n =? 0 then Panic PUnwrap else Ok (M.Times n))) (fun loop_count =>
           bind (of_option (M.lookup M.KANMF chunks) PUnwrap) (fun anmf =>
           bind (M.sub_u64 (fst anmf) 8) (fun nfs =>
           Ok ({| M.e_alpha := M.e_alpha info; M.e_canvas_width := M.e_canvas_width info;
                  M.e_canvas_height := M.e_canvas_height info; M.e_icc_profile := M.e_icc_profile info;
                  M.e_exif_metadata := M.e_exif_metadata info; M.e_xmp_metadata := M.e_xmp_metadata info;
                  M.e_animation := M.e_animation info; M.e_background_color := M.swap02 bg |}, loop_count, nfs))))))
       | Ok None => Err EChunkMissing
       | Err EMemoryLimitExceeded => Err EInvalidChunkSize
       | Err e => Err e
       | Panic pk => Panic pk
       | OutOfFuel => OutOfFuel
       end
     else Ok (info, M.Times 1, 0))
    (fun '(info, loop_count, next_frame_start) =>
     bind
       (match M.lookup M.KANMF chunks with
        | Some (rstart, rend) =>
            bind (M.add_u64 rstart 16) (fun position => M.first_frame_loop 2 d rend position position chunks)
        | None => Ok chunks
        end)
       (fun chunks =>
        Ok (M.mk_decoder d width height (M.ExtendedKind info) next_frame_start is_lossy (M.e_alpha info)
              (M.s_num_frames st) loop_count (M.s_loop_duration st) chunks))).

Definition st0 : M.scan_state :=
  {| M.s_rpos := 30; M.s_position := 30; M.s_chunks := []; M.s_num_frames := 0; M.s_loop_duration := 0;
     M.s_is_lossy := false |}.

Lemma all_bytes_vp8x x : vp8x_ok x = true -> all_bytes (vp8x_payload x) = true.
Proof.
  intros Hok. unfold vp8x_ok in Hok. rewrite !andb_true_iff in Hok.
  destruct Hok as (((((H1 & H2) & _) & _) & _) & _). apply in_range_true in H1, H2.
  destruct (flag_bits (x_rsv1 x) (x_icc x) (x_alpha x) (x_exif x) (x_xmp x) (x_anim x) (x_rsv2 x) H1 H2)
    as (_ & _ & _ & _ & _ & F).
  unfold vp8x_payload. rewrite !all_bytes_app, !all_bytes_le24. rewrite all_bytes_single by exact F. reflexivity.
Qed.

Lemma all_bytes_serialize_extended x cs :
  vp8x_ok x = true -> forallb chunk_ok cs = true -> all_bytes (serialize (Extended x cs)) = true.
Proof.
  intros Hx Hcs. unfold serialize. rewrite body_extended_eq. rewrite !all_bytes_app, all_bytes_le32.
  rewrite (all_bytes_ser_chunk cc_VP8X _ eq_refl (all_bytes_vp8x x Hx)).
  rewrite (all_bytes_concat chunk_bytes chunk_ok cs all_bytes_chunk Hcs). reflexivity.
Qed.

Lemma new_extended_prefix x cs :
  file_size (Extended x cs) <= 4294967286 -> vp8x_ok x = true -> forallb chunk_ok cs = true ->
  let d := serialize (Extended x cs) in
  M.new d = after_scan d (info_of x [0; 0; 0; 0]) (scan_spec 30 cs st0)
  /\ at_pos d 30 (concat (map chunk_bytes cs)) /\ len d <= 4294967294 /\ all_bytes d = true.
Proof.
  intros Hfs Hx Hcs. set (c := Extended x cs) in *.
  destruct (new_prefix c cc_VP8X (vp8x_payload x) (concat (map chunk_bytes cs)) Hfs (body_extended_eq x cs) eq_refl)
    as (R0 & R8 & R12 & Hpl & Hrest & Hlen & _).
  change (len (vp8x_payload x)) with 10 in *. change (rounded 10) with 10 in *. change (20 + 10) with 30 in *.
  change (M.from_fourcc cc_VP8X) with M.KVP8X in R12.
  intros d. fold d in R0, R8, R12, Hpl, Hrest, Hlen.
  pose proof (len_nonneg (concat (map chunk_bytes cs))) as Hl0.
  assert (Hfile : len d = file_size c + 8).
  { destruct (serialize_layout c) as (_ & _ & _ & H). fold d in H. unfold file_size. lia. }
  assert (Hd : len d <= 4294967294) by lia.
  assert (Hscan : M.scan (S (length d)) d (file_size c + 18) st0 = Ok (scan_spec 30 cs st0)).
  { apply scan_chunks; try assumption; try reflexivity; try lia.
    - pose proof (length_chunks_le cs Hcs) as Hle. unfold len in Hlen. lia.
    - cbn [st0 M.s_num_frames]. lia. }
  split; [| split; [exact Hrest | split; [exact Hd | apply all_bytes_serialize_extended; assumption]]].
  unfold M.new. rewrite R0, bind_Ok. cbn [M.kind_eqb negb]. rewrite R8, bind_Ok. cbn [M.kind_eqb negb].
  rewrite R12, bind_Ok. cbv zeta.
  rewrite (read_extended_header_at d 20 x Hpl Hx), bind_Ok.
  rewrite add_u64_ok by (unfold M.u64_max; lia). rewrite bind_Ok.
  rewrite Z.max_l by lia.
  rewrite add_u64_ok by (unfold M.u64_max; lia). rewrite bind_Ok.
  change (20 + 10) with 30. replace (30 + (file_size c - 12)) with (file_size c + 18) by lia.
  change {| M.s_rpos := 30; M.s_position := 30; M.s_chunks := []; M.s_num_frames := 0; M.s_loop_duration := 0;
            M.s_is_lossy := false |} with st0.
  rewrite Hscan, bind_Ok.
  reflexivity.
Qed.

(* ---------------------------------------------------------------------------------------------- *)
(* phase 2: after the scan                                                                          *)
(* ---------------------------------------------------------------------------------------------- *)
Lemma st0_empty : M.s_chunks st0 = [].
Proof. reflexivity. Qed.

Lemma first_range_some K pred cs p d :
  forallb chunk_ok cs = true -> at_pos d p (concat (map chunk_bytes cs)) -> (forall c, kind_pred K c = pred c) ->
  existsb pred cs = true ->
  exists s c, first_range K p cs = Some (s, s + len (chunk_payload c)) /\ find pred cs = Some c
              /\ at_pos d s (chunk_payload c) /\ 8 <= s /\ chunk_ok c = true /\ pred c = true.
Proof.
  intros Hok Hat Hp Hex. pose proof (first_range_find K cs p d Hok Hat) as H.
  rewrite existsb_find, <- (find_ext' _ _ cs Hp) in Hex. rewrite <- (find_ext' _ _ cs Hp).
  destruct (first_range K p cs) as [[s e]|].
  - destruct H as (c & Hf & Hpay & -> & Hs). exists s, c.
    destruct (find_some _ _ Hf) as [Hin Hpred]. rewrite Hp in Hpred.
    rewrite forallb_forall in Hok. auto 10.
  - rewrite H in Hex. discriminate.
Qed.

Lemma contains_false_lookup K m : M.contains_key K m = false -> M.lookup K m = None.
Proof. unfold M.contains_key. destruct (M.lookup K m); [discriminate | reflexivity]. Qed.

Lemma after_scan_still d x cs :
  x_anim x = false -> forallb chunk_ok cs = true -> at_pos d 30 (concat (map chunk_bytes cs)) ->
  x_icc x = existsb is_iccp cs -> x_exif x = existsb is_exif cs -> x_xmp x = existsb is_xmp cs ->
  (count is_vp8 cs + count is_vp8l cs =? 1) = true -> existsb is_anmf cs = false ->
  let ST := scan_spec 30 cs st0 in
  after_scan d (info_of x [0; 0; 0; 0]) ST
  = Ok (M.mk_decoder d (x_w1 x + 1) (x_h1 x + 1) (M.ExtendedKind (info_of x [0; 0; 0; 0])) 0
          (M.s_is_lossy ST || existsb is_vp8 cs) (x_alpha x) (M.s_num_frames ST) (M.Times 1)
          (M.s_loop_duration ST) (M.s_chunks ST)).
Proof.
  intros Ha Hcs Hat Hicc Hexif Hxmp Hcount Hanmf ST.
  pose proof (contains_after_scan d cs 30 st0 M.KICCP is_iccp st0_empty Hcs Hat kp_iccp) as C1.
  pose proof (contains_after_scan d cs 30 st0 M.KEXIF is_exif st0_empty Hcs Hat kp_exif) as C2.
  pose proof (contains_after_scan d cs 30 st0 M.KXMP is_xmp st0_empty Hcs Hat kp_xmp) as C3.
  pose proof (contains_after_scan d cs 30 st0 M.KANMF is_anmf st0_empty Hcs Hat kp_anmf) as C5.
  pose proof (contains_after_scan d cs 30 st0 M.KVP8 is_vp8 st0_empty Hcs Hat kp_vp8) as C6.
  pose proof (contains_after_scan d cs 30 st0 M.KVP8L is_vp8l st0_empty Hcs Hat kp_vp8l) as C7.
  fold ST in C1, C2, C3, C5, C6, C7.
  unfold after_scan. cbv zeta. cbn [info_of M.e_animation M.e_icc_profile M.e_exif_metadata M.e_xmp_metadata M.e_alpha M.e_canvas_width M.e_canvas_height].
  rewrite C1, C2, C3, C6, C7, Ha, <- Hicc, <- Hexif, <- Hxmp.
  rewrite (contains_false_lookup _ _ (eq_trans C5 Hanmf)).
  rewrite !andb_negb_r. cbn [andb orb negb].
  assert (Hx : Bool.eqb (existsb is_vp8 cs) (existsb is_vp8l cs) = false).
  { rewrite !existsb_count. apply Z.eqb_eq in Hcount. unfold count in *.
    pose proof (len_nonneg (filter is_vp8 cs)). pose proof (len_nonneg (filter is_vp8l cs)).
    destruct (0 <? len (filter is_vp8 cs)) eqn:E1, (0 <? len (filter is_vp8l cs)) eqn:E2; try reflexivity;
      try apply Z.ltb_lt in E1; try apply Z.ltb_lt in E2; try apply Z.ltb_ge in E1; try apply Z.ltb_ge in E2; lia. }
  rewrite Hx. rewrite !bind_Ok. reflexivity.
Qed.

Lemma expect_loops_eq n :
  (if n =? 0 then Ok M.Forever else (if n =? 0 then Panic PUnwrap else Ok (M.Times n))) = Ok (expect_loops n).
Proof. unfold expect_loops. destruct (n =? 0); reflexivity. Qed.

Lemma after_scan_anim d x cs :
  x_anim x = true -> forallb chunk_ok cs = true -> at_pos d 30 (concat (map chunk_bytes cs)) ->
  x_icc x = existsb is_iccp cs -> x_exif x = existsb is_exif cs -> x_xmp x = existsb is_xmp cs ->
  existsb is_anim cs = true -> existsb is_anmf cs = true -> existsb is_vp8 cs = false ->
  len d <= 4294967294 -> all_bytes d = true ->
  let ST := scan_spec 30 cs st0 in
  exists bg lp chunks' nfs,
    find is_anim cs = Some (CANIM bg lp)
    /\ after_scan d (info_of x [0; 0; 0; 0]) ST
       = Ok (M.mk_decoder d (x_w1 x + 1) (x_h1 x + 1) (M.ExtendedKind (info_of x (M.swap02 bg))) nfs
               (M.s_is_lossy ST || false) (x_alpha x) (M.s_num_frames ST) (expect_loops lp)
               (M.s_loop_duration ST) chunks')
    /\ forall K, M.is_unknown K = false -> K <> M.KVP8 -> K <> M.KVP8L -> K <> M.KALPH ->
                 M.lookup K chunks' = M.lookup K (M.s_chunks ST).
Proof.
  intros Ha Hcs Hat Hicc Hexif Hxmp Hanim Hanmf Hvp8 Hd Hbytes ST.
  pose proof (contains_after_scan d cs 30 st0 M.KICCP is_iccp st0_empty Hcs Hat kp_iccp) as C1.
  pose proof (contains_after_scan d cs 30 st0 M.KEXIF is_exif st0_empty Hcs Hat kp_exif) as C2.
  pose proof (contains_after_scan d cs 30 st0 M.KXMP is_xmp st0_empty Hcs Hat kp_xmp) as C3.
  pose proof (contains_after_scan d cs 30 st0 M.KANIM is_anim st0_empty Hcs Hat kp_anim) as C4.
  pose proof (contains_after_scan d cs 30 st0 M.KANMF is_anmf st0_empty Hcs Hat kp_anmf) as C5.
  pose proof (contains_after_scan d cs 30 st0 M.KVP8 is_vp8 st0_empty Hcs Hat kp_vp8) as C6.
  fold ST in C1, C2, C3, C4, C5, C6.
  (* the ANIM chunk *)
  destruct (first_range_some M.KANIM is_anim cs 30 d Hcs Hat kp_anim Hanim)
    as (sa & ca & _ & Hfa & _ & _ & Hoka & Hpa).
  destruct ca as [| | |bg lp| | | | |]; try discriminate Hpa.
  cbn [chunk_ok] in Hoka. rewrite !andb_true_iff in Hoka. destruct Hoka as ((Hbg4 & _) & Hlp).
  apply Nat.eqb_eq in Hbg4. apply in_range_true in Hlp.
  assert (Hlenbg : len bg = 4) by (unfold len; rewrite Hbg4; reflexivity).
  assert (Hrc : M.read_chunk_in d (M.s_chunks ST) M.KANIM 6 = Ok (Some (bg ++ le16 lp))).
  { unfold ST. rewrite (read_chunk_after_scan d cs 30 st0 _ M.KANIM is_anim 6 st0_empty Hcs Hat eq_refl kp_anim).
    rewrite Hfa. cbn [option_map chunk_payload expect_meta]. rewrite len_app, Hlenbg, len_le16. reflexivity. }
  (* the first ANMF chunk *)
  destruct (first_range_some M.KANMF is_anmf cs 30 d Hcs Hat kp_anmf Hanmf)
    as (sf & cf & Hrf & _ & Hpayf & Hsf8 & Hokf & Hpf).
  destruct cf as [| | | |f| | | |]; try discriminate Hpf.
  cbn [chunk_ok chunk_payload] in *.
  assert (Hlk : M.lookup M.KANMF (M.s_chunks ST) = Some (sf, sf + len (frame_payload f))).
  { unfold ST. rewrite (lookup_after_scan cs 30 st0 M.KANMF st0_empty). exact Hrf. }
  destruct (first_frame_loop_ok d sf f (M.s_chunks ST) Hpayf Hokf Hbytes Hd) as (chunks' & Hffl & Hkeep).
  destruct (at_pos_bound _ _ _ Hpayf) as [_ Hbf]. pose proof (len_nonneg (frame_payload f)) as Hfp0.
  exists bg, lp, chunks', (sf - 8). split; [exact Hfa|]. split; [|exact Hkeep].
  unfold after_scan. cbv zeta. cbn [info_of M.e_animation M.e_icc_profile M.e_exif_metadata M.e_xmp_metadata M.e_alpha M.e_canvas_width M.e_canvas_height].
  rewrite C1, C2, C3, C4, C5, C6, Ha, <- Hicc, <- Hexif, <- Hxmp, Hanim, Hanmf, Hvp8.
  rewrite !andb_negb_r. cbn [andb orb negb].
  rewrite Hrc.
  assert (Hbgat : at_pos (bg ++ le16 lp) 0 bg) by (exists [], (le16 lp); split; reflexivity).
  assert (Hlpat : at_pos (bg ++ le16 lp) (0 + 4) (le16 lp)).
  { exists bg, []. rewrite app_nil_r. split; [reflexivity | exact Hlenbg]. }
  rewrite (read_exact_at (bg ++ le16 lp) 0 bg 4 Hbgat Hlenbg).
  rewrite bind_Ok.
  rewrite (read_u16_at (bg ++ le16 lp) (0 + 4) lp Hlpat) by lia.
  rewrite bind_Ok, expect_loops_eq, bind_Ok, Hlk. cbn [of_option]. rewrite bind_Ok. cbn [fst].
  rewrite sub_u64_ok by lia. rewrite !bind_Ok.
  rewrite add_u64_ok by (unfold M.u64_max; lia). rewrite bind_Ok.
  rewrite Hffl, bind_Ok. unfold info_of. rewrite Ha. reflexivity.
Qed.

(* ---------------------------------------------------------------------------------------------- *)
(* the accessors of the resulting decoder                                                           *)
(* ---------------------------------------------------------------------------------------------- *)
Lemma payload_len_bound c cs : In c cs -> len (chunk_payload c) <= len (concat (map chunk_bytes cs)).
Proof.
  induction cs as [|c' cs IH]; intros Hin; [destruct Hin|].
  cbn [map concat]. rewrite len_app. pose proof (len_nonneg (concat (map chunk_bytes cs))).
  pose proof (len_nonneg (chunk_bytes c')).
  destruct Hin as [-> | Hin].
  - assert (E : len (chunk_bytes c) = len (chunk_cc c) + 4 + len (chunk_payload c) + len (chunk_payload c) mod 2) by apply len_ser_chunk.
    pose proof (len_nonneg (chunk_cc c)). pose proof (len_nonneg (chunk_payload c)). lia.
  - specialize (IH Hin). lia.
Qed.

Lemma expect_meta_unlimited (pred : chunk -> bool) cs limit :
  len (concat (map chunk_bytes cs)) <= limit ->
  expect_meta (option_map chunk_payload (find pred cs)) limit = Ok (option_map chunk_payload (find pred cs)).
Proof.
  intros H. destruct (find pred cs) as [c|] eqn:E; [|reflexivity]. cbn [option_map expect_meta].
  apply find_some in E. destruct E as [Hin _]. pose proof (payload_len_bound c cs Hin).
  destruct (limit <? len (chunk_payload c)) eqn:E; [apply Z.ltb_lt in E; lia | reflexivity].
Qed.

Lemma frames_durations cs :
  forallb chunk_ok cs = true ->
  Forall (fun f => 0 <= f_duration f) (frames_of cs)
  /\ 0 <= sum (map f_duration (frames_of cs)) <= 16777215 * len cs.
Proof.
  induction cs as [|c cs IH]; intros H.
  - split; [constructor | cbn; lia].
  - rewrite forallb_cons, andb_true_iff in H. destruct H as [Hc Hcs]. destruct (IH Hcs) as [IH1 IH2].
    rewrite frames_of_cons, len_cons. destruct c as [| | | |f| | | |]; cbn [chunk_frame]; try (split; [exact IH1 | lia]).
    cbn [chunk_ok] in Hc. unfold frame_ok in Hc. rewrite !andb_true_iff in Hc.
    destruct Hc as (((((((_ & _) & _) & _) & Hd) & _) & _) & _). apply in_range_true in Hd.
    split; [constructor; [lia | exact IH1]|]. cbn [map sum fold_right]. unfold sum in IH2. lia.
Qed.

Lemma length_chunks_len cs : forallb chunk_ok cs = true -> len cs <= len (concat (map chunk_bytes cs)).
Proof. intros H. pose proof (length_chunks_le cs H). unfold len. lia. Qed.

Lemma accessors_extended_ok x cs d info nfs chunks' lc lossy_val :
  vp8x_ok x = true -> forallb chunk_ok cs = true -> at_pos d 30 (concat (map chunk_bytes cs)) ->
  len d <= 4294967294 ->
  M.e_animation info = x_anim x ->
  (forall K, M.is_unknown K = false -> K <> M.KVP8 -> K <> M.KVP8L -> K <> M.KALPH ->
             M.lookup K chunks' = M.lookup K (M.s_chunks (scan_spec 30 cs st0))) ->
  lc = expect_loops (loops (Extended x cs)) ->
  lossy_val = lossy (Extended x cs) ->
  accessors_ok (Extended x cs)
    (M.mk_decoder d (x_w1 x + 1) (x_h1 x + 1) (M.ExtendedKind info) nfs lossy_val (x_alpha x)
       (M.s_num_frames (scan_spec 30 cs st0)) lc (M.s_loop_duration (scan_spec 30 cs st0)) chunks').
Proof.
  intros Hx Hcs Hat Hd Hanim Hkeep Hlc Hlossy.
  destruct (at_pos_bound _ _ _ Hat) as [_ Hb].
  destruct (frames_durations cs Hcs) as [Hdur0 Hdurb]. pose proof (length_chunks_len cs Hcs) as Hlen.
  assert (K1 : M.lookup M.KICCP chunks' = M.lookup M.KICCP (M.s_chunks (scan_spec 30 cs st0))) by (apply Hkeep; [reflexivity | discriminate ..]).
  assert (K2 : M.lookup M.KEXIF chunks' = M.lookup M.KEXIF (M.s_chunks (scan_spec 30 cs st0))) by (apply Hkeep; [reflexivity | discriminate ..]).
  assert (K3 : M.lookup M.KXMP chunks' = M.lookup M.KXMP (M.s_chunks (scan_spec 30 cs st0))) by (apply Hkeep; [reflexivity | discriminate ..]).
  pose proof (fun limit => read_chunk_after_scan d cs 30 st0 chunks' M.KICCP is_iccp limit st0_empty Hcs Hat K1 kp_iccp) as G1.
  pose proof (fun limit => read_chunk_after_scan d cs 30 st0 chunks' M.KEXIF is_exif limit st0_empty Hcs Hat K2 kp_exif) as G2.
  pose proof (fun limit => read_chunk_after_scan d cs 30 st0 chunks' M.KXMP is_xmp limit st0_empty Hcs Hat K3 kp_xmp) as G3.
  unfold vp8x_ok in Hx. rewrite !andb_true_iff in Hx. destruct Hx as (((((_ & _) & _) & Hw) & Hh) & _).
  apply in_range_true in Hw, Hh.
  unfold accessors_ok.
  split; [reflexivity|]. split; [reflexivity|].
  split; [unfold M.is_animated, M.mk_decoder; cbn [M.d_kind]; exact Hanim|].
  split; [unfold M.is_lossy, M.mk_decoder; cbn [M.d_is_lossy]; exact Hlossy|].
  split.
  { unfold M.num_frames, M.mk_decoder. cbn [M.d_num_frames]. rewrite scan_spec_num_frames. reflexivity. }
  split; [exact Hlc|].
  split.
  { unfold M.loop_duration, M.mk_decoder. cbn [M.d_loop_duration].
    rewrite scan_spec_duration; cbn [st0 M.s_loop_duration]; try lia; try exact Hdur0. reflexivity. }
  unfold M.icc_profile, M.exif_metadata, M.xmp_metadata, M.read_chunk, M.set_memory_limit, M.mk_decoder.
  cbn [M.d_data M.d_chunks M.d_memory_limit].
  split; [rewrite G1; apply expect_meta_unlimited; unfold M.usize_max, M.u64_max; lia|].
  split; [rewrite G2; apply expect_meta_unlimited; unfold M.usize_max, M.u64_max; lia|].
  split; [rewrite G3; apply expect_meta_unlimited; unfold M.usize_max, M.u64_max; lia|].
  split; [intros limit _; rewrite G1, G2, G3; repeat split|].
  rewrite output_buffer_size_ok by (cbn [M.d_width M.d_height]; lia). reflexivity.
Qed.

Lemma loops_extended_eq x cs :
  loops (Extended x cs) = if x_anim x then match find is_anim cs with Some (CANIM _ n) => n | _ => 1 end else 1.
Proof. reflexivity. Qed.
Lemma lossy_extended_eq x cs : lossy (Extended x cs) = existsb is_vp8 cs || existsb frame_lossy (frames_of cs).
Proof. reflexivity. Qed.

Theorem accessors_spec_extended x cs :
  wf (Extended x cs) = true ->
  exists d, M.new (serialize (Extended x cs)) = Ok d /\ accessors_ok (Extended x cs) d.
Proof.
  intros Hwf. rewrite wf_extended_eq in Hwf. rewrite !andb_true_iff in Hwf.
  destruct Hwf as (Hfs & (((((Hx & Hcs) & Hicc) & Hexif) & Hxmp) & Hwc)).
  apply Z.leb_le in Hfs. apply eqb_prop in Hicc, Hexif, Hxmp.
  destruct (new_extended_prefix x cs Hfs Hx Hcs) as (Hnew & Hat & Hd & Hbytes).
  set (d := serialize (Extended x cs)) in *. set (ST := scan_spec 30 cs st0).
  unfold wf_chunks in Hwc. destruct (x_anim x) eqn:Ha.
  - (* animation *)
    rewrite !andb_true_iff, !negb_true_iff in Hwc. destruct Hwc as ((((Hanim & Hanmf) & Hvp8) & _) & _).
    destruct (after_scan_anim d x cs Ha Hcs Hat Hicc Hexif Hxmp Hanim Hanmf Hvp8 Hd Hbytes)
      as (bg & lp & chunks' & nfs & Hfa & Has & Hkeep).
    eexists. split; [rewrite Hnew; exact Has|].
    apply accessors_extended_ok; try assumption.
    + cbn [info_of M.e_animation]. reflexivity.
    + rewrite loops_extended_eq, Ha, Hfa. reflexivity.
    + rewrite lossy_extended_eq, Hvp8, scan_spec_is_lossy. cbn [st0 M.s_is_lossy orb]. apply orb_false_r.
  - (* still image *)
    rewrite andb_true_iff, negb_true_iff in Hwc. destruct Hwc as [Hcount Hanmf].
    pose proof (after_scan_still d x cs Ha Hcs Hat Hicc Hexif Hxmp Hcount Hanmf) as Has. cbv zeta in Has.
    eexists. split; [rewrite Hnew; exact Has|].
    apply accessors_extended_ok; try assumption.
    + cbn [info_of M.e_animation]. reflexivity.
    + intros; reflexivity.
    + rewrite loops_extended_eq, Ha. reflexivity.
    + rewrite lossy_extended_eq, scan_spec_is_lossy. cbn [st0 M.s_is_lossy orb]. apply orb_comm.
Qed.

(* ---------------------------------------------------------------------------------------------- *)
(* all layouts                                                                                      *)
(* ---------------------------------------------------------------------------------------------- *)
Theorem accessors_spec c :
  wf c = true -> exists d, M.new (serialize c) = Ok d /\ accessors_ok c d.
Proof.
  destruct c as [v trail | l trail | x cs].
  - apply accessors_spec_simple_lossy.
  - apply accessors_spec_simple_lossless.
  - apply accessors_spec_extended.
Qed.

(* ---------------------------------------------------------------------------------------------- *)
(* memory limit                                                                                     *)
(* ---------------------------------------------------------------------------------------------- *)
(* model level: a registered chunk larger than the limit is refused by the size test alone -- the model performs
   no seek, allocation or read before it (read_chunk_in tests the size first) *)
Theorem memory_limit dec k s e limit :
  M.lookup k (M.d_chunks dec) = Some (s, e) -> s <= e -> limit < e - s ->
  M.read_chunk dec k limit = Err EMemoryLimitExceeded.
Proof.
  intros Hl Hse Hlim. unfold M.read_chunk, M.read_chunk_in. rewrite Hl, sub_u64_ok by lia. rewrite bind_Ok.
  destruct (limit <? e - s) eqn:E; [reflexivity | apply Z.ltb_ge in E; lia].
Qed.

(* file level: a metadata chunk of a well-formed file that is larger than the configured limit *)
Theorem memory_limit_spec c d limit p :
  wf c = true -> M.new (serialize c) = Ok d -> 0 <= limit -> limit < len p ->
  (icc c = Some p -> M.icc_profile (M.set_memory_limit d limit) = Err EMemoryLimitExceeded)
  /\ (exif c = Some p -> M.exif_metadata (M.set_memory_limit d limit) = Err EMemoryLimitExceeded)
  /\ (xmp c = Some p -> M.xmp_metadata (M.set_memory_limit d limit) = Err EMemoryLimitExceeded).
Proof.
  intros Hwf Hnew Hl0 Hlim. destruct (accessors_spec c Hwf) as (d' & Hnew' & Hacc).
  rewrite Hnew in Hnew'. injection Hnew' as <-.
  destruct Hacc as (_ & _ & _ & _ & _ & _ & _ & _ & _ & _ & Hmeta & _).
  destruct (Hmeta limit Hl0) as (H1 & H2 & H3).
  assert (E : forall o, o = Some p -> expect_meta o limit = Err EMemoryLimitExceeded).
  { intros o ->. cbn [expect_meta]. destruct (limit <? len p) eqn:E; [reflexivity | apply Z.ltb_ge in E; lia]. }
  repeat split; intros Hp; [rewrite H1 | rewrite H2 | rewrite H3]; apply E; exact Hp.
Qed.
