(* C07: for every sequence of read_frame / reset_animation / read_image calls on a valid animation, the model's trace
   is the trace of the cursor machine of Spec.Anim over what a fresh decoder shows.  Invariant: the decoder state is
   the state a fresh decoder has after `cursor` frames (Proofs.Anim_play.state_after). *)
From Coq Require Import ZArith NArith List Bool Lia.
From WebP Require Import Lib.Res Lib.Arr Model.AlphaBlend Model.Anim Spec.Anim
  Proofs.Anim_arr Proofs.Anim_composite Proofs.Anim_play.
Import ListNotations.
Open Scope Z_scope.

Definition op_of (o : mop) : op :=
  match o with MFrame => OpFrame | MReset => OpReset | MImage => OpImage | MFill v => OpFill v end.
Definition mres_of (e : event) : mres :=
  match e with
  | EvFrame d => RFrame (Ok d)
  | EvNoMoreFrames => RFrame (Err ENoMoreFrames)
  | EvImage => RImage (Ok tt)
  | EvReset => RReset
  | EvFill => RFill
  end.
Definition trace_of (t : list (event * list Z)) : list (mres * list Z) := map (fun eb => (mres_of (fst eb), snd eb)) t.

Definition kshown (f : mfile) : list (Z * list Z) := shown do_alpha_blending (anim_of f).

Lemma kshown_length f : length (kshown f) = length (m_frames f).
Proof. unfold kshown, shown, anim_of. cbn [an_frames]. rewrite map_length, seq_length, map_length. reflexivity. Qed.

Lemma kshown_nth f k : (k < length (m_frames f))%nat ->
  nth_error (kshown f) k = Some (duration (anim_of f) k, render (m_alpha f) (m_w f) (m_h f) (kernel_canvas f k)).
Proof.
  intros Hk. unfold kshown, shown.
  replace (length (an_frames (anim_of f))) with (length (m_frames f))
    by (unfold anim_of; cbn [an_frames]; rewrite map_length; reflexivity).
  rewrite (map_nth_error _ k (seq 0 (length (m_frames f))) (d := k)); [reflexivity|].
  rewrite nth_error_nth' with (d := O) by (rewrite seq_length; exact Hk). rewrite seq_nth by exact Hk. reflexivity.
Qed.

Lemma next_frame_after f k : valid_file f -> (k <= length (m_frames f))%nat -> next_frame (state_after f k) = Z.of_nat k.
Proof. intros Hv Hk. destruct (state_after_spec f Hv k Hk) as (H & _). exact H. Qed.

Lemma read_frame_exhausted f buf : valid_file f -> Z.of_nat (length buf) = output_buffer_size f ->
  read_frame f (state_after f (length (m_frames f))) buf =
  (Err ENoMoreFrames, state_after f (length (m_frames f)), buf).
Proof.
  intros Hv HL. unfold read_frame, read_frame_core. rewrite HL, Z.eqb_refl. cbn [negb].
  rewrite next_frame_after by (assumption || lia). unfold num_frames. rewrite Z.eqb_refl. reflexivity.
Qed.

Lemma run_ops_cursor f : valid_file f -> forall ops c buf, (c <= length (m_frames f))%nat ->
  Z.of_nat (length buf) = output_buffer_size f ->
  run_ops f ops (state_after f c) buf = trace_of (cursor_run (kshown f) (map op_of ops) c buf).
Proof.
  intros Hv. pose proof Hv as (_ & _ & _ & _ & Hne & _).
  assert (Hn : (0 < length (m_frames f))%nat) by (destruct (m_frames f); [contradiction|cbn; lia]).
  induction ops as [|o tl IH]; intros c buf Hc HL; [reflexivity|].
  destruct o; cbn [run_ops map op_of cursor_run].
  - (* read_frame *)
    destruct (Nat.eq_dec c (length (m_frames f))) as [->|Hlt].
    + rewrite read_frame_exhausted by assumption.
      replace (nth_error (kshown f) (length (m_frames f))) with (@None (Z * list Z))
        by (symmetry; apply nth_error_None; rewrite kshown_length; lia).
      unfold trace_of. cbn [map fst snd mres_of]. f_equal. apply IH; assumption.
    + rewrite read_frame_after by (assumption || lia). rewrite kshown_nth by lia.
      unfold trace_of. cbn [map fst snd mres_of]. f_equal.
      apply IH; [lia|apply delivered_length; exact Hv].
  - (* reset_animation *)
    unfold trace_of. cbn [map fst snd mres_of]. f_equal. unfold reset_animation.
    change fresh_state with (state_after f 0). apply IH; [lia|exact HL].
  - (* read_image *)
    unfold read_image. rewrite HL, Z.eqb_refl. cbn [negb].
    change fresh_state with (state_after f 0). rewrite read_frame_after by assumption.
    rewrite kshown_nth by exact Hn.
    unfold trace_of. cbn [map fst snd mres_of]. f_equal.
    apply IH; [exact Hc|apply delivered_length; exact Hv].
  - (* the caller fills its buffer *)
    unfold trace_of. cbn [map fst snd mres_of]. f_equal. apply IH; [exact Hc|rewrite map_length; exact HL].
Qed.

(* C07, main statement: the whole trace *)
Lemma history_independent_lemma : forall f ops buf, valid_file f -> Z.of_nat (length buf) = output_buffer_size f ->
  run_ops f ops fresh_state buf = trace_of (cursor_run (kshown f) (map op_of ops) 0 buf).
Proof. intros f ops buf Hv HL. change fresh_state with (state_after f 0). apply run_ops_cursor; [exact Hv|lia|exact HL]. Qed.

(* ------------------------------------------------------------------------------------------------ *)
(* the three clauses, read off the cursor machine                                                    *)
(* ------------------------------------------------------------------------------------------------ *)
(* the caller's buffer just before call number i *)
Definition buffer_before {E} (tr : list (E * list Z)) (i : nat) (buf0 : list Z) : list Z :=
  match i with
  | O => buf0
  | S j => match nth_error tr j with Some (_, b) => b | None => buf0 end
  end.

Lemma cursor_run_length sh : forall ops c buf, length (cursor_run sh ops c buf) = length ops.
Proof.
  induction ops as [|o tl IH]; intros c buf; [reflexivity|].
  destruct o; cbn [cursor_run].
  - destruct (nth_error sh c) as [[d b]|]; cbn [length]; rewrite IH; reflexivity.
  - cbn [length]. rewrite IH. reflexivity.
  - destruct (nth_error sh 0) as [[d b]|]; cbn [length]; rewrite IH; reflexivity.
  - cbn [length]. rewrite IH. reflexivity.
Qed.

Lemma cursor_run_nth sh : forall ops c buf i o, (c <= length sh)%nat -> nth_error ops i = Some o ->
  let c' := cursor_after (length sh) (firstn i ops) c in
  let b' := buffer_before (cursor_run sh ops c buf) i buf in
  nth_error (cursor_run sh ops c buf) i =
  Some (match o with
        | OpFrame => match nth_error sh c' with Some (d, b) => (EvFrame d, b) | None => (EvNoMoreFrames, b') end
        | OpReset => (EvReset, b')
        | OpImage => match nth_error sh 0 with Some (_, b) => (EvImage, b) | None => (EvNoMoreFrames, b') end
        | OpFill v => (EvFill, map (fun _ => v) b')
        end).
Proof.
  induction ops as [|o1 tl IH]; intros c buf i o Hc Hnth; [destruct i; discriminate|].
  destruct i as [|i].
  - cbn in Hnth. injection Hnth as ->. cbn [firstn cursor_after buffer_before].
    destruct o; cbn [cursor_run].
    + destruct (nth_error sh c) as [[d b]|]; reflexivity.
    + reflexivity.
    + destruct (nth_error sh 0) as [[d b]|]; reflexivity.
    + reflexivity.
  - cbn [nth_error] in Hnth. cbn zeta.
    (* one step of the machine, then the induction hypothesis on the tail *)
    assert (Hstep : exists c1 buf1 e1,
              cursor_run sh (o1 :: tl) c buf = (e1, buf1) :: cursor_run sh tl c1 buf1 /\
              cursor_after (length sh) (firstn (S i) (o1 :: tl)) c = cursor_after (length sh) (firstn i tl) c1 /\
              (c1 <= length sh)%nat).
    { destruct o1; cbn [cursor_run firstn cursor_after].
      - destruct (nth_error sh c) as [[d b]|] eqn:E.
        + assert (c < length sh)%nat by (apply nth_error_Some; rewrite E; discriminate).
          exists (S c), b, (EvFrame d). replace (c <? length sh)%nat with true by (symmetry; apply Nat.ltb_lt; lia).
          repeat split; lia.
        + apply nth_error_None in E.
          exists c, buf, EvNoMoreFrames. replace (c <? length sh)%nat with false by (symmetry; apply Nat.ltb_ge; lia).
          repeat split; lia.
      - exists O, buf, EvReset. repeat split; lia.
      - destruct (nth_error sh 0) as [[d b]|].
        + exists c, b, EvImage. repeat split; lia.
        + exists c, buf, EvNoMoreFrames. repeat split; lia.
      - exists c, (map (fun _ => v) buf), EvFill. repeat split; lia. }
    destruct Hstep as (c1 & buf1 & e1 & Hrun & Hcur & Hc1).
    rewrite Hrun, Hcur. cbn [nth_error].
    rewrite (IH c1 buf1 i o Hc1 Hnth). cbn zeta.
    replace (buffer_before ((e1, buf1) :: cursor_run sh tl c1 buf1) (S i) buf) with (buffer_before (cursor_run sh tl c1 buf1) i buf1);
      [reflexivity|].
    destruct i as [|i]; [reflexivity|]. cbn [buffer_before nth_error].
    destruct (nth_error (cursor_run sh tl c1 buf1) i) as [[e b]|] eqn:E; [reflexivity|].
    exfalso. apply nth_error_None in E. rewrite cursor_run_length in E.
    assert (S i < length tl)%nat by (apply nth_error_Some; rewrite Hnth; discriminate). lia.
Qed.

Lemma nth_error_trace_of t i e b : nth_error t i = Some (e, b) -> nth_error (trace_of t) i = Some (mres_of e, b).
Proof. intros H. unfold trace_of. rewrite (map_nth_error _ _ _ H). reflexivity. Qed.

Lemma buffer_before_trace_of t i buf : buffer_before (trace_of t) i buf = buffer_before t i buf.
Proof.
  destruct i as [|i]; [reflexivity|]. cbn [buffer_before]. unfold trace_of. rewrite nth_error_map.
  destruct (nth_error t i) as [[e b]|]; reflexivity.
Qed.

Definition position (f : mfile) (ops : list mop) : nat := cursor_after (length (m_frames f)) (map op_of ops) 0.

Lemma firstn_map_op i ops : firstn i (map op_of ops) = map op_of (firstn i ops).
Proof. apply firstn_map. Qed.

(* clause 1: the read_frame issued when j frames have been consumed since the last reset delivers frame j of a fresh decoder *)
Lemma frames_after_reset_lemma : forall f ops buf i j, valid_file f -> Z.of_nat (length buf) = output_buffer_size f ->
  nth_error ops i = Some MFrame -> position f (firstn i ops) = j -> (j < length (m_frames f))%nat ->
  nth_error (run_ops f ops fresh_state buf) i = nth_error (map (fun rb => (RFrame (fst rb), snd rb)) (play f buf)) j.
Proof.
  intros f ops buf i j Hv HL Hop Hpos Hj.
  rewrite history_independent_lemma by assumption.
  pose proof (cursor_run_nth (kshown f) (map op_of ops) 0 buf i OpFrame ltac:(lia)
                ltac:(rewrite (map_nth_error _ _ _ Hop); reflexivity)) as H.
  cbv beta iota zeta in H. rewrite kshown_length, firstn_map_op in H. unfold position in Hpos. rewrite Hpos in H.
  rewrite kshown_nth in H by exact Hj.
  rewrite (nth_error_trace_of _ _ _ _ H). cbn [mres_of].
  rewrite (map_nth_error _ _ _ (read_frame_spec_lemma f buf j Hv HL Hj)). reflexivity.
Qed.

(* clause 2: read_image always returns the first frame, and the playback position is the same before and after *)
Lemma read_image_first_frame_lemma : forall f ops buf i, valid_file f -> Z.of_nat (length buf) = output_buffer_size f ->
  nth_error ops i = Some MImage ->
  nth_error (run_ops f ops fresh_state buf) i =
    Some (RImage (Ok tt), render (m_alpha f) (m_w f) (m_h f) (frames_upto do_alpha_blending (anim_of f) 0))
  /\ position f (firstn (S i) ops) = position f (firstn i ops).
Proof.
  intros f ops buf i Hv HL Hop. split.
  - rewrite history_independent_lemma by assumption.
    pose proof (cursor_run_nth (kshown f) (map op_of ops) 0 buf i OpImage ltac:(lia)
                  ltac:(rewrite (map_nth_error _ _ _ Hop); reflexivity)) as H.
    cbv beta iota zeta in H.
    assert (Hn : (0 < length (m_frames f))%nat).
    { destruct Hv as (_ & _ & _ & _ & Hne & _). destruct (m_frames f); [contradiction|cbn; lia]. }
    rewrite kshown_nth in H by exact Hn.
    rewrite (nth_error_trace_of _ _ _ _ H). reflexivity.
  - unfold position. rewrite (firstn_S_nth _ _ _ Hop), map_app.
    generalize (map op_of (firstn i ops)). generalize O.
    intros c l. revert c. induction l as [|o l IHl]; intros c; [reflexivity|].
    destruct o; cbn [app cursor_after]; apply IHl.
Qed.

(* read_image calls can be deleted from a call sequence without changing the playback position *)
Lemma position_ignores_read_image_lemma : forall f ops,
  position f (filter (fun o => match o with MImage | MFill _ => false | _ => true end) ops) = position f ops.
Proof.
  intros f ops. unfold position. generalize O. induction ops as [|o tl IH]; intros c; [reflexivity|].
  destruct o; cbn [filter map op_of cursor_after]; apply IH.
Qed.

(* clause 3: once all frames are consumed, read_frame returns NoMoreFrames and leaves the buffer as it was *)
Lemma exhausted_lemma : forall f ops buf i, valid_file f -> Z.of_nat (length buf) = output_buffer_size f ->
  nth_error ops i = Some MFrame -> position f (firstn i ops) = length (m_frames f) ->
  nth_error (run_ops f ops fresh_state buf) i =
    Some (RFrame (Err ENoMoreFrames), buffer_before (run_ops f ops fresh_state buf) i buf).
Proof.
  intros f ops buf i Hv HL Hop Hpos.
  rewrite history_independent_lemma by assumption.
  pose proof (cursor_run_nth (kshown f) (map op_of ops) 0 buf i OpFrame ltac:(lia)
                ltac:(rewrite (map_nth_error _ _ _ Hop); reflexivity)) as H.
  cbv beta iota zeta in H. rewrite kshown_length, firstn_map_op in H. unfold position in Hpos. rewrite Hpos in H.
  replace (nth_error (kshown f) (length (m_frames f))) with (@None (Z * list Z)) in H
    by (symmetry; apply nth_error_None; rewrite kshown_length; lia).
  rewrite (nth_error_trace_of _ _ _ _ H). rewrite buffer_before_trace_of. reflexivity.
Qed.

(* the position never exceeds the number of frames, and a reset brings it back to 0 *)
Lemma position_reset_lemma : forall f ops, position f (ops ++ [MReset]) = O.
Proof.
  intros f ops. unfold position. rewrite map_app.
  assert (G : forall l c, cursor_after (length (m_frames f)) (l ++ map op_of [MReset]) c = O).
  { induction l as [|o l IH]; intros c; [reflexivity|]. destruct o; cbn [app cursor_after]; apply IH. }
  apply G.
Qed.
