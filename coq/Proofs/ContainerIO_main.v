(* C10 for the container layer, final statements (see Model/ContainerIO.v for the reader model).
     io_refines_pure*        with no fault armed, for every schedule, the I/O-level functions return what the pure
                             cursor model (Model.Container, the model of properties C03 / C08) returns;
     schedule_independent*   results do not depend on the schedule;
     fault_surfaces*         one injected fault at call k: if the function makes call k it returns IErr XFault after
                             exactly k + 1 calls (not Ok, not a panic), otherwise it behaves as without the fault;
     *_state_independent     getters and read_frame's header start with an absolute seek: their result does not
                             depend on where (or after how many calls, or under which schedule) the reader was left,
                             in particular not on an earlier transient fault. *)
From Coq Require Import ZArith List Bool Lia.
From WebP Require Import Lib.Res Spec.Container Proofs.Container_bytes Proofs.Container_safety.
From WebP Require Import Model.Container Model.ContainerIO Proofs.ContainerIO_prims Proofs.ContainerIO_laws
  Proofs.ContainerIO_refine Proofs.ContainerIO_new.
From WebP Require Lib.IO.
Import ListNotations.
Open Scope Z_scope.

Definition isize_max : Z := 9223372036854775807.

Lemma okstate_init sched f d : quiet_at f 0 -> okstate d (init sched f d).
Proof. intros H. unfold okstate, quiet, init, init_kind. cbn [r_data r_fail_at r_calls r_pos]. repeat split; (assumption || lia). Qed.

(* ---------------------------------------------------------------------------------------------- *)
(* (a) refinement of the pure model, schedule independence                                          *)
(* ---------------------------------------------------------------------------------------------- *)
Theorem io_refines_pure : forall (sched : Z -> Z) (d : list Z),
  all_bytes d = true -> MC.len d <= isize_max ->
  erase (fst (IO.new (init sched None d))) = MC.new d.
Proof.
  intros sched d Hb Hl.
  apply (Sim_erase d (Rnew d)); [intros a s' b H; apply H | | apply okstate_init; exact I].
  apply sim_new; [exact Hb | exact Hl | reflexivity].
Qed.

(* what `new` returns is the pure decoder record, and its chunk table only holds seekable offsets *)
Lemma new_decoder_ok sched d dec : all_bytes d = true -> MC.len d <= isize_max ->
  MC.new d = Ok dec -> fst (IO.new (init sched None d)) = IOk dec /\ starts_ok (d_chunks dec) /\ d_data dec = d.
Proof.
  intros Hb Hl E.
  destruct (sim_new d (init sched None d) Hb Hl eq_refl (okstate_init sched None d I)) as [_ Hrel].
  rewrite E in Hrel. unfold rel in Hrel. destruct (fst (IO.new (init sched None d))) as [a| | |]; try contradiction.
  destruct Hrel as (-> & H1 & H2). auto.
Qed.

Theorem schedule_independent : forall (s1 s2 : Z -> Z) (d : list Z),
  fst (IO.new (init s1 None d)) = fst (IO.new (init s2 None d)).
Proof.
  intros s1 s2 d. apply SchedLaw_new. unfold sched_eq, data_eq, quiet, init, init_kind. cbn [r_data r_pos r_fail_at r_calls quiet_at]. auto.
Qed.

(* the getters: from any state in which no fault can fire any more *)
Theorem io_refines_pure_read_chunk : forall (d : list Z) (dec : decoder) (s : rstate) (chunk : chunk_kind) (max_size : Z),
  all_bytes d = true -> MC.len d <= isize_max -> MC.new d = Ok dec ->
  r_data s = d -> quiet s -> 0 <= r_pos s ->
  erase (fst (IO.read_chunk dec chunk max_size s)) = MC.read_chunk dec chunk max_size.
Proof.
  intros d dec s chunk mx Hb Hl E Hd Hq Hp.
  destruct (new_decoder_ok sched_whole d dec Hb Hl E) as (_ & Hst & Hdd).
  unfold IO.read_chunk, MC.read_chunk. rewrite Hdd.
  apply (Sim_erase d Rval); [intros a s' b H; exact H | apply sim_read_chunk_in; exact Hst | repeat split; assumption].
Qed.

Theorem io_refines_pure_accessors : forall (d : list Z) (dec : decoder) (s : rstate) (limit : Z),
  all_bytes d = true -> MC.len d <= isize_max -> MC.new d = Ok dec ->
  r_data s = d -> quiet s -> 0 <= r_pos s ->
  let dec' := set_memory_limit dec limit in
  erase (fst (IO.icc_profile dec' s)) = MC.icc_profile dec'
  /\ erase (fst (IO.exif_metadata dec' s)) = MC.exif_metadata dec'
  /\ erase (fst (IO.xmp_metadata dec' s)) = MC.xmp_metadata dec'
  /\ erase (fst (IO.icc_profile dec s)) = MC.icc_profile dec
  /\ erase (fst (IO.exif_metadata dec s)) = MC.exif_metadata dec
  /\ erase (fst (IO.xmp_metadata dec s)) = MC.xmp_metadata dec.
Proof.
  intros d dec s limit Hb Hl E Hd Hq Hp dec'.
  assert (H : forall k mx, erase (fst (IO.read_chunk dec' k mx s)) = MC.read_chunk dec' k mx).
  { intros k mx. pose proof (io_refines_pure_read_chunk d dec s k mx Hb Hl E Hd Hq Hp) as H.
    unfold IO.read_chunk, MC.read_chunk, dec', set_memory_limit in *. cbn [d_chunks d_data]. exact H. }
  unfold IO.icc_profile, IO.exif_metadata, IO.xmp_metadata, MC.icc_profile, MC.exif_metadata, MC.xmp_metadata.
  repeat split; first [apply H | apply (io_refines_pure_read_chunk d); assumption].
Qed.

Theorem accessors_schedule_independent : forall (dec : decoder) (chunk : chunk_kind) (max_size : Z) (s1 s2 : rstate),
  r_data s1 = r_data s2 -> quiet s1 -> quiet s2 ->
  fst (IO.read_chunk dec chunk max_size s1) = fst (IO.read_chunk dec chunk max_size s2).
Proof.
  intros dec chunk mx s1 s2 Hd H1 H2. unfold IO.read_chunk. apply StateFree_read_chunk_in. repeat split; assumption.
Qed.

Theorem read_frame_header_state_independent : forall (w h nfs : Z) (s1 s2 : rstate),
  r_data s1 = r_data s2 -> quiet s1 -> quiet s2 ->
  fst (IO.read_frame_header w h nfs s1) = fst (IO.read_frame_header w h nfs s2).
Proof. intros w h nfs s1 s2 Hd H1 H2. apply StateFree_read_frame_header. repeat split; assumption. Qed.

(* ---------------------------------------------------------------------------------------------- *)
(* (b) an injected fault surfaces as an error                                                       *)
(* ---------------------------------------------------------------------------------------------- *)
Theorem fault_surfaces : forall (sched : Z -> Z) (d : list Z) (k : Z),
  let free := IO.new (init sched None d) in
  let faulty := IO.new (init sched (Some k) d) in
  (0 <= k < r_calls (snd free) -> fst faulty = IErr XFault /\ r_calls (snd faulty) = k + 1)
  /\ (k < 0 \/ r_calls (snd free) <= k -> fst faulty = fst free /\ r_calls (snd faulty) = r_calls (snd free)).
Proof.
  intros sched d k free faulty.
  destruct (FaultLaw_new (init sched None d) k eq_refl eq_refl) as (_ & _ & _ & Hsame & Hf).
  change (set_fail (init sched None d) (Some k)) with (init sched (Some k) d) in *.
  fold free in Hsame, Hf. fold faulty in Hsame, Hf. change (r_calls (init sched None d)) with 0 in Hsame, Hf. split.
  - intros H. destruct (Hf H) as (F1 & F2 & _). auto.
  - intros H. rewrite (Hsame H). cbn [fst snd set_fail r_calls]. auto.
Qed.

(* the same for every later call on the reader: stated for an arbitrary fault-free state [s] (for instance the
   one `new` left), for read_chunk (icc_profile / exif_metadata / xmp_metadata are instances) and read_frame's header *)
Theorem fault_surfaces_read_chunk : forall (dec : decoder) (chunk : chunk_kind) (max_size : Z) (s : rstate) (k : Z),
  r_fail_at s = None -> r_fail_eof s = false ->
  let free := IO.read_chunk dec chunk max_size s in
  let faulty := IO.read_chunk dec chunk max_size (set_fail s (Some k)) in
  (r_calls s <= k < r_calls (snd free) -> fst faulty = IErr XFault /\ r_calls (snd faulty) = k + 1)
  /\ (k < r_calls s \/ r_calls (snd free) <= k -> fst faulty = fst free /\ r_calls (snd faulty) = r_calls (snd free)).
Proof.
  intros dec chunk mx s k Hs Hk free faulty.
  destruct (FaultLaw_read_chunk dec chunk mx s k Hs Hk) as (_ & _ & _ & Hsame & Hf).
  fold free in Hsame, Hf. fold faulty in Hsame, Hf. split.
  - intros H. destruct (Hf H) as (F1 & F2 & _). auto.
  - intros H. rewrite (Hsame H). cbn [fst snd set_fail r_calls]. auto.
Qed.

Theorem fault_surfaces_read_frame_header : forall (w h nfs : Z) (s : rstate) (k : Z),
  r_fail_at s = None -> r_fail_eof s = false ->
  let free := IO.read_frame_header w h nfs s in
  let faulty := IO.read_frame_header w h nfs (set_fail s (Some k)) in
  (r_calls s <= k < r_calls (snd free) -> fst faulty = IErr XFault /\ r_calls (snd faulty) = k + 1)
  /\ (k < r_calls s \/ r_calls (snd free) <= k -> fst faulty = fst free /\ r_calls (snd faulty) = r_calls (snd free)).
Proof.
  intros w h nfs s k Hs Hk free faulty.
  destruct (FaultLaw_read_frame_header w h nfs s k Hs Hk) as (_ & _ & _ & Hsame & Hf).
  fold free in Hsame, Hf. fold faulty in Hsame, Hf. split.
  - intros H. destruct (Hf H) as (F1 & F2 & _). auto.
  - intros H. rewrite (Hsame H). cbn [fst snd set_fail r_calls]. auto.
Qed.

(* no I/O-level function turns a fault into a panic or a success: a corollary in the contrapositive form *)
Corollary fault_never_ok_nor_panic : forall (sched : Z -> Z) (d : list Z) (k : Z),
  0 <= k < r_calls (snd (IO.new (init sched None d))) ->
  forall dec p, fst (IO.new (init sched (Some k) d)) <> IOk dec /\ fst (IO.new (init sched (Some k) d)) <> IPanic p.
Proof.
  intros sched d k H dec p. destruct (fault_surfaces sched d k) as [Hf _]. destruct (Hf H) as [E _].
  rewrite E. split; discriminate.
Qed.

(* a transient fault in one call does not influence a later getter: whatever computation [m] (an earlier getter, say)
   was hit by the fault, a getter run on the reader it left returns what it returns after the fault-free [m] *)
Theorem getter_after_transient_fault : forall {A} (m : M A) (dec : decoder) (chunk : chunk_kind) (max_size : Z) (s : rstate) (k : Z),
  FaultLaw m -> Preserves m -> r_fail_at s = None -> r_fail_eof s = false ->
  r_calls s <= k < r_calls (snd (m s)) ->
  fst (IO.read_chunk dec chunk max_size (snd (m (set_fail s (Some k)))))
  = fst (IO.read_chunk dec chunk max_size (snd (m s))).
Proof.
  intros A m dec chunk mx s k HF HP Hs Hk Hr.
  destruct (HF s k Hs Hk) as (_ & Hn & _ & _ & Hf). destruct (Hf Hr) as (_ & Hc & Hfa).
  destruct (HP s) as (D0 & _). destruct (HP (set_fail s (Some k))) as (D1 & _).
  apply accessors_schedule_independent.
  - rewrite D0, D1. reflexivity.
  - unfold quiet. rewrite Hfa. cbn [quiet_at]. lia.
  - unfold quiet. rewrite Hn. exact I.
Qed.

Corollary getter_after_failed_getter : forall (dec : decoder) (c1 c2 : chunk_kind) (m1 m2 : Z) (s : rstate) (k : Z),
  r_fail_at s = None -> r_fail_eof s = false ->
  r_calls s <= k < r_calls (snd (IO.read_chunk dec c1 m1 s)) ->
  fst (IO.read_chunk dec c1 m1 (set_fail s (Some k))) = IErr XFault
  /\ fst (IO.read_chunk dec c2 m2 (snd (IO.read_chunk dec c1 m1 (set_fail s (Some k)))))
     = fst (IO.read_chunk dec c2 m2 (snd (IO.read_chunk dec c1 m1 s))).
Proof.
  intros dec c1 c2 m1 m2 s k Hs Hk Hr. split.
  - destruct (fault_surfaces_read_chunk dec c1 m1 s k Hs Hk) as [H _]. apply H. exact Hr.
  - apply (getter_after_transient_fault (IO.read_chunk dec c1 m1)); try assumption.
    + apply FaultLaw_read_chunk.
    + unfold IO.read_chunk. apply Preserves_read_chunk_in.
Qed.

(* ---------------------------------------------------------------------------------------------- *)
(* link with Lib/IO.v (the std::io contract model behind the first C10 theorems)                    *)
(* ---------------------------------------------------------------------------------------------- *)
(* On the same data and position, for ANY two schedules (a nat schedule for Lib.IO's reader, a Z schedule here), once
   no fault can fire this file's read_exact and Lib.IO.read_exact deliver the same bytes / both report UnexpectedEof. *)
Theorem read_exact_agrees_with_Lib_IO : forall (s : rstate) (n : nat) (nsched : nat -> nat) (ncalls : nat),
  quiet s -> 0 <= r_pos s ->
  let r := {| Lib.IO.rdata := r_data s; Lib.IO.rpos := Z.to_nat (r_pos s); Lib.IO.rcalls := ncalls |} in
  match fst (Lib.IO.read_exact n nsched r n []) with
  | Some l => n <> O -> fst (ContainerIO.read_exact (Z.of_nat n) s) = IOk l
  | None => fst (ContainerIO.read_exact (Z.of_nat n) s) = IErr XEof
  end.
Proof.
  intros s n nsched ncalls Hq Hp r.
  assert (Hrem : Lib.IO.remaining r = remaining s).
  { unfold Lib.IO.remaining, remaining, r. cbn [Lib.IO.rdata Lib.IO.rpos]. rewrite dropz_skipn. reflexivity. }
  destruct (read_exact_nofault (Z.of_nat n) s Hq) as (c' & _ & _ & E). rewrite E. clear E.
  destruct (le_lt_dec n (length (Lib.IO.remaining r))) as [Hle|Hlt].
  - pose proof (Lib.IO.read_exact_spec nsched n r n [] (le_n _) Hle) as H.
    destruct (Lib.IO.read_exact n nsched r n []) as [res r']. destruct H as (-> & _ & _). cbn [fst app].
    intros Hn. replace (Z.of_nat n <=? 0) with false by (symmetry; apply Z.leb_gt; lia).
    rewrite Hrem in Hle. replace (Z.of_nat n <=? len (remaining s)) with true
      by (symmetry; apply Z.leb_le; unfold len; lia).
    cbn [fst]. rewrite takez_firstn, Nat2Z.id, Hrem. reflexivity.
  - pose proof (Lib.IO.read_exact_eof nsched n r n [] (le_n _) Hlt) as H. rewrite H.
    rewrite Hrem in Hlt. replace (Z.of_nat n <=? 0) with false by (symmetry; apply Z.leb_gt; lia).
    replace (Z.of_nat n <=? len (remaining s)) with false by (symmetry; apply Z.leb_gt; unfold len; lia).
    reflexivity.
Qed.
