(* C01 / C03, inverse transforms, (c) part 3: the predictor transform.
   Model.LosslessTransform.apply_predictor_transform (lossless_transform.rs: alpha of the first pixel += 255, first row by
   predictor 1 (L), first column of every row by T, then for every row the blocks left to right with the row function of
   the block's mode on the pixels max(block start, 1) .. min(block end, width)):
     - `predictor_transform_model`: for EVERY mode image it computes the specification's scan (section 4.1, scan-line order,
       TR of the rightmost pixel = leftmost pixel of the current row) at the instance `pmodel` (C01T_pred_spec): the 14 modes
       of the format, and a block whose green byte is 14..255 keeps its residuals; so it never panics (C03);
     - `predictor_transform_refines`: when every block uses one of the modes 0..13 this is Spec.VP8L.inverse_predictor (C01).
   Modes 14 and 15 (outside the format text; libwebp and Spec.VP8L: mode = green & 15, 14/15 predict 0xff000000) are where
   the Rust code deviates: `predictor_mode14_differs`. *)
From Coq Require Import ZArith NArith List Bool Lia.
From WebP Require Import Lib.Res Lib.Arr Lib.ZBits Gen.Kernels Model.LosslessLib Model.LosslessTransform
  Proofs.Lossless_HuffmanSafe Proofs.Lossless_CopyWithin Proofs.Lossless_Kernels
  Proofs.C01T_repr Proofs.C01T_color Proofs.C01T_pred_spec Proofs.C01T_pred_rows.
From WebP Require Spec.VP8L.
Import ListNotations.
Open Scope Z_scope.

Ltac Zify.zify_post_hook ::= Z.div_mod_to_equations.

Lemma cell_to_chan cur j p c : cell cur j = q4 p -> 0 <= c < 4 -> az cur (4 * j + c) = chan c p.
Proof.
  intros H Hc. apply pair4_inj in H. destruct H as (H0 & H1 & H2 & H3).
  assert (C : c = 0 \/ c = 1 \/ c = 2 \/ c = 3) by lia.
  destruct C as [-> | [-> | [-> | ->]]]; rewrite ?Z.add_0_r; assumption.
Qed.

Lemma mod_row w y x : 0 <= x < w -> (y * w + x) mod w = x.
Proof. intros Hx. symmetry. apply (Z.mod_unique _ _ y); lia. Qed.

Lemma row_start_unique w y j : 1 <= w -> j mod w = 0 -> y * w <= j < (y + 1) * w -> j = y * w.
Proof.
  intros Hw Hm Hj. pose proof (Z.div_mod j w ltac:(lia)) as E. rewrite Hm, Z.add_0_r in E.
  assert (j / w = y) by nia. subst y. lia.
Qed.

Lemma land15_small m : 0 <= m <= 13 -> Z.land m 15 = m.
Proof. intros H. change 15 with (Z.ones 4). rewrite Z.land_ones by lia. apply Z.mod_small. change (2 ^ 4) with 16. lia. Qed.

Section Predictor.
  Variables (bytes px pdata modes : arr) (w h bits nm : Z).
  Hypothesis Hw : 1 <= w <= 16384.
  Hypothesis Hh : 1 <= h.
  Hypothesis Hbits : 0 <= bits <= 9.
  Hypothesis Hrepr : repr bytes px (w * h).
  Hypothesis Hlen : zlen bytes = 4 * (w * h).
  Hypothesis Hmodes : repr pdata modes nm.
  Hypothesis Hnm : V.DIV_ROUND_UP w (2 ^ bits) * V.DIV_ROUND_UP h (2 ^ bits) <= nm.

  Let N := w * h.
  Let B := 2 ^ bits.
  Let bxs := V.DIV_ROUND_UP w B.
  Let out := inverse_predictor_gen pmodel w h bits modes px.
  Let Hw1 : 1 <= w := proj1 Hw.

  Definition base3 (j : Z) : Z := if (j <? w) || (j mod w =? 0) then V.pix out j else V.pix px j.

  Lemma HN : w <= N /\ 1 <= N.
  Proof. unfold N. split; nia. Qed.

  (* ---------- phase 1: the first pixel ---------- *)
  Lemma phase1 : exists b1, bind (zget bytes 3) (fun a => zset bytes 3 (wadd8 a 255)) = Ok b1 /\ pinv out (V.pix px) N 1 b1.
  Proof.
    pose proof HN as (HN1 & HN2). fold N in Hlen. rewrite zget_ok by lia. cbn [bind].
    destruct (zset_ok bytes 3 (wadd8 (az bytes 3) 255) ltac:(lia)) as (b1 & E & L & Hz).
    exists b1. split; [exact E|]. split; [lia|]. intros j Hj. destruct (repr_cell _ _ _ j Hrepr Hj) as [Hc _].
    destruct (Z.eq_dec j 0) as [->|Hne].
    - replace (0 <? 1) with true by reflexivity. unfold out. rewrite out_00 by lia.
      rewrite q4_add_pixels, q4_black, add4_black by apply q4_bytes. rewrite <- Hc. unfold cell. cbn [fst snd]. rewrite !Hz by lia.
      reflexivity.
    - replace (j <? 1) with false by (symmetry; apply Z.ltb_ge; lia). rewrite <- Hc. unfold cell. rewrite !Hz by lia.
      replace (4 * j =? 3) with false by (symmetry; apply Z.eqb_neq; lia).
      replace (4 * j + 1 =? 3) with false by (symmetry; apply Z.eqb_neq; lia).
      replace (4 * j + 2 =? 3) with false by (symmetry; apply Z.eqb_neq; lia).
      replace (4 * j + 3 =? 3) with false by (symmetry; apply Z.eqb_neq; lia). reflexivity.
  Qed.

  (* ---------- phase 2: the first row ---------- *)
  Lemma phase2 b1 : pinv out (V.pix px) N 1 b1 -> exists b2, pred1 b1 4 (w * 4) w = Ok b2 /\ pinv out (V.pix px) N w b2.
  Proof.
    intros H1. pose proof HN as (HN1 & HN2).
    destruct (pred1_ok out (V.pix px) w N Hw1 1 (w - 1) b1 ltac:(lia) ltac:(lia) ltac:(lia) H1) as (b2 & E & H2).
    - intros i Hi. unfold out. apply out_row0; lia.
    - exists b2. replace (4 * 1) with 4 in E by lia. replace (4 * (1 + (w - 1))) with (w * 4) in E by lia.
      replace (1 + (w - 1)) with w in H2 by lia. split; [exact E | exact H2].
  Qed.

  (* ---------- phase 3: the first column ---------- *)
  Definition cinv3 (y : Z) (cur : arr) : Prop :=
    zlen cur = 4 * N /\
    forall j, 0 <= j < N -> cell cur j = q4 (if (j <? w) || ((j mod w =? 0) && (j <? y * w)) then V.pix out j else V.pix px j).

  Lemma col_step y cur : 1 <= y < h -> cinv3 y cur ->
    exists cur', for_range 0 4 (fun i img =>
                   bind (zget img (y * w * 4 + i)) (fun c => bind (zget img ((y - 1) * w * 4 + i)) (fun u =>
                   zset img (y * w * 4 + i) (wadd8 c u)))) cur = Ok cur' /\ cinv3 (y + 1) cur'.
  Proof.
    intros Hy (Hl & Hc). pose proof HN as (HN1 & HN2).
    assert (Hyw : w <= y * w /\ y * w + w <= N) by (unfold N; split; nia).
    assert (H0 : 0 <= (y - 1) * w) by nia.
    (* the two pixels involved *)
    assert (Ccur : cell cur (y * w) = q4 (V.pix px (y * w))).
    { rewrite Hc by lia. replace (y * w <? w) with false by (symmetry; apply Z.ltb_ge; lia).
      replace (y * w <? y * w) with false by (symmetry; apply Z.ltb_ge; lia). rewrite andb_false_r. reflexivity. }
    assert (Cup : cell cur ((y - 1) * w) = q4 (V.pix out ((y - 1) * w))).
    { rewrite Hc by lia. rewrite Z.mod_mul by lia. replace ((y - 1) * w <? y * w) with true by (symmetry; apply Z.ltb_lt; lia).
      cbn [Z.eqb andb]. rewrite orb_true_r. reflexivity. }
    set (I := fun (c : Z) (cur' : arr) => zlen cur' = 4 * N /\
                forall k, 0 <= k < 4 * N -> az cur' k = if (4 * (y * w) <=? k) && (k <? 4 * (y * w) + c)
                                                        then chan (k - 4 * (y * w)) (V.pix out (y * w)) else az cur k).
    destruct (for_range_inv I (fun i img =>
                   bind (zget img (y * w * 4 + i)) (fun c => bind (zget img ((y - 1) * w * 4 + i)) (fun u =>
                   zset img (y * w * 4 + i) (wadd8 c u)))) 0 4 cur ltac:(lia)) as (c' & E & Hl' & Hz').
    - split; [exact Hl|]. intros k Hk. replace (k <? 4 * (y * w) + 0) with (k <? 4 * (y * w)) by (f_equal; lia).
      destruct (Z.leb_spec (4 * (y * w)) k); destruct (Z.ltb_spec k (4 * (y * w))); try reflexivity; lia.
    - intros c c0 Hcc (Hl0 & Hz0). rewrite !zget_ok by lia. cbn [bind].
      destruct (zset_ok c0 (y * w * 4 + c) (wadd8 (az c0 (y * w * 4 + c)) (az c0 ((y - 1) * w * 4 + c))) ltac:(lia)) as (c1 & E1 & L1 & Z1).
      exists c1. split; [exact E1|]. split; [lia|]. intros k Hk. rewrite Z1 by lia.
      destruct (Z.eqb_spec k (y * w * 4 + c)) as [->|Hne].
      + replace ((4 * (y * w) <=? y * w * 4 + c) && (y * w * 4 + c <? 4 * (y * w) + (c + 1))) with true
          by (symmetry; apply andb_true_iff; split; [apply Z.leb_le | apply Z.ltb_lt]; lia).
        rewrite (Hz0 (y * w * 4 + c)), (Hz0 ((y - 1) * w * 4 + c)) by lia.
        replace (y * w * 4 + c <? 4 * (y * w) + c) with false by (symmetry; apply Z.ltb_ge; lia). rewrite andb_false_r.
        replace (4 * (y * w) <=? (y - 1) * w * 4 + c) with false by (symmetry; apply Z.leb_gt; lia). cbn [andb].
        replace (y * w * 4 + c) with (4 * (y * w) + c) by lia. replace ((y - 1) * w * 4 + c) with (4 * ((y - 1) * w) + c) by lia.
        rewrite (cell_to_chan _ _ _ c Ccur), (cell_to_chan _ _ _ c Cup) by lia.
        replace (4 * (y * w) + c - 4 * (y * w)) with c by lia.
        unfold out. rewrite (out_col0 pmodel w h bits modes px Hw1 Hh y Hy). rewrite chan_add_pixels by lia. reflexivity.
      + rewrite (Hz0 k Hk).
        destruct (Z.leb_spec (4 * (y * w)) k); cbn [andb]; [|reflexivity].
        destruct (Z.ltb_spec k (4 * (y * w) + c)); destruct (Z.ltb_spec k (4 * (y * w) + (c + 1))); try reflexivity; lia.
    - exists c'. split; [exact E|]. split; [exact Hl'|]. intros j Hj.
      destruct (Z.eq_dec j (y * w)) as [->|Hne].
      + rewrite Z.mod_mul by lia. replace (y * w <? (y + 1) * w) with true by (symmetry; apply Z.ltb_lt; lia).
        cbn [Z.eqb andb]. rewrite orb_true_r. apply cell_chan. intros c Hcc. rewrite Hz' by lia.
        replace ((4 * (y * w) <=? 4 * (y * w) + c) && (4 * (y * w) + c <? 4 * (y * w) + 4)) with true
          by (symmetry; apply andb_true_iff; split; [apply Z.leb_le | apply Z.ltb_lt]; lia).
        f_equal. lia.
      + assert (Hu : forall c, 0 <= c < 4 -> az c' (4 * j + c) = az cur (4 * j + c)).
        { intros c Hcc. rewrite Hz' by lia.
          replace ((4 * (y * w) <=? 4 * j + c) && (4 * j + c <? 4 * (y * w) + 4)) with false; [reflexivity|].
          symmetry. apply andb_false_iff. destruct (Z_lt_ge_dec j (y * w)); [left; apply Z.leb_gt | right; apply Z.ltb_ge]; lia. }
        unfold cell. rewrite <- (Z.add_0_r (4 * j)) at 1. rewrite !Hu by lia. rewrite Z.add_0_r. fold (cell cur j).
        rewrite (Hc j Hj). f_equal.
        assert (Eb : ((j mod w =? 0) && (j <? (y + 1) * w)) = ((j mod w =? 0) && (j <? y * w))).
        { destruct (Z.eqb_spec (j mod w) 0) as [Em|Em]; cbn [andb]; [|reflexivity].
          destruct (Z.ltb_spec j ((y + 1) * w)); destruct (Z.ltb_spec j (y * w)); try reflexivity; try lia.
          exfalso. apply Hne. apply (row_start_unique w y j Hw1 Em). lia. }
        rewrite Eb. reflexivity.
  Qed.

  Lemma phase3 b2 : pinv out (V.pix px) N w b2 ->
    exists b3, for_range 1 h (fun y img => for_range 0 4 (fun i img0 =>
                 bind (zget img0 (y * w * 4 + i)) (fun c => bind (zget img0 ((y - 1) * w * 4 + i)) (fun u =>
                 zset img0 (y * w * 4 + i) (wadd8 c u)))) img) b2 = Ok b3 /\ pinv out base3 N w b3.
  Proof.
    intros (Hl & Hc). pose proof HN as (HN1 & HN2).
    match goal with |- exists b3, for_range 1 h ?F b2 = _ /\ _ =>
      destruct (for_range_inv cinv3 F 1 h b2 Hh) as (b3 & E & Hl3 & Hc3) end.
    - split; [exact Hl|]. intros j Hj. rewrite (Hc j Hj). f_equal. rewrite Z.mul_1_l.
      destruct (j <? w); [reflexivity|]. rewrite andb_false_r. reflexivity.
    - intros y cur Hy Hcur. apply col_step; assumption.
    - exists b3. split; [exact E|]. split; [exact Hl3|]. intros j Hj. rewrite (Hc3 j Hj). f_equal. unfold base3.
      replace (j <? h * w) with true by (symmetry; apply Z.ltb_lt; unfold N in Hj; lia). rewrite andb_true_r.
      destruct (j <? w); reflexivity.
  Qed.

  (* ---------- phase 4: the blocks of every row ---------- *)
  Lemma HB : 1 <= B <= 512.
  Proof. apply pow2_bits. exact Hbits. Qed.

  Lemma pinv_skip y cur : 1 <= y < h -> pinv out base3 N (y * w) cur -> pinv out base3 N (y * w + 1) cur.
  Proof.
    intros Hy (Hl & Hc). split; [exact Hl|]. intros j Hj. rewrite (Hc j Hj). f_equal.
    destruct (Z.ltb_spec j (y * w)); destruct (Z.ltb_spec j (y * w + 1)); try reflexivity; try lia.
    assert (j = y * w) by lia. subst j. unfold base3. rewrite Z.mod_mul by lia. cbn [Z.eqb]. rewrite orb_true_r. reflexivity.
  Qed.

  Lemma block_step y bx cur : 1 <= y < h -> 0 <= bx < bxs ->
    pinv out base3 N (y * w + Z.max 1 (Z.min (bx * B) w)) cur ->
    exists cur',
      bind (zget pdata ((Z.shiftr y bits * bxs + bx) * 4 + 1)) (fun predictor =>
        pred_k predictor cur ((y * w + Z.max (Z.shiftl bx bits) 1) * 4) ((y * w + Z.min (Z.shiftl (bx + 1) bits) w) * 4) w) = Ok cur'
      /\ pinv out base3 N (y * w + Z.max 1 (Z.min ((bx + 1) * B) w)) cur'.
  Proof.
    intros Hy Hbx Hinv. pose proof HB as HB'. pose proof HN as (HN1 & HN2).
    assert (HbxB : bx * B < w).
    { destruct (div_round_up_bounds w B ltac:(lia) ltac:(lia)) as [H1 | [H1 _]]; [fold bxs in H1; nia | lia]. }
    assert (Hbi : 0 <= Z.shiftr y bits * bxs + bx < nm).
    { rewrite Z.shiftr_div_pow2 by lia. fold B. pose proof (block_lt h B y ltac:(lia) ltac:(lia)) as Hyb.
      unfold bxs in *. fold B in Hnm. nia. }
    set (bi := Z.shiftr y bits * bxs + bx) in *.
    pose proof (repr_len _ _ _ Hmodes) as Hpl.
    rewrite zget_ok by lia. cbn [bind]. replace (bi * 4 + 1) with (4 * bi + 1) by lia.
    destruct (repr_az4 _ _ _ _ Hmodes Hbi) as (_ & Eg & _ & _). rewrite Eg.
    set (m := V.GREEN (V.pix modes bi)). pose proof (GREEN_byte (V.pix modes bi)) as Bm. fold m in Bm. unfold byte in Bm.
    rewrite !Z.shiftl_mul_pow2 by lia. fold B.
    set (xs := Z.max (bx * B) 1). set (xe := Z.min ((bx + 1) * B) w).
    assert (Hxs : 1 <= xs <= xe /\ xe <= w) by (unfold xs, xe; lia).
    replace (y * w + Z.max 1 (Z.min (bx * B) w)) with (y * w + xs) in Hinv by (unfold xs; lia).
    replace (y * w + Z.max 1 xe) with (y * w + xs + (xe - xs)) by lia.
    replace ((y * w + xs) * 4) with (4 * (y * w + xs)) by lia.
    replace ((y * w + xe) * 4) with (4 * (y * w + xs + (xe - xs))) by lia.
    assert (Hyw : w <= y * w /\ y * w + w <= N) by (unfold N; split; nia).
    apply (pred_k_ok out base3 w N Hw1 m (y * w + xs) (xe - xs) cur); [lia | unfold run_ok; lia | exact Hinv |].
    intros i Hi. set (x := i - y * w). assert (Hx : xs <= x < xe) by (unfold x; lia).
    assert (Ei : i = y * w + x) by (unfold x; lia).
    unfold out. rewrite (out_inner pmodel w h bits modes px Hw1 Hh x y i ltac:(lia) Hy Ei).
    assert (Eb : base3 i = V.pix px i).
    { unfold base3. rewrite Ei, mod_row by lia.
      replace (y * w + x <? w) with false by (symmetry; apply Z.ltb_ge; lia).
      replace (x =? 0) with false by (symmetry; apply Z.eqb_neq; lia). reflexivity. }
    rewrite Eb. do 2 f_equal. unfold green_at. rewrite !Z.shiftr_div_pow2 by lia. fold B. fold bxs.
    replace (x / B) with bx by (apply (Z.div_unique _ _ _ (x - bx * B)); unfold xs, xe in Hx; lia).
    replace (y / B) with (Z.shiftr y bits) by (rewrite Z.shiftr_div_pow2 by lia; reflexivity). reflexivity.
  Qed.

  Lemma phase4 b3 : pinv out base3 N w b3 ->
    exists b4, for_range 1 h (fun y img => for_range 0 bxs (fun block_x img0 =>
                 bind (zget pdata ((Z.shiftr y bits * bxs + block_x) * 4 + 1)) (fun predictor =>
                   pred_k predictor img0 ((y * w + Z.max (Z.shiftl block_x bits) 1) * 4)
                          ((y * w + Z.min (Z.shiftl (block_x + 1) bits) w) * 4) w)) img) b3 = Ok b4
               /\ pinv out base3 N (h * w) b4.
  Proof.
    intros H3. pose proof HB as HB'.
    assert (Hbxs : 1 <= bxs /\ w <= bxs * B).
    { pose proof (div_round_up_ge w B ltac:(lia) ltac:(lia)) as H2. fold bxs in H2. split; [nia | exact H2]. }
    match goal with |- exists b4, for_range 1 h ?F b3 = _ /\ _ =>
      destruct (for_range_inv (fun y cur => pinv out base3 N (y * w) cur) F 1 h b3 Hh) as (b4 & E & H4) end.
    - rewrite Z.mul_1_l. exact H3.
    - intros y cur Hy Hcur.
      match goal with |- exists s1, for_range 0 bxs ?G cur = _ /\ _ =>
        destruct (for_range_inv (fun bx c => pinv out base3 N (y * w + Z.max 1 (Z.min (bx * B) w)) c) G 0 bxs cur ltac:(lia))
          as (c' & E' & Hc') end.
      + replace (y * w + Z.max 1 (Z.min (0 * B) w)) with (y * w + 1) by lia. apply pinv_skip; assumption.
      + intros bx c0 Hbx Hc0. apply block_step; assumption.
      + exists c'. split; [exact E'|]. replace (y * w + Z.max 1 (Z.min (bxs * B) w)) with ((y + 1) * w) in Hc' by lia. exact Hc'.
    - exists b4. split; [exact E | exact H4].
  Qed.

  (* ---------- the transform ---------- *)
  (* for EVERY mode image: the Rust code computes the generic inverse predictor at the instance `pmodel` *)
  Theorem predictor_transform_model :
    exists bytes', apply_predictor_transform bytes w h bits pdata = Ok bytes' /\ zlen bytes' = zlen bytes /\
                   repr bytes' (inverse_predictor_gen pmodel w h bits modes px) (w * h).
  Proof.
    pose proof HB as HB'. unfold apply_predictor_transform. rewrite subsample_ok by lia. cbn [bind]. fold B.
    change ((w + B - 1) / B) with bxs.
    destruct phase1 as (b1 & E1 & H1). unfold bind at 1 in E1.
    destruct (zget bytes 3) as [a| | |] eqn:Ea; try discriminate. cbn [bind]. rewrite E1. cbn [bind].
    destruct (phase2 b1 H1) as (b2 & E2 & H2). rewrite E2. cbn [bind].
    destruct (phase3 b2 H2) as (b3 & E3 & H3). rewrite E3. cbn [bind].
    destruct (phase4 b3 H3) as (b4 & E4 & (Hl4 & Hc4)). exists b4. split; [exact E4|]. fold N in Hlen. split; [lia|].
    destruct (inverse_predictor_rec pmodel w h bits modes px Hw1 Hh) as (Ha & Hp).
    apply repr_intro; [fold N; lia | rewrite Ha; apply (repr_alen _ _ _ Hrepr) |].
    intros i Hi. fold N in Hi. split.
    - rewrite (Hc4 i Hi). replace (i <? h * w) with true by (symmetry; apply Z.ltb_lt; unfold N in Hi; lia). reflexivity.
    - destruct (idx_decomp w h i ltac:(lia) Hi) as (x & y & Hx & Hy & ->). rewrite (Hp x y Hx Hy). apply add_pixels_range.
  Qed.

  (* C03: no panic whatever the green bytes of the mode image are *)
  Corollary predictor_transform_no_panic : forall p, apply_predictor_transform bytes w h bits pdata <> Panic p.
  Proof. intros p. destruct predictor_transform_model as (b' & E & _). rewrite E. discriminate. Qed.

  (* C01: with the 14 modes of the format the instance `pmodel` is the specification *)
  Hypothesis Hvalid : forall j, 0 <= j < nm -> V.GREEN (V.pix modes j) <= 13.

  Lemma pmodel_is_spec : inverse_predictor_gen pmodel w h bits modes px = V.inverse_predictor w h bits modes px.
  Proof.
    rewrite inverse_predictor_is_gen. apply inverse_predictor_gen_ext; [lia | lia |]. intros x y Hx Hy.
    pose proof HB as HB'.
    assert (Hbi : 0 <= Z.shiftr y bits * V.DIV_ROUND_UP w (2 ^ bits) + Z.shiftr x bits < nm).
    { rewrite !Z.shiftr_div_pow2 by lia. fold B. pose proof (block_index_lt w h B x y Hx Hy ltac:(lia)) as Hb. fold B in Hnm. lia. }
    pose proof (Hvalid _ Hbi) as H13. pose proof (GREEN_byte (V.pix modes (Z.shiftr y bits * V.DIV_ROUND_UP w (2 ^ bits) + Z.shiftr x bits))) as Bg.
    unfold byte in Bg. unfold pmodel.
    replace (V.GREEN (V.pix modes (Z.shiftr y bits * V.DIV_ROUND_UP w (2 ^ bits) + Z.shiftr x bits)) <=? 13) with true
      by (symmetry; apply Z.leb_le; exact H13).
    rewrite land15_small by lia. reflexivity.
  Qed.

  Theorem predictor_transform_refines :
    exists bytes', apply_predictor_transform bytes w h bits pdata = Ok bytes' /\ zlen bytes' = zlen bytes /\
                   repr bytes' (V.inverse_predictor w h bits modes px) (w * h).
  Proof. rewrite <- pmodel_is_spec. exact predictor_transform_model. Qed.
End Predictor.

(* satisfiable, all 14 modes: a 5 x 3 image with 4 x 4 blocks cannot hold 14 modes, so one example per mode on a 3 x 2 image *)
Definition ex_bytes : arr := of_list [10; 20; 30; 40; 250; 251; 252; 253; 7; 77; 177; 201; 100; 0; 255; 9; 1; 2; 3; 4; 90; 180; 14; 28].
Definition ex_px : arr := of_list [V.argb 40 10 20 30; V.argb 253 250 251 252; V.argb 201 7 77 177;
                                   V.argb 9 100 0 255; V.argb 4 1 2 3; V.argb 28 90 180 14].
Definition ex_ok (m : Z) : bool :=
  match apply_predictor_transform ex_bytes 3 2 2 (of_list [0; m; 0; 255]) with
  | Ok b' => if list_eq_dec Z.eq_dec (concat (map cl (V.pixel_list (V.inverse_predictor 3 2 2 (of_list [V.argb 255 0 m 0]) ex_px))))
                                     (zto_list b') then true else false
  | _ => false
  end.
Example predictor_examples : forallb ex_ok [0; 1; 2; 3; 4; 5; 6; 7; 8; 9; 10; 11; 12; 13] = true.
Proof. vm_compute. reflexivity. Qed.

(* modes 14 and 15 (not part of the format; libwebp treats them as mode 0, the Rust code leaves the pixels alone) *)
Example predictor_mode14_differs : ex_ok 14 = false /\ ex_ok 15 = false.
Proof. vm_compute. split; reflexivity. Qed.

(* ... exactly as `pmodel` says, for every green byte *)
Definition ex_model_ok (m : Z) : bool :=
  match apply_predictor_transform ex_bytes 3 2 2 (of_list [0; m; 0; 255]) with
  | Ok b' => if list_eq_dec Z.eq_dec (concat (map cl (V.pixel_list (inverse_predictor_gen pmodel 3 2 2 (of_list [V.argb 255 0 m 0]) ex_px))))
                                     (zto_list b') then true else false
  | _ => false
  end.
Example predictor_model_examples : forallb ex_model_ok [0; 5; 11; 13; 14; 15; 16; 29; 200; 255] = true.
Proof. vm_compute. reflexivity. Qed.
