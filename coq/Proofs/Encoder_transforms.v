(* C04 layer 1 (part): the forward subtract-green transform of encode_frame is undone by the specification's inverse
   (WebP lossless bitstream, section 4.3 "Subtract Green Transform": red = (red + green) & 0xff, blue = (blue + green) & 0xff).
   The predictor transform (rows bottom-up over Lib/Arr) is NOT covered here. *)
From Coq Require Import ZArith List Bool Lia.
From WebP Require Import Lib.ZBits Model.EncoderHeap Model.Encoder.
Import ListNotations.
Open Scope Z_scope.

(* the specification's inverse, on a flat RGBA byte list *)
Fixpoint add_green (px : list Z) : list Z :=
  match px with
  | r :: g :: b :: a :: tl => (r + g) mod 256 :: g :: (b + g) mod 256 :: a :: add_green tl
  | _ => px
  end.

Lemma add_green_subtract_green_4 : forall n px, length px = (4 * n)%nat -> Forall (fun x => 0 <= x < 256) px ->
  add_green (subtract_green px) = px.
Proof.
  induction n as [|n IH]; intros px Hl Hb.
  - destruct px; [reflexivity | cbn in Hl; lia].
  - destruct px as [|r [|g [|b [|a tl]]]]; cbn [length] in Hl; try lia.
    cbn [subtract_green add_green]. unfold sub8.
    apply Forall_cons_iff in Hb. destruct Hb as [Hr Hb]. apply Forall_cons_iff in Hb. destruct Hb as [Hg Hb].
    apply Forall_cons_iff in Hb. destruct Hb as [Hbb Hb]. apply Forall_cons_iff in Hb. destruct Hb as [Ha Hb].
    rewrite (IH tl) by (try assumption; lia).
    replace (((r - g) mod 256 + g) mod 256) with r by lia.
    replace (((b - g) mod 256 + g) mod 256) with b by lia. reflexivity.
Qed.

(* the forward transform keeps bytes bytes and the length *)
Lemma subtract_green_bytes : forall n px, length px = (4 * n)%nat -> Forall (fun x => 0 <= x < 256) px ->
  length (subtract_green px) = length px /\ Forall (fun x => 0 <= x < 256) (subtract_green px).
Proof.
  induction n as [|n IH]; intros px Hl Hb.
  - destruct px; [split; [reflexivity | constructor] | cbn in Hl; lia].
  - destruct px as [|r [|g [|b [|a tl]]]]; cbn [length] in Hl; try lia.
    cbn [subtract_green]. unfold sub8.
    apply Forall_cons_iff in Hb. destruct Hb as [Hr Hb]. apply Forall_cons_iff in Hb. destruct Hb as [Hg Hb].
    apply Forall_cons_iff in Hb. destruct Hb as [Hbb Hb]. apply Forall_cons_iff in Hb. destruct Hb as [Ha Hb].
    destruct (IH tl ltac:(lia) Hb) as [L F]. split; [cbn [length]; lia|].
    repeat constructor; try assumption; try lia; apply Z.mod_pos_bound; lia.
Qed.

Example subtract_green_instance : add_green (subtract_green [10; 200; 30; 255; 0; 1; 2; 3]) = [10; 200; 30; 255; 0; 1; 2; 3]
                                  /\ subtract_green [10; 200; 30; 255; 0; 1; 2; 3] = [66; 200; 86; 255; 255; 1; 1; 3].
Proof. vm_compute. split; reflexivity. Qed.
