(* C15, part 2: the ideal decoder state (A, range, T) over the partition read as one number, and the proof that the
   RFC decoder (Spec.RfcBoolDec) is a window onto it.
     T = renormalisation shifts so far, A = sum of the subtracted splits in units of 2^-(T+8),
     h = pre (T+8) - A is the decoder's "value" with all pending input bits removed; 0 <= h < range. *)
From Coq Require Import ZArith Lia List Bool.
From WebP Require Import Gen.Kernels Lib.ZBits Proofs.C15_num Spec.RfcBoolDec.
Import ListNotations.
Open Scope Z_scope.

Record ideal := mkI { iA : Z; iR : Z; iT : Z }.

Lemma next_byte_skipn (l : list Z) k : next_byte (skipn k l) = (nth k l 0, skipn (S k) l).
Proof.
  revert k. induction l as [|x l IH]; intros k.
  - destruct k; reflexivity.
  - destruct k; [reflexivity|]. cbn [skipn nth]. apply IH.
Qed.

Lemma renorm_need fuel s : need (renorm fuel s) = need s.
Proof.
  revert s. induction fuel as [|f IH]; intros s; cbn [renorm]; [reflexivity|].
  destruct (range s <? 128); [|reflexivity]. rewrite IH. unfold shift1.
  destruct (bit_count s + 1 =? 8); [destruct (next_byte (input s))|]; reflexivity.
Qed.

Section Ideal.
Variable data : list Z.
Hypothesis Hbytes : Forall byte data.
Notation pre := (pre data).
Notation numZ := (numZ data).
Notation byte_at := (byte_at data).

Definition ih (i : ideal) : Z := pre (iT i + 8) - iA i.

Definition ideal_step (i : ideal) (p : Z) : bool * ideal :=
  let split := split_of (iR i) p in
  let b := split <=? ih i in
  let A1 := if b then iA i + split else iA i in
  let R1 := if b then iR i - split else split in
  let s := norm_shift R1 in
  (b, mkI (A1 * 2 ^ s) (R1 * 2 ^ s) (iT i + s)).

Definition ideal_ok (i : ideal) : Prop := 128 <= iR i <= 255 /\ 0 <= iT i /\ 0 <= iA i /\ 0 <= ih i < iR i.

Definition ideal0 : ideal := mkI 0 255 0.

Lemma ideal0_ok : nth 0 data 0 <> 255 -> ideal_ok ideal0.
Proof.
  intros Hff. unfold ideal_ok, ih, ideal0. cbn [iA iR iT].
  change (0 + 8) with (8 * 1). rewrite (pre_8 data Hbytes) by lia.
  change 1 with (0 + 1). rewrite numZ_succ by lia. rewrite numZ_0.
  pose proof (byte_at_range data Hbytes 0). unfold C15_num.byte_at in *. change (Z.to_nat 0) with O in *. lia.
Qed.

Lemma ideal_step_ok i p : ideal_ok i -> 0 <= p <= 255 -> ideal_ok (snd (ideal_step i p)).
Proof.
  intros (HR & HT & HA & Hh) Hp. unfold ideal_step. cbn [snd].
  pose proof (split_of_range (iR i) p ltac:(lia) Hp) as Hs.
  set (split := split_of (iR i) p) in *.
  set (b := split <=? ih i).
  set (A1 := if b then iA i + split else iA i).
  set (R1 := if b then iR i - split else split).
  assert (HR1 : 1 <= R1 <= 255) by (unfold R1; destruct b; lia).
  assert (Hh1 : 0 <= pre (iT i + 8) - A1 < R1).
  { unfold A1, R1, b. unfold ih in *. destruct (Z.leb_spec split (pre (iT i + 8) - iA i)); lia. }
  assert (HA1 : 0 <= A1) by (unfold A1; destruct b; lia).
  destruct (norm_shift_facts R1 HR1) as (Hn1 & Hn2 & _ & _).
  set (s := norm_shift R1) in *.
  unfold ideal_ok, ih. cbn [iA iR iT].
  pose proof (pow2_pos s ltac:(lia)).
  destruct (pre_split data Hbytes (iT i + 8) s ltac:(lia) ltac:(lia)) as [r [Hr E]].
  replace (iT i + s + 8) with (iT i + 8 + s) by lia. rewrite E.
  repeat split; try lia; nia.
Qed.

(* ---- the RFC decoder as a window ---- *)
Definition specinv (i : ideal) (s : st) : Prop :=
  range s = iR i /\ shifts s = iT i /\ bit_count s = iT i mod 8 /\
  input s = skipn (Z.to_nat (iT i / 8 + 2)) data /\
  value s = numZ (iT i / 8 + 2) * 2 ^ (iT i mod 8) - iA i * 2 ^ 8.

Lemma spec_init : specinv ideal0 (init data).
Proof.
  unfold init. pose proof (next_byte_skipn data 0) as E0. change (skipn 0 data) with data in E0. rewrite E0. cbv beta iota.
  pose proof (next_byte_skipn data 1) as E1. rewrite E1. cbv beta iota.
  unfold specinv, ideal0. cbn [range shifts bit_count input value iA iR iT].
  repeat split.
  change (0 / 8 + 2) with (0 + 1 + 1). rewrite !numZ_succ by lia. rewrite numZ_0.
  change (0 mod 8) with 0. change (2 ^ 0) with 1.
  pose proof (byte_at_range data Hbytes 0) as B0. pose proof (byte_at_range data Hbytes 1) as B1.
  unfold C15_num.byte_at in *. change (Z.to_nat 0) with O in *. change (Z.to_nat (0 + 1)) with 1%nat in *. change (Z.to_nat 1) with 1%nat in *.
  set (b0 := nth 0 data 0) in *. set (b1 := nth 1 data 0) in *.
  change (Z.shiftl 0 8) with 0. rewrite Z.lor_0_l. rewrite Z.shiftl_mul_pow2 by lia.
  rewrite Z.lor_comm. rewrite lor_low_high by (change (2 ^ 8) with 256; lia). change (2 ^ 8) with 256. lia.
Qed.

Lemma specinv_ext A R T A' R' T' s : A = A' -> R = R' -> T = T' -> specinv (mkI A R T) s -> specinv (mkI A' R' T') s.
Proof. intros -> -> ->. exact id. Qed.

Lemma spec_shift1 i s : 0 <= iT i -> specinv i s -> specinv (mkI (iA i * 2) (iR i * 2) (iT i + 1)) (shift1 s).
Proof.
  intros HT (Hr & Hs & Hb & Hi & Hv). unfold shift1. rewrite !Z.shiftl_mul_pow2 by lia. change (2 ^ 1) with 2.
  destruct (Z.eqb_spec (bit_count s + 1) 8) as [E | NE].
  - rewrite Hi. rewrite next_byte_skipn.
    unfold specinv. cbn [range shifts bit_count input value iA iR iT].
    assert (Hm : iT i mod 8 = 7) by lia.
    assert (Hq : (iT i + 1) / 8 = iT i / 8 + 1) by lia.
    assert (Hm' : (iT i + 1) mod 8 = 0) by lia.
    rewrite Hq, Hm'. repeat split; try lia.
    + f_equal. lia.
    + rewrite Hv, Hm. replace (iT i / 8 + 1 + 2) with (iT i / 8 + 2 + 1) by lia.
      rewrite numZ_succ by (pose proof (Z.div_pos (iT i) 8); lia).
      pose proof (byte_at_range data Hbytes (iT i / 8 + 2)) as Bb. unfold C15_num.byte_at in *.
      set (bb := nth (Z.to_nat (iT i / 8 + 2)) data 0) in *.
      set (P := numZ (iT i / 8 + 2)).
      replace ((P * 2 ^ 7 - iA i * 2 ^ 8) * 2) with ((P - iA i * 2) * 2 ^ 8) by (change (2 ^ 7) with 128; change (2 ^ 8) with 256; ring).
      rewrite Z.lor_comm. rewrite lor_low_high by (change (2 ^ 8) with 256; lia).
      change (2 ^ 0) with 1. change (2 ^ 8) with 256. ring.
  - unfold specinv. cbn [range shifts bit_count input value iA iR iT].
    assert (Hq : (iT i + 1) / 8 = iT i / 8) by lia.
    assert (Hm' : (iT i + 1) mod 8 = iT i mod 8 + 1) by lia.
    rewrite Hq, Hm'. repeat split; try lia; try assumption.
    rewrite Hv. rewrite pow2_add by lia. change (2 ^ 1) with 2. ring.
Qed.

Lemma spec_renorm fuel : forall i s, 0 <= iT i -> 1 <= iR i <= 255 -> norm_shift (iR i) <= Z.of_nat fuel -> specinv i s ->
  specinv (mkI (iA i * 2 ^ norm_shift (iR i)) (iR i * 2 ^ norm_shift (iR i)) (iT i + norm_shift (iR i))) (renorm fuel s).
Proof.
  induction fuel as [|f IH]; intros i s HT HR Hk Hs.
  - destruct (norm_shift_facts (iR i) HR) as (Hn1 & _).
    assert (E : norm_shift (iR i) = 0) by lia. rewrite E. cbn [renorm]. destruct i as [A R T]. cbn [iA iR iT] in *.
    eapply specinv_ext; [| | | exact Hs]; change (2 ^ 0) with 1; lia.
  - cbn [renorm]. destruct Hs as (Hr & Hrest). rewrite Hr.
    destruct (norm_shift_facts (iR i) HR) as (Hn1 & Hn2 & Hlt & Hge).
    destruct (Z.ltb_spec (iR i) 128) as [L | G].
    + specialize (Hlt L).
      assert (HR2 : 1 <= iR i * 2 <= 255) by lia.
      destruct (norm_shift_facts (iR i * 2) HR2) as (Hm1 & _).
      replace (2 * iR i) with (iR i * 2) in Hlt by lia.
      pose proof (IH (mkI (iA i * 2) (iR i * 2) (iT i + 1)) (shift1 s)) as IH'. cbn [iA iR iT] in IH'.
      specialize (IH' ltac:(lia) HR2 ltac:(lia) (spec_shift1 i s HT (conj Hr Hrest))).
      eapply specinv_ext; [| | | exact IH']; rewrite Hlt; rewrite ?pow2_add by lia; change (2 ^ 1) with 2; try ring.
    + specialize (Hge G). rewrite Hge. destruct i as [A R T]. cbn [iA iR iT] in *.
      eapply specinv_ext; [| | | exact (conj Hr Hrest)]; change (2 ^ 0) with 1; lia.
Qed.

(* the comparison `value >= SPLIT` of the RFC decoder is the comparison `h >= split` *)
Lemma spec_compare i s x : 0 <= iT i -> specinv i s -> (x * 2 ^ 8 <= value s <-> x <= ih i).
Proof.
  intros HT (_ & _ & _ & _ & Hv). rewrite Hv. unfold ih.
  set (m := iT i mod 8). set (K := iT i / 8 + 2).
  assert (Hm : 0 <= m < 8) by (unfold m; lia).
  assert (HK : iT i + 8 <= 8 * K) by (unfold K; lia).
  rewrite (pre_any data Hbytes (iT i + 8) K) by lia.
  replace (8 * K - (iT i + 8)) with (8 - m) by (unfold K, m; lia).
  pose proof (pow2_pos m ltac:(lia)). pose proof (pow2_pos (8 - m) ltac:(lia)).
  assert (E8 : 2 ^ 8 = 2 ^ (8 - m) * 2 ^ m) by (rewrite <- pow2_add by lia; f_equal; lia).
  pose proof (div_ge_iff (numZ K) (x + iA i) (2 ^ (8 - m)) ltac:(lia)) as D.
  rewrite E8. set (a := 2 ^ (8 - m)) in *. set (c := 2 ^ m) in *. set (P := numZ K) in *.
  split; intros Hx.
  - assert (Hy : (x + iA i) * a <= P).
    { apply (Z.mul_le_mono_pos_r _ _ c); [lia|]. replace ((x + iA i) * a * c) with (x * (a * c) + iA i * (a * c)) by ring. lia. }
    lia.
  - assert (Hy : (x + iA i) * a <= P) by lia.
    apply (Z.mul_le_mono_pos_r _ _ c) in Hy; [|lia].
    replace ((x + iA i) * a * c) with (x * (a * c) + iA i * (a * c)) in Hy by ring. lia.
Qed.

Lemma spec_read_bool i s p : ideal_ok i -> specinv i s -> 0 <= p <= 255 ->
  exists s', read_bool s p = (fst (ideal_step i p), s') /\ specinv (snd (ideal_step i p)) s' /\
             need s' = Z.max (need s) (bytes_for_shift_count (iT i)).
Proof.
  intros (HR & HT & HA & Hh) Hs Hp.
  pose proof (split_of_range (iR i) p ltac:(lia) Hp) as Hsp.
  pose proof (spec_compare i s (split_of (iR i) p) HT Hs) as Hc.
  destruct Hs as (Hr & Hsh & Hb & Hi & Hv).
  unfold read_bool, ideal_step. rewrite Hr, Hsh. fold (split_of (iR i) p).
  set (split := split_of (iR i) p) in *. rewrite Z.shiftl_mul_pow2 by lia.
  cbn [fst snd].
  destruct (Z.leb_spec split (ih i)) as [L | G].
  - assert (E : (split * 2 ^ 8 <=? value s) = true) by (apply Z.leb_le; apply Hc; exact L). rewrite E.
    eexists. split; [reflexivity|]. split; [|rewrite renorm_need; reflexivity].
    apply (spec_renorm 7 (mkI (iA i + split) (iR i - split) (iT i))); cbn [iA iR iT]; try lia.
    + destruct (norm_shift_facts (iR i - split) ltac:(lia)) as (Hn & _). change (Z.of_nat 7) with 7. lia.
    + unfold specinv. cbn [range shifts bit_count input value iA iR iT]. repeat split; try assumption. rewrite Hv. ring.
  - assert (E : (split * 2 ^ 8 <=? value s) = false) by (apply Z.leb_gt; lia). rewrite E.
    eexists. split; [reflexivity|]. split; [|rewrite renorm_need; reflexivity].
    apply (spec_renorm 7 (mkI (iA i) split (iT i))); cbn [iA iR iT]; try lia.
    + destruct (norm_shift_facts split ltac:(lia)) as (Hn & _). change (Z.of_nat 7) with 7. lia.
    + unfold specinv. cbn [range shifts bit_count input value iA iR iT]. repeat split; assumption.
Qed.

(* the reference decoder's value register never needs more than two bytes *)
Lemma spec_value_two_bytes i s : ideal_ok i -> specinv i s -> 0 <= value s < 2 ^ 16.
Proof.
  intros (HR & HT & HA & Hh) Hs.
  pose proof (spec_compare i s 0 HT Hs) as H0. pose proof (spec_compare i s (iR i) HT Hs) as H1.
  change (2 ^ 16) with (256 * 2 ^ 8). change (2 ^ 8) with 256 in *. lia.
Qed.

End Ideal.
