(* C01 / C03, inverse transforms, (b): the colour transform.
   Model.LosslessTransform.apply_color_transform (lossless_transform.rs: rows = chunks_exact_mut(width*4), blocks =
   chunks_mut(4 << size_bits), u32 arithmetic with the deltas of `color_transform_delta` on `as i8` casts) refines
   Spec.VP8L.inverse_color_transform (section 4.2) and never panics when the transform image has one element per block. *)
From Coq Require Import ZArith NArith List Bool Lia.
From WebP Require Import Lib.Res Lib.Arr Lib.ZBits Gen.Kernels Model.LosslessLib Model.LosslessTransform
  Proofs.Lossless_HuffmanSafe Proofs.Lossless_CopyWithin Proofs.Lossless_Kernels Proofs.C01T_repr.
From WebP Require Spec.VP8L Proofs.C04_arr.
Import ListNotations.
Open Scope Z_scope.

Ltac Zify.zify_post_hook ::= Z.div_mod_to_equations.

(* ------------------------------------------------------------------------------------------------ *)
(** * the delta kernel on unreduced arguments *)
Lemma wrapS8_int8 x : wrapS 8 x = V.int8 (x mod 256).
Proof.
  unfold wrapS, V.int8. change (8 - 1) with 7. change (2 ^ 7) with 128. change (2 ^ 8) with 256.
  destruct (Z.ltb_spec (x mod 256) 128); lia.
Qed.

Lemma ctd_mod t c : ctd t c mod 256 = V.ColorTransformDelta (t mod 256) (c mod 256) mod 256.
Proof. destruct (ctd_spec t c) as [E _]. rewrite E. unfold V.ColorTransformDelta. rewrite !wrapS8_int8. reflexivity. Qed.

Lemma ctd_range t c : 0 <= ctd t c < 134217728.
Proof. destruct (ctd_spec t c) as [_ R]. change (2 ^ 27) with 134217728 in R. exact R. Qed.

Lemma mod256_small x : byte x -> x mod 256 = x.
Proof. unfold byte. intros H. apply Z.mod_small. lia. Qed.

(* the two sums of the Rust code against the specification's, modulo 256 *)
Lemma add_mod256 x a a' : a mod 256 = a' mod 256 -> (x + a) mod 256 = (x + a') mod 256.
Proof. intros H. rewrite (Z.add_mod x a), (Z.add_mod x a') by lia. rewrite H. reflexivity. Qed.

Lemma new_red_eq red green g2r : byte green -> byte g2r ->
  Z.land (red + ctd g2r green) 255 = (red + V.ColorTransformDelta g2r green) mod 256.
Proof.
  intros Hg Ht. rewrite land255'. apply add_mod256. rewrite ctd_mod, (mod256_small g2r), (mod256_small green) by assumption. reflexivity.
Qed.

Lemma new_blue_eq red green blue r2b g2b g2r : byte green -> byte r2b -> byte g2b ->
  Z.land (blue + ctd g2b green + ctd r2b (red + ctd g2r green)) 255 =
  (blue + V.ColorTransformDelta g2b green + V.ColorTransformDelta r2b (Z.land (red + ctd g2r green) 255)) mod 256.
Proof.
  intros Hg Hr Hb. rewrite !land255'.
  rewrite <- !Z.add_assoc. apply add_mod256.
  rewrite (Z.add_mod (ctd g2b green)), (Z.add_mod (V.ColorTransformDelta g2b green)) by lia.
  rewrite !ctd_mod. rewrite !(mod256_small green), (mod256_small r2b), (mod256_small g2b) by assumption.
  reflexivity.
Qed.

(* ------------------------------------------------------------------------------------------------ *)
(** * one pixel *)
Lemma q4_inverse_color_pixel e p :
  q4 (V.inverse_color_pixel e p) =
  (let nr := (V.RED p + V.ColorTransformDelta (V.BLUE e) (V.GREEN p)) mod 256 in
   (nr, V.GREEN p, (V.BLUE p + V.ColorTransformDelta (V.GREEN e) (V.GREEN p) + V.ColorTransformDelta (V.RED e) nr) mod 256, V.ALPHA p)).
Proof.
  unfold V.inverse_color_pixel, q4. cbv zeta.
  match goal with |- context [V.argb ?a ?r ?g ?b] =>
    destruct (argb_channels a r g b) as (E1 & E2 & E3 & E4); try apply ALPHA_byte; try apply GREEN_byte; try (unfold byte; lia) end.
  rewrite E1, E2, E3, E4. reflexivity.
Qed.

Lemma inverse_color_pixel_range e p : 0 <= V.inverse_color_pixel e p < 2 ^ 32.
Proof. unfold V.inverse_color_pixel. cbv zeta. apply argb_range; try apply ALPHA_byte; try apply GREEN_byte; unfold byte; lia. Qed.

Lemma color_pixel_cell img j e p : 0 <= j -> 4 * j + 4 <= zlen img -> cell img j = q4 p ->
  exists img', color_pixel img (4 * j) (V.RED e) (V.GREEN e) (V.BLUE e) = Ok img' /\ zlen img' = zlen img /\
    cell img' j = q4 (V.inverse_color_pixel e p) /\ (forall j', 0 <= j' -> j' <> j -> cell img' j' = cell img j').
Proof.
  intros Hj Hl Hc. apply pair4_inj in Hc. destruct Hc as (C0 & C1 & C2 & C3).
  unfold color_pixel. rewrite !zget_ok by lia. cbn [bind]. rewrite C0, C1, C2.
  pose proof (RED_byte p) as Br. pose proof (GREEN_byte p) as Bg. pose proof (BLUE_byte p) as Bb.
  pose proof (ctd_range (V.BLUE e) (V.GREEN p)) as R1. pose proof (ctd_range (V.GREEN e) (V.GREEN p)) as R2.
  pose proof (ctd_range (V.RED e) (V.RED p + ctd (V.BLUE e) (V.GREEN p))) as R3.
  unfold byte in Br, Bg, Bb. change (2 ^ 32) with 4294967296.
  replace ((4294967296 <=? V.RED p + ctd (V.BLUE e) (V.GREEN p)) ||
           (4294967296 <=? V.BLUE p + ctd (V.GREEN e) (V.GREEN p) + ctd (V.RED e) (V.RED p + ctd (V.BLUE e) (V.GREEN p)))) with false
    by (symmetry; apply orb_false_iff; split; apply Z.leb_gt; lia).
  rewrite new_blue_eq by (try apply GREEN_byte; apply RED_byte).
  rewrite new_red_eq by (try apply GREEN_byte; apply BLUE_byte).
  set (nr := (V.RED p + V.ColorTransformDelta (V.BLUE e) (V.GREEN p)) mod 256).
  set (nb := (V.BLUE p + V.ColorTransformDelta (V.GREEN e) (V.GREEN p) + V.ColorTransformDelta (V.RED e) nr) mod 256).
  destruct (zset_ok img (4 * j) nr ltac:(lia)) as (a1 & E1 & L1 & Z1). rewrite E1. cbn [bind].
  destruct (zset_ok a1 (4 * j + 2) nb ltac:(lia)) as (a2 & E2 & L2 & Z2). rewrite E2.
  exists a2. split; [reflexivity|]. split; [lia|].
  assert (G : forall k, 0 <= k -> az a2 k = if k =? 4 * j + 2 then nb else if k =? 4 * j then nr else az img k).
  { intros k Hk. rewrite Z2, Z1 by lia. reflexivity. }
  split.
  - rewrite q4_inverse_color_pixel. cbv zeta. fold nr. fold nb. unfold cell. rewrite !G by lia.
    replace (4 * j =? 4 * j + 2) with false by (symmetry; apply Z.eqb_neq; lia). rewrite Z.eqb_refl.
    replace (4 * j + 1 =? 4 * j + 2) with false by (symmetry; apply Z.eqb_neq; lia).
    replace (4 * j + 1 =? 4 * j) with false by (symmetry; apply Z.eqb_neq; lia). rewrite Z.eqb_refl.
    replace (4 * j + 3 =? 4 * j + 2) with false by (symmetry; apply Z.eqb_neq; lia).
    replace (4 * j + 3 =? 4 * j) with false by (symmetry; apply Z.eqb_neq; lia).
    rewrite C1, C3. reflexivity.
  - intros j' Hj' Hne. unfold cell. rewrite !G by lia.
    replace (4 * j' =? 4 * j + 2) with false by (symmetry; apply Z.eqb_neq; lia).
    replace (4 * j' =? 4 * j) with false by (symmetry; apply Z.eqb_neq; lia).
    replace (4 * j' + 1 =? 4 * j + 2) with false by (symmetry; apply Z.eqb_neq; lia).
    replace (4 * j' + 1 =? 4 * j) with false by (symmetry; apply Z.eqb_neq; lia).
    replace (4 * j' + 2 =? 4 * j + 2) with false by (symmetry; apply Z.eqb_neq; lia).
    replace (4 * j' + 2 =? 4 * j) with false by (symmetry; apply Z.eqb_neq; lia).
    replace (4 * j' + 3 =? 4 * j + 2) with false by (symmetry; apply Z.eqb_neq; lia).
    replace (4 * j' + 3 =? 4 * j) with false by (symmetry; apply Z.eqb_neq; lia). reflexivity.
Qed.

(* ------------------------------------------------------------------------------------------------ *)
(** * block arithmetic *)
Lemma pow2_bits bits : 0 <= bits <= 9 -> 1 <= 2 ^ bits <= 512.
Proof. intros H. split; [apply (Z.pow_le_mono_r 2 0 bits); lia | apply (Z.pow_le_mono_r 2 bits 9); lia]. Qed.

Lemma div_round_up_bounds n B : 0 <= n -> 1 <= B ->
  (V.DIV_ROUND_UP n B - 1) * B < n \/ n = 0 /\ V.DIV_ROUND_UP n B = 0.
Proof.
  intros Hn HB. unfold V.DIV_ROUND_UP. destruct (Z.eq_dec n 0) as [->|Hne].
  - right. split; [reflexivity|]. apply Z.div_small. lia.
  - left. pose proof (Z.div_mod (n + B - 1) B ltac:(lia)). pose proof (Z.mod_pos_bound (n + B - 1) B ltac:(lia)). nia.
Qed.

Lemma div_round_up_ge n B : 0 <= n -> 1 <= B -> n <= V.DIV_ROUND_UP n B * B.
Proof.
  intros Hn HB. unfold V.DIV_ROUND_UP.
  pose proof (Z.div_mod (n + B - 1) B ltac:(lia)). pose proof (Z.mod_pos_bound (n + B - 1) B ltac:(lia)). nia.
Qed.

(* an index below n lies in a block below DIV_ROUND_UP n B *)
Lemma block_lt n B y : 0 <= y < n -> 1 <= B -> 0 <= y / B < V.DIV_ROUND_UP n B.
Proof.
  intros Hy HB. split; [apply Z.div_pos; lia|].
  pose proof (div_round_up_ge n B ltac:(lia) HB). apply Z.div_lt_upper_bound; [lia|]. nia.
Qed.

Lemma block_index_lt w h B x y : 0 <= x < w -> 0 <= y < h -> 1 <= B ->
  0 <= y / B * V.DIV_ROUND_UP w B + x / B < V.DIV_ROUND_UP w B * V.DIV_ROUND_UP h B.
Proof.
  intros Hx Hy HB. pose proof (block_lt w B x Hx HB). pose proof (block_lt h B y Hy HB). nia.
Qed.

(* chunks_mut(4 << bits) of a row of 4 * w bytes: as many chunks as blocks *)
Lemma nblocks_eq w B : 0 <= w -> 1 <= B -> (w * 4 + 4 * B - 1) / (4 * B) = V.DIV_ROUND_UP w B.
Proof.
  intros Hw HB. unfold V.DIV_ROUND_UP. symmetry.
  pose proof (Z.div_mod (w + B - 1) B ltac:(lia)). pose proof (Z.mod_pos_bound (w + B - 1) B ltac:(lia)).
  apply (Z.div_unique _ _ _ (4 * ((w + B - 1) mod B) + 3)); lia.
Qed.

(* ------------------------------------------------------------------------------------------------ *)
(** * the specification side, pointwise *)
Lemma inverse_color_transform_spec w h bits el img : 0 < w -> 0 <= h ->
  let out := V.inverse_color_transform w h bits el img in
  alen out = alen img /\
  (forall x y, 0 <= x < w -> 0 <= y < h ->
     V.pix out (y * w + x) =
     V.inverse_color_pixel (V.pix el (Z.shiftr y bits * V.DIV_ROUND_UP w (2 ^ bits) + Z.shiftr x bits)) (V.pix img (y * w + x))).
Proof.
  intros Hw Hh.
  pose proof (scan2d_spec w h (fun x y v _ =>
     V.inverse_color_pixel (V.pix el (Z.shiftr y bits * V.DIV_ROUND_UP w (2 ^ bits) + Z.shiftr x bits)) v) img Hw Hh) as H.
  cbv beta zeta in H. destruct H as (Ha & Hp & _); [reflexivity|]. split; [exact Ha | exact Hp].
Qed.

(* ------------------------------------------------------------------------------------------------ *)
(** * the transform *)
Section ColorTransform.
  Variables (bytes px tdata el : arr) (w h bits nel : Z).
  Hypothesis Hw : 1 <= w <= 16384.
  Hypothesis Hh : 0 <= h.
  Hypothesis Hbits : 0 <= bits <= 9.
  Hypothesis Hrepr : repr bytes px (w * h).
  Hypothesis Hlen : zlen bytes = 4 * (w * h).
  Hypothesis Hel : repr tdata el nel.
  Hypothesis Hnel : V.DIV_ROUND_UP w (2 ^ bits) * V.DIV_ROUND_UP h (2 ^ bits) <= nel.

  Let B := 2 ^ bits.
  Let bxs := V.DIV_ROUND_UP w B.
  Let out := V.inverse_color_transform w h bits el px.

  (* pixels before i are transformed, the others untouched *)
  Definition cinv (i : Z) (cur : arr) : Prop :=
    zlen cur = zlen bytes /\ forall j, 0 <= j < w * h -> cell cur j = q4 (if j <? i then V.pix out j else V.pix px j).

  Lemma HB : 1 <= B <= 512.
  Proof. apply pow2_bits. exact Hbits. Qed.

  Lemma bxs_pos : 1 <= bxs.
  Proof.
    pose proof HB. unfold bxs. destruct (div_round_up_bounds w B ltac:(lia) ltac:(lia)) as [H1 | [H1 _]]; [|lia].
    pose proof (div_round_up_ge w B ltac:(lia) ltac:(lia)). nia.
  Qed.

  Lemma cinv_step x y cur : 0 <= x < w -> 0 <= y < h -> cinv (y * w + x) cur ->
    exists cur', color_pixel cur (4 * (y * w + x))
                   (V.RED (V.pix el (y / B * bxs + x / B))) (V.GREEN (V.pix el (y / B * bxs + x / B)))
                   (V.BLUE (V.pix el (y / B * bxs + x / B))) = Ok cur' /\ cinv (y * w + x + 1) cur'.
  Proof.
    intros Hx Hy (Hl & Hc). pose proof (idx_range w h x y Hx Hy) as Hi. set (i := y * w + x) in *.
    pose proof (Hc i Hi) as Hci. replace (i <? i) with false in Hci by (symmetry; apply Z.ltb_ge; lia).
    destruct (color_pixel_cell cur i (V.pix el (y / B * bxs + x / B)) (V.pix px i) ltac:(lia) ltac:(lia) Hci)
      as (cur' & E & L & C1 & C2).
    exists cur'. split; [exact E|]. split; [lia|]. intros j Hj.
    destruct (Z.eq_dec j i) as [->|Hne].
    - replace (i <? i + 1) with true by (symmetry; apply Z.ltb_lt; lia). rewrite C1. f_equal.
      destruct (inverse_color_transform_spec w h bits el px ltac:(lia) Hh) as (_ & Hp).
      unfold out, i. rewrite (Hp x y Hx Hy). pose proof HB. rewrite !Z.shiftr_div_pow2 by lia. reflexivity.
    - rewrite C2 by lia. rewrite (Hc j Hj). f_equal.
      destruct (Z.ltb_spec j i); destruct (Z.ltb_spec j (i + 1)); try reflexivity; lia.
  Qed.

  Theorem color_transform_refines :
    exists bytes', apply_color_transform bytes w bits tdata = Ok bytes' /\ zlen bytes' = zlen bytes /\
                   repr bytes' (V.inverse_color_transform w h bits el px) (w * h).
  Proof.
    pose proof HB as HB'. pose proof bxs_pos as Hbx.
    unfold apply_color_transform. rewrite subsample_ok by lia. cbn [bind]. fold B. change ((w + B - 1) / B) with bxs.
    replace (w * 4 =? 0) with false by (symmetry; apply Z.eqb_neq; lia).
    replace (zlen bytes / (w * 4)) with h by (rewrite Hlen; apply (Z.div_unique _ _ _ 0); lia).
    rewrite Z.shiftl_mul_pow2 by lia. fold B.
    rewrite nblocks_eq by lia. fold bxs.
    pose proof (repr_len _ _ _ Hel) as Htl.
    destruct (for_range_inv (fun y cur => cinv (y * w) cur)
       (fun y img => for_range 0 bxs (fun block_x img0 =>
          bind (zget tdata ((Z.shiftr y bits * bxs + block_x) * 4)) (fun red_to_blue =>
          bind (zget tdata ((Z.shiftr y bits * bxs + block_x) * 4 + 1)) (fun green_to_blue =>
          bind (zget tdata ((Z.shiftr y bits * bxs + block_x) * 4 + 2)) (fun green_to_red =>
          for_loop (Z.to_nat (Z.min (4 * B) (w * 4 - block_x * (4 * B)) / 4)) (y * (w * 4) + block_x * (4 * B)) 4
            (fun pos img1 => color_pixel img1 pos red_to_blue green_to_blue green_to_red) img0)))) img) 0 h bytes Hh)
      as (b' & E & Hl' & Hc').
    - split; [reflexivity|]. intros j Hj. replace (j <? 0 * w) with false by (symmetry; apply Z.ltb_ge; lia).
      apply (repr_cell _ _ _ _ Hrepr Hj).
    - intros y cur Hy Hcur.
      destruct (for_range_inv (fun bx cur0 => cinv (y * w + Z.min (bx * B) w) cur0)
         (fun block_x img0 =>
          bind (zget tdata ((Z.shiftr y bits * bxs + block_x) * 4)) (fun red_to_blue =>
          bind (zget tdata ((Z.shiftr y bits * bxs + block_x) * 4 + 1)) (fun green_to_blue =>
          bind (zget tdata ((Z.shiftr y bits * bxs + block_x) * 4 + 2)) (fun green_to_red =>
          for_loop (Z.to_nat (Z.min (4 * B) (w * 4 - block_x * (4 * B)) / 4)) (y * (w * 4) + block_x * (4 * B)) 4
            (fun pos img1 => color_pixel img1 pos red_to_blue green_to_blue green_to_red) img0)))) 0 bxs cur ltac:(lia))
        as (cur' & E' & Hcur').
      + replace (y * w + Z.min (0 * B) w) with (y * w) by lia. exact Hcur.
      + intros bx cur0 Hbx0 Hcur0.
        (* the block is not empty: bx * B < w *)
        assert (HbxB : bx * B < w).
        { destruct (div_round_up_bounds w B ltac:(lia) ltac:(lia)) as [H1 | [H1 _]]; [fold bxs in H1; nia | lia]. }
        assert (Hbi : 0 <= Z.shiftr y bits * bxs + bx < nel).
        { rewrite Z.shiftr_div_pow2 by lia. fold B. pose proof (block_lt h B y Hy ltac:(lia)) as Hyb.
          unfold bxs in *. fold B in Hnel. nia. }
        set (bi := Z.shiftr y bits * bxs + bx) in *.
        rewrite !zget_ok by lia. cbn [bind].
        replace (bi * 4) with (4 * bi) by lia.
        destruct (repr_az4 _ _ _ _ Hel Hbi) as (T0 & T1 & T2 & _). rewrite T0, T1, T2.
        set (cnt := Z.min B (w - bx * B)).
        replace (Z.min (4 * B) (w * 4 - bx * (4 * B)) / 4) with cnt by (unfold cnt; lia).
        replace (y * (w * 4) + bx * (4 * B)) with (4 * (y * w + bx * B)) by lia.
        destruct (for_loop4_inv cinv (fun pos img1 => color_pixel img1 pos (V.RED (V.pix el bi)) (V.GREEN (V.pix el bi)) (V.BLUE (V.pix el bi)))
                    (Z.to_nat cnt) (y * w + bx * B) cur0) as (c' & Ec & Hc).
        * replace (Z.min (bx * B) w) with (bx * B) in Hcur0 by lia. exact Hcur0.
        * intros j c0 Hj Hc0. rewrite Z2Nat.id in Hj by (unfold cnt; lia).
          set (x := j - y * w). assert (Hx : bx * B <= x < bx * B + cnt) by (unfold x; lia).
          assert (Hxw : 0 <= x < w) by (unfold cnt in Hx; nia).
          replace j with (y * w + x) in * by (unfold x; lia).
          assert (Exb : x / B = bx) by (symmetry; apply (Z.div_unique _ _ _ (x - bx * B)); unfold cnt in Hx; lia).
          assert (Eyb : y / B = Z.shiftr y bits) by (rewrite Z.shiftr_div_pow2 by lia; reflexivity).
          pose proof (cinv_step x y c0 Hxw Hy Hc0) as Hs. rewrite Exb, Eyb in Hs. fold bi in Hs. exact Hs.
        * exists c'. split; [exact Ec|]. rewrite Z2Nat.id in Hc by (unfold cnt; lia).
          replace (y * w + Z.min ((bx + 1) * B) w) with (y * w + bx * B + cnt) by (unfold cnt; lia). exact Hc.
      + exists cur'. split; [exact E'|].
        replace (y * w + Z.min (bxs * B) w) with ((y + 1) * w) in Hcur'; [exact Hcur'|].
        pose proof (div_round_up_ge w B ltac:(lia) ltac:(lia)) as Hge. fold bxs in Hge. lia.
    - exists b'. split; [exact E|]. split; [exact Hl'|].
      destruct (inverse_color_transform_spec w h bits el px ltac:(lia) Hh) as (Ha & Hp).
      apply repr_intro; [lia | fold out in Ha; unfold out in *; rewrite Ha; apply (repr_alen _ _ _ Hrepr) |].
      intros i Hi. split.
      + rewrite (Hc' i Hi). replace (i <? h * w) with true by (symmetry; apply Z.ltb_lt; lia). reflexivity.
      + destruct (idx_decomp w h i ltac:(lia) Hi) as (x & y & Hx & Hy & ->). rewrite (Hp x y Hx Hy).
        apply inverse_color_pixel_range.
  Qed.
End ColorTransform.

Corollary color_transform_no_panic bytes px tdata el w h bits nel :
  1 <= w <= 16384 -> 0 <= h -> 0 <= bits <= 9 -> repr bytes px (w * h) -> zlen bytes = 4 * (w * h) -> repr tdata el nel ->
  V.DIV_ROUND_UP w (2 ^ bits) * V.DIV_ROUND_UP h (2 ^ bits) <= nel ->
  forall p, apply_color_transform bytes w bits tdata <> Panic p.
Proof.
  intros Hw Hh Hb Hr Hl He Hn p.
  destruct (color_transform_refines bytes px tdata el w h bits nel Hw Hh Hb Hr Hl He Hn) as (b' & E & _). rewrite E. discriminate.
Qed.

(* the hypotheses are satisfiable: 3 x 1 image, one block, element (red_to_blue, green_to_blue, green_to_red) = (2, 250, 96) *)
Example color_transform_example :
  let bytes := of_list [10; 200; 30; 255; 1; 2; 3; 4; 0; 129; 0; 7] in
  let px := of_list [V.argb 255 10 200 30; V.argb 4 1 2 3; V.argb 7 0 129 0] in
  let tdata := of_list [2; 250; 96; 255] in
  let el := of_list [V.argb 255 2 250 96] in
  match apply_color_transform bytes 3 2 tdata with
  | Ok b' => map q4 (V.pixel_list (V.inverse_color_transform 3 1 2 el px)) =
             [cell b' 0; cell b' 1; cell b' 2]
  | _ => False
  end.
Proof. vm_compute. reflexivity. Qed.
