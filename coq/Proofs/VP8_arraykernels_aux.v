(* Proofs/VP8_arraykernels_aux.v -- the two 4x4 transforms of src/transform.rs, as translated into Gen.Kernels
   (`iwht4x4`, `idct4x4`: 16 scalar cells in, list of 16 out, `_ok` = no checked-arithmetic panic), equal
   Spec.VP8.iwht / Spec.VP8.idct (libwebp TransformWHT_C / TransformOne_C).  Also the small tactics shared with
   VP8_arraykernels.v (`split_ok`, `leaf_ok`, `within`).

   iwht4x4_eq        value equality, all integers (checked i32 arithmetic is exact when it does not panic)
   iwht4x4_ok_true   no overflow for |x| <= 2^27 - 1 (sharp: iwht4x4_bound_tight)
   idct4x4_eq        value equality for |x| <= 2^29 (i64 arithmetic, `as i32` after each pass; sharp up to a
                     factor 1.04: idct4x4_bound_tight), including Spec.idct's all-zero shortcut (spec_idct_full)
   idct4x4_ok_true   the i64 range checks for |x| <= 2^29 *)
From Coq Require Import ZArith NArith Lia List Bool.
From WebP Require Import Lib.Arr Lib.Sweep Lib.ZBits Gen.Kernels Spec.VP8 Proofs.VP8_kernels.
Import ListNotations.
Open Scope Z_scope.
Ltac Zify.zify_post_hook ::= Z.div_mod_to_equations.

(* split a translator `_ok` conjunction syntactically (never unfolds [inr]) *)
Ltac split_ok :=
  repeat match goal with |- (_ && _) = true => apply andb_true_intro; split end.
Ltac leaf_ok :=
  first [ reflexivity | apply inr_true; lia | apply Z.leb_le; lia | apply Z.ltb_lt; lia ].

Lemma shiftr3 x : Z.shiftr x 3 = x / 8.
Proof. rewrite Z.shiftr_div_pow2 by lia. reflexivity. Qed.
Lemma shiftr16 x : Z.shiftr x 16 = x / 65536.
Proof. rewrite Z.shiftr_div_pow2 by lia. reflexivity. Qed.

Definition within (B x : Z) : Prop := - B <= x <= B.
Definition wht_bound : Z := 134217727.

Theorem iwht4x4_eq b0 b1 b2 b3 b4 b5 b6 b7 b8 b9 b10 b11 b12 b13 b14 b15 :
  iwht4x4 b0 b1 b2 b3 b4 b5 b6 b7 b8 b9 b10 b11 b12 b13 b14 b15
  = fst (Spec.VP8.iwht [b0; b1; b2; b3; b4; b5; b6; b7; b8; b9; b10; b11; b12; b13; b14; b15]).
Proof.
  cbv beta iota zeta delta [iwht4x4 Spec.VP8.iwht fst app].
  repeat (apply (f_equal2 (@cons Z)); [apply (f_equal (fun z => Z.shiftr z 3)); ring|]). reflexivity.
Qed.

Theorem iwht4x4_ok_true b0 b1 b2 b3 b4 b5 b6 b7 b8 b9 b10 b11 b12 b13 b14 b15 :
  within wht_bound b0 -> within wht_bound b1 -> within wht_bound b2 -> within wht_bound b3 ->
  within wht_bound b4 -> within wht_bound b5 -> within wht_bound b6 -> within wht_bound b7 ->
  within wht_bound b8 -> within wht_bound b9 -> within wht_bound b10 -> within wht_bound b11 ->
  within wht_bound b12 -> within wht_bound b13 -> within wht_bound b14 -> within wht_bound b15 ->
  iwht4x4_ok b0 b1 b2 b3 b4 b5 b6 b7 b8 b9 b10 b11 b12 b13 b14 b15 = true.
Proof.
  unfold wht_bound, within. intros.
  cbv beta zeta delta [iwht4x4_ok].
  split_ok; leaf_ok.
Qed.

(* ---------------------------------------------------------------------------------------------------------- *)
(* 2. inverse DCT                                                                                               *)
(* ---------------------------------------------------------------------------------------------------------- *)
Definition Z4 : Type := (Z * Z * Z * Z)%type.

(* the two passes of transform.rs::idct4x4 as the translator emits them (i64 arithmetic, `as i32` = wrapS 32) *)
Definition g_col (x0 x4 x8 x12 : Z) : Z4 :=
  let a1 := x0 + x8 in let b1 := x0 - x8 in
  let c1 := Z.shiftr (x4 * 35468) 16 - (x12 + Z.shiftr (x12 * 20091) 16) in
  let d1 := (x4 + Z.shiftr (x4 * 20091) 16) + Z.shiftr (x12 * 35468) 16 in
  (wrapS 32 (a1 + d1), wrapS 32 (b1 + c1), wrapS 32 (b1 - c1), wrapS 32 (a1 - d1)).
Definition g_row (x0 x1 x2 x3 : Z) : list Z :=
  let a1 := x0 + x2 in let b1 := x0 - x2 in
  let c1 := Z.shiftr (x1 * 35468) 16 - (x3 + Z.shiftr (x3 * 20091) 16) in
  let d1 := (x1 + Z.shiftr (x1 * 20091) 16) + Z.shiftr (x3 * 35468) 16 in
  [wrapS 32 (Z.shiftr (a1 + d1 + 4) 3); wrapS 32 (Z.shiftr (b1 + c1 + 4) 3);
   wrapS 32 (Z.shiftr (b1 - c1 + 4) 3); wrapS 32 (Z.shiftr (a1 - d1 + 4) 3)].
Definition rows_of (row : Z -> Z -> Z -> Z -> list Z) (c0 c1 c2 c3 : Z4) : list Z :=
  let '(t0, t1, t2, t3) := c0 in let '(t4, t5, t6, t7) := c1 in
  let '(t8, t9, t10, t11) := c2 in let '(t12, t13, t14, t15) := c3 in
  row t0 t4 t8 t12 ++ row t1 t5 t9 t13 ++ row t2 t6 t10 t14 ++ row t3 t7 t11 t15.

(* the two passes of Spec.VP8.idct (libwebp TransformOne_C) *)
Definition s_col (x0 x4 x8 x12 : Z) : Z4 :=
  let a := x0 + x8 in let b := x0 - x8 in
  let c := mul2 x4 - mul1 x12 in let d := mul1 x4 + mul2 x12 in
  (a + d, b + c, b - c, a - d).
Definition s_row (x0 x4 x8 x12 : Z) : list Z :=
  let dc := x0 + 4 in
  let a := dc + x8 in let b := dc - x8 in
  let c := mul2 x4 - mul1 x12 in let d := mul1 x4 + mul2 x12 in
  [Z.shiftr (a + d) 3; Z.shiftr (b + c) 3; Z.shiftr (b - c) 3; Z.shiftr (a - d) 3].

(* Spec.idct without its all-zero shortcut *)
Definition idct_full (b0 b1 b2 b3 b4 b5 b6 b7 b8 b9 b10 b11 b12 b13 b14 b15 : Z) : list Z :=
  rows_of s_row (s_col b0 b4 b8 b12) (s_col b1 b5 b9 b13) (s_col b2 b6 b10 b14) (s_col b3 b7 b11 b15).

Lemma idct4x4_struct b0 b1 b2 b3 b4 b5 b6 b7 b8 b9 b10 b11 b12 b13 b14 b15 :
  idct4x4 b0 b1 b2 b3 b4 b5 b6 b7 b8 b9 b10 b11 b12 b13 b14 b15
  = rows_of g_row (g_col b0 b4 b8 b12) (g_col b1 b5 b9 b13) (g_col b2 b6 b10 b14) (g_col b3 b7 b11 b15).
Proof. cbv beta iota zeta delta [idct4x4 rows_of g_row g_col app]. reflexivity. Qed.

(* the shortcut of Spec.idct is sound: the full transform of the zero block is the zero block *)
Lemma spec_idct_full b0 b1 b2 b3 b4 b5 b6 b7 b8 b9 b10 b11 b12 b13 b14 b15 :
  fst (Spec.VP8.idct [b0; b1; b2; b3; b4; b5; b6; b7; b8; b9; b10; b11; b12; b13; b14; b15])
  = idct_full b0 b1 b2 b3 b4 b5 b6 b7 b8 b9 b10 b11 b12 b13 b14 b15.
Proof.
  unfold Spec.VP8.idct.
  destruct (forallb (fun c => c =? 0) [b0; b1; b2; b3; b4; b5; b6; b7; b8; b9; b10; b11; b12; b13; b14; b15]) eqn:Hz.
  - cbn [forallb] in Hz. rewrite !andb_true_iff, !Z.eqb_eq in Hz.
    destruct Hz as (-> & -> & -> & -> & -> & -> & -> & -> & -> & -> & -> & -> & -> & -> & -> & -> & _).
    vm_compute. reflexivity.
  - cbv beta iota zeta delta [fst idct_full rows_of s_row s_col app]. reflexivity.
Qed.

Definition dct_bound : Z := 536870912.          (* 2^29 *)
Definition i32max : Z := 2147483647.

Lemma wrapS32_small x : -2147483648 <= x <= 2147483647 -> wrapS 32 x = x.
Proof.
  intros H. unfold wrapS. change (2 ^ (32 - 1)) with 2147483648. change (2 ^ 32) with 4294967296.
  rewrite Z.mod_small by lia. lia.
Qed.

Lemma wrapS32_range x : -2147483648 <= wrapS 32 x <= 2147483647.
Proof.
  unfold wrapS. change (2 ^ (32 - 1)) with 2147483648. change (2 ^ 32) with 4294967296.
  pose proof (Z.mod_pos_bound (x + 2147483648) 4294967296 eq_refl). lia.
Qed.

Definition within4 (B : Z) (c : Z4) : Prop :=
  let '(a, b, c, d) := c in within B a /\ within B b /\ within B c /\ within B d.

Lemma g_col_spec x0 x4 x8 x12 :
  within dct_bound x0 -> within dct_bound x4 -> within dct_bound x8 -> within dct_bound x12 ->
  g_col x0 x4 x8 x12 = s_col x0 x4 x8 x12 /\ within4 i32max (s_col x0 x4 x8 x12).
Proof.
  unfold within, dct_bound, i32max. intros H0 H4 H8 H12.
  unfold g_col, s_col, within4, mul1, mul2. cbv zeta. rewrite !shiftr16.
  rewrite !wrapS32_small by lia. split.
  - repeat (apply (f_equal2 (@pair _ _))); lia.
  - unfold within. lia.
Qed.

Lemma g_row_spec x0 x1 x2 x3 :
  within i32max x0 -> within i32max x1 -> within i32max x2 -> within i32max x3 ->
  g_row x0 x1 x2 x3 = s_row x0 x1 x2 x3.
Proof.
  unfold within, i32max. intros H0 H1 H2 H3.
  unfold g_row, s_row, mul1, mul2. cbv zeta. rewrite !shiftr16, !shiftr3.
  rewrite !wrapS32_small by lia.
  repeat (apply (f_equal2 (@cons Z)); [apply (f_equal (fun z => z / 8)); lia|]). reflexivity.
Qed.

Theorem idct4x4_eq b0 b1 b2 b3 b4 b5 b6 b7 b8 b9 b10 b11 b12 b13 b14 b15 :
  within dct_bound b0 -> within dct_bound b1 -> within dct_bound b2 -> within dct_bound b3 ->
  within dct_bound b4 -> within dct_bound b5 -> within dct_bound b6 -> within dct_bound b7 ->
  within dct_bound b8 -> within dct_bound b9 -> within dct_bound b10 -> within dct_bound b11 ->
  within dct_bound b12 -> within dct_bound b13 -> within dct_bound b14 -> within dct_bound b15 ->
  idct4x4 b0 b1 b2 b3 b4 b5 b6 b7 b8 b9 b10 b11 b12 b13 b14 b15
  = fst (Spec.VP8.idct [b0; b1; b2; b3; b4; b5; b6; b7; b8; b9; b10; b11; b12; b13; b14; b15]).
Proof.
  intros H0 H1 H2 H3 H4 H5 H6 H7 H8 H9 H10 H11 H12 H13 H14 H15.
  rewrite spec_idct_full, idct4x4_struct. unfold idct_full.
  destruct (g_col_spec b0 b4 b8 b12 H0 H4 H8 H12) as [-> W0].
  destruct (g_col_spec b1 b5 b9 b13 H1 H5 H9 H13) as [-> W1].
  destruct (g_col_spec b2 b6 b10 b14 H2 H6 H10 H14) as [-> W2].
  destruct (g_col_spec b3 b7 b11 b15 H3 H7 H11 H15) as [-> W3].
  destruct (s_col b0 b4 b8 b12) as [[[t0 t1] t2] t3].
  destruct (s_col b1 b5 b9 b13) as [[[t4 t5] t6] t7].
  destruct (s_col b2 b6 b10 b14) as [[[t8 t9] t10] t11].
  destruct (s_col b3 b7 b11 b15) as [[[t12 t13] t14] t15].
  destruct W0 as (? & ? & ? & ?). destruct W1 as (? & ? & ? & ?).
  destruct W2 as (? & ? & ? & ?). destruct W3 as (? & ? & ? & ?).
  unfold rows_of. rewrite !g_row_spec by assumption. reflexivity.
Qed.

(* replace every `wrapS 32 e` of the goal by a fresh variable known to be an i32 *)
Ltac gen_wrapS :=
  repeat match goal with
  | |- context [wrapS 32 ?e] =>
    let w := fresh "w" in let Hw := fresh "Hw" in
    pose proof (wrapS32_range e) as Hw; set (w := wrapS 32 e) in *; clearbody w
  end.

Theorem idct4x4_ok_true b0 b1 b2 b3 b4 b5 b6 b7 b8 b9 b10 b11 b12 b13 b14 b15 :
  within dct_bound b0 -> within dct_bound b1 -> within dct_bound b2 -> within dct_bound b3 ->
  within dct_bound b4 -> within dct_bound b5 -> within dct_bound b6 -> within dct_bound b7 ->
  within dct_bound b8 -> within dct_bound b9 -> within dct_bound b10 -> within dct_bound b11 ->
  within dct_bound b12 -> within dct_bound b13 -> within dct_bound b14 -> within dct_bound b15 ->
  idct4x4_ok b0 b1 b2 b3 b4 b5 b6 b7 b8 b9 b10 b11 b12 b13 b14 b15 = true.
Proof.
  unfold within, dct_bound.
  intros H0 H1 H2 H3 H4 H5 H6 H7 H8 H9 H10 H11 H12 H13 H14 H15.
  cbv beta zeta delta [idct4x4_ok].
  gen_wrapS. rewrite ?shiftr16, ?shiftr3.
  split_ok; try reflexivity; apply inr_true; lia.
Qed.

(* ---------------------------------------------------------------------------------------------------------- *)
(* the bounds are sharp                                                                                         *)
(* ---------------------------------------------------------------------------------------------------------- *)
(* iwht: wht_bound = 2^27 - 1 is the largest uniform bound: with 2^27 everywhere a2 + 3 = 2^31 + 3 overflows i32 *)
Example iwht4x4_bound_tight :
  let b := wht_bound + 1 in iwht4x4_ok b b b b b b b b b b b b b b b b = false.
Proof. vm_compute. reflexivity. Qed.
Example iwht4x4_ok_ex :
  let b := wht_bound in iwht4x4_ok b (-b) b b b b b (-b) b b b b b b b b = true.
Proof. vm_compute. reflexivity. Qed.

(* idct: the first-pass cast wraps as soon as (2 + 1.30657 + 0.54120) * |x| reaches 2^31, i.e. |x| about 5.581e8 =
   1.04 * 2^29; 2^29 is the largest power of two that is safe, and at 5.6e8 the kernel differs from the Spec *)
Example idct4x4_bound_tight :
  let b := 560000000 in
  idct4x4 b 0 0 0 b 0 0 0 b 0 0 0 b 0 0 0 <> fst (Spec.VP8.idct [b; 0; 0; 0; b; 0; 0; 0; b; 0; 0; 0; b; 0; 0; 0]).
Proof. vm_compute. intros H. discriminate H. Qed.
Example idct4x4_ex :
  let b := dct_bound in
  idct4x4 b 0 0 0 b 0 0 0 b 0 0 0 b 0 0 0 = fst (Spec.VP8.idct [b; 0; 0; 0; b; 0; 0; 0; b; 0; 0; 0; b; 0; 0; 0])
  /\ idct4x4_ok b (-b) b b b b b b b b (-b) b b b b b = true.
Proof. vm_compute. split; reflexivity. Qed.
