(* C04 support for the composition: the flat RGBA buffer of encode_frame seen as a list of pixels -- expansion of the
   four colour types, subtract-green and the predictor on pixels, and the channel facts the single-symbol codes rely on
   (grey: red = blue = 0 after subtract-green; no alpha: alpha = 255, or 0 after the predictor). *)
From Coq Require Import ZArith NArith List Bool Lia.
From WebP Require Import Lib.Res Lib.Arr Lib.ZBits Gen.Kernels Model.EncoderHeap Model.Encoder
  Proofs.Huffman_lists Proofs.C04_bits Proofs.C04_arr Proofs.C04_transforms Proofs.C04_predictor.
Import ListNotations.
Open Scope Z_scope.

Definition byte_ok (x : Z) : Prop := 0 <= x < 256.
Definition dpx : pixel := (0, 0, 0, 0).

(* induction four elements at a time *)
Lemma list4_ind (P : list Z -> Prop) :
  P [] -> (forall a, P [a]) -> (forall a b, P [a; b]) -> (forall a b c, P [a; b; c]) ->
  (forall a b c d tl, P tl -> P (a :: b :: c :: d :: tl)) -> forall l, P l.
Proof.
  intros H0 H1 H2 H3 H4 l.
  assert (G : forall n l, (length l <= n)%nat -> P l).
  { induction n as [|n IH]; intros l0 Hl.
    - destruct l0; [exact H0 | cbn in Hl; lia].
    - destruct l0 as [|a [|b [|c [|d tl]]]]; auto. apply H4. apply IH. cbn [length] in Hl. lia. }
  apply (G (length l)). lia.
Qed.

Lemma to_pixels_length l : length (to_pixels l) = (length l / 4)%nat.
Proof.
  induction l as [| | | |a b c d tl IH] using list4_ind; try reflexivity.
  cbn [to_pixels length]. rewrite IH. change (S (S (S (S (length tl))))) with (4 + length tl)%nat.
  replace (4 + length tl)%nat with (length tl + 1 * 4)%nat by lia. rewrite Nat.div_add by lia. lia.
Qed.

Lemma to_pixels_nth l : forall i, (4 * i + 3 < length l)%nat ->
  nth i (to_pixels l) dpx = (nth (4 * i) l 0, nth (4 * i + 1) l 0, nth (4 * i + 2) l 0, nth (4 * i + 3) l 0).
Proof.
  induction l as [| | | |a b c d tl IH] using list4_ind; intros i Hi; cbn [length] in Hi; try lia.
  destruct i as [|i]; [reflexivity|]. cbn [to_pixels nth].
  rewrite IH by lia.
  replace (4 * S i)%nat with (S (S (S (S (4 * i))))) by lia. cbn [nth Nat.add]. reflexivity.
Qed.

Lemma to_pixels_bytes l : Forall byte_ok l -> Forall pxbytes (to_pixels l).
Proof.
  induction l as [| | | |a b c d tl IH] using list4_ind; intros H; cbn [to_pixels]; try constructor.
  - inversion H as [|? ? Ha H1]; subst. inversion H1 as [|? ? Hb H2]; subst. inversion H2 as [|? ? Hc H3]; subst.
    inversion H3 as [|? ? Hd H4']; subst. unfold pxbytes, byte_ok in *. auto.
  - apply IH. inversion H as [|? ? _ H1]; subst. inversion H1 as [|? ? _ H2]; subst. inversion H2 as [|? ? _ H3]; subst.
    inversion H3; subst. assumption.
Qed.

(* ------------------------------------------------------------------------------------------------ *)
(** * expansion of the colour types *)
Lemma expand_facts ct : forall n data, length data = (Z.to_nat (bytes_per_pixel ct) * n)%nat -> Forall byte_ok data ->
  length (expand ct data) = (4 * n)%nat /\ Forall byte_ok (expand ct data)
  /\ (is_color ct = false -> Forall (fun p : pixel => let '(r, g, b, a) := p in r = g /\ b = g) (to_pixels (expand ct data)))
  /\ (is_alpha ct = false -> Forall (fun p : pixel => let '(r, g, b, a) := p in a = 255) (to_pixels (expand ct data))).
Proof.
  assert (B255 : byte_ok 255) by (unfold byte_ok; lia).
  destruct ct; cbn [bytes_per_pixel is_color is_alpha].
  - change (Z.to_nat 1) with 1%nat. induction n as [|n IH]; intros data Hl Hb.
    + destruct data; [|cbn in Hl; lia]. cbn. repeat split; constructor.
    + destruct data as [|p tl]; [cbn in Hl; lia|]. cbn [length] in Hl. inversion Hb as [|? ? Hp Hb']; subst.
      destruct (IH tl ltac:(lia) Hb') as [I1 [I2 [I3 I4]]]. cbn [expand to_pixels length].
      split; [rewrite I1; lia|]. split; [repeat (apply Forall_cons; [assumption|]); exact I2|].
      split; intros _; constructor; auto.
  - change (Z.to_nat 2) with 2%nat. induction n as [|n IH]; intros data Hl Hb.
    + destruct data; [|cbn in Hl; lia]. cbn. repeat split; try constructor; try (intros; discriminate).
    + destruct data as [|p0 [|p1 tl]]; cbn [length] in Hl; try lia. inversion Hb as [|? ? Hp0 Hb1]; subst. inversion Hb1 as [|? ? Hp1 Hb']; subst.
      destruct (IH tl ltac:(lia) Hb') as [I1 [I2 [I3 I4]]]. cbn [expand to_pixels length].
      split; [rewrite I1; lia|]. split; [repeat (apply Forall_cons; [assumption|]); exact I2|].
      split; [intros _; constructor; auto | intros H; discriminate].
  - change (Z.to_nat 3) with 3%nat. induction n as [|n IH]; intros data Hl Hb.
    + destruct data; [|cbn in Hl; lia]. cbn. repeat split; try constructor; try (intros; discriminate).
    + destruct data as [|p0 [|p1 [|p2 tl]]]; cbn [length] in Hl; try lia.
      inversion Hb as [|? ? Hp0 Hb1]; subst. inversion Hb1 as [|? ? Hp1 Hb2]; subst. inversion Hb2 as [|? ? Hp2 Hb']; subst.
      destruct (IH tl ltac:(lia) Hb') as [I1 [I2 [I3 I4]]]. cbn [expand to_pixels length].
      split; [rewrite I1; lia|]. split; [repeat (apply Forall_cons; [assumption|]); exact I2|].
      split; [intros H; discriminate | intros _; constructor; auto].
  - change (Z.to_nat 4) with 4%nat. intros n data Hl Hb. replace (expand Rgba8 data) with data by (destruct data; reflexivity). split; [exact Hl|]. split; [exact Hb|].
    split; intros H; discriminate.
Qed.

(* ------------------------------------------------------------------------------------------------ *)
(** * subtract green on pixels *)
Definition sg_px (p : pixel) : pixel := let '(r, g, b, a) := p in (sub8 r g, g, sub8 b g, a).

Lemma to_pixels_subtract_green l : to_pixels (subtract_green l) = map sg_px (to_pixels l).
Proof. induction l as [| | | |a b c d tl IH] using list4_ind; try reflexivity. cbn [subtract_green to_pixels map sg_px]. rewrite IH. reflexivity. Qed.

Lemma subtract_green_length l : length (subtract_green l) = length l.
Proof. induction l as [| | | |a b c d tl IH] using list4_ind; try reflexivity. cbn [subtract_green length]. rewrite IH. reflexivity. Qed.

Lemma subtract_green_bytes' l : Forall byte_ok l -> Forall byte_ok (subtract_green l).
Proof.
  induction l as [| | | |a b c d tl IH] using list4_ind; intros H; cbn [subtract_green]; try exact H.
  inversion H as [|? ? Ha H1]; subst. inversion H1 as [|? ? Hb H2]; subst. inversion H2 as [|? ? Hc H3]; subst.
  inversion H3 as [|? ? Hd H4]; subst.
  apply Forall_cons; [apply sub8_range|]. apply Forall_cons; [exact Hb|]. apply Forall_cons; [apply sub8_range|].
  apply Forall_cons; [exact Hd|]. apply IH. exact H4.
Qed.

(* ------------------------------------------------------------------------------------------------ *)
(** * the predictor on pixels *)
Section PredPixels.
  Variables (S out : list Z) (wn hn : nat).
  Hypothesis Hw : (1 <= wn)%nat. Hypothesis Hh : (1 <= hn)%nat.
  Hypothesis HlenS : length S = (4 * wn * hn)%nat.
  Hypothesis Hlen : length out = length S.
  Hypothesis Hout : forall j, (j < length S)%nat -> nth j out 0 = pred_byte S (4 * wn) j.

  Let P (i : nat) : pixel := nth i (to_pixels S) dpx.
  Let Q (i : nat) : pixel := nth i (to_pixels out) dpx.

  Lemma pred_px_above i : (wn <= i < wn * hn)%nat -> Q i = sub_px (P i) (P (i - wn)).
  Proof.
    intros Hi. unfold P, Q. rewrite !to_pixels_nth by nia. rewrite !Hout by nia. unfold pred_byte.
    replace (4 * wn <=? 4 * i)%nat with true by (symmetry; apply Nat.leb_le; lia).
    replace (4 * wn <=? 4 * i + 1)%nat with true by (symmetry; apply Nat.leb_le; lia).
    replace (4 * wn <=? 4 * i + 2)%nat with true by (symmetry; apply Nat.leb_le; lia).
    replace (4 * wn <=? 4 * i + 3)%nat with true by (symmetry; apply Nat.leb_le; lia).
    unfold sub_px.
    replace (4 * i - 4 * wn)%nat with (4 * (i - wn))%nat by lia.
    replace (4 * i + 1 - 4 * wn)%nat with (4 * (i - wn) + 1)%nat by lia.
    replace (4 * i + 2 - 4 * wn)%nat with (4 * (i - wn) + 2)%nat by lia.
    replace (4 * i + 3 - 4 * wn)%nat with (4 * (i - wn) + 3)%nat by lia. reflexivity.
  Qed.

  Lemma pred_px_left i : (0 < i < wn)%nat -> Q i = sub_px (P i) (P (i - 1)).
  Proof.
    intros Hi. unfold P, Q. rewrite !to_pixels_nth by nia. rewrite !Hout by nia. unfold pred_byte.
    replace (4 * wn <=? 4 * i)%nat with false by (symmetry; apply Nat.leb_gt; lia).
    replace (4 * wn <=? 4 * i + 1)%nat with false by (symmetry; apply Nat.leb_gt; lia).
    replace (4 * wn <=? 4 * i + 2)%nat with false by (symmetry; apply Nat.leb_gt; lia).
    replace (4 * wn <=? 4 * i + 3)%nat with false by (symmetry; apply Nat.leb_gt; lia).
    replace (4 <=? 4 * i)%nat with true by (symmetry; apply Nat.leb_le; lia).
    replace (4 <=? 4 * i + 1)%nat with true by (symmetry; apply Nat.leb_le; lia).
    replace (4 <=? 4 * i + 2)%nat with true by (symmetry; apply Nat.leb_le; lia).
    replace (4 <=? 4 * i + 3)%nat with true by (symmetry; apply Nat.leb_le; lia).
    unfold sub_px.
    replace (4 * i - 4)%nat with (4 * (i - 1))%nat by lia.
    replace (4 * i + 1 - 4)%nat with (4 * (i - 1) + 1)%nat by lia.
    replace (4 * i + 2 - 4)%nat with (4 * (i - 1) + 2)%nat by lia.
    replace (4 * i + 3 - 4)%nat with (4 * (i - 1) + 3)%nat by lia. reflexivity.
  Qed.

  Lemma pred_px_first : let '(r, g, b, a) := P 0 in Q 0 = (r, g, b, sub8 a 255).
  Proof.
    unfold P, Q. rewrite !to_pixels_nth by nia. rewrite !Hout by nia. unfold pred_byte.
    replace (4 * wn <=? 4 * 0)%nat with false by (symmetry; apply Nat.leb_gt; lia).
    replace (4 * wn <=? 4 * 0 + 1)%nat with false by (symmetry; apply Nat.leb_gt; lia).
    replace (4 * wn <=? 4 * 0 + 2)%nat with false by (symmetry; apply Nat.leb_gt; lia).
    replace (4 * wn <=? 4 * 0 + 3)%nat with false by (symmetry; apply Nat.leb_gt; lia).
    reflexivity.
  Qed.

  Lemma pred_out_bytes : Forall byte_ok S -> Forall byte_ok out.
  Proof.
    intros HS. apply Forall_forall. intros x Hx. destruct (In_nth _ _ 0 Hx) as [j [Hj <-]]. rewrite Hlen in Hj.
    rewrite Hout by exact Hj. unfold pred_byte. rewrite Forall_forall in HS.
    destruct (4 * wn <=? j)%nat; [apply sub8_range|]. destruct (4 <=? j)%nat; [apply sub8_range|].
    destruct (j =? 3)%nat; [apply sub8_range|]. apply HS. apply nth_In. exact Hj.
  Qed.
  Lemma pred_px_count : length (to_pixels S) = (wn * hn)%nat /\ length (to_pixels out) = (wn * hn)%nat.
  Proof.
    rewrite !to_pixels_length, Hlen, HlenS. replace (4 * wn * hn)%nat with (wn * hn * 4)%nat by lia.
    rewrite Nat.div_mul by lia. split; reflexivity.
  Qed.

  Lemma pred_channel_facts :
    (Forall (fun p : pixel => let '(r, g, b, a) := p in r = 0 /\ b = 0) (to_pixels S) ->
     Forall (fun p : pixel => let '(r, g, b, a) := p in r = 0 /\ b = 0) (to_pixels out))
    /\ (Forall (fun p : pixel => let '(r, g, b, a) := p in a = 255) (to_pixels S) ->
        Forall (fun p : pixel => let '(r, g, b, a) := p in a = 0) (to_pixels out)).
  Proof.
    destruct pred_px_count as [LS LO].
    assert (Cases : forall i, (i < wn * hn)%nat ->
      (i = 0%nat /\ let '(r, g, b, a) := P 0 in Q 0 = (r, g, b, sub8 a 255))
      \/ (exists j, (j < wn * hn)%nat /\ Q i = sub_px (P i) (P j))).
    { intros i Hi. destruct (Nat.eq_dec i 0) as [-> | Hne]; [left; split; [reflexivity | apply pred_px_first]|]. right.
      destruct (le_lt_dec wn i) as [Hge | Hlt].
      - exists (i - wn)%nat. split; [lia | apply pred_px_above; lia].
      - exists (i - 1)%nat. split; [lia | apply pred_px_left; lia]. }
    split; intros HS; apply Forall_forall; intros x Hx; destruct (In_nth _ _ dpx Hx) as [i [Hi <-]]; rewrite LO in Hi;
      rewrite Forall_forall in HS; fold (Q i).
    - destruct (Cases i Hi) as [[-> H0] | [j [Hj Hq]]].
      + pose proof (HS (P 0) ltac:(apply nth_In; lia)) as F. destruct (P 0) as [[[r g] b] a]. rewrite H0. exact F.
      + pose proof (HS (P i) ltac:(apply nth_In; lia)) as Fi. pose proof (HS (P j) ltac:(apply nth_In; lia)) as Fj.
        rewrite Hq. destruct (P i) as [[[r g] b] a]. destruct (P j) as [[[r' g'] b'] a']. destruct Fi as [-> ->]. destruct Fj as [-> ->].
        cbn [sub_px]. split; reflexivity.
    - destruct (Cases i Hi) as [[-> H0] | [j [Hj Hq]]].
      + pose proof (HS (P 0) ltac:(apply nth_In; lia)) as F. destruct (P 0) as [[[r g] b] a]. rewrite H0. subst a. reflexivity.
      + pose proof (HS (P i) ltac:(apply nth_In; lia)) as Fi. pose proof (HS (P j) ltac:(apply nth_In; lia)) as Fj.
        rewrite Hq. destruct (P i) as [[[r g] b] a]. destruct (P j) as [[[r' g'] b'] a']. subst a a'. reflexivity.
  Qed.
End PredPixels.
