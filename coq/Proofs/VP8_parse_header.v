(* VP8 parsing, part 3: the frame-header pieces.
     read_quantization_indices      = the quantiser block of Spec.VP8.parse_header, and with Proofs/VP8_quant the
                                      per-segment factors written into `segment[i]` = Spec.VP8.segment_quant;
     read_loop_filter_adjustments   = the loop-filter delta block;
     read_segment_updates           = the segmentation block;
     update_token_probabilities     = parse_proba_1 (RFC 13.4).
   Each is stated from linked decoder states (VP8_parse_base) and returns linked states. *)
From Coq Require Import ZArith Lia List Bool.
From WebP Require Import Lib.Res Gen.Kernels Gen.Tables Lib.ZBits Lib.Sweep Proofs.C15_num Proofs.C15_ideal Proofs.C15_model
  Proofs.C15_ops Proofs.C15_reqs Proofs.C15_main Spec.RfcBoolDec Spec.BoolDec Spec.VP8Tables Spec.VP8 Model.ArithDec
  Model.Vp8Parse Proofs.VP8_tables Proofs.VP8_quant Proofs.VP8_parse_base Proofs.VP8_parse_coeffs Proofs.VP8_parse_mbheader.
Import ListNotations.
Open Scope Z_scope.

(* ------------------------------------------------------------------------------------------------------------ *)
(* single requests                                                                                              *)
(* ------------------------------------------------------------------------------------------------------------ *)
Definition g_flag : gprog bool := GRead 128 (fun b => GRet b).
Definition g_lit (n : Z) : gprog Z := lift (lit_prog (Z.to_nat n) 0).
Definition g_signed (n : Z) : gprog Z := lift (signed_prog (Z.to_nat n)).

Lemma g_flag_probs : gprobs_ok g_flag. Proof. cbn. repeat split; lia. Qed.
Lemma g_lit_probs n : gprobs_ok (g_lit n). Proof. apply gprobs_lift. apply lit_probs. Qed.
Lemma g_signed_probs n : gprobs_ok (g_signed n). Proof. apply gprobs_lift. apply signed_probs. Qed.

Lemma lit_bound {St} (bit : St -> Z -> bool * St) n : forall v s, Z.of_nat n <= 8 -> 0 <= v -> (v + 1) * 2 ^ Z.of_nat n <= 256 ->
  v * 2 ^ Z.of_nat n <= fst (interpP bit (lit_prog n v) s) < (v + 1) * 2 ^ Z.of_nat n.
Proof.
  induction n as [|n IH]; intros v s Hn Hv Hb; cbn [lit_prog interpP fst].
  - change (2 ^ Z.of_nat 0) with 1. lia.
  - destruct (bit s 128) as [b s1].
    assert (E2 : 2 ^ Z.of_nat (S n) = 2 * 2 ^ Z.of_nat n) by (rewrite Nat2Z.inj_succ, Z.pow_succ_r by lia; reflexivity).
    pose proof (pow2_pos (Z.of_nat n) ltac:(lia)) as Hp. rewrite E2 in *.
    change (2 ^ 1) with 2. rewrite Z.mod_small by nia.
    assert (Hb2 : 0 <= ArithDec.b2z b <= 1) by (unfold ArithDec.b2z; destruct b; lia).
    specialize (IH (v * 2 + ArithDec.b2z b) s1 ltac:(lia) ltac:(lia) ltac:(nia)). nia.
Qed.

Lemma signed_bound {St} (bit : St -> Z -> bool * St) n s : 0 <= n <= 8 ->
  - 2 ^ n < fst (interpP bit (signed_prog (Z.to_nat n)) s) < 2 ^ n.
Proof.
  intros Hn. pose proof (pow2_pos n ltac:(lia)) as Hp.
  unfold signed_prog. cbn [interpP]. destruct (bit s 128) as [flag s1]. destruct flag; [|cbn; lia].
  rewrite interpP_bind.
  pose proof (lit_bound bit (Z.to_nat n) 0 s1 ltac:(lia) ltac:(lia)) as Hl. rewrite Z2Nat.id in Hl by lia.
  specialize (Hl ltac:(pose proof (pow2_le n 8 ltac:(lia)); change (2 ^ 8) with 256 in *; lia)).
  destruct (interpP bit (lit_prog (Z.to_nat n) 0) s1) as [mag s2]. cbn [interpP fst] in *.
  destruct (bit s2 128) as [sign s3]. destruct sign; cbn [fst]; lia.
Qed.

(* Model side: the request succeeds, equals the interpretation, keeps the decoder well formed *)
Lemma mstep_flag d : wsafe d -> big d ->
  read_flag d = Ok (interpG cold_pure g_flag d) /\ wsafe (snd (interpG cold_pure g_flag d)) /\ big (snd (interpG cold_pure g_flag d)).
Proof.
  intros Hw Hb. rewrite m_read_flag by exact Hw. cbn [g_flag interpG].
  destruct (cold_pure_wsafe d 128 Hw ltac:(lia)) as [W C]. destruct (cold_pure d 128) as [b d1]. cbn [snd] in *.
  split; [reflexivity|]. split; [exact W | apply (big_chunks d); assumption].
Qed.

Lemma mstep_lit d n : wsafe d -> big d -> 0 <= n <= 8 ->
  read_literal d n = Ok (interpG cold_pure (g_lit n) d) /\ wsafe (snd (interpG cold_pure (g_lit n) d)) /\
  big (snd (interpG cold_pure (g_lit n) d)) /\ 0 <= fst (interpG cold_pure (g_lit n) d) < 2 ^ n.
Proof.
  intros Hw Hb Hn. rewrite m_read_literal by assumption. unfold g_lit. rewrite interpG_lift.
  destruct (cold_prog_facts (lit_prog (Z.to_nat n) 0) d Hw (lit_probs _ _)) as [W C].
  pose proof (lit_bound cold_pure (Z.to_nat n) 0 d ltac:(lia) ltac:(lia)) as Hl. rewrite Z2Nat.id in Hl by lia.
  specialize (Hl ltac:(pose proof (pow2_le n 8 ltac:(lia)); change (2 ^ 8) with 256 in *; lia)).
  split; [reflexivity|]. split; [exact W|]. split; [apply (big_chunks d); assumption | lia].
Qed.

Lemma mstep_signed d n : wsafe d -> big d -> 0 <= n <= 8 ->
  read_optional_signed_value d n = Ok (interpG cold_pure (g_signed n) d) /\ wsafe (snd (interpG cold_pure (g_signed n) d)) /\
  big (snd (interpG cold_pure (g_signed n) d)) /\ - 2 ^ n < fst (interpG cold_pure (g_signed n) d) < 2 ^ n.
Proof.
  intros Hw Hb Hn. rewrite m_read_signed by assumption. unfold g_signed. rewrite interpG_lift.
  destruct (cold_prog_facts (signed_prog (Z.to_nat n)) d Hw (signed_probs _)) as [W C].
  split; [reflexivity|]. split; [exact W|]. split; [apply (big_chunks d); assumption | apply signed_bound; exact Hn].
Qed.

(* Spec side *)
Lemma sstep_flag s : BoolDec.read_flag s = (ArithDec.b2z (fst (interpG bdbit g_flag s)), snd (interpG bdbit g_flag s)).
Proof. cbn [g_flag interpG]. rewrite bd_flag. destruct (bdbit s 128) as [b s1]. reflexivity. Qed.
Lemma sstep_lit s n : 0 <= n <= 8 -> BoolDec.read_literal n s = interpG bdbit (g_lit n) s.
Proof. intros Hn. unfold g_lit. rewrite interpG_lift. apply bd_literal. exact Hn. Qed.
Lemma sstep_signed s n : 0 <= n <= 8 -> BoolDec.read_opt_signed n s = interpG bdbit (g_signed n) s.
Proof. intros Hn. unfold g_signed. rewrite interpG_lift. apply bd_opt_signed. exact Hn. Qed.

(* ------------------------------------------------------------------------------------------------------------ *)
(* read_quantization_indices                                                                                    *)
(* ------------------------------------------------------------------------------------------------------------ *)
Definition G_quant : gprog (Z * Z * Z * Z * Z * Z) :=
  gbind (g_lit 7) (fun yac => gbind (g_signed 4) (fun a => gbind (g_signed 4) (fun b => gbind (g_signed 4) (fun c =>
  gbind (g_signed 4) (fun d => gbind (g_signed 4) (fun e => GRet (yac, a, b, c, d, e))))))).

Lemma G_quant_probs : gprobs_ok G_quant.
Proof.
  unfold G_quant. apply gprobs_bind; [apply g_lit_probs|]. intros yac.
  do 5 (apply gprobs_bind; [apply g_signed_probs|]; intros ?). exact I.
Qed.

Definition quant_ranges (q : Z * Z * Z * Z * Z * Z) : Prop :=
  let '(yac, a, b, c, d, e) := q in
  0 <= yac <= 127 /\ -15 <= a <= 15 /\ -15 <= b <= 15 /\ -15 <= c <= 15 /\ -15 <= d <= 15 /\ -15 <= e <= 15.

(* the six reads of the Model function *)
Lemma quant_reads_model d : wsafe d -> big d ->
  bind (read_literal d 7) (fun '(yac_abs, d) => bind (read_optional_signed_value d 4) (fun '(ydc_delta, d) =>
  bind (read_optional_signed_value d 4) (fun '(y2dc_delta, d) => bind (read_optional_signed_value d 4) (fun '(y2ac_delta, d) =>
  bind (read_optional_signed_value d 4) (fun '(uvdc_delta, d) => bind (read_optional_signed_value d 4) (fun '(uvac_delta, d) =>
  Ok (yac_abs, ydc_delta, y2dc_delta, y2ac_delta, uvdc_delta, uvac_delta, d)))))))
  = Ok (interpG cold_pure G_quant d) /\ quant_ranges (fst (interpG cold_pure G_quant d)).
Proof.
  intros Hw Hb. unfold G_quant.
  destruct (mstep_lit d 7 Hw Hb ltac:(lia)) as (E & W & B & R). rewrite E. rewrite interpG_bind.
  destruct (interpG cold_pure (g_lit 7) d) as [yac d1]. cbn [fst snd bind] in *. change (2 ^ 7) with 128 in R.
  destruct (mstep_signed d1 4 W B ltac:(lia)) as (E1 & W1 & B1 & R1). rewrite E1. rewrite interpG_bind.
  destruct (interpG cold_pure (g_signed 4) d1) as [a d2]. cbn [fst snd bind] in *. change (2 ^ 4) with 16 in R1.
  destruct (mstep_signed d2 4 W1 B1 ltac:(lia)) as (E2 & W2 & B2 & R2). rewrite E2. rewrite interpG_bind.
  destruct (interpG cold_pure (g_signed 4) d2) as [b d3]. cbn [fst snd bind] in *. change (2 ^ 4) with 16 in R2.
  destruct (mstep_signed d3 4 W2 B2 ltac:(lia)) as (E3 & W3 & B3 & R3). rewrite E3. rewrite interpG_bind.
  destruct (interpG cold_pure (g_signed 4) d3) as [c d4]. cbn [fst snd bind] in *. change (2 ^ 4) with 16 in R3.
  destruct (mstep_signed d4 4 W3 B3 ltac:(lia)) as (E4 & W4 & B4 & R4). rewrite E4. rewrite interpG_bind.
  destruct (interpG cold_pure (g_signed 4) d4) as [dd d5]. cbn [fst snd bind] in *. change (2 ^ 4) with 16 in R4.
  destruct (mstep_signed d5 4 W4 B4 ltac:(lia)) as (E5 & W5 & B5 & R5). rewrite E5. rewrite interpG_bind.
  destruct (interpG cold_pure (g_signed 4) d5) as [e d6]. cbn [fst snd bind interpG] in *. change (2 ^ 4) with 16 in R5.
  split; [reflexivity|]. unfold quant_ranges. lia.
Qed.

(* the six reads of the Spec *)
Lemma quant_reads_spec s :
  (let '(base_q, s) := BoolDec.read_literal 7 s in
   let '(dqy1_dc, s) := read_opt_signed 4 s in let '(dqy2_dc, s) := read_opt_signed 4 s in let '(dqy2_ac, s) := read_opt_signed 4 s in
   let '(dquv_dc, s) := read_opt_signed 4 s in let '(dquv_ac, s) := read_opt_signed 4 s in
   (base_q, dqy1_dc, dqy2_dc, dqy2_ac, dquv_dc, dquv_ac, s)) = interpG bdbit G_quant s.
Proof.
  unfold G_quant. rewrite sstep_lit by lia. rewrite interpG_bind. destruct (interpG bdbit (g_lit 7) s) as [yac s1].
  rewrite sstep_signed by lia. rewrite interpG_bind. destruct (interpG bdbit (g_signed 4) s1) as [a s2].
  rewrite sstep_signed by lia. rewrite interpG_bind. destruct (interpG bdbit (g_signed 4) s2) as [b s3].
  rewrite sstep_signed by lia. rewrite interpG_bind. destruct (interpG bdbit (g_signed 4) s3) as [c s4].
  rewrite sstep_signed by lia. rewrite interpG_bind. destruct (interpG bdbit (g_signed 4) s4) as [d s5].
  rewrite sstep_signed by lia. rewrite interpG_bind. destruct (interpG bdbit (g_signed 4) s5) as [e s6].
  reflexivity.
Qed.

(* the per-segment loop: no overflow for every header the bitstream can express *)
Definition seg_level_ok (s : Segment) : Prop := -127 <= sg_quantizer_level s <= 127.

Definition quant_of (enabled : bool) (q : Z * Z * Z * Z * Z * Z) (s : Segment) : Segment :=
  let '(yac, a, b, c, d, e) := q in
  let f := segment_quantizers yac a b c d e enabled (sg_delta_values s) (sg_quantizer_level s) in
  mkSeg (nth 0 f 0) (nth 1 f 0) (nth 2 f 0) (nth 3 f 0) (nth 4 f 0) (nth 5 f 0) (sg_delta_values s) (sg_quantizer_level s) (sg_loopfilter_level s).

(* segments i .. i+k-1 get their factors, the others stay *)
Fixpoint quant_upd (k : nat) (i : nat) (segs : list Segment) (enabled : bool) (q : Z * Z * Z * Z * Z * Z) : list Segment :=
  match k with O => segs | S m => quant_upd m (S i) (upd segs i (quant_of enabled q (nth i segs Segment_default))) enabled q end.

Lemma quant_segments_ok k : forall i segs enabled yac a b c d e,
  quant_ranges (yac, a, b, c, d, e) -> Forall seg_level_ok segs -> (i + k <= length segs)%nat ->
  quant_segments k (Z.of_nat i) segs enabled yac a b c d e = Ok (quant_upd k i segs enabled (yac, a, b, c, d, e)).
Proof.
  induction k as [|k IH]; intros i segs enabled yac a b c d e Hr Hs Hl; cbn [quant_segments quant_upd]; [reflexivity|].
  rewrite (idx_ok segs (Z.of_nat i) Segment_default) by lia. cbn [bind]. rewrite Nat2Z.id.
  set (s := nth i segs Segment_default).
  assert (Hsl : seg_level_ok s) by (rewrite Forall_forall in Hs; apply Hs; apply nth_In; lia).
  unfold quant_ranges in Hr. destruct Hr as (R0 & R1 & R2 & R3 & R4 & R5).
  destruct (segment_quantizers_reference yac a b c d e enabled (sg_delta_values s) (sg_quantizer_level s) R0 R1 R2 R3 R4 R5 Hsl) as [_ Ok1].
  rewrite Ok1. cbn [negb]. rewrite set_idx_ok by lia. cbn [bind]. unfold updZ. rewrite Nat2Z.id.
  replace (Z.of_nat i + 1) with (Z.of_nat (S i)) by lia.
  rewrite IH; [reflexivity | unfold quant_ranges; lia | | rewrite upd_length; lia].
  (* the level of the updated segment is unchanged *)
  clear IH. revert i Hl s Hsl Ok1. induction Hs as [|x l Hx Hl' IHl]; intros i Hl s Hsl Ok1; [cbn in Hl; lia|].
  destruct i as [|i]; cbn [upd].
  - constructor; [exact Hsl | exact Hl'].
  - constructor; [exact Hx|]. apply (IHl i); try (cbn in Hl; lia); assumption.
Qed.

Definition quant_state (v : Vp8) (q : Z * Z * Z * Z * Z * Z) (d' : Dec) : Vp8 :=
  set_b (set_segment v (quant_upd (if v_segments_enabled v then 4 else 1) 0 (v_segment v) (v_segments_enabled v) q)) d'.

Theorem read_quantization_indices_refines : forall data, Forall byte data -> C15_model.len data < 2 ^ 63 ->
  forall (v : Vp8) (s : bstate),
  length (v_segment v) = 4%nat -> Forall seg_level_ok (v_segment v) -> linked data s (v_b v) ->
  let '(base_q, s) := BoolDec.read_literal 7 s in
  let '(dqy1_dc, s) := read_opt_signed 4 s in let '(dqy2_dc, s) := read_opt_signed 4 s in let '(dqy2_ac, s) := read_opt_signed 4 s in
  let '(dquv_dc, s) := read_opt_signed 4 s in let '(dquv_ac, s) := read_opt_signed 4 s in
  quant_ranges (base_q, dqy1_dc, dqy2_dc, dqy2_ac, dquv_dc, dquv_ac) /\
  ((exists d', read_quantization_indices v = Ok (quant_state v (base_q, dqy1_dc, dqy2_dc, dqy2_ac, dquv_dc, dquv_ac) d') /\ linked data s d')
   \/ (read_quantization_indices v = Err EBitStreamError /\ over_read data s)).
Proof.
  intros data Hbytes Hlen v s L4 Hsegs Hlink.
  destruct (linked_wsafe data Hlen s (v_b v) Hlink) as [Hw Hbig].
  pose proof (quant_reads_spec s) as ES. pose proof (quant_reads_model (v_b v) Hw Hbig) as [EM RM].
  pose proof (transfer_run data Hbytes Hlen G_quant s (v_b v) Hlink G_quant_probs) as T. cbv zeta in T.
  destruct (BoolDec.read_literal 7 s) as [base_q s1]. destruct (read_opt_signed 4 s1) as [q1 s2]. destruct (read_opt_signed 4 s2) as [q2 s3].
  destruct (read_opt_signed 4 s3) as [q3 s4]. destruct (read_opt_signed 4 s4) as [q4 s5]. destruct (read_opt_signed 4 s5) as [q5 s6].
  assert (Hrc : read_quantization_indices v =
                (let '(q, d') := interpG cold_pure G_quant (v_b v) in
                 if is_past_eof d' then Err EBitStreamError else Ok (quant_state v q d'))).
  { unfold read_quantization_indices.
    destruct (interpG cold_pure G_quant (v_b v)) as [[[[[[yac a] b] c] dd] e] d'] eqn:EI. cbn [fst] in RM.
    (* replay the six binds *)
    revert EM. destruct (read_literal (v_b v) 7) as [[y0 d0]| | |]; cbn [bind]; try discriminate.
    destruct (read_optional_signed_value d0 4) as [[y1 d1]| | |]; cbn [bind]; try discriminate.
    destruct (read_optional_signed_value d1 4) as [[y2 d2]| | |]; cbn [bind]; try discriminate.
    destruct (read_optional_signed_value d2 4) as [[y3 d3]| | |]; cbn [bind]; try discriminate.
    destruct (read_optional_signed_value d3 4) as [[y4 d4]| | |]; cbn [bind]; try discriminate.
    destruct (read_optional_signed_value d4 4) as [[y5 d5]| | |]; cbn [bind]; try discriminate.
    intros EM. injection EM as -> -> -> -> -> -> ->.
    replace (if v_segments_enabled v then 4%nat else 1%nat) with (if v_segments_enabled v then 4 else 1)%nat by reflexivity.
    rewrite (quant_segments_ok _ 0 (v_segment v) (v_segments_enabled v) yac a b c dd e RM Hsegs) by (destruct (v_segments_enabled v); lia).
    cbn [bind]. rewrite check_cases. unfold quant_state. destruct (is_past_eof d'); reflexivity. }
  rewrite Hrc. rewrite <- ES in T.
  destruct (interpG cold_pure G_quant (v_b v)) as [qM d']. cbn [fst snd] in *.
  destruct T as (W1 & C1 & [(Eeof & L1 & Ev) | (Eeof & Ov)]); rewrite Eeof.
  - subst qM. split; [exact RM|]. left. exists d'. split; [reflexivity | exact L1].
  - split; [|right; split; [reflexivity | exact Ov]].
    (* the ranges hold for the Spec's values whatever the Model did: same bound lemmas on the Spec reader *)
    pose proof (quant_reads_spec s) as ES2. rewrite <- ES in ES2.
    clear - ES2 ES. unfold G_quant in ES.
    pose proof (lit_bound bdbit 7 0 s ltac:(lia) ltac:(lia) ltac:(cbn; lia)) as B0.
    rewrite !interpG_bind in ES. unfold g_lit in ES. rewrite interpG_lift in ES. change (Z.to_nat 7) with 7%nat in ES.
    destruct (interpP bdbit (lit_prog 7 0) s) as [y0 t0]. cbn [fst] in B0. change (2 ^ Z.of_nat 7) with 128 in B0.
    pose proof (signed_bound bdbit 4 t0 ltac:(lia)) as B1. unfold g_signed in ES. rewrite !interpG_bind, interpG_lift in ES.
    destruct (interpP bdbit (signed_prog (Z.to_nat 4)) t0) as [y1 t1]. cbn [fst] in B1.
    pose proof (signed_bound bdbit 4 t1 ltac:(lia)) as B2. rewrite !interpG_bind, interpG_lift in ES.
    destruct (interpP bdbit (signed_prog (Z.to_nat 4)) t1) as [y2 t2]. cbn [fst] in B2.
    pose proof (signed_bound bdbit 4 t2 ltac:(lia)) as B3. rewrite !interpG_bind, interpG_lift in ES.
    destruct (interpP bdbit (signed_prog (Z.to_nat 4)) t2) as [y3 t3]. cbn [fst] in B3.
    pose proof (signed_bound bdbit 4 t3 ltac:(lia)) as B4. rewrite !interpG_bind, interpG_lift in ES.
    destruct (interpP bdbit (signed_prog (Z.to_nat 4)) t3) as [y4 t4]. cbn [fst] in B4.
    pose proof (signed_bound bdbit 4 t4 ltac:(lia)) as B5. rewrite !interpG_bind, interpG_lift in ES.
    destruct (interpP bdbit (signed_prog (Z.to_nat 4)) t4) as [y5 t5]. cbn [fst interpG] in *.
    injection ES as -> -> -> -> -> -> ->. change (2 ^ 4) with 16 in *. unfold quant_ranges. lia.
Qed.

(* the factors written into segment j *)
Lemma quant_upd_nth k : forall i segs enabled q j, (i + k <= length segs)%nat ->
  nth j (quant_upd k i segs enabled q) Segment_default
  = if ((i <=? j) && (j <? i + k))%nat then quant_of enabled q (nth j segs Segment_default) else nth j segs Segment_default.
Proof.
  induction k as [|k IH]; intros i segs enabled q j Hl; cbn [quant_upd].
  - replace ((i <=? j) && (j <? i + 0))%nat with false; [reflexivity|].
    symmetry. apply andb_false_iff. destruct (Nat.leb_spec i j); [right; apply Nat.ltb_ge; lia | left; reflexivity].
  - rewrite IH by (rewrite upd_length; lia).
    destruct (Nat.eq_dec j i) as [-> | Nji].
    + rewrite nth_upd_same by lia.
      assert (E1 : ((S i <=? i) && (i <? S i + k))%nat = false) by (apply andb_false_iff; left; apply Nat.leb_gt; lia). rewrite E1.
      assert (E2 : ((i <=? i) && (i <? i + S k))%nat = true) by (apply andb_true_iff; split; [apply Nat.leb_le | apply Nat.ltb_lt]; lia). rewrite E2.
      reflexivity.
    + rewrite nth_upd_other by exact Nji.
      replace ((S i <=? j) && (j <? S i + k))%nat with ((i <=? j) && (j <? i + S k))%nat; [reflexivity|].
      destruct (Nat.leb_spec i j); destruct (Nat.leb_spec (S i) j); destruct (Nat.ltb_spec j (i + S k)); destruct (Nat.ltb_spec j (S i + k)); try reflexivity; lia.
Qed.

(* with Proofs/VP8_quant: what read_quantization_indices leaves in segment[seg] is Spec.VP8.segment_quant *)
Theorem quantization_factors_are_spec (h : header) (v : Vp8) (d' : Dec) (seg : nat) :
  length (v_segment v) = 4%nat ->
  h_use_segment h = v_segments_enabled v ->
  (seg < (if v_segments_enabled v then 4 else 1))%nat ->
  nthZ (h_seg_quant h) (Z.of_nat seg) 0 = sg_quantizer_level (nth seg (v_segment v) Segment_default) ->
  h_absolute h = negb (sg_delta_values (nth seg (v_segment v) Segment_default)) ->
  quant_ranges (h_base_q h, h_dqy1_dc h, h_dqy2_dc h, h_dqy2_ac h, h_dquv_dc h, h_dquv_ac h) ->
  -127 <= nthZ (h_seg_quant h) (Z.of_nat seg) 0 <= 127 ->
  let s' := nth seg (v_segment (quant_state v (h_base_q h, h_dqy1_dc h, h_dqy2_dc h, h_dqy2_ac h, h_dquv_dc h, h_dquv_ac h) d')) Segment_default in
  let q := segment_quant h (Z.of_nat seg) in
  sg_ydc s' = q_y1dc q /\ sg_yac s' = q_y1ac q /\ sg_y2dc s' = q_y2dc q /\ sg_y2ac s' = q_y2ac q /\ sg_uvdc s' = q_uvdc q /\ sg_uvac s' = q_uvac q.
Proof.
  intros L4 Hen Hseg Hlev Habs (R0 & R1 & R2 & R3 & R4 & R5) Hl. cbv zeta.
  unfold quant_state. destruct v as [vr vb vw vh vf vse vsum vsg vrd vmd vp vnp vst vtp vpi vpsf vtop vleft].
  cbn [v_segment v_segments_enabled set_b set_segment] in *.
  rewrite quant_upd_nth by (destruct vse; lia).
  assert (E : ((0 <=? seg) && (seg <? 0 + (if vse then 4 else 1)))%nat = true)
    by (apply andb_true_iff; split; [apply Nat.leb_le; lia | apply Nat.ltb_lt; destruct vse; lia]).
  rewrite E. unfold quant_of.
  destruct (segment_quant_refine h (Z.of_nat seg) R0 Hl R1 R2 R3 R4 R5) as [EQ _].
  rewrite Hen, Hlev, Habs, negb_involutive in EQ. rewrite EQ. unfold quant_list. cbn [nth sg_ydc sg_yac sg_y2dc sg_y2ac sg_uvdc sg_uvac].
  repeat split; reflexivity.
Qed.

(* ------------------------------------------------------------------------------------------------------------ *)
(* arrays of optional signed values (loop-filter deltas, segment levels)                                        *)
(* ------------------------------------------------------------------------------------------------------------ *)
Fixpoint G_arr (k : nat) (n : Z) : gprog (list Z) :=
  match k with O => GRet [] | S m => gbind (g_signed n) (fun x => gbind (G_arr m n) (fun l => GRet (x :: l))) end.

Lemma G_arr_probs k n : gprobs_ok (G_arr k n).
Proof.
  induction k as [|k IH]; cbn [G_arr]; [exact I|].
  apply gprobs_bind; [apply g_signed_probs|]. intros x. apply gprobs_bind; [exact IH | intros l; exact I].
Qed.

Lemma upd_splice {A} (l : list A) : forall i x, (i < length l)%nat -> upd l i x = firstn i l ++ x :: skipn (S i) l.
Proof.
  induction l as [|y l IH]; intros i x H; [cbn in H; lia|]. destruct i as [|i]; [reflexivity|].
  cbn [upd firstn skipn app]. f_equal. apply IH. cbn in H. lia.
Qed.

Lemma firstn_upd_S {A} (l : list A) : forall i x, (i < length l)%nat -> firstn (S i) (upd l i x) = firstn i l ++ [x].
Proof.
  induction l as [|y l IH]; intros i x H; [cbn in H; lia|]. destruct i as [|i]; [reflexivity|].
  cbn [upd]. change (firstn (S (S i)) (y :: upd l i x)) with (y :: firstn (S i) (upd l i x)). rewrite IH by (cbn in H; lia). reflexivity.
Qed.

Lemma skipn_upd_above {A} (l : list A) : forall i j x, (i < j)%nat -> skipn j (upd l i x) = skipn j l.
Proof.
  induction l as [|y l IH]; intros i j x H; [destruct j; reflexivity|].
  destruct j as [|j]; [lia|]. destruct i as [|i]; cbn [upd skipn]; [reflexivity|]. apply IH. lia.
Qed.

(* for j in i..i+k { arr[j] = read_optional_signed_value(n) } *)
Lemma read_signed_array_ok k : forall i arr d n, wsafe d -> big d -> 0 <= n <= 8 -> (i + k <= length arr)%nat ->
  read_signed_array k (Z.of_nat i) arr d n
  = Ok (let '(vals, d') := interpG cold_pure (G_arr k n) d in (firstn i arr ++ vals ++ skipn (i + k) arr, d')) /\
  wsafe (snd (interpG cold_pure (G_arr k n) d)) /\ big (snd (interpG cold_pure (G_arr k n) d)) /\
  length (fst (interpG cold_pure (G_arr k n) d)) = k /\ Forall (fun x => - 2 ^ n < x < 2 ^ n) (fst (interpG cold_pure (G_arr k n) d)).
Proof.
  induction k as [|k IH]; intros i arr d n Hw Hb Hn Hl; cbn [read_signed_array G_arr].
  - cbn [interpG fst snd app length]. rewrite Nat.add_0_r, firstn_skipn.
    split; [reflexivity|]. split; [exact Hw|]. split; [exact Hb|]. split; [reflexivity | constructor].
  - destruct (mstep_signed d n Hw Hb Hn) as (E & W & B & R). rewrite E. rewrite !interpG_bind.
    destruct (interpG cold_pure (g_signed n) d) as [x d1]. cbn [fst snd bind] in *. rewrite !interpG_bind.
    rewrite set_idx_ok by lia. cbn [bind]. replace (Z.of_nat i + 1) with (Z.of_nat (S i)) by lia.
    destruct (IH (S i) (updZ arr (Z.of_nat i) x) d1 n W B Hn ltac:(rewrite updZ_length; lia)) as (E2 & W2 & B2 & L2 & F2).
    rewrite E2. destruct (interpG cold_pure (G_arr k n) d1) as [vals d2]. cbn [interpG fst snd length] in *.
    split; [|split; [exact W2|]; split; [exact B2|]; split; [lia | constructor; assumption]].
    f_equal. f_equal. unfold updZ. rewrite Nat2Z.id. rewrite firstn_upd_S by lia. rewrite skipn_upd_above by lia.
    rewrite <- app_assoc. cbn [app]. replace (S i + k)%nat with (i + S k)%nat by lia. reflexivity.
Qed.

Lemma read_opt_signed_n k n : forall s acc, 0 <= n <= 8 ->
  read_n (read_opt_signed n) k s acc = (let '(vals, s') := interpG bdbit (G_arr k n) s in (rev_append acc vals, s')).
Proof.
  induction k as [|k IH]; intros s acc Hn; cbn [read_n G_arr]; [cbn [interpG]; reflexivity|].
  rewrite sstep_signed by exact Hn. rewrite !interpG_bind. destruct (interpG bdbit (g_signed n) s) as [x s1].
  rewrite IH by exact Hn. rewrite !interpG_bind. destruct (interpG bdbit (G_arr k n) s1) as [vals s2]. cbn [interpG rev_append]. reflexivity.
Qed.

(* ------------------------------------------------------------------------------------------------------------ *)
(* read_loop_filter_adjustments                                                                                 *)
(* ------------------------------------------------------------------------------------------------------------ *)
Definition G_lfadj : gprog (option (list Z * list Z)) :=
  gbind g_flag (fun f => if f then gbind (G_arr 4 6) (fun r => gbind (G_arr 4 6) (fun m => GRet (Some (r, m)))) else GRet None).

Lemma G_lfadj_probs : gprobs_ok G_lfadj.
Proof.
  unfold G_lfadj. apply gprobs_bind; [apply g_flag_probs|]. intros f. destruct f; [|exact I].
  apply gprobs_bind; [apply G_arr_probs|]. intros r. apply gprobs_bind; [apply G_arr_probs | intros m; exact I].
Qed.

Lemma read_delta_updates_zero : forall s, read_delta_updates [0; 0; 0; 0] s [] = read_n (read_opt_signed 6) 4 s [].
Proof.
  intros s. cbn [read_delta_updates read_n]. unfold read_opt_signed at 1.
  destruct (BoolDec.read_flag s) as [f1 s1]. unfold isone.
  assert (H : forall (f : Z) (s0 : bstate) (k : Z * bstate -> list Z * bstate),
    (if f =? 1 then let '(v, s2) := read_signed 6 s0 in k (v, s2) else k (0, s0)) = (let '(v, s2) := (if f =? 1 then read_signed 6 s0 else (0, s0)) in k (v, s2))).
  { intros f s0 k. destruct (f =? 1); [|reflexivity]. destruct (read_signed 6 s0); reflexivity. }
  destruct (f1 =? 1).
  - destruct (read_signed 6 s1) as [v1 s2]. unfold read_opt_signed at 1. destruct (BoolDec.read_flag s2) as [f2 s3].
    destruct (f2 =? 1); [destruct (read_signed 6 s3) as [v2 s4]|]; unfold read_opt_signed at 1;
      match goal with |- context [BoolDec.read_flag ?x] => destruct (BoolDec.read_flag x) as [f3 s5] end;
      (destruct (f3 =? 1); [match goal with |- context [read_signed 6 ?x] => destruct (read_signed 6 x) as [v3 s6] end|]);
      unfold read_opt_signed;
      match goal with |- context [BoolDec.read_flag ?x] => destruct (BoolDec.read_flag x) as [f4 s7] end;
      (destruct (f4 =? 1); [match goal with |- context [read_signed 6 ?x] => destruct (read_signed 6 x) as [v4 s8] end|]); reflexivity.
  - unfold read_opt_signed at 1. destruct (BoolDec.read_flag s1) as [f2 s3].
    destruct (f2 =? 1); [destruct (read_signed 6 s3) as [v2 s4]|]; unfold read_opt_signed at 1;
      match goal with |- context [BoolDec.read_flag ?x] => destruct (BoolDec.read_flag x) as [f3 s5] end;
      (destruct (f3 =? 1); [match goal with |- context [read_signed 6 ?x] => destruct (read_signed 6 x) as [v3 s6] end|]);
      unfold read_opt_signed;
      match goal with |- context [BoolDec.read_flag ?x] => destruct (BoolDec.read_flag x) as [f4 s7] end;
      (destruct (f4 =? 1); [match goal with |- context [read_signed 6 ?x] => destruct (read_signed 6 x) as [v4 s8] end|]); reflexivity.
Qed.

Theorem read_loop_filter_adjustments_refines : forall data, Forall byte data -> C15_model.len data < 2 ^ 63 ->
  forall (v : Vp8) (s : bstate),
  length (v_ref_delta v) = 4%nat -> length (v_mode_delta v) = 4%nat -> linked data s (v_b v) ->
  let '(upd_delta, s1) := BoolDec.read_flag s in
  let '(rm, s2) := (if isone upd_delta
                    then let '(r, s) := read_delta_updates [0; 0; 0; 0] s1 [] in let '(m, s) := read_delta_updates [0; 0; 0; 0] s [] in ((r, m), s)
                    else (([0; 0; 0; 0], [0; 0; 0; 0]), s1)) in
  (exists d', read_loop_filter_adjustments v
              = Ok (set_b (if isone upd_delta then set_mode_delta (set_ref_delta v (fst rm)) (snd rm) else v) d') /\ linked data s2 d')
  \/ (read_loop_filter_adjustments v = Err EBitStreamError /\ over_read data s2).
Proof.
  intros data Hbytes Hlen v s Lr Lm Hlink.
  destruct (linked_wsafe data Hlen s (v_b v) Hlink) as [Hw Hbig].
  pose proof (transfer_run data Hbytes Hlen G_lfadj s (v_b v) Hlink G_lfadj_probs) as T. cbv zeta in T.
  (* Spec *)
  assert (ES : (let '(upd_delta, s1) := BoolDec.read_flag s in
                if isone upd_delta
                then let '(r, s) := read_delta_updates [0; 0; 0; 0] s1 [] in let '(m, s) := read_delta_updates [0; 0; 0; 0] s [] in (upd_delta, ((r, m), s))
                else (upd_delta, (([0; 0; 0; 0], [0; 0; 0; 0]), s1)))
               = (let '(o, s2) := interpG bdbit G_lfadj s in
                  match o with Some rm => (1, (rm, s2)) | None => (0, (([0; 0; 0; 0], [0; 0; 0; 0]), s2)) end)).
  { unfold G_lfadj. rewrite sstep_flag. rewrite interpG_bind. destruct (interpG bdbit g_flag s) as [f s1]. cbn [fst snd].
    destruct f; cbn [ArithDec.b2z isone Z.eqb Pos.eqb interpG]; [|reflexivity].
    rewrite !read_delta_updates_zero. rewrite read_opt_signed_n by lia. rewrite interpG_bind.
    destruct (interpG bdbit (G_arr 4 6) s1) as [r s2]. cbn [rev_append]. rewrite read_delta_updates_zero. rewrite read_opt_signed_n by lia. rewrite interpG_bind.
    destruct (interpG bdbit (G_arr 4 6) s2) as [m s3]. cbn [rev_append interpG]. reflexivity. }
  (* Model *)
  assert (EM : read_loop_filter_adjustments v =
               (let '(o, d') := interpG cold_pure G_lfadj (v_b v) in
                if is_past_eof d' then Err EBitStreamError else
                Ok (set_b (match o with Some rm => set_mode_delta (set_ref_delta v (fst rm)) (snd rm) | None => v end) d'))).
  { unfold read_loop_filter_adjustments, G_lfadj.
    destruct (mstep_flag (v_b v) Hw Hbig) as (E & W & B). rewrite E. rewrite interpG_bind.
    destruct (interpG cold_pure g_flag (v_b v)) as [f d1]. cbn [fst snd bind] in *. destruct f.
    - destruct (read_signed_array_ok 4 0 (v_ref_delta v) d1 6 W B ltac:(lia) ltac:(lia)) as (E1 & W1 & B1 & L1 & _).
      change (Z.of_nat 0) with 0 in E1. rewrite E1. rewrite interpG_bind.
      destruct (interpG cold_pure (G_arr 4 6) d1) as [r d2]. cbn [fst snd bind] in *.
      destruct (read_signed_array_ok 4 0 (v_mode_delta v) d2 6 W1 B1 ltac:(lia) ltac:(lia)) as (E2 & W2 & B2 & L2 & _).
      change (Z.of_nat 0) with 0 in E2. rewrite E2. rewrite interpG_bind.
      destruct (interpG cold_pure (G_arr 4 6) d2) as [m d3]. cbn [fst snd bind interpG firstn app] in *.
      rewrite !skipn_all2 by lia. rewrite !app_nil_r. rewrite check_cases. destruct (is_past_eof d3); reflexivity.
    - cbn [interpG bind]. rewrite check_cases. destruct (is_past_eof d1); reflexivity. }
  rewrite EM. clear EM.
  destruct (BoolDec.read_flag s) as [upd s1].
  destruct (interpG bdbit G_lfadj s) as [oS s2']. destruct (interpG cold_pure G_lfadj (v_b v)) as [oM d']. cbn [fst snd] in T.
  destruct (isone upd) eqn:Eu.
  - destruct (read_delta_updates [0; 0; 0; 0] s1 []) as [r sa]. destruct (read_delta_updates [0; 0; 0; 0] sa []) as [m sb].
    destruct oS as [rm|]; [|injection ES as E0 _ _; subst upd; discriminate Eu]. injection ES as E1 E2 E3. subst upd rm sb.
    destruct T as (W1 & C1 & [(Eeof & L1 & Ev) | (Eeof & Ov)]); rewrite Eeof.
    + left. subst oM. exists d'. split; [reflexivity | exact L1].
    + right. split; [reflexivity | exact Ov].
  - destruct oS as [rm|]; [injection ES as E0 _ _; subst upd; discriminate Eu|]. injection ES as E1 E2. subst upd s1.
    destruct T as (W1 & C1 & [(Eeof & L1 & Ev) | (Eeof & Ov)]); rewrite Eeof.
    + left. subst oM. exists d'. split; [reflexivity | exact L1].
    + right. split; [reflexivity | exact Ov].
Qed.

(* ------------------------------------------------------------------------------------------------------------ *)
(* read_segment_updates                                                                                         *)
(* ------------------------------------------------------------------------------------------------------------ *)
Lemma skipn_nth_cons {A} (l : list A) : forall i d, (i < length l)%nat -> skipn i l = nth i l d :: skipn (S i) l.
Proof.
  induction l as [|y l IH]; intros i d H; [cbn in H; lia|]. destruct i as [|i]; [reflexivity|].
  cbn [skipn nth]. apply IH. cbn in H. lia.
Qed.

Fixpoint zip_with {A B} (f : A -> B -> A) (l : list A) (xs : list B) : list A :=
  match l, xs with a :: l', x :: xs' => f a x :: zip_with f l' xs' | _, _ => [] end.

(* for j in i..i+k { segs[j] = setf segs[j] (read_optional_signed_value(n) as i8) } *)
Lemma read_segment_levels_ok k : forall i segs d n setf, wsafe d -> big d -> 0 <= n <= 7 -> (i + k <= length segs)%nat ->
  read_segment_levels k (Z.of_nat i) segs d n setf
  = Ok (let '(vals, d') := interpG cold_pure (G_arr k n) d in
        (firstn i segs ++ zip_with setf (firstn k (skipn i segs)) vals ++ skipn (i + k) segs, d')) /\
  wsafe (snd (interpG cold_pure (G_arr k n) d)) /\ big (snd (interpG cold_pure (G_arr k n) d)) /\
  length (fst (interpG cold_pure (G_arr k n) d)) = k.
Proof.
  induction k as [|k IH]; intros i segs d n setf Hw Hb Hn Hl; cbn [read_segment_levels G_arr].
  - cbn [interpG fst snd app length firstn zip_with]. rewrite Nat.add_0_r, firstn_skipn.
    split; [reflexivity|]. split; [exact Hw|]. split; [exact Hb | reflexivity].
  - destruct (mstep_signed d n Hw Hb ltac:(lia)) as (E & W & B & R). rewrite E. rewrite !interpG_bind.
    destruct (interpG cold_pure (g_signed n) d) as [x d1]. cbn [fst snd bind] in *. rewrite !interpG_bind.
    rewrite (idx_ok segs (Z.of_nat i) Segment_default) by lia. cbn [bind]. rewrite Nat2Z.id.
    rewrite set_idx_ok by lia. cbn [bind]. replace (Z.of_nat i + 1) with (Z.of_nat (S i)) by lia.
    assert (Hx : wrapS 8 x = x).
    { unfold wrapS. change (2 ^ (8 - 1)) with 128. change (2 ^ 8) with 256.
      pose proof (pow2_le n 7 ltac:(lia)). change (2 ^ 7) with 128 in *. rewrite Z.mod_small by lia. lia. }
    rewrite Hx.
    destruct (IH (S i) (updZ segs (Z.of_nat i) (setf (nth i segs Segment_default) x)) d1 n setf W B Hn ltac:(rewrite updZ_length; lia)) as (E2 & W2 & B2 & L2).
    rewrite E2. destruct (interpG cold_pure (G_arr k n) d1) as [vals d2]. cbn [interpG fst snd length] in *.
    split; [|split; [exact W2|]; split; [exact B2 | lia]].
    f_equal. f_equal. unfold updZ. rewrite Nat2Z.id. rewrite firstn_upd_S by lia. rewrite !skipn_upd_above by lia.
    rewrite (skipn_nth_cons segs i Segment_default) by lia. cbn [firstn zip_with].
    rewrite <- app_assoc. cbn [app]. replace (S i + k)%nat with (i + S k)%nat by lia. reflexivity.
Qed.

Lemma set_all_delta_values_ok k : forall i segs x, (i + k <= length segs)%nat ->
  set_all_delta_values k (Z.of_nat i) segs x
  = Ok (firstn i segs ++ map (fun s => seg_set_delta_values s x) (firstn k (skipn i segs)) ++ skipn (i + k) segs).
Proof.
  induction k as [|k IH]; intros i segs x Hl; cbn [set_all_delta_values].
  - cbn [firstn map app]. rewrite Nat.add_0_r, firstn_skipn. reflexivity.
  - rewrite (idx_ok segs (Z.of_nat i) Segment_default) by lia. cbn [bind]. rewrite Nat2Z.id.
    rewrite set_idx_ok by lia. cbn [bind]. replace (Z.of_nat i + 1) with (Z.of_nat (S i)) by lia.
    rewrite IH by (rewrite updZ_length; lia). f_equal.
    unfold updZ. rewrite Nat2Z.id. rewrite firstn_upd_S by lia. rewrite !skipn_upd_above by lia.
    rewrite (skipn_nth_cons segs i Segment_default) by lia. cbn [firstn map].
    rewrite <- app_assoc. cbn [app]. replace (S i + k)%nat with (i + S k)%nat by lia. reflexivity.
Qed.

(* k times: flag, then 8 bits or the default 255 *)
Fixpoint G_probs (k : nat) : gprog (list Z) :=
  match k with
  | O => GRet []
  | S m => gbind g_flag (fun u => gbind (if u then g_lit 8 else GRet 255) (fun p => gbind (G_probs m) (fun l => GRet (p :: l))))
  end.

Lemma G_probs_probs k : gprobs_ok (G_probs k).
Proof.
  induction k as [|k IH]; cbn [G_probs]; [exact I|].
  apply gprobs_bind; [apply g_flag_probs|]. intros u. apply gprobs_bind; [destruct u; [apply g_lit_probs | exact I]|].
  intros p. apply gprobs_bind; [exact IH | intros l; exact I].
Qed.

Lemma read_segment_tree_probs_ok k : forall i nodes d, wsafe d -> big d -> (i + k <= length nodes)%nat ->
  read_segment_tree_probs k (Z.of_nat i) nodes d
  = Ok (let '(vals, d') := interpG cold_pure (G_probs k) d in
        (firstn i nodes ++ zip_with node_set_prob (firstn k (skipn i nodes)) vals ++ skipn (i + k) nodes, d')) /\
  wsafe (snd (interpG cold_pure (G_probs k) d)) /\ big (snd (interpG cold_pure (G_probs k) d)) /\
  length (fst (interpG cold_pure (G_probs k) d)) = k /\ Forall byte (fst (interpG cold_pure (G_probs k) d)).
Proof.
  induction k as [|k IH]; intros i nodes d Hw Hb Hl; cbn [read_segment_tree_probs G_probs].
  - cbn [interpG fst snd app length firstn zip_with]. rewrite Nat.add_0_r, firstn_skipn.
    split; [reflexivity|]. split; [exact Hw|]. split; [exact Hb|]. split; [reflexivity | constructor].
  - destruct (mstep_flag d Hw Hb) as (E & W & B). rewrite E. rewrite !interpG_bind.
    destruct (interpG cold_pure g_flag d) as [u d1]. cbn [fst snd bind] in *. rewrite !interpG_bind.
    assert (Hstep : exists p d2, (if u then read_literal d1 8 else Ok (255, d1)) = Ok (p, d2) /\
                      interpG cold_pure (if u then g_lit 8 else GRet 255) d1 = (p, d2) /\ wsafe d2 /\ big d2 /\ byte p).
    { destruct u.
      - destruct (mstep_lit d1 8 W B ltac:(lia)) as (E1 & W1 & B1 & R1). destruct (interpG cold_pure (g_lit 8) d1) as [p d2].
        exists p, d2. cbn [fst snd] in *. change (2 ^ 8) with 256 in R1. unfold byte.
        split; [exact E1|]. split; [reflexivity|]. split; [exact W1|]. split; [exact B1 | lia].
      - exists 255, d1. cbn [interpG]. unfold byte. split; [reflexivity|]. split; [reflexivity|]. split; [exact W|]. split; [exact B | lia]. }
    destruct Hstep as [p [d2 (Ep & EGp & W2 & B2 & Hp)]]. rewrite Ep, EGp. cbn [bind]. rewrite !interpG_bind.
    rewrite (idx_ok nodes (Z.of_nat i) UNINIT) by lia. cbn [bind]. rewrite Nat2Z.id.
    rewrite set_idx_ok by lia. cbn [bind]. replace (Z.of_nat i + 1) with (Z.of_nat (S i)) by lia.
    destruct (IH (S i) (updZ nodes (Z.of_nat i) (node_set_prob (nth i nodes UNINIT) p)) d2 W2 B2 ltac:(rewrite updZ_length; lia)) as (E2 & W3 & B3 & L3 & F3).
    rewrite E2. destruct (interpG cold_pure (G_probs k) d2) as [vals d3]. cbn [interpG fst snd length] in *.
    split; [|split; [exact W3|]; split; [exact B3|]; split; [lia | constructor; assumption]].
    f_equal. f_equal. unfold updZ. rewrite Nat2Z.id. rewrite firstn_upd_S by lia. rewrite !skipn_upd_above by lia.
    rewrite (skipn_nth_cons nodes i UNINIT) by lia. cbn [firstn zip_with].
    rewrite <- app_assoc. cbn [app]. replace (S i + k)%nat with (i + S k)%nat by lia. reflexivity.
Qed.

Lemma read_opt_lit_n k : forall s acc,
  read_n (read_opt_lit 8 255) k s acc = (let '(vals, s') := interpG bdbit (G_probs k) s in (rev_append acc vals, s')).
Proof.
  induction k as [|k IH]; intros s acc; cbn [read_n G_probs]; [cbn [interpG]; reflexivity|].
  unfold read_opt_lit at 1. rewrite sstep_flag. rewrite !interpG_bind. destruct (interpG bdbit g_flag s) as [u s1]. cbn [fst snd].
  destruct u; cbn [ArithDec.b2z isone Z.eqb Pos.eqb].
  - rewrite sstep_lit by lia. rewrite !interpG_bind. destruct (interpG bdbit (g_lit 8) s1) as [p s2].
    rewrite IH. rewrite !interpG_bind. destruct (interpG bdbit (G_probs k) s2) as [vals s3]. cbn [interpG rev_append]. reflexivity.
  - rewrite IH. rewrite !interpG_bind. cbn [interpG]. rewrite !interpG_bind. destruct (interpG bdbit (G_probs k) s1) as [vals s3]. cbn [interpG rev_append]. reflexivity.
Qed.

(* the loops over a whole array *)
Lemma splice_all {A} (l mid : list A) k : length l = k -> firstn 0 l ++ mid ++ skipn (0 + k) l = mid.
Proof. intros H. cbn [firstn app Nat.add]. rewrite skipn_all2 by lia. apply app_nil_r. Qed.

Lemma set_all_delta_values_all segs x : length segs = 4%nat ->
  set_all_delta_values 4 0 segs x = Ok (map (fun s => seg_set_delta_values s x) segs).
Proof.
  intros L. pose proof (set_all_delta_values_ok 4 0 segs x ltac:(lia)) as X. change (Z.of_nat 0) with 0 in X. rewrite X.
  rewrite splice_all by exact L. change (skipn 0 segs) with segs. rewrite firstn_all2 by lia. reflexivity.
Qed.

Lemma read_segment_levels_all segs d n setf : wsafe d -> big d -> 0 <= n <= 7 -> length segs = 4%nat ->
  read_segment_levels 4 0 segs d n setf
  = Ok (let '(vals, d') := interpG cold_pure (G_arr 4 n) d in (zip_with setf segs vals, d')) /\
  wsafe (snd (interpG cold_pure (G_arr 4 n) d)) /\ big (snd (interpG cold_pure (G_arr 4 n) d)) /\
  length (fst (interpG cold_pure (G_arr 4 n) d)) = 4%nat.
Proof.
  intros Hw Hb Hn L. destruct (read_segment_levels_ok 4 0 segs d n setf Hw Hb Hn ltac:(lia)) as (E & W & B & LL).
  change (Z.of_nat 0) with 0 in E. rewrite E. split; [|split; [exact W|]; split; [exact B | exact LL]].
  destruct (interpG cold_pure (G_arr 4 n) d) as [vals d']. rewrite splice_all by exact L.
  change (skipn 0 segs) with segs. rewrite firstn_all2 by lia. reflexivity.
Qed.

Lemma read_segment_tree_probs_all nodes d : wsafe d -> big d -> length nodes = 3%nat ->
  read_segment_tree_probs 3 0 nodes d
  = Ok (let '(vals, d') := interpG cold_pure (G_probs 3) d in (zip_with node_set_prob nodes vals, d')) /\
  wsafe (snd (interpG cold_pure (G_probs 3) d)) /\ big (snd (interpG cold_pure (G_probs 3) d)) /\
  length (fst (interpG cold_pure (G_probs 3) d)) = 3%nat /\ Forall byte (fst (interpG cold_pure (G_probs 3) d)).
Proof.
  intros Hw Hb L. destruct (read_segment_tree_probs_ok 3 0 nodes d Hw Hb ltac:(lia)) as (E & W & B & LL & F).
  change (Z.of_nat 0) with 0 in E. rewrite E. split; [|split; [exact W|]; split; [exact B|]; split; [exact LL | exact F]].
  destruct (interpG cold_pure (G_probs 3) d) as [vals d']. rewrite splice_all by exact L.
  change (skipn 0 nodes) with nodes. rewrite firstn_all2 by lia. reflexivity.
Qed.

(* result: update_map, Some (segment_feature_mode, quantizer levels, loop-filter levels), Some tree probabilities *)
Definition G_segu : gprog (bool * option (bool * list Z * list Z) * option (list Z)) :=
  gbind g_flag (fun um => gbind g_flag (fun ud =>
  gbind (if ud then gbind g_flag (fun mode => gbind (G_arr 4 7) (fun q => gbind (G_arr 4 6) (fun l => GRet (Some (mode, q, l))))) else GRet None) (fun dat =>
  gbind (if um then gbind (G_probs 3) (fun p => GRet (Some p)) else GRet None) (fun pr => GRet (um, dat, pr))))).

Lemma G_segu_probs : gprobs_ok G_segu.
Proof.
  unfold G_segu. apply gprobs_bind; [apply g_flag_probs|]. intros um. apply gprobs_bind; [apply g_flag_probs|]. intros ud.
  apply gprobs_bind.
  { destruct ud; [|exact I]. apply gprobs_bind; [apply g_flag_probs|]. intros mode.
    apply gprobs_bind; [apply G_arr_probs|]. intros q. apply gprobs_bind; [apply G_arr_probs | intros l; exact I]. }
  intros dat. apply gprobs_bind; [destruct um; [apply gprobs_bind; [apply G_probs_probs | intros p; exact I] | exact I] | intros pr; exact I].
Qed.

Definition segu_segments (segs : list Segment) (dat : option (bool * list Z * list Z)) : list Segment :=
  match dat with
  | Some (mode, q, l) =>
    zip_with seg_set_loopfilter_level (zip_with seg_set_quantizer_level (map (fun s => seg_set_delta_values s (negb mode)) segs) q) l
  | None => segs
  end.
Definition segu_nodes (nodes : list TreeNode) (pr : option (list Z)) : list TreeNode :=
  match pr with Some p => zip_with node_set_prob nodes p | None => nodes end.
Definition segu_state (v : Vp8) (r : bool * option (bool * list Z * list Z) * option (list Z)) (d' : Dec) : Vp8 :=
  let '(um, dat, pr) := r in
  set_b (set_segment_tree_nodes (set_segment (set_segments_update_map v um) (segu_segments (v_segment v) dat))
                                (segu_nodes (v_segment_tree_nodes v) pr)) d'.

(* the segmentation block of Spec.VP8.parse_header *)
Definition spec_segment_block (s : bstate) : (bool * (bool * list Z * list Z) * list Z) * bstate :=
  let '(update_map, s) := BoolDec.read_flag s in
  let '(update_data, s) := BoolDec.read_flag s in
  let '(dat, s) :=
    if isone update_data then
      let '(absolute, s) := BoolDec.read_flag s in
      let '(q, s) := read_n (read_opt_signed 7) 4 s [] in
      let '(f, s) := read_n (read_opt_signed 6) 4 s [] in
      ((isone absolute, q, f), s)
    else ((true, [0; 0; 0; 0], [0; 0; 0; 0]), s) in
  let '(probs, s) := if isone update_map then read_n (read_opt_lit 8 255) 3 s [] else ([255; 255; 255], s) in
  ((isone update_map, dat, probs), s).

Lemma segu_spec s :
  spec_segment_block s =
  (let '(r, s') := interpG bdbit G_segu s in
   let '(um, dat, pr) := r in
   ((um, match dat with Some x => x | None => (true, [0; 0; 0; 0], [0; 0; 0; 0]) end, match pr with Some p => p | None => [255; 255; 255] end), s')).
Proof.
  unfold spec_segment_block, G_segu.
  rewrite sstep_flag. rewrite !interpG_bind. destruct (interpG bdbit g_flag s) as [um s1]. cbn [fst snd].
  rewrite sstep_flag. rewrite !interpG_bind. destruct (interpG bdbit g_flag s1) as [ud s2]. cbn [fst snd].
  replace (isone (ArithDec.b2z ud)) with ud by (destruct ud; reflexivity).
  replace (isone (ArithDec.b2z um)) with um by (destruct um; reflexivity).
  rewrite !interpG_bind.
  destruct ud.
  - rewrite sstep_flag. rewrite !interpG_bind. destruct (interpG bdbit g_flag s2) as [mode s3]. cbn [fst snd].
    replace (isone (ArithDec.b2z mode)) with mode by (destruct mode; reflexivity).
    rewrite read_opt_signed_n by lia. rewrite !interpG_bind. destruct (interpG bdbit (G_arr 4 7) s3) as [q s4]. cbn [rev_append].
    rewrite read_opt_signed_n by lia. rewrite !interpG_bind. destruct (interpG bdbit (G_arr 4 6) s4) as [l s5]. cbn [rev_append interpG].
    destruct um.
    + rewrite read_opt_lit_n. rewrite !interpG_bind. destruct (interpG bdbit (G_probs 3) s5) as [p s6]. cbn [interpG rev_append]. reflexivity.
    + cbn [interpG]. reflexivity.
  - cbn [interpG]. destruct um.
    + rewrite read_opt_lit_n. rewrite !interpG_bind. destruct (interpG bdbit (G_probs 3) s2) as [p s6]. cbn [interpG rev_append]. reflexivity.
    + cbn [interpG]. reflexivity.
Qed.

Lemma segu_model v : wsafe (v_b v) -> big (v_b v) -> length (v_segment v) = 4%nat -> length (v_segment_tree_nodes v) = 3%nat ->
  read_segment_updates v =
  (let '(r, d') := interpG cold_pure G_segu (v_b v) in if is_past_eof d' then Err EBitStreamError else Ok (segu_state v r d')).
Proof.
  intros Hw Hb L4 L3. unfold read_segment_updates, G_segu.
  destruct (mstep_flag (v_b v) Hw Hb) as (E & W & B). rewrite E. rewrite !interpG_bind.
  destruct (interpG cold_pure g_flag (v_b v)) as [um d1]. cbn [fst snd bind] in *.
  destruct (mstep_flag d1 W B) as (E1 & W1 & B1). rewrite E1. rewrite !interpG_bind.
  destruct (interpG cold_pure g_flag d1) as [ud d2]. cbn [fst snd bind] in *. rewrite !interpG_bind.
  assert (Hum : forall x, v_segments_update_map (set_segments_update_map v x) = x) by (intros x; destruct v; reflexivity).
  assert (Hsg : forall x, v_segment (set_segments_update_map v x) = v_segment v) by (intros x; destruct v; reflexivity).
  assert (Hstn : forall x y, v_segment_tree_nodes (set_segment (set_segments_update_map v x) y) = v_segment_tree_nodes v) by (intros x y; destruct v; reflexivity).
  assert (Hstn2 : forall x, v_segment_tree_nodes (set_segments_update_map v x) = v_segment_tree_nodes v) by (intros x; destruct v; reflexivity).
  assert (Hum2 : forall x y, v_segments_update_map (set_segment (set_segments_update_map v x) y) = x) by (intros x y; destruct v; reflexivity).
  destruct ud.
  - destruct (mstep_flag d2 W1 B1) as (E2 & W2 & B2). rewrite E2. rewrite !interpG_bind.
    destruct (interpG cold_pure g_flag d2) as [mode d3]. cbn [fst snd bind] in *. rewrite !interpG_bind.
    rewrite Hsg. rewrite (set_all_delta_values_all (v_segment v) (negb mode) L4). cbn [bind].
    set (segs1 := map (fun s : Segment => seg_set_delta_values s (negb mode)) (v_segment v)).
    assert (L1 : length segs1 = 4%nat) by (unfold segs1; rewrite map_length; exact L4).
    destruct (read_segment_levels_all segs1 d3 7 seg_set_quantizer_level W2 B2 ltac:(lia) L1) as (E3 & W3 & B3 & LQ).
    rewrite E3. destruct (interpG cold_pure (G_arr 4 7) d3) as [q d4]. cbn [fst snd bind] in *. rewrite !interpG_bind.
    set (segs2 := zip_with seg_set_quantizer_level segs1 q).
    assert (L2 : length segs2 = 4%nat).
    { unfold segs2. clear - L1 LQ. do 5 (destruct segs1 as [|? segs1]; try discriminate). do 5 (destruct q as [|? q]; try discriminate). reflexivity. }
    destruct (read_segment_levels_all segs2 d4 6 seg_set_loopfilter_level W3 B3 ltac:(lia) L2) as (E4 & W4 & B4 & LL).
    rewrite E4. destruct (interpG cold_pure (G_arr 4 6) d4) as [l d5]. cbn [fst snd bind interpG] in *.
    rewrite Hum2.
    destruct um.
    + rewrite Hstn. destruct (read_segment_tree_probs_all (v_segment_tree_nodes v) d5 W4 B4 L3) as (E5 & W5 & B5 & L5 & _).
      rewrite E5. rewrite !interpG_bind.
      destruct (interpG cold_pure (G_probs 3) d5) as [p d6]. cbn [fst snd bind interpG] in *.
      rewrite check_cases. unfold segu_state, segu_segments, segu_nodes.
      destruct (is_past_eof d6); cbn [bind]; reflexivity.
    + cbn [bind interpG gbind]. rewrite check_cases. unfold segu_state, segu_segments, segu_nodes. destruct (is_past_eof d5); cbn [bind]; try reflexivity; f_equal; destruct v; reflexivity.
  - cbn [interpG bind gbind]. rewrite Hum. destruct um.
    + rewrite Hstn2. destruct (read_segment_tree_probs_all (v_segment_tree_nodes v) d2 W1 B1 L3) as (E5 & W5 & B5 & L5 & _).
      rewrite E5. rewrite !interpG_bind.
      destruct (interpG cold_pure (G_probs 3) d2) as [p d6]. cbn [fst snd bind interpG] in *.
      rewrite check_cases. unfold segu_state, segu_segments, segu_nodes.
      destruct (is_past_eof d6); cbn [bind]; try reflexivity; f_equal; destruct v; reflexivity.
    + cbn [bind interpG gbind]. rewrite check_cases. unfold segu_state, segu_segments, segu_nodes. destruct (is_past_eof d2); cbn [bind]; try reflexivity; f_equal; destruct v; reflexivity.
Qed.

Theorem read_segment_updates_refines : forall data, Forall byte data -> C15_model.len data < 2 ^ 63 ->
  forall (v : Vp8) (s : bstate),
  length (v_segment v) = 4%nat -> length (v_segment_tree_nodes v) = 3%nat -> linked data s (v_b v) ->
  let '((um, (absolute, q, f), probs), s') := spec_segment_block s in
  (exists r d', read_segment_updates v = Ok (segu_state v r d') /\ linked data s' d' /\
     fst (fst r) = um /\
     match snd (fst r) with Some (mode, q', f') => mode = absolute /\ q' = q /\ f' = f | None => (absolute, q, f) = (true, [0; 0; 0; 0], [0; 0; 0; 0]) end /\
     match snd r with Some p => p = probs | None => probs = [255; 255; 255] end)
  \/ (read_segment_updates v = Err EBitStreamError /\ over_read data s').
Proof.
  intros data Hbytes Hlen v s L4 L3 Hlink.
  destruct (linked_wsafe data Hlen s (v_b v) Hlink) as [Hw Hbig].
  rewrite (segu_model v Hw Hbig L4 L3). rewrite segu_spec.
  pose proof (transfer_run data Hbytes Hlen G_segu s (v_b v) Hlink G_segu_probs) as T. cbv zeta in T.
  destruct (interpG bdbit G_segu s) as [[[umS datS] prS] s2]. destruct (interpG cold_pure G_segu (v_b v)) as [rM d']. cbn [fst snd] in T.
  destruct T as (W1 & C1 & [(Eeof & L1 & Ev) | (Eeof & Ov)]); rewrite Eeof.
  - subst rM.
    destruct datS as [[[mode q] f]|]; destruct prS as [p|]; left; eexists; exists d'; (split; [reflexivity|]); (split; [exact L1|]); cbn [fst snd]; repeat split.
  - destruct datS as [[[mode q] f]|]; destruct prS as [p|]; right; (split; [reflexivity | exact Ov]).
Qed.

(* ------------------------------------------------------------------------------------------------------------ *)
(* update_token_probabilities                                                                                   *)
(* ------------------------------------------------------------------------------------------------------------ *)
Fixpoint G_prow (us ds : list Z) : gprog (list Z) :=
  match us, ds with
  | u :: utl, d :: dtl =>
    gbind (GRead u (fun b => if b then g_lit 8 else GRet d)) (fun p => gbind (G_prow utl dtl) (fun l => GRet (p :: l)))
  | _, _ => GRet []
  end.
Fixpoint G_p3 (us ds : list (list Z)) : gprog (list (list Z)) :=
  match us, ds with
  | u :: utl, d :: dtl => gbind (G_prow u d) (fun r => gbind (G_p3 utl dtl) (fun l => GRet (r :: l)))
  | _, _ => GRet []
  end.
Fixpoint G_p2 (us ds : list (list (list Z))) : gprog (list (list (list Z))) :=
  match us, ds with
  | u :: utl, d :: dtl => gbind (G_p3 u d) (fun r => gbind (G_p2 utl dtl) (fun l => GRet (r :: l)))
  | _, _ => GRet []
  end.
Fixpoint G_p1 (us ds : list (list (list (list Z)))) : gprog (list (list (list (list Z)))) :=
  match us, ds with
  | u :: utl, d :: dtl => gbind (G_p2 u d) (fun r => gbind (G_p1 utl dtl) (fun l => GRet (r :: l)))
  | _, _ => GRet []
  end.

Lemma G_prow_probs us : Forall byte us -> forall ds, gprobs_ok (G_prow us ds).
Proof.
  induction 1 as [|u utl Hu Hutl IH]; intros ds; [destruct ds; exact I|]. destruct ds as [|d dtl]; [exact I|]. cbn [G_prow].
  apply gprobs_bind.
  - cbn [gprobs_ok]. unfold byte in Hu. split; [lia|]. split; [apply g_lit_probs | exact I].
  - intros p. apply gprobs_bind; [apply IH | intros l; exact I].
Qed.
Lemma G_p3_probs us : Forall (Forall byte) us -> forall ds, gprobs_ok (G_p3 us ds).
Proof.
  induction 1 as [|u utl Hu Hutl IH]; intros ds; [destruct ds; exact I|]. destruct ds as [|d dtl]; [exact I|]. cbn [G_p3].
  apply gprobs_bind; [apply G_prow_probs; exact Hu|]. intros r. apply gprobs_bind; [apply IH | intros l; exact I].
Qed.
Lemma G_p2_probs us : Forall (Forall (Forall byte)) us -> forall ds, gprobs_ok (G_p2 us ds).
Proof.
  induction 1 as [|u utl Hu Hutl IH]; intros ds; [destruct ds; exact I|]. destruct ds as [|d dtl]; [exact I|]. cbn [G_p2].
  apply gprobs_bind; [apply G_p3_probs; exact Hu|]. intros r. apply gprobs_bind; [apply IH | intros l; exact I].
Qed.
Lemma G_p1_probs us : Forall (Forall (Forall (Forall byte))) us -> forall ds, gprobs_ok (G_p1 us ds).
Proof.
  induction 1 as [|u utl Hu Hutl IH]; intros ds; [destruct ds; exact I|]. destruct ds as [|d dtl]; [exact I|]. cbn [G_p1].
  apply gprobs_bind; [apply G_p2_probs; exact Hu|]. intros r. apply gprobs_bind; [apply IH | intros l; exact I].
Qed.

(* Spec side *)
Lemma spec_prow us : forall ds s acc,
  parse_proba_row us ds s acc = (let '(ps, s') := interpG bdbit (G_prow us ds) s in (rev_append acc ps, s')).
Proof.
  induction us as [|u utl IH]; intros ds s acc; [destruct ds; reflexivity|]. destruct ds as [|d dtl]; [reflexivity|].
  cbn [parse_proba_row G_prow]. rewrite bd_read_bool_bit. rewrite !interpG_bind. cbn [interpG].
  destruct (bdbit s u) as [b s1]. cbn [fst snd]. destruct b; cbn [ArithDec.b2z isone Z.eqb Pos.eqb].
  - rewrite sstep_lit by lia. destruct (interpG bdbit (g_lit 8) s1) as [x s2]. rewrite IH. rewrite !interpG_bind.
    destruct (interpG bdbit (G_prow utl dtl) s2) as [ps s3]. cbn [interpG rev_append]. reflexivity.
  - cbn [interpG]. rewrite IH. rewrite !interpG_bind. destruct (interpG bdbit (G_prow utl dtl) s1) as [ps s3]. cbn [interpG rev_append]. reflexivity.
Qed.
Lemma spec_p3 us : forall ds s acc,
  parse_proba_3 us ds s acc = (let '(ps, s') := interpG bdbit (G_p3 us ds) s in (rev_append acc ps, s')).
Proof.
  induction us as [|u utl IH]; intros ds s acc; [destruct ds; reflexivity|]. destruct ds as [|d dtl]; [reflexivity|].
  cbn [parse_proba_3 G_p3]. rewrite spec_prow. rewrite !interpG_bind. destruct (interpG bdbit (G_prow u d) s) as [r s1]. cbn [rev_append].
  rewrite IH. rewrite !interpG_bind. destruct (interpG bdbit (G_p3 utl dtl) s1) as [ps s2]. cbn [interpG rev_append]. reflexivity.
Qed.
Lemma spec_p2 us : forall ds s acc,
  parse_proba_2 us ds s acc = (let '(ps, s') := interpG bdbit (G_p2 us ds) s in (rev_append acc ps, s')).
Proof.
  induction us as [|u utl IH]; intros ds s acc; [destruct ds; reflexivity|]. destruct ds as [|d dtl]; [reflexivity|].
  cbn [parse_proba_2 G_p2]. rewrite spec_p3. rewrite !interpG_bind. destruct (interpG bdbit (G_p3 u d) s) as [r s1]. cbn [rev_append].
  rewrite IH. rewrite !interpG_bind. destruct (interpG bdbit (G_p2 utl dtl) s1) as [ps s2]. cbn [interpG rev_append]. reflexivity.
Qed.
Lemma spec_p1 us : forall ds s acc,
  parse_proba_1 us ds s acc = (let '(ps, s') := interpG bdbit (G_p1 us ds) s in (rev_append acc ps, s')).
Proof.
  induction us as [|u utl IH]; intros ds s acc; [destruct ds; reflexivity|]. destruct ds as [|d dtl]; [reflexivity|].
  cbn [parse_proba_1 G_p1]. rewrite spec_p2. rewrite !interpG_bind. destruct (interpG bdbit (G_p2 u d) s) as [r s1]. cbn [rev_append].
  rewrite IH. rewrite !interpG_bind. destruct (interpG bdbit (G_p1 utl dtl) s1) as [ps s2]. cbn [interpG rev_append]. reflexivity.
Qed.

(* Model side: node tables in, node tables out; the probabilities read are bytes *)
Lemma node_set_prob_id nd : node_set_prob nd (prob nd) = nd.
Proof. destruct nd; reflexivity. Qed.

Lemma model_prow us : Forall byte us -> forall nodes d, wsafe d -> big d -> length nodes = length us ->
  update_probs_row us nodes d
  = Ok (let '(ps, d') := interpG cold_pure (G_prow us (map prob nodes)) d in (zip_with node_set_prob nodes ps, d')) /\
  wsafe (snd (interpG cold_pure (G_prow us (map prob nodes)) d)) /\ big (snd (interpG cold_pure (G_prow us (map prob nodes)) d)) /\
  length (fst (interpG cold_pure (G_prow us (map prob nodes)) d)) = length us /\
  (Forall byte (map prob nodes) -> Forall byte (fst (interpG cold_pure (G_prow us (map prob nodes)) d))).
Proof.
  induction 1 as [|u utl Hu Hutl IH]; intros nodes d Hw Hb Hl.
  - destruct nodes; [|discriminate]. cbn [update_probs_row map G_prow interpG fst snd zip_with length].
    split; [reflexivity|]. split; [exact Hw|]. split; [exact Hb|]. split; [reflexivity | intros _; constructor].
  - destruct nodes as [|nd ntl]; [discriminate|]. cbn [update_probs_row map G_prow]. unfold byte in Hu.
    rewrite m_read_bool by assumption. cbn [bind]. rewrite !interpG_bind. cbn [interpG].
    destruct (cold_pure_wsafe d u Hw Hu) as [W1 C1]. destruct (cold_pure d u) as [b d1]. cbn [snd] in *.
    assert (B1 : big d1) by (apply (big_chunks d); assumption).
    assert (Hstep : exists p d2, (if b then bind (read_literal d1 8) (fun '(x, d2) => Ok (node_set_prob nd x, d2)) else Ok (nd, d1)) = Ok (node_set_prob nd p, d2) /\
                      interpG cold_pure (if b then g_lit 8 else GRet (prob nd)) d1 = (p, d2) /\ wsafe d2 /\ big d2 /\ (byte (prob nd) -> byte p)).
    { destruct b.
      - destruct (mstep_lit d1 8 W1 B1 ltac:(lia)) as (E1 & W2 & B2 & R2). rewrite E1. destruct (interpG cold_pure (g_lit 8) d1) as [p d2].
        exists p, d2. cbn [fst snd bind] in *. change (2 ^ 8) with 256 in R2.
        split; [reflexivity|]. split; [reflexivity|]. split; [exact W2|]. split; [exact B2 | intros _; unfold byte; lia].
      - exists (prob nd), d1. cbn [interpG]. rewrite node_set_prob_id.
        split; [reflexivity|]. split; [reflexivity|]. split; [exact W1|]. split; [exact B1 | exact id]. }
    destruct Hstep as [p [d2 (Ep & EGp & W2 & B2 & Hp)]]. rewrite Ep, EGp. cbn [bind]. rewrite !interpG_bind.
    destruct (IH ntl d2 W2 B2 ltac:(cbn in Hl; lia)) as (E2 & W3 & B3 & L3 & F3). rewrite E2.
    destruct (interpG cold_pure (G_prow utl (map prob ntl)) d2) as [ps d3]. cbn [bind interpG fst snd zip_with length] in *.
    split; [reflexivity|]. split; [exact W3|]. split; [exact B3|]. split; [lia|].
    intros HF. inversion HF; subst. constructor; [apply Hp; assumption | apply F3; assumption].
Qed.

Definition row_nodes_ok (nodes : list TreeNode) : Prop := length nodes = 11%nat /\ Forall byte (map prob nodes).

Lemma model_p3 us : Forall (fun u => length u = 11%nat /\ Forall byte u) us -> forall nodes d, wsafe d -> big d -> length nodes = length us ->
  Forall row_nodes_ok nodes ->
  update_probs_3 us nodes d
  = Ok (let '(ps, d') := interpG cold_pure (G_p3 us (map (map prob) nodes)) d in (zip_with (zip_with node_set_prob) nodes ps, d')) /\
  wsafe (snd (interpG cold_pure (G_p3 us (map (map prob) nodes)) d)) /\ big (snd (interpG cold_pure (G_p3 us (map (map prob) nodes)) d)) /\
  length (fst (interpG cold_pure (G_p3 us (map (map prob) nodes)) d)) = length us /\
  Forall (fun r => length r = 11%nat /\ Forall byte r) (fst (interpG cold_pure (G_p3 us (map (map prob) nodes)) d)).
Proof.
  induction 1 as [|u utl [Lu Hu] Hutl IH]; intros nodes d Hw Hb Hl Hn.
  - destruct nodes; [|discriminate]. cbn [update_probs_3 map G_p3 interpG fst snd zip_with length].
    split; [reflexivity|]. split; [exact Hw|]. split; [exact Hb|]. split; [reflexivity | constructor].
  - destruct nodes as [|nd ntl]; [discriminate|]. inversion Hn as [|? ? [Lnd Fnd] Hntl]; subst. cbn [update_probs_3 map G_p3].
    rewrite firstn_all2 by lia.
    destruct (model_prow u Hu nd d Hw Hb ltac:(lia)) as (E1 & W1 & B1 & L1 & F1). rewrite E1. rewrite !interpG_bind.
    destruct (interpG cold_pure (G_prow u (map prob nd)) d) as [r d1]. cbn [fst snd bind] in *. rewrite !interpG_bind.
    destruct (IH ntl d1 W1 B1 ltac:(cbn in Hl; lia) Hntl) as (E2 & W2 & B2 & L2 & F2). rewrite E2.
    destruct (interpG cold_pure (G_p3 utl (map (map prob) ntl)) d1) as [ps d2]. cbn [bind interpG fst snd zip_with length] in *.
    split; [reflexivity|]. split; [exact W2|]. split; [exact B2|]. split; [lia|].
    constructor; [split; [lia | apply F1; exact Fnd] | exact F2].
Qed.

Definition rows3_ok (u : list (list Z)) : Prop := length u = 3%nat /\ Forall (fun r => length r = 11%nat /\ Forall byte r) u.
Definition nodes3_ok (n : list (list TreeNode)) : Prop := length n = 3%nat /\ Forall row_nodes_ok n.

Lemma model_p2 us : Forall rows3_ok us -> forall nodes d, wsafe d -> big d -> length nodes = length us -> Forall nodes3_ok nodes ->
  update_probs_2 us nodes d
  = Ok (let '(ps, d') := interpG cold_pure (G_p2 us (map (map (map prob)) nodes)) d in (zip_with (zip_with (zip_with node_set_prob)) nodes ps, d')) /\
  wsafe (snd (interpG cold_pure (G_p2 us (map (map (map prob)) nodes)) d)) /\ big (snd (interpG cold_pure (G_p2 us (map (map (map prob)) nodes)) d)) /\
  length (fst (interpG cold_pure (G_p2 us (map (map (map prob)) nodes)) d)) = length us /\
  Forall rows3_ok (fst (interpG cold_pure (G_p2 us (map (map (map prob)) nodes)) d)).
Proof.
  induction 1 as [|u utl [Lu Hu] Hutl IH]; intros nodes d Hw Hb Hl Hn.
  - destruct nodes; [|discriminate]. cbn [update_probs_2 map G_p2 interpG fst snd zip_with length].
    split; [reflexivity|]. split; [exact Hw|]. split; [exact Hb|]. split; [reflexivity | constructor].
  - destruct nodes as [|nd ntl]; [discriminate|]. inversion Hn as [|? ? [Lnd Fnd] Hntl]; subst. cbn [update_probs_2 map G_p2].
    destruct (model_p3 u Hu nd d Hw Hb ltac:(lia) Fnd) as (E1 & W1 & B1 & L1 & F1). rewrite E1. rewrite !interpG_bind.
    destruct (interpG cold_pure (G_p3 u (map (map prob) nd)) d) as [r d1]. cbn [fst snd bind] in *. rewrite !interpG_bind.
    destruct (IH ntl d1 W1 B1 ltac:(cbn in Hl; lia) Hntl) as (E2 & W2 & B2 & L2 & F2). rewrite E2.
    destruct (interpG cold_pure (G_p2 utl (map (map (map prob)) ntl)) d1) as [ps d2]. cbn [bind interpG fst snd zip_with length] in *.
    split; [reflexivity|]. split; [exact W2|]. split; [exact B2|]. split; [lia|].
    constructor; [split; [lia | exact F1] | exact F2].
Qed.

Definition rows2_ok (u : list (list (list Z))) : Prop := length u = 8%nat /\ Forall rows3_ok u.
Definition nodes2_ok (n : list (list (list TreeNode))) : Prop := length n = 8%nat /\ Forall nodes3_ok n.

Lemma model_p1 us : Forall rows2_ok us -> forall nodes d, wsafe d -> big d -> length nodes = length us -> Forall nodes2_ok nodes ->
  update_probs_1 us nodes d
  = Ok (let '(ps, d') := interpG cold_pure (G_p1 us (map (map (map (map prob))) nodes)) d in
        (zip_with (zip_with (zip_with (zip_with node_set_prob))) nodes ps, d')) /\
  wsafe (snd (interpG cold_pure (G_p1 us (map (map (map (map prob))) nodes)) d)) /\ big (snd (interpG cold_pure (G_p1 us (map (map (map (map prob))) nodes)) d)) /\
  length (fst (interpG cold_pure (G_p1 us (map (map (map (map prob))) nodes)) d)) = length us /\
  Forall rows2_ok (fst (interpG cold_pure (G_p1 us (map (map (map (map prob))) nodes)) d)).
Proof.
  induction 1 as [|u utl [Lu Hu] Hutl IH]; intros nodes d Hw Hb Hl Hn.
  - destruct nodes; [|discriminate]. cbn [update_probs_1 map G_p1 interpG fst snd zip_with length].
    split; [reflexivity|]. split; [exact Hw|]. split; [exact Hb|]. split; [reflexivity | constructor].
  - destruct nodes as [|nd ntl]; [discriminate|]. inversion Hn as [|? ? [Lnd Fnd] Hntl]; subst. cbn [update_probs_1 map G_p1].
    destruct (model_p2 u Hu nd d Hw Hb ltac:(lia) Fnd) as (E1 & W1 & B1 & L1 & F1). rewrite E1. rewrite !interpG_bind.
    destruct (interpG cold_pure (G_p2 u (map (map (map prob)) nd)) d) as [r d1]. cbn [fst snd bind] in *. rewrite !interpG_bind.
    destruct (IH ntl d1 W1 B1 ltac:(cbn in Hl; lia) Hntl) as (E2 & W2 & B2 & L2 & F2). rewrite E2.
    destruct (interpG cold_pure (G_p1 utl (map (map (map (map prob))) ntl)) d1) as [ps d2]. cbn [bind interpG fst snd zip_with length] in *.
    split; [reflexivity|]. split; [exact W2|]. split; [exact B2|]. split; [lia|].
    constructor; [split; [lia | exact F1] | exact F2].
Qed.

(* node tables <-> probability tables *)
Lemma map_res_zip {A B} (f : A -> res B) (upd : B -> A -> B) (Q : A -> Prop) :
  (forall a b a', f a = Ok b -> Q a -> Q a' -> f a' = Ok (upd b a')) ->
  forall l r l', map_res f l = Ok r -> Forall Q l -> Forall Q l' -> length l' = length l -> map_res f l' = Ok (zip_with upd r l').
Proof.
  intros Hf. induction l as [|a l IH]; intros r l' E HQ HQ' Hl; cbn [map_res] in E.
  - injection E as <-. destruct l'; [reflexivity | discriminate].
  - destruct (f a) as [b| | |] eqn:Ea; cbn [bind] in E; try discriminate.
    destruct (map_res f l) as [r0| | |] eqn:Er; cbn [bind] in E; try discriminate. injection E as <-.
    destruct l' as [|a' l']; [discriminate|]. inversion HQ; subst. inversion HQ'; subst.
    cbn [map_res zip_with]. rewrite (Hf a b a' Ea) by assumption. cbn [bind].
    rewrite (IH r0 l' eq_refl) by (try assumption; cbn in Hl; lia). reflexivity.
Qed.

Lemma map_res_proj {A B} (f : A -> res B) (proj : B -> A) (Q : A -> Prop) :
  (forall a b, f a = Ok b -> Q a -> proj b = a) -> forall l r, map_res f l = Ok r -> Forall Q l -> map proj r = l.
Proof.
  intros Hf. induction l as [|a l IH]; intros r E HQ; cbn [map_res] in E.
  - injection E as <-. reflexivity.
  - destruct (f a) as [b| | |] eqn:Ea; cbn [bind] in E; try discriminate.
    destruct (map_res f l) as [r0| | |] eqn:Er; cbn [bind] in E; try discriminate. injection E as <-.
    inversion HQ; subst. cbn [map]. rewrite (Hf a b Ea) by assumption. rewrite (IH r0 eq_refl) by assumption. reflexivity.
Qed.

Lemma map_res_Forall {A B} (f : A -> res B) (Q : A -> Prop) (R : B -> Prop) :
  (forall a b, f a = Ok b -> Q a -> R b) -> forall l r, map_res f l = Ok r -> Forall Q l -> Forall R r /\ length r = length l.
Proof.
  intros Hf. induction l as [|a l IH]; intros r E HQ; cbn [map_res] in E.
  - injection E as <-. split; [constructor | reflexivity].
  - destruct (f a) as [b| | |] eqn:Ea; cbn [bind] in E; try discriminate.
    destruct (map_res f l) as [r0| | |] eqn:Er; cbn [bind] in E; try discriminate. injection E as <-.
    inversion HQ; subst. destruct (IH r0 eq_refl) as [F L]; [assumption|]. split; [constructor; [eapply Hf; eassumption | exact F] | cbn [length]; lia].
Qed.

Lemma nth_zip_with {A B} (f : A -> B -> A) (dA : A) (dB : B) : forall l xs j, (j < length l)%nat -> length xs = length l ->
  nth j (zip_with f l xs) dA = f (nth j l dA) (nth j xs dB).
Proof.
  induction l as [|a l IH]; intros xs j Hj Hl; [cbn in Hj; lia|]. destruct xs as [|x xs]; [discriminate|].
  destruct j as [|j]; [reflexivity|]. cbn [zip_with nth]. apply IH; cbn in *; lia.
Qed.
Lemma zip_with_length {A B} (f : A -> B -> A) : forall l xs, length xs = length l -> length (zip_with f l xs) = length l.
Proof. induction l as [|a l IH]; intros xs H; [reflexivity|]. destruct xs; [discriminate|]. cbn [zip_with length]. rewrite IH; cbn in H; lia. Qed.

(* level 0: one row of 11 probabilities *)
Lemma row_nodes_set row nodes row' : tree_nodes_from vp8_DCT_TOKEN_TREE row = Ok nodes -> row_ok row -> row_ok row' ->
  tree_nodes_from vp8_DCT_TOKEN_TREE row' = Ok (zip_with node_set_prob nodes row').
Proof.
  intros En Hr Hr'. pose proof (token_tree_okb row Hr) as Hok. pose proof (token_tree_okb row' Hr') as Hok'.
  destruct (tree_nodes_from_spec _ _ Hok) as [n0 (E1 & E2 & E3)]. rewrite En in E1. injection E1 as <-.
  destruct (tree_nodes_from_spec _ _ Hok') as [n1 (F1 & F2 & F3)]. rewrite F1. f_equal.
  destruct Hr as [L _]. destruct Hr' as [L' _].
  apply (nth_ext _ _ UNINIT UNINIT); [rewrite zip_with_length; lia|].
  intros j Hj. rewrite (nth_zip_with node_set_prob UNINIT 0) by lia.
  rewrite (nth_error_nth _ _ _ (F3 j ltac:(lia))). rewrite (nth_error_nth _ _ _ (E3 j ltac:(lia))). reflexivity.
Qed.

Lemma row_nodes_proj row nodes : tree_nodes_from vp8_DCT_TOKEN_TREE row = Ok nodes -> row_ok row -> map prob nodes = row.
Proof.
  intros En Hr. pose proof (token_tree_okb row Hr) as Hok.
  destruct (tree_nodes_from_spec _ _ Hok) as [n0 (E1 & E2 & E3)]. rewrite En in E1. injection E1 as <-.
  apply (nth_ext _ _ 0 0); [rewrite map_length; exact E2|].
  intros j Hj. rewrite map_length in Hj.
  replace (nth j (map prob nodes) 0) with (prob (nth j nodes UNINIT)) by (symmetry; apply (map_nth prob nodes UNINIT j)).
  rewrite (nth_error_nth _ _ _ (E3 j ltac:(lia))). reflexivity.
Qed.

(* all four levels *)
Definition rows1_ok (u : list (list (list (list Z)))) : Prop := length u = 4%nat /\ Forall rows2_ok u.

Lemma tables_ok_rows1 P : tables_ok P <-> rows1_ok P.
Proof. reflexivity. Qed.

Lemma set3 a b a' : map_res (tree_nodes_from vp8_DCT_TOKEN_TREE) a = Ok b -> rows3_ok a -> rows3_ok a' ->
  map_res (tree_nodes_from vp8_DCT_TOKEN_TREE) a' = Ok (zip_with (zip_with node_set_prob) b a').
Proof.
  intros E [L F] [L' F'].
  exact (map_res_zip (tree_nodes_from vp8_DCT_TOKEN_TREE) (zip_with node_set_prob) row_ok row_nodes_set a b a' E F F' ltac:(lia)).
Qed.
Lemma set2 a b a' : map_res (map_res (tree_nodes_from vp8_DCT_TOKEN_TREE)) a = Ok b -> rows2_ok a -> rows2_ok a' ->
  map_res (map_res (tree_nodes_from vp8_DCT_TOKEN_TREE)) a' = Ok (zip_with (zip_with (zip_with node_set_prob)) b a').
Proof.
  intros E [L F] [L' F'].
  exact (map_res_zip (map_res (tree_nodes_from vp8_DCT_TOKEN_TREE)) (zip_with (zip_with node_set_prob)) rows3_ok set3 a b a' E F F' ltac:(lia)).
Qed.
Lemma token_nodes_set P tp P' : token_nodes_of P = Ok tp -> rows1_ok P -> rows1_ok P' ->
  token_nodes_of P' = Ok (zip_with (zip_with (zip_with (zip_with node_set_prob))) tp P').
Proof.
  intros E [L F] [L' F']. unfold token_nodes_of in *.
  exact (map_res_zip (map_res (map_res (tree_nodes_from vp8_DCT_TOKEN_TREE))) (zip_with (zip_with (zip_with node_set_prob))) rows2_ok set2 P tp P' E F F' ltac:(lia)).
Qed.

Notation TNF := (tree_nodes_from vp8_DCT_TOKEN_TREE).

Lemma proj3 a b : map_res TNF a = Ok b -> rows3_ok a -> map (map prob) b = a.
Proof. intros E [L F]. exact (map_res_proj TNF (map prob) row_ok row_nodes_proj a b E F). Qed.
Lemma proj2 a b : map_res (map_res TNF) a = Ok b -> rows2_ok a -> map (map (map prob)) b = a.
Proof. intros E [L F]. exact (map_res_proj (map_res TNF) (map (map prob)) rows3_ok proj3 a b E F). Qed.
Lemma token_nodes_proj P tp : token_nodes_of P = Ok tp -> rows1_ok P -> map (map (map (map prob))) tp = P.
Proof. intros E [L F]. exact (map_res_proj (map_res (map_res TNF)) (map (map (map prob))) rows2_ok proj2 P tp E F). Qed.

Lemma shape0 a b : TNF a = Ok b -> row_ok a -> row_nodes_ok b.
Proof.
  intros E Hr. unfold row_nodes_ok. rewrite (row_nodes_proj a b E Hr).
  pose proof (token_tree_okb a Hr) as Hok. destruct (tree_nodes_from_spec _ _ Hok) as [n0 (E1 & E2 & _)]. rewrite E in E1. injection E1 as <-.
  destruct Hr as [L11 Hb]. split; [lia | exact Hb].
Qed.
Lemma shape3 a b : map_res TNF a = Ok b -> rows3_ok a -> nodes3_ok b.
Proof. intros E [L F]. destruct (map_res_Forall TNF row_ok row_nodes_ok shape0 a b E F) as [F1 L1]. split; [lia | exact F1]. Qed.
Lemma shape2 a b : map_res (map_res TNF) a = Ok b -> rows2_ok a -> nodes2_ok b.
Proof. intros E [L F]. destruct (map_res_Forall (map_res TNF) rows3_ok nodes3_ok shape3 a b E F) as [F1 L1]. split; [lia | exact F1]. Qed.
Lemma token_nodes_shape P tp : token_nodes_of P = Ok tp -> rows1_ok P -> length tp = 4%nat /\ Forall nodes2_ok tp.
Proof. intros E [L F]. destruct (map_res_Forall (map_res (map_res TNF)) rows2_ok nodes2_ok shape2 P tp E F) as [F1 L1]. split; [lia | exact F1]. Qed.

Lemma update_probs_shape : rows1_ok vp8_COEFF_UPDATE_PROBS.
Proof.
  assert (H : forallb (fun pl => (length pl =? 8)%nat && forallb (fun b => (length b =? 3)%nat &&
              forallb (fun row => (length row =? 11)%nat && forallb byteb row) b) pl) vp8_COEFF_UPDATE_PROBS = true) by (vm_compute; reflexivity).
  split; [reflexivity|].
  rewrite Forall_forall. intros pl Hpl. rewrite forallb_forall in H. specialize (H pl Hpl).
  apply andb_true_iff in H. destruct H as [H8 Hb]. apply Nat.eqb_eq in H8. split; [exact H8|].
  rewrite Forall_forall. intros b Hb'. rewrite forallb_forall in Hb. specialize (Hb b Hb').
  apply andb_true_iff in Hb. destruct Hb as [H3 Hr]. apply Nat.eqb_eq in H3. split; [exact H3|].
  rewrite Forall_forall. intros row Hrow. rewrite forallb_forall in Hr. specialize (Hr row Hrow).
  apply andb_true_iff in Hr. destruct Hr as [H11 Hby]. apply Nat.eqb_eq in H11. split; [exact H11|].
  rewrite Forall_forall. intros x Hx. rewrite forallb_forall in Hby. apply byteb_spec. apply Hby. exact Hx.
Qed.

Lemma rows1_ok_bytes P : rows1_ok P -> Forall (Forall (Forall (Forall byte))) P.
Proof.
  intros [_ F]. eapply Forall_impl; [|exact F]. intros a [_ Fa]. eapply Forall_impl; [|exact Fa]. intros b [_ Fb].
  eapply Forall_impl; [|exact Fb]. intros c [_ Fc]. exact Fc.
Qed.

Theorem update_token_probabilities_refines : forall data, Forall byte data -> C15_model.len data < 2 ^ 63 ->
  forall (v : Vp8) (P0 : list (list (list (list Z)))) (s : bstate),
  tables_ok P0 -> token_nodes_of P0 = Ok (v_token_probs v) -> linked data s (v_b v) ->
  let '(P1, s') := parse_proba_1 coeffs_update_proba P0 s [] in
  (exists tp1 d', update_token_probabilities v = Ok (set_b (set_token_probs v tp1) d') /\ linked data s' d' /\
                  tables_ok P1 /\ token_nodes_of P1 = Ok tp1)
  \/ (update_token_probabilities v = Err EBitStreamError /\ over_read data s').
Proof.
  intros data Hbytes Hlen v P0 s HP0 Htp Hlink.
  destruct (linked_wsafe data Hlen s (v_b v) Hlink) as [Hw Hbig].
  rewrite <- coeff_update_probs_normative. rewrite spec_p1. cbn [rev_append].
  destruct (token_nodes_shape P0 _ Htp HP0) as [L4 Fn]. pose proof update_probs_shape as [LU FU].
  pose proof (token_nodes_proj P0 _ Htp HP0) as Eproj.
  destruct (model_p1 vp8_COEFF_UPDATE_PROBS FU (v_token_probs v) (v_b v) Hw Hbig ltac:(lia) Fn) as (EM & W1 & B1 & L1 & F1).
  rewrite Eproj in *.
  pose proof (transfer_run data Hbytes Hlen (G_p1 vp8_COEFF_UPDATE_PROBS P0) s (v_b v) Hlink
                (G_p1_probs _ (rows1_ok_bytes _ update_probs_shape) P0)) as T. cbv zeta in T.
  unfold update_token_probabilities. rewrite EM.
  destruct (interpG bdbit (G_p1 vp8_COEFF_UPDATE_PROBS P0) s) as [P1 s2].
  destruct (interpG cold_pure (G_p1 vp8_COEFF_UPDATE_PROBS P0) (v_b v)) as [P1' d']. cbn [fst snd bind] in *.
  rewrite check_cases.
  destruct T as (_ & _ & [(Eeof & Lk & Ev) | (Eeof & Ov)]); rewrite Eeof; cbn [bind].
  - subst P1'. left. eexists. exists d'. split; [reflexivity|]. split; [exact Lk|].
    assert (HP1 : rows1_ok P1) by (split; [lia | exact F1]).
    split; [exact HP1 | apply token_nodes_set with (P := P0); assumption].
  - right. split; [reflexivity | exact Ov].
Qed.
