(* Proofs/VP8_recon_chroma.v -- (i), chroma: the inline border construction of intra_predict_chroma on a decoder plane,
   and intra_predict_chroma of one macroblock = the chroma part of Spec.VP8.recon_mb. *)
From Coq Require Import ZArith NArith List Bool Lia.
From WebP Require Import Lib.Res Lib.ZBits Lib.Arr Gen.Tables Spec.VP8Tables Spec.VP8 Model.Vp8Predict Model.Vp8Recon
  Proofs.VP8_predict_base Proofs.VP8_predict_sub Proofs.VP8_predict_border Proofs.VP8_predict
  Proofs.VP8_recon_base Proofs.VP8_recon_plane Proofs.VP8_recon_bytes Proofs.VP8_recon_luma Proofs.VP8_recon_big
  Proofs.VP8_recon_mb.
From WebP Require Model.Vp8Parse.
Import ListNotations.
Open Scope Z_scope.
Ltac Zify.zify_post_hook ::= Z.div_mod_to_equations.

Ltac split8i' i :=
  let E := fresh "E" in
  assert (i = 0 \/ i = 1 \/ i = 2 \/ i = 3 \/ i = 4 \/ i = 5 \/ i = 6 \/ i = 7) as E by lia;
  destruct E as [-> | [-> | [-> | [-> | [-> | [-> | [-> | ->]]]]]]].

Lemma idx_in_arr a w h x y : alenZ a = w * h -> 0 <= x < w -> 0 <= y < h -> 0 <= y * w + x < alenZ a.
Proof. intros E Hx Hy. rewrite E. split; [apply idx_nonneg; lia | apply idx_lt; lia]. Qed.
Lemma idx_in_arr2 a w h x1 x2 y : alenZ a = w * h -> 0 <= x1 + x2 < w -> 0 <= y < h -> 0 <= y * w + x1 + x2 < alenZ a.
Proof. intros E Hx Hy. rewrite E. replace (y * w + x1 + x2) with (y * w + (x1 + x2)) by lia. split; [apply idx_nonneg; lia | apply idx_lt; lia]. Qed.

(* every macroblock position: interior, top row (127), left column (129), top-left corner *)
Theorem create_border_chroma_arr_spec p buf mbw mbh mx my :
  0 <= mx < mbw -> 0 <= my < mbh -> prel p buf (mbw * 8) (mbh * 8) ->
  exists ws, Vp8Recon.create_border_chroma mx my mbw buf = Ok ws /\ chroma_border p mx my ws.
Proof.
  intros Hmx Hmy (Hw & Hlen & _ & Hp).
  unfold Vp8Recon.create_border_chroma, chroma_stride.
  destruct (Z.eqb_spec my 0) as [Ey|Ey]; destruct (Z.eqb_spec mx 0) as [Ex|Ex].
  all: repeat first
    [ rewrite usub_ok by lia
    | rewrite ard_ok by (first [apply (idx_in_arr buf (mbw * 8) (mbh * 8)) | apply (idx_in_arr2 buf (mbw * 8) (mbh * 8))]; try exact Hlen; lia)
    | rewrite wr_ok by side
    | progress cbn [bind for_] ].
  all: norm_closed.
  all: eexists; (split; [reflexivity|]).
  all: unfold chroma_border; split; [lens; reflexivity|].
  all: split; [|split; intros i Hi; split8i' i].
  all: readsL.
  all: try match goal with |- araw _ (Z.to_N (?a + ?b + ?c)) = _ => replace (a + b + c) with (a + (b + c)) by lia end.
  all: first
    [ symmetry; apply pget_above; lia
    | symmetry; apply pget_left; lia
    | rewrite Hp by lia; apply f_equal2; lia ].
Qed.

(* the chroma plane Spec.VP8.recon_mb produces (the same function for U and V) *)
Definition chroma_ref (p : plane) (mx my : Z) (uvmode : Z) (bs : list (list Z)) : plane :=
  fst (recon_blocks p (8 * mx) (8 * my) 2 (pred_big p 8 3 mx my uvmode) bs 0 true).

Lemma prel_bytes_in p a w h : 0 <= w -> 0 <= h -> prel p a w h -> pbytes p -> abytes_in a.
Proof.
  intros Hw0 Hh0 (Hw & Hlen & _ & Hc) Hpb j Hj. rewrite Hlen in Hj.
  assert (Hwpos : 0 < w) by (destruct (Z.eq_dec w 0) as [->|]; lia).
  assert (Hh : 0 <= j / w < h).
  { split; [apply Z.div_pos; lia|]. apply Z.div_lt_upper_bound; [lia|]. nia. }
  pose proof (Z.mod_pos_bound j w Hwpos) as Hm.
  replace j with (j / w * w + j mod w) by (pose proof (Z.div_mod j w ltac:(lia)); lia).
  rewrite Hc by lia. apply pget_byte. exact Hpb.
Qed.

Theorem intra_predict_chroma_plane_refines p mbw mbh mx my uvmode blocks base bs buf :
  0 <= mx < mbw -> 0 <= my < mbh ->
  prel p buf (mbw * 8) (mbh * 8) -> pbytes p -> 0 <= uvmode <= 3 -> length bs = 4%nat ->
  0 <= base -> base + 64 <= len blocks ->
  (forall t, (t < 4)%nat -> sub blocks (base + (0 + Z.of_nat t) * 16) 16 = fst (idct (nth t bs [])) /\ res_ok (fst (idct (nth t bs [])))) ->
  let p' := chroma_ref p mx my uvmode bs in
  exists buf', intra_predict_chroma_plane mbw mx my (ymode_to_rfc uvmode) base blocks buf = Ok buf' /\
               prel p' buf' (mbw * 8) (mbh * 8) /\ pbytes p'.
Proof.
  intros Hmx Hmy Hprel Hpb Hmode Lbs Hbase Hlen Hres p'.
  assert (Hw : p_w p = 8 * mbw) by (destruct Hprel as (E & _); lia).
  assert (Hmy0 : 0 <= my) by lia.
  destruct (create_border_chroma_arr_spec p buf mbw mbh mx my Hmx Hmy Hprel) as (ws0 & E0 & Hbord).
  assert (Hb0 : bytes ws0) by (eapply create_border_chroma_bytes; [eapply (prel_bytes_in p buf (mbw * 8) (mbh * 8)); [lia|lia|exact Hprel|exact Hpb] | exact E0]).
  pose proof (chroma_predict_big_spec p mx my ws0 (proj1 Hmx) Hmy0 Hbord uvmode Hmode Hb0) as Hbig.
  destruct Hbig as (ws1 & E1 & Hbig1).
  assert (Hb1 : bytes ws1) by (eapply predict_big_bytes; eassumption).
  assert (Hgeo : (2 = 4 /\ 9 = 21 /\ 8 = 16) \/ (2 = 2 /\ 9 = 9 /\ 8 = 8)) by (right; repeat split).
  set (pf := pred_big p 8 3 mx my uvmode).
  assert (Hinv0 : big_inv 2 9 8 (8 * mx) (8 * my) pf 0 p ws1).
  { apply (big_inv_start 2 9 8 mx my (8 * mx) (8 * my) pf Hgeo eq_refl eq_refl p ws0 ws1
             (predict_big (ymode_to_rfc uvmode) ws0 8 9 mx my)).
    - intros c r0 Hc Hr0 Hd. unfold bcell_ok. destruct Hbord as (Hl & HP & HT & HL).
      destruct (Z.eq_dec r0 0) as [->|Hr00].
      + destruct (Z.eq_dec c 0) as [->|Hc0].
        * replace (0 * 9 + 0) with 0 by lia. rewrite HP. f_equal; lia.
        * replace (0 * 9 + c) with (1 + (c - 1)) by lia. rewrite HT by lia. f_equal; lia.
      + assert (c = 0) by lia. subst c. replace (r0 * 9 + 0) with ((1 + (r0 - 1)) * 9) by lia. rewrite HL by lia. f_equal; lia.
    - exists ws1. split; [exact E1|]. exact Hbig1.
    - exact E1.
    - exact Hb1. }
  destruct (residue_loop 2 9 8 mbw mx my (8 * mx) (8 * my) pf Hgeo Hmx Hmy0 eq_refl eq_refl blocks base Hbase ltac:(lia)
              4%nat 0 ws1 p bs true) as (ws' & E & Hinv); try assumption; try lia.
  { intros t Ht. apply (Hres t Ht). }
  { intros t Ht. apply (Hres t Ht). }
  destruct Hinv as (L' & B' & C' & _).
  destruct (recon_blocks_frame 2 9 8 mbw mx my (8 * mx) (8 * my) pf Hgeo Hmx Hmy0 eq_refl eq_refl
              bs 0 p true ltac:(lia) ltac:(lia) ltac:(rewrite Lbs; lia)) as (W & A & PB & O).
  cbv zeta in W, A, PB, O.
  assert (Hfin : ws_final 9 (Z.of_nat 8) (mx * Z.of_nat 8) (my * Z.of_nat 8) p' ws').
  { intros c r0 Hc Hr0. change (Z.of_nat 8) with 8 in *. replace (mx * 8) with (8 * mx) by lia. replace (my * 8) with (8 * my) by lia.
    apply (C' c r0 Hc Hr0).
    destruct (Z.eq_dec c 0); [left; assumption|]. destruct (Z.eq_dec r0 0); [right; left; assumption|].
    right; right. unfold bblk. lia. }
  destruct (write_back_prel 8 9 mbw mbh mx my p p' ws' buf) as (buf' & Ew & Hprel'); try assumption; try (change (Z.of_nat 8) with 8; lia).
  { intros x' y' Hx' Hno. apply O; [exact Hx'|]. change (Z.of_nat 8) with 8 in Hno. lia. }
  change (Z.of_nat 8) with 8 in Ew, Hprel'.
  exists buf'. split; [|split; [exact Hprel'|apply PB; exact Hpb]].
  unfold intra_predict_chroma_plane. cbv zeta. change chroma_stride with 9.
  rewrite E0. cbn [bind]. rewrite E1. cbn [bind]. rewrite E. cbn [bind]. exact Ew.
Qed.

(* both planes *)
Theorem intra_predict_chroma_refines pu pv mbw mbh mx my mb m r blocks ubuf vbuf :
  0 <= mx < mbw -> 0 <= my < mbh ->
  prel pu ubuf (mbw * 8) (mbh * 8) -> prel pv vbuf (mbw * 8) (mbh * 8) -> pbytes pu -> pbytes pv ->
  mb_rel mb m -> res_rel blocks r ->
  let pu' := chroma_ref pu mx my (m_uvmode m) (r_u r) in
  let pv' := chroma_ref pv mx my (m_uvmode m) (r_v r) in
  exists ubuf' vbuf',
    Vp8Recon.intra_predict_chroma mbw mx my mb blocks ubuf vbuf = Ok (ubuf', vbuf') /\
    prel pu' ubuf' (mbw * 8) (mbh * 8) /\ prel pv' vbuf' (mbw * 8) (mbh * 8) /\ pbytes pu' /\ pbytes pv'.
Proof.
  intros Hmx Hmy Hpu Hpv Hbu Hbv (_ & Huv & Ecm) Hres pu' pv'.
  destruct (res_rel_facts blocks r Hres) as (Lb & _ & Hu & Hv).
  destruct Hres as (_ & Lu & Lv & _).
  destruct (intra_predict_chroma_plane_refines pu mbw mbh mx my (m_uvmode m) blocks (16 * 16) (r_u r) ubuf
              Hmx Hmy Hpu Hbu Huv Lu ltac:(lia) ltac:(lia) Hu) as (ubuf' & Eu & Ru & Bu).
  destruct (intra_predict_chroma_plane_refines pv mbw mbh mx my (m_uvmode m) blocks (20 * 16) (r_v r) vbuf
              Hmx Hmy Hpv Hbv Huv Lv ltac:(lia) ltac:(lia) Hv) as (vbuf' & Ev & Rv & Bv).
  exists ubuf', vbuf'. split; [|split; [exact Ru|split; [exact Rv|split; [exact Bu|exact Bv]]]].
  unfold Vp8Recon.intra_predict_chroma. rewrite Ecm, Eu. cbn [bind]. rewrite Ev. reflexivity.
Qed.
