(* C10 at the level the decoder works at: scripts that, besides fill / read_bits / consume / take, read prefix-coded
   symbols (HuffmanTree::read_symbol) do not depend on how the reader chunks its bytes, provided every symbol
   read that is not immediately preceded by a fill happens while at least 15 valid bits are in the reservoir or
   the reader is exhausted (the decoder's discipline: one fill, then at most 56 bits; after the F4 repair also for
   back-references).  `SSym t` (= fill; read_symbol) needs no side condition at all. *)
From Coq Require Import ZArith NArith List Bool Lia.
From WebP Require Import Lib.Res Lib.Arr Lib.ZBits Model.LosslessLib Model.BitReader Model.Huffman
     Proofs.Lossless_BitReader Proofs.Lossless_HuffmanSafe Proofs.Lossless_HuffmanRead Proofs.Lossless_HuffmanSimple.
Import ListNotations.
Open Scope Z_scope.

Ltac Zify.zify_post_hook ::= Z.div_mod_to_equations.

(* the prefix tables the decoder can hold *)
Inductive tree_ok : tree -> Prop :=
  | ok_single s : tree_ok (Single s)
  | ok_two a b : 0 <= a < 65536 -> 0 <= b < 65536 -> tree_ok (build_two_node a b)
  | ok_built lens t : lens_ok lens -> Z.of_nat (length lens) <= 5957 -> build_implicit lens = Ok t -> tree_ok t.

Inductive sop :=
  | SOp (o : brop)          (* fill / read_bits / consume / take *)
  | SRead (t : tree)        (* read_symbol *)
  | SPeek (t : tree)        (* peek_symbol; delivers length and symbol, or -1 -1 *)
  | SSym (t : tree).        (* fill; read_symbol *)

Definition sop_ok (o : sop) : Prop :=
  match o with SOp _ => True | SRead t | SPeek t | SSym t => tree_ok t end.

Definition sstep (r : t) (o : sop) : res (list Z * t) :=
  match o with
  | SOp o => step r o
  | SRead t => bind (read_symbol t r) (fun '(v, r') => Ok ([v], r'))
  | SPeek t => bind (peek_symbol t r) (fun p => Ok (match p with Some (b, s) => [s; b] | None => [-1; -1] end, r))
  | SSym t => bind (fill r) (fun r1 => bind (read_symbol t r1) (fun '(v, r') => Ok ([v], r')))
  end.

(* the discipline: a symbol is looked up only with 15 valid bits or at exhaustion *)
Definition sdisc (r : t) (o : sop) : bool :=
  match o with
  | SRead _ | SPeek _ => (15 <=? nbits r) || (match data r with [] => true | _ => false end)
  | _ => true
  end.

Fixpoint srun_from (r : t) (ops : list sop) (acc : list Z) (disc : bool) : bool * list Z * res t :=
  match ops with
  | [] => (disc, acc, Ok r)
  | o :: tl => match sstep r o with
               | Ok (vs, r') => srun_from r' tl (vs ++ acc) (disc && sdisc r o)
               | Err e => (disc && sdisc r o, acc, Err e)
               | Panic p => (disc && sdisc r o, acc, Panic p)
               | OutOfFuel => (disc && sdisc r o, acc, OutOfFuel)
               end
  end.

(* (discipline kept, values delivered, outcome with the visible part of the final state) *)
Definition srun (d s : list Z) (ops : list sop) : bool * list Z * res (Z * list Z * Z) :=
  let '(disc, vs, r) := srun_from (init d s) ops [] true in (disc, rev vs, rmap observe r).

(* two readers at the same stream position *)
Definition sim (r1 r2 : t) : Prop := exists s, R s r1 /\ R s r2 /\ nbits r1 = nbits r2 /\ data r1 = data r2.

Definition same_out (x y : res (list Z * t)) : Prop :=
  match_res (fun a b => fst a = fst b /\ sim (snd a) (snd b)) x y.

Lemma rel_sim r1 r2 a : rel_state r1 a -> rel_state r2 a -> sim r1 r2.
Proof.
  intros (s1 & E1 & R1) (s2 & E2 & R2). rewrite E1 in E2. unfold abs in E2. injection E2 as En Ed Es. subst s2.
  exists s1. auto.
Qed.

Lemma sim_rel r1 r2 : sim r1 r2 -> exists a, rel_state r1 a /\ rel_state r2 a.
Proof.
  intros (s & R1 & R2 & En & Ed). exists (abs s r1). split; [exists s; auto|]. exists s. split; [|assumption].
  unfold abs. rewrite En, Ed. reflexivity.
Qed.

Lemma step_sim r1 r2 o : sim r1 r2 -> same_out (step r1 o) (step r2 o).
Proof.
  intros Hs. destruct (sim_rel r1 r2 Hs) as (a & A1 & A2).
  pose proof (step_rel r1 a o A1) as H1. pose proof (step_rel r2 a o A2) as H2. unfold same_out.
  destruct (step r1 o) as [[v1 x1]| | |], (astep a o) as [[va xa]| | |]; cbn [match_res fst snd] in H1; try contradiction;
  destruct (step r2 o) as [[v2 x2]| | |]; cbn [match_res fst snd] in H2; try contradiction; cbn [match_res fst snd].
  - destruct H1 as [-> H1]. destruct H2 as [-> H2]. split; [reflexivity|]. apply (rel_sim _ _ _ H1 H2).
  - congruence.
  - congruence.
  - exact I.
Qed.

Lemma consume_sim s r1 r2 l : R s r1 -> R s r2 -> nbits r1 = nbits r2 -> data r1 = data r2 -> 0 <= l <= 15 ->
  forall v, same_out (bind (consume r1 l) (fun r' => Ok ([v], r'))) (bind (consume r2 l) (fun r' => Ok ([v], r'))).
Proof.
  intros R1 R2 En Ed Hl v. unfold same_out.
  destruct (Z_lt_ge_dec (nbits r1) l) as [Hlt|Hge].
  - rewrite !consume_short by lia. reflexivity.
  - destruct (consume_R s r1 l R1 ltac:(lia)) as (x1 & E1 & Q1 & N1 & D1).
    destruct (consume_R s r2 l R2 ltac:(lia)) as (x2 & E2 & Q2 & N2 & D2).
    rewrite E1, E2. cbn [bind match_res fst snd]. split; [reflexivity|].
    exists (Z.shiftr s l). split; [exact Q1|]. split; [exact Q2|]. split; [rewrite N1, N2, En; reflexivity | rewrite D1, D2; exact Ed].
Qed.

(* build_two_node without any assumption on the reservoir *)
Lemma two_node_raw a b r : 0 <= a < 65536 -> 0 <= b < 65536 ->
  read_symbol (build_two_node a b) r = bind (consume r 1) (fun r' => Ok (if Z.testbit (peek_full r) 0 then b else a, r')) /\
  peek_symbol (build_two_node a b) r = Ok (Some (1, if Z.testbit (peek_full r) 0 then b else a)).
Proof.
  intros Ha Hb. unfold build_two_node, read_symbol, peek_symbol. rewrite !entry1 by lia.
  set (v := peek_full r mod 2 ^ 16).
  assert (Hv : Z.land v 1 = Z.b2z (Z.testbit (peek_full r) 0)).
  { rewrite land1_b2z. f_equal. unfold v. apply Z.mod_pow2_bits_low. lia. }
  rewrite Hv. destruct (Z.testbit (peek_full r) 0); cbn [Z.b2z].
  - change (zget (of_list [65536 + a; 65536 + b]) 1) with (Ok (65536 + b) : res Z). cbn [bind].
    replace (Z.shiftr (65536 + b) 16) with 1 by (rewrite Z.shiftr_div_pow2 by lia; change (2 ^ 16) with 65536; lia).
    cbn [Z.eqb negb]. change (1 mod 2 ^ 8) with 1.
    replace ((65536 + b) mod 2 ^ 16) with b by (change (2 ^ 16) with 65536; lia).
    split; [|reflexivity]. destruct (consume r 1); reflexivity.
  - change (zget (of_list [65536 + a; 65536 + b]) 0) with (Ok (65536 + a) : res Z). cbn [bind].
    replace (Z.shiftr (65536 + a) 16) with 1 by (rewrite Z.shiftr_div_pow2 by lia; change (2 ^ 16) with 65536; lia).
    cbn [Z.eqb negb]. change (1 mod 2 ^ 8) with 1.
    replace ((65536 + a) mod 2 ^ 16) with a by (change (2 ^ 16) with 65536; lia).
    split; [|reflexivity]. destruct (consume r 1); reflexivity.
Qed.

Lemma low15 s r : R s r -> (15 <= nbits r \/ data r = []) -> forall k, 0 <= k <= 15 -> (peek_full r) mod 2 ^ k = s mod 2 ^ k.
Proof. intros HR Hd k Hk. apply (peek_full_low s r k HR); [lia|]. destruct Hd; [left; lia | right; assumption]. Qed.

(* a symbol read under the discipline gives the same symbol and the same position for both readers *)
Lemma read_sim t r1 r2 : tree_ok t -> sim r1 r2 -> (15 <= nbits r1 \/ data r1 = []) ->
  same_out (bind (read_symbol t r1) (fun '(v, r') => Ok ([v], r'))) (bind (read_symbol t r2) (fun '(v, r') => Ok ([v], r'))) /\
  peek_symbol t r1 = peek_symbol t r2 /\ (forall p, peek_symbol t r1 <> Panic p) /\ peek_symbol t r1 <> OutOfFuel.
Proof.
  intros Ht (s & R1 & R2 & En & Ed) Hd.
  assert (Hd2 : 15 <= nbits r2 \/ data r2 = []) by (rewrite <- En, <- Ed; exact Hd).
  destruct Ht as [sy | a b Ha Hb | lens t Hok Hlen Hb].
  - cbn [read_symbol peek_symbol bind]. split; [|split; [reflexivity | split; [intros p; discriminate | discriminate]]].
    unfold same_out. cbn [match_res fst snd]. split; [reflexivity|]. exists s. auto.
  - destruct (two_node_raw a b r1 Ha Hb) as [E1 P1]. destruct (two_node_raw a b r2 Ha Hb) as [E2 P2].
    assert (Hbit : Z.testbit (peek_full r1) 0 = Z.testbit (peek_full r2) 0).
    { pose proof (low15 s r1 R1 Hd 1 ltac:(lia)) as H1. pose proof (low15 s r2 R2 Hd2 1 ltac:(lia)) as H2.
      rewrite <- (Z.mod_pow2_bits_low (peek_full r1) 1 0) by lia. rewrite <- (Z.mod_pow2_bits_low (peek_full r2) 1 0) by lia.
      rewrite H1, H2. reflexivity. }
    rewrite E1, E2, P1, P2, Hbit. split; [|split; [reflexivity | split; [intros p; discriminate | discriminate]]].
    pose proof (consume_sim s r1 r2 1 R1 R2 En Ed ltac:(lia) (if Z.testbit (peek_full r2) 0 then b else a)) as H.
    destruct (consume r1 1), (consume r2 1); exact H.
  - destruct (build_implicit_spec lens Hok Hlen) as [E|(t' & E & Hbuilt)]; [congruence|].
    rewrite Hb in E. injection E as <-.
    destruct Hbuilt as [sym H1 _|hist mx tb nc nodes table H2 Hcx Hzn Hlast Hk Hls Htab Hwf Hg].
    + cbn [read_symbol peek_symbol bind]. split; [|split; [reflexivity | split; [intros p; discriminate | discriminate]]].
      unfold same_out. cbn [match_res fst snd]. split; [reflexivity|]. exists s. auto.
    + assert (Hctx : tctx lens hist mx tb nc nodes table) by (constructor; assumption).
      pose proof R1 as (_ & _ & _ & Hs0 & _).
      destruct (exists_symbol lens hist mx tb nc nodes table s Hctx Hs0) as (sym & Hsym & Hn & Hm).
      assert (Hl : 1 <= nth sym lens 0 <= 15).
      { pose proof (proj1 (Forall_forall _ _) Hok (nth sym lens 0) ltac:(apply nth_In; assumption)) as H. cbn beta in H. lia. }
      assert (Hv : forall r, R s r -> (15 <= nbits r \/ data r = []) ->
                  (peek_full r mod 2 ^ 16) mod 2 ^ (nth sym lens 0) = revl (nth sym lens 0) (code_of hist lens sym)).
      { intros r HR Hdr. rewrite mod_pow2_mod_pow2 by lia. rewrite (low15 s r HR Hdr) by lia. exact Hm. }
      destruct (lookup_code lens hist mx tb nc nodes table sym r1 Hctx Hsym Hn (Hv r1 R1 Hd)) as [E1 P1].
      destruct (lookup_code lens hist mx tb nc nodes table sym r2 Hctx Hsym Hn (Hv r2 R2 Hd2)) as [E2 P2].
      rewrite E1, E2, P1, P2. split; [|split; [reflexivity | split; [intros p; discriminate | discriminate]]].
      pose proof (consume_sim s r1 r2 (nth sym lens 0) R1 R2 En Ed ltac:(lia) (Z.of_nat sym)) as H.
      destruct (consume r1 (nth sym lens 0)), (consume r2 (nth sym lens 0)); exact H.
Qed.

Lemma sdisc_sim r1 r2 o : sim r1 r2 -> sdisc r1 o = sdisc r2 o.
Proof. intros (s & _ & _ & En & Ed). unfold sdisc. rewrite En, Ed. reflexivity. Qed.

Lemma sdisc_prop (r : BitReader.t) : (15 <=? nbits r) || (match data r with [] => true | _ => false end) = true ->
  15 <= nbits r \/ data r = [].
Proof.
  intros H. apply orb_true_iff in H. destruct H as [H|H]; [left; apply Z.leb_le; exact H|right].
  destruct (data r); [reflexivity | discriminate].
Qed.

Lemma sstep_sim r1 r2 o : sop_ok o -> sim r1 r2 -> sdisc r1 o = true -> same_out (sstep r1 o) (sstep r2 o).
Proof.
  intros Hok Hs Hd. destruct o as [o | t | t | t]; cbn [sstep sop_ok sdisc] in *.
  - apply step_sim. assumption.
  - apply (read_sim t r1 r2 Hok Hs). apply (sdisc_prop r1). exact Hd.
  - destruct (read_sim t r1 r2 Hok Hs (sdisc_prop r1 Hd)) as (_ & Hp & Hnp & Hnf). rewrite <- Hp.
    unfold same_out. destruct (peek_symbol t r1) as [p| e | p |]; cbn [bind match_res fst snd].
    + split; [reflexivity | assumption].
    + reflexivity.
    + exfalso. apply (Hnp p). reflexivity.
    + exfalso. apply Hnf. reflexivity.
  - destruct Hs as (s & R1 & R2 & En & Ed).
    destruct (fill_ok s r1 R1) as (x1 & F1 & Q1 & N1). destruct (fill_ok s r2 R2) as (x2 & F2 & Q2 & N2).
    rewrite F1, F2. cbn [bind]. rewrite En, Ed in N1. rewrite <- N2 in N1. injection N1 as Hn Hdt.
    assert (Hsx : sim x1 x2) by (exists s; auto).
    destruct (fill_post s r1 x1 R1 F1) as [_ Hpost].
    apply (read_sim t x1 x2 Hok Hsx). destruct Hpost; [left; lia | right; assumption].
Qed.

Lemma srun_from_false : forall ops r acc, fst (fst (srun_from r ops acc false)) = false.
Proof.
  induction ops as [|o tl IH]; intros r acc; cbn [srun_from]; [reflexivity|].
  destruct (sstep r o) as [[vs r']| | |]; cbn [andb fst]; auto.
Qed.

Lemma srun_from_sim : forall ops r1 r2 acc, Forall sop_ok ops -> sim r1 r2 ->
  fst (fst (srun_from r1 ops acc true)) = true ->
  fst (srun_from r1 ops acc true) = fst (srun_from r2 ops acc true) /\
  match_res sim (snd (srun_from r1 ops acc true)) (snd (srun_from r2 ops acc true)).
Proof.
  induction ops as [|o tl IH]; intros r1 r2 acc Hok Hs Hd; cbn [srun_from] in *.
  - cbn [fst snd match_res]. auto.
  - inversion Hok as [|? ? Ho Htl]; subst. cbn [andb] in *.
    destruct (sdisc r1 o) eqn:Ed.
    2:{ exfalso. destruct (sstep r1 o) as [[vs r']| | |]; cbn [fst] in Hd; try discriminate.
        rewrite srun_from_false in Hd. discriminate. }
    rewrite <- (sdisc_sim r1 r2 o Hs), Ed.
    pose proof (sstep_sim r1 r2 o Ho Hs Ed) as H. unfold same_out in H.
    destruct (sstep r1 o) as [[v1 x1]| | |], (sstep r2 o) as [[v2 x2]| | |]; cbn [match_res fst snd] in H; try contradiction.
    + destruct H as [-> Hsx]. apply IH; assumption.
    + subst. cbn [fst snd match_res]. auto.
    + subst. cbn [fst snd match_res]. auto.
    + cbn [fst snd match_res]. auto.
Qed.

Lemma observe_sim r1 r2 : sim r1 r2 -> observe r1 = observe r2.
Proof.
  intros Hs. destruct (sim_rel r1 r2 Hs) as (a & A1 & A2). rewrite (observe_rel r1 a A1), (observe_rel r2 a A2). reflexivity.
Qed.

(* C10: if a script keeps the discipline under one schedule, it delivers the same values, ends in the same outcome and
   the same visible state under every other schedule (and keeps the discipline there too) *)
Theorem sym_schedule_independent : forall d s1 s2 ops, Forall byte d -> Forall sop_ok ops ->
  fst (fst (srun d s1 ops)) = true -> srun d s1 ops = srun d s2 ops.
Proof.
  intros d s1 s2 ops Hd Hok Hdisc. unfold srun in *.
  assert (Hs : sim (init d s1) (init d s2)).
  { exists (V d). split; [apply R_init; assumption|]. split; [apply R_init; assumption|]. split; reflexivity. }
  destruct (srun_from (init d s1) ops [] true) as [[f1 v1] o1] eqn:E1.
  destruct (srun_from (init d s2) ops [] true) as [[f2 v2] o2] eqn:E2.
  cbn [fst] in Hdisc. subst f1.
  pose proof (srun_from_sim ops (init d s1) (init d s2) [] Hok Hs) as H. rewrite E1, E2 in H. cbn [fst snd] in H.
  destruct (H eq_refl) as [Hf Ho]. injection Hf as <- <-.
  f_equal. destruct o1, o2; cbn [match_res] in Ho; try contradiction; cbn [rmap bind]; try congruence.
  f_equal. apply observe_sim. assumption.
Qed.

(* scripts made only of fill / read_bits / consume / take and fill-then-read-symbol steps need no side condition *)
Definition always_disc (o : sop) : bool := match o with SRead _ | SPeek _ => false | _ => true end.

Lemma srun_from_always : forall ops r acc, forallb always_disc ops = true -> fst (fst (srun_from r ops acc true)) = true.
Proof.
  induction ops as [|o tl IH]; intros r acc H; cbn [srun_from]; [reflexivity|].
  cbn [forallb] in H. apply andb_true_iff in H. destruct H as [Ho Htl].
  assert (Hd : sdisc r o = true) by (destruct o; cbn in *; try reflexivity; discriminate).
  rewrite Hd. cbn [andb]. destruct (sstep r o) as [[vs r']| | |]; cbn [fst]; auto.
Qed.

Corollary fill_sym_schedule_independent : forall d s1 s2 ops, Forall byte d -> Forall sop_ok ops ->
  forallb always_disc ops = true -> srun d s1 ops = srun d s2 ops.
Proof.
  intros d s1 s2 ops Hd Hok Ha. apply sym_schedule_independent; auto.
  unfold srun. pose proof (srun_from_always ops (init d s1) [] Ha) as H.
  destruct (srun_from (init d s1) ops [] true) as [[f v] o]. exact H.
Qed.

Lemma aconsume_not_oof a n : aconsume a n <> OutOfFuel.
Proof. destruct a as [[x d] s]. unfold aconsume. destruct (x <? n); [discriminate|]. destruct ((n <? 0) || (64 <=? n)); discriminate. Qed.

Lemma astep_not_oof a b : astep a b <> OutOfFuel.
Proof.
  destruct b as [|tb n|n|n]; cbn [astep].
  - discriminate.
  - unfold aread_bits. destruct ((tb <? n) || (32 <? n)); [discriminate|].
    set (a1 := if fst (fst a) <? n then afill a else a). pose proof (aconsume_not_oof a1 n) as H.
    destruct (aconsume a1 n); cbn [bind]; try discriminate. contradiction.
  - pose proof (aconsume_not_oof a n) as H. destruct (aconsume a n); cbn [bind]; try discriminate. contradiction.
  - destruct a as [[x d] s]. unfold apeek. destruct ((n <? 0) || (64 <=? n)); cbn [bind]; [discriminate|].
    pose proof (aconsume_not_oof (x, d, s) n) as H. destruct (aconsume (x, d, s) n); cbn [bind]; try discriminate. contradiction.
Qed.

(* C03: under the invariant R, a symbol step never panics and never runs out of fuel *)
Theorem sstep_no_panic s r o : R s r -> sop_ok o ->
  (exists vs r', sstep r o = Ok (vs, r')) \/ (exists e, sstep r o = Err e) \/
  (exists b, o = SOp b /\ exists p, sstep r o = Panic p).
Proof.
  intros HR Hok. destruct o as [b | t | t | t]; cbn [sstep sop_ok] in *.
  - destruct (step r b) as [[vs r']| e | p |] eqn:E; eauto.
    + right. right. exists b. split; [reflexivity|]. exists p. reflexivity.
    + exfalso. assert (Hrel : rel_state r (abs s r)) by (exists s; auto).
      pose proof (step_rel r (abs s r) b Hrel) as H. rewrite E in H.
      pose proof (astep_not_oof (abs s r) b) as Hn. destruct (astep (abs s r) b); cbn [match_res] in H; try contradiction.
      all: try (apply Hn; reflexivity).
  - assert (Hall : forall t r, tree_ok t -> 0 <= buffer r -> 0 <= nbits r ->
              (exists sym r', read_symbol t r = Ok (sym, r')) \/ read_symbol t r = Err EBitStreamError).
    { clear. intros t r Ht HB Hn. destruct Ht as [sy | a b Ha Hb | lens t Hok Hlen Hb].
      - left. cbn. eauto.
      - destruct (two_node_raw a b r Ha Hb) as [E _]. rewrite E. unfold consume.
        destruct (nbits r <? 1); [right; reflexivity|]. change ((1 <? 0) || (64 <=? 1)) with false. cbn [bind]. left. eauto.
      - apply (read_symbol_total lens t r Hok Hlen Hb HB Hn). }
    pose proof HR as (Hn & HB & _).
    destruct (Hall t r Hok HB ltac:(lia)) as [(sym & r' & E)|E]; rewrite E; cbn [bind]; eauto.
  - assert (Hp : exists o, peek_symbol t r = Ok o).
    { pose proof HR as (Hn & HB & _). destruct Hok as [sy | a b Ha Hb | lens t Hok Hlen Hb].
      - cbn. eauto.
      - destruct (two_node_raw a b r Ha Hb) as [_ E]. rewrite E. eauto.
      - apply (peek_symbol_total lens t r Hok Hlen Hb HB). }
    destruct Hp as (o & E). rewrite E. cbn [bind]. eauto.
  - destruct (fill_ok s r HR) as (r1 & F & HR1 & _). rewrite F. cbn [bind].
    pose proof HR1 as (Hn & HB & _).
    assert (Hall : (exists sym r', read_symbol t r1 = Ok (sym, r')) \/ read_symbol t r1 = Err EBitStreamError).
    { destruct Hok as [sy | a b Ha Hb | lens t Hok Hlen Hb].
      - left. cbn. eauto.
      - destruct (two_node_raw a b r1 Ha Hb) as [E _]. rewrite E. unfold consume.
        destruct (nbits r1 <? 1); [right; reflexivity|]. change ((1 <? 0) || (64 <=? 1)) with false. cbn [bind]. left. eauto.
      - apply (read_symbol_total lens t r1 Hok Hlen Hb HB ltac:(lia)). }
    destruct Hall as [(sym & r' & E)|E]; rewrite E; cbn [bind]; eauto.
Qed.

Example sym_schedule_example :
  (* lengths 2,1,3,3; the same 3 symbols and 5 raw bits under a one-byte-at-a-time reader and a whole-buffer reader *)
  match build_implicit [2; 1; 3; 3] with
  | Ok t => srun [19; 7; 200; 1; 2; 3; 4; 5; 6; 7; 8; 9] [] [SSym t; SRead t; SRead t; SOp (OReadBits 8 5); SSym t]
            = srun [19; 7; 200; 1; 2; 3; 4; 5; 6; 7; 8; 9] [1; 1; 1; 1; 1; 1; 1; 1; 1; 1; 1; 1; 1; 1; 1; 1; 1; 1; 1; 1]
                   [SSym t; SRead t; SRead t; SOp (OReadBits 8 5); SSym t]
  | _ => False
  end.
Proof. vm_compute. reflexivity. Qed.
