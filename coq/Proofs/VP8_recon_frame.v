(* Proofs/VP8_recon_frame.v -- (i) assembled and (ii): one macroblock of the reconstruction loop of decode_frame_
   (Vp8Recon.recon_mb) = Spec.VP8.recon_mb; a macroblock row; the whole loop (Vp8Recon.reconstruct) =
   Spec.VP8.reconstruct, by induction over the macroblocks in raster order with the invariants of VP8_recon_mb.v. *)
From Coq Require Import ZArith NArith List Bool Lia.
From WebP Require Import Lib.Res Lib.ZBits Lib.Arr Gen.Tables Spec.VP8Tables Spec.VP8 Model.Vp8Predict Model.Vp8Recon
  Proofs.VP8_predict_base Proofs.VP8_predict_sub Proofs.VP8_predict_border Proofs.VP8_predict
  Proofs.VP8_recon_base Proofs.VP8_recon_plane Proofs.VP8_recon_bytes Proofs.VP8_recon_luma Proofs.VP8_recon_big
  Proofs.VP8_recon_mb Proofs.VP8_recon_chroma.
From WebP Require Model.Vp8Parse.
Import ListNotations.
Open Scope Z_scope.
Ltac Zify.zify_post_hook ::= Z.div_mod_to_equations.

(* ------------------------------------------------------------------------------------------------------------ *)
(* 1. one macroblock                                                                                            *)
(* ------------------------------------------------------------------------------------------------------------ *)
Lemma spec_recon_mb_planes mbw pl mx my m r :
  pl_y (VP8.recon_mb mbw pl mx my m r) = luma_ref mbw (pl_y pl) mx my m r /\
  pl_u (VP8.recon_mb mbw pl mx my m r) = chroma_ref (pl_u pl) mx my (m_uvmode m) (r_u r) /\
  pl_v (VP8.recon_mb mbw pl mx my m r) = chroma_ref (pl_v pl) mx my (m_uvmode m) (r_v r).
Proof.
  unfold VP8.recon_mb, luma_ref, chroma_ref.
  destruct (if m_i4 m then recon_subs mbw (pl_y pl) mx my (m_imodes m) (r_y r) 0 true
            else recon_blocks (pl_y pl) (16 * mx) (16 * my) 4 (pred_big (pl_y pl) 16 4 mx my (m_ymode m)) (r_y r) 0 true) as [py ok1].
  destruct (recon_blocks (pl_u pl) (8 * mx) (8 * my) 2 (pred_big (pl_u pl) 8 3 mx my (m_uvmode m)) (r_u r) 0 true) as [pu ok2].
  destruct (recon_blocks (pl_v pl) (8 * mx) (8 * my) 2 (pred_big (pl_v pl) 8 3 mx my (m_uvmode m)) (r_v r) 0 true) as [pv ok3].
  repeat split.
Qed.

(* the three decoder planes are the three reference planes; all samples are bytes *)
Definition planes_rel (mbw mbh : Z) (pl : planes) (s : RState) : Prop :=
  prel (pl_y pl) (rs_ybuf s) (mbw * 16) (mbh * 16) /\ prel (pl_u pl) (rs_ubuf s) (mbw * 8) (mbh * 8) /\
  prel (pl_v pl) (rs_vbuf s) (mbw * 8) (mbh * 8) /\ pbytes (pl_y pl) /\ pbytes (pl_u pl) /\ pbytes (pl_v pl).

Theorem recon_mb_refines h mbh pl mx my mb m r blocks s :
  0 <= mx < rh_mbwidth h -> 0 <= my < mbh ->
  planes_rel (rh_mbwidth h) mbh pl s ->
  top_inv (pl_y pl) (rh_mbwidth h) mx my (rs_top_border s) -> left_inv (pl_y pl) mx my (rs_left_border s) ->
  mb_rel mb m -> res_rel blocks r ->
  let pl' := VP8.recon_mb (rh_mbwidth h) pl mx my m r in
  exists s', Vp8Recon.recon_mb h mx my mb blocks s = Ok s' /\
             planes_rel (rh_mbwidth h) mbh pl' s' /\
             top_inv (pl_y pl') (rh_mbwidth h) (mx + 1) my (rs_top_border s') /\
             left_inv (pl_y pl') (mx + 1) my (rs_left_border s') /\
             rs_macroblocks s' = rs_macroblocks s ++ [mb].
Proof.
  intros Hmx Hmy (Ry & Ru & Rv & By & Bu & Bv) Htop Hleft Hrel Hres pl'.
  destruct (spec_recon_mb_planes (rh_mbwidth h) pl mx my m r) as (Ey & Eu & Ev). fold pl' in Ey, Eu, Ev.
  destruct (intra_predict_luma_refines (pl_y pl) (rh_mbwidth h) mbh mx my mb m r blocks (rs_ybuf s) (rs_top_border s) (rs_left_border s)
              Hmx Hmy Ry By Htop Hleft Hrel Hres) as (y' & t' & l' & E1 & Ry' & By' & Ht' & Hl').
  destruct (intra_predict_chroma_refines (pl_u pl) (pl_v pl) (rh_mbwidth h) mbh mx my mb m r blocks (rs_ubuf s) (rs_vbuf s)
              Hmx Hmy Ru Rv Bu Bv Hrel Hres) as (u' & v' & E2 & Ru' & Rv' & Bu' & Bv').
  cbv zeta in *.
  eexists. split.
  - unfold Vp8Recon.recon_mb. rewrite E1. cbn [bind]. rewrite E2. cbn [bind]. reflexivity.
  - cbn [rs_ybuf rs_ubuf rs_vbuf rs_top_border rs_left_border rs_macroblocks].
    split; [|rewrite Ey; split; [exact Ht'|split; [exact Hl'|reflexivity]]].
    unfold planes_rel. cbn [rs_ybuf rs_ubuf rs_vbuf]. rewrite Ey, Eu, Ev. repeat (split; [assumption|]). assumption.
Qed.

(* ------------------------------------------------------------------------------------------------------------ *)
(* 2. parse results of a row / of the frame                                                                     *)
(* ------------------------------------------------------------------------------------------------------------ *)
(* what the loop filter reads besides the modes: segment id and the non-zero flag (the crate's = libwebp's, by
   VP8_parse_residual.residual_flag_is_block_nonzero; false for a skipped macroblock on both sides) *)
Definition seg_rel (mb : Vp8Parse.MacroBlock) (m : mbmode) (r : mbres) : Prop :=
  Vp8Parse.mb_non_zero_coeffs mb = r_nonzero r /\ Vp8Parse.mb_segmentid mb = m_seg m /\ 0 <= m_seg m < 4.

Inductive row_rel : list (Vp8Parse.MacroBlock * list Z) -> list mbmode -> list mbres -> Prop :=
| rr_nil : row_rel [] [] []
| rr_cons mb bl m r inp ms rs : mb_rel mb m -> res_rel bl r -> seg_rel mb m r -> row_rel inp ms rs ->
    row_rel ((mb, bl) :: inp) (m :: ms) (r :: rs).

(* the decoder's macroblock list (raster order) against the reference's rows of modes / residuals *)
Inductive frame_rel (mbw : Z) : list (Vp8Parse.MacroBlock * list Z) -> list (list mbmode) -> list (list mbres) -> Prop :=
| fr_nil : frame_rel mbw [] [] []
| fr_cons row inp ms rs mss rss : row_rel row ms rs -> Z.of_nat (length row) = mbw -> frame_rel mbw inp mss rss ->
    frame_rel mbw (row ++ inp) (ms :: mss) (rs :: rss).

Lemma row_rel_length row ms rs : row_rel row ms rs -> length ms = length row /\ length rs = length row.
Proof. induction 1 as [|mb bl m r inp ms rs _ _ _ _ [IH1 IH2]]; cbn [length]; split; lia. Qed.

(* ------------------------------------------------------------------------------------------------------------ *)
(* 3. a macroblock row                                                                                          *)
(* ------------------------------------------------------------------------------------------------------------ *)
Lemma recon_row_refines h mbh : forall row ms rs, row_rel row ms rs ->
  forall mx my pl s rest,
  0 <= mx -> mx + Z.of_nat (length row) = rh_mbwidth h -> 0 <= my < mbh ->
  planes_rel (rh_mbwidth h) mbh pl s ->
  top_inv (pl_y pl) (rh_mbwidth h) mx my (rs_top_border s) -> left_inv (pl_y pl) mx my (rs_left_border s) ->
  let pl' := VP8.recon_row (rh_mbwidth h) pl mx my ms rs in
  exists s', Vp8Recon.recon_row h (length row) mx my (row ++ rest) s = Ok (rest, s') /\
             planes_rel (rh_mbwidth h) mbh pl' s' /\
             top_inv (pl_y pl') (rh_mbwidth h) (rh_mbwidth h) my (rs_top_border s') /\
             rs_macroblocks s' = rs_macroblocks s ++ map fst row.
Proof.
  induction 1 as [|mb bl m r inp ms rs Hm Hr Hsg Hrow IH]; intros mx my pl s rest Hmx Hlen Hmy Hpl Htop Hleft; cbv zeta.
  - cbn [length Vp8Recon.recon_row VP8.recon_row app map]. exists s. cbn [length] in Hlen.
    split; [reflexivity|]. split; [exact Hpl|]. split; [replace (rh_mbwidth h) with mx at 2 by lia; exact Htop|].
    rewrite app_nil_r. reflexivity.
  - cbn [length] in Hlen. cbn [length Vp8Recon.recon_row VP8.recon_row app map].
    destruct (recon_mb_refines h mbh pl mx my mb m r bl s ltac:(lia) Hmy Hpl Htop Hleft Hm Hr) as (s1 & E1 & Hpl1 & Ht1 & Hl1 & Em1).
    cbv zeta in *. rewrite E1. cbn [bind].
    destruct (IH (mx + 1) my (VP8.recon_mb (rh_mbwidth h) pl mx my m r) s1 rest ltac:(lia) ltac:(lia) Hmy Hpl1 Ht1 Hl1) as (s' & E' & Hpl' & Ht' & Em').
    cbv zeta in *. exists s'. split; [exact E'|]. split; [exact Hpl'|]. split; [exact Ht'|].
    rewrite Em', Em1, <- app_assoc. reflexivity.
Qed.

(* ------------------------------------------------------------------------------------------------------------ *)
(* 4. all rows                                                                                                  *)
(* ------------------------------------------------------------------------------------------------------------ *)
Lemma get_repeat_in v n i : 0 <= i < Z.of_nat n -> get (repeat v n) i = v.
Proof. intros H. unfold get. rewrite (nth_indep _ 0 v) by (rewrite repeat_length; lia). apply nth_repeat. Qed.

Lemma recon_rows_refines h mbh : forall inp mss rss, frame_rel (rh_mbwidth h) inp mss rss ->
  forall my pl s,
  0 <= my -> my + Z.of_nat (length mss) = mbh -> 0 < rh_mbwidth h ->
  planes_rel (rh_mbwidth h) mbh pl s ->
  top_inv (pl_y pl) (rh_mbwidth h) 0 my (rs_top_border s) -> left_inv (pl_y pl) 0 my (rs_left_border s) ->
  let pl' := VP8.recon_rows (rh_mbwidth h) pl my mss rss in
  exists s', Vp8Recon.recon_rows h (length mss) my inp s = Ok s' /\
             planes_rel (rh_mbwidth h) mbh pl' s' /\
             rs_macroblocks s' = rs_macroblocks s ++ map fst inp.
Proof.
  induction 1 as [|row inp ms rs mss rss Hrow Hlen Hfr IH]; intros my pl s Hmy Hcnt Hmbw Hpl Htop Hleft; cbv zeta.
  - cbn [length Vp8Recon.recon_rows VP8.recon_rows map]. exists s. split; [reflexivity|]. split; [exact Hpl|].
    rewrite app_nil_r. reflexivity.
  - cbn [length] in Hcnt. cbn [length Vp8Recon.recon_rows VP8.recon_rows].
    replace (Z.to_nat (rh_mbwidth h)) with (length row) by lia.
    destruct (recon_row_refines h mbh row ms rs Hrow 0 my pl s inp ltac:(lia) ltac:(lia) ltac:(lia) Hpl Htop Hleft) as (s1 & E1 & Hpl1 & Ht1 & Em1).
    cbv zeta in *. rewrite E1. cbn [bind].
    set (pl1 := VP8.recon_row (rh_mbwidth h) pl 0 my ms rs) in *.
    set (s2 := mkRS (rs_ybuf s1) (rs_ubuf s1) (rs_vbuf s1) (rs_top_border s1) (repeat 129 17) (rs_macroblocks s1)).
    destruct (IH (my + 1) pl1 s2) as (s' & E' & Hpl' & Em'); try lia.
    + exact Hpl1.
    + cbn [rs_top_border s2]. destruct Ht1 as (L & B & _ & H4). split; [exact L|]. split; [exact B|]. split.
      * intros x Hx. rewrite H4 by lia. f_equal. lia.
      * intros x Hx. lia.
    + cbn [rs_left_border s2]. split; [reflexivity|]. split; [apply bytes_repeat; unfold byte; lia|]. intros Hc. lia.
    + cbv zeta in *. exists s'. split; [exact E'|]. split; [exact Hpl'|].
      rewrite Em'. cbn [rs_macroblocks s2]. rewrite Em1, map_app, app_assoc. reflexivity.
Qed.

(* ------------------------------------------------------------------------------------------------------------ *)
(* 5. the whole reconstruction                                                                                  *)
(* ------------------------------------------------------------------------------------------------------------ *)
(* the decoder fields against the reference header (what read_frame_header computes from the same bytes) *)
Definition dims_rel (h : RHdr) (hs : header) : Prop :=
  rh_width h = h_width hs /\ rh_height h = h_height hs /\ rh_mbwidth h = mb_w hs /\ rh_mbheight h = mb_h hs /\
  0 < h_width hs /\ 0 < h_height hs.

Lemma mb_w_bounds hs : 0 < h_width hs -> 0 < mb_w hs /\ h_width hs <= 16 * mb_w hs <= h_width hs + 15.
Proof. intros H. unfold mb_w. rewrite Z.shiftr_div_pow2 by lia. change (2 ^ 4) with 16. lia. Qed.
Lemma mb_h_bounds hs : 0 < h_height hs -> 0 < mb_h hs /\ h_height hs <= 16 * mb_h hs <= h_height hs + 15.
Proof. intros H. unfold mb_h. rewrite Z.shiftr_div_pow2 by lia. change (2 ^ 4) with 16. lia. Qed.

Lemma prel_make w h n : 0 <= w -> 0 <= h -> n = Z.to_N (w * h) -> prel (plane_make w h) (amake n) w h.
Proof.
  intros Hw Hh ->. split; [reflexivity|]. split; [unfold alenZ, amake; cbn [alen]; nia|]. split; [reflexivity|].
  intros x y Hx Hy. rewrite araw_amake. symmetry. apply pget_make; lia.
Qed.

Theorem reconstruct_refines h hs inp mss rss :
  dims_rel h hs -> frame_rel (mb_w hs) inp mss rss -> Z.of_nat (length mss) = mb_h hs ->
  exists s, Vp8Recon.reconstruct h inp = Ok s /\
            planes_rel (mb_w hs) (mb_h hs) (VP8.reconstruct hs mss rss) s /\
            rs_macroblocks s = map fst inp.
Proof.
  intros (Ew & Eh & Emw & Emh & Hw & Hh) Hfr Hlen.
  destruct (mb_w_bounds hs Hw) as (Hmw0 & Hmw1). destruct (mb_h_bounds hs Hh) as (Hmh0 & Hmh1).
  unfold Vp8Recon.reconstruct, VP8.reconstruct.
  rewrite <- Emw in Hfr.
  destruct (recon_rows_refines h (mb_h hs) inp mss rss Hfr 0
              (mkPl (plane_make (16 * mb_w hs) (16 * mb_h hs)) (plane_make (8 * mb_w hs) (8 * mb_h hs))
                    (plane_make (8 * mb_w hs) (8 * mb_h hs)) true) (init_state h)) as (s & E & Hpl & Em); try lia.
  - unfold planes_rel, init_state. cbn [pl_y pl_u pl_v rs_ybuf rs_ubuf rs_vbuf]. rewrite Emw, Emh.
    split; [|split; [|split; [|split; [|split]]]]; try apply pbytes_make.
    + replace (mb_w hs * 16) with (16 * mb_w hs) by lia. replace (mb_h hs * 16) with (16 * mb_h hs) by lia.
      apply prel_make; lia.
    + replace (mb_w hs * 8) with (8 * mb_w hs) by lia. replace (mb_h hs * 8) with (8 * mb_h hs) by lia.
      apply prel_make; lia.
    + replace (mb_w hs * 8) with (8 * mb_w hs) by lia. replace (mb_h hs * 8) with (8 * mb_h hs) by lia.
      apply prel_make; lia.
  - unfold init_state. cbn [pl_y rs_top_border]. rewrite Emw, Ew.
    assert (L : len (repeat 127 (Z.to_nat (h_width hs + 4 + 16))) = h_width hs + 20) by (unfold len; rewrite repeat_length; lia).
    split; [lia|]. split; [apply bytes_repeat; unfold byte; lia|]. split.
    + intros x Hx. rewrite get_repeat_in by lia. symmetry. apply pget_above. lia.
    + intros x Hx. lia.
  - unfold init_state. cbn [pl_y rs_left_border]. split; [reflexivity|]. split; [apply bytes_repeat; unfold byte; lia|]. intros Hc. lia.
  - cbv zeta in Hpl. replace (Z.to_nat (rh_mbheight h)) with (length mss) by lia. exists s. split; [exact E|].
    rewrite Emw in Hpl. split; [exact Hpl|]. rewrite Em. reflexivity.
Qed.
