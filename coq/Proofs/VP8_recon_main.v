(* Proofs/VP8_recon_main.v -- (v): the reconstruction half of decode_frame_ as a whole.  Given the same parse results
   (header fields, and per macroblock modes / segment / non-zero flag / residuals related as by the theorems of
   VP8_parse_*.v), Model.Vp8Recon.decode_frame_planes returns exactly the three planes of Spec.VP8.decode_frame:
   reconstruction (VP8_recon_frame.v) + loop-filter pass + crop (VP8_recon_pass.v). *)
From Coq Require Import ZArith NArith List Bool Lia.
From WebP Require Import Lib.Res Lib.ZBits Lib.Arr Gen.Kernels Gen.Tables Spec.VP8Tables Spec.BoolDec Spec.VP8 Model.Vp8Predict Model.Vp8Recon
  Proofs.VP8_predict_base Proofs.VP8_arraykernels
  Proofs.VP8_recon_base Proofs.VP8_recon_plane Proofs.VP8_recon_bytes Proofs.VP8_recon_mb Proofs.VP8_recon_chroma Proofs.VP8_recon_frame
  Proofs.VP8_recon_edge Proofs.VP8_recon_runs Proofs.VP8_recon_stages Proofs.VP8_recon_filter Proofs.VP8_recon_pass.
From WebP Require Model.Vp8Parse.
Import ListNotations.
Open Scope Z_scope.
Ltac Zify.zify_post_hook ::= Z.div_mod_to_equations.

(* a decoder plane that holds a reference plane sample by sample agrees with its array on the whole buffer *)
Lemma prel_pst p a w h : 0 < w -> 0 <= h -> prel p a w h -> pbytes p -> pst a (p_a p) w h.
Proof.
  intros Hw Hh Hp Hb. pose proof Hp as (Ew & Hlen & Hal & Hc).
  split; [|split; [apply (prel_bytes_in p a w h); try assumption; lia | exact Hlen]].
  split; [congruence|]. intros n Hn.
  assert (Hn' : Z.of_N n < w * h) by (unfold alenZ in Hlen; lia).
  pose proof (Z.mod_pos_bound (Z.of_N n) w Hw) as Hm.
  assert (Hq : 0 <= Z.of_N n / w < h).
  { split; [apply Z.div_pos; lia|]. apply Z.div_lt_upper_bound; [lia|]. nia. }
  replace n with (Z.to_N (Z.of_N n / w * w + Z.of_N n mod w)) at 1 2
    by (pose proof (Z.div_mod (Z.of_N n) w ltac:(lia)); lia).
  rewrite Hc by lia. unfold pget. rewrite ltb_false by lia. rewrite ltb_false by lia. rewrite Ew. reflexivity.
Qed.

Lemma planes_rel_frel3 mbw mbh pl s : 0 < mbw -> 0 <= mbh -> planes_rel mbw mbh pl s ->
  frel3 mbw mbh pl (rs_ybuf s, rs_ubuf s, rs_vbuf s).
Proof.
  intros Hw Hh (Ry & Ru & Rv & By & Bu & Bv).
  split; [destruct Ry as (E & _); exact E|]. split; [destruct Ru as (E & _); exact E|]. split; [destruct Rv as (E & _); exact E|].
  cbn [fst snd]. split; [apply prel_pst; try assumption; lia|]. split; apply prel_pst; try assumption; lia.
Qed.

Lemma spec_filter_pw hs mss rss pl :
  p_w (pl_y (VP8.loop_filter hs mss rss pl)) = p_w (pl_y pl) /\
  p_w (pl_u (VP8.loop_filter hs mss rss pl)) = p_w (pl_u pl) /\
  p_w (pl_v (VP8.loop_filter hs mss rss pl)) = p_w (pl_v pl).
Proof.
  assert (Hmb : forall pl mx my m r, p_w (pl_y (filter_mb hs pl mx my m r)) = p_w (pl_y pl) /\
                                     p_w (pl_u (filter_mb hs pl mx my m r)) = p_w (pl_u pl) /\
                                     p_w (pl_v (filter_mb hs pl mx my m r)) = p_w (pl_v pl)).
  { intros q mx my m r. unfold filter_mb.
    destruct (f_limit (filter_strength hs (m_seg m) (m_i4 m)) =? 0); [repeat split|].
    destruct (filter_type hs =? 1); repeat split. }
  assert (Hrow : forall ms rs q mx my, p_w (pl_y (filter_row hs q mx my ms rs)) = p_w (pl_y q) /\
                                       p_w (pl_u (filter_row hs q mx my ms rs)) = p_w (pl_u q) /\
                                       p_w (pl_v (filter_row hs q mx my ms rs)) = p_w (pl_v q)).
  { induction ms as [|m ms IH]; intros rs q mx my; [repeat split|]. destruct rs as [|r rs]; [repeat split|].
    cbn [filter_row]. destruct (IH rs (filter_mb hs q mx my m r) (mx + 1) my) as (A & B & C).
    destruct (Hmb q mx my m r) as (A' & B' & C'). repeat split; congruence. }
  assert (Hrows : forall mss rss q my, p_w (pl_y (filter_rows hs q my mss rss)) = p_w (pl_y q) /\
                                       p_w (pl_u (filter_rows hs q my mss rss)) = p_w (pl_u q) /\
                                       p_w (pl_v (filter_rows hs q my mss rss)) = p_w (pl_v q)).
  { induction mss0 as [|ms mss0 IH]; intros rss0 q my; [repeat split|]. destruct rss0 as [|rs rss0]; [repeat split|].
    cbn [filter_rows]. destruct (IH rss0 (filter_row hs q 0 my ms rs) (my + 1)) as (A & B & C).
    destruct (Hrow ms rs q 0 my) as (A' & B' & C'). repeat split; congruence. }
  unfold VP8.loop_filter. destruct (filter_type hs =? 0); [repeat split|apply Hrows].
Qed.

Lemma chroma_half v : 0 <= v -> Z.shiftr (v + 1) 1 = (v + 1) / 2.
Proof. intros H. rewrite Z.shiftr_div_pow2 by lia. reflexivity. Qed.

(* the returned planes, for any parse results related as above *)
Theorem decode_frame_planes_refines h hs inp mss rss :
  dims_rel h hs -> h_width hs <= 16383 -> h_height hs <= 16383 ->
  filt_rel h hs -> lf_valid hs ->
  frame_rel (mb_w hs) inp mss rss -> Z.of_nat (length mss) = mb_h hs ->
  let pl := VP8.loop_filter hs mss rss (VP8.reconstruct hs mss rss) in
  let w := h_width hs in let hh := h_height hs in
  let cw := Z.shiftr (w + 1) 1 in let ch := Z.shiftr (hh + 1) 1 in
  Vp8Recon.decode_frame_planes h inp = Ok (VP8.crop (pl_y pl) w hh, VP8.crop (pl_u pl) cw ch, VP8.crop (pl_v pl) cw ch).
Proof.
  intros Hd Hwmax Hhmax Hf Hv Hfr Hlen. cbv zeta.
  pose proof Hd as (Ew & Eh & Emw & Emh & Hw & Hh).
  destruct (mb_w_bounds hs Hw) as (Hmw0 & Hmw1). destruct (mb_h_bounds hs Hh) as (Hmh0 & Hmh1).
  destruct (reconstruct_refines h hs inp mss rss Hd Hfr Hlen) as (s & Es & Hpl & Em).
  rewrite <- Emw, <- Emh in Hpl.
  pose proof (planes_rel_frel3 (rh_mbwidth h) (rh_mbheight h) _ s ltac:(lia) ltac:(lia) Hpl) as Hrel.
  rewrite <- Emw in Hfr.
  destruct (filter_frame_refines h hs inp mss rss (VP8.reconstruct hs mss rss) (rs_ybuf s, rs_ubuf s, rs_vbuf s)
              Hf Hv Hfr ltac:(lia) ltac:(lia) Hrel) as (b' & Ef & Hrel').
  destruct b' as [[y u] v]. destruct Hrel' as (Wy & Wu & Wv & (Ry & _ & Ly) & (Ru & _ & Lu) & (Rv & _ & Lv)). cbn [fst snd] in *.
  unfold decode_frame_planes, decode_frame_recon. rewrite Es. cbn [bind]. rewrite Em, Ef. cbn [bind].
  unfold chroma_size. rewrite Ew, Eh. rewrite (ltb_false 65535 (h_width hs + 1)), (ltb_false 65535 (h_height hs + 1)) by lia. cbn [bind].
  rewrite (crop_plane_refines y _ (rh_mbwidth h * 16) (h_width hs) (h_height hs) (rh_mbheight h * 16) Ry Wy Ly) by lia. cbn [bind].
  rewrite (crop_plane_refines u _ (rh_mbwidth h * 8) ((h_width hs + 1) / 2) ((h_height hs + 1) / 2) (rh_mbheight h * 8) Ru Wu Lu)
    by lia. cbn [bind].
  rewrite (crop_plane_refines v _ (rh_mbwidth h * 8) ((h_width hs + 1) / 2) ((h_height hs + 1) / 2) (rh_mbheight h * 8) Rv Wv Lv)
    by lia. cbn [bind snd].
  rewrite !chroma_half by lia. reflexivity.
Qed.

Lemma to_list_aeq a b : aeq a b -> to_list a = to_list b.
Proof.
  intros [L E]. rewrite !to_list_spec, <- L. apply map_ext_in. intros j Hj. apply in_seq in Hj. apply E. lia.
Qed.

(* both components of decode_frame_recon: the macroblock-aligned planes before the filter pass are the reference's
   reconstructed planes (what the recording hook observes), and the returned planes as above *)
Theorem decode_frame_recon_refines h hs inp mss rss :
  dims_rel h hs -> h_width hs <= 16383 -> h_height hs <= 16383 ->
  filt_rel h hs -> lf_valid hs ->
  frame_rel (mb_w hs) inp mss rss -> Z.of_nat (length mss) = mb_h hs ->
  let rec := VP8.reconstruct hs mss rss in
  let pl := VP8.loop_filter hs mss rss rec in
  let w := h_width hs in let hh := h_height hs in
  let cw := Z.shiftr (w + 1) 1 in let ch := Z.shiftr (hh + 1) 1 in
  Vp8Recon.decode_frame_recon h inp =
  Ok ((to_list (p_a (pl_y rec)), to_list (p_a (pl_u rec)), to_list (p_a (pl_v rec))),
      (VP8.crop (pl_y pl) w hh, VP8.crop (pl_u pl) cw ch, VP8.crop (pl_v pl) cw ch)).
Proof.
  intros Hd Hwmax Hhmax Hf Hv Hfr Hlen rec. cbv zeta.
  pose proof (decode_frame_planes_refines h hs inp mss rss Hd Hwmax Hhmax Hf Hv Hfr Hlen) as Hp. cbv zeta in Hp.
  pose proof Hd as (Ew & Eh & Emw & Emh & Hw & Hh).
  destruct (mb_w_bounds hs Hw) as (Hmw0 & Hmw1). destruct (mb_h_bounds hs Hh) as (Hmh0 & Hmh1).
  destruct (reconstruct_refines h hs inp mss rss Hd Hfr Hlen) as (s & Es & Hpl & Em).
  pose proof (planes_rel_frel3 (mb_w hs) (mb_h hs) _ s ltac:(lia) ltac:(lia) Hpl) as (_ & _ & _ & (Ry & _) & (Ru & _) & (Rv & _)).
  cbn [fst snd] in Ry, Ru, Rv.
  unfold decode_frame_planes in Hp. unfold decode_frame_recon in *. rewrite Es in *. cbn [bind] in *.
  destruct (filter_frame h (rs_macroblocks s) (rs_ybuf s, rs_ubuf s, rs_vbuf s)) as [[[y u] v]| | |]; cbn [bind] in Hp |- *; try discriminate Hp.
  destruct (chroma_size (rh_width h)) as [cw| | |]; cbn [bind] in Hp |- *; try discriminate Hp.
  destruct (chroma_size (rh_height h)) as [ch| | |]; cbn [bind] in Hp |- *; try discriminate Hp.
  destruct (crop_plane y (rh_mbwidth h * 16) (rh_width h) (rh_height h)) as [fy| | |]; cbn [bind] in Hp |- *; try discriminate Hp.
  destruct (crop_plane u (rh_mbwidth h * 8) cw ch) as [fu| | |]; cbn [bind] in Hp |- *; try discriminate Hp.
  destruct (crop_plane v (rh_mbwidth h * 8) cw ch) as [fv| | |]; cbn [bind] in Hp |- *; try discriminate Hp.
  cbn [snd] in Hp. injection Hp as -> -> ->.
  fold rec in Ry, Ru, Rv. rewrite (to_list_aeq _ _ Ry), (to_list_aeq _ _ Ru), (to_list_aeq _ _ Rv). reflexivity.
Qed.

(* ... and these are the planes Spec.VP8.decode_frame returns on the stream whose parse results they are *)
Theorem decode_frame_recon_is_spec data hs s parts mss s' rss parts' f h inp :
  parse_header data = Some (hs, s, parts) ->
  parse_modes hs s = (mss, s') ->
  parse_tokens hs mss (map bd_init parts) = (rss, parts') ->
  VP8.decode_frame data = Some f ->
  dims_rel h hs -> h_width hs <= 16383 -> h_height hs <= 16383 -> filt_rel h hs -> lf_valid hs ->
  frame_rel (mb_w hs) inp mss rss -> Z.of_nat (length mss) = mb_h hs ->
  Vp8Recon.decode_frame_planes h inp = Ok (fr_y f, fr_u f, fr_v f) /\ fr_w f = rh_width h /\ fr_h f = rh_height h.
Proof.
  intros Eh Em Et Ed Hd Hwmax Hhmax Hf Hv Hfr Hlen.
  unfold VP8.decode_frame in Ed. rewrite Eh, Em in Ed.
  destruct (starved s'); [discriminate|]. rewrite Et in Ed.
  destruct (existsb starved (firstn (Z.to_nat (Z.min (h_num_parts hs) (mb_h hs))) parts')); [discriminate|].
  injection Ed as <-. cbn [fr_y fr_u fr_v fr_w fr_h].
  split; [apply (decode_frame_planes_refines h hs inp mss rss); assumption|].
  destruct Hd as (Ew & Ehh & _). split; congruence.
Qed.
